import Isotp.Proofs.LockstepTx
/-
  C01, liveness half, part 3: the receiving layer B, pass by pass.

  `mkB cb ab y` is the state of a layer built by `State.init cb ab` that has done nothing but receive (and answer
  with Flow Control frames): the transmit-side fields are still the initial ones, the reception-side fields are
  the parameters `y : BP`. The lemmas `passB_*` give the parameters after a `process()` call, exactly.
-/
namespace Isotp.Lockstep
open Isotp Isotp.State Isotp.Spec Isotp.Proofs

/-! ## what the frames of the sender look like to the receiver -/

section frames
variable (ca : Cfg) (aa : Addr) (p : Bytes)

theorem carried_eq (tc : TxCfg) (n k : Nat) (hk : 1 ≤ k) (h : carried tc n k < n) :
    carried tc n k = ffRoom tc n + (k - 1) * cfRoom tc := by
  obtain ⟨j, rfl⟩ : ∃ j, k = j + 1 := ⟨k - 1, by omega⟩
  rw [carried_succ] at h ⊢
  simp only [Nat.add_sub_cancel]
  omega

/-- the First Frame is exactly `tx_data_length` bytes long: no padding -/
theorem ffData_eq (hva : ca.valid = true) (hff : NeedsFF (TxCfg.of ca aa) p.length) :
    ffData (TxCfg.of ca aa) p =
      aa.tx.txPrefix ++ ffHeader p.length ++ p.take (ffRoom (Spec.streamCfg ca.txDl aa.tx.txPrefix) p.length) := by
  have hv := Compose.txCfg_valid ca aa hva
  have hlt := ffRoom_lt _ _ hff (valid_of ca aa hva)
  have hsum := Seg.ffHeader_add_ffRoom _ hv p.length
  unfold ffData
  rw [Seg.padFrame_full _ hv]
  · rfl
  · simp only [List.length_append, List.length_take]
    omega

/-- a Consecutive Frame that is not the last one is full: no padding -/
theorem cfData_full (hva : ca.valid = true) (k : Nat) (hk : 1 ≤ k)
    (hmore : carried (TxCfg.of ca aa) p.length (k + 1) < p.length) :
    cfData (TxCfg.of ca aa) p k =
      Spec.cfOf (TxCfg.of ca aa).pre (k - 1)
        ((p.drop (ffRoom (TxCfg.of ca aa) p.length + (k - 1) * cfRoom (TxCfg.of ca aa))).take (cfRoom (TxCfg.of ca aa))) := by
  have hv := Compose.txCfg_valid ca aa hva
  have hroom := Seg.cfRoom_add _ hv
  have hle := carried_le (TxCfg.of ca aa) p.length (k + 1)
  have hck : carried (TxCfg.of ca aa) p.length k < p.length := by
    have := carried_step (TxCfg.of ca aa) p.length k hk
    by_cases h : carried (TxCfg.of ca aa) p.length k < p.length
    · exact h
    · have h1 : carried (TxCfg.of ca aa) p.length k = p.length := by
        have := carried_le (TxCfg.of ca aa) p.length k; omega
      obtain ⟨j, rfl⟩ : ∃ j, k = j + 1 := ⟨k - 1, by omega⟩
      rw [carried_succ] at h1 hmore
      have : (j + 1) * cfRoom (TxCfg.of ca aa) = j * cfRoom (TxCfg.of ca aa) + cfRoom (TxCfg.of ca aa) := by
        rw [Nat.add_mul, Nat.one_mul]
      omega
  have hstep := carried_step (TxCfg.of ca aa) p.length k hk hck
  have hc := carried_eq (TxCfg.of ca aa) p.length k hk hck
  unfold cfData Spec.cfOf
  have hk1 : (k - 1 + 1) % 16 = k % 16 := by rw [Nat.sub_add_cancel hk]
  rw [Seg.padFrame_full _ hv, hc, hk1]
  simp only [List.length_append, List.length_take, List.length_drop, List.length_cons, List.length_nil]
  omega

/-- the last Consecutive Frame: the remaining bytes, then padding -/
theorem cfData_last (k : Nat) (hk : 1 ≤ k)
    (hck : carried (TxCfg.of ca aa) p.length k < p.length)
    (hlast : carried (TxCfg.of ca aa) p.length (k + 1) = p.length) :
    ∃ pad, cfData (TxCfg.of ca aa) p k =
      Spec.cfOf (TxCfg.of ca aa).pre (k - 1)
        (p.drop (ffRoom (TxCfg.of ca aa) p.length + (k - 1) * cfRoom (TxCfg.of ca aa)) ++ pad) := by
  have hstep := carried_step (TxCfg.of ca aa) p.length k hk hck
  have hc := carried_eq (TxCfg.of ca aa) p.length k hk hck
  have hk1 : (k - 1 + 1) % 16 = k % 16 := by rw [Nat.sub_add_cancel hk]
  have hpf : ∀ (b : UInt8) (d : Bytes), ∃ pad, padFrame (TxCfg.of ca aa) ((TxCfg.of ca aa).pre ++ [b] ++ d) =
      (TxCfg.of ca aa).pre ++ [b] ++ (d ++ pad) := fun b d => ⟨_, by rw [Seg.padFrame_eq, List.append_assoc _ d]⟩
  unfold cfData Spec.cfOf
  rw [hk1, ← hc, List.take_of_length_le (by rw [List.length_drop]; omega)]
  exact hpf _ _

/-- the frames of A pass the address filter of a layer whose receive address is the mirror of A's transmit address -/
theorem wireA_accepted (k : Nat) (hw : aa.tx.txWf = true) :
    (Spec.mirror aa.tx).isForMe (wireA ca aa p k) = true := by
  have : ∃ r, (wireA ca aa p k).data = aa.tx.txPrefix ++ r := by
    unfold wireA frameData ffData cfData
    split
    · rw [List.append_assoc]; exact Compose.padFrame_prefix _ _ _
    · rw [List.append_assoc]; exact Compose.padFrame_prefix _ _ _
  obtain ⟨r, hr⟩ := this
  exact C09.mirror_accepts aa.tx .physical _ r hw rfl rfl hr

end frames

/-! ## the receiver's state -/

/-- the reception-side fields (and clock, inbox, log) of the receiver -/
structure BP where
  now             : Nat := 0
  rxState         : RxSt := .idle
  rxBuf           : Bytes := []
  rxFrameLen      : Nat := 0
  lastSeq         : Nat := 0
  rxBlockCnt      : Nat := 0
  actualRxdl      : Option Nat := none
  timerCf         : Option Nat := none       -- start of the N_Cr timer (its timeout is `cb.tCf`)
  pendingFc       : Bool := false
  pendingFcStatus : Option Nat := none
  rxQueue         : List Bytes := []
  inbox           : List (Nat × CanMsg) := []
  log             : List Ev := []

def mkB (cb : Cfg) (ab : Addr) (y : BP) : State :=
  { cfg := cb, addr := ab, now := y.now, rxState := y.rxState, rxBuf := y.rxBuf, rxFrameLen := y.rxFrameLen,
    lastSeq := y.lastSeq, rxBlockCnt := y.rxBlockCnt, actualRxdl := y.actualRxdl,
    timerCf := { start := y.timerCf, timeout := cb.tCf }, pendingFc := y.pendingFc,
    pendingFcStatus := y.pendingFcStatus, rxQueue := y.rxQueue,
    timerFc := { timeout := cb.tFc }, rl := { enabled := cb.rlEnable }, inbox := y.inbox, log := y.log }

theorem init_eq_mkB (cb : Cfg) (ab : Addr) : State.init cb ab = mkB cb ab {} := rfl

theorem rlUpd_mkB (cb : Cfg) (ab : Addr) (y : BP) : rlUpd (mkB cb ab y) = mkB cb ab y := by
  simp [rlUpd, mkB, limiter_update_fresh]

theorem enter_mkB (cb : Cfg) (ab : Addr) (y : BP) (now : Nat) :
    enter now (mkB cb ab y) = mkB cb ab { y with now := now, log := [] } := rfl

theorem pushAll_mkB (cb : Cfg) (ab : Addr) (y : BP) (ms : List CanMsg) :
    pushAll (mkB cb ab y) ms = mkB cb ab { y with inbox := y.inbox ++ ms.map (fun m => (0, m)) } := rfl

theorem emit_mkB (cb : Cfg) (ab : Addr) (y : BP) (e : Ev) :
    (mkB cb ab y).emit e = mkB cb ab { y with log := e :: y.log } := rfl

theorem sw_false_mkB (cb : Cfg) (ab : Addr) (y : BP) :
    (!(mkB cb ab y).txQueue.isEmpty && decide ((mkB cb ab y).rxState = .idle) &&
      decide ((mkB cb ab y).txState = .idle)) = false := by
  simp [mkB]

/-- the N_Cr timer does not fire at `now`: it is stopped, or it was started at most `tCf` ago -/
def TimerOk (cb : Cfg) (y : BP) : Prop := y.timerCf = none ∨ (∃ t, y.timerCf = some t ∧ y.now ≤ t + cb.tCf ∧ cb.tCf ≠ 0)

theorem checkTimeoutsRx_mkB (cb : Cfg) (ab : Addr) (y : BP) (h : TimerOk cb y) :
    (mkB cb ab y).checkTimeoutsRx = mkB cb ab y := by
  apply checkTimeoutsRx_noop
  rcases h with h | ⟨t, h, hle, h0⟩
  · simp only [mkB, h]; rfl
  · simp only [mkB, h]; exact timedOut_running _ _ _ hle h0

/-! ## `_process_tx` of the receiver -/

/-- idle, empty queue, no exception: the transmit pass does nothing (any layer) -/
theorem processTx_idle_gen (s : State) (hst : s.txState = .idle) (hq : s.txQueue = []) (hlf : s.lastFc = none)
    (hp : s.pendingFc = false) (htf : s.timerFc.start = none) (hexc : s.exc = none) :
    s.processTx = (s, none, false) := by
  have h1 : s.processTx = Fc.finish (Fc.fsm (Fc.afterDepleted s) (Fc.allowedNow s)) :=
    Fc.processTx_quiet s hp hlf (Fc.timedOut_of_stopped htf _) (by intro h; exact absurd hst h)
  have h2 : Fc.afterDepleted s = s := by
    rw [Fc.afterDepleted_eq]; simp [Fc.depletedCond, hst]
  have h3 : Fc.fsm s (Fc.allowedNow s) = ({ s with txQueue := [] }, none, false) := by
    unfold Fc.fsm
    simp only [hst, hq, readTxQueue]
  have h4 : ({ s with txQueue := [] } : State) = s := by cases s; simp_all
  rw [h1, h2, h3, h4]
  simp [Fc.finish, hexc]

theorem processTx_idle_mkB (cb : Cfg) (ab : Addr) (y : BP) (hp : y.pendingFc = false) :
    (mkB cb ab y).processTx = (mkB cb ab y, none, false) :=
  processTx_idle_gen _ rfl rfl rfl hp rfl rfl

/-- a Flow Control requested by the reception side goes out first; the N_Cr timer is (re)started -/
theorem processTx_fc_mkB (cb : Cfg) (ab : Addr) (y : BP) (fcm : CanMsg) (hl : cb.listen = false)
    (hp : y.pendingFc = true) (hst : y.pendingFcStatus = some 0) (hm : makeFlowControl cb ab 0 = some fcm) :
    (mkB cb ab y).processTx = (mkB cb ab { y with pendingFc := false, timerCf := some y.now }, some fcm, true) := by
  rw [Rx.processTx_sends_fc (mkB cb ab y) 0 fcm hp hst hl hm]
  rfl


/-! ## `_process_rx` of the receiver on the frames of the sender -/

section rx
variable (ca cb : Cfg) (aa ab : Addr) (p : Bytes)

/-- a reception in progress: First Frame and `i` Consecutive Frames of `p` received -/
structure SessB (y : BP) (i : Nat) : Prop where
  st   : y.rxState = .waitCf
  fl   : y.rxFrameLen = p.length
  buf  : y.rxBuf = p.take (carried (TxCfg.of ca aa) p.length (i + 1))
  more : carried (TxCfg.of ca aa) p.length (i + 1) < p.length
  seq  : y.lastSeq = i % 16
  blk  : y.rxBlockCnt = i
  rxdl : y.actualRxdl = some ca.txDl

theorem SessB.rxSession {y : BP} {i : Nat} (h : SessB ca aa p y i) :
    Rx.RxSession (TxCfg.of ca aa) (mkB cb ab y) p i := by
  have hc := carried_eq (TxCfg.of ca aa) p.length (i + 1) (by omega) h.more
  simp only [Nat.add_sub_cancel] at hc
  exact ⟨h.st, h.fl, by rw [← hc]; exact h.buf, by rw [← hc]; exact h.more, h.seq, h.blk, h.rxdl⟩

theorem arrived_mkB (y : BP) (m : CanMsg) (rest : List (Nat × CanMsg)) (h : TimerOk cb y) :
    arrived (mkB cb ab y) 0 m rest = mkB cb ab { y with inbox := rest, log := .rx y.now m :: y.log } := by
  unfold arrived
  exact checkTimeoutsRx_mkB cb ab { y with inbox := rest, log := .rx y.now m :: y.log } h

/-- the setting as the receiver sees it -/
structure RxSetting : Prop where
  va     : ca.valid = true
  wfA    : aa.tx.txWf = true
  mirror : ab.rx = Spec.mirror aa.tx
  ff     : NeedsFF (TxCfg.of ca aa) p.length
  h32    : p.length < 4294967296
  hmax   : p.length ≤ cb.maxFrameSize

theorem RxSetting.forMe (hs : RxSetting ca cb aa ab p) (k : Nat) : ab.rx.isForMe (wireA ca aa p k) = true := by
  rw [hs.mirror]; exact wireA_accepted ca aa p k hs.wfA

theorem RxSetting.pre (hs : RxSetting ca cb aa ab p) : (TxCfg.of ca aa).pre.length = ab.rx.rxPrefixSize := by
  rw [hs.mirror, Compose.mirror_rxPrefixSize]; rfl

/-- the First Frame opens the session and requests a ContinueToSend -/
theorem processRx_ff (hs : RxSetting ca cb aa ab p) (y : BP) (hst : y.rxState = .idle) :
    (mkB cb ab y).processRx (wireA ca aa p 0) =
      (mkB cb ab { y with rxState := .waitCf, rxFrameLen := p.length,
                          rxBuf := p.take (carried (TxCfg.of ca aa) p.length 1), lastSeq := 0, rxBlockCnt := 0,
                          actualRxdl := some ca.txDl, pendingFc := true, pendingFcStatus := some 0,
                          timerCf := some y.now }, true, false) := by
  have hvt := valid_of ca aa hs.va
  have h := Rx.ff_step_eq (mkB cb ab y) (wireA ca aa p 0) ca.txDl aa.tx.txPrefix p (hs.pre) hvt.txDl hs.h32
    (show ffRoom (Spec.streamCfg ca.txDl aa.tx.txPrefix) p.length < p.length from ffRoom_lt (TxCfg.of ca aa) _ hs.ff hvt)
    hs.hmax (ffData_eq ca aa p hs.va hs.ff)
  rw [h, carried_one _ _ hvt hs.ff]
  have hi : (mkB cb ab y).rxState = .idle := hst
  simp only [hi, if_true]
  rfl

/-- a Consecutive Frame that neither ends the message nor completes a block -/
theorem processRx_cf (hs : RxSetting ca cb aa ab p) (y : BP) (i : Nat) (hy : SessB ca aa p y i)
    (hmore : carried (TxCfg.of ca aa) p.length (i + 2) < p.length) :
    (mkB cb ab y).processRx (wireA ca aa p (i + 1)) =
      if 0 < cb.blocksize ∧ (i + 1) % cb.blocksize = 0 then
        (mkB cb ab { y with lastSeq := (i + 1) % 16, rxBuf := p.take (carried (TxCfg.of ca aa) p.length (i + 2)),
                            rxBlockCnt := i + 1, pendingFc := true, pendingFcStatus := some 0, timerCf := none },
          true, false)
      else
        (mkB cb ab { y with lastSeq := (i + 1) % 16, rxBuf := p.take (carried (TxCfg.of ca aa) p.length (i + 2)),
                            rxBlockCnt := i + 1, timerCf := some y.now }, y.pendingFc, false) := by
  have hvt := valid_of ca aa hs.va
  have hdl := txDl_fix _ hvt
  have hc := carried_eq (TxCfg.of ca aa) p.length (i + 2) (by omega) hmore
  simp only [show i + 2 - 1 = i + 1 from rfl] at hc
  have hm := cfData_full ca aa p hs.va (i + 1) (by omega) hmore
  simp only [Nat.add_sub_cancel] at hm
  have hd : (wireA ca aa p (i + 1)).data = cfData (TxCfg.of ca aa) p (i + 1) := by
    show frameData (TxCfg.of ca aa) p (i + 1) = _
    simp only [frameData, Nat.add_one_ne_zero, if_false]
  have h : (mkB cb ab y).processRx (wireA ca aa p (i + 1)) =
      if 0 < cb.blocksize ∧ (i + 1) % cb.blocksize = 0 then
        (mkB cb ab { y with lastSeq := (i + 1) % 16,
                            rxBuf := p.take (ffRoom (TxCfg.of ca aa) p.length + (i + 1) * cfRoom (TxCfg.of ca aa)),
                            rxBlockCnt := i + 1, pendingFc := true, pendingFcStatus := some 0, timerCf := none },
          true, false)
      else
        (mkB cb ab { y with lastSeq := (i + 1) % 16,
                            rxBuf := p.take (ffRoom (TxCfg.of ca aa) p.length + (i + 1) * cfRoom (TxCfg.of ca aa)),
                            rxBlockCnt := i + 1, timerCf := some y.now }, y.pendingFc, false) :=
    Rx.cf_step_eq (TxCfg.of ca aa) (mkB cb ab y) (wireA ca aa p (i + 1)) p i (hy.rxSession ca cb aa ab p)
      hs.pre (by have := hvt.pre; omega) hdl.2.1 (by rw [← hc]; exact hmore) (hd.trans hm)
  rw [h, ← hc]

/-- the last Consecutive Frame: the payload is delivered, the session ends -/
theorem processRx_last (hs : RxSetting ca cb aa ab p) (y : BP) (i : Nat) (hy : SessB ca aa p y i)
    (hlast : carried (TxCfg.of ca aa) p.length (i + 2) = p.length) :
    (mkB cb ab y).processRx (wireA ca aa p (i + 1)) =
      (mkB cb ab { y with lastSeq := (i + 1) % 16, actualRxdl := none, rxState := .idle, rxBuf := [],
                          pendingFc := false, timerCf := none, log := .deliver p :: y.log,
                          rxQueue := y.rxQueue ++ [p] }, false, true) := by
  obtain ⟨pad, hm⟩ := cfData_last ca aa p (i + 1) (by omega) hy.more hlast
  simp only [Nat.add_sub_cancel] at hm
  have hd : (wireA ca aa p (i + 1)).data = cfData (TxCfg.of ca aa) p (i + 1) := by
    show frameData (TxCfg.of ca aa) p (i + 1) = _
    simp only [frameData, Nat.add_one_ne_zero, if_false]
  exact Rx.last_cf_step_eq (TxCfg.of ca aa) (mkB cb ab y) (wireA ca aa p (i + 1)) p pad i
    (hy.rxSession ca cb aa ab p) hs.pre (hd.trans hm)

end rx


/-! ## the receive loop of the receiver -/

section loops
variable (ca cb : Cfg) (aa ab : Addr) (p : Bytes)

/-- inbox entries for frames `k, k+1, …, k+c-1` of the sender -/
def cfMsgs (k c : Nat) : List (Nat × CanMsg) := (List.range c).map (fun t => (0, wireA ca aa p (k + t)))

theorem cfMsgs_zero (k : Nat) : cfMsgs ca aa p k 0 = [] := rfl

theorem cfMsgs_succ (k c : Nat) : cfMsgs ca aa p k (c + 1) = (0, wireA ca aa p k) :: cfMsgs ca aa p (k + 1) c := by
  unfold cfMsgs
  rw [List.range_succ_eq_map, List.map_cons, List.map_map]
  congr 1
  apply List.map_congr_left
  intro t _
  simp only [Function.comp]
  congr 2
  omega

theorem cfMsgs_snoc (k c : Nat) :
    cfMsgs ca aa p k (c + 1) = cfMsgs ca aa p k c ++ [(0, wireA ca aa p (k + c))] := by
  unfold cfMsgs
  rw [List.range_succ, List.map_append]
  rfl

theorem cfMsgs_map (k c : Nat) (ms : List CanMsg) (h : ms = (List.range c).map (fun t => wireA ca aa p (k + t))) :
    ms.map (fun m => ((0 : Nat), m)) = cfMsgs ca aa p k c := by
  subst h; simp [cfMsgs, List.map_map, Function.comp_def]

/-- the receiver after a Consecutive Frame that neither ends the message nor completes a block -/
def stepPlain (y : BP) (i : Nat) (rest : List (Nat × CanMsg)) : BP :=
  { y with inbox := rest, log := .rx y.now (wireA ca aa p (i + 1)) :: y.log, lastSeq := (i + 1) % 16,
           rxBuf := p.take (carried (TxCfg.of ca aa) p.length (i + 2)), rxBlockCnt := i + 1,
           timerCf := some y.now }

theorem SessB.congr {y y' : BP} {i : Nat} (h : SessB ca aa p y i) (h1 : y'.rxState = y.rxState)
    (h2 : y'.rxFrameLen = y.rxFrameLen) (h3 : y'.rxBuf = y.rxBuf) (h4 : y'.lastSeq = y.lastSeq)
    (h5 : y'.rxBlockCnt = y.rxBlockCnt) (h6 : y'.actualRxdl = y.actualRxdl) : SessB ca aa p y' i :=
  ⟨h1 ▸ h.st, h2 ▸ h.fl, h3 ▸ h.buf, h.more, h4 ▸ h.seq, h5 ▸ h.blk, h6 ▸ h.rxdl⟩

theorem stepPlain_sess (y : BP) (i : Nat) (rest : List (Nat × CanMsg)) (hy : SessB ca aa p y i)
    (hmore : carried (TxCfg.of ca aa) p.length (i + 2) < p.length) :
    SessB ca aa p (stepPlain ca aa p y i rest) (i + 1) :=
  ⟨hy.st, hy.fl, rfl, hmore, rfl, rfl, hy.rxdl⟩

theorem rxLoop_plain (hs : RxSetting ca cb aa ab p) (y : BP) (i : Nat) (st : Stats) (rest : List (Nat × CanMsg))
    (hy : SessB ca aa p y i) (hp : y.pendingFc = false) (ht : TimerOk cb y)
    (hmore : carried (TxCfg.of ca aa) p.length (i + 2) < p.length)
    (hnb : ¬ (0 < cb.blocksize ∧ (i + 1) % cb.blocksize = 0)) :
    ∃ st', rxLoop true (mkB cb ab y) st ((0, wireA ca aa p (i + 1)) :: rest) =
      rxLoop true (mkB cb ab (stepPlain ca aa p y i rest)) st' rest := by
  have hy0 : SessB ca aa p { y with inbox := rest, log := .rx y.now (wireA ca aa p (i + 1)) :: y.log } i :=
    hy.congr ca aa p rfl rfl rfl rfl rfl rfl
  have h : (arrived (mkB cb ab y) 0 (wireA ca aa p (i + 1)) rest).processRx (wireA ca aa p (i + 1)) =
      (mkB cb ab (stepPlain ca aa p y i rest), false, false) := by
    rw [arrived_mkB cb ab y _ rest ht, processRx_cf ca cb aa ab p hs _ i hy0 hmore, if_neg hnb]
    exact congrArg (fun b => (mkB cb ab (stepPlain ca aa p y i rest), b, false)) hp
  exact rxLoop_cons_next (mkB cb ab y) st 0 _ rest _ _ (hs.forMe ca cb aa ab p _) h rfl

/-- the receiver after `c` plain Consecutive Frames `i+1 … i+c` (then `rest` is still in the inbox) -/
def runPlain : Nat → BP → Nat → List (Nat × CanMsg) → BP
  | 0, y, _, _ => y
  | c + 1, y, i, rest => runPlain c (stepPlain ca aa p y i (cfMsgs ca aa p (i + 1 + 1) c ++ rest)) (i + 1) rest

/-- the conditions under which frames `i+1 … i+c` are "plain" for the receiver: none ends the message, none
    completes a block -/
def PlainRun (i c : Nat) : Prop :=
  ∀ t, t < c → carried (TxCfg.of ca aa) p.length (i + t + 2) < p.length ∧
    ¬ (0 < cb.blocksize ∧ (i + t + 1) % cb.blocksize = 0)

theorem PlainRun.tail {i c : Nat} (h : PlainRun ca cb aa p i (c + 1)) : PlainRun ca cb aa p (i + 1) c := by
  intro t htc
  have := h (t + 1) (by omega)
  have e1 : i + 1 + t + 2 = i + (t + 1) + 2 := by omega
  have e2 : i + 1 + t + 1 = i + (t + 1) + 1 := by omega
  rw [e1, e2]; exact this

/-- what is known about the receiver after a plain run -/
theorem runPlain_spec (h0 : cb.tCf ≠ 0) : ∀ (c : Nat) (y : BP) (i : Nat) (rest : List (Nat × CanMsg)),
    SessB ca aa p y i → y.pendingFc = false → TimerOk cb y → PlainRun ca cb aa p i c →
    SessB ca aa p (runPlain ca aa p c y i rest) (i + c) ∧ (runPlain ca aa p c y i rest).pendingFc = false ∧
    TimerOk cb (runPlain ca aa p c y i rest) ∧ (runPlain ca aa p c y i rest).now = y.now ∧
    (runPlain ca aa p c y i rest).rxQueue = y.rxQueue ∧
    (runPlain ca aa p c y i rest).pendingFcStatus = y.pendingFcStatus ∧
    ∃ evs, (runPlain ca aa p c y i rest).log = evs ++ y.log ∧ txsOf evs = [] ∧ NoErr evs := by
  intro c
  induction c with
  | zero =>
    intro y i rest hy hp ht _
    exact ⟨hy, hp, ht, rfl, rfl, rfl, [], rfl, rfl, NoErr_nil⟩
  | succ c ih =>
    intro y i rest hy hp ht hall
    obtain ⟨hm0, _⟩ := hall 0 (by omega)
    have hy1 := stepPlain_sess ca aa p y i (cfMsgs ca aa p (i + 1 + 1) c ++ rest) hy hm0
    have ht1 : TimerOk cb (stepPlain ca aa p y i (cfMsgs ca aa p (i + 1 + 1) c ++ rest)) :=
      Or.inr ⟨y.now, rfl, Nat.le_add_right _ _, h0⟩
    obtain ⟨hy', hp', ht', hn', hq', hps', evs, hl', he1, he2⟩ :=
      ih _ (i + 1) rest hy1 hp ht1 (hall.tail ca cb aa p)
    refine ⟨?_, hp', ht', hn', hq', hps', evs ++ [.rx y.now (wireA ca aa p (i + 1))], ?_, ?_, ?_⟩
    · have : i + (c + 1) = i + 1 + c := by omega
      rw [this]; exact hy'
    · show (runPlain ca aa p c _ (i + 1) rest).log = _
      rw [hl']; simp [stepPlain]
    · rw [txsOf_append, he1]; simp [txsOf, Net.txOf]
    · exact NoErr_append he2 (NoErr_cons NoErr_nil (by intro t x h; cases h))

/-- a run of Consecutive Frames none of which ends the message or completes a block: the loop goes through them -/
theorem rxLoop_plains (hs : RxSetting ca cb aa ab p) (h0 : cb.tCf ≠ 0) : ∀ (c : Nat) (y : BP) (i : Nat) (st : Stats)
    (rest : List (Nat × CanMsg)), SessB ca aa p y i → y.pendingFc = false → TimerOk cb y →
    PlainRun ca cb aa p i c →
    ∃ st', rxLoop true (mkB cb ab y) st (cfMsgs ca aa p (i + 1) c ++ rest) =
      rxLoop true (mkB cb ab (runPlain ca aa p c y i rest)) st' rest := by
  intro c
  induction c with
  | zero =>
    intro y i st rest _ _ _ _
    exact ⟨st, rfl⟩
  | succ c ih =>
    intro y i st rest hy hp ht hall
    obtain ⟨hm0, hb0⟩ := hall 0 (by omega)
    obtain ⟨st1, h1⟩ := rxLoop_plain ca cb aa ab p hs y i st (cfMsgs ca aa p (i + 1 + 1) c ++ rest) hy hp ht hm0 hb0
    have hy1 := stepPlain_sess ca aa p y i (cfMsgs ca aa p (i + 1 + 1) c ++ rest) hy hm0
    have ht1 : TimerOk cb (stepPlain ca aa p y i (cfMsgs ca aa p (i + 1 + 1) c ++ rest)) :=
      Or.inr ⟨y.now, rfl, Nat.le_add_right _ _, h0⟩
    obtain ⟨st', h2⟩ := ih _ (i + 1) st1 rest hy1 hp ht1 (hall.tail ca cb aa p)
    exact ⟨st', by rw [cfMsgs_succ, List.cons_append, h1, h2]; rfl⟩

end loops


/-! ## `process()` of the receiver, pass by pass -/

section passB
variable (ca cb : Cfg) (aa ab : Addr) (p : Bytes)

theorem rxLoop_nil_mkB (y : BP) (st : Stats) (ht : TimerOk cb y) :
    rxLoop true (mkB cb ab y) st [] = (mkB cb ab { y with inbox := [], log := .rxNone y.now :: y.log }, st, false) := by
  rw [rxLoop_nil]
  have : TimerOk cb { y with inbox := [], log := .rxNone y.now :: y.log } := ht
  have h := checkTimeoutsRx_mkB cb ab _ this
  exact congrArg (fun s => (s, st, false)) h

/-- an iteration of `process` in which nothing arrives and nothing is to be sent -/
theorem quietIterB (f : Nat) (st : Stats) (y : BP) (hib : y.inbox = []) (ht : TimerOk cb y)
    (hp : y.pendingFc = false) :
    ∃ st', processLoop (f + 1) true true (mkB cb ab y) st =
      (mkB cb ab { y with log := .rxNone y.now :: y.log }, st', false) := by
  have hrx : ∀ st, ∃ st', rxLoop true (mkB cb ab y) st (mkB cb ab y).inbox =
      (mkB cb ab { y with log := .rxNone y.now :: y.log }, st', false) := by
    intro st
    have h1 : (mkB cb ab y).inbox = [] := hib
    rw [h1, rxLoop_nil_mkB cb ab y st ht]
    have : ({ y with inbox := [], log := .rxNone y.now :: y.log } : BP) = { y with log := .rxNone y.now :: y.log } := by
      cases y; simp_all
    rw [this]
    exact ⟨st, rfl⟩
  obtain ⟨st', h⟩ := processLoop_iter f (mkB cb ab y) st _ (mkB cb ab { y with log := .rxNone y.now :: y.log })
    false false (sw_false_mkB cb ab y) hrx
    (fun n => ⟨n, by
      rw [rlUpd_mkB, txFuel_eq]
      exact txLoop_none _ _ _ _ (processTx_idle_mkB cb ab _ hp) rfl⟩) rfl
  exact ⟨st', by simpa using h⟩

/-- the tail of a pass in which the reception side asked for a Flow Control: it is sent, and a second, quiet
    iteration follows -/
theorem fcTailB (hl : cb.listen = false) (h0 : cb.tCf ≠ 0) (fcm : CanMsg) (hm : makeFlowControl cb ab 0 = some fcm)
    (F : Nat) (st : Stats) (s : State) (y : BP)
    (hrx : ∀ st, ∃ st', rxLoop true s st s.inbox = (mkB cb ab y, st', false))
    (hsw : (!s.txQueue.isEmpty && decide (s.rxState = .idle) && decide (s.txState = .idle)) = false)
    (hp : y.pendingFc = true) (hst : y.pendingFcStatus = some 0) (hib : y.inbox = []) :
    ∃ st', processLoop (F + 1 + 1) true true s st =
      (mkB cb ab { y with pendingFc := false, timerCf := some y.now,
                          log := .rxNone y.now :: .tx y.now fcm :: y.log }, st', false) := by
  obtain ⟨st1, h1⟩ := processLoop_iter (F + 1) s st (mkB cb ab y)
    (mkB cb ab { y with pendingFc := false, timerCf := some y.now, log := .tx y.now fcm :: y.log }) false true hsw hrx
    (fun n => ⟨n + 1, by
      rw [rlUpd_mkB, txFuel_eq]
      rw [txLoop_imm _ _ _ _ _ (processTx_fc_mkB cb ab y fcm hl hp hst hm) rfl]
      rfl⟩) rfl
  rw [h1]
  simp only [Bool.false_or, if_true]
  exact quietIterB cb ab F st1 { y with pendingFc := false, timerCf := some y.now, log := .tx y.now fcm :: y.log }
    hib (Or.inr ⟨y.now, rfl, Nat.le_add_right _ _, h0⟩) rfl

/-- receiver in a session after `i` Consecutive Frames, nothing pending, N_Cr timer started at `t` -/
structure SessAt (y : BP) (i t : Nat) : Prop where
  sess  : SessB ca aa p y i
  pend  : y.pendingFc = false
  queue : y.rxQueue = []
  timer : y.timerCf = some t

/-- receiver idle again with exactly `p` delivered -/
structure DoneB (y : BP) : Prop where
  st    : y.rxState = .idle
  pend  : y.pendingFc = false
  queue : y.rxQueue = [p]
  timer : y.timerCf = none

/-- the pass that receives the First Frame: session opened, ContinueToSend sent -/
theorem passB_FF (hs : RxSetting ca cb aa ab p) (hl : cb.listen = false) (h0 : cb.tCf ≠ 0) (fcm : CanMsg)
    (hm : makeFlowControl cb ab 0 = some fcm) (y : BP)
    (hst : y.rxState = .idle) (hq : y.rxQueue = []) (ht : y.timerCf = none)
    (hib : y.inbox = [(0, wireA ca aa p 0)]) (hlog : y.log = []) :
    ∃ y', ((mkB cb ab y).process true true).1 = mkB cb ab y' ∧ SessAt ca aa p y' 0 y.now ∧ y'.now = y.now ∧
      y'.inbox = [] ∧ txsOf y'.log = [fcm] ∧ NoErr y'.log := by
  have hvt := valid_of ca aa hs.va
  let y1 : BP := { y with
    inbox := [], log := [.rx y.now (wireA ca aa p 0)], rxState := .waitCf, rxFrameLen := p.length,
    rxBuf := p.take (carried (TxCfg.of ca aa) p.length 1), lastSeq := 0, rxBlockCnt := 0,
    actualRxdl := some ca.txDl, pendingFc := true, pendingFcStatus := some 0, timerCf := some y.now }
  have hprx : (arrived (mkB cb ab y) 0 (wireA ca aa p 0) []).processRx (wireA ca aa p 0) = (mkB cb ab y1, true, false) := by
    rw [arrived_mkB cb ab y _ [] (Or.inl ht),
      processRx_ff ca cb aa ab p hs { y with inbox := [], log := .rx y.now (wireA ca aa p 0) :: y.log } hst, hlog]
  have hrx : ∀ st, ∃ st', rxLoop true (mkB cb ab y) st (mkB cb ab y).inbox = (mkB cb ab y1, st', false) := by
    intro st
    have : (mkB cb ab y).inbox = [(0, wireA ca aa p 0)] := hib
    rw [this]
    exact rxLoop_cons_imm _ st 0 _ [] _ _ (hs.forMe ca cb aa ab p 0) hprx
  unfold State.process
  rw [processFuel_eq]
  obtain ⟨st', h⟩ := fcTailB cb ab hl h0 fcm hm _ {} (mkB cb ab y) y1 hrx (sw_false_mkB cb ab y) rfl rfl rfl
  rw [h]
  refine ⟨_, rfl, ⟨⟨rfl, rfl, rfl, carried_one_lt _ _ hvt hs.ff, rfl, rfl, rfl⟩, rfl, hq, rfl⟩, rfl, rfl, ?_, ?_⟩
  · simp [y1, txsOf_nil]
  · exact NoErr_cons (NoErr_cons (NoErr_cons NoErr_nil (by intro t x h; cases h)) (by intro t x h; cases h))
      (by intro t x h; cases h)

/-- a pass in which nothing arrives -/
theorem passB_quiet (y : BP) (hib : y.inbox = []) (ht : TimerOk cb y) (hp : y.pendingFc = false) :
    ((mkB cb ab y).process true true).1 = mkB cb ab { y with log := .rxNone y.now :: y.log } := by
  unfold State.process
  rw [processFuel_eq]
  obtain ⟨st', h⟩ := quietIterB cb ab _ {} y hib ht hp
  rw [h]



/-- the receive loop on `c` plain Consecutive Frames followed by one more frame, up to that frame -/
theorem rxLoop_run (hs : RxSetting ca cb aa ab p) (h0 : cb.tCf ≠ 0) (y : BP) (i c t0 : Nat) (st : Stats)
    (hy : SessAt ca aa p y i t0) (ht : y.now ≤ t0 + cb.tCf)
    (hib : y.inbox = cfMsgs ca aa p (i + 1) (c + 1)) (hpl : PlainRun ca cb aa p i c) :
    ∃ st', rxLoop true (mkB cb ab y) st (mkB cb ab y).inbox =
      rxLoop true (mkB cb ab (runPlain ca aa p c y i [(0, wireA ca aa p (i + 1 + c))])) st'
        [(0, wireA ca aa p (i + 1 + c))] := by
  have : (mkB cb ab y).inbox = cfMsgs ca aa p (i + 1) c ++ [(0, wireA ca aa p (i + 1 + c))] := by
    show y.inbox = _
    rw [hib, cfMsgs_snoc]
  rw [this]
  exact rxLoop_plains ca cb aa ab p hs h0 c y i st _ hy.sess hy.pend (Or.inr ⟨t0, hy.timer, ht, h0⟩) hpl

/-- a pass that receives `c` plain Consecutive Frames and then the last frame of the message: `p` is delivered -/
theorem passB_final (hs : RxSetting ca cb aa ab p) (h0 : cb.tCf ≠ 0) (y : BP) (i c t0 : Nat)
    (hy : SessAt ca aa p y i t0) (ht : y.now ≤ t0 + cb.tCf) (hlog : y.log = [])
    (hib : y.inbox = cfMsgs ca aa p (i + 1) (c + 1)) (hpl : PlainRun ca cb aa p i c)
    (hlast : carried (TxCfg.of ca aa) p.length (i + c + 2) = p.length) :
    ∃ y', ((mkB cb ab y).process true true).1 = mkB cb ab y' ∧ DoneB p y' ∧ y'.now = y.now ∧
      y'.inbox = [] ∧ txsOf y'.log = [] ∧ NoErr y'.log := by
  obtain ⟨hy1, hp1, ht1, hn1, hq1, _, evs, hl1, he1, he2⟩ :=
    runPlain_spec ca cb aa p h0 c y i [(0, wireA ca aa p (i + 1 + c))] hy.sess hy.pend
      (Or.inr ⟨t0, hy.timer, ht, h0⟩) hpl
  have hrun := fun st => rxLoop_run ca cb aa ab p hs h0 y i c t0 st hy ht hib hpl
  generalize runPlain ca aa p c y i [(0, wireA ca aa p (i + 1 + c))] = y1 at *
  have hic : i + 1 + c = i + c + 1 := by omega
  rw [hic] at hrun
  let y2 : BP := { y1 with
    inbox := [], log := .deliver p :: .rx y1.now (wireA ca aa p (i + c + 1)) :: y1.log,
    lastSeq := (i + c + 1) % 16, actualRxdl := none, rxState := .idle, rxBuf := [],
    pendingFc := false, timerCf := none, rxQueue := y1.rxQueue ++ [p] }
  have hy1' : SessB ca aa p { y1 with inbox := [], log := .rx y1.now (wireA ca aa p (i + c + 1)) :: y1.log } (i + c) :=
    hy1.congr ca aa p rfl rfl rfl rfl rfl rfl
  have hprx : (arrived (mkB cb ab y1) 0 (wireA ca aa p (i + c + 1)) []).processRx (wireA ca aa p (i + c + 1)) =
      (mkB cb ab y2, false, true) := by
    rw [arrived_mkB cb ab y1 _ [] ht1, processRx_last ca cb aa ab p hs _ (i + c) hy1' hlast]
  have hrx : ∀ st, ∃ st', rxLoop true (mkB cb ab y) st (mkB cb ab y).inbox =
      (mkB cb ab { y2 with inbox := [], log := .rxNone y2.now :: y2.log }, st', false) := by
    intro st
    obtain ⟨st1, h1⟩ := hrun st
    rw [h1]
    obtain ⟨st2, h2⟩ := rxLoop_cons_next (mkB cb ab y1) st1 0 _ [] _ _ (hs.forMe ca cb aa ab p _) hprx rfl
    rw [h2, rxLoop_nil_mkB cb ab y2 st2 (Or.inl rfl)]
    exact ⟨st2, rfl⟩
  unfold State.process
  rw [processFuel_eq]
  obtain ⟨st', h⟩ := processLoop_iter _ (mkB cb ab y) {} _
    (mkB cb ab { y2 with inbox := [], log := .rxNone y2.now :: y2.log }) false false (sw_false_mkB cb ab y) hrx
    (fun n => ⟨n, by
      rw [rlUpd_mkB, txFuel_eq]
      exact txLoop_none _ _ _ _ (processTx_idle_mkB cb ab _ rfl) rfl⟩) rfl
  rw [h]
  refine ⟨_, rfl, ⟨rfl, rfl, ?_, rfl⟩, hn1, rfl, ?_, ?_⟩
  · show y1.rxQueue ++ [p] = [p]
    rw [hq1, hy.queue]; rfl
  · show txsOf (.rxNone y1.now :: .deliver p :: .rx y1.now _ :: y1.log) = []
    rw [hl1, hlog]; simp [he1]
  · show NoErr (.rxNone y1.now :: .deliver p :: .rx y1.now _ :: y1.log)
    rw [hl1, hlog, List.append_nil]
    exact NoErr_cons (NoErr_cons (NoErr_cons he2 (by intro t x h; cases h)) (by intro t x h; cases h))
      (by intro t x h; cases h)

/-- a pass that receives `c` plain Consecutive Frames and then the frame that completes a block: the next
    ContinueToSend goes out -/
theorem passB_boundary (hs : RxSetting ca cb aa ab p) (hl : cb.listen = false) (h0 : cb.tCf ≠ 0) (fcm : CanMsg)
    (hm : makeFlowControl cb ab 0 = some fcm) (y : BP) (i c t0 : Nat)
    (hy : SessAt ca aa p y i t0) (ht : y.now ≤ t0 + cb.tCf) (hlog : y.log = [])
    (hib : y.inbox = cfMsgs ca aa p (i + 1) (c + 1)) (hpl : PlainRun ca cb aa p i c)
    (hmore : carried (TxCfg.of ca aa) p.length (i + c + 2) < p.length)
    (hb : 0 < cb.blocksize ∧ (i + c + 1) % cb.blocksize = 0) :
    ∃ y', ((mkB cb ab y).process true true).1 = mkB cb ab y' ∧ SessAt ca aa p y' (i + c + 1) y.now ∧
      y'.now = y.now ∧ y'.inbox = [] ∧ txsOf y'.log = [fcm] ∧ NoErr y'.log := by
  obtain ⟨hy1, hp1, ht1, hn1, hq1, _, evs, hl1, he1, he2⟩ :=
    runPlain_spec ca cb aa p h0 c y i [(0, wireA ca aa p (i + 1 + c))] hy.sess hy.pend
      (Or.inr ⟨t0, hy.timer, ht, h0⟩) hpl
  have hrun := fun st => rxLoop_run ca cb aa ab p hs h0 y i c t0 st hy ht hib hpl
  generalize runPlain ca aa p c y i [(0, wireA ca aa p (i + 1 + c))] = y1 at *
  have hic : i + 1 + c = i + c + 1 := by omega
  rw [hic] at hrun
  let y2 : BP := { y1 with
    inbox := [], log := .rx y1.now (wireA ca aa p (i + c + 1)) :: y1.log,
    lastSeq := (i + c + 1) % 16, rxBuf := p.take (carried (TxCfg.of ca aa) p.length (i + c + 2)),
    rxBlockCnt := i + c + 1, pendingFc := true, pendingFcStatus := some 0, timerCf := none }
  have hy1' : SessB ca aa p { y1 with inbox := [], log := .rx y1.now (wireA ca aa p (i + c + 1)) :: y1.log } (i + c) :=
    hy1.congr ca aa p rfl rfl rfl rfl rfl rfl
  have hprx : (arrived (mkB cb ab y1) 0 (wireA ca aa p (i + c + 1)) []).processRx (wireA ca aa p (i + c + 1)) =
      (mkB cb ab y2, true, false) := by
    rw [arrived_mkB cb ab y1 _ [] ht1, processRx_cf ca cb aa ab p hs _ (i + c) hy1' hmore, if_pos hb]
  have hrx : ∀ st, ∃ st', rxLoop true (mkB cb ab y) st (mkB cb ab y).inbox = (mkB cb ab y2, st', false) := by
    intro st
    obtain ⟨st1, h1⟩ := hrun st
    rw [h1]
    exact rxLoop_cons_imm (mkB cb ab y1) st1 0 _ [] _ _ (hs.forMe ca cb aa ab p _) hprx
  unfold State.process
  rw [processFuel_eq]
  obtain ⟨st', h⟩ := fcTailB cb ab hl h0 fcm hm _ {} (mkB cb ab y) y2 hrx (sw_false_mkB cb ab y) rfl rfl rfl
  rw [h]
  refine ⟨_, rfl, ⟨⟨hy1.st, hy1.fl, rfl, hmore, rfl, rfl, hy1.rxdl⟩, rfl, ?_, ?_⟩, hn1, rfl, ?_, ?_⟩
  · show y1.rxQueue = []
    rw [hq1, hy.queue]
  · show some y1.now = some y.now
    rw [hn1]
  · show txsOf (.rxNone y1.now :: .tx y1.now fcm :: .rx y1.now _ :: y1.log) = [fcm]
    rw [hl1, hlog]; simp [he1]
  · show NoErr (.rxNone y1.now :: .tx y1.now fcm :: .rx y1.now _ :: y1.log)
    rw [hl1, hlog, List.append_nil]
    exact NoErr_cons (NoErr_cons (NoErr_cons he2 (by intro t x h; cases h)) (by intro t x h; cases h))
      (by intro t x h; cases h)

/-- a pass that receives `c + 1` plain Consecutive Frames: the session advances, nothing is sent -/
theorem passB_plain (hs : RxSetting ca cb aa ab p) (h0 : cb.tCf ≠ 0) (y : BP) (i c t0 : Nat)
    (hy : SessAt ca aa p y i t0) (ht : y.now ≤ t0 + cb.tCf) (hlog : y.log = [])
    (hib : y.inbox = cfMsgs ca aa p (i + 1) (c + 1)) (hpl : PlainRun ca cb aa p i c)
    (hmore : carried (TxCfg.of ca aa) p.length (i + c + 2) < p.length)
    (hb : ¬ (0 < cb.blocksize ∧ (i + c + 1) % cb.blocksize = 0)) :
    ∃ y', ((mkB cb ab y).process true true).1 = mkB cb ab y' ∧ SessAt ca aa p y' (i + c + 1) y.now ∧
      y'.now = y.now ∧ y'.inbox = [] ∧ txsOf y'.log = [] ∧ NoErr y'.log := by
  obtain ⟨hy1, hp1, ht1, hn1, hq1, _, evs, hl1, he1, he2⟩ :=
    runPlain_spec ca cb aa p h0 c y i [(0, wireA ca aa p (i + 1 + c))] hy.sess hy.pend
      (Or.inr ⟨t0, hy.timer, ht, h0⟩) hpl
  have hrun := fun st => rxLoop_run ca cb aa ab p hs h0 y i c t0 st hy ht hib hpl
  generalize runPlain ca aa p c y i [(0, wireA ca aa p (i + 1 + c))] = y1 at *
  have hic : i + 1 + c = i + c + 1 := by omega
  rw [hic] at hrun
  let y2 : BP := stepPlain ca aa p y1 (i + c) []
  have ht2 : TimerOk cb y2 := Or.inr ⟨y1.now, rfl, Nat.le_add_right _ _, h0⟩
  have hrx : ∀ st, ∃ st', rxLoop true (mkB cb ab y) st (mkB cb ab y).inbox =
      (mkB cb ab { y2 with inbox := [], log := .rxNone y2.now :: y2.log }, st', false) := by
    intro st
    obtain ⟨st1, h1⟩ := hrun st
    rw [h1]
    obtain ⟨st2, h2⟩ := rxLoop_plain ca cb aa ab p hs y1 (i + c) st1 [] hy1 hp1 ht1 hmore hb
    rw [h2, rxLoop_nil_mkB cb ab y2 st2 ht2]
    exact ⟨st2, rfl⟩
  unfold State.process
  rw [processFuel_eq]
  obtain ⟨st', h⟩ := processLoop_iter _ (mkB cb ab y) {} _
    (mkB cb ab { y2 with inbox := [], log := .rxNone y2.now :: y2.log }) false false (sw_false_mkB cb ab y) hrx
    (fun n => ⟨n, by
      rw [rlUpd_mkB, txFuel_eq]
      exact txLoop_none _ _ _ _ (processTx_idle_mkB cb ab _ hp1) rfl⟩) rfl
  rw [h]
  refine ⟨_, rfl, ⟨⟨hy1.st, hy1.fl, rfl, hmore, rfl, rfl, hy1.rxdl⟩, hp1, ?_, ?_⟩, hn1, rfl, ?_, ?_⟩
  · show y1.rxQueue = []
    rw [hq1, hy.queue]
  · show some y1.now = some y.now
    rw [hn1]
  · show txsOf (.rxNone y1.now :: .rx y1.now _ :: y1.log) = []
    rw [hl1, hlog]; simp [he1]
  · show NoErr (.rxNone y1.now :: .rx y1.now _ :: y1.log)
    rw [hl1, hlog, List.append_nil]
    exact NoErr_cons (NoErr_cons he2 (by intro t x h; cases h)) (by intro t x h; cases h)

end passB


/-! ## a Single Frame at the receiver -/

section sfB
variable (ca cb : Cfg) (aa ab : Addr) (p : Bytes)

/-- the Single Frame of `p` decodes to `p` and passes the escape check -/
theorem sf_decodes (hva : ca.valid = true) (h1 : 1 ≤ p.length) (hsf : ¬ NeedsFF (TxCfg.of ca aa) p.length)
    (d0 : Bytes) (hseg : segment (TxCfg.of ca aa) p = [d0]) :
    ∃ esc cdl rdl, decode d0 aa.tx.txPrefix.length = some ⟨.sf p.length p esc, cdl, rdl⟩ ∧ (cdl ≤ 8 ∨ esc = true) := by
  have hv := Compose.txCfg_valid ca aa hva
  have hw : Spec.WfSfShort aa.tx.txPrefix p [d0] ∨ Spec.WfSfEscape aa.tx.txPrefix p [d0] := by
    by_cases hs : sfShort (TxCfg.of ca aa) p.length
    · left
      have := Seg.wf_short (TxCfg.of ca aa) p h1 hs
      rw [← segment_sfShort _ p hs, hseg] at this
      exact this
    · right
      have he : sfEscape (TxCfg.of ca aa) p.length := by
        rcases not_ff_cases _ _ hsf with h | h
        · exact absurd h hs
        · exact h
      have := Seg.wf_escape (TxCfg.of ca aa) hv p h1 hs he
      rw [← segment_sfEscape _ p he, hseg] at this
      exact this
  obtain ⟨d, esc, cdl, rdl, hd, hdec, h8⟩ := Rx.sf_wellFormed_decodes aa.tx.txPrefix p [d0] hw
  have : d0 = d := by simpa using hd
  subst this
  exact ⟨esc, cdl, rdl, hdec, h8⟩

theorem wireSf_accepted (d0 : Bytes) (hseg : segment (TxCfg.of ca aa) p = [d0]) (hw : aa.tx.txWf = true) :
    (Spec.mirror aa.tx).isForMe (wireSf ca aa d0) = true :=
  Compose.accepted ca aa ca.defaultTat p (wireSf ca aa d0) hw rfl rfl (by rw [hseg]; exact List.mem_singleton.mpr rfl)

/-- the pass that receives the Single Frame: `p` is delivered -/
theorem passB_SF (hva : ca.valid = true) (hwA : aa.tx.txWf = true) (hmir : ab.rx = Spec.mirror aa.tx)
    (h1 : 1 ≤ p.length) (hsf : ¬ NeedsFF (TxCfg.of ca aa) p.length) (d0 : Bytes)
    (hseg : segment (TxCfg.of ca aa) p = [d0]) (y : BP)
    (hst : y.rxState = .idle) (hp : y.pendingFc = false) (hq : y.rxQueue = []) (ht : y.timerCf = none)
    (hib : y.inbox = [(0, wireSf ca aa d0)]) (hlog : y.log = []) :
    ∃ y', ((mkB cb ab y).process true true).1 = mkB cb ab y' ∧ DoneB p y' ∧ y'.now = y.now ∧ y'.inbox = [] ∧
      txsOf y'.log = [] ∧ NoErr y'.log := by
  obtain ⟨esc, cdl, rdl, hdec, h8⟩ := sf_decodes ca aa p hva h1 hsf d0 hseg
  have hpre : ab.rx.rxPrefixSize = aa.tx.txPrefix.length := by rw [hmir, Compose.mirror_rxPrefixSize]
  have hme : ab.rx.isForMe (wireSf ca aa d0) = true := by rw [hmir]; exact wireSf_accepted ca aa p d0 hseg hwA
  let y2 : BP := { y with
    inbox := [], log := [.deliver p, .rx y.now (wireSf ca aa d0)], rxFrameLen := 0, timerCf := none,
    pendingFc := false, rxQueue := y.rxQueue ++ [p] }
  have hprx : (arrived (mkB cb ab y) 0 (wireSf ca aa d0) []).processRx (wireSf ca aa d0) =
      (mkB cb ab y2, false, true) := by
    rw [arrived_mkB cb ab y _ [] (Or.inl ht)]
    have hd : decode (wireSf ca aa d0).data
        (mkB cb ab { y with inbox := [], log := .rx y.now (wireSf ca aa d0) :: y.log }).addr.rx.rxPrefixSize =
        some ⟨.sf p.length p esc, cdl, rdl⟩ := by
      show decode d0 ab.rx.rxPrefixSize = _
      rw [hpre]; exact hdec
    rw [Rx.processRx_sf_idle_eq _ _ p.length p esc cdl rdl hd h8 hst]
    have : (mkB cb ab { y with inbox := [], log := .rx y.now (wireSf ca aa d0) :: y.log }).pendingFc = false := hp
    rw [this, hlog]
    simp only [mkB, Timer.stop, ht]
    rfl
  have hrx : ∀ st, ∃ st', rxLoop true (mkB cb ab y) st (mkB cb ab y).inbox =
      (mkB cb ab { y2 with inbox := [], log := .rxNone y2.now :: y2.log }, st', false) := by
    intro st
    have : (mkB cb ab y).inbox = [(0, wireSf ca aa d0)] := hib
    rw [this]
    obtain ⟨st2, h2⟩ := rxLoop_cons_next (mkB cb ab y) st 0 _ [] _ _ hme hprx rfl
    rw [h2, rxLoop_nil_mkB cb ab y2 st2 (Or.inl rfl)]
    exact ⟨st2, rfl⟩
  unfold State.process
  rw [processFuel_eq]
  obtain ⟨st', h⟩ := processLoop_iter _ (mkB cb ab y) {} _
    (mkB cb ab { y2 with inbox := [], log := .rxNone y2.now :: y2.log }) false false (sw_false_mkB cb ab y) hrx
    (fun n => ⟨n, by
      rw [rlUpd_mkB, txFuel_eq]
      exact txLoop_none _ _ _ _ (processTx_idle_mkB cb ab _ rfl) rfl⟩) rfl
  rw [h]
  refine ⟨_, rfl, ⟨hst, rfl, ?_, rfl⟩, rfl, rfl, ?_, ?_⟩
  · show y.rxQueue ++ [p] = [p]
    rw [hq]; rfl
  · simp [y2, txsOf_nil]
  · exact NoErr_cons (NoErr_cons (NoErr_cons NoErr_nil (by intro t x h; cases h)) (by intro t x h; cases h))
      (by intro t x h; cases h)

end sfB

end Isotp.Lockstep
