import Isotp.Threaded
/-
  Helper definitions and lemmas for C12 ("every send request terminates exactly once with the
  right outcome").  Everything lives in `Isotp.C12`; the property theorems are in
  `Isotp/Props/C12.lean`.

  Contents:
  * bookkeeping projections `pendingIds` / `doneIds` / `accounted` and the `key` of a state;
  * `_process_tx` cut into stages (`txPend`, `txFc`, `txTimeout`, `txDepl`, `txFsm`, `txFinish`;
    `sfTail` / `ffTail` / `cfTail` / `cfEnd` for `startTx` and `transmitCf`), each tied to the frozen
    model by a `rfl` lemma (`processTx_eq`, `startTx_eq`, `transmitCf_eq`);
  * conservation of `accounted` (`*_acc`), `_make_tx_msg` totality under `Cfg.valid`, the transmit
    invariant `Inv` (`*_inv`), `Good`, `Keeps` for the loops and the public operations;
  * histories (`Op`, `step`, `run`, `accepted`, `run_accounted`);
  * the events a `_process_tx` call logs: `succL`, `Pre`, log suffix lemmas (`*_sfx`), `Justified`,
    `processTx_success_late`;
  * aborts (`reset`, `TL.stop`, protocol errors) and uniqueness of the outcome.
-/
set_option linter.unusedSimpArgs false
set_option linter.unusedVariables false

namespace Isotp.C12
open Isotp State

/-! ## Bookkeeping projections -/

/-- the request id of a completion event -/
def doneOf : Ev → Option Nat
  | .done id _ => some id
  | _ => none

/-- ids of the completion events of a (newest first) log, oldest first -/
def doneL (l : List Ev) : List Nat := l.reverse.filterMap doneOf

def ids (q : List Req) : List Nat := q.map (·.id)
def optId (o : Option Req) : List Nat := (o.map (·.id)).toList

/-- requests the layer still owes an outcome to: the one in transmission, then the queue (FIFO) -/
def pendingIds (s : State) : List Nat := (s.active.map (·.id)).toList ++ s.txQueue.map (·.id)

/-- requests that have been completed (`SendRequest.complete` called), oldest first -/
def doneIds (s : State) : List Nat :=
  s.log.reverse.filterMap (fun | .done id _ => some id | _ => none)

def accounted (s : State) : List Nat := doneIds s ++ pendingIds s

theorem doneIds_eq (s : State) : doneIds s = doneL s.log := by
  unfold doneIds doneL
  congr 1

theorem pendingIds_eq (s : State) : pendingIds s = optId s.active ++ ids s.txQueue := rfl

theorem accounted_eq (s : State) : accounted s = doneL s.log ++ (optId s.active ++ ids s.txQueue) := by
  simp [accounted, doneIds_eq, pendingIds_eq]

@[simp] theorem doneL_nil : doneL [] = [] := rfl
@[simp] theorem doneL_done (i : Nat) (b : Bool) (l : List Ev) : doneL (.done i b :: l) = doneL l ++ [i] := by
  simp [doneL, doneOf]
@[simp] theorem doneL_tx (t : Nat) (m : CanMsg) (l : List Ev) : doneL (.tx t m :: l) = doneL l := by
  simp [doneL, doneOf]
@[simp] theorem doneL_err (t : Nat) (e : Err) (l : List Ev) : doneL (.err t e :: l) = doneL l := by
  simp [doneL, doneOf]
@[simp] theorem doneL_deliver (p : Bytes) (l : List Ev) : doneL (.deliver p :: l) = doneL l := by
  simp [doneL, doneOf]
@[simp] theorem doneL_pull (i n : Nat) (l : List Ev) : doneL (.pull i n :: l) = doneL l := by
  simp [doneL, doneOf]
@[simp] theorem doneL_rx (t : Nat) (m : CanMsg) (l : List Ev) : doneL (.rx t m :: l) = doneL l := by
  simp [doneL, doneOf]
@[simp] theorem doneL_rxNone (t : Nat) (l : List Ev) : doneL (.rxNone t :: l) = doneL l := by
  simp [doneL, doneOf]
theorem doneL_append (a b : List Ev) : doneL (a ++ b) = doneL b ++ doneL a := by
  simp [doneL]

@[simp] theorem optId_none : optId none = [] := rfl
@[simp] theorem optId_some (r : Req) : optId (some r) = [r.id] := rfl
@[simp] theorem ids_nil : ids [] = [] := rfl
@[simp] theorem ids_cons (r : Req) (q : List Req) : ids (r :: q) = r.id :: ids q := rfl
@[simp] theorem ids_append (a b : List Req) : ids (a ++ b) = ids a ++ ids b := by simp [ids]

/-- Everything the bookkeeping and the transmit invariant read from a state. -/
def key (s : State) : List Nat × Option Req × List Req × TxSt × Option CanMsg × Cfg :=
  (doneL s.log, s.active, s.txQueue, s.txState, s.standby, s.cfg)

theorem key_eq {s s' : State} (h : key s' = key s) :
    doneL s'.log = doneL s.log ∧ s'.active = s.active ∧ s'.txQueue = s.txQueue ∧ s'.txState = s.txState ∧
      s'.standby = s.standby ∧ s'.cfg = s.cfg := by
  simpa [key] using h

theorem accounted_of_key {s s' : State} (h : key s' = key s) : accounted s' = accounted s := by
  obtain ⟨h1, h2, h3, -⟩ := key_eq h
  simp [accounted_eq, h1, h2, h3]

/-! ## Receive side: nothing moves -/

theorem processRx_key (s : State) (m : CanMsg) : key (s.processRx m).1 = key s := by
  unfold processRx startReception key
  grind [deliver, stopReceiving, State.error, emit, requestFc, startRxCfTimer, doneL_err, doneL_deliver]


theorem checkTimeoutsRx_key (s : State) : key s.checkTimeoutsRx = key s := by
  unfold checkTimeoutsRx key
  grind [stopReceiving, State.error, emit, doneL_err]

theorem stopReceiving_key (s : State) : key s.stopReceiving = key s := rfl

/-! ## `_process_tx` cut into its stages -/

/-- stage 1: the pending Flow Control requested by the receive side -/
def txPend (s : State) : State × Option (Option CanMsg) :=
  if s.pendingFc then
    let s := { s with pendingFc := false }
    match s.pendingFcStatus with
    | none => (s.raise .AttributeError, some none)
    | some st =>
      let s := if st = 0 then s.startRxCfTimer else s
      if !s.cfg.listen then
        match makeFlowControl s.cfg s.addr st with
        | none => (s.raise .ValueError, some none)
        | some msg => (s, some (some msg))
      else (s, none)
  else (s, none)

/-- stage 2: the received Flow Control (mailbox `last_flow_control_frame`); `true` = return now -/
def txFc (s : State) : State × Bool :=
  let fc := s.lastFc
  let s := { s with lastFc := none }
  match fc with
  | some f => if f.status = 2 then (((s.stopSending false).error .Overflow), true) else (s.handleFc f, false)
  | none => (s, false)

/-- stage 3: N_Bs timeout -/
def txTimeout (s : State) : State :=
  if s.timerFc.timedOut s.now then (s.error .FlowControlTimeout).stopSending false else s

/-- stage 4: the "depleted and nothing in standby" line -/
def txDepl (s : State) : State :=
  if s.txState ≠ .idle && (match s.active with | some r => r.depleted | none => false) && s.standby.isNone
  then s.stopSending true else s

/-- stage 5: the state machine proper -/
def txFsm (s : State) (allowed : Nat) : State × Option CanMsg × Bool :=
  match s.txState with
  | .idle =>
    let (s, out) := s.readTxQueue allowed s.txQueue
    (s, out, false)
  | .sfStandby | .ffStandby =>
    match s.standby with
    | some msg =>
      if msg.data.length ≤ allowed then
        let s := { s with standby := none }
        if s.txState = .ffStandby then
          (({ s.startRxFcTimer with txState := .waitFc }), some msg, false)
        else (s.stopSending true, some msg, false)
      else (s, none, false)
    | none => (s, none, false)
  | .waitFc => (s, none, false)
  | .transmitCf => s.transmitCf allowed

/-- stage 6: exception check and rate-limiter bookkeeping -/
def txFinish (x : State × Option CanMsg × Bool) : State × Option CanMsg × Bool :=
  let (s, out, imm) := x
  if s.exc.isSome then (s, none, false) else
  match out with
  | some msg => ({ s with rl := s.rl.inform s.now msg.data.length }, some msg, imm)
  | none => (s, none, imm)

theorem processTx_eq (s : State) :
    s.processTx =
      match txPend s with
      | (s, some none) => (s, none, false)
      | (s, some (some msg)) => (s, some msg, true)
      | (s1, none) =>
        match txFc s1 with
        | (s, true) => (s, none, false)
        | (s2, false) =>
          if (txTimeout s2).txState ≠ .idle && (txTimeout s2).active.isNone then
            ((txTimeout s2).raise .AssertionError, none, false)
          else txFinish (txFsm (txDepl (txTimeout s2)) (s.rl.allowedBytes s.cfg.rlBitMax)) := by
  rfl


/-! ## Elementary facts -/

theorem consume_id (r : Req) (n : Nat) (e : Bool) : (r.consume n e).1.id = r.id := by
  unfold Req.consume; grind

theorem consume_size (r : Req) (n : Nat) (e : Bool) : (r.consume n e).1.size = r.size := by
  unfold Req.consume; grind

theorem stopSending_acc (s : State) (b : Bool) : accounted (s.stopSending b) = accounted s := by
  simp only [accounted_eq, stopSending]
  cases h : s.active <;> simp [emit, h]

theorem consumeActive_acc (s : State) (r : Req) (n : Nat) (e : Bool) (h : s.active = some r) :
    accounted (s.consumeActive r n e).1 = accounted s := by
  simp only [accounted_eq, consumeActive]
  have := consume_id r n e
  grind [emit, doneL_pull, optId_some]

/-- tail of the Single Frame branch of `startTx`, after the generator was consumed -/
def sfTail (s : State) (r : Req) (sizeOnFirst : Bool) (allowed : Nat) (res : Option Bytes) : State × Option CanMsg :=
  match res with
  | none => ((s.error .BadGenerator).stopSending false, none)
  | some payload =>
    let hdr : Bytes := if sizeOnFirst then [u8 payload.length] else [0, u8 payload.length]
    let msgData := s.addr.tx.txPrefix ++ hdr ++ payload
    match makeTxMsg s.cfg s.addr (s.addr.tx.txId r.tat) msgData with
    | none => (s.raise .ValueError, none)
    | some msg =>
      if msgData.length > allowed then
        ({ s with standby := some msg, txState := .sfStandby }, none)
      else (s.stopSending true, some msg)

/-- tail of the First Frame branch of `startTx` -/
def ffTail (s : State) (total : Nat) (allowed : Nat) (res : Option Bytes) : State × Option CanMsg :=
  match res with
  | none => ((s.error .BadGenerator).stopSending false, none)
  | some payload =>
    let hdr : Bytes :=
      if total ≤ 0xFFF then [u8 (0x10 + total / 256 % 16), u8 (total % 256)]
      else [0x10, 0x00, u8 (total / 16777216 % 256), u8 (total / 65536 % 256), u8 (total / 256 % 256), u8 (total % 256)]
    let msgData := s.addr.tx.txPrefix ++ hdr ++ payload
    let s := { s with txSeq := 1 }
    match makeTxMsg s.cfg s.addr (s.addr.tx.txId .physical) msgData with
    | none => (s.raise .ValueError, none)
    | some msg =>
      if msgData.length ≤ allowed then
        (({ s with txState := .waitFc }).startRxFcTimer, some msg)
      else ({ s with standby := some msg, txState := .ffStandby }, none)

def sizeOnFirst (s : State) (r : Req) : Bool :=
  (r.remaining + s.txPrefixLen ≤ 7) && !(match s.cfg.txMinLen with | some m => m > 8 | none => false)

def sfOff (s : State) (r : Req) : Nat := if sizeOnFirst s r then 1 else 2

def ffDataLen (s : State) (total : Nat) : Nat :=
  if total ≤ 0xFFF then s.cfg.txDl - 2 - s.txPrefixLen else s.cfg.txDl - 6 - s.txPrefixLen

theorem startTx_eq (s : State) (r : Req) (allowed : Nat) :
    s.startTx r allowed =
      if r.size + sfOff s r + s.txPrefixLen ≤ s.cfg.txDl then
        sfTail (s.consumeActive r r.size true).1 r (sizeOnFirst s r) allowed (s.consumeActive r r.size true).2.2
      else
        ffTail (({ s with txFrameLen := r.size } : State).consumeActive r (ffDataLen s r.size) true).1 r.size allowed
          (({ s with txFrameLen := r.size } : State).consumeActive r (ffDataLen s r.size) true).2.2 := by
  rfl

theorem sfTail_acc (s : State) (r : Req) (b : Bool) (allowed : Nat) (res : Option Bytes) :
    accounted (sfTail s r b allowed res).1 = accounted s := by
  unfold sfTail
  have h1 := stopSending_acc
  grind [accounted_eq, emit, State.error, State.raise, doneL_err]

theorem ffTail_acc (s : State) (total : Nat) (allowed : Nat) (res : Option Bytes) :
    accounted (ffTail s total allowed res).1 = accounted s := by
  unfold ffTail
  have h1 := stopSending_acc
  grind [accounted_eq, emit, State.error, State.raise, doneL_err, startRxFcTimer]

theorem startTx_acc (s : State) (r : Req) (allowed : Nat) (h : s.active = some r) :
    accounted (s.startTx r allowed).1 = accounted s := by
  rw [startTx_eq]
  split
  · rw [sfTail_acc, consumeActive_acc _ _ _ _ h]
  · rw [ffTail_acc, consumeActive_acc _ _ _ _ (by simpa using h)]
    simp [accounted_eq]


/-- the transmit FSM is idle only when no request is in transmission -/
def Idle (s : State) : Prop := s.txState = .idle → s.active = none

theorem readTxQueue_acc (s : State) (allowed : Nat) (q : List Req) (h : s.active = none) :
    accounted (s.readTxQueue allowed q).1 = doneL s.log ++ ids q := by
  induction q generalizing s with
  | nil => simp [readTxQueue, accounted_eq, h]
  | cons r rest ih =>
    unfold readTxQueue
    by_cases hd : r.depleted
    · simp [hd, emit]
      rw [ih _ rfl]
      simp
    · simp [hd]
      rw [startTx_acc _ r _ rfl]
      simp [accounted_eq]

theorem handleFc_acc (s : State) (f : FcFrame) : accounted (s.handleFc f) = accounted s := by
  unfold handleFc
  have h1 := stopSending_acc
  grind [accounted_eq, emit, State.error, doneL_err, startRxFcTimer]

theorem transmitCf_acc (s : State) (allowed : Nat) : accounted (s.transmitCf allowed).1 = accounted s := by
  unfold transmitCf
  have h1 := stopSending_acc
  have h2 := consumeActive_acc s
  grind [accounted_eq, emit, State.error, State.raise, doneL_err, startRxFcTimer]

theorem txPend_acc (s : State) : accounted (txPend s).1 = accounted s := by
  unfold txPend
  grind [accounted_eq, State.raise, startRxCfTimer]

theorem txFc_acc (s : State) : accounted (txFc s).1 = accounted s := by
  unfold txFc
  have h1 := stopSending_acc
  have h2 := handleFc_acc
  grind [accounted_eq, emit, State.error, doneL_err]

theorem txTimeout_acc (s : State) : accounted (txTimeout s) = accounted s := by
  unfold txTimeout
  have h1 := stopSending_acc
  grind [accounted_eq, emit, State.error, doneL_err]

theorem txDepl_acc (s : State) : accounted (txDepl s) = accounted s := by
  unfold txDepl
  have h1 := stopSending_acc
  grind

theorem txFsm_acc (s : State) (allowed : Nat) (h : Idle s) : accounted (txFsm s allowed).1 = accounted s := by
  unfold txFsm
  have h1 := stopSending_acc
  have h2 := transmitCf_acc s allowed
  have h3 := readTxQueue_acc s allowed s.txQueue
  unfold Idle at h
  grind [accounted_eq, startRxFcTimer, optId_none]

theorem txFinish_acc (x : State × Option CanMsg × Bool) : accounted (txFinish x).1 = accounted x.1 := by
  unfold txFinish
  grind [accounted_eq]


theorem stopSending_idle (s : State) (b : Bool) : Idle (s.stopSending b) := by
  unfold Idle stopSending; cases h : s.active <;> simp [h]

theorem txPend_idle (s : State) (h : Idle s) : Idle (txPend s).1 := by
  unfold txPend Idle at *
  grind [State.raise, startRxCfTimer]

theorem handleFc_idle (s : State) (f : FcFrame) (h : Idle s) : Idle (s.handleFc f) := by
  have h1 := stopSending_idle
  unfold handleFc Idle at *
  grind [State.error, emit, startRxFcTimer]

theorem txFc_idle (s : State) (h : Idle s) : Idle (txFc s).1 := by
  have h1 := stopSending_idle
  have h2 := handleFc_idle
  unfold txFc Idle at *
  grind [State.error, emit]

theorem txTimeout_idle (s : State) (h : Idle s) : Idle (txTimeout s) := by
  have h1 := stopSending_idle
  unfold txTimeout Idle at *
  grind [State.error, emit]

theorem txDepl_idle (s : State) (h : Idle s) : Idle (txDepl s) := by
  have h1 := stopSending_idle
  unfold txDepl Idle at *
  grind

/-- **Conservation for `_process_tx`** (as an equality of lists: the order done / active / queue is kept). -/
theorem processTx_acc (s : State) (h : Idle s) : accounted s.processTx.1 = accounted s := by
  rw [processTx_eq]
  have a1 := txPend_acc s
  have i1 := txPend_idle s h
  split
  · simp_all
  · simp_all
  · rename_i s1 hp
    rw [hp] at a1 i1
    have a2 := txFc_acc s1
    have i2 := txFc_idle s1 i1
    split
    · simp_all
    · rename_i s2 hf
      rw [hf] at a2 i2
      have a3 := txTimeout_acc s2
      have i3 := txTimeout_idle s2 i2
      split
      · simp only [State.raise]
        simp_all [accounted_eq]
      · rw [txFinish_acc, txFsm_acc _ _ (txDepl_idle _ i3), txDepl_acc]
        simp_all


/-! ## `_make_tx_msg` cannot fail on the frames the transmit FSM builds (valid configuration) -/

theorem padLen_ok8 (c : Cfg) (n : Nat) (hv : c.valid = true) (h2 : 2 ≤ n) (hn : n ≤ c.txDl) (h8 : c.txDl = 8) :
    match padLen c n with
    | none => False
    | some t => n ≤ t ∧ (dlcOf c t).isSome = true := by
  unfold Cfg.valid validTxDl validMinLen at hv
  unfold padLen dlcOf nearestFd
  simp only [h8] at hv hn ⊢
  grind (splits := 60)

theorem padLen_okFd (c : Cfg) (n : Nat) (hv : c.valid = true) (h2 : 2 ≤ n) (hn : n ≤ c.txDl) (h8 : c.txDl ≠ 8) :
    match padLen c n with
    | none => False
    | some t => n ≤ t ∧ (dlcOf c t).isSome = true := by
  unfold Cfg.valid validTxDl validMinLen at hv
  unfold padLen dlcOf nearestFd
  simp only [h8] at hv ⊢
  cases hm : c.txMinLen <;> simp only [hm] at hv ⊢ <;> grind (splits := 60)

theorem makeTxMsg_isSome (c : Cfg) (a : Addr) (i : Nat) (d : Bytes) (hv : c.valid = true)
    (h2 : 2 ≤ d.length) (hn : d.length ≤ c.txDl) : (makeTxMsg c a i d).isSome = true := by
  have h := if h8 : c.txDl = 8 then padLen_ok8 c d.length hv h2 hn h8 else padLen_okFd c d.length hv h2 hn h8
  unfold makeTxMsg pad
  split at h
  · exact h.elim
  · rename_i t ht
    simp only [ht, List.length_append, List.length_replicate]
    have : d.length + (t - d.length) = t := by omega
    rw [this]
    cases hd : dlcOf c t <;> simp_all

theorem txPrefix_le (a : Addr) : a.tx.txPrefix.length ≤ 1 := by
  unfold Half.txPrefix; split <;> simp


theorem consume_exact (r : Req) (n : Nat) (p : Bytes) (h : (r.consume n true).2 = some p) :
    p.length = n ∧ p = r.src.take n ∧ (r.consume n true).1.consumed = r.consumed + n ∧
      (r.consume n true).1.depletedFlag = r.depletedFlag ∧ r.consumed + n ≤ r.size := by
  unfold Req.consume at *
  grind [List.length_take]

theorem consume_loose (r : Req) (n : Nat) (p : Bytes) (h : (r.consume n false).2 = some p) :
    p.length ≤ n ∧ p = r.src.take n ∧ (r.consume n false).1.consumed = r.consumed + p.length ∧
      r.consumed + p.length ≤ r.size ∧
      ((r.consume n false).1.depletedFlag = true ↔ (r.depletedFlag = true ∨ p.length < n)) := by
  unfold Req.consume at *
  grind [List.length_take]

theorem consumeActive_fst (s : State) (r : Req) (n : Nat) (e : Bool) :
    ∃ l, (s.consumeActive r n e).1 = { s with log := l, active := some (r.consume n e).1 } ∧
      doneL l = doneL s.log := by
  unfold consumeActive
  by_cases h : r.instr = true ∧ (r.consume n e).1.consumed - r.consumed > 0
  · exact ⟨.pull r.id ((r.consume n e).1.consumed - r.consumed) :: s.log, by simp [h, emit], by simp⟩
  · exact ⟨s.log, by simp [h, emit], rfl⟩

theorem consumeActive_snd (s : State) (r : Req) (n : Nat) (e : Bool) :
    (s.consumeActive r n e).2 = r.consume n e := rfl

/-- queued requests have an untouched generator -/
def Fresh (q : List Req) : Prop := ∀ r ∈ q, r.consumed = 0 ∧ r.depletedFlag = false

@[simp] theorem fresh_nil : Fresh [] := by simp [Fresh]

/-- static well-formedness: the configuration passed `Params.validate` -/
def WF (s : State) : Prop := s.cfg.valid = true

/-- The transmit-side invariant. -/
structure Inv (s : State) : Prop where
  /-- idle FSM ⇒ no request in transmission -/
  idle : Idle s
  /-- queued requests have an untouched generator -/
  fresh : Fresh s.txQueue
  /-- the request in transmission is depleted only while its Single Frame waits in standby -/
  act : ∀ r, s.active = some r → r.depleted = true → s.txState = .sfStandby ∧ s.standby.isSome = true

theorem stopSending_inv (s : State) (b : Bool) (hq : Fresh s.txQueue) : Inv (s.stopSending b) := by
  constructor
  · exact stopSending_idle s b
  · unfold stopSending; cases h : s.active <;> simpa [h, emit] using hq
  · unfold stopSending; cases h : s.active <;> simp [h, emit]

theorem sfTail_inv (s : State) (r : Req) (b : Bool) (allowed : Nat) (res : Option Bytes)
    (hq : Fresh s.txQueue)
    (hmk : ∀ p, res = some p → (makeTxMsg s.cfg s.addr (s.addr.tx.txId r.tat)
      (s.addr.tx.txPrefix ++ (if b then [u8 p.length] else [0, u8 p.length]) ++ p)).isSome = true) :
    Inv (sfTail s r b allowed res).1 := by
  unfold sfTail
  cases res with
  | none => exact stopSending_inv _ _ (by simpa [State.error, emit] using hq)
  | some p =>
    have h1 := hmk p rfl
    simp only
    generalize (if b = true then [u8 p.length] else [0, u8 p.length]) = hdr at h1 ⊢
    obtain ⟨msg, hmsg⟩ := Option.isSome_iff_exists.mp h1
    simp only [hmsg]
    split
    · constructor
      · simp [Idle]
      · simpa using hq
      · simp
    · exact stopSending_inv _ _ hq


theorem ffTail_inv (s : State) (total : Nat) (allowed : Nat) (res : Option Bytes)
    (hq : Fresh s.txQueue)
    (hact : ∀ p, res = some p → ∀ r, s.active = some r → r.depleted = false)
    (hmk : ∀ p hdr, res = some p → hdr.length = (if total ≤ 0xFFF then 2 else 6) →
      (makeTxMsg s.cfg s.addr (s.addr.tx.txId .physical) (s.addr.tx.txPrefix ++ hdr ++ p)).isSome = true) :
    Inv (ffTail s total allowed res).1 := by
  unfold ffTail
  cases res with
  | none => exact stopSending_inv _ _ (by simpa [State.error, emit] using hq)
  | some p =>
    have hact := hact p rfl
    simp only
    generalize hh : (if total ≤ 0xFFF then [u8 (0x10 + total / 256 % 16), u8 (total % 256)]
      else [0x10, 0x00, u8 (total / 16777216 % 256), u8 (total / 65536 % 256), u8 (total / 256 % 256), u8 (total % 256)]) = hdr
    have h1 := hmk p hdr rfl (by rw [← hh]; split <;> rfl)
    obtain ⟨msg, hmsg⟩ := Option.isSome_iff_exists.mp h1
    simp only [hmsg]
    split
    · constructor
      · simp [Idle, startRxFcTimer]
      · simpa [startRxFcTimer] using hq
      · intro r hr hd
        have := hact r (by simpa [startRxFcTimer] using hr)
        simp_all
    · constructor
      · simp [Idle]
      · simpa using hq
      · intro r hr hd
        have := hact r (by simpa using hr)
        simp_all

theorem valid_txDl (c : Cfg) (h : c.valid = true) : 8 ≤ c.txDl ∧ c.txDl ≤ 64 := by
  simp only [Cfg.valid, validTxDl, Bool.and_eq_true, Bool.or_eq_true, decide_eq_true_eq] at h
  omega

theorem startTx_inv (s : State) (r : Req) (allowed : Nat) (hv : WF s) (ha : s.active = some r)
    (hd : r.depleted = false) (hc : r.consumed = 0) (hq : Fresh s.txQueue) :
    Inv (s.startTx r allowed).1 := by
  have ⟨hv8, hv64⟩ := valid_txDl _ hv
  have hpl : s.txPrefixLen ≤ 1 := txPrefix_le s.addr
  have hsz : 0 < r.size ∧ r.depletedFlag = false := by
    unfold Req.depleted at hd; grind
  rw [startTx_eq]
  split
  · rename_i hsf
    obtain ⟨l, hl, -⟩ := consumeActive_fst s r r.size true
    rw [hl, consumeActive_snd]
    apply sfTail_inv
    · simpa using hq
    · intro p hp
      have := consume_exact r r.size p hp
      apply makeTxMsg_isSome _ _ _ _ hv
      · simp only [List.length_append]; split <;> simp <;> omega
      · simp only [List.length_append, sfOff, txPrefixLen] at hsf ⊢
        split <;> simp_all <;> omega
  · rename_i hff
    obtain ⟨l, hl, -⟩ := consumeActive_fst { s with txFrameLen := r.size } r (ffDataLen s r.size) true
    rw [hl, consumeActive_snd]
    apply ffTail_inv
    · simpa using hq
    · intro p hp r' hr'
      have := consume_exact r (ffDataLen s r.size) p hp
      simp only [Option.some.injEq] at hr'
      subst hr'
      unfold Req.depleted
      rw [consume_size]
      simp only [sfOff, ffDataLen] at hff this ⊢
      grind
    · intro p hdr hp hh
      have := consume_exact r (ffDataLen s r.size) p hp
      apply makeTxMsg_isSome _ _ _ _ hv
      · simp only [List.length_append]; split at hh <;> omega
      · simp only [List.length_append, ffDataLen, txPrefixLen] at this hpl ⊢
        split at hh <;> simp_all <;> omega


theorem readTxQueue_inv (s : State) (allowed : Nat) (q : List Req) (hv : WF s) (ha : s.active = none)
    (hq : Fresh q) : Inv (s.readTxQueue allowed q).1 := by
  induction q generalizing s with
  | nil =>
    unfold readTxQueue
    exact ⟨by simp [Idle, ha], by simp, by simp [ha]⟩
  | cons r rest ih =>
    unfold readTxQueue
    by_cases hd : r.depleted
    · simp only [hd, if_true]
      exact ih _ hv rfl (fun x hx => hq x (List.mem_cons_of_mem _ hx))
    · have hd' : r.depleted = false := by simpa using hd
      simp only [hd', Bool.false_eq_true, ↓reduceIte]
      exact startTx_inv _ _ _ hv rfl hd' (hq r (by simp)).1 (fun x hx => hq x (List.mem_cons_of_mem _ hx))

/-- tail of `transmitCf`, after the generator was consumed -/
def cfTail (s : State) (r' : Req) (rbs : Nat) (res : Option Bytes) : State × Option CanMsg × Bool :=
  match res with
  | none => (s.raise .AssertionError, none, false)
  | some payload =>
    let (s, out, bad) :=
      if payload.length > 0 then
        let msgData := s.addr.tx.txPrefix ++ [u8 (0x20 + s.txSeq)] ++ payload
        match makeTxMsg s.cfg s.addr (s.addr.tx.txId .physical) msgData with
        | none => (s.raise .ValueError, none, true)
        | some msg =>
          ({ s with txSeq := (s.txSeq + 1) % 16, timerStmin := s.timerStmin.startAt s.now,
                    txBlockCnt := s.txBlockCnt + 1 }, some msg, false)
      else (s, none, false)
    if bad then (s, none, false) else
    if r'.depleted then
      if r'.remaining > 0 then ((s.error .BadGenerator).stopSending false, out, false)
      else (s.stopSending true, out, false)
    else if rbs ≠ 0 && s.txBlockCnt ≥ rbs then
      (({ s with txState := .waitFc }).startRxFcTimer, out, true)
    else (s, out, false)

def cfLen (s : State) (r : Req) : Nat := min (s.cfg.txDl - 1 - s.txPrefixLen) r.remaining

theorem transmitCf_eq (s : State) (allowed : Nat) :
    s.transmitCf allowed =
      match s.remoteBs, s.active with
      | none, _ => (s.raise .AssertionError, none, false)
      | _, none => (s.raise .AssertionError, none, false)
      | some rbs, some r =>
        if s.timerStmin.timedOut s.now then
          if cfLen s r ≤ allowed then
            cfTail (s.consumeActive r (cfLen s r) false).1 (s.consumeActive r (cfLen s r) false).2.1 rbs
              (s.consumeActive r (cfLen s r) false).2.2
          else (s, none, false)
        else (s, none, false) := by
  rfl


theorem inv_iff (s : State) : Inv s ↔
    ((s.txState = .idle → s.active = none) ∧ (Fresh s.txQueue) ∧
     (∀ r, s.active = some r → r.depleted = true → s.txState = .sfStandby ∧ s.standby.isSome = true)) :=
  ⟨fun h => ⟨h.idle, h.fresh, h.act⟩, fun h => ⟨h.1, h.2.1, h.2.2⟩⟩

/-- `Inv` only reads four fields. -/
theorem inv_congr {s s' : State} (h1 : s'.txState = s.txState) (h2 : s'.active = s.active)
    (h3 : s'.standby = s.standby) (h4 : s'.txQueue = s.txQueue) (h : Inv s) : Inv s' := by
  rw [inv_iff] at *
  rw [h1, h2, h3, h4]; exact h

theorem handleFc_inv (s : State) (f : FcFrame) (h : Inv s) : Inv (s.handleFc f) := by
  have hs := fun (s' : State) b (hq : Fresh s'.txQueue) => (inv_iff _).1 (stopSending_inv s' b hq)
  rw [inv_iff] at h ⊢
  unfold handleFc
  grind [State.error, emit, startRxFcTimer]


theorem stopSending_inv' (s : State) (b : Bool) (h : Inv s) : Inv (s.stopSending b) :=
  stopSending_inv s b h.fresh

theorem txPend_inv (s : State) (h : Inv s) : Inv (txPend s).1 := by
  rw [inv_iff] at h ⊢
  unfold txPend
  grind [State.raise, startRxCfTimer]

theorem txFc_inv (s : State) (h : Inv s) : Inv (txFc s).1 := by
  have hs := fun (s' : State) b (hq : Fresh s'.txQueue) => (inv_iff _).1 (stopSending_inv s' b hq)
  have hf := fun (s' : State) f (hq : Inv s') => (inv_iff _).1 (handleFc_inv s' f hq)
  simp only [inv_iff] at h hf ⊢
  unfold txFc
  grind [State.error, emit]

theorem txTimeout_inv (s : State) (h : Inv s) : Inv (txTimeout s) := by
  have hs := fun (s' : State) b (hq : Fresh s'.txQueue) => (inv_iff _).1 (stopSending_inv s' b hq)
  simp only [inv_iff] at h ⊢
  unfold txTimeout
  grind [State.error, emit]

/-- Under the invariant the "depleted and nothing in standby" line never fires. -/
theorem txDepl_eq (s : State) (h : Inv s) : txDepl s = s := by
  unfold txDepl
  rw [if_neg]
  intro hc
  simp only [Bool.and_eq_true, decide_eq_true_eq] at hc
  obtain ⟨⟨h1, h2⟩, h3⟩ := hc
  cases ha : s.active with
  | none => simp [ha] at h2
  | some r =>
    simp only [ha] at h2
    have := h.act r ha h2
    cases hs : s.standby <;> simp_all

theorem txDepl_inv (s : State) (h : Inv s) : Inv (txDepl s) := by
  rw [txDepl_eq s h]; exact h

theorem txFinish_inv (x : State × Option CanMsg × Bool) (h : Inv x.1) : Inv (txFinish x).1 := by
  obtain ⟨s, out, imm⟩ := x
  unfold txFinish
  simp only
  split
  · exact h
  · split
    · exact inv_congr (s := s) rfl rfl rfl rfl h
    · exact h

theorem consume_loose_isSome (r : Req) (n : Nat) (h : r.consumed + n ≤ r.size) :
    (r.consume n false).2.isSome = true := by
  unfold Req.consume
  grind [List.length_take]

theorem cfTail_inv (s : State) (r' : Req) (rbs : Nat) (res : Option Bytes)
    (hq : Fresh s.txQueue) (ha : s.active = some r') (hst : s.txState = .transmitCf)
    (hres : res.isSome = true)
    (hmk : ∀ p, res = some p → 0 < p.length → (makeTxMsg s.cfg s.addr (s.addr.tx.txId .physical)
      (s.addr.tx.txPrefix ++ [u8 (0x20 + s.txSeq)] ++ p)).isSome = true) :
    Inv (cfTail s r' rbs res).1 := by
  have hs := fun (s' : State) b (hq : Fresh s'.txQueue) => (inv_iff _).1 (stopSending_inv s' b hq)
  obtain ⟨p, rfl⟩ := Option.isSome_iff_exists.mp hres
  have hmk := hmk p rfl
  simp only [inv_iff]
  unfold cfTail
  by_cases hp : 0 < p.length
  · obtain ⟨msg, hmsg⟩ := Option.isSome_iff_exists.mp (hmk hp)
    simp only [hp, hmsg]
    grind [State.error, emit, startRxFcTimer]
  · simp only [hp]
    grind [State.error, emit, startRxFcTimer]


theorem transmitCf_inv (s : State) (allowed : Nat) (hv : WF s) (h : Inv s) (hst : s.txState = .transmitCf) :
    Inv (s.transmitCf allowed).1 := by
  have ⟨hv8, hv64⟩ := valid_txDl _ hv
  have hpl : s.txPrefixLen ≤ 1 := txPrefix_le s.addr
  rw [transmitCf_eq]
  split
  · exact inv_congr (s := s) rfl rfl rfl rfl h
  · exact inv_congr (s := s) rfl rfl rfl rfl h
  · rename_i rbs r hrbs ha
    split
    · split
      · have hnd : r.depleted = false := by
          cases hd : r.depleted
          · rfl
          · have := (h.act r ha hd).1; simp_all
        have hcs : r.consumed + cfLen s r ≤ r.size := by
          unfold Req.depleted at hnd; unfold cfLen Req.remaining; grind
        obtain ⟨l, hl, -⟩ := consumeActive_fst s r (cfLen s r) false
        rw [hl, consumeActive_snd]
        apply cfTail_inv
        · exact h.fresh
        · rfl
        · exact hst
        · exact consume_loose_isSome r _ hcs
        · intro p hp hp0
          have := consume_loose r _ p hp
          apply makeTxMsg_isSome _ _ _ _ hv
          · simp only [List.length_append, List.length_cons, List.length_nil]; omega
          · simp only [List.length_append, List.length_cons, List.length_nil, cfLen, txPrefixLen] at this hpl ⊢
            omega
      · exact h
    · exact h

theorem txFsm_inv (s : State) (allowed : Nat) (hv : WF s) (h : Inv s) : Inv (txFsm s allowed).1 := by
  unfold txFsm
  split
  · rename_i hst
    exact readTxQueue_inv s allowed s.txQueue hv (h.idle hst) h.fresh
  · rename_i hst
    split
    · split
      · simp only [hst]
        simp only [reduceCtorEq, ↓reduceIte]
        exact stopSending_inv _ _ h.fresh
      · exact h
    · exact h
  · rename_i hst
    split
    · split
      · simp only [hst, ↓reduceIte]
        refine ⟨by simp [Idle, startRxFcTimer], h.fresh, ?_⟩
        intro r hr hd
        have := (h.act r hr hd).1
        simp_all
      · exact h
    · exact h
  · exact h
  · rename_i hst
    exact transmitCf_inv s allowed hv h hst


/-! ## The configuration never changes -/

@[simp] theorem stopSending_cfg (s : State) (b : Bool) : (s.stopSending b).cfg = s.cfg := by
  unfold stopSending; cases s.active <;> rfl

@[simp] theorem consumeActive_cfg (s : State) (r : Req) (n : Nat) (e : Bool) : (s.consumeActive r n e).1.cfg = s.cfg := by
  unfold consumeActive; grind [emit]

theorem sfTail_cfg (s : State) (r : Req) (b : Bool) (allowed : Nat) (res : Option Bytes) :
    (sfTail s r b allowed res).1.cfg = s.cfg := by
  unfold sfTail; grind [stopSending_cfg, State.error, State.raise, emit]

theorem ffTail_cfg (s : State) (total : Nat) (allowed : Nat) (res : Option Bytes) :
    (ffTail s total allowed res).1.cfg = s.cfg := by
  unfold ffTail; grind [stopSending_cfg, State.error, State.raise, emit, startRxFcTimer]

theorem startTx_cfg (s : State) (r : Req) (allowed : Nat) : (s.startTx r allowed).1.cfg = s.cfg := by
  rw [startTx_eq]; split <;> simp [sfTail_cfg, ffTail_cfg]

theorem readTxQueue_depl (s : State) (allowed : Nat) (r : Req) (rest : List Req) (h : r.depleted = true) :
    s.readTxQueue allowed (r :: rest) =
      readTxQueue { s with txQueue := rest, active := none, log := .done r.id true :: s.log } allowed rest := by
  rw [readTxQueue]; simp only [h, ↓reduceIte]; rfl

theorem readTxQueue_start (s : State) (allowed : Nat) (r : Req) (rest : List Req) (h : r.depleted = false) :
    s.readTxQueue allowed (r :: rest) = ({ s with txQueue := rest, active := some r } : State).startTx r allowed := by
  rw [readTxQueue]; simp only [h, Bool.false_eq_true, ↓reduceIte]

theorem readTxQueue_cfg (s : State) (allowed : Nat) (q : List Req) : (s.readTxQueue allowed q).1.cfg = s.cfg := by
  induction q generalizing s with
  | nil => rfl
  | cons r rest ih =>
    cases hd : r.depleted
    · rw [readTxQueue_start _ _ _ _ hd, startTx_cfg]
    · rw [readTxQueue_depl _ _ _ _ hd, ih]

theorem cfTail_cfg (s : State) (r' : Req) (rbs : Nat) (res : Option Bytes) : (cfTail s r' rbs res).1.cfg = s.cfg := by
  unfold cfTail; grind [stopSending_cfg, State.error, State.raise, emit, startRxFcTimer]

theorem transmitCf_cfg (s : State) (allowed : Nat) : (s.transmitCf allowed).1.cfg = s.cfg := by
  rw [transmitCf_eq]
  split <;> try rfl
  split <;> try rfl
  split <;> try rfl
  rw [cfTail_cfg, consumeActive_cfg]

theorem handleFc_cfg (s : State) (f : FcFrame) : (s.handleFc f).cfg = s.cfg := by
  unfold handleFc; grind [stopSending_cfg, State.error, emit, startRxFcTimer]

theorem txPend_cfg (s : State) : (txPend s).1.cfg = s.cfg := by
  unfold txPend; grind [State.raise, startRxCfTimer]

theorem txFc_cfg (s : State) : (txFc s).1.cfg = s.cfg := by
  unfold txFc; grind [stopSending_cfg, handleFc_cfg, State.error, emit]

theorem txTimeout_cfg (s : State) : (txTimeout s).cfg = s.cfg := by
  unfold txTimeout; grind [stopSending_cfg, State.error, emit]

theorem txDepl_cfg (s : State) : (txDepl s).cfg = s.cfg := by
  unfold txDepl; grind [stopSending_cfg]

theorem txFsm_cfg (s : State) (allowed : Nat) : (txFsm s allowed).1.cfg = s.cfg := by
  unfold txFsm; grind [stopSending_cfg, readTxQueue_cfg, transmitCf_cfg, startRxFcTimer]

theorem txFinish_cfg (x : State × Option CanMsg × Bool) : (txFinish x).1.cfg = x.1.cfg := by
  unfold txFinish; grind

theorem processTx_cfg (s : State) : s.processTx.1.cfg = s.cfg := by
  rw [processTx_eq]
  have a1 := txPend_cfg s
  split
  · simp_all
  · simp_all
  · rename_i s1 hp
    rw [hp] at a1
    have a2 := txFc_cfg s1
    split
    · simp_all
    · rename_i s2 hf
      rw [hf] at a2
      have a3 := txTimeout_cfg s2
      split
      · simp only [State.raise]; simp_all
      · rw [txFinish_cfg, txFsm_cfg, txDepl_cfg]; simp_all

/-- **The transmit invariant is preserved by `_process_tx`.** -/
theorem processTx_inv (s : State) (hv : WF s) (h : Inv s) : Inv s.processTx.1 := by
  rw [processTx_eq]
  have a1 := txPend_inv s h
  have c1 := txPend_cfg s
  split
  · simp_all
  · simp_all
  · rename_i s1 hp
    rw [hp] at a1 c1
    have a2 := txFc_inv s1 a1
    have c2 := txFc_cfg s1
    split
    · simp_all
    · rename_i s2 hf
      rw [hf] at a2 c2
      have a3 := txTimeout_inv s2 a2
      have c3 := txTimeout_cfg s2
      split
      · exact inv_congr (s := txTimeout s2) rfl rfl rfl rfl a3
      · apply txFinish_inv
        apply txFsm_inv
        · unfold WF at *; rw [txDepl_cfg]; simp_all
        · exact txDepl_inv _ a3


theorem inv_of_key {s s' : State} (h : key s' = key s) (hi : Inv s) : Inv s' := by
  obtain ⟨-, h2, h3, h4, h5, -⟩ := key_eq h
  exact inv_congr h4 h2 h5 h3 hi

theorem wf_of_key {s s' : State} (h : key s' = key s) (hv : WF s) : WF s' := by
  obtain ⟨-, -, -, -, -, h6⟩ := key_eq h
  unfold WF at *; rw [h6]; exact hv

theorem rxLoop_key (doTx : Bool) (s : State) (st : Stats) (l : List (Nat × CanMsg)) :
    key (rxLoop doTx s st l).1 = key s := by
  induction l generalizing s st with
  | nil =>
    unfold rxLoop
    rw [checkTimeoutsRx_key]; simp [key, emit]
  | cons x rest ih =>
    obtain ⟨dt, m⟩ := x
    unfold rxLoop
    simp only
    have h0 : key ((({ s with inbox := rest, now := s.now + dt } : State).emit
        (.rx (s.now + dt) m)).checkTimeoutsRx) = key s := by
      rw [checkTimeoutsRx_key]; simp [key, emit]
    generalize (({ s with inbox := rest, now := s.now + dt } : State).emit
        (.rx (s.now + dt) m)).checkTimeoutsRx = s0 at h0 ⊢
    have h1 := processRx_key s0 m
    generalize s0.processRx m = pr at h1 ⊢
    obtain ⟨s1, imm, fr⟩ := pr
    simp only at h1 ⊢
    split
    · split
      · simp only; rw [h1, h0]
      · split
        · simp only; rw [h1, h0]
        · rw [ih, h1, h0]
    · split
      · simp only; exact h0
      · rw [ih, h0]


/-- reachable-state hypotheses: valid configuration and transmit invariant -/
def Good (s : State) : Prop := WF s ∧ Inv s

/-- what a well-behaved operation guarantees: it keeps `Good` and moves no request id
    (`accounted` is even the same *list*: completed, then in transmission, then queued). -/
def Keeps (s s' : State) : Prop := Good s → (Good s' ∧ accounted s' = accounted s)

theorem Keeps.refl (s : State) : Keeps s s := fun h => ⟨h, rfl⟩

theorem Keeps.trans {a b c : State} (h1 : Keeps a b) (h2 : Keeps b c) : Keeps a c := fun h =>
  have ⟨g1, e1⟩ := h1 h
  have ⟨g2, e2⟩ := h2 g1
  ⟨g2, e2.trans e1⟩

theorem Keeps.of_key {s s' : State} (h : key s' = key s) : Keeps s s' := fun g =>
  ⟨⟨wf_of_key h g.1, inv_of_key h g.2⟩, accounted_of_key h⟩

theorem processTx_keeps (s : State) : Keeps s s.processTx.1 := fun g =>
  ⟨⟨by unfold WF; rw [processTx_cfg]; exact g.1, processTx_inv s g.1 g.2⟩, processTx_acc s g.2.idle⟩

theorem txLoop_keeps (f : Nat) (s : State) (n : Nat) : Keeps s (txLoop f s n).1 := by
  induction f generalizing s n with
  | zero => exact Keeps.refl s
  | succ f ih =>
    unfold txLoop
    have h1 := processTx_keeps s
    generalize s.processTx = pt at h1 ⊢
    obtain ⟨s1, out, imm⟩ := pt
    simp only at h1 ⊢
    split
    · exact h1
    · cases out with
      | none =>
        simp only
        split
        · exact h1
        · simp only [Option.isSome_none, Bool.false_eq_true, ↓reduceIte]; exact h1
      | some m =>
        have h2 : Keeps s (s1.emit (.tx s1.now m)) := h1.trans (Keeps.of_key (by simp [key, emit]))
        simp only
        split
        · exact h2
        · simp only [Option.isSome_some, ↓reduceIte]
          exact h2.trans (ih _ _)

theorem rxLoop_keeps (doTx : Bool) (s : State) (st : Stats) (l : List (Nat × CanMsg)) :
    Keeps s (rxLoop doTx s st l).1 := Keeps.of_key (rxLoop_key doTx s st l)

theorem processLoop_keeps (f : Nat) (doRx doTx : Bool) (s : State) (st : Stats) :
    Keeps s (processLoop f doRx doTx s st).1 := by
  induction f generalizing s st with
  | zero => exact Keeps.refl s
  | succ f ih =>
    unfold processLoop
    simp only
    generalize (doTx && !s.txQueue.isEmpty && decide (s.rxState = .idle) && decide (s.txState = .idle)) = swt
    have h1 : Keeps s (if (doRx && !swt) = true then s.rxLoop doTx st s.inbox else (s, st, false)).1 := by
      split
      · exact rxLoop_keeps _ _ _ _
      · exact Keeps.refl s
    generalize (if (doRx && !swt) = true then s.rxLoop doTx st s.inbox else (s, st, false)) = r1 at h1 ⊢
    obtain ⟨s1, st1, rxRun⟩ := r1
    simp only at h1 ⊢
    have h2 : Keeps s ({ s1 with rl := s1.rl.update s1.cfg.rlWindowNs s1.now } : State) :=
      h1.trans (Keeps.of_key rfl)
    generalize ({ s1 with rl := s1.rl.update s1.cfg.rlWindowNs s1.now } : State) = s2 at h2 ⊢
    cases doTx with
    | false =>
      simp only [Bool.false_eq_true, ↓reduceIte]
      split
      · exact h2
      · split
        · exact h2.trans (ih _ _)
        · exact h2
    | true =>
      simp only [↓reduceIte]
      have h3 := h2.trans (txLoop_keeps s2.txFuel s2 st1.sent)
      generalize txLoop s2.txFuel s2 st1.sent = r3 at h3 ⊢
      obtain ⟨s3, n3, run3, oof3⟩ := r3
      simp only at h3 ⊢
      split
      · exact h3
      · split
        · exact h3
        · split
          · exact h3.trans (ih _ _)
          · exact h3

theorem process_keeps (s : State) (doRx doTx : Bool) : Keeps s (s.process doRx doTx).1 :=
  processLoop_keeps _ _ _ _ _


/-! ## The remaining public operations -/

theorem clearTxQueue_eq (s : State) (l : List Req) :
    s.clearTxQueue l =
      { s with txQueue := [], log := (l.reverse.map fun r => Ev.done r.id false) ++ s.log } := by
  induction l generalizing s with
  | nil => simp [clearTxQueue]
  | cons r rest ih => simp [clearTxQueue, ih, emit]

theorem doneL_map_done (l : List Req) (b : Bool) : doneL (l.reverse.map fun r => Ev.done r.id b) = ids l := by
  induction l with
  | nil => rfl
  | cons r rest ih =>
    simp only [List.reverse_cons, List.map_append, List.map_cons, List.map_nil, doneL_append, ih]
    simp

theorem init_good (c : Cfg) (a : Addr) (hc : c.valid = true) : Good (State.init c a) :=
  ⟨hc, ⟨fun _ => rfl, by simp [State.init], by simp [State.init]⟩⟩

theorem init_accounted (c : Cfg) (a : Addr) : accounted (State.init c a) = [] := by
  simp [accounted_eq, State.init]

theorem stopSending_keeps (s : State) (b : Bool) : Keeps s (s.stopSending b) := fun g =>
  ⟨⟨by unfold WF; rw [stopSending_cfg]; exact g.1, stopSending_inv' s b g.2⟩, stopSending_acc s b⟩

theorem stopReceiving_keeps (s : State) : Keeps s s.stopReceiving := Keeps.of_key rfl

theorem recv_keeps (s : State) : Keeps s s.recv.1 := by
  apply Keeps.of_key
  unfold recv; split <;> rfl

theorem advance_keeps (s : State) (dt : Nat) : Keeps s (s.advance dt) := Keeps.of_key rfl

theorem pushFrame_keeps (s : State) (dt : Nat) (m : CanMsg) : Keeps s (s.pushFrame dt m) := Keeps.of_key rfl

/-- the request object `send` builds -/
def mkReq (s : State) (a : SendArgs) : Req :=
  { id := a.id, size := a.size.toNat, src := a.src, tat := a.tat.getD s.cfg.defaultTat, instr := a.instr }

/-- `send` either rejects the call (ValueError, state untouched) or appends one fresh request. -/
theorem send_cases (s : State) (a : SendArgs) :
    ((s.send a).2 = some .ValueError ∧ (s.send a).1 = s) ∨
    ((s.send a).2 = (if s.cfg.blocking then some .BlockingSendTimeout else none) ∧ 0 ≤ a.size ∧
        (s.send a).1 = { s with txQueue := s.txQueue ++ [mkReq s a] }) := by
  unfold send mkReq
  simp only
  generalize (if s.cfg.txDl = 8 then 1 else 2) = lb
  by_cases h1 : a.size < 0
  · simp [h1]
  · by_cases h2 : a.size > 0xFFFFFFFF
    · simp [h1, h2]
    · simp only [h1, h2, ↓reduceIte]
      split
      · simp
      · right
        refine ⟨by split <;> rfl, by omega, by split <;> rfl⟩

theorem send_accepted_acc (s : State) (a : SendArgs) (h : (s.send a).2 ≠ some .ValueError) :
    accounted (s.send a).1 = accounted s ++ [a.id] := by
  rcases send_cases s a with ⟨h1, -⟩ | ⟨-, -, hs⟩
  · exact absurd h1 h
  · rw [hs]; simp [accounted_eq, mkReq]

theorem send_good (s : State) (a : SendArgs) (g : Good s) : Good (s.send a).1 := by
  rcases send_cases s a with ⟨-, h2⟩ | ⟨-, -, hs⟩
  · rw [h2]; exact g
  · rw [hs]
    refine ⟨g.1, ⟨g.2.idle, ?_, g.2.act⟩⟩
    intro x hx
    simp only [List.mem_append, List.mem_singleton] at hx
    rcases hx with hx | rfl
    · exact g.2.fresh x hx
    · exact ⟨rfl, rfl⟩

/-- the completion events `reset` logs (newest first): the request in transmission last -/
def resetEvents (s : State) : List Ev :=
  (match s.active with | some r => [Ev.done r.id false] | none => []) ++
    (s.txQueue.reverse.map fun r => Ev.done r.id false)

theorem reset_fields (s : State) :
    s.reset.log = resetEvents s ++ s.log ∧ s.reset.active = none ∧ s.reset.txQueue = [] ∧
      s.reset.txState = .idle ∧ s.reset.standby = none ∧ s.reset.cfg = s.cfg := by
  unfold reset resetEvents
  simp only [clearTxQueue_eq, stopSending, stopReceiving, emit]
  cases h : s.active <;> simp [h]

theorem reset_good (s : State) (g : Good s) : Good s.reset := by
  obtain ⟨-, h2, h3, h4, h5, h6⟩ := reset_fields s
  refine ⟨by unfold WF; rw [h6]; exact g.1, ⟨fun _ => h2, by simp [h3], by simp [h2]⟩⟩

theorem reset_perm (s : State) : (accounted s.reset).Perm (accounted s) := by
  obtain ⟨h1, h2, h3, -⟩ := reset_fields s
  simp only [accounted_eq, h1, h2, h3, resetEvents, doneL_append, doneL_map_done]
  cases h : s.active with
  | none => simp
  | some r =>
    simp only [doneL_done, doneL_nil, optId_some, optId_none, ids_nil, List.nil_append, List.append_nil,
      List.append_assoc]
    exact List.Perm.append_left _ List.perm_append_comm


/-! ## Histories -/

/-- one call of the public API of `TransportLayerLogic` (plus the bus putting a frame in `rxfn`'s reach) -/
inductive Op where
  | send (a : SendArgs)
  | frame (dt : Nat) (m : CanMsg)
  | process (doRx doTx : Bool)
  | advance (dt : Nat)
  | recv
  | stopSending
  | stopReceiving
  | reset

def step (s : State) : Op → State
  | .send a => (s.send a).1
  | .frame dt m => s.pushFrame dt m
  | .process doRx doTx => (s.process doRx doTx).1
  | .advance dt => s.advance dt
  | .recv => s.recv.1
  | .stopSending => s.stopSending false
  | .stopReceiving => s.stopReceiving
  | .reset => s.reset

def run (s : State) : List Op → State
  | [] => s
  | op :: ops => run (step s op) ops

/-- ids of the `send` calls of the history that were accepted (did not raise `ValueError`), in order -/
def accepted (s : State) : List Op → List Nat
  | [] => []
  | .send a :: ops =>
    (if (s.send a).2 = some .ValueError then [] else [a.id]) ++ accepted (s.send a).1 ops
  | op :: ops => accepted (step s op) ops

theorem step_good (s : State) (op : Op) (g : Good s) : Good (step s op) := by
  cases op with
  | send a => exact send_good s a g
  | frame dt m => exact (pushFrame_keeps s dt m g).1
  | process doRx doTx => exact (process_keeps s doRx doTx g).1
  | advance dt => exact (advance_keeps s dt g).1
  | recv => exact (recv_keeps s g).1
  | stopSending => exact (stopSending_keeps s false g).1
  | stopReceiving => exact (stopReceiving_keeps s g).1
  | reset => exact reset_good s g

theorem run_good (s : State) (ops : List Op) (g : Good s) : Good (run s ops) := by
  induction ops generalizing s with
  | nil => exact g
  | cons op ops ih => exact ih _ (step_good s op g)

theorem run_accounted (s : State) (ops : List Op) (g : Good s) :
    (accounted (run s ops)).Perm (accounted s ++ accepted s ops) := by
  induction ops generalizing s with
  | nil => simp [run, accepted]
  | cons op ops ih =>
    have ih' := ih _ (step_good s op g)
    cases op with
    | send a =>
      simp only [run, accepted, step] at ih' ⊢
      refine ih'.trans ?_
      by_cases h : (s.send a).2 = some .ValueError
      · rcases send_cases s a with ⟨-, h2⟩ | ⟨h1, -, -⟩
        · simp [h, h2]
        · rw [h] at h1; split at h1 <;> simp at h1
      · rw [send_accepted_acc s a h]; simp [h]
    | frame dt m => simpa [run, accepted, step, (pushFrame_keeps s dt m g).2] using ih'
    | process doRx doTx => simpa [run, accepted, step, (process_keeps s doRx doTx g).2] using ih'
    | advance dt => simpa [run, accepted, step, (advance_keeps s dt g).2] using ih'
    | recv => simpa [run, accepted, step, (recv_keeps s g).2] using ih'
    | stopSending => simpa [run, accepted, step, (stopSending_keeps s false g).2] using ih'
    | stopReceiving => simpa [run, accepted, step, (stopReceiving_keeps s g).2] using ih'
    | reset =>
      simp only [run, accepted, step] at ih' ⊢
      exact ih'.trans (List.Perm.append_right _ (reset_perm s))


/-! ## Which events a `_process_tx` call logs -/

/-- the request id of a *successful* completion event -/
def succOf : Ev → Option Nat
  | .done id true => some id
  | _ => none

/-- ids of the successful completions of a log (same order as the log: newest first) -/
def succL (l : List Ev) : List Nat := l.filterMap succOf

@[simp] theorem succL_nil : succL [] = [] := rfl
@[simp] theorem succL_done_true (i : Nat) (l : List Ev) : succL (.done i true :: l) = i :: succL l := by
  simp [succL, List.filterMap_cons, succOf]
@[simp] theorem succL_done_false (i : Nat) (l : List Ev) : succL (.done i false :: l) = succL l := by
  simp [succL, List.filterMap_cons, succOf]
@[simp] theorem succL_tx (t : Nat) (m : CanMsg) (l : List Ev) : succL (.tx t m :: l) = succL l := by
  simp [succL, List.filterMap_cons, succOf]
@[simp] theorem succL_err (t : Nat) (e : Err) (l : List Ev) : succL (.err t e :: l) = succL l := by
  simp [succL, List.filterMap_cons, succOf]
@[simp] theorem succL_deliver (p : Bytes) (l : List Ev) : succL (.deliver p :: l) = succL l := by
  simp [succL, List.filterMap_cons, succOf]
@[simp] theorem succL_pull (i n : Nat) (l : List Ev) : succL (.pull i n :: l) = succL l := by
  simp [succL, List.filterMap_cons, succOf]
@[simp] theorem succL_rx (t : Nat) (m : CanMsg) (l : List Ev) : succL (.rx t m :: l) = succL l := by
  simp [succL, List.filterMap_cons, succOf]
@[simp] theorem succL_rxNone (t : Nat) (l : List Ev) : succL (.rxNone t :: l) = succL l := by
  simp [succL, List.filterMap_cons, succOf]
theorem succL_append (a b : List Ev) : succL (a ++ b) = succL a ++ succL b := by simp [succL]
theorem mem_succL (id : Nat) (l : List Ev) : id ∈ succL l ↔ Ev.done id true ∈ l := by
  simp only [succL, List.mem_filterMap]
  constructor
  · rintro ⟨e, he, h⟩
    cases e <;> simp [succOf] at h
    rename_i i b
    cases b <;> simp [succOf] at h
    subst h; exact he
  · intro h; exact ⟨_, h, rfl⟩

theorem stopSending_fields (s : State) (b : Bool) :
    (s.stopSending b).txQueue = s.txQueue ∧ (s.stopSending b).cfg = s.cfg ∧ (s.stopSending b).addr = s.addr ∧
    (s.stopSending b).exc = s.exc ∧ (s.stopSending b).txState = .idle ∧ (s.stopSending b).active = none ∧
    (s.stopSending b).standby = none ∧ (s.stopSending b).now = s.now ∧
    succL (s.stopSending b).log = (if b then optId s.active else []) ++ succL s.log ∧
    s.log <:+ (s.stopSending b).log := by
  unfold stopSending
  cases h : s.active <;> cases b <;> simp [emit, h]

theorem makeTxMsg_data (c : Cfg) (a : Addr) (i : Nat) (d : Bytes) (msg : CanMsg) (h : makeTxMsg c a i d = some msg) :
    ∃ pad, msg.data = d ++ pad := by
  unfold makeTxMsg pad at h
  grind

/-- relation between the state at the entry of `_process_tx` and the state at the entry of its FSM part
    (after the Flow Control and timeout handling): static fields and the queue untouched, no new
    successful completion, and the transmission either aborted or still the same one. -/
def Pre (s s' : State) : Prop :=
  s'.txQueue = s.txQueue ∧ s'.cfg = s.cfg ∧ s'.addr = s.addr ∧ s'.exc = s.exc ∧ s'.now = s.now ∧
  succL s'.log = succL s.log ∧
  ((s'.txState = .idle ∧ s'.active = none) ∨
   (s'.active = s.active ∧ s'.standby = s.standby ∧ s'.txSeq = s.txSeq ∧
     (s'.txState = s.txState ∨
      ((s'.txState = .waitFc ∨ s'.txState = .transmitCf) ∧ (s.txState = .waitFc ∨ s.txState = .transmitCf)))))

theorem Pre.refl (s : State) : Pre s s := by simp [Pre]

theorem Pre.trans {a b c : State} (h1 : Pre a b) (h2 : Pre b c) : Pre a c := by
  unfold Pre at *; grind

theorem handleFc_pre (s : State) (f : FcFrame) : Pre s (s.handleFc f) := by
  have h1 := stopSending_fields
  unfold Pre handleFc
  grind [State.error, emit, startRxFcTimer, succL_err]

theorem txPend_fields (s : State) :
    (txPend s).1.txQueue = s.txQueue ∧ (txPend s).1.cfg = s.cfg ∧ (txPend s).1.addr = s.addr ∧
    (txPend s).1.now = s.now ∧ (txPend s).1.log = s.log ∧ (txPend s).1.active = s.active ∧
    (txPend s).1.standby = s.standby ∧ (txPend s).1.txSeq = s.txSeq ∧ (txPend s).1.txState = s.txState := by
  refine ⟨?_, ?_, ?_, ?_, ?_, ?_, ?_, ?_, ?_⟩ <;> (unfold txPend; grind [State.raise, startRxCfTimer])

theorem txPend_exc (s : State) (h : (txPend s).2 = none) : (txPend s).1.exc = s.exc := by
  unfold txPend at *
  grind [State.raise, startRxCfTimer]

theorem txPend_pre (s : State) (s1 : State) (h : txPend s = (s1, none)) : Pre s s1 := by
  have h1 := txPend_fields s
  have h2 := txPend_exc s (by rw [h])
  rw [h] at h1 h2
  simp only at h1 h2
  simp [Pre, h1, h2]

theorem txFc_pre (s : State) : Pre s (txFc s).1 := by
  unfold txFc
  cases hf : s.lastFc with
  | none => simp [Pre]
  | some f =>
    simp only
    split
    · have h1 := stopSending_fields { s with lastFc := none } false
      simp only [Pre, State.error, emit, succL_err]
      simp_all
    · exact Pre.trans (by simp [Pre]) (handleFc_pre _ f)

theorem txTimeout_pre (s : State) : Pre s (txTimeout s) := by
  have h1 := stopSending_fields
  unfold Pre txTimeout
  grind [State.error, emit, succL_err]


/-! ### the log only grows -/

theorem stopSending_sfx (s : State) (b : Bool) : s.log <:+ (s.stopSending b).log :=
  (stopSending_fields s b).2.2.2.2.2.2.2.2.2

theorem handleFc_sfx (s : State) (f : FcFrame) : s.log <:+ (s.handleFc f).log := by
  have h1 := stopSending_sfx
  unfold handleFc
  grind [State.error, emit, startRxFcTimer, List.suffix_refl, List.suffix_cons, List.IsSuffix.trans]

theorem txFc_sfx (s : State) : s.log <:+ (txFc s).1.log := by
  have h1 := stopSending_sfx
  have h2 := handleFc_sfx
  unfold txFc
  grind [State.error, emit, List.suffix_refl, List.suffix_cons, List.IsSuffix.trans]

theorem txTimeout_sfx (s : State) : s.log <:+ (txTimeout s).log := by
  have h1 := stopSending_sfx
  unfold txTimeout
  grind [State.error, emit, List.suffix_refl, List.suffix_cons, List.IsSuffix.trans]

theorem txDepl_sfx (s : State) : s.log <:+ (txDepl s).log := by
  have h1 := stopSending_sfx
  unfold txDepl
  grind [List.suffix_refl]

theorem consumeActive_sfx (s : State) (r : Req) (n : Nat) (e : Bool) : s.log <:+ (s.consumeActive r n e).1.log := by
  unfold consumeActive
  grind [emit, List.suffix_refl, List.suffix_cons]

theorem sfTail_sfx (s : State) (r : Req) (b : Bool) (allowed : Nat) (res : Option Bytes) :
    s.log <:+ (sfTail s r b allowed res).1.log := by
  have h1 := stopSending_sfx
  unfold sfTail
  grind [State.error, State.raise, emit, List.suffix_refl, List.suffix_cons, List.IsSuffix.trans]

theorem ffTail_sfx (s : State) (total : Nat) (allowed : Nat) (res : Option Bytes) :
    s.log <:+ (ffTail s total allowed res).1.log := by
  have h1 := stopSending_sfx
  unfold ffTail
  grind [State.error, State.raise, emit, startRxFcTimer, List.suffix_refl, List.suffix_cons, List.IsSuffix.trans]

theorem startTx_sfx (s : State) (r : Req) (allowed : Nat) : s.log <:+ (s.startTx r allowed).1.log := by
  rw [startTx_eq]
  split
  · exact (consumeActive_sfx s r _ _).trans (sfTail_sfx _ _ _ _ _)
  · exact (consumeActive_sfx { s with txFrameLen := r.size } r _ _).trans (ffTail_sfx _ _ _ _)

theorem readTxQueue_sfx (s : State) (allowed : Nat) (q : List Req) : s.log <:+ (s.readTxQueue allowed q).1.log := by
  induction q generalizing s with
  | nil => exact List.suffix_refl _
  | cons r rest ih =>
    cases hd : r.depleted
    · rw [readTxQueue_start _ _ _ _ hd]
      exact startTx_sfx { s with txQueue := rest, active := some r } _ _
    · rw [readTxQueue_depl _ _ _ _ hd]
      exact (List.suffix_cons (.done r.id true) s.log).trans
        (ih { s with txQueue := rest, active := none, log := .done r.id true :: s.log })

theorem cfTail_sfx (s : State) (r' : Req) (rbs : Nat) (res : Option Bytes) :
    s.log <:+ (cfTail s r' rbs res).1.log := by
  have h1 := stopSending_sfx
  unfold cfTail
  grind [State.error, State.raise, emit, startRxFcTimer, List.suffix_refl, List.suffix_cons, List.IsSuffix.trans]

theorem transmitCf_sfx (s : State) (allowed : Nat) : s.log <:+ (s.transmitCf allowed).1.log := by
  rw [transmitCf_eq]
  split
  · exact List.suffix_refl _
  · exact List.suffix_refl _
  · split
    · split
      · exact (consumeActive_sfx s _ _ _).trans (cfTail_sfx _ _ _ _)
      · exact List.suffix_refl _
    · exact List.suffix_refl _

theorem txFsm_sfx (s : State) (allowed : Nat) : s.log <:+ (txFsm s allowed).1.log := by
  have h1 := stopSending_sfx
  have h2 := transmitCf_sfx s allowed
  have h3 := readTxQueue_sfx s allowed s.txQueue
  unfold txFsm
  grind [startRxFcTimer, List.suffix_refl, List.suffix_cons, List.IsSuffix.trans]

theorem txFinish_log (x : State × Option CanMsg × Bool) : (txFinish x).1.log = x.1.log := by
  unfold txFinish; grind

/-- `_process_tx` only appends to the log. -/
theorem processTx_sfx (s : State) : s.log <:+ s.processTx.1.log := by
  rw [processTx_eq]
  have a1 := (txPend_fields s).2.2.2.2.1
  split
  · simp_all
  · simp_all
  · rename_i s1 hp
    rw [hp] at a1
    have a2 := txFc_sfx s1
    split
    · simp_all
    · rename_i s2 hf
      rw [hf] at a2
      have a3 := txTimeout_sfx s2
      split
      · simp only [State.raise]; simp_all; exact a2.trans a3
      · rw [txFinish_log]
        simp only at a1 a2
        rw [a1] at a2
        exact ((a2.trans a3).trans (txDepl_sfx _)).trans (txFsm_sfx _ _)


/-! ### successful completions and the frame that justifies them -/

/-- Why a successful completion `SendRequest.complete(True)` of request `id`, logged by a `_process_tx`
    call entered in state `s` and returning the frame `out`, is legitimate:
    either the payload is empty (there is no frame to send), or `out` is the *last* frame of the request:
    its Single Frame (fresh from the queue or released from the rate-limiter standby) or the Consecutive
    Frame that carries all the bytes that were still to be sent. -/
inductive Justified (s : State) (out : Option CanMsg) (id : Nat) : Prop
  | empty (r : Req) (hq : r ∈ s.txQueue) (hid : r.id = id) (hsz : r.size = 0)
  | single (r : Req) (msg : CanMsg) (hq : r ∈ s.txQueue) (hid : r.id = id) (hout : out = some msg)
      (hfit : r.size + sfOff s r + s.txPrefixLen ≤ s.cfg.txDl)
      (hdata : ∃ hdr pad, msg.data = s.addr.tx.txPrefix ++ hdr ++ r.src.take r.size ++ pad)
  | standby (r : Req) (msg : CanMsg) (ha : s.active = some r) (hid : r.id = id) (hst : s.txState = .sfStandby)
      (hsb : s.standby = some msg) (hout : out = some msg)
  | lastCf (r : Req) (msg : CanMsg) (ha : s.active = some r) (hid : r.id = id)
      (hst : s.txState = .transmitCf ∨ s.txState = .waitFc) (hrem : 0 < r.remaining)
      (hfit : r.remaining ≤ s.cfg.txDl - 1 - s.txPrefixLen) (hout : out = some msg)
      (hdata : ∃ pad, msg.data = s.addr.tx.txPrefix ++ [u8 (0x20 + s.txSeq)] ++ r.src.take r.remaining ++ pad)

theorem Justified.of_pre {s s' : State} {out : Option CanMsg} {id : Nat} (hp : Pre s s')
    (h : Justified s' out id) : Justified s out id := by
  obtain ⟨hq, hc, had, -, -, -, htx⟩ := hp
  cases h with
  | empty r h1 h2 h3 => exact .empty r (hq ▸ h1) h2 h3
  | single r msg h1 h2 h3 h4 h5 =>
    refine .single r msg (hq ▸ h1) h2 h3 ?_ ?_
    · have : sfOff s' r = sfOff s r := by unfold sfOff sizeOnFirst txPrefixLen; rw [hc, had]
      rw [this] at h4
      simpa [txPrefixLen, hc, had] using h4
    · simpa [had] using h5
  | standby r msg h1 h2 h3 h4 h5 =>
    rcases htx with ⟨-, h⟩ | ⟨ha, hs, -, hst⟩
    · simp [h] at h1
    · refine .standby r msg (ha ▸ h1) h2 ?_ (hs ▸ h4) h5
      rcases hst with h | ⟨h, -⟩
      · exact h ▸ h3
      · simp [h3] at h
  | lastCf r msg h1 h2 h3 h4 h5 h6 h7 =>
    rcases htx with ⟨-, h⟩ | ⟨ha, hs, hsq, hst⟩
    · simp [h] at h1
    · refine .lastCf r msg (ha ▸ h1) h2 ?_ h4 ?_ h6 ?_
      · rcases hst with h | ⟨-, h⟩
        · exact h ▸ h3
        · exact h.symm
      · simpa [txPrefixLen, hc, had] using h5
      · simpa [had, hsq] using h7

theorem sfTail_succ (s : State) (r : Req) (b : Bool) (allowed : Nat) (res : Option Bytes) (r' : Req)
    (ha : s.active = some r') :
    ∃ new, succL (sfTail s r b allowed res).1.log = new ++ succL s.log ∧
      ∀ id ∈ new, id = r'.id ∧ (sfTail s r b allowed res).1.exc = s.exc ∧
        ∃ p msg, res = some p ∧ (sfTail s r b allowed res).2 = some msg ∧
          ∃ hdr pad, msg.data = s.addr.tx.txPrefix ++ hdr ++ p ++ pad := by
  unfold sfTail
  cases res with
  | none =>
    refine ⟨[], ?_, by simp⟩
    have := (stopSending_fields (s.error .BadGenerator) false).2.2.2.2.2.2.2.2.1
    simpa [State.error, emit] using this
  | some p =>
    simp only
    generalize (if b = true then [u8 p.length] else [0, u8 p.length]) = hdr
    cases hm : makeTxMsg s.cfg s.addr (s.addr.tx.txId r.tat) (s.addr.tx.txPrefix ++ hdr ++ p) with
    | none => exact ⟨[], by simp [State.raise], by simp⟩
    | some msg =>
      simp only
      split
      · exact ⟨[], by simp, by simp⟩
      · have hf := stopSending_fields s true
        refine ⟨[r'.id], by simp [hf.2.2.2.2.2.2.2.2.1, ha], ?_⟩
        intro id hid
        simp only [List.mem_singleton] at hid
        obtain ⟨pad, hpad⟩ := makeTxMsg_data _ _ _ _ _ hm
        exact ⟨hid, hf.2.2.2.1, p, msg, rfl, rfl, hdr, pad, hpad⟩

theorem ffTail_succ (s : State) (total : Nat) (allowed : Nat) (res : Option Bytes) :
    succL (ffTail s total allowed res).1.log = succL s.log := by
  have h1 := stopSending_fields
  unfold ffTail
  grind [State.error, State.raise, emit, startRxFcTimer, succL_err]

theorem consumeActive_succ (s : State) (r : Req) (n : Nat) (e : Bool) :
    succL (s.consumeActive r n e).1.log = succL s.log ∧ (s.consumeActive r n e).1.exc = s.exc ∧
    (s.consumeActive r n e).1.addr = s.addr ∧ (s.consumeActive r n e).1.txSeq = s.txSeq := by
  unfold consumeActive
  grind [emit, succL_pull]

theorem startTx_succ (s : State) (r : Req) (allowed : Nat) :
    ∃ new, succL (s.startTx r allowed).1.log = new ++ succL s.log ∧
      ∀ id ∈ new, id = r.id ∧ (s.startTx r allowed).1.exc = s.exc ∧
        ∃ msg, (s.startTx r allowed).2 = some msg ∧ r.size + sfOff s r + s.txPrefixLen ≤ s.cfg.txDl ∧
          ∃ hdr pad, msg.data = s.addr.tx.txPrefix ++ hdr ++ r.src.take r.size ++ pad := by
  rw [startTx_eq]
  split
  · rename_i hfit
    obtain ⟨l, hl, -⟩ := consumeActive_fst s r r.size true
    obtain ⟨c1, c2, c3, -⟩ := consumeActive_succ s r r.size true
    obtain ⟨new, h1, h2⟩ := sfTail_succ (s.consumeActive r r.size true).1 r (sizeOnFirst s r) allowed
      (s.consumeActive r r.size true).2.2 (r.consume r.size true).1 (by rw [hl])
    refine ⟨new, by rw [h1, c1], ?_⟩
    intro id hid
    obtain ⟨e1, e2, p, msg, e3, e4, hdr, pad, e5⟩ := h2 id hid
    rw [consumeActive_snd] at e3
    have hp := (consume_exact r r.size p e3).2.1
    refine ⟨by rw [e1, consume_id], by rw [e2, c2], msg, e4, hfit, hdr, pad, ?_⟩
    rw [e5, c3, hp]
  · refine ⟨[], ?_, by simp⟩
    rw [ffTail_succ, (consumeActive_succ _ _ _ _).1]; rfl

theorem readTxQueue_succ (s : State) (allowed : Nat) (q : List Req) (hq : Fresh q) :
    ∃ new, succL (s.readTxQueue allowed q).1.log = new ++ succL s.log ∧
      ∀ id ∈ new,
        ((∃ r ∈ q, r.id = id ∧ r.size = 0) ∨
         ((s.readTxQueue allowed q).1.exc = s.exc ∧
          ∃ r ∈ q, ∃ msg, r.id = id ∧ (s.readTxQueue allowed q).2 = some msg ∧
            r.size + sfOff s r + s.txPrefixLen ≤ s.cfg.txDl ∧
            ∃ hdr pad, msg.data = s.addr.tx.txPrefix ++ hdr ++ r.src.take r.size ++ pad)) := by
  induction q generalizing s with
  | nil => exact ⟨[], rfl, by simp⟩
  | cons r rest ih =>
    cases hd : r.depleted
    · rw [readTxQueue_start _ _ _ _ hd]
      obtain ⟨new, h1, h2⟩ := startTx_succ { s with txQueue := rest, active := some r } r allowed
      refine ⟨new, h1, ?_⟩
      intro id hid
      obtain ⟨e1, e2, msg, e3, e4, e5⟩ := h2 id hid
      exact .inr ⟨e2, r, by simp, msg, e1.symm, e3, e4, e5⟩
    · rw [readTxQueue_depl _ _ _ _ hd]
      obtain ⟨new, h1, h2⟩ := ih { s with txQueue := rest, active := none, log := .done r.id true :: s.log }
        (fun x hx => hq x (List.mem_cons_of_mem _ hx))
      refine ⟨new ++ [r.id], by rw [h1]; simp, ?_⟩
      intro id hid
      simp only [List.mem_append, List.mem_singleton] at hid
      rcases hid with hid | rfl
      · rcases h2 id hid with ⟨x, hx, e⟩ | ⟨e0, x, hx, e⟩
        · exact .inl ⟨x, List.mem_cons_of_mem _ hx, e⟩
        · exact .inr ⟨e0, x, List.mem_cons_of_mem _ hx, e⟩
      · refine .inl ⟨r, by simp, rfl, ?_⟩
        have := hq r (by simp)
        unfold Req.depleted at hd
        grind


/-- the end of `cfTail`: what happens after the Consecutive Frame (if any) was built -/
def cfEnd (s : State) (r' : Req) (rbs : Nat) (out : Option CanMsg) : State × Option CanMsg × Bool :=
  if r'.depleted then
    if r'.remaining > 0 then ((s.error .BadGenerator).stopSending false, out, false)
    else (s.stopSending true, out, false)
  else if rbs ≠ 0 && s.txBlockCnt ≥ rbs then
    (({ s with txState := .waitFc }).startRxFcTimer, out, true)
  else (s, out, false)

theorem cfEnd_succ (s : State) (r' : Req) (rbs : Nat) (out : Option CanMsg) (ha : s.active = some r') :
    ∃ new, succL (cfEnd s r' rbs out).1.log = new ++ succL s.log ∧
      ∀ id ∈ new, id = r'.id ∧ (cfEnd s r' rbs out).1.exc = s.exc ∧ r'.remaining = 0 ∧
        (cfEnd s r' rbs out).2.1 = out := by
  unfold cfEnd
  split
  · split
    · refine ⟨[], ?_, by simp⟩
      have := (stopSending_fields (s.error .BadGenerator) false).2.2.2.2.2.2.2.2.1
      simpa [State.error, emit] using this
    · have hf := stopSending_fields s true
      refine ⟨[r'.id], by simp [hf.2.2.2.2.2.2.2.2.1, ha], ?_⟩
      intro id hid
      simp only [List.mem_singleton] at hid
      exact ⟨hid, hf.2.2.2.1, by omega, rfl⟩
  · split
    · exact ⟨[], by simp [startRxFcTimer], by simp⟩
    · exact ⟨[], by simp, by simp⟩

/-- bookkeeping after a Consecutive Frame was built -/
def cfSent (s : State) : State :=
  { s with txSeq := (s.txSeq + 1) % 16, timerStmin := s.timerStmin.startAt s.now, txBlockCnt := s.txBlockCnt + 1 }

theorem cfTail_succ (s : State) (r' : Req) (rbs : Nat) (res : Option Bytes) (ha : s.active = some r') :
    ∃ new, succL (cfTail s r' rbs res).1.log = new ++ succL s.log ∧
      ∀ id ∈ new, id = r'.id ∧ (cfTail s r' rbs res).1.exc = s.exc ∧ r'.remaining = 0 ∧
        ∃ p, res = some p ∧ (0 < p.length → ∃ msg pad, (cfTail s r' rbs res).2.1 = some msg ∧
          msg.data = s.addr.tx.txPrefix ++ [u8 (0x20 + s.txSeq)] ++ p ++ pad) := by
  cases res with
  | none => exact ⟨[], by simp [cfTail, State.raise], by simp⟩
  | some p =>
    by_cases hp : 0 < p.length
    · cases hm : makeTxMsg s.cfg s.addr (s.addr.tx.txId .physical) (s.addr.tx.txPrefix ++ [u8 (0x20 + s.txSeq)] ++ p) with
      | none => exact ⟨[], by simp only [cfTail, hp, ↓reduceIte, hm]; rfl, by simp⟩
      | some msg =>
        obtain ⟨pad, hpad⟩ := makeTxMsg_data _ _ _ _ _ hm
        have he : cfTail s r' rbs (some p) = cfEnd (cfSent s) r' rbs (some msg) := by
          simp only [cfTail, hp, ↓reduceIte, hm]; rfl
        rw [he]
        obtain ⟨new, h1, h2⟩ := cfEnd_succ (cfSent s) r' rbs (some msg) ha
        refine ⟨new, h1, ?_⟩
        intro id hid
        obtain ⟨e1, e2, e3, e4⟩ := h2 id hid
        exact ⟨e1, e2, e3, p, rfl, fun _ => ⟨msg, pad, e4, hpad⟩⟩
    · have he : cfTail s r' rbs (some p) = cfEnd s r' rbs none := by
        simp [cfTail, hp, cfEnd]
      rw [he]
      obtain ⟨new, h1, h2⟩ := cfEnd_succ s r' rbs none ha
      refine ⟨new, h1, ?_⟩
      intro id hid
      obtain ⟨e1, e2, e3, e4⟩ := h2 id hid
      exact ⟨e1, e2, e3, p, rfl, fun h => absurd h hp⟩


theorem transmitCf_succ (s : State) (allowed : Nat) (g : Good s) (hst : s.txState = .transmitCf) :
    ∃ new, succL (s.transmitCf allowed).1.log = new ++ succL s.log ∧
      ∀ id ∈ new, (s.transmitCf allowed).1.exc = s.exc ∧ Justified s (s.transmitCf allowed).2.1 id := by
  have ⟨hv8, hv64⟩ := valid_txDl _ g.1
  have hpl : s.txPrefixLen ≤ 1 := txPrefix_le s.addr
  rw [transmitCf_eq]
  split
  · exact ⟨[], rfl, by simp⟩
  · exact ⟨[], rfl, by simp⟩
  · rename_i rbs r hrbs ha
    split
    · split
      · have hnd : r.depleted = false := by
          cases hd : r.depleted
          · rfl
          · have := (g.2.act r ha hd).1; simp_all
        have hrem : 0 < r.remaining ∧ r.consumed + r.remaining = r.size := by
          unfold Req.depleted at hnd; unfold Req.remaining; grind
        obtain ⟨l, hl, -⟩ := consumeActive_fst s r (cfLen s r) false
        obtain ⟨c1, c2, c3, c4⟩ := consumeActive_succ s r (cfLen s r) false
        obtain ⟨new, h1, h2⟩ := cfTail_succ (s.consumeActive r (cfLen s r) false).1
          (s.consumeActive r (cfLen s r) false).2.1 rbs (s.consumeActive r (cfLen s r) false).2.2 (by rw [hl]; rfl)
        refine ⟨new, by rw [h1, c1], ?_⟩
        intro id hid
        obtain ⟨e1, e2, e3, p, e4, e5⟩ := h2 id hid
        rw [consumeActive_snd] at e1 e3 e4
        obtain ⟨p1, p2, p3, p4, -⟩ := consume_loose r (cfLen s r) p e4
        have hsz := consume_size r (cfLen s r) false
        have hplen : p.length = r.remaining := by
          unfold Req.remaining at e3 hrem ⊢; omega
        have hcf : cfLen s r = r.remaining := by
          have : cfLen s r ≤ r.remaining := by unfold cfLen; omega
          omega
        obtain ⟨msg, pad, e6, e7⟩ := e5 (by omega)
        refine ⟨by rw [e2, c2], .lastCf r msg ha (by rw [e1, consume_id]) (.inl hst) hrem.1 ?_ e6 ⟨pad, ?_⟩⟩
        · unfold cfLen at hcf; omega
        · rw [e7, c3, c4, p2, hcf]
      · exact ⟨[], rfl, by simp⟩
    · exact ⟨[], rfl, by simp⟩

theorem txFsm_succ (s : State) (allowed : Nat) (g : Good s) :
    ∃ new, succL (txFsm s allowed).1.log = new ++ succL s.log ∧
      ∀ id ∈ new, Justified s (txFsm s allowed).2.1 id ∧
        ((txFsm s allowed).1.exc = s.exc ∨ ∃ r ∈ s.txQueue, r.id = id ∧ r.size = 0) := by
  unfold txFsm
  split
  · obtain ⟨new, h1, h2⟩ := readTxQueue_succ s allowed s.txQueue g.2.fresh
    refine ⟨new, h1, ?_⟩
    intro id hid
    rcases h2 id hid with ⟨r, hr, e1, e2⟩ | ⟨e0, r, hr, msg, e1, e2, e3, e4⟩
    · exact ⟨.empty r hr e1 e2, .inr ⟨r, hr, e1, e2⟩⟩
    · exact ⟨.single r msg hr e1 e2 e3 e4, .inl e0⟩
  · rename_i hst
    cases hsb : s.standby with
    | none => exact ⟨[], rfl, by simp⟩
    | some msg =>
      simp only
      split
      · have hne : ¬ (({ s with standby := none } : State).txState = .ffStandby) := by simp [hst]
        rw [if_neg hne]
        have hf := stopSending_fields { s with standby := none } true
        refine ⟨optId s.active, by simp [hf.2.2.2.2.2.2.2.2.1], ?_⟩
        intro id hid
        rcases Option.eq_none_or_eq_some s.active with ha | ⟨r, ha⟩
        · simp [ha] at hid
        · simp only [ha, optId_some, List.mem_singleton] at hid
          exact ⟨.standby r msg ha hid.symm hst hsb rfl, .inl hf.2.2.2.1⟩
      · exact ⟨[], rfl, by simp⟩
  · rename_i hst
    cases hsb : s.standby with
    | none => exact ⟨[], rfl, by simp⟩
    | some msg =>
      simp only
      split
      · simp only [hst, ↓reduceIte]
        exact ⟨[], by simp [startRxFcTimer], by simp⟩
      · exact ⟨[], rfl, by simp⟩
  · exact ⟨[], rfl, by simp⟩
  · rename_i hst
    obtain ⟨new, h1, h2⟩ := transmitCf_succ s allowed g hst
    exact ⟨new, h1, fun id hid => ⟨(h2 id hid).2, .inl (h2 id hid).1⟩⟩


theorem txFinish_out (x : State × Option CanMsg × Bool) (h : x.1.exc = none) : (txFinish x).2.1 = x.2.1 := by
  obtain ⟨s, out, imm⟩ := x
  unfold txFinish
  simp only at h ⊢
  simp only [h, Option.isSome_none, Bool.false_eq_true, ↓reduceIte]
  cases out <;> rfl

/-- **Success is never signalled before the last frame.**  In a `_process_tx` call entered in a reachable
    state (no pending exception), every *new* successful completion is justified: empty payload, or the
    frame returned by this very call is the request's last frame. -/
theorem processTx_succ (s : State) (g : Good s) (hx : s.exc = none) :
    ∃ new, succL s.processTx.1.log = new ++ succL s.log ∧ ∀ id ∈ new, Justified s s.processTx.2.1 id := by
  rw [processTx_eq]
  have f1 := (txPend_fields s).2.2.2.2.1
  have i1 := txPend_inv s g.2
  split
  · rename_i s1 hp; rw [hp] at f1; exact ⟨[], by simp_all, by simp⟩
  · rename_i s1 msg hp; rw [hp] at f1; exact ⟨[], by simp_all, by simp⟩
  · rename_i s1 hp
    rw [hp] at i1
    have p1 := txPend_pre s s1 hp
    have p2 := p1.trans (txFc_pre s1)
    have i2 := txFc_inv s1 i1
    split
    · rename_i s2 hf
      rw [hf] at p2
      exact ⟨[], by simp [p2.2.2.2.2.2.1], by simp⟩
    · rename_i s2 hf
      rw [hf] at p2 i2
      have p3 := p2.trans (txTimeout_pre s2)
      have i3 := txTimeout_inv s2 i2
      split
      · exact ⟨[], by simp [State.raise, p3.2.2.2.2.2.1], by simp⟩
      · rw [txDepl_eq _ i3]
        have g3 : Good (txTimeout s2) := ⟨by unfold WF; rw [p3.2.1]; exact g.1, i3⟩
        obtain ⟨new, h1, h2⟩ := txFsm_succ (txTimeout s2) (s.rl.allowedBytes s.cfg.rlBitMax) g3
        refine ⟨new, by rw [txFinish_log, h1, p3.2.2.2.2.2.1], ?_⟩
        intro id hid
        obtain ⟨j, hj⟩ := h2 id hid
        rcases hj with he | ⟨r, hr, e1, e2⟩
        · rw [txFinish_out _ (by rw [he, p3.2.2.2.1, hx])]
          exact j.of_pre p3
        · exact .empty r (p3.1 ▸ hr) e1 e2

/-- the same statement with the new log events made explicit -/
theorem processTx_success_late (s : State) (g : Good s) (hx : s.exc = none) :
    ∃ evs, s.processTx.1.log = evs ++ s.log ∧
      ∀ id, Ev.done id true ∈ evs → Justified s s.processTx.2.1 id := by
  obtain ⟨evs, hevs⟩ := processTx_sfx s
  obtain ⟨new, h1, h2⟩ := processTx_succ s g hx
  refine ⟨evs, hevs.symm, ?_⟩
  intro id hid
  apply h2
  rw [← hevs, succL_append] at h1
  have := List.append_cancel_right h1
  rw [← this, mem_succL]
  exact hid


/-! ## Aborts complete the request with failure -/

theorem mem_pendingIds (s : State) (id : Nat) :
    id ∈ pendingIds s ↔ (∃ r, s.active = some r ∧ r.id = id) ∨ (∃ r ∈ s.txQueue, r.id = id) := by
  unfold pendingIds
  cases h : s.active <;> simp [eq_comm]

theorem resetEvents_spec (s : State) (e : Ev) :
    e ∈ resetEvents s ↔ ∃ id ∈ pendingIds s, e = .done id false := by
  simp only [resetEvents, List.mem_append, List.mem_map, List.mem_reverse, mem_pendingIds]
  cases h : s.active with
  | none =>
    simp only [List.not_mem_nil, false_or, reduceCtorEq, false_and, exists_false]
    constructor
    · rintro ⟨r, hr, rfl⟩; exact ⟨r.id, ⟨r, hr, rfl⟩, rfl⟩
    · rintro ⟨id, ⟨r, hr, rfl⟩, rfl⟩; exact ⟨r, hr, rfl⟩
  | some a =>
    simp only [List.mem_singleton, Option.some.injEq, exists_eq_left']
    constructor
    · rintro (rfl | ⟨r, hr, rfl⟩)
      · exact ⟨a.id, .inl rfl, rfl⟩
      · exact ⟨r.id, .inr ⟨r, hr, rfl⟩, rfl⟩
    · rintro ⟨id, (rfl | ⟨r, hr, rfl⟩), rfl⟩
      · exact .inl rfl
      · exact .inr ⟨r, hr, rfl⟩

theorem reset_pending (s : State) : pendingIds s.reset = [] := by
  obtain ⟨-, h2, h3, -⟩ := reset_fields s
  simp [pendingIds, h2, h3]

theorem reset_completes (s : State) (id : Nat) (h : id ∈ pendingIds s) : Ev.done id false ∈ s.reset.log := by
  rw [(reset_fields s).1]
  exact List.mem_append_left _ ((resetEvents_spec s _).2 ⟨id, h, rfl⟩)

theorem reset_log_mono (s : State) (e : Ev) (h : e ∈ s.log) : e ∈ s.reset.log := by
  rw [(reset_fields s).1]; exact List.mem_append_right _ h

/-- the logic-layer state after `TransportLayer.stop()` (up to the unread input, which `stop` drops) -/
theorem stop_core (t : TL) :
    t.stop.1.core = { (if t.mainThread = .running then t.core.reset.reset else t.core.reset) with inbox := [] } := by
  unfold TL.stop TL.workerExit
  by_cases h : t.mainThread = .running
  · simp only [h, ↓reduceIte]
  · simp only [h, ↓reduceIte]

theorem stop_completes (t : TL) (id : Nat) (h : id ∈ pendingIds t.core) :
    Ev.done id false ∈ t.stop.1.core.log ∧ pendingIds t.stop.1.core = [] := by
  rw [stop_core]
  split
  · exact ⟨reset_log_mono _ _ (reset_completes _ _ h), reset_pending _⟩
  · exact ⟨reset_completes _ _ h, reset_pending _⟩

/-- `stop()` logs nothing but failed completions of pending requests: the second `reset()`
    (the one `stop()` runs itself after the worker's `finally: reset()`) finds nothing left. -/
theorem stop_log (t : TL) : t.stop.1.core.log = resetEvents t.core ++ t.core.log := by
  rw [stop_core]
  split
  · show t.core.reset.reset.log = _
    rw [(reset_fields _).1, (reset_fields t.core).1]
    have : resetEvents t.core.reset = [] := by
      obtain ⟨-, h2, h3, -⟩ := reset_fields t.core
      simp [resetEvents, h2, h3]
    rw [this]; rfl
  · exact (reset_fields _).1


theorem stopSending_abort (s : State) (r : Req) (b : Bool) (h : s.active = some r) :
    (s.stopSending b).log = .done r.id b :: s.log ∧ (s.stopSending b).active = none ∧
      (s.stopSending b).txState = .idle ∧ (s.stopSending b).txQueue = s.txQueue := by
  unfold stopSending; simp [h, emit]

/-! ### protocol errors -/

theorem txPend_idle_eq (s : State) (h : s.pendingFc = false) : txPend s = (s, none) := by
  unfold txPend; simp [h]

/-- whatever the FSM part does afterwards, what was logged before stays in the log -/
theorem processTx_after_pre (s s3 s3' : State) (hp : s.pendingFc = false) (hfc : txFc s = (s3', false))
    (hs3 : s3 = txTimeout s3') (e : Ev) (he : e ∈ s3.log) : e ∈ s.processTx.1.log := by
  rw [processTx_eq, txPend_idle_eq s hp]
  simp only [hfc]
  split
  · subst hs3; exact he
  · rw [txFinish_log]
    subst hs3
    exact ((txDepl_sfx _).trans (txFsm_sfx _ _)).subset he

/-- Flow Control *Overflow*: the transmission is aborted, the request fails, nothing is sent. -/
theorem overflow_aborts (s : State) (r : Req) (f : FcFrame) (hp : s.pendingFc = false)
    (hf : s.lastFc = some f) (h2 : f.status = 2) (ha : s.active = some r) :
    s.processTx.1.log = .err s.now .Overflow :: .done r.id false :: s.log ∧ s.processTx.1.active = none ∧
      s.processTx.1.txState = .idle ∧ s.processTx.2.1 = none := by
  have h : txFc s = (((State.stopSending { s with lastFc := none } false).error .Overflow), true) := by
    unfold txFc; simp [hf, h2]
  rw [processTx_eq, txPend_idle_eq s hp]
  simp only [h]
  obtain ⟨h1, h2, h3, -⟩ := stopSending_abort { s with lastFc := none } r false ha
  have hn := (stopSending_fields { s with lastFc := none } false).2.2.2.2.2.2.2.1
  refine ⟨?_, h2, h3, trivial⟩
  simp only [State.error, emit, h1, hn]

/-- N_Bs timeout (no Flow Control in time): the request in transmission fails. -/
theorem fcTimeout_aborts (s : State) (r : Req) (hp : s.pendingFc = false) (hf : s.lastFc = none)
    (ht : s.timerFc.timedOut s.now = true) (ha : s.active = some r) :
    Ev.done r.id false ∈ s.processTx.1.log ∧ Ev.err s.now .FlowControlTimeout ∈ s.processTx.1.log := by
  have h : txFc s = ({ s with lastFc := none }, false) := by unfold txFc; simp [hf]
  have h3 : txTimeout { s with lastFc := none } =
      State.stopSending (State.error { s with lastFc := none } .FlowControlTimeout) false := by
    unfold txTimeout; simp [ht]
  have hl := (stopSending_abort (State.error { s with lastFc := none } .FlowControlTimeout) r false ha).1
  constructor
  · apply processTx_after_pre s _ _ hp h h3.symm
    rw [hl]; simp
  · apply processTx_after_pre s _ _ hp h h3.symm
    rw [hl]; simp [State.error, emit]

/-- more Wait frames than `wftmax`: the request in transmission fails. -/
theorem maxWaitFrame_aborts (s : State) (r : Req) (f : FcFrame) (hp : s.pendingFc = false)
    (hf : s.lastFc = some f) (h1 : f.status = 1) (hst : s.txState ≠ .idle)
    (ht : s.timerFc.timedOut s.now = false) (hw0 : s.cfg.wftmax ≠ 0) (hw : s.wftCnt ≥ s.cfg.wftmax)
    (ha : s.active = some r) :
    Ev.done r.id false ∈ s.processTx.1.log ∧ Ev.err s.now .MaximumWaitFrameReached ∈ s.processTx.1.log := by
  have h : txFc s = (State.stopSending (State.error { s with lastFc := none } .MaximumWaitFrameReached) false, false) := by
    unfold txFc handleFc; simp [hf, h1, hst, ht, hw0, hw]
  have hl := (stopSending_abort (State.error { s with lastFc := none } .MaximumWaitFrameReached) r false ha).1
  have hsfx := txTimeout_sfx (State.stopSending (State.error { s with lastFc := none } .MaximumWaitFrameReached) false)
  constructor
  · apply processTx_after_pre s _ _ hp h rfl
    apply hsfx.subset; rw [hl]; simp
  · apply processTx_after_pre s _ _ hp h rfl
    apply hsfx.subset; rw [hl]; simp [State.error, emit]


theorem sfTail_none (s : State) (r : Req) (b : Bool) (allowed : Nat) (r' : Req) (ha : s.active = some r') :
    (sfTail s r b allowed none).1.log = .done r'.id false :: .err s.now .BadGenerator :: s.log ∧
      (sfTail s r b allowed none).1.active = none ∧ (sfTail s r b allowed none).1.txState = .idle ∧
      (sfTail s r b allowed none).2 = none := by
  have := stopSending_abort (s.error .BadGenerator) r' false ha
  exact ⟨this.1, this.2.1, this.2.2.1, rfl⟩

theorem ffTail_none (s : State) (total : Nat) (allowed : Nat) (r' : Req) (ha : s.active = some r') :
    (ffTail s total allowed none).1.log = .done r'.id false :: .err s.now .BadGenerator :: s.log ∧
      (ffTail s total allowed none).1.active = none ∧ (ffTail s total allowed none).1.txState = .idle ∧
      (ffTail s total allowed none).2 = none := by
  have := stopSending_abort (s.error .BadGenerator) r' false ha
  exact ⟨this.1, this.2.1, this.2.2.1, rfl⟩

/-- `BadGeneratorError` at the start of a transmission (the generator yields fewer bytes than the
    Single / First Frame needs): the request fails, nothing is sent. -/
theorem badGenerator_start (s : State) (r : Req) (allowed : Nat) (ha : s.active = some r)
    (hbad : (r.consume (if r.size + sfOff s r + s.txPrefixLen ≤ s.cfg.txDl then r.size else ffDataLen s r.size) true).2
      = none) :
    Ev.done r.id false ∈ (s.startTx r allowed).1.log ∧ Ev.err s.now .BadGenerator ∈ (s.startTx r allowed).1.log ∧
      (s.startTx r allowed).1.active = none ∧ (s.startTx r allowed).1.txState = .idle ∧
      (s.startTx r allowed).2 = none := by
  rw [startTx_eq]
  split
  · rename_i h
    simp only [h, ↓reduceIte] at hbad
    obtain ⟨l, hl, -⟩ := consumeActive_fst s r r.size true
    rw [consumeActive_snd, hbad]
    generalize (s.consumeActive r r.size true).1 = s1 at hl ⊢
    have ha1 : s1.active = some (r.consume r.size true).1 := by rw [hl]
    have hn1 : s1.now = s.now := by rw [hl]
    obtain ⟨e1, e2, e3, e4⟩ := sfTail_none s1 r (sizeOnFirst s r) allowed _ ha1
    rw [consume_id] at e1
    exact ⟨by rw [e1]; simp, by rw [e1]; simp [hn1], e2, e3, e4⟩
  · rename_i h
    simp only [h, ↓reduceIte] at hbad
    obtain ⟨l, hl, -⟩ := consumeActive_fst { s with txFrameLen := r.size } r (ffDataLen s r.size) true
    rw [consumeActive_snd, hbad]
    generalize (State.consumeActive { s with txFrameLen := r.size } r (ffDataLen s r.size) true).1 = s1 at hl ⊢
    have ha1 : s1.active = some (r.consume (ffDataLen s r.size) true).1 := by rw [hl]
    have hn1 : s1.now = s.now := by rw [hl]
    obtain ⟨e1, e2, e3, e4⟩ := ffTail_none s1 r.size allowed _ ha1
    rw [consume_id] at e1
    exact ⟨by rw [e1]; simp, by rw [e1]; simp [hn1], e2, e3, e4⟩

theorem cfEnd_bad (s : State) (r' : Req) (rbs : Nat) (out : Option CanMsg) (ha : s.active = some r')
    (hd : r'.depleted = true) (hr : r'.remaining > 0) :
    (cfEnd s r' rbs out).1.log = .done r'.id false :: .err s.now .BadGenerator :: s.log ∧
      (cfEnd s r' rbs out).1.active = none := by
  unfold cfEnd
  simp only [hd, hr, ↓reduceIte]
  have := stopSending_abort (s.error .BadGenerator) r' false ha
  exact ⟨this.1, this.2.1⟩

/-- `BadGeneratorError` while sending Consecutive Frames (the generator runs dry before the declared
    size): the request fails. -/
theorem badGenerator_cf (s : State) (allowed : Nat) (r : Req) (rbs : Nat) (g : Good s)
    (hst : s.txState = .transmitCf) (hrbs : s.remoteBs = some rbs) (ha : s.active = some r)
    (ht : s.timerStmin.timedOut s.now = true) (hal : cfLen s r ≤ allowed) (hshort : r.src.length < cfLen s r) :
    Ev.done r.id false ∈ (s.transmitCf allowed).1.log ∧ Ev.err s.now .BadGenerator ∈ (s.transmitCf allowed).1.log ∧
      (s.transmitCf allowed).1.active = none := by
  have ⟨hv8, hv64⟩ := valid_txDl _ g.1
  have hpl : s.txPrefixLen ≤ 1 := txPrefix_le s.addr
  have hnd : r.depleted = false := by
    cases hd : r.depleted
    · rfl
    · have := (g.2.act r ha hd).1; simp_all
  have hcs : r.consumed + cfLen s r ≤ r.size := by
    unfold Req.depleted at hnd; unfold cfLen Req.remaining; grind
  rw [transmitCf_eq]
  simp only [hrbs, ha, ht, hal, ↓reduceIte]
  obtain ⟨l, hl, -⟩ := consumeActive_fst s r (cfLen s r) false
  rw [consumeActive_snd, hl]
  obtain ⟨p, hp⟩ := Option.isSome_iff_exists.mp (consume_loose_isSome r _ hcs)
  obtain ⟨p1, p2, p3, p4, p5⟩ := consume_loose r _ p hp
  have hsz := consume_size r (cfLen s r) false
  have hplen : p.length = r.src.length := by rw [p2, List.length_take]; omega
  have hd' : (r.consume (cfLen s r) false).1.depleted = true := by
    unfold Req.depleted; rw [p5.2 (.inr (by omega))]; simp
  have hr' : (r.consume (cfLen s r) false).1.remaining > 0 := by
    unfold Req.remaining; omega
  rw [hp]
  generalize hs1 : ({ s with log := l, active := some (r.consume (cfLen s r) false).1 } : State) = s1
  have ha1 : s1.active = some (r.consume (cfLen s r) false).1 := by rw [← hs1]
  have hn1 : s1.now = s.now := by rw [← hs1]
  have hc1 : s1.cfg = s.cfg := by rw [← hs1]
  have had1 : s1.addr = s.addr := by rw [← hs1]
  by_cases hp0 : 0 < p.length
  · have hmk : (makeTxMsg s1.cfg s1.addr (s1.addr.tx.txId .physical)
        (s1.addr.tx.txPrefix ++ [u8 (0x20 + s1.txSeq)] ++ p)).isSome = true := by
      apply makeTxMsg_isSome _ _ _ _ (by rw [hc1]; exact g.1)
      · simp only [List.length_append, List.length_cons, List.length_nil]; omega
      · simp only [List.length_append, List.length_cons, List.length_nil, cfLen, txPrefixLen, hc1, had1] at p1 hpl ⊢
        omega
    obtain ⟨msg, hm⟩ := Option.isSome_iff_exists.mp hmk
    have he : cfTail s1 (r.consume (cfLen s r) false).1 rbs (some p) =
        cfEnd (cfSent s1) (r.consume (cfLen s r) false).1 rbs (some msg) := by
      simp only [cfTail, hp0, ↓reduceIte, hm]; rfl
    rw [he]
    obtain ⟨e1, e2⟩ := cfEnd_bad (cfSent s1) _ rbs (some msg) ha1 hd' hr'
    rw [consume_id] at e1
    exact ⟨by rw [e1]; simp, by rw [e1]; simp [cfSent, hn1], e2⟩
  · have he : cfTail s1 (r.consume (cfLen s r) false).1 rbs (some p) =
        cfEnd s1 (r.consume (cfLen s r) false).1 rbs none := by
      simp only [cfTail, hp0, ↓reduceIte]; rfl
    rw [he]
    obtain ⟨e1, e2⟩ := cfEnd_bad s1 _ rbs none ha1 hd' hr'
    rw [consume_id] at e1
    exact ⟨by rw [e1]; simp, by rw [e1]; simp [hn1], e2⟩


/-! ## Exactly once -/

theorem mem_doneL (id : Nat) (l : List Ev) : id ∈ doneL l ↔ ∃ b, Ev.done id b ∈ l := by
  simp only [doneL, List.mem_filterMap, List.mem_reverse]
  constructor
  · rintro ⟨e, he, h⟩
    cases e <;> simp [doneOf] at h
    subst h; exact ⟨_, he⟩
  · rintro ⟨b, h⟩; exact ⟨_, h, rfl⟩

theorem mem_doneIds (s : State) (id : Nat) : id ∈ doneIds s ↔ ∃ b, Ev.done id b ∈ s.log := by
  rw [doneIds_eq, mem_doneL]

/-- a log whose completion ids are pairwise distinct gives each request one outcome -/
theorem outcome_unique_of_nodup (l : List Ev) (h : (doneL l).Nodup) (id : Nat) (b b' : Bool)
    (h1 : Ev.done id b ∈ l) (h2 : Ev.done id b' ∈ l) : b = b' := by
  induction l with
  | nil => simp at h1
  | cons e l ih =>
    have hsplit : doneL (e :: l) = doneL l ++ (doneOf e).toList := by
      simp only [doneL, List.reverse_cons, List.filterMap_append]; cases h : doneOf e <;> simp [List.filterMap_cons, h]
    rw [hsplit, List.nodup_append] at h
    obtain ⟨hn, -, hdis⟩ := h
    simp only [List.mem_cons] at h1 h2
    rcases h1 with h1 | h1 <;> rcases h2 with h2 | h2
    · rw [← h1] at h2; cases h2; rfl
    · subst h1
      exact absurd rfl (hdis id ((mem_doneL id l).2 ⟨b', h2⟩) id (by simp [doneOf]))
    · subst h2
      exact absurd rfl (hdis id ((mem_doneL id l).2 ⟨b, h1⟩) id (by simp [doneOf]))
    · exact ih hn h1 h2

/-- **Exactly once.** For any history of API calls on a freshly constructed layer (valid parameters):
    the completed and the still pending request ids are, together, exactly the ids accepted by `send`. -/
theorem run_init_accounted (c : Cfg) (a : Addr) (hc : c.valid = true) (ops : List Op) :
    (accounted (run (State.init c a) ops)).Perm (accepted (State.init c a) ops) := by
  have := run_accounted (State.init c a) ops (init_good c a hc)
  rwa [init_accounted, List.nil_append] at this

end Isotp.C12
