#!/venv/bin/python
"""
Mutation self-test helper (not part of any registered check).

  seedtool.py verify <worktree> <k>          demo passes clean / fails mutated / suite passes mutated (in the scratch worktree)
  seedtool.py keep <worktree> <k> <name>     copy out/mutant<k>.diff, demo<k>.py, meta<k>.json to /verif/seeded/<name>/
  seedtool.py detect <name> [--scratch <wt>] [--tier quick] [Cxx ...]
        apply seeded/<name>/patch.diff (to /repo, or to the scratch worktree with VERIF_REPO pointing at it),
        run the listed checks (default: all claimed), undo the patch, record which checks reported a VIOLATION
        into seeded/<name>/detection.json
"""
import os, sys, json, subprocess, shutil, time

VERIF = os.path.dirname(os.path.dirname(os.path.abspath(__file__)))
PY = '/venv/bin/python'


def sh(cmd, cwd=None, env=None, timeout=3000):
    p = subprocess.run(cmd, cwd=cwd, env=env, shell=isinstance(cmd, str), stdout=subprocess.PIPE, stderr=subprocess.STDOUT, timeout=timeout)
    return p.returncode, p.stdout.decode(errors='replace')


def verify(wt, k):
    diff = os.path.join(wt, 'out', 'mutant%s.diff' % k)
    demo = os.path.join('out', 'demo%s.py' % k)
    res = {}
    rc, out = sh(['git', '-C', wt, 'status', '--porcelain', '--', 'isotp'])
    if out.strip():
        sh(['git', '-C', wt, 'checkout', '--', 'isotp'])
    rc, out = sh([PY, demo], cwd=wt, timeout=300)
    res['demo_clean_rc'] = rc
    rc, out = sh(['git', '-C', wt, 'apply', diff])
    res['apply_rc'] = rc
    if rc != 0:
        res['apply_out'] = out[-500:]
        return res
    try:
        rc, out = sh([PY, demo], cwd=wt, timeout=300)
        res['demo_mutant_rc'] = rc
        res['demo_mutant_tail'] = out[-400:]
        rc, out = sh([PY, '-m', 'pytest', '-q', '-p', 'no:cacheprovider', '--timeout=900', '-x', '-n', '4'], cwd=wt, timeout=1800)
        res['suite_rc'] = rc
        res['suite_tail'] = out.strip().splitlines()[-1] if out.strip() else ''
    finally:
        sh(['git', '-C', wt, 'checkout', '--', 'isotp'])
    res['ok'] = (res['demo_clean_rc'] == 0 and res.get('demo_mutant_rc', 0) != 0 and res.get('suite_rc') == 0 and '130 passed' in res.get('suite_tail', ''))
    return res


def keep(wt, k, name, vres=None):
    d = os.path.join(VERIF, 'seeded', name)
    os.makedirs(d, exist_ok=True)
    shutil.copy(os.path.join(wt, 'out', 'mutant%s.diff' % k), os.path.join(d, 'patch.diff'))
    shutil.copy(os.path.join(wt, 'out', 'demo%s.py' % k), os.path.join(d, 'demo.py'))
    meta = {}
    mp = os.path.join(wt, 'out', 'meta%s.json' % k)
    if os.path.exists(mp):
        try:
            meta = json.load(open(mp))
        except Exception:
            meta = {'raw': open(mp).read()}
    meta['origin'] = 'independent sub-agent given only the property text and a scratch worktree'
    meta['confirmed'] = vres or {}
    meta['how_to_run_demo'] = 'cd <tree> && /venv/bin/python <path>/demo.py   (exit 0 on the unchanged tree, non-zero with patch.diff applied)'
    with open(os.path.join(d, 'meta.json'), 'w') as f:
        json.dump(meta, f, indent=1)
    return d


def claimed():
    man = json.load(open(os.path.join(VERIF, 'MANIFEST.json')))
    return [c['property_id'] for c in man['checks']]


def detect(name, props, scratch=None, tier='quick', seed=0):
    d = os.path.join(VERIF, 'seeded', name)
    patch = os.path.join(d, 'patch.diff')
    tree = scratch or '/repo'
    env = dict(os.environ)
    if scratch:
        env['VERIF_REPO'] = scratch
    env['VERIF_SEED'] = str(seed)
    env['VERIF_EVIDENCE_DIR'] = '/tmp/verif_seed_evidence'      # never overwrite the real evidence with runs on a mutated tree
    rc, out = sh(['git', '-C', tree, 'status', '--porcelain', '--', 'isotp'])
    if out.strip():
        raise SystemExit('tree %s is not clean: %s' % (tree, out))
    rc, out = sh(['git', '-C', tree, 'apply', patch])
    if rc != 0:
        raise SystemExit('patch does not apply: ' + out)
    results = {}
    try:
        for pid in props:
            t0 = time.time()
            rc, out = sh([os.path.join(VERIF, 'check'), pid, '--tier', tier], cwd=VERIF, env=env, timeout=3600)
            viol = [l for l in out.splitlines() if l.startswith('VIOLATION')]
            results[pid] = {'rc': rc, 'violation': viol[:3], 'wall': round(time.time() - t0, 1),
                            'broken': [l[:300] for l in out.splitlines() if 'PROOF OBLIGATION BROKEN' in l][:3]}
            print(pid, rc, viol[:1], flush=True)
    finally:
        sh(['git', '-C', tree, 'checkout', '--', 'isotp'])
        # tables were regenerated from the mutated tree: restore them from the clean tree
        sh([PY, os.path.join(VERIF, 'harness', 'extract_tables.py')], env=dict(os.environ, VERIF_REPO='/repo'))
        sh([PY, os.path.join(VERIF, 'harness', 'py2lean.py')], env=dict(os.environ, VERIF_REPO='/repo'))
    rec = {'tier': tier, 'seed': seed, 'tree': tree, 'results': results,
           'detected_by': [p for p, r in results.items() if r['rc'] == 1],
           'with_failing_input': [p for p, r in results.items() if r['rc'] == 1 and not any('no-failing-input-found' in v for v in r['violation'])]}
    with open(os.path.join(d, 'detection.json'), 'w') as f:
        json.dump(rec, f, indent=1)
    print('detected by:', rec['detected_by'], ' with failing input:', rec['with_failing_input'])
    return rec


def main():
    a = sys.argv[1:]
    if a[0] == 'verify':
        print(json.dumps(verify(a[1], a[2]), indent=1))
    elif a[0] == 'keep':
        v = verify(a[1], a[2])
        print(json.dumps(v, indent=1))
        if v.get('ok'):
            print(keep(a[1], a[2], a[3], v))
        else:
            print('NOT kept')
    elif a[0] == 'detect':
        name = a[1]
        rest = a[2:]
        scratch, tier = None, 'quick'
        if '--scratch' in rest:
            i = rest.index('--scratch'); scratch = rest[i + 1]; rest = rest[:i] + rest[i + 2:]
        if '--tier' in rest:
            i = rest.index('--tier'); tier = rest[i + 1]; rest = rest[:i] + rest[i + 2:]
        props = rest or claimed()
        detect(name, props, scratch, tier)


if __name__ == '__main__':
    main()
