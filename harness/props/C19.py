"""C19 - socket option setters write the exact kernel ABI and keep unspecified fields."""
import struct
import trace
from props.base import PropBase, parse_out

U32 = 0xFFFFFFFF
FLAG = {'ext_address': 0x002, 'txpad': 0x004, 'rxpad': 0x008, 'rx_ext_address': 0x200, 'tx_stmin': 0x080}
OPTS_FIELDS = ['optflag', 'frame_txtime', 'ext_address', 'txpad', 'rxpad', 'rx_ext_address']
MAXV = {'optflag': U32, 'frame_txtime': U32, 'ext_address': 0xFF, 'txpad': 0xFF, 'rxpad': 0xFF, 'rx_ext_address': 0xFF, 'tx_stmin': U32,
        'bs': 0xFF, 'stmin': 0xFF, 'wftmax': 0xFF, 'mtu': 0xFF, 'tx_dl': 0xFF, 'tx_flags': 0xFF}


def rand_arg(rng, name, bad_prob=0.12):
    mx = MAXV[name]
    r = rng.random()
    if r < 0.4:
        return None
    if r < 0.4 + bad_prob:
        return rng.choice([-1, mx + 1, 'x', 1.5, mx * 2 + 7])
    return rng.choice([0, mx, 1, rng.randrange(mx + 1), rng.randrange(mx + 1)])


def valid(v, mx):
    return isinstance(v, int) and 0 <= v <= mx


def rand_init(rng):
    if rng.random() < 0.4:
        return {}
    return {'flags': rng.choice([0, 0x080, 0x2FF, 0x7FF, rng.randrange(1 << 11)]), 'ftt': rng.choice([0, 50000, rng.randrange(1 << 32)]),
            'ext': rng.randrange(256), 'txpad': rng.randrange(256), 'rxpad': rng.randrange(256), 'rxext': rng.randrange(256),
            'bs': rng.randrange(256), 'stmin': rng.randrange(256), 'wft': rng.randrange(256), 'mtu': rng.choice([16, 72]),
            'txdl': rng.choice([8, 12, 64]), 'txflags': rng.randrange(256), 'txstmin': rng.randrange(1 << 32)}


def rand_set_call(rng):
    which = rng.choice(['set_opts', 'set_opts', 'set_fc_opts', 'set_ll_opts'])
    names = {'set_opts': OPTS_FIELDS + ['tx_stmin'], 'set_fc_opts': ['bs', 'stmin', 'wftmax'], 'set_ll_opts': ['mtu', 'tx_dl', 'tx_flags']}[which]
    args = {}
    for n in names:
        v = rand_arg(rng, n)
        if v is not None or rng.random() < 0.2:
            args[n] = v
    return {'op': which, 'args': args}


class RefKernel:
    def __init__(self, init):
        self.opts = [init.get('flags', 0), init.get('ftt', 0), init.get('ext', 0), init.get('txpad', 0xCC), init.get('rxpad', 0xCC), init.get('rxext', 0)]
        self.fc = [init.get('bs', 0), init.get('stmin', 0), init.get('wft', 0)]
        self.ll = [init.get('mtu', 16), init.get('txdl', 8), init.get('txflags', 0)]
        self.txstmin = init.get('txstmin', 0)

    def expect(self, op):
        """-> (expected calls, expected result) and updates the state ('None means unchanged')"""
        name, args = op['op'], op.get('args', {})
        if name == 'set_opts':
            for k, v in args.items():
                if v is not None and not valid(v, MAXV[k]):
                    return [], 'exc ValueError'
            o = list(self.opts)
            for i, k in enumerate(OPTS_FIELDS):
                if args.get(k) is not None:
                    o[i] = int(args[k])
            for k, f in FLAG.items():
                if args.get(k) is not None:
                    o[0] |= f
            calls = []
            if args.get('tx_stmin') is not None:
                self.txstmin = int(args['tx_stmin'])
                calls.append('so:106:3:' + struct.pack('<I', self.txstmin).hex())
            self.opts = o
            calls.append('so:106:1:' + struct.pack('<IIBBBB', *o).hex())
            return calls, 'ok ' + ' '.join(str(x) for x in o)
        if name in ('set_fc_opts', 'set_ll_opts'):
            names = ['bs', 'stmin', 'wftmax'] if name == 'set_fc_opts' else ['mtu', 'tx_dl', 'tx_flags']
            cur = self.fc if name == 'set_fc_opts' else self.ll
            for k, v in args.items():
                if v is not None and not valid(v, 0xFF):
                    return [], 'exc ValueError'
            o = list(cur)
            for i, k in enumerate(names):
                if args.get(k) is not None:
                    o[i] = int(args[k])
            if name == 'set_fc_opts':
                self.fc = o
                return ['so:106:2:' + struct.pack('<BBB', *o).hex()], 'ok ' + ' '.join(map(str, o))
            self.ll = o
            return ['so:106:5:' + struct.pack('<BBB', *o).hex()], 'ok ' + ' '.join(map(str, o))
        if name == 'get_opts':
            return [], 'ok ' + ' '.join(map(str, self.opts))
        if name == 'get_fc_opts':
            return [], 'ok ' + ' '.join(map(str, self.fc))
        if name == 'get_ll_opts':
            return [], 'ok ' + ' '.join(map(str, self.ll))
        return None, None


class C19(PropBase):
    id = 'C19'
    lean_modules = ['Isotp.Props.C19']
    theorems = []
    keep_ops = ('new',)
    rule = ('sequences of 1..6 set_opts / set_fc_opts / set_ll_opts / get_* calls on an isotp.socket over a fake kernel socket with random or default '
            'initial option state; each argument independently None / 0 / maximum / random in range / out of range / wrong type; the raw setsockopt '
            'byte images, return values and exceptions are compared with a reference model of "None means unchanged" that packs the structs with '
            'its own copy of the uapi layout; distinct = (initial state?, call sequence with argument classes)')
    assumptions = ['little-endian host', 'Linux can-isotp uapi layout as in include/uapi/linux/can/isotp.h']
    extra_trusted = ['the fake kernel socket and its copy of the uapi struct layouts']
    quick_per_shard = 250
    thorough_per_shard = 8000

    def scenario(self, rng, tier):
        ops = [{'op': 'new', 'init': rand_init(rng)}]
        for _ in range(rng.randrange(1, 7)):
            if rng.random() < 0.25:
                ops.append({'op': rng.choice(['get_opts', 'get_fc_opts', 'get_ll_opts'])})
            else:
                ops.append(rand_set_call(rng))
        ops.append({'op': 'get_opts'})
        ops.append({'op': 'get_fc_opts'})
        ops.append({'op': 'get_ll_opts'})
        return {'ops': ops}

    def enumerate(self, tier):
        """ALL sequences of two setter calls (three for a reduced alphabet in the thorough tier) where each call gives one argument a value of
        every class {0, 1, max, max+1, -1, 'x', 1.5, True} or no argument at all; non-default initial kernel state so that kept fields show"""
        import itertools
        setters = {'set_opts': OPTS_FIELDS + ['tx_stmin'], 'set_fc_opts': ['bs', 'stmin', 'wftmax'], 'set_ll_opts': ['mtu', 'tx_dl', 'tx_flags']}
        calls = []
        for which, names in setters.items():
            calls.append({'op': which, 'args': {}})
            for n in names:
                for v in (0, 1, MAXV[n], MAXV[n] + 1, -1, 'x', 1.5, True):
                    calls.append({'op': which, 'args': {n: v}})
        init = {'flags': 0x2A5, 'ftt': 50000, 'ext': 0x11, 'txpad': 0x22, 'rxpad': 0x33, 'rxext': 0x44, 'bs': 5, 'stmin': 6, 'wft': 7,
                'mtu': 72, 'txdl': 12, 'txflags': 9, 'txstmin': 123456}
        tail = [{'op': 'get_opts'}, {'op': 'get_fc_opts'}, {'op': 'get_ll_opts'}]
        for n in (1, 2):
            for seq in itertools.product(calls, repeat=n):
                yield {'ops': [{'op': 'new', 'init': dict(init)}] + [dict(c, args=dict(c['args'])) for c in seq] + [dict(t) for t in tail]}
        if tier != 'quick':
            small = [c for c in calls if not c['args'] or list(c['args'].values())[0] in (0, MAXV[list(c['args'])[0]], MAXV[list(c['args'])[0]] + 1)]
            for seq in itertools.product(small, repeat=3):
                yield {'ops': [{'op': 'new', 'init': dict(init)}] + [dict(c, args=dict(c['args'])) for c in seq] + [dict(t) for t in tail]}

    def run_impl(self, sc):
        import sockrun
        r = sockrun.SockRunner()
        li, lo, states = r.run(sc['ops'])
        return li, lo

    def judge(self, sc, lines_in, impl_out):
        out = []
        ref = RefKernel(sc['ops'][0].get('init', {}))
        for k, op in enumerate(sc['ops'][1:], 1):
            if k >= len(impl_out):
                break
            calls, res = ref.expect(op)
            if calls is None:
                continue
            parts = impl_out[k].split('|')
            got_calls = [c for c in parts[0].split(';') if c]
            got_res = parts[1]
            if got_res.startswith('exc') and res.startswith('exc'):
                if got_res != res:
                    out.append(('reject', '%s(%s) raised %s, expected ValueError' % (op['op'], op.get('args'), got_res)))
                if got_calls:
                    out.append(('reject', '%s(%s) refused but issued setsockopt %s' % (op['op'], op.get('args'), got_calls)))
                continue
            if got_res.startswith('exc') != res.startswith('exc'):
                out.append(('reject' if res.startswith('exc') else 'merge', '%s(%s) gave %s, reference says %s' % (op['op'], op.get('args'), got_res, res)))
                # resynchronise the reference on what the kernel saw
                continue
            if got_calls != calls:
                out.append(('image', '%s(%s) issued %s, reference byte images %s' % (op['op'], op.get('args'), got_calls, calls)))
            if got_res != res:
                clause = 'get' if op['op'].startswith('get') else 'merge'
                out.append((clause, '%s(%s) returned %s, reference says %s' % (op['op'], op.get('args'), got_res, res)))
        return out[:3]

    def nontrivial_key(self, sc, lines_in, impl_out):
        def cls(v):
            return 'N' if v is None else 'bad' if not isinstance(v, int) or v < 0 else 'v' if v not in (0, 0xFF, U32) else str(v)
        seq = tuple((op['op'], tuple(sorted((k, cls(v)) for k, v in op.get('args', {}).items()))) for op in sc['ops'][1:-3])
        if not any(op['op'].startswith('set') for op in sc['ops']):
            return None
        return (bool(sc['ops'][0].get('init')), seq)

    def tally(self, dist, sc, lines_in, impl_out):
        for op, o in zip(sc['ops'], impl_out):
            k = 'op:' + op['op'] + (':exc' if '|exc' in o else '')
            dist[k] = dist.get(k, 0) + 1


PROP = C19()
