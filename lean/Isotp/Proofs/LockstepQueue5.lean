import Isotp.Proofs.LockstepQueue4
/-
  C01, liveness half for any number of queued messages, part 5: `send` calls INTERLEAVED with the rounds.

  A schedule is a list of steps, each `A.send(id, p)` or one canonical round (`QStep`, `runSched`). Whatever the
  interleaving, the network stays in a "normal" state (`QNorm done pend`): the messages of `done` are delivered (and
  their requests completed), those of `pend` are still to go — either both layers idle with the requests of `pend`
  queued, or the first message of `pend` in transfer after `j` of its rounds and the others queued behind it.
  * `sendQ_idle`, `sendQ_lock`, `norm_send` : a `send` appends to the queue and changes nothing else.
  * `norm_round` : a round keeps the normal form and moves messages from `pend` to `done`.
  * `norm_finish` : from a normal state, `N ≥ queueRounds pend` further rounds deliver everything.
  * `sched_norm` : the schedule, by induction.
-/
namespace Isotp.LockstepQ
open Isotp Isotp.State Isotp.Spec Isotp.Proofs Isotp.Lockstep

/-- a step of a schedule: `A.send(id, p)` or one canonical round -/
inductive QStep where
  | send (id : Nat) (p : Bytes)
  | round
  deriving DecidableEq, Repr

/-- the messages sent in a schedule, in order -/
def msgsOf : List QStep → List Msg
  | [] => []
  | .send id p :: rest => (id, p) :: msgsOf rest
  | .round :: rest => msgsOf rest

/-- the number of rounds of a schedule -/
def roundsOf : List QStep → Nat
  | [] => 0
  | .send _ _ :: rest => roundsOf rest
  | .round :: rest => roundsOf rest + 1

/-- Run a schedule on the network of the driver: the network, the events of A and of B over all steps (oldest
    first), and what the `send` calls returned. -/
def runSched (dt : Nat) : List QStep → Net → Option (Net × List Ev × List Ev × List (Option PyExc))
  | [], d => some (d, [], [], [])
  | .send id p :: rest, d =>
    match d.onLayer 0 (sendOp id p) with
    | none => none
    | some (d1, _, ev, r) =>
      match runSched dt rest d1 with
      | none => none
      | some (d2, eA, eB, rs) => some (d2, ev ++ eA, eB, r :: rs)
  | .round :: rest, d =>
    match canonRound d dt with
    | none => none
    | some (d1, eA1, eB1) =>
      match runSched dt rest d1 with
      | none => none
      | some (d2, eA, eB, rs) => some (d2, eA1 ++ eA, eB1 ++ eB, rs)

/-- `A.send(id, p)` on the two-layer record -/
def sendQ (q : Pair) (id : Nat) (p : Bytes) : Pair :=
  { q with a := leave (sendOp id p (enter q.now q.a)).1,
           ab := q.ab ++ Net.txOf (sendOp id p (enter q.now q.a)).1.log.reverse,
           now := (sendOp id p (enter q.now q.a)).1.now,
           ea := q.ea + (Net.txOf (sendOp id p (enter q.now q.a)).1.log.reverse).length }

/-- the same schedule on the two-layer record -/
def schedP (dt : Nat) : List QStep → Pair → Pair × List Ev × List Ev × List (Option PyExc)
  | [], q => (q, [], [], [])
  | .send id p :: rest, q =>
    ((schedP dt rest (sendQ q id p)).1,
      (sendOp id p (enter q.now q.a)).1.log.reverse ++ (schedP dt rest (sendQ q id p)).2.1,
      (schedP dt rest (sendQ q id p)).2.2.1,
      (sendOp id p (enter q.now q.a)).2 :: (schedP dt rest (sendQ q id p)).2.2.2)
  | .round :: rest, q =>
    ((schedP dt rest (q.round dt).1).1, (q.round dt).2.1 ++ (schedP dt rest (q.round dt).1).2.1,
      (q.round dt).2.2 ++ (schedP dt rest (q.round dt).1).2.2.1, (schedP dt rest (q.round dt).1).2.2.2)

theorem runSched_toNet (dt : Nat) : ∀ (sched : List QStep) (q : Pair),
    runSched dt sched q.toNet =
      some ((schedP dt sched q).1.toNet, (schedP dt sched q).2.1, (schedP dt sched q).2.2.1,
        (schedP dt sched q).2.2.2) := by
  intro sched
  induction sched with
  | nil => intro q; rfl
  | cons st rest ih =>
    intro q
    cases st with
    | send id p =>
      unfold runSched
      rw [onLayer0]
      simp only []
      have : Pair.toNet { q with a := leave (sendOp id p (enter q.now q.a)).1,
                                 ab := q.ab ++ Net.txOf (sendOp id p (enter q.now q.a)).1.log.reverse,
                                 now := (sendOp id p (enter q.now q.a)).1.now,
                                 ea := q.ea + (Net.txOf (sendOp id p (enter q.now q.a)).1.log.reverse).length } =
          (sendQ q id p).toNet := rfl
      rw [this, ih]
      rfl
    | round =>
      unfold runSched
      rw [canonRound_toNet]
      simp only []
      rw [ih]
      rfl

section sends
variable (ca cb : Cfg) (aa ab : Addr) (dt : Nat)

theorem reqsOf_append (l1 l2 : List Msg) : reqsOf ca (l1 ++ l2) = reqsOf ca l1 ++ reqsOf ca l2 := by
  simp [reqsOf]

/-- an accepted `send` on the two-layer record: the request goes to the end of A's queue, nothing else changes, no
    event -/
theorem sendQ_eq (q : Pair) (x : AP) (id : Nat) (p : Bytes) (hqa : q.a = mkA ca aa x)
    (hacc : ((State.init ca aa).send { id := id, size := p.length, src := p }).2 = none) :
    sendQ q id p =
      { q with a := mkA ca aa { x with now := q.now, log := [], txQueue := x.txQueue ++ [reqFor ca id p] } } ∧
    (sendOp id p (enter q.now q.a)).2 = none ∧ (sendOp id p (enter q.now q.a)).1.log.reverse = [] := by
  have h2 : ((mkA ca aa { x with now := q.now, log := [] }).send { id := id, size := p.length, src := p }).2 = none := by
    rw [send_accept_mkA]; exact hacc
  have h1 := send_accepted _ _ h2
  have he : enter q.now q.a = mkA ca aa { x with now := q.now, log := [] } := by rw [hqa]; rfl
  have hq : (sendOp id p (mkA ca aa { x with now := q.now, log := [] })).1 =
      mkA ca aa { x with now := q.now, log := [], txQueue := x.txQueue ++ [reqFor ca id p] } := by
    show ((mkA ca aa { x with now := q.now, log := [] }).send _).1 = _
    rw [h1]
    simp [mkA, reqOf, reqFor]
  have hr : (sendOp id p (mkA ca aa { x with now := q.now, log := [] })).2 = none := h2
  refine ⟨?_, by rw [he]; exact hr, by rw [he, hq]; rfl⟩
  unfold sendQ
  rw [he, hq]
  simp [mkA, leave, Net.txOf]

/-- `send` while both layers are idle -/
theorem sendQ_idle (del : List Bytes) (l : List Msg) (q : Pair) (id : Nat) (p : Bytes)
    (hacc : ((State.init ca aa).send { id := id, size := p.length, src := p }).2 = none)
    (h : QIdle ca cb aa ab del l q) :
    QIdle ca cb aa ab del (l ++ [(id, p)]) (sendQ q id p) ∧ (sendQ q id p).now = q.now := by
  obtain ⟨x, y, hqa, hqb, hab, hba, hIA, hib, hIB, hyib⟩ := h
  obtain ⟨e, -, -⟩ := sendQ_eq ca aa q x id p hqa hacc
  rw [e]
  refine ⟨⟨_, y, rfl, hqb, hab, hba, ⟨hIA.st, ?_, hIA.lf, hIA.tf, hIA.act⟩, hib, hIB, hyib⟩, rfl⟩
  show x.txQueue ++ [reqFor ca id p] = _
  rw [hIA.txq, reqsOf_append]; rfl

/-- `send` during a transfer -/
theorem sendQ_lock (fcm : CanMsg) (del : List Bytes) (rest : List Msg) (id0 : Nat) (p0 : Bytes) (a : Abs) (q : Pair)
    (id : Nat) (p : Bytes)
    (hacc : ((State.init ca aa).send { id := id, size := p.length, src := p }).2 = none)
    (h : QLock ca cb aa ab dt fcm del rest id0 p0 a q) :
    QLock ca cb aa ab dt fcm del (rest ++ [(id, p)]) id0 p0 a (sendQ q id p) ∧ (sendQ q id p).now = q.now := by
  obtain ⟨x, y, hqa, hqb, hab, hba, hA, hB⟩ := h
  obtain ⟨e, -, -⟩ := sendQ_eq ca aa q x id p hqa hacc
  rw [e]
  refine ⟨⟨_, y, rfl, hqb, hab, hba, ?_, hB⟩, rfl⟩
  have hq' : ∀ Q, x.txQueue = reqsOf ca rest → Q = x.txQueue ++ [reqFor ca id p] → Q = reqsOf ca (rest ++ [(id, p)]) := by
    intro Q h1 h2; rw [h2, h1, reqsOf_append]; rfl
  cases a with
  | I => exact absurd hA (by simp [LockAQ])
  | D => exact absurd hA (by simp [LockAQ])
  | W k =>
    obtain ⟨a1, a2, a3, a4, a5, a6, a7, a8, a9⟩ := hA
    exact ⟨a1, a2, a3, a4, a5, a6, hq' _ a7 rfl, a8, a9⟩
  | T k j =>
    obtain ⟨hc, a2, a3, a4, a5⟩ := hA
    exact ⟨⟨hc.k1, hc.st, hc.lf, hc.tf, hc.act, hc.more, hc.seq, hc.rbs, hq' _ hc.txq rfl⟩, a2, a3, a4, a5⟩

end sends


/-! ## the normal form -/

section norm
variable (ca cb : Cfg) (aa ab : Addr) (dt : Nat)

/-- the payloads / the completions of a list of messages -/
def payloads (l : List Msg) : List Bytes := l.map (·.2)
def okIds (l : List Msg) : List (Nat × Bool) := l.map fun m => (m.1, true)

/-- The network between two steps of a schedule: the messages of `done` delivered, those of `pend` to go — both
    layers idle with the requests of `pend` queued, or the first message of `pend` in transfer (after `j` of its
    rounds beyond the first) with the others queued. -/
def QNorm (fcm : CanMsg) (done pend : List Msg) (q : Pair) : Prop :=
  QIdle ca cb aa ab (payloads done) pend q ∨
  ∃ id p rest j, pend = (id, p) :: rest ∧ NeedsFF (TxCfg.of ca aa) p.length ∧ j + 2 ≤ roundsFor ca cb aa p ∧
    QLock ca cb aa ab dt fcm (payloads done) rest id p
      (absIter (decide (effOf ca cb = 0)) cb.blocksize (nFrames (TxCfg.of ca aa) p) j (.W 1)) q

theorem MsgOkB.of_append_right {l1 l2 : List Msg} (h : MsgOkB cb (l1 ++ l2)) : MsgOkB cb l2 :=
  fun m hm => h m (List.mem_append_right _ hm)

theorem MsgOkB.of_append_left {l1 l2 : List Msg} (h : MsgOkB cb (l1 ++ l2)) : MsgOkB cb l1 :=
  fun m hm => h m (List.mem_append_left _ hm)

/-- the state after a chain start, in normal form: the leading Single Frame messages are done -/
theorem after_norm (hva : ca.valid = true) (fcm : CanMsg) : ∀ (l : List Msg) (done : List Msg) (q : Pair),
    QAfter ca cb aa ab dt fcm (payloads done) l q →
    ∃ mid pend, l = mid ++ pend ∧ QNorm ca cb aa ab dt fcm (done ++ mid) pend q ∧
      chainDones ca aa l = okIds mid := by
  intro l
  induction l with
  | nil =>
    intro done q h
    exact ⟨[], [], rfl, Or.inl (by simpa [QAfter] using h), rfl⟩
  | cons m rest ih =>
    intro done q h
    by_cases hff : NeedsFF (TxCfg.of ca aa) m.2.length
    · simp only [QAfter, hff, if_true] at h
      refine ⟨[], m :: rest, rfl, Or.inr ⟨m.1, m.2, rest, 0, rfl, hff, ?_, ?_⟩, ?_⟩
      · have := roundsFor_ge_two ca cb aa m.2 hva hff; omega
      · simpa [absIter] using h
      · simp [chainDones, hff, okIds]
    · simp only [QAfter, hff, if_false] at h
      have e : payloads done ++ [m.2] = payloads (done ++ [m]) := by simp [payloads]
      rw [e] at h
      obtain ⟨mid, pend, h1, h2, h3⟩ := ih (done ++ [m]) q h
      refine ⟨m :: mid, pend, by rw [h1]; rfl, by simpa [List.append_assoc] using h2, ?_⟩
      simp [chainDones, hff, h3, okIds]

/-- a round keeps the normal form; the messages it completes move from `pend` to `done` -/
theorem norm_round (hS : QSetting ca cb aa ab dt) (fcm : CanMsg) (hfc : FcFacts cb aa ab fcm)
    (done pend : List Msg) (hok : MsgOkB cb pend) (q : Pair) (h : QNorm ca cb aa ab dt fcm done pend q) :
    ∃ mid pend', pend = mid ++ pend' ∧ QNorm ca cb aa ab dt fcm (done ++ mid) pend' (q.round dt).1 ∧
      RoundOkQ dt q (okIds mid) := by
  rcases h with h | ⟨id, p, rest, j, rfl, hff, hj, h⟩
  · by_cases hl : pend = []
    · subst hl
      obtain ⟨h1, r1⟩ := sim_idleQ ca cb aa ab dt _ q h
      exact ⟨[], [], rfl, Or.inl (by simpa using h1), r1⟩
    · obtain ⟨h1, r1⟩ := sim_startQ ca cb aa ab dt hS fcm hfc _ pend hl hok q h
      obtain ⟨mid, pend', e1, e2, e3⟩ := after_norm ca cb aa ab dt hS.va fcm pend done _ h1
      rw [e3] at r1
      exact ⟨mid, pend', e1, e2, r1⟩
  · obtain ⟨hm1, hm32, hmmax⟩ := hok (id, p) (List.mem_cons_self ..)
    have hn := two_le_nFrames _ (valid_of ca aa hS.va) p hff
    have hD := absIter_done (decide (effOf ca cb = 0)) cb.blocksize (nFrames (TxCfg.of ca aa) p)
    have hnD := absIter_not_done (decide (effOf ca cb = 0)) cb.blocksize (nFrames (TxCfg.of ca aa) p) (by omega)
    obtain ⟨hn', hr'⟩ := round_simQ ca cb aa ab dt hS id p hm32 hmmax hff fcm hfc (payloads done) rest hok.tail _ q h
    have hstep : absStep (decide (effOf ca cb = 0)) cb.blocksize (nFrames (TxCfg.of ca aa) p)
        (absIter (decide (effOf ca cb = 0)) cb.blocksize (nFrames (TxCfg.of ca aa) p) j (.W 1)) =
        absIter (decide (effOf ca cb = 0)) cb.blocksize (nFrames (TxCfg.of ca aa) p) (j + 2) .I := by
      have e1 := absIter_add (decide (effOf ca cb = 0)) cb.blocksize (nFrames (TxCfg.of ca aa) p) j 1 (.W 1)
      simp only [absIter] at e1
      rw [← e1]
      exact (absIter_succ_I _ _ _ (j + 1) hn).symm
    by_cases hlast : j + 2 = roundsFor ca cb aa p
    · -- the round completes the message
      have hDD : absStep (decide (effOf ca cb = 0)) cb.blocksize (nFrames (TxCfg.of ca aa) p)
          (absIter (decide (effOf ca cb = 0)) cb.blocksize (nFrames (TxCfg.of ca aa) p) j (.W 1)) = .D := by
        rw [hstep, hlast]; exact hD
      rw [hDD] at hn' hr'
      have hn'' : QAfter ca cb aa ab dt fcm (payloads (done ++ [(id, p)])) rest (q.round dt).1 := by
        simpa [payloads, QNext] using hn'
      obtain ⟨mid, pend', e1, e2, e3⟩ := after_norm ca cb aa ab dt hS.va fcm rest (done ++ [(id, p)]) _ hn''
      refine ⟨(id, p) :: mid, pend', by rw [e1]; rfl, by simpa [List.append_assoc] using e2, ?_⟩
      have : nextDones ca aa id rest .D = okIds ((id, p) :: mid) := by simp [nextDones, e3, okIds]
      rw [this] at hr'
      exact hr'
    · have hne : absStep (decide (effOf ca cb = 0)) cb.blocksize (nFrames (TxCfg.of ca aa) p)
          (absIter (decide (effOf ca cb = 0)) cb.blocksize (nFrames (TxCfg.of ca aa) p) j (.W 1)) ≠ .D := by
        rw [hstep]; exact hnD (j + 2) (by unfold roundsFor at hj hlast; omega)
      have hl := QNext_notD ca cb aa ab dt fcm _ rest id p _ _ hne hn'
      have hd : nextDones ca aa id rest (absStep (decide (effOf ca cb = 0)) cb.blocksize (nFrames (TxCfg.of ca aa) p)
          (absIter (decide (effOf ca cb = 0)) cb.blocksize (nFrames (TxCfg.of ca aa) p) j (.W 1))) = [] := by
        simp [nextDones, hne]
      rw [hd] at hr'
      refine ⟨[], (id, p) :: rest, rfl, Or.inr ⟨id, p, rest, j + 1, rfl, hff, by omega, ?_⟩, hr'⟩
      have e1 := absIter_add (decide (effOf ca cb = 0)) cb.blocksize (nFrames (TxCfg.of ca aa) p) j 1 (.W 1)
      rw [List.append_nil, e1]
      exact hl

/-- a `send` keeps the normal form -/
theorem norm_send (fcm : CanMsg) (done pend : List Msg) (q : Pair) (id : Nat) (p : Bytes)
    (hacc : ((State.init ca aa).send { id := id, size := p.length, src := p }).2 = none)
    (h : QNorm ca cb aa ab dt fcm done pend q) :
    QNorm ca cb aa ab dt fcm done (pend ++ [(id, p)]) (sendQ q id p) ∧ (sendQ q id p).now = q.now := by
  rcases h with h | ⟨id0, p0, rest, j, rfl, hff, hj, h⟩
  · obtain ⟨h1, h2⟩ := sendQ_idle ca cb aa ab _ pend q id p hacc h
    exact ⟨Or.inl h1, h2⟩
  · obtain ⟨h1, h2⟩ := sendQ_lock ca cb aa ab dt fcm _ rest id0 p0 _ q id p hacc h
    exact ⟨Or.inr ⟨id0, p0, rest ++ [(id, p)], j, rfl, hff, hj, h1⟩, h2⟩

theorem extraRounds_append (l1 l2 : List Msg) :
    extraRounds ca cb aa (l1 ++ l2) = extraRounds ca cb aa l1 + extraRounds ca cb aa l2 := by
  induction l1 with
  | nil => simp [extraRounds]
  | cons m rest ih => simp only [List.cons_append, extraRounds, ih]; omega

theorem queueRounds_suffix (l1 l2 : List Msg) : queueRounds ca cb aa l2 ≤ queueRounds ca cb aa (l1 ++ l2) := by
  unfold queueRounds
  by_cases h2 : l2 = []
  · simp [h2]
  · have : l1 ++ l2 ≠ [] := by simp [h2]
    rw [if_neg h2, if_neg this, extraRounds_append]
    omega

/-- from a normal state, `N ≥ queueRounds pend` further rounds deliver everything -/
theorem norm_finish (hS : QSetting ca cb aa ab dt) (fcm : CanMsg) (hfc : FcFacts cb aa ab fcm)
    (done pend : List Msg) (hok : MsgOkB cb pend) (q : Pair) (h : QNorm ca cb aa ab dt fcm done pend q)
    (N : Nat) (hN : queueRounds ca cb aa pend ≤ N) :
    QIdle ca cb aa ab (payloads (done ++ pend)) [] (Pair.rounds dt N q).1 ∧ RunOk dt N q (okIds pend) := by
  rcases h with h | ⟨id, p, rest, j, rfl, hff, hj, h⟩
  · have := rounds_queueQ ca cb aa ab dt hS fcm hfc _ pend hok q h N hN
    simpa [payloads, okIds] using this
  · obtain ⟨hm1, hm32, hmmax⟩ := hok (id, p) (List.mem_cons_self ..)
    have hn := two_le_nFrames _ (valid_of ca aa hS.va) p hff
    have hD := absIter_done (decide (effOf ca cb = 0)) cb.blocksize (nFrames (TxCfg.of ca aa) p)
    have hnD := absIter_not_done (decide (effOf ca cb = 0)) cb.blocksize (nFrames (TxCfg.of ca aa) p) (by omega)
    have hN' : queueRounds ca cb aa ((id, p) :: rest) = 1 + ((roundsFor ca cb aa p - 1) + extraRounds ca cb aa rest) := by
      simp [queueRounds, extraRounds]
    rw [hN'] at hN
    unfold roundsFor at hj hN
    generalize hR : roundsNeeded (decide (effOf ca cb = 0)) cb.blocksize (nFrames (TxCfg.of ca aa) p) = R at *
    -- `i` rounds inside the message, one that completes it, the rest of the queue, then idle
    obtain ⟨i, rfl⟩ : ∃ i, R = j + 2 + i := ⟨R - (j + 2), by omega⟩
    obtain ⟨hl, hr⟩ := rounds_midQ ca cb aa ab dt hS id p hm32 hmmax hff fcm hfc (payloads done) rest hok.tail i _ q h
      (fun k _ hk2 => by
        rw [← absIter_add, ← absIter_succ_I _ _ _ (j + k) hn]
        exact hnD (j + k + 1) (by omega))
    rw [← absIter_add] at hl
    have hstep : absStep (decide (effOf ca cb = 0)) cb.blocksize (nFrames (TxCfg.of ca aa) p)
        (absIter (decide (effOf ca cb = 0)) cb.blocksize (nFrames (TxCfg.of ca aa) p) (j + i) (.W 1)) = .D := by
      have e1 := absIter_add (decide (effOf ca cb = 0)) cb.blocksize (nFrames (TxCfg.of ca aa) p) (j + i) 1 (.W 1)
      simp only [absIter] at e1
      rw [← e1]
      have e2 := absIter_succ_I (decide (effOf ca cb = 0)) cb.blocksize (nFrames (TxCfg.of ca aa) p) (j + i + 1) hn
      have e3 : j + 2 + i = j + i + 1 + 1 := by omega
      rw [e3] at hD
      exact e2.symm.trans hD
    obtain ⟨hn', hr'⟩ := round_simQ ca cb aa ab dt hS id p hm32 hmmax hff fcm hfc (payloads done) rest hok.tail _ _ hl
    rw [hstep] at hn' hr'
    have hd : nextDones ca aa id rest .D = (id, true) :: chainDones ca aa rest := by simp [nextDones]
    rw [hd] at hr'
    have hn'' : QAfter ca cb aa ab dt fcm (payloads done ++ [p]) rest ((Pair.rounds dt i q).1.round dt).1 := hn'
    obtain ⟨h2, r2⟩ := rounds_afterQ ca cb aa ab dt hS fcm hfc rest _ _ hok.tail hn''
    obtain ⟨M, rfl⟩ : ∃ M, N = ((i + 1) + extraRounds ca cb aa rest) + M :=
      ⟨N - ((i + 1) + extraRounds ca cb aa rest), by omega⟩
    have r1 := RunOk_add hr (RunOk_one hr')
    have q1 : (Pair.rounds dt (i + 1) q).1 = ((Pair.rounds dt i q).1.round dt).1 := by
      rw [rounds_add]; simp [Pair.rounds]
    rw [← q1] at h2 r2
    have r12 := RunOk_add r1 r2
    have h12 : QIdle ca cb aa ab (payloads done ++ [p] ++ rest.map (·.2)) []
        (Pair.rounds dt ((i + 1) + extraRounds ca cb aa rest) q).1 := by
      rw [rounds_add]; exact h2
    obtain ⟨h3, r3⟩ := rounds_idleQ ca cb aa ab dt _ M _ h12
    have r := RunOk_add r12 r3
    refine ⟨?_, ?_⟩
    · rw [rounds_add]
      simpa [payloads, List.append_assoc] using h3
    · have e := chain_later ca aa rest
      simp only [List.nil_append, List.cons_append, List.append_nil] at r
      rw [e] at r
      simpa [okIds] using r

end norm


/-! ## a whole schedule -/

section sched
variable (ca cb : Cfg) (aa ab : Addr) (dt : Nat)

/-- what a schedule reports -/
def SchedOk (sched : List QStep) (q : Pair) (ds : List (Nat × Bool)) : Prop :=
  NoErr (schedP dt sched q).2.1 ∧ NoErr (schedP dt sched q).2.2.1 ∧
  doneEvs (schedP dt sched q).2.1 = ds ∧ (schedP dt sched q).1.now = q.now + roundsOf sched * dt ∧
  (schedP dt sched q).2.2.2 = (msgsOf sched).map fun _ => none

/-- **Any interleaving of sends and rounds keeps the normal form.** -/
theorem sched_norm (hS : QSetting ca cb aa ab dt) (fcm : CanMsg) (hfc : FcFacts cb aa ab fcm) :
    ∀ (sched : List QStep) (done pend : List Msg) (q : Pair), QNorm ca cb aa ab dt fcm done pend q →
    MsgOkB cb (pend ++ msgsOf sched) →
    (∀ id p, (id, p) ∈ msgsOf sched → ((State.init ca aa).send { id := id, size := p.length, src := p }).2 = none) →
    ∃ mid pend', pend ++ msgsOf sched = mid ++ pend' ∧
      QNorm ca cb aa ab dt fcm (done ++ mid) pend' (schedP dt sched q).1 ∧ SchedOk dt sched q (okIds mid) := by
  intro sched
  induction sched with
  | nil =>
    intro done pend q h _ _
    refine ⟨[], pend, by simp [msgsOf], by rw [List.append_nil]; exact h, NoErr_nil, NoErr_nil, rfl, ?_, rfl⟩
    simp [schedP, roundsOf]
  | cons st rest ih =>
    intro done pend q h hok hacc
    cases st with
    | send id p =>
      have hacc1 := hacc id p (by simp [msgsOf])
      obtain ⟨x, hqa⟩ : ∃ x, q.a = mkA ca aa x := by
        rcases h with h | ⟨_, _, _, _, _, _, _, h⟩
        · obtain ⟨x, _, hqa, _⟩ := h; exact ⟨x, hqa⟩
        · obtain ⟨x, _, hqa, _⟩ := h; exact ⟨x, hqa⟩
      obtain ⟨-, s2, s3⟩ := sendQ_eq ca aa q x id p hqa hacc1
      obtain ⟨h1, hnow⟩ := norm_send ca cb aa ab dt fcm done pend q id p hacc1 h
      have e : pend ++ msgsOf (QStep.send id p :: rest) = (pend ++ [(id, p)]) ++ msgsOf rest := by
        simp [msgsOf]
      obtain ⟨mid, pend', e1, e2, o1, o2, o3, o4, o5⟩ := ih done (pend ++ [(id, p)]) _ h1 (by rw [← e]; exact hok)
        (fun id' p' hm => hacc id' p' (by simp [msgsOf]; exact Or.inr hm))
      refine ⟨mid, pend', by rw [e, e1], e2, ?_, o2, ?_, ?_, ?_⟩
      · show NoErr (_ ++ _)
        rw [s3]; exact o1
      · show doneEvs (_ ++ _) = _
        rw [s3]; exact o3
      · show (schedP dt rest (sendQ q id p)).1.now = _
        rw [o4, hnow]; rfl
      · show _ :: _ = _
        rw [s2, o5]; rfl
    | round =>
      have hokp : MsgOkB cb pend := MsgOkB.of_append_left cb hok
      obtain ⟨mid1, pend1, e1, h1, r1, r2, r3, r4⟩ := norm_round ca cb aa ab dt hS fcm hfc done pend hokp q h
      have hok1 : MsgOkB cb (pend1 ++ msgsOf rest) := by
        intro m hm
        apply hok m
        rw [e1]
        simp only [msgsOf, List.mem_append] at hm ⊢
        rcases hm with hm | hm
        · exact Or.inl (Or.inr hm)
        · exact Or.inr hm
      obtain ⟨mid, pend', e2, h2, o1, o2, o3, o4, o5⟩ := ih (done ++ mid1) pend1 _ h1 hok1
        (fun id' p' hm => hacc id' p' (by simpa [msgsOf] using hm))
      refine ⟨mid1 ++ mid, pend', ?_, by rw [List.append_assoc] at h2; exact h2, ?_, ?_, ?_, ?_, ?_⟩
      · show pend ++ msgsOf rest = _
        rw [e1, List.append_assoc, e2, List.append_assoc]
      · exact NoErr_append r1 o1
      · exact NoErr_append r2 o2
      · show doneEvs (_ ++ _) = _
        rw [doneEvs_append, r3, o3]; simp [okIds]
      · show (schedP dt rest (q.round dt).1).1.now = _
        rw [o4, r4]; simp only [roundsOf]; rw [Nat.add_mul]; omega
      · exact o5

end sched

section start
variable (ca cb : Cfg) (aa ab : Addr) (dt : Nat)

theorem net0_eq (hrl : ca.rlEnable = false) : net0 ca cb aa ab = (pairQ ca cb aa ab []).toNet := by
  unfold net0
  rw [toNet_init]
  have : ({ a := State.init ca aa, b := State.init cb ab } : Pair) = pairQ ca cb aa ab [] := by
    unfold pairQ
    rw [init_eq_mkA ca aa hrl, init_eq_mkB]
    rfl
  rw [this]

theorem norm0 (fcm : CanMsg) : QNorm ca cb aa ab dt fcm [] [] (pairQ ca cb aa ab []) :=
  Or.inl (idleQ0 ca cb aa ab [])

theorem QNorm.rxq {fcm : CanMsg} {done pend : List Msg} {q : Pair} (h : QNorm ca cb aa ab dt fcm done pend q) :
    q.b.rxQueue = payloads done := by
  rcases h with h | ⟨_, _, _, _, _, _, _, h⟩
  · exact QIdle.rxq ca cb aa ab h
  · exact QLock.rxq ca cb aa ab dt h

end start

end Isotp.LockstepQ
