"""
Core of the correspondence harness.

* exact virtual clock substituted for time.perf_counter_ns / time.perf_counter
* ImplRunner: executes a scenario (list of op dicts) on the REAL code from /repo and produces
  (model input lines, implementation output lines)
* run_model: pipes input lines through the compiled Lean driver
* compare: line-by-line diff after projection

A scenario is a list of dicts, each with key 'op'. See ImplRunner.do_* for the vocabulary.
Output line format (both sides):   <events>|<result>|<status>
"""
import os
import sys
import time
import types
import logging
import subprocess
from fractions import Fraction
import math

REPO = os.environ.get('VERIF_REPO', '/repo')
if REPO not in sys.path:
    sys.path.insert(0, REPO)

HERE = os.path.dirname(os.path.abspath(__file__))
VERIF = os.path.dirname(HERE)
DRIVER = os.path.join(VERIF, 'lean', '.lake', 'build', 'bin', 'driver')


REAL_PERF_NS = time.perf_counter_ns
REAL_PERF = time.perf_counter


class VClock:
    def __init__(self):
        self.ns = 0

    def install(self):
        time.perf_counter_ns = lambda: self.ns
        time.perf_counter = lambda: Fraction(self.ns, 10**9)


CLOCK = VClock()
CLOCK.install()
logging.disable(logging.CRITICAL)

import isotp  # noqa: E402  (after sys.path and clock set-up)
import isotp.protocol  # noqa: E402
import isotp.errors  # noqa: E402


def hexs(b):
    b = bytes(b)
    return b.hex() if len(b) else '-'


def unmark(v):
    """scenario value -> Python value: 'TAT:k' stands for the enum member isotp.TargetAddressType(k) (scenarios are stored as JSON)"""
    if isinstance(v, str) and v.startswith('TAT:'):
        return isotp.TargetAddressType(int(v[4:]))
    return v


def pv(v):
    """Python value -> PyVal token"""
    if isinstance(v, str) and v.startswith('TAT:'):
        return 'i' + v[4:]          # the model presents a member by its integer value
    if v is None:
        return 'N'
    if isinstance(v, bool):
        return 'b1' if v else 'b0'
    if isinstance(v, int):
        return 'i%d' % v
    if isinstance(v, float):
        if math.isnan(v):
            return 'fnan'
        if math.isinf(v):
            return 'finf' if v > 0 else 'f-inf'
        f = Fraction(v)
        return 'f%d/%d' % (f.numerator, f.denominator)
    if isinstance(v, str):
        return 's%d' % (sum(v.encode()) % 1000)
    return 'o%d' % (id(v) % 1000)


ADDR_KEYS = [('txid', 'txid'), ('rxid', 'rxid'), ('target_address', 'ta'), ('source_address', 'sa'),
             ('address_extension', 'ae')]


def addr_tokens(a, pre=''):
    """address-args dict -> model tokens"""
    toks = []
    m = a.get('mode')
    toks.append('%smode=%s' % (pre, m if isinstance(m, int) and not isinstance(m, bool) and 0 <= m <= 6 else 'x'))
    for k, t in ADDR_KEYS:
        if k in a:
            toks.append('%s%s=%s' % (pre, t, pv(a[k])))
    for k, t in (('physical_id', 'phys'), ('functional_id', 'func')):
        if a.get(k) is not None:
            toks.append('%s%s=%d' % (pre, t, a[k]))
    if a.get('rx_only'):
        toks.append(pre + 'rxonly=1')
    if a.get('tx_only'):
        toks.append(pre + 'txonly=1')
    return toks


def make_address_obj(a):
    """address-args dict -> real isotp.Address (may raise)"""
    kw = {k: a[k] for k, _ in ADDR_KEYS if k in a}
    for k in ('physical_id', 'functional_id'):
        if a.get(k) is not None:
            kw[k] = a[k]
    if a.get('rx_only'):
        kw['rx_only'] = True
    if a.get('tx_only'):
        kw['tx_only'] = True
    m = a.get('mode')
    try:
        mode = isotp.AddressingMode(m)
    except Exception:
        mode = m      # not a member: the constructor must reject it
    return isotp.Address(mode, **kw)


def make_address(a):
    if a.get('asym'):
        tx = make_address_obj(dict(a['tx'], tx_only=True) if a.get('auto_partial', True) else a['tx'])
        rx = make_address_obj(dict(a['rx'], rx_only=True) if a.get('auto_partial', True) else a['rx'])
        return isotp.AsymmetricAddress(tx_addr=tx, rx_addr=rx)
    return make_address_obj(a)


def all_addr_tokens(a):
    if a.get('asym'):
        ap = a.get('auto_partial', True)
        return ['asym=1'] + addr_tokens(dict(a['tx'], tx_only=True) if ap else a['tx'], 't.') + \
            addr_tokens(dict(a['rx'], rx_only=True) if ap else a['rx'], 'r.')
    return addr_tokens(a)


def _noop_wait(x):
    return None


def cfg_tokens(L):
    """model configuration tokens of a constructed layer (float-valued parameters converted by the real code)"""
    p = L.params
    c = ['stmin=%d' % p.stmin, 'bs=%d' % p.blocksize, 'tfc=%d' % L.timer_rx_fc.timeout,
         'tcf=%d' % L.timer_rx_cf.timeout, 'wft=%d' % p.wftmax, 'txdl=%d' % p.tx_data_length,
         'mfs=%d' % p.max_frame_size, 'fd=%d' % p.can_fd, 'brs=%d' % p.bitrate_switch,
         'dtat=%d' % p.default_target_address_type.value, 'rle=%d' % p.rate_limit_enable,
         'listen=%d' % p.listen_mode, 'blocking=%d' % p.blocking_send]
    if p.tx_padding is not None:
        c.append('pad=%d' % p.tx_padding)
    if p.tx_data_min_length is not None:
        c.append('minlen=%d' % p.tx_data_min_length)
    if p.override_receiver_stmin is not None:
        try:
            t = isotp.protocol.Timer(0)
            t.set_timeout(p.override_receiver_stmin)
            c.append('ovr=%d' % t.timeout)
        except (OverflowError, ValueError):
            pass        # conversion itself fails: outside the model; the judges see what the code does with it
    rl = L.rate_limiter
    try:
        c.append('rlw=%d' % math.floor(Fraction(rl.window_size_sec) * 10**9))
        c.append('rlb=%d' % math.floor(rl.window_bit_max))
    except (OverflowError, ValueError):
        pass
    return c


def _fits_float(x):
    try:
        float(x)
        return True
    except OverflowError:
        return False


def _timeout_ns_finite(x):
    """a timeout in milliseconds whose nanosecond form (computed through float seconds, as the timers do) is finite"""
    try:
        return math.isfinite(float(x) / 1000 * 1e9)
    except OverflowError:
        return False


class ImplError(Exception):
    pass


class ImplRunner:
    """Executes one scenario on the real code."""

    def __init__(self):
        self.layers = {}
        self.inbox = {}
        self.outbox = {}
        self.events = []
        self.gens = {}      # layer -> list of [id, counter, last_flushed]
        self.cur_id = None
        self.lines_in = []
        self.lines_out = []
        self.emitted = {}
        self.faults = {}
        CLOCK.install()         # (a real-thread scenario run earlier in this process leaves the real / frozen clock installed)
        CLOCK.ns = 0

    # ---------- event plumbing ----------
    def flush_pulls(self, i):
        for g in self.gens.get(i, []):
            if g[1][0] != g[2]:
                self.events.append('pull:%d:%d' % (g[0], g[1][0] - g[2]))
                g[2] = g[1][0]

    def ev(self, i, s):
        self.flush_pulls(i)
        self.events.append(s)

    def fmt_msg(self, m):
        return '%d:%d:%d:%d:%d:%s' % (m.arbitration_id, 1 if m.is_extended_id else 0, m.dlc,
                                      1 if m.is_fd else 0, 1 if m.bitrate_switch else 0, hexs(m.data))

    def status(self, i):
        L = self.layers[i]
        return 'rx=%d tx=%d av=%d tr=%d th=%d q=%d' % (
            L.rx_state.value, L.tx_state.value, 1 if L.available() else 0, 1 if L.transmitting() else 0,
            1 if L.is_tx_throttled() else 0, L.tx_queue.qsize())

    def finish(self, i, line_in, result):
        self.flush_pulls(i)
        self.lines_in.append(line_in)
        self.lines_out.append('%s|%s|%s' % (';'.join(self.events), result, self.status(i)))
        self.events = []

    def plain(self, line_in, out):
        self.lines_in.append(line_in)
        self.lines_out.append(out)

    # ---------- ops ----------
    def do_layer(self, op):
        i = op['i']
        a = op['addr']
        params = {k: unmark(v) for k, v in op.get('params', {}).items()}
        params.setdefault('wait_func', _noop_wait)
        toks = ['layer', str(i)] + all_addr_tokens(a)
        self.inbox[i] = []
        self.outbox[i] = []
        self.gens[i] = []
        runner = self
        tx_cost = int(op.get('tx_cost_ns', 0))

        def rxfn(timeout=0.0):
            box = runner.inbox[i]
            if box:
                dt, m = box.pop(0)
                CLOCK.ns += dt
                runner.ev(i, 'rx@%d:%d:%d:%s' % (CLOCK.ns, m.arbitration_id, 1 if m.is_extended_id else 0, hexs(m.data)))
                return m
            runner.ev(i, 'rxn@%d' % CLOCK.ns)
            return None

        def txfn(m):
            n = runner.emitted.get(i, 0)
            runner.emitted[i] = n + 1
            f = runner.faults.get(i)
            if f is not None and f[1] == n:
                if f[0] == 'dup':
                    runner.outbox[i].append(m)
                    runner.outbox[i].append(m)
            else:
                runner.outbox[i].append(m)
            runner.ev(i, 'tx@%d:%s' % (CLOCK.ns, runner.fmt_msg(m)))
            # a CAN driver that takes time to accept a frame (judge-only scenarios, flagged no_model: the model's passes take no time)
            CLOCK.ns += tx_cost

        def err(e):
            runner.ev(i, 'err@%d:%s' % (CLOCK.ns, type(e).__name__))

        try:
            address = make_address(a)
        except Exception as e:
            self.plain(' '.join(toks), 'exc %s' % type(e).__name__)
            return
        try:
            cls = op.get('cls', isotp.TransportLayerLogic)
            L = cls(rxfn, txfn, address, err, params)
        except Exception as e:
            # the address is fine: the parameters were refused -> the model judges the raw parameters
            raw = {k: v for k, v in params.items() if k != 'wait_func'}
            self.do_params({'params': raw})
            if not self.lines_out[-1].startswith('exc'):
                self.lines_out[-1] = 'exc %s' % type(e).__name__
            return

        base = isotp.TransportLayerLogic.SendRequest

        class TaggedReq(base):
            def __init__(self, data, target_address_type):
                base.__init__(self, data, target_address_type)
                self._vid = runner.cur_id

            def complete(self, success):
                runner.ev(i, 'done:%d:%d' % (self._vid, 1 if success else 0))
                base.complete(self, success)

        L.SendRequest = TaggedReq
        orig_put = L.rx_queue.put

        def put(item, *a, **k):
            runner.ev(i, 'deliver:%s' % hexs(item))
            return orig_put(item, *a, **k)

        L.rx_queue.put = put
        if op.get('watch_tx'):
            # judge-side observation (never compared with the model): does a transmit pass BEGIN with the sender waiting for a
            # Flow Control?  Makes "since it last waited" (C04) observable without any source hook.
            try:
                orig_ptx = L._process_tx
                wait_state = type(L).TxState.WAIT_FC

                def watched_ptx(*a, **k):
                    if L.tx_state == wait_state:
                        runner.ev(i, 'txw')
                    return orig_ptx(*a, **k)
                L._process_tx = watched_ptx
            except AttributeError:
                pass
        self.layers[i] = L
        c = cfg_tokens(L)
        self.plain(' '.join(toks + c), 'ok')

    def do_send(self, op):
        i = op['i']
        L = self.layers.get(i)      # None: the layer could not be constructed (the model answers "bad-layer" too)
        rid = op['id']
        self.cur_id = rid
        tat = op.get('tat')
        if 'gen' in op:
            declared, actual = op['gen']
            ctr = [0]

            slow = op.get('gen_cost') or {}     # byte index -> ns the generator needs to produce that byte (judge-only scenarios, no_model)

            def g(data=bytes(actual), ctr=ctr):
                for k, b in enumerate(data):
                    ctr[0] += 1
                    CLOCK.ns += slow.get(k, 0)
                    yield b
            self.gens[i].append([rid, ctr, 0])
            gobj = g()
            if op.get('gen_pre') == 'closed':
                # a generator that is already finished when it is handed to send() (GEN_CLOSED): it yields nothing, like an empty one
                gobj = g(data=b'')
                next(gobj, None)
                actual = b''
            if not hasattr(self, 'genobjs'):
                self.genobjs = {}
            self.genobjs[rid] = gobj
            data = (gobj, declared)
            line = 'send %d %d %d %s %s 1' % (i, rid, declared, hexs(actual), 'N' if tat is None else tat)
        else:
            payload = bytes(op['data'])
            data = bytearray(payload)
            line = 'send %d %d %d %s %s 0' % (i, rid, len(payload), hexs(payload), 'N' if tat is None else tat)
        if L is None:
            self.plain(line, 'bad-layer')
            return
        kw = {}
        if tat is not None:
            kw['target_address_type'] = tat
        if L.params.blocking_send:
            kw['send_timeout'] = 0
        try:
            L.send(data, **kw)
            res = 'ok'
        except Exception as e:
            res = 'exc %s' % type(e).__name__
        self.finish(i, line, res)

    def do_paramset(self, op):
        """params.set(key, value) on the LIVE layer (documented; no load_params() afterwards).  Judge-only scenarios."""
        i = op['i']
        line = 'paramset %d %s %s' % (i, op['key'], pv(op['value']))
        if i not in self.layers:
            self.plain(line, 'bad-layer')
            return
        try:
            self.layers[i].params.set(op['key'], unmark(op['value']))
            res = 'ok'
        except Exception as e:
            res = 'exc %s' % type(e).__name__
        self.finish(i, line, res)

    def do_set_address(self, op):
        i = op['i']
        a = op['addr']
        line = ' '.join(['setaddr', str(i)] + all_addr_tokens(a))
        if i not in self.layers:
            self.plain(line, 'bad-layer')
            return
        try:
            self.layers[i].set_address(make_address(a))
            res = 'ok'
        except Exception as e:
            res = 'exc %s' % type(e).__name__
        self.finish(i, line, res)

    def do_genclose(self, op):
        """the owner of a generator closes it while the layer is still sending from it: from now on it yields nothing"""
        i, rid = op['i'], op['id']
        g = getattr(self, 'genobjs', {}).get(rid)
        if i not in self.layers:
            self.plain('genclose %d %d' % (i, rid), 'bad-layer')
            return
        if g is not None:
            g.close()
        self.finish(i, 'genclose %d %d' % (i, rid), 'ok')

    def do_frame(self, op):
        i = op['i']
        dt = op.get('dt', 0)
        m = isotp.CanMessage(arbitration_id=op['id'], data=bytes(op['data']), extended_id=bool(op.get('ext', False)))
        line = 'frame %d %d %d %d %s' % (i, dt, op['id'], 1 if op.get('ext') else 0, hexs(op['data']))
        if i not in self.layers:
            self.plain(line, 'bad-layer')
            return
        self.inbox[i].append((dt, m))
        self.finish(i, line, 'ok')

    def do_process(self, op):
        i = op['i']
        do_rx = op.get('rx', True)
        do_tx = op.get('tx', True)
        if i not in self.layers:
            self.plain('process %d %d %d' % (i, do_rx, do_tx), 'bad-layer')
            return
        L = self.layers[i]
        try:
            st = L.process(do_rx=do_rx, do_tx=do_tx)
            res = 'stats %d %d %d %d' % (st.received, st.received_processed, st.sent, st.frame_received)
        except Exception as e:
            res = 'exc %s' % type(e).__name__
        self.finish(i, 'process %d %d %d' % (i, do_rx, do_tx), res)

    def do_lim(self, op):
        """a bare RateLimiter object driven the way _process_tx drives it, at arbitrary non-decreasing instants (time may pass between the
        update() of a pass and each hand-over: a CAN driver that takes time)"""
        what = op['what']

        def show(rl):
            return 'a=%d tot=%d n=%d' % (rl.allowed_bytes(), rl.bit_total, len(rl.burst_time))
        if what == 'new':
            rl = isotp.protocol.RateLimiter(mean_bitrate=op['bitrate'], window_size_sec=op['window'])
            if op.get('enabled', True):
                rl.enable()
            else:
                rl.disable()
            self.lim = rl
            self.plain('lim new %d %d %d' % (1 if rl.enabled else 0, math.floor(Fraction(rl.window_size_sec) * 10**9), math.floor(rl.window_bit_max)),
                       show(rl))
            return
        rl = self.lim
        if 't' in op:
            CLOCK.ns = max(CLOCK.ns, op['t'])
        if what == 'update':
            rl.update()
            self.plain('lim update %d' % CLOCK.ns, show(rl))
        elif what == 'emit':
            n = op['n']
            if n <= rl.allowed_bytes():
                rl.inform_byte_sent(n)
                self.plain('lim emit %d %d' % (CLOCK.ns, n), 'emit=1 ' + show(rl))
            else:
                self.plain('lim emit %d %d' % (CLOCK.ns, n), 'emit=0 ' + show(rl))
        elif what == 'reset':
            rl.reset()
            self.plain('lim reset', show(rl))

    def do_tick(self, op):
        CLOCK.ns += op['dt']
        self.plain('tick %d' % op['dt'], 'ok')

    def do_recv(self, op):
        i = op['i']
        if i not in self.layers:
            self.plain('recv %d' % i, 'bad-layer')
            return
        r = self.layers[i].recv()
        self.finish(i, 'recv %d' % i, 'None' if r is None else 'data %s' % hexs(r))

    def _simple(self, op, name):
        i = op['i']
        if i not in self.layers:
            self.plain('%s %d' % (name, i), 'bad-layer')
            return
        try:
            getattr(self.layers[i], name)()
            res = 'ok'
        except Exception as e:
            res = 'exc %s' % type(e).__name__
        self.finish(i, '%s %d' % (name, i), res)

    def do_stop_sending(self, op):
        self._simple(op, 'stop_sending')

    def do_stop_receiving(self, op):
        self._simple(op, 'stop_receiving')

    def do_reset(self, op):
        self._simple(op, 'reset')

    def do_deliver(self, op):
        i, j, n = op['i'], op['j'], op['n']
        mv = self.outbox[i][:n]
        del self.outbox[i][:n]
        targets = [j] + ([op['tap']] if op.get('tap') is not None else [])
        for m in mv:
            for tgt in targets:
                self.inbox[tgt].append((0, isotp.CanMessage(arbitration_id=m.arbitration_id, data=bytes(m.data),
                                                            extended_id=m.is_extended_id, is_fd=m.is_fd,
                                                            bitrate_switch=m.bitrate_switch)))
        if op.get('tap') is not None:
            self.plain('deliver %d %d %d %d' % (i, j, n, op['tap']), 'moved %d' % len(mv))
        else:
            self.plain('deliver %d %d %d' % (i, j, n), 'moved %d' % len(mv))

    def do_fault(self, op):
        # arm a fault on the link fed by layer i: the n-th frame it emits (0-based, counted from the start) is dropped / duplicated
        self.faults[op['i']] = (op['kind'], op['n'])
        self.plain('fault %d %s %d' % (op['i'], op['kind'], op['n']), 'ok')

    def do_drop(self, op):
        i, k = op['i'], op['k']
        if k < len(self.outbox[i]):
            del self.outbox[i][k]
        self.plain('drop %d %d' % (i, k), 'ok')

    def do_dup(self, op):
        i, k = op['i'], op['k']
        if k < len(self.outbox[i]):
            self.outbox[i].insert(k + 1, self.outbox[i][k])
        self.plain('dup %d %d' % (i, k), 'ok')

    def do_clearout(self, op):
        self.outbox[op['i']] = []
        self.plain('clearout %d' % op['i'], 'ok')

    def do_addr(self, op):
        k = op['k']
        a = op['addr']
        line = 'addr %d %s' % (k, ' '.join(addr_tokens(a)))
        try:
            A = make_address_obj(a)
        except Exception as e:
            self.addrs = getattr(self, 'addrs', {})
            self.addrs[k] = None
            self.plain(line, 'exc %s' % type(e).__name__)
            return
        self.addrs = getattr(self, 'addrs', {})
        self.addrs[k] = A
        P, F = isotp.TargetAddressType.Physical, isotp.TargetAddressType.Functional

        def so(x):
            return 'N' if x is None else str(x)
        if A.is_rx_only():
            txp = 'na'
        else:
            txp = '%d %d %s %s' % (A.get_tx_arbitration_id(P), A.get_tx_arbitration_id(F), hexs(A.get_tx_payload_prefix()),
                                   so(A.get_tx_extension_byte()))
        if A.is_tx_only():
            rxp = 'na'
        else:
            rxp = '%d %d %d %s' % (A.get_rx_arbitration_id(P), A.get_rx_arbitration_id(F), A.get_rx_prefix_size(),
                                   so(A.get_rx_extension_byte()))
        is29 = A._is_29bits
        self.plain(line, 'ok is29=%d tx=%s rx=%s' % (is29, txp, rxp))

    def do_params(self, op):
        raw = op['params']
        toks = ['params'] + ['%s=%s' % (k, pv(v)) for k, v in raw.items()]
        P = isotp.TransportLayerLogic.Params()
        br = raw.get('rate_limit_max_bitrate', P.rate_limit_max_bitrate)
        w = raw.get('rate_limit_window_size', P.rate_limit_window_size)
        # Python evaluates the float conversions; the model is parametric in their results (DESIGN 3.1).  An integer too large to be
        # converted to a float is handed over as +inf (that is what "not finite" means for it).
        if isinstance(w, int) and not isinstance(w, bool) and not _fits_float(w):
            toks = [t if not t.startswith('rate_limit_window_size=') else 'rate_limit_window_size=finf' for t in toks]
        for tk in ('rx_flowcontrol_timeout', 'rx_consecutive_frame_timeout'):      # the timers work with float seconds
            v = raw.get(tk)
            if isinstance(v, int) and not isinstance(v, bool) and not _timeout_ns_finite(v):
                toks = [t if not t.startswith(tk + '=') else tk + '=finf' for t in toks]
        if isinstance(br, int) and isinstance(w, (int, float)):
            try:
                x = br * w
                toks.append('prod=%s' % (pv(x) if _fits_float(x) else 'finf'))
            except OverflowError:
                toks.append('prod=finf')
        ov = raw.get('override_receiver_stmin')
        if isinstance(ov, (int, float)) and not isinstance(ov, bool):
            try:
                toks.append('ovrfin=%d' % (1 if math.isfinite(float(ov) * 1e9) else 0))
            except OverflowError:
                toks.append('ovrfin=0')
        try:
            # `last`: that key is given through set(key, value) on the otherwise configured object ("rejected ... at construction or set()
            # time"); `before`: values the object held earlier (overwritten by the final ones)
            last = op.get('last')
            for k, v in (op.get('before') or {}).items():
                P.set(k, unmark(v), validate=False)
            for k, v in raw.items():
                if k != last:
                    P.set(k, unmark(v), validate=False)
            P.wait_func = _noop_wait
            if last is None:
                P.validate()
            else:
                P.set(last, unmark(raw[last]))
            res = 'ok'
        except Exception as e:
            res = 'exc %s' % type(e).__name__
        self.plain(' '.join(toks), res)

    def do_ifm(self, op):
        k = op['k']
        A = self.addrs.get(k)
        line = 'ifm %d %d %d %s' % (k, op['id'], 1 if op.get('ext') else 0, hexs(op['data']))
        if A is None:
            self.plain(line, 'bad-addr')
            return
        m = isotp.CanMessage(arbitration_id=op['id'], data=bytes(op['data']), extended_id=bool(op.get('ext', False)))
        self.plain(line, '1' if A.is_for_me(m) else '0')

    def do_decode(self, op):
        start = op.get('start', 0)
        data = bytes(op['data'])
        line = 'decode %d %s' % (start, hexs(data))
        try:
            p = isotp.protocol.PDU(isotp.CanMessage(data=data), start_of_data=start)
        except Exception:
            self.plain(line, 'invalid')
            return
        T = isotp.protocol.PDU.Type
        if p.type == T.SINGLE_FRAME:
            out = 'sf %d %s %d %d %d' % (p.length, hexs(p.data), p.escape_sequence, p.can_dl, p.rx_dl)
        elif p.type == T.FIRST_FRAME:
            out = 'ff %d %s %d %d %d' % (p.length, hexs(p.data), p.escape_sequence, p.can_dl, p.rx_dl)
        elif p.type == T.CONSECUTIVE_FRAME:
            out = 'cf %d %s %d %d' % (p.seqnum, hexs(p.data), p.can_dl, p.rx_dl)
        else:
            t = isotp.protocol.Timer(0)
            t.set_timeout(p.stmin_sec)
            out = 'fc %d %d %d %d %d %d' % (p.flow_status, p.blocksize, p.stmin, t.timeout, p.can_dl, p.rx_dl)
        self.plain(line, out)

    def do_specseg(self, op):
        """Python reference segmentation (harness/ref.py) vs the Lean `Spec.segment` (driver side)"""
        import ref
        data = bytes(op['data'])
        pre = bytes(op.get('prefix', b''))
        line = 'specseg %d %s %s %s %s' % (op['txdl'], 'N' if op.get('minlen') is None else op['minlen'],
                                          'N' if op.get('padding') is None else op['padding'], hexs(pre), hexs(data))
        frames = ref.segment(data, txdl=op['txdl'], minlen=op.get('minlen'), padding=op.get('padding'), prefix=pre)
        self.plain(line, ' '.join(hexs(f) for f in frames))

    def do_specreasm(self, op):
        """the payload a foreign stream was built from (harness side) vs the Lean reference decoder `Spec.reassemble` (driver side)"""
        frames = [bytes(f) for f in op['frames']]
        line = 'specreasm %d %s' % (op['prelen'], ' '.join(hexs(f) for f in frames))
        self.plain(line, hexs(bytes(op['payload'])))

    def run(self, scenario):
        for op in scenario:
            getattr(self, 'do_' + op['op'])(op)
        return self.lines_in, self.lines_out


def run_impl(scenario, runner_cls=ImplRunner):
    r = runner_cls()
    return r.run(scenario)


def run_model_batch(list_of_lines_in):
    """list of scenarios' input lines -> list of scenarios' output lines (one driver process)"""
    if not os.path.exists(DRIVER):
        raise ImplError('driver not built: %s' % DRIVER)
    buf = []
    for li in list_of_lines_in:
        buf.append('newcase')
        buf.extend(li)
    p = subprocess.run([DRIVER], input=('\n'.join(buf) + '\n').encode(), stdout=subprocess.PIPE, stderr=subprocess.PIPE)
    if p.returncode != 0:
        raise ImplError('driver failed: %s' % p.stderr.decode()[:500])
    out = p.stdout.decode().split('\n')
    res = []
    cur = None
    for line in out:
        if line == 'newcase':
            cur = []
            res.append(cur)
        elif cur is not None:
            cur.append(line)
    # trailing empty line from final newline
    for i, li in enumerate(list_of_lines_in):
        res[i] = res[i][:len(li)]
    return res


def split_line(line):
    parts = line.split('|')
    if len(parts) != 3:
        return None
    return parts


def first_diff(impl_out, model_out, project=None):
    """index of first differing line (after projection) or None"""
    n = max(len(impl_out), len(model_out))
    for k in range(n):
        a = impl_out[k] if k < len(impl_out) else '<missing>'
        b = model_out[k] if k < len(model_out) else '<missing>'
        if project is not None:
            a, b = project(a), project(b)
        if a != b:
            return k
    return None
