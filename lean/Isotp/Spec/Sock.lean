import Isotp.Sock
/-
  Reference definitions for C19 / C20 (isotp.socket on top of the Linux can-isotp module).

  Written from the property text, doc/source/isotp/socket.rst, the docstrings of
  `isotp.socket.set_opts` ("Values of None will leave the parameter unchanged",
  "If not None, flags.X will be set") and the Linux uapi header `linux/can/isotp.h`:

      struct can_isotp_options    { u32 flags; u32 frame_txtime; u8 ext_address;
                                    u8 txpad_content; u8 rxpad_content; u8 rx_ext_address; }
      struct can_isotp_fc_options { u8 bs; u8 stmin; u8 wftmax; }
      struct can_isotp_ll_options { u8 mtu; u8 tx_dl; u8 tx_flags; }
      CAN_ISOTP_TX_STMIN          : u32                       (little-endian host)

  Nothing here is copied from `Isotp/Sock.lean`: bit operations are the core `Nat` ones
  (`|||`, `&&&`, `testBit`), byte images are produced by a generic little-endian encoder, and
  "an int in range" is defined by pattern matching on the Python value.
-/
namespace Isotp.Sock

/-! ### "in range" kernel states: every u8 field < 2^8, every u32 field < 2^32 -/

def KOpts.wf (o : KOpts) : Prop :=
  o.flags < 2^32 ∧ o.frameTxtime < 2^32 ∧ o.extAddress < 256 ∧ o.txpad < 256 ∧ o.rxpad < 256 ∧
    o.rxExtAddress < 256
def KFc.wf (o : KFc) : Prop := o.bs < 256 ∧ o.stmin < 256 ∧ o.wftmax < 256
def KLl.wf (o : KLl) : Prop := o.mtu < 256 ∧ o.txDl < 256 ∧ o.txFlags < 256
def Kernel.wf (k : Kernel) : Prop := k.opts.wf ∧ k.fc.wf ∧ k.ll.wf ∧ k.txStmin < 2^32

instance (o : KOpts) : Decidable o.wf := by unfold KOpts.wf; infer_instance
instance (o : KFc) : Decidable o.wf := by unfold KFc.wf; infer_instance
instance (o : KLl) : Decidable o.wf := by unfold KLl.wf; infer_instance
instance (k : Kernel) : Decidable k.wf := by unfold Kernel.wf; infer_instance

namespace Spec

/-! ### constants of `linux/can/isotp.h`, `linux/can.h` -/
def SOL_CAN_ISOTP : Nat := 100 + 6        -- SOL_CAN_BASE + CAN_ISOTP
def CAN_ISOTP_OPTS : Nat := 1
def CAN_ISOTP_RECV_FC : Nat := 2
def CAN_ISOTP_TX_STMIN : Nat := 3
def CAN_ISOTP_LL_OPTS : Nat := 5

def LISTEN_MODE : Nat := 0x001
def EXTEND_ADDR : Nat := 0x002
def TX_PADDING : Nat := 0x004
def RX_PADDING : Nat := 0x008
def CHK_PAD_LEN : Nat := 0x010
def CHK_PAD_DATA : Nat := 0x020
def HALF_DUPLEX : Nat := 0x040
def FORCE_TXSTMIN : Nat := 0x080
def FORCE_RXSTMIN : Nat := 0x100
def RX_EXT_ADDR : Nat := 0x200
def WAIT_TX_DONE : Nat := 0x400

def CAN_EFF_FLAG : Nat := 0x80000000
def CAN_EFF_MASK : Nat := 0x1FFFFFFF
def CAN_SFF_MASK : Nat := 0x7FF

/-- `flags & f != 0` -/
def flagSet (flags f : Nat) : Bool := flags &&& f != 0

/-! ### byte images -/

/-- little-endian image of an unsigned integer of `w` bytes -/
def leBytes : Nat → Nat → Bytes
  | 0, _ => []
  | w + 1, n => UInt8.ofNat (n % 256) :: leBytes w (n / 256)

/-- value of a little-endian byte string -/
def leValue : Bytes → Nat
  | [] => 0
  | b :: bs => b.toNat + 256 * leValue bs

/-- `struct can_isotp_options` -/
def optionsImage (o : KOpts) : Bytes :=
  leBytes 4 o.flags ++ leBytes 4 o.frameTxtime ++ leBytes 1 o.extAddress ++ leBytes 1 o.txpad ++
    leBytes 1 o.rxpad ++ leBytes 1 o.rxExtAddress
/-- `struct can_isotp_fc_options` -/
def fcImage (o : KFc) : Bytes := leBytes 1 o.bs ++ leBytes 1 o.stmin ++ leBytes 1 o.wftmax
/-- `struct can_isotp_ll_options` -/
def llImage (o : KLl) : Bytes := leBytes 1 o.mtu ++ leBytes 1 o.txDl ++ leBytes 1 o.txFlags
/-- the `__u32` of CAN_ISOTP_TX_STMIN -/
def stminImage (v : Nat) : Bytes := leBytes 4 v

/-! ### Python argument values -/

/-- the natural number denoted by a Python value that is a non-negative `int`
    (`bool` is a subclass of `int`); `none` for everything else (None, negative, float, str, …) -/
def natOf : PyVal → Option Nat
  | .int i => if 0 ≤ i then some i.toNat else none
  | .bool b => some (if b then 1 else 0)
  | _ => none

/-- the argument is `None`, or an int in `0..hi` -/
def fieldOk (v : PyVal) (hi : Nat) : Bool :=
  match v with
  | .none => true
  | v => match natOf v with
    | some n => n ≤ hi
    | none => false

/-- "None leaves the parameter unchanged" -/
def pick (v : PyVal) (old : Nat) : Nat :=
  match v with
  | .none => old
  | v => (natOf v).getD old

/-- flag implied by an argument that is given -/
def implied (v : PyVal) (flag : Nat) : Nat :=
  match v with
  | .none => 0
  | _ => flag

/-- every given argument of `set_opts` is an int of the width of its field -/
def argsOk (a : OptsArgs) : Bool :=
  fieldOk a.optflag 0xFFFFFFFF && fieldOk a.frameTxtime 0xFFFFFFFF && fieldOk a.extAddress 0xFF &&
  fieldOk a.txpad 0xFF && fieldOk a.rxpad 0xFF && fieldOk a.rxExtAddress 0xFF &&
  fieldOk a.txStmin 0xFFFFFFFF

def args3Ok (x y z : PyVal) : Bool := fieldOk x 0xFF && fieldOk y 0xFF && fieldOk z 0xFF

/-- the `can_isotp_options` after `set_opts(**a)` on a socket whose options were `k` -/
def mergeOpts (k : KOpts) (a : OptsArgs) : KOpts :=
  { flags := pick a.optflag k.flags ||| implied a.extAddress EXTEND_ADDR ||| implied a.txpad TX_PADDING
               ||| implied a.rxpad RX_PADDING ||| implied a.rxExtAddress RX_EXT_ADDR
               ||| implied a.txStmin FORCE_TXSTMIN
    frameTxtime := pick a.frameTxtime k.frameTxtime
    extAddress := pick a.extAddress k.extAddress
    txpad := pick a.txpad k.txpad
    rxpad := pick a.rxpad k.rxpad
    rxExtAddress := pick a.rxExtAddress k.rxExtAddress }

def mergeFc (k : KFc) (bs stmin wftmax : PyVal) : KFc :=
  { bs := pick bs k.bs, stmin := pick stmin k.stmin, wftmax := pick wftmax k.wftmax }

def mergeLl (k : KLl) (mtu txDl txFlags : PyVal) : KLl :=
  { mtu := pick mtu k.mtu, txDl := pick txDl k.txDl, txFlags := pick txFlags k.txFlags }

/-- the `setsockopt` calls of one successful `set_opts(**a)`, in the order they are issued;
    `o'` is the merged option struct -/
def optsCalls (a : OptsArgs) (o' : KOpts) : List Call :=
  (if a.txStmin = PyVal.none then []
   else [Call.setopt SOL_CAN_ISOTP CAN_ISOTP_TX_STMIN (stminImage (pick a.txStmin 0))]) ++
  [Call.setopt SOL_CAN_ISOTP CAN_ISOTP_OPTS (optionsImage o')]

/-- the socket after a successful `set_opts(**a)` -/
def afterOpts (s : Sock) (a : OptsArgs) : Sock :=
  let o' := mergeOpts s.k.opts a
  { s with k := { s.k with opts := o', txStmin := pick a.txStmin s.k.txStmin },
           calls := (optsCalls a o').reverse ++ s.calls }

def afterFc (s : Sock) (bs stmin wftmax : PyVal) : Sock :=
  let o' := mergeFc s.k.fc bs stmin wftmax
  { s with k := { s.k with fc := o' },
           calls := Call.setopt SOL_CAN_ISOTP CAN_ISOTP_RECV_FC (fcImage o') :: s.calls }

def afterLl (s : Sock) (mtu txDl txFlags : PyVal) : Sock :=
  let o' := mergeLl s.k.ll mtu txDl txFlags
  { s with k := { s.k with ll := o' },
           calls := Call.setopt SOL_CAN_ISOTP CAN_ISOTP_LL_OPTS (llImage o') :: s.calls }

/-! ### the abstract "None means unchanged" option store and call histories -/

inductive SetCall where
  | opts (a : OptsArgs)
  | fc (bs stmin wftmax : PyVal)
  | ll (mtu txDl txFlags : PyVal)

structure Store where
  opts : KOpts
  fc : KFc
  ll : KLl
  txStmin : Nat
  deriving DecidableEq, Repr

/-- one setter call on the abstract store; a call with a bad argument raises and changes nothing -/
def Store.apply (st : Store) : SetCall → Store
  | .opts a => if argsOk a then
      { st with opts := mergeOpts st.opts a, txStmin := pick a.txStmin st.txStmin } else st
  | .fc x y z => if args3Ok x y z then { st with fc := mergeFc st.fc x y z } else st
  | .ll x y z => if args3Ok x y z then { st with ll := mergeLl st.ll x y z } else st

def storeOf (k : Kernel) : Store := { opts := k.opts, fc := k.fc, ll := k.ll, txStmin := k.txStmin }

/-- one public setter call on the wrapper; a raising call leaves the object as it was -/
def runCall (s : Sock) : SetCall → Sock
  | .opts a => match setOpts s a with | .ok (s', _) => s' | .error _ => s
  | .fc x y z => match setFcOpts s x y z with | .ok (s', _) => s' | .error _ => s
  | .ll x y z => match setLlOpts s x y z with | .ok (s', _) => s' | .error _ => s

def runCalls (s : Sock) (cs : List SetCall) : Sock := cs.foldl runCall s

/-! ### bind -/

/-- `(id & CAN_EFF_MASK) | CAN_EFF_FLAG` for 29-bit identifiers, `id & CAN_SFF_MASK` otherwise -/
def canId (is29 : Bool) (id : Nat) : Nat :=
  if is29 then (id &&& CAN_EFF_MASK) ||| CAN_EFF_FLAG else id &&& CAN_SFF_MASK

def optLt (o : Option Nat) (b : Nat) : Bool :=
  match o with
  | some n => n < b
  | none => false

/-- the transmit half is complete and its numbers fit their fields
    (what `Address.__init__` guarantees, plus the 29-bit bound it does not check) -/
def txWf (h : Half) : Bool :=
  (match h.mode with
   | .nf29 | .m29 => optLt h.ta 256 && optLt h.sa 256 && h.physId % 65536 == 0 && h.physId < 2^29
   | _ => optLt h.txid (if h.mode.is29 then 2^29 else 2^11)) &&
  (!h.mode.hasPrefix || optLt h.txExtByte 256)

def rxWf (h : Half) : Bool :=
  (match h.mode with
   | .nf29 | .m29 => optLt h.ta 256 && optLt h.sa 256 && h.physId % 65536 == 0 && h.physId < 2^29
   | _ => optLt h.rxid (if h.mode.is29 then 2^29 else 2^11)) &&
  (!h.mode.hasPrefix || optLt h.rxExtByte 256)

/-- extension bytes, when present, fit a u8 (enough for `bind` not to raise ValueError) -/
def extBytesOk (a : Addr) : Bool :=
  (match a.tx.txExtByte with | some b => b < 256 | none => true) &&
  (match a.rx.rxExtByte with | some b => b < 256 | none => true)

/-- the general options after `bind(address)` -/
def bindOpts (k : KOpts) (a : Addr) : KOpts :=
  { k with
    flags := k.flags ||| (if a.tx.mode.hasPrefix then EXTEND_ADDR else 0)
                     ||| (if a.rx.mode.hasPrefix then RX_EXT_ADDR else 0)
    extAddress := a.tx.txExtByte.getD k.extAddress
    rxExtAddress := a.rx.rxExtByte.getD k.rxExtAddress }

def bindIds (a : Addr) : Nat × Nat :=
  (canId a.rx.mode.is29 (a.rx.rxId .physical), canId a.tx.mode.is29 (a.tx.txId .physical))

/-- the socket after a successful `bind` -/
def afterBind (s : Sock) (a : Addr) : Sock :=
  let ids := bindIds a
  if a.tx.mode.hasPrefix || a.rx.mode.hasPrefix then
    let o' := bindOpts s.k.opts a
    { s with bound := true,
             k := { s.k with opts := o', bound := some ids },
             calls := Call.bind ids.1 ids.2 :: Call.setopt SOL_CAN_ISOTP CAN_ISOTP_OPTS (optionsImage o')
                        :: s.calls }
  else
    { s with bound := true, k := { s.k with bound := some ids },
             calls := Call.bind ids.1 ids.2 :: s.calls }

/-! ### what the kernel does with a bound socket (net/can/isotp.c, reduced to addressing) -/

def isEff (canId : Nat) : Bool := flagSet canId CAN_EFF_FLAG
def idBits (canId : Nat) : Nat := if isEff canId then canId &&& CAN_EFF_MASK else canId &&& CAN_SFF_MASK

/-- identifier, identifier type and prefix bytes of every frame the bound socket transmits -/
def kernelEmits (k : Kernel) : Option (Nat × Bool × Bytes) :=
  match k.bound with
  | none => none
  | some (_, tx) =>
    some (idBits tx, isEff tx,
          if flagSet k.opts.flags EXTEND_ADDR then [UInt8.ofNat k.opts.extAddress] else [])

/-- reception filter as described in the task: identifier and identifier type equal the bound rx
    can_id, and under RX_EXT_ADDR the first data byte equals `rx_ext_address` -/
def kernelAccepts (k : Kernel) (m : CanMsg) : Bool :=
  match k.bound with
  | none => false
  | some (rx, _) =>
    m.ext == isEff rx && m.id == idBits rx &&
    (if flagSet k.opts.flags RX_EXT_ADDR then
       (match m.data with | b :: _ => b.toNat == k.opts.rxExtAddress | [] => false)
     else true)

/-- reception filter closer to `isotp_rcv`: a prefix byte is expected iff EXTEND_ADDR is set, and
    it is compared with `rx_ext_address` if RX_EXT_ADDR is set, else with `ext_address`
    (`isotp_setsockopt`: "no separate rx_ext_address is given => use ext_address") -/
def kernelAcceptsLinux (k : Kernel) (m : CanMsg) : Bool :=
  match k.bound with
  | none => false
  | some (rx, _) =>
    m.ext == isEff rx && m.id == idBits rx &&
    (if flagSet k.opts.flags EXTEND_ADDR then
       (match m.data with
        | b :: _ => b.toNat == (if flagSet k.opts.flags RX_EXT_ADDR then k.opts.rxExtAddress
                                else k.opts.extAddress)
        | [] => false)
     else true)

end Spec
end Isotp.Sock
