import Isotp.Proofs.LockstepQueue3
/-
  C01, liveness half for any number of queued messages, part 4: the rounds, iterated; the start state.

  * `extraRounds`, `queueRounds` : `queueRounds l = 1 + Σ (roundsFor p − 1)` over the messages of `l` (0 if `l = []`):
    the first round sends every leading Single Frame message and the first First Frame; a segmented message takes
    `roundsFor p − 1` further rounds; in the round that completes it the next messages are started.
  * `rounds_midQ`, `rounds_msgQ` : the rounds of one segmented message. `rounds_afterQ` : all the messages of the
    queue, one after the other. `rounds_queueQ` : from "idle with the requests of `l` queued" to "idle, everything
    delivered" in `queueRounds l` rounds (and it stays so).
  * `pairQ`, `sendAll`, `startNetQ`, `startNetQ_eq` : the network after `A.send(p₁) … A.send(p_k)`.
-/
namespace Isotp.LockstepQ
open Isotp Isotp.State Isotp.Spec Isotp.Proofs Isotp.Lockstep

/-! ## several rounds -/

theorem rounds_add (dt : Nat) : ∀ (M N : Nat) (q : Pair),
    Pair.rounds dt (M + N) q =
      ((Pair.rounds dt N (Pair.rounds dt M q).1).1,
        (Pair.rounds dt M q).2.1 ++ (Pair.rounds dt N (Pair.rounds dt M q).1).2.1,
        (Pair.rounds dt M q).2.2 ++ (Pair.rounds dt N (Pair.rounds dt M q).1).2.2) := by
  intro M
  induction M with
  | zero => intro N q; simp [Pair.rounds]
  | succ M ih =>
    intro N q
    have : M + 1 + N = (M + N) + 1 := by omega
    rw [this]
    simp only [Pair.rounds]
    rw [ih N (q.round dt).1]
    simp only [List.append_assoc]

/-- what `N` rounds report: no error event on either side, the requests completed (in order), the clock -/
def RunOk (dt N : Nat) (q : Pair) (ds : List (Nat × Bool)) : Prop :=
  NoErr (Pair.rounds dt N q).2.1 ∧ NoErr (Pair.rounds dt N q).2.2 ∧ doneEvs (Pair.rounds dt N q).2.1 = ds ∧
  (Pair.rounds dt N q).1.now = q.now + N * dt

theorem RunOk_zero (dt : Nat) (q : Pair) : RunOk dt 0 q [] :=
  ⟨NoErr_nil, NoErr_nil, rfl, by simp [Pair.rounds]⟩

theorem RunOk_one {dt : Nat} {q : Pair} {ds : List (Nat × Bool)} (h : RoundOkQ dt q ds) : RunOk dt 1 q ds := by
  obtain ⟨h1, h2, h3, h4⟩ := h
  refine ⟨?_, ?_, ?_, ?_⟩
  · simp only [Pair.rounds, List.append_nil]; exact h1
  · simp only [Pair.rounds, List.append_nil]; exact h2
  · simp only [Pair.rounds, List.append_nil]; exact h3
  · simp only [Pair.rounds]; rw [h4]; omega

theorem RunOk_add {dt M N : Nat} {q : Pair} {d1 d2 : List (Nat × Bool)} (h1 : RunOk dt M q d1)
    (h2 : RunOk dt N (Pair.rounds dt M q).1 d2) : RunOk dt (M + N) q (d1 ++ d2) := by
  obtain ⟨a1, a2, a3, a4⟩ := h1
  obtain ⟨b1, b2, b3, b4⟩ := h2
  rw [RunOk, rounds_add]
  refine ⟨NoErr_append a1 b1, NoErr_append a2 b2, ?_, ?_⟩
  · simp only []; rw [doneEvs_append, a3, b3]
  · simp only []; rw [b4, a4, Nat.add_mul]; omega

section iter
variable (ca cb : Cfg) (aa ab : Addr) (dt : Nat)

theorem QNext_notD (fcm : CanMsg) (del : List Bytes) (rest : List Msg) (id : Nat) (p : Bytes) (a' : Abs) (q' : Pair)
    (hne : a' ≠ .D) (h : QNext ca cb aa ab dt fcm del rest id p a' q') :
    QLock ca cb aa ab dt fcm del rest id p a' q' := by
  cases a' with
  | D => exact absurd rfl hne
  | I => exact absurd h (by simp [QNext])
  | W k => exact h
  | T k j => exact h

/-- rounds inside the transfer of `(id, p)` that do not complete it -/
theorem rounds_midQ (hS : QSetting ca cb aa ab dt) (id : Nat) (p : Bytes) (h32 : p.length < 4294967296)
    (hmax : p.length ≤ cb.maxFrameSize) (hff : NeedsFF (TxCfg.of ca aa) p.length) (fcm : CanMsg)
    (hfc : FcFacts cb aa ab fcm) (del : List Bytes) (rest : List Msg) (hok : MsgOkB cb rest) :
    ∀ (i : Nat) (a : Abs) (q : Pair), QLock ca cb aa ab dt fcm del rest id p a q →
    (∀ j, 1 ≤ j → j ≤ i → absIter (decide (effOf ca cb = 0)) cb.blocksize (nFrames (TxCfg.of ca aa) p) j a ≠ .D) →
    QLock ca cb aa ab dt fcm del rest id p
      (absIter (decide (effOf ca cb = 0)) cb.blocksize (nFrames (TxCfg.of ca aa) p) i a) (Pair.rounds dt i q).1 ∧
    RunOk dt i q [] := by
  intro i
  induction i with
  | zero => intro a q h _; exact ⟨h, RunOk_zero dt q⟩
  | succ i ih =>
    intro a q h hne
    obtain ⟨hn, hr⟩ := round_simQ ca cb aa ab dt hS id p h32 hmax hff fcm hfc del rest hok a q h
    have h1 : absStep (decide (effOf ca cb = 0)) cb.blocksize (nFrames (TxCfg.of ca aa) p) a ≠ .D :=
      hne 1 (Nat.le_refl 1) (by omega)
    have hl := QNext_notD ca cb aa ab dt fcm del rest id p _ _ h1 hn
    have hd : nextDones ca aa id rest (absStep (decide (effOf ca cb = 0)) cb.blocksize (nFrames (TxCfg.of ca aa) p) a) = [] := by
      simp [nextDones, h1]
    rw [hd] at hr
    obtain ⟨il, ir⟩ := ih _ (q.round dt).1 hl (fun j hj1 hj2 => hne (j + 1) (by omega) (by omega))
    refine ⟨il, ?_⟩
    have := RunOk_add (RunOk_one hr) (by simpa [Pair.rounds] using ir)
    rw [Nat.add_comm] at this
    simpa using this

theorem absIter_succ_I (z : Bool) (bs n j : Nat) (hn : 2 ≤ n) : absIter z bs n (j + 1) .I = absIter z bs n j (.W 1) := by
  show absIter z bs n j (absStep z bs n .I) = _
  have : absStep z bs n .I = .W 1 := by simp only [absStep]; rw [if_neg (by omega)]
  rw [this]

theorem roundsFor_ge_two (p : Bytes) (hva : ca.valid = true) (hff : NeedsFF (TxCfg.of ca aa) p.length) :
    2 ≤ roundsFor ca cb aa p := by
  have hn := two_le_nFrames _ (valid_of ca aa hva) p hff
  have hD := absIter_done (decide (effOf ca cb = 0)) cb.blocksize (nFrames (TxCfg.of ca aa) p)
  unfold roundsFor
  generalize roundsNeeded (decide (effOf ca cb = 0)) cb.blocksize (nFrames (TxCfg.of ca aa) p) = R at *
  match R, hD with
  | 0, hD => cases hD
  | 1, hD => rw [absIter_succ_I _ _ _ 0 hn] at hD; cases hD
  | R + 2, _ => omega

theorem roundsFor_sf (p : Bytes) (hsf : ¬ NeedsFF (TxCfg.of ca aa) p.length) : roundsFor ca cb aa p = 1 := by
  unfold roundsFor roundsNeeded
  rw [nFrames_sf ca aa p hsf]; rfl

/-- The rounds of one segmented message: from `W 1` (First Frame delivered, Flow Control on its way back) the message
    is delivered after `roundsFor p − 1` rounds, and the chain over `rest` has been started in the last of them. -/
theorem rounds_msgQ (hS : QSetting ca cb aa ab dt) (id : Nat) (p : Bytes) (h32 : p.length < 4294967296)
    (hmax : p.length ≤ cb.maxFrameSize) (hff : NeedsFF (TxCfg.of ca aa) p.length) (fcm : CanMsg)
    (hfc : FcFacts cb aa ab fcm) (del : List Bytes) (rest : List Msg) (hok : MsgOkB cb rest) (q : Pair)
    (h : QLock ca cb aa ab dt fcm del rest id p (.W 1) q) :
    QAfter ca cb aa ab dt fcm (del ++ [p]) rest (Pair.rounds dt (roundsFor ca cb aa p - 1) q).1 ∧
    RunOk dt (roundsFor ca cb aa p - 1) q ((id, true) :: chainDones ca aa rest) := by
  have hn := two_le_nFrames _ (valid_of ca aa hS.va) p hff
  have hR2 := roundsFor_ge_two ca cb aa p hS.va hff
  have hD := absIter_done (decide (effOf ca cb = 0)) cb.blocksize (nFrames (TxCfg.of ca aa) p)
  have hnD := absIter_not_done (decide (effOf ca cb = 0)) cb.blocksize (nFrames (TxCfg.of ca aa) p) (by omega)
  unfold roundsFor at hR2 ⊢
  generalize roundsNeeded (decide (effOf ca cb = 0)) cb.blocksize (nFrames (TxCfg.of ca aa) p) = R at *
  obtain ⟨R, rfl⟩ : ∃ R', R = R' + 2 := ⟨R - 2, by omega⟩
  obtain ⟨hl, hr⟩ := rounds_midQ ca cb aa ab dt hS id p h32 hmax hff fcm hfc del rest hok R (.W 1) q h
    (fun j _ hj2 => by rw [← absIter_succ_I _ _ _ j hn]; exact hnD (j + 1) (by omega))
  have hstep : absStep (decide (effOf ca cb = 0)) cb.blocksize (nFrames (TxCfg.of ca aa) p)
      (absIter (decide (effOf ca cb = 0)) cb.blocksize (nFrames (TxCfg.of ca aa) p) R (.W 1)) = .D := by
    have e1 := absIter_add (decide (effOf ca cb = 0)) cb.blocksize (nFrames (TxCfg.of ca aa) p) R 1 (.W 1)
    simp only [absIter] at e1
    rw [← e1]
    exact (absIter_succ_I _ _ _ (R + 1) hn).symm.trans hD
  obtain ⟨hn', hr'⟩ := round_simQ ca cb aa ab dt hS id p h32 hmax hff fcm hfc del rest hok _ _ hl
  rw [hstep] at hn' hr'
  have hd : nextDones ca aa id rest .D = (id, true) :: chainDones ca aa rest := by simp [nextDones]
  rw [hd] at hr'
  have hsum := RunOk_add hr (RunOk_one hr')
  have e : R + 2 - 1 = R + 1 := by omega
  rw [e]
  refine ⟨?_, by simpa using hsum⟩
  rw [rounds_add]
  simp only [Pair.rounds]
  exact hn'

/-- rounds needed beyond the first one -/
def extraRounds : List Msg → Nat
  | [] => 0
  | m :: rest => (roundsFor ca cb aa m.2 - 1) + extraRounds rest

/-- **Number of rounds** of the canonical schedule for the queued messages `l`:
    `1 + Σ (roundsFor p − 1)` (0 for the empty list). -/
def queueRounds (l : List Msg) : Nat := if l = [] then 0 else 1 + extraRounds ca cb aa l

/-- the requests completed after the round in which the chain over `l` was started -/
def laterDones : List Msg → List (Nat × Bool)
  | [] => []
  | m :: rest =>
    if NeedsFF (TxCfg.of ca aa) m.2.length then (m.1, true) :: rest.map (fun m => (m.1, true)) else laterDones rest

theorem chain_later (l : List Msg) :
    chainDones ca aa l ++ laterDones ca aa l = l.map (fun m => (m.1, true)) := by
  induction l with
  | nil => rfl
  | cons m rest ih =>
    by_cases hff : NeedsFF (TxCfg.of ca aa) m.2.length
    · simp [chainDones, laterDones, hff]
    · simp [chainDones, laterDones, hff, ih]

/-- all the messages of the queue, one after the other: from the state after the chain over `l` was started to
    "everything delivered, both sides idle" in `extraRounds l` rounds -/
theorem rounds_afterQ (hS : QSetting ca cb aa ab dt) (fcm : CanMsg) (hfc : FcFacts cb aa ab fcm) :
    ∀ (l : List Msg) (del : List Bytes) (q : Pair), MsgOkB cb l → QAfter ca cb aa ab dt fcm del l q →
    QIdle ca cb aa ab (del ++ l.map (·.2)) [] (Pair.rounds dt (extraRounds ca cb aa l) q).1 ∧
    RunOk dt (extraRounds ca cb aa l) q (laterDones ca aa l) := by
  intro l
  induction l with
  | nil =>
    intro del q _ h
    refine ⟨?_, RunOk_zero dt q⟩
    simpa [extraRounds, Pair.rounds, QAfter] using h
  | cons m rest ih =>
    intro del q hok h
    obtain ⟨hm1, hm32, hmmax⟩ := hok m (List.mem_cons_self ..)
    by_cases hff : NeedsFF (TxCfg.of ca aa) m.2.length
    · simp only [QAfter, hff, if_true] at h
      obtain ⟨h1, r1⟩ := rounds_msgQ ca cb aa ab dt hS m.1 m.2 hm32 hmmax hff fcm hfc del rest hok.tail q h
      obtain ⟨h2, r2⟩ := ih _ _ hok.tail h1
      have hsum := RunOk_add r1 r2
      refine ⟨?_, ?_⟩
      · simp only [extraRounds]
        rw [rounds_add]
        simpa [List.append_assoc] using h2
      · simp only [extraRounds, laterDones, hff, if_true]
        have e := chain_later ca aa rest
        rw [List.cons_append, e] at hsum
        exact hsum
    · simp only [QAfter, hff, if_false] at h
      obtain ⟨h2, r2⟩ := ih _ _ hok.tail h
      have e : extraRounds ca cb aa (m :: rest) = extraRounds ca cb aa rest := by
        simp only [extraRounds, roundsFor_sf ca cb aa m.2 hff]; omega
      rw [e]
      refine ⟨by simpa [List.append_assoc] using h2, ?_⟩
      simp only [laterDones, hff, if_false]
      exact r2

/-- idle with nothing queued: nothing happens, however many rounds -/
theorem rounds_idleQ (del : List Bytes) : ∀ (M : Nat) (q : Pair), QIdle ca cb aa ab del [] q →
    QIdle ca cb aa ab del [] (Pair.rounds dt M q).1 ∧ RunOk dt M q [] := by
  intro M
  induction M with
  | zero => intro q h; exact ⟨h, RunOk_zero dt q⟩
  | succ M ih =>
    intro q h
    obtain ⟨h1, r1⟩ := sim_idleQ ca cb aa ab dt del q h
    obtain ⟨h2, r2⟩ := ih _ h1
    refine ⟨h2, ?_⟩
    have := RunOk_add (RunOk_one r1) (by simpa [Pair.rounds] using r2)
    rw [Nat.add_comm] at this
    simpa using this

/-- **The queue completes.** From both layers idle with the requests of `l` queued at A (`del` already in B's rx
    queue): after `N ≥ queueRounds l` rounds both layers are idle again, B's rx queue is `del ++ payloads of l`,
    A's queue is empty, no error event was reported, and the requests completed are exactly those of `l`, each once,
    with success, in order. -/
theorem rounds_queueQ (hS : QSetting ca cb aa ab dt) (fcm : CanMsg) (hfc : FcFacts cb aa ab fcm)
    (del : List Bytes) (l : List Msg) (hok : MsgOkB cb l) (q : Pair) (h : QIdle ca cb aa ab del l q)
    (N : Nat) (hN : queueRounds ca cb aa l ≤ N) :
    QIdle ca cb aa ab (del ++ l.map (·.2)) [] (Pair.rounds dt N q).1 ∧
    RunOk dt N q (l.map (fun m => (m.1, true))) := by
  by_cases hl : l = []
  · subst hl
    simpa using rounds_idleQ ca cb aa ab dt del N q h
  · unfold queueRounds at hN
    rw [if_neg hl] at hN
    obtain ⟨M, rfl⟩ : ∃ M, N = (1 + extraRounds ca cb aa l) + M := ⟨N - (1 + extraRounds ca cb aa l), by omega⟩
    obtain ⟨h1, r1⟩ := sim_startQ ca cb aa ab dt hS fcm hfc del l hl hok q h
    obtain ⟨h2, r2⟩ := rounds_afterQ ca cb aa ab dt hS fcm hfc l del _ hok h1
    have r12 := RunOk_add (RunOk_one r1) (by simpa [Pair.rounds] using r2)
    have h12 : QIdle ca cb aa ab (del ++ l.map (·.2)) [] (Pair.rounds dt (1 + extraRounds ca cb aa l) q).1 := by
      rw [rounds_add]; simpa [Pair.rounds] using h2
    obtain ⟨h3, r3⟩ := rounds_idleQ ca cb aa ab dt _ M _ h12
    have r := RunOk_add r12 r3
    rw [chain_later, List.append_nil] at r
    refine ⟨?_, r⟩
    rw [rounds_add]; exact h3

end iter


/-! ## the start: `A.send(p₁) … A.send(p_k)` on two freshly constructed layers -/

section start
variable (ca cb : Cfg) (aa ab : Addr)

/-- the sends of the messages of `l` on layer 0, one after the other; the network and what the calls returned -/
def sendAll (d : Net) : List Msg → Option (Net × List (Option PyExc))
  | [] => some (d, [])
  | m :: rest =>
    match d.onLayer 0 (sendOp m.1 m.2) with
    | none => none
    | some (d1, _, _, r) =>
      match sendAll d1 rest with
      | none => none
      | some (d2, rs) => some (d2, r :: rs)

/-- the network after `A.send(p₁) … A.send(p_k)` on two freshly constructed layers, and what the calls returned -/
def startNetQ (l : List Msg) : Option (Net × List (Option PyExc)) := sendAll (net0 ca cb aa ab) l

/-- the two-layer record of the network after the accepted sends of `l` -/
def pairQ (l : List Msg) : Pair := { a := mkA ca aa { txQueue := reqsOf ca l }, b := mkB cb ab {} }

/-- whether `send` accepts depends on the configuration and the address only -/
theorem send_snd_congr (s s' : State) (hc : s.cfg = s'.cfg) (ha : s.addr = s'.addr) (a : SendArgs) :
    (s.send a).2 = (s'.send a).2 := by
  by_cases h0 : a.size < 0
  · rw [send_negative s a h0, send_negative s' a h0]
  · by_cases h1 : a.size > 0xFFFFFFFF
    · rw [send_too_big s a h1, send_too_big s' a h1]
    · by_cases hf : (a.tat.getD s.cfg.defaultTat = .functional ∧
          a.size.toNat + (if s.cfg.txDl = 8 then 1 else 2) + s.txPrefixLen > s.cfg.txDl)
      · have key : ∀ t : State, t.cfg = s.cfg → t.addr = s.addr → (t.send a).2 = some .ValueError := by
          intro t htc hta
          unfold State.send
          simp only []
          rw [if_neg h0, if_neg h1]
          have : (decide (a.tat.getD t.cfg.defaultTat = .functional) &&
              decide (a.size.toNat + (if t.cfg.txDl = 8 then 1 else 2) + t.txPrefixLen > t.cfg.txDl)) = true := by
            simpa [htc, hta, txPrefixLen] using hf
          rw [if_pos this]
        rw [key s rfl rfl, key s' hc.symm ha.symm]
      · have hf' : ¬ (a.tat.getD s'.cfg.defaultTat = .functional ∧
            a.size.toNat + (if s'.cfg.txDl = 8 then 1 else 2) + s'.txPrefixLen > s'.cfg.txDl) := by
          simpa [← hc, txPrefixLen, ← ha] using hf
        rw [(send_accepts s a (by omega) (by omega) hf).2, (send_accepts s' a (by omega) (by omega) hf').2, hc]

theorem send_accept_mkA (x : AP) (a : SendArgs) :
    ((mkA ca aa x).send a).2 = ((State.init ca aa).send a).2 :=
  send_snd_congr (mkA ca aa x) (State.init ca aa) rfl rfl a

theorem sendAll_pairQ (hacc : ∀ (id : Nat) (p : Bytes), (id, p) ∈ l →
      ((State.init ca aa).send { id := id, size := p.length, src := p }).2 = none) :
    ∀ l0 : List Msg, sendAll (pairQ ca cb aa ab l0).toNet l =
      some ((pairQ ca cb aa ab (l0 ++ l)).toNet, l.map fun _ => none) := by
  induction l with
  | nil => intro l0; simp [sendAll]
  | cons m rest ih =>
    intro l0
    have hm := hacc m.1 m.2 (List.mem_cons_self ..)
    have hacc' : ∀ (id : Nat) (p : Bytes), (id, p) ∈ rest →
        ((State.init ca aa).send { id := id, size := p.length, src := p }).2 = none :=
      fun id p h => hacc id p (List.mem_cons_of_mem _ h)
    have h2 : ((mkA ca aa { txQueue := reqsOf ca l0 }).send { id := m.1, size := m.2.length, src := m.2 }).2 = none := by
      rw [send_accept_mkA]; exact hm
    have h1 := send_accepted _ _ h2
    have he : enter 0 (mkA ca aa { txQueue := reqsOf ca l0 }) = mkA ca aa { txQueue := reqsOf ca l0 } := rfl
    have hq : (sendOp m.1 m.2 (mkA ca aa { txQueue := reqsOf ca l0 })).1 =
        mkA ca aa { txQueue := reqsOf ca (l0 ++ [m]) } := by
      show ((mkA ca aa { txQueue := reqsOf ca l0 }).send _).1 = _
      rw [h1]
      simp [mkA, reqOf, reqFor, reqsOf]
    have hr : (sendOp m.1 m.2 (mkA ca aa { txQueue := reqsOf ca l0 })).2 = none := h2
    unfold sendAll
    rw [onLayer0]
    simp only []
    have hp : (pairQ ca cb aa ab l0).a = mkA ca aa { txQueue := reqsOf ca l0 } := rfl
    have hn : (pairQ ca cb aa ab l0).now = 0 := rfl
    rw [hp, hn, he, hq, hr]
    have hpair : Pair.toNet { pairQ ca cb aa ab l0 with
        a := leave (mkA ca aa { txQueue := reqsOf ca (l0 ++ [m]) }),
        ab := (pairQ ca cb aa ab l0).ab ++ Net.txOf (mkA ca aa { txQueue := reqsOf ca (l0 ++ [m]) }).log.reverse,
        now := (mkA ca aa { txQueue := reqsOf ca (l0 ++ [m]) }).now,
        ea := (pairQ ca cb aa ab l0).ea + (Net.txOf (mkA ca aa { txQueue := reqsOf ca (l0 ++ [m]) }).log.reverse).length } =
        (pairQ ca cb aa ab (l0 ++ [m])).toNet := rfl
    rw [hpair, ih hacc' (l0 ++ [m])]
    simp [List.append_assoc]

theorem startNetQ_eq (l : List Msg) (hrl : ca.rlEnable = false)
    (hacc : ∀ (id : Nat) (p : Bytes), (id, p) ∈ l →
      ((State.init ca aa).send { id := id, size := p.length, src := p }).2 = none) :
    startNetQ ca cb aa ab l = some ((pairQ ca cb aa ab l).toNet, l.map fun _ => none) := by
  unfold startNetQ net0
  rw [toNet_init]
  have : ({ a := State.init ca aa, b := State.init cb ab } : Pair) = pairQ ca cb aa ab [] := by
    unfold pairQ
    rw [init_eq_mkA ca aa hrl, init_eq_mkB]
    rfl
  rw [this, sendAll_pairQ ca cb aa ab hacc []]
  rfl

theorem idleQ0 (l : List Msg) : QIdle ca cb aa ab [] l (pairQ ca cb aa ab l) :=
  ⟨{ txQueue := reqsOf ca l }, {}, rfl, rfl, rfl, rfl, ⟨rfl, rfl, rfl, rfl, rfl⟩, rfl, ⟨rfl, rfl, rfl, rfl⟩, rfl⟩

end start

/-! ## the bound is sharp -/

section sharp
variable (ca cb : Cfg) (aa ab : Addr) (dt : Nat)

theorem QLock.rxq {fcm : CanMsg} {del : List Bytes} {rest : List Msg} {id : Nat} {p : Bytes} {a : Abs} {q : Pair}
    (h : QLock ca cb aa ab dt fcm del rest id p a q) : q.b.rxQueue = del := by
  obtain ⟨x, y, -, hqb, -, -, -, hB⟩ := h
  rw [hqb]
  cases a with
  | I => exact absurd hB (by simp [LockBQ])
  | D => exact absurd hB (by simp [LockBQ])
  | W k => obtain ⟨t, hs, -⟩ := hB; exact hs.queue
  | T k j => obtain ⟨t, hs, -⟩ := hB; exact hs.queue

theorem QIdle.rxq {del : List Bytes} {l : List Msg} {q : Pair} (h : QIdle ca cb aa ab del l q) :
    q.b.rxQueue = del := by
  obtain ⟨x, y, -, hqb, -, -, -, -, hB, -⟩ := h
  rw [hqb]; exact hB.queue

/-- before `extraRounds l` further rounds have passed, not everything has been delivered -/
theorem rounds_after_notyet (hS : QSetting ca cb aa ab dt) (fcm : CanMsg) (hfc : FcFacts cb aa ab fcm) :
    ∀ (l : List Msg) (del : List Bytes) (q : Pair) (i : Nat), MsgOkB cb l → QAfter ca cb aa ab dt fcm del l q →
    i < extraRounds ca cb aa l → (Pair.rounds dt i q).1.b.rxQueue.length < del.length + l.length := by
  intro l
  induction l with
  | nil => intro del q i _ _ hi; simp [extraRounds] at hi
  | cons m rest ih =>
    intro del q i hok h hi
    obtain ⟨hm1, hm32, hmmax⟩ := hok m (List.mem_cons_self ..)
    by_cases hff : NeedsFF (TxCfg.of ca aa) m.2.length
    · simp only [QAfter, hff, if_true] at h
      simp only [extraRounds] at hi
      have hn := two_le_nFrames _ (valid_of ca aa hS.va) m.2 hff
      have hnD := absIter_not_done (decide (effOf ca cb = 0)) cb.blocksize (nFrames (TxCfg.of ca aa) m.2) (by omega)
      by_cases hlt : i < roundsFor ca cb aa m.2 - 1
      · obtain ⟨hl, -⟩ := rounds_midQ ca cb aa ab dt hS m.1 m.2 hm32 hmmax hff fcm hfc del rest hok.tail i (.W 1) q h
          (fun j _ hj2 => by
            rw [← absIter_succ_I _ _ _ j hn]
            exact hnD (j + 1) (by unfold roundsFor at hlt; omega))
        rw [QLock.rxq ca cb aa ab dt hl]
        simp
      · obtain ⟨i', rfl⟩ : ∃ i', i = (roundsFor ca cb aa m.2 - 1) + i' := ⟨i - (roundsFor ca cb aa m.2 - 1), by omega⟩
        obtain ⟨h1, -⟩ := rounds_msgQ ca cb aa ab dt hS m.1 m.2 hm32 hmmax hff fcm hfc del rest hok.tail q h
        have := ih _ _ i' hok.tail h1 (by omega)
        rw [rounds_add]
        simp only [List.length_append, List.length_cons, List.length_nil] at this ⊢
        omega
    · simp only [QAfter, hff, if_false] at h
      have e : extraRounds ca cb aa (m :: rest) = extraRounds ca cb aa rest := by
        simp only [extraRounds, roundsFor_sf ca cb aa m.2 hff]; omega
      rw [e] at hi
      have := ih _ _ i hok.tail h hi
      simp only [List.length_append, List.length_cons, List.length_nil] at this ⊢
      omega

/-- **The number of rounds is exact**: before `queueRounds l` rounds have passed, B has not yet delivered all the
    payloads. -/
theorem rounds_queue_notyet (hS : QSetting ca cb aa ab dt) (fcm : CanMsg) (hfc : FcFacts cb aa ab fcm)
    (del : List Bytes) (l : List Msg) (hok : MsgOkB cb l) (q : Pair) (h : QIdle ca cb aa ab del l q)
    (i : Nat) (hi : i < queueRounds ca cb aa l) :
    (Pair.rounds dt i q).1.b.rxQueue.length < del.length + l.length := by
  have hl : l ≠ [] := by intro h0; simp [queueRounds, h0] at hi
  unfold queueRounds at hi
  rw [if_neg hl] at hi
  cases i with
  | zero =>
    simp only [Pair.rounds]
    rw [QIdle.rxq ca cb aa ab h]
    cases l with
    | nil => exact absurd rfl hl
    | cons m rest => simp
  | succ i =>
    obtain ⟨h1, -⟩ := sim_startQ ca cb aa ab dt hS fcm hfc del l hl hok q h
    have := rounds_after_notyet ca cb aa ab dt hS fcm hfc l del _ i hok h1 (by omega)
    simpa [Pair.rounds] using this

end sharp

end Isotp.LockstepQ
