"""C12 - every send request terminates exactly once with the right outcome (logic level)."""
import gen
import ref
import trace
from props.base import PropBase
from props.C02 import tx_cfg
from props.C04 import adversarial_sender, judge_outcomes_exist


def judge_success_late(sc, lines_in, impl_out):
    """success only in or after the tx pass that produced the last frame; stop/reset => failure for active and queued"""
    cfg = trace.layer_cfg(sc)
    a = cfg['addr']
    prefix = ref.tx_prefix(ref.half(a, 'tx'))
    tc = tx_cfg(cfg)
    out = []
    payload, declared = {}, {}
    for op in sc['ops']:
        if op['op'] == 'send':
            if 'gen' in op:
                declared[op['id']] = op['gen'][0]
                payload[op['id']] = bytes(op['gen'][1])[:op['gen'][0]]
            else:
                declared[op['id']] = len(op['data'])
                payload[op['id']] = bytes(op['data'])
    pending = []      # accepted, no outcome yet (in acceptance order)
    data_frames = []  # all non-FC frames so far
    claims = []       # (id, number of data frames emitted when success was signalled, op index)
    for r in trace.records(lines_in, impl_out):
        if r.op == 'send' and r.result in ('ok', 'exc BlockingSendTimeout'):
            pending.append(int(r.toks[2]))
        evs = r.events
        for k, e in enumerate(evs):
            if e['k'] == 'tx':
                if ref.classify(e['data'][len(prefix):])[0] != 'fc':
                    data_frames.append(e['data'])
            elif e['k'] == 'done':
                if e['id'] in pending:
                    pending.remove(e['id'])
                if e['ok']:
                    # frames produced in the same pass directly after the outcome count as produced
                    extra = 0
                    for f in evs[k + 1:]:
                        if f['k'] == 'tx' and ref.classify(f['data'][len(prefix):])[0] != 'fc':
                            extra += 1
                            break
                        if f['k'] in ('rx', 'rxn', 'done'):
                            break
                    claims.append((e['id'], len(data_frames) + extra))
        if r.op in ('stop_sending',) and r.status.get('tx') not in (None, '0'):
            out.append(('abort', 'stop_sending() left the transmit state machine busy'))
        if r.op == 'reset':
            if pending:
                out.append(('abort', 'reset() left requests %s without an outcome' % pending))
            pending = []
    # check claims against the reference segmentations of successful requests, in order
    pos = 0
    succ = [c for c in claims]
    allf = data_frames
    # walk the successful requests in completion order; their frames appear in order in the stream (failed requests may emit prefixes in between)
    for rid, upto in succ:
        if declared[rid] == 0:
            continue
        pl = payload[rid]
        if len(pl) < declared[rid]:
            out.append(('success_late', 'request %d reported success although its generator ended early' % rid))
            continue
        exp = ref.segment(pl, prefix=prefix, **tc)
        # find exp as a contiguous block ending at or before `upto`
        found = False
        for start in range(pos, max(pos, upto - len(exp)) + 1):
            if allf[start:start + len(exp)] == exp and start + len(exp) <= upto:
                found = True
                pos = start + len(exp)
                break
        if not found:
            out.append(('success_late', 'request %d reported success before all %d frames of its segmentation were produced' % (rid, len(exp))))
    return out[:3]


def run_stop_window(sc):
    """one started layer whose reading thread is parked in a blocking rxfn (read_timeout 0.5 s); stop() is called right after a read began, and
    `delay` later - the worker thread has exited and reset the layer, stop() is still joining the reading thread - another thread calls send()"""
    import core
    import isotp
    import threading
    import time
    import queue
    core.time.perf_counter_ns = core.REAL_PERF_NS
    core.time.perf_counter = core.REAL_PERF
    q = queue.Queue()
    entered = [0.0]

    def rxfn(timeout):
        entered[0] = time.monotonic()
        try:
            return q.get(timeout=timeout) if timeout and timeout > 0 else q.get_nowait()
        except queue.Empty:
            return None
    addr = isotp.Address(isotp.AddressingMode.Normal_11bits, txid=0x123, rxid=0x456)
    L = isotp.TransportLayer(rxfn, lambda m: None, addr, None, {'blocking_send': bool(sc.get('blocking', True)), 'rx_flowcontrol_timeout': 20000},
                             read_timeout=0.5)
    L.start()
    res = {'outcome': None}
    try:
        # wait for a read that has just begun: the reading thread is then parked for the next ~0.5 s
        t_end = time.monotonic() + 3
        last = entered[0]
        while time.monotonic() < t_end and (entered[0] == last or time.monotonic() - entered[0] > 0.02):
            time.sleep(0.001)
        stop_done = [None]

        def do_stop():
            L.stop()
            stop_done[0] = time.monotonic()
        stopper = threading.Thread(target=do_stop, daemon=True)
        stopper.start()
        time.sleep(sc['delay'])
        in_window = stopper.is_alive()
        t0 = time.monotonic()
        try:
            if sc.get('blocking', True):
                L.send(bytes(100), send_timeout=2.5)
                res['outcome'] = 'returned'
            else:
                L.send(bytes(100))
                res['outcome'] = 'BlockingSendFailure'        # non-blocking: only the queue check below applies
        except Exception as e:
            res['outcome'] = type(e).__name__
        res['send_s'] = time.monotonic() - t0
        stopper.join(5)
        res['left_queued'] = (not L.tx_queue.empty()) or L.active_send_request is not None or L.transmitting()
        if not in_window or stop_done[0] is None or stop_done[0] - t0 < 0.05:
            # the machine was too slow for the experiment (stop() had already returned): nothing is claimed
            res = {'outcome': 'BlockingSendFailure', 'left_queued': False, 'skipped': True}
    finally:
        try:
            L.stop()
        except Exception:
            pass
    sc['_result'] = res
    return [], []


def run_repeated_abort(sc):
    """one STARTED layer, no peer (a multi-frame transmission waits for its Flow Control): send(); stop_sending(); send(); stop_sending(); ...
    Every stop_sending() must have aborted the transmission by the time it returns - the second one like the first (a completion flag left over
    from the first request must not let the second return before the worker thread has served it)."""
    import core
    import isotp
    import time
    import queue
    core.time.perf_counter_ns = core.REAL_PERF_NS
    core.time.perf_counter = core.REAL_PERF
    q = queue.Queue()

    def rxfn(timeout):
        try:
            return q.get(timeout=timeout) if timeout and timeout > 0 else q.get_nowait()
        except queue.Empty:
            return None
    addr = isotp.Address(isotp.AddressingMode.Normal_11bits, txid=0x123, rxid=0x456)
    L = isotp.TransportLayer(rxfn, lambda m: None, addr, None, {'rx_flowcontrol_timeout': 20000, 'blocksize': 0}, read_timeout=sc.get('read_timeout', 0.05))
    rounds = []
    L.start()
    try:
        for k in range(sc.get('rounds', 3)):
            if sc.get('rx'):
                # reception variant: a First Frame opens a reception, stop_receiving() must have closed it when it returns
                q.put(isotp.CanMessage(arbitration_id=0x456, data=bytes([0x10, 20, 1, 2, 3, 4, 5, 6])))
                t_end = time.monotonic() + 2
                while time.monotonic() < t_end and not L.is_rx_active():
                    time.sleep(0.002)
                began = L.is_rx_active()
                t0 = time.monotonic()
                L.stop_receiving()
                rounds.append({'began': began, 'still_active': L.is_rx_active(), 'dur': time.monotonic() - t0})
            else:
                L.send(bytes(20))
                t_end = time.monotonic() + 2
                while time.monotonic() < t_end and L.tx_state == L.TxState.IDLE:
                    time.sleep(0.002)
                began = L.tx_state != L.TxState.IDLE
                t0 = time.monotonic()
                L.stop_sending()
                rounds.append({'began': began, 'still_active': L.transmitting(), 'dur': time.monotonic() - t0})
            time.sleep(sc.get('pause', 0.05))
    finally:
        try:
            L.stop()
        except Exception:
            pass
    sc['_result'] = {'rounds': rounds}
    return [], []


class C12(PropBase):
    id = 'C12'
    address_change = 0.15
    rx_only_gaps = 0.1
    partial_passes = 0.25
    rx_only_passes = 0.4
    lean_modules = ['Isotp.Props.C12']
    theorems = []  # filled as proofs land
    rule = ('queues of {empty, single-frame, multi-frame, generator-backed (exact/short/long), rate-limited} payloads x peers {cooperative, '
            'Overflow, silent, Wait, late} x stop_sending()/reset() at random points x blocking_send on (send_timeout=0) / off, followed by a '
            'watchdog phase: every accepted request has exactly one outcome, success only once its last frame has been produced, stop/reset give '
            'failure; distinct = (cfg class, op shape)')
    assumptions = ['logic level: single thread, blocking_send exercised with send_timeout=0', 'blocking clause: real threads, sampled schedules with perturbation at the per-request synchronisation points (Event.set/clear, tx_queue.put)']
    quick_per_shard = 150
    thorough_per_shard = 5000

    def scenario(self, rng, tier):
        sc = adversarial_sender(rng, tier, gens=True, stops=True)
        if rng.random() < 0.2:
            for op in sc['ops']:
                if op['op'] == 'layer':
                    op['params']['blocking_send'] = True
        return sc

    # ---- the blocking-send clause needs real threads: a few scenarios per run use the C13 runner (two started peers, sender threads
    #      blocked in send(), schedule perturbation at the per-request synchronisation points) and judge what each caller observed
    threaded_quick = 1
    threaded_thorough = 40

    def generate(self, rng, tier, shard, nshards, scale):
        for sc in PropBase.generate(self, rng, tier, shard, nshards, scale):
            yield sc
        from props import C13 as c13
        n = self.threaded_quick if tier == 'quick' else self.threaded_thorough
        for _ in range(max(1, int(n * min(scale, 2)))):
            sc = c13.PROP.scenario(rng, tier)
            sc['transport'] = rng.choice(['queue_blocking', 'queue_blocking', 'queue_legacy'])
            sc['noise'] = False
            sc['perturb'] = rng.choice([0.3, 0.6, 0.9])
            for p in sc['params']:
                p['blocking_send'] = True
            sc['threaded'] = True
            r_var = rng.random()
            if r_var < 0.25:
                # stop() variant: the peer only listens, N_Bs is far away: callers block in send() on their multi-frame payloads;
                # stop() must complete the active AND the queued requests with failure: every blocked send() raises BlockingSendFailure
                # within moments (nobody stays blocked, nobody gets BlockingSendTimeout - send_timeout is 20 s)
                sc['abort_variant'] = True
                sc['stop_midflight'] = True
                sc['params'][1]['listen_mode'] = True
                sc['senders'][1] = []
                # one payload per caller thread (a send() issued AFTER stop() would legitimately wait for its send_timeout)
                sc['senders'][0] = [[(rid_, bytes([0, t_, k_]) + bytes(97)) for k_, (rid_, _p) in enumerate(items[:1])] for t_, items in enumerate(sc['senders'][0])]
            elif r_var < 0.55:
                # abort variant: the peer only listens (never answers a First Frame), N_Bs = 100 ms: every multi-frame blocking send() must
                # raise BlockingSendFailure (not BlockingSendTimeout: send_timeout is 20 s), every single-frame one must return normally
                sc['abort_variant'] = True
                sc['fc_timeout_ms'] = 100
                sc['params'][1]['listen_mode'] = True
                sc['senders'][1] = []
            sc['no_model'] = True      # the replay of threaded runs through the model is C13's correspondence; here only the callers' view is judged
            yield sc
        if shard == 0:
            # a send() that lands INSIDE stop(): after the worker thread has gone, while stop() still waits for the reading thread
            for k in range(2 if tier == 'quick' else 12):
                yield {'ops': [], 'stop_window': True, 'no_model': True, 'seed': 9000 + k, 'delay': [0.05, 0.15, 0.25][k % 3], 'blocking': k % 4 != 3}
        if shard == 1 % nshards:
            # stop_sending() / stop_receiving() called again and again on one started layer
            for k in range(2 if tier == 'quick' else 8):
                yield {'ops': [], 'repeated_abort': True, 'no_model': True, 'seed': 9500 + k, 'rx': k % 2 == 1, 'rounds': 3,
                       'read_timeout': [0.05, 0.2][k // 2 % 2], 'pause': [0.05, 0.3][k // 4 % 2]}

    def run_impl(self, sc):
        if sc.get('stop_window'):
            return run_stop_window(sc)
        if sc.get('repeated_abort'):
            return run_repeated_abort(sc)
        if sc.get('threaded'):
            from props import C13 as c13
            return c13.run_threaded(sc)
        return PropBase.run_impl(self, sc)

    def project(self, op_line, out_line):
        return trace.project_events(out_line, keep=('done', 'tx'), status_keys=('tr', 'q'), drop_times=True)

    def judge(self, sc, lines_in, impl_out):
        if sc.get('stop_window'):
            res = sc.get('_result') or {}
            out = []
            if res.get('outcome') != 'BlockingSendFailure':
                out.append(('blocking', 'send() accepted while stop() was still joining the reading thread: the caller got %s after %.2f s, expected '
                            'BlockingSendFailure as soon as stop() resets the layer (the request must be completed, with failure)' % (
                                res.get('outcome'), res.get('send_s', -1))))
            if res.get('left_queued'):
                out.append(('exactly_once', 'a request accepted by send() is still queued / active after stop() returned: it never completes'))
            return out
        if sc.get('repeated_abort'):
            out = []
            for k, r in enumerate((sc.get('_result') or {}).get('rounds', [])):
                if r['began'] and r['still_active']:
                    what = 'stop_receiving() returned after %.4f s while the reception is still open' if sc.get('rx') else \
                        'stop_sending() returned after %.4f s while the request it aborts is still being transmitted (no final outcome yet)'
                    out.append(('abort', ('call %d on the same started layer: ' % (k + 1)) + what % r['dur']))
            return out[:2]
        if sc.get('threaded'):
            res = sc.get('_result') or {}
            out = []
            if sc.get('abort_variant'):
                import ref
                cfg = sc['params'][0]
                a = sc['addrs'][0]
                pre = ref.tx_prefix(ref.half(a, 'tx'))
                by_id = res.get('send_exc_by_id') or {}
                for items in sc['senders'][0]:
                    for (rid, payload) in items:
                        nfr = len(ref.segment(bytes(payload), prefix=pre, txdl=cfg.get('tx_data_length', 8), minlen=cfg.get('tx_data_min_length'),
                                              padding=cfg.get('tx_padding')))
                        got = by_id.get(rid, by_id.get(str(rid)))
                        if sc.get('stop_midflight'):
                            if nfr > 1 and got != 'BlockingSendFailure':
                                out.append(('blocking', 'stop() while send() was blocked on a multi-frame payload: the caller got %s, expected BlockingSendFailure' % got))
                            continue
                        if nfr == 1 and got is not None:
                            out.append(('blocking', 'single-frame blocking send() raised %s although the frame was transmitted' % got))
                        if nfr > 1 and got != 'BlockingSendFailure':
                            out.append(('blocking', 'multi-frame blocking send() to a peer that never answers gave %s, expected BlockingSendFailure (N_Bs 100 ms, send_timeout 20 s)' % got))
                if res.get('stuck_senders'):
                    out.append(('blocking', 'caller threads still blocked in send() after the layer abandoned their requests: %s' % res['stuck_senders']))
                return out[:3]
            if res.get('send_exc'):
                out.append(('blocking', 'blocking send() raised %s although every payload was transmitted completely (peer cooperative, no abort)' % res['send_exc'][:3]))
            if res.get('stuck_senders'):
                out.append(('blocking', 'caller threads still blocked in send() after all transfers ended: %s' % res['stuck_senders']))
            for s_, d_ in ((0, 1), (1, 0)):
                sent = [p for items in sc['senders'][s_] for (_, p) in items]
                got = (res.get('received') or {}).get(d_, [])
                if sorted(got) != sorted(sent):
                    out.append(('blocking', 'send() returned normally for %d payloads of layer %d but the peer received %d' % (len(sent), s_, len(got))))
            return out[:3]
        return judge_outcomes_exist(sc, lines_in, impl_out) + judge_success_late(sc, lines_in, impl_out)

    def nontrivial_key(self, sc, lines_in, impl_out):
        if sc.get('stop_window'):
            return ('stop_window', sc['seed'], sc['delay'])
        if sc.get('repeated_abort'):
            return ('repeated_abort', sc['seed'], sc.get('rx'))
        if sc.get('threaded'):
            return ('threaded', sc['transport'], tuple(len(x) for x in sc['senders'][0]), tuple(len(x) for x in sc['senders'][1]), sc['perturb'], sc['seed'])
        shape = []
        for l, o in zip(lines_in, impl_out):
            t = l.split()[0]
            d = o.count('done:')
            if t in ('stop_sending', 'reset', 'send') or d:
                shape.append('%s%d' % (t[:3], d))
        if not any('done:' in o for o in impl_out):
            return None
        lens = tuple((op['gen'] if 'gen' in op else len(op['data'])) if not isinstance(op.get('gen'), tuple) else (op['gen'][0], len(op['gen'][1])) for op in sc['ops'] if op['op'] == 'send')
        return (lens, tuple(shape[:30]))

    def tally(self, dist, sc, lines_in, impl_out):
        if sc.get('repeated_abort'):
            dist['repeated_abort_scenarios'] = dist.get('repeated_abort_scenarios', 0) + 1
            return
        if sc.get('threaded'):
            dist['threaded_blocking_scenarios'] = dist.get('threaded_blocking_scenarios', 0) + 1
            dist['blocking_send_calls'] = dist.get('blocking_send_calls', 0) + sum(len(x) for s_ in (0, 1) for x in sc['senders'][s_])
            return
        PropBase.tally(self, dist, sc, lines_in, impl_out)
        for l in impl_out:
            for e in l.split('|')[0].split(';'):
                if e.startswith('done:'):
                    k = 'done:' + e[-1]
                    dist[k] = dist.get(k, 0) + 1


PROP = C12()
