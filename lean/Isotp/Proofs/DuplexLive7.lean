import Isotp.Proofs.DuplexLive6
/-
  C10, liveness half, part 7: the abstract duplex machine for blocksize 0 and separation time 0 on both sides, ANY
  frame counts ≥ 2: the exchange takes exactly three rounds (First Frames; Flow Controls and all Consecutive Frames;
  the Consecutive Frames left behind the Flow Control), with N_Cr covering one tick at A and two ticks at B and N_Bs
  covering one tick.
-/
namespace Isotp.DuplexLive
open Isotp

/-- frames `k, k+1, …, k+c-1` as abstract frames -/
def dats (k c : Nat) : List Fr := (List.range' k c).map Fr.dat

theorem dats_succ (k c : Nat) : dats k (c + 1) = .dat k :: dats (k + 1) c := by
  simp [dats, List.range'_succ]

theorem dats_zero (k : Nat) : dats k 0 = [] := rfl

theorem dats_length (k c : Nat) : (dats k c).length = c := by simp [dats]

section bs0
variable {P : Par} {R : Nat}

/-- TRANSMIT_CF with separation time 0 and no block limit: the tx loop sends the rest of the message -/
theorem txLoop_all (hz : P.z = true) (hb : P.bs' = 0) : ∀ (d k j r : Nat) (al : AL), k + d + 1 = P.n →
    al.tx = .T k j r → al.fc = false → al.pend = false → ∀ g, d + 2 ≤ g →
    absTxLoop P R g al = some ({ al with tx := .D, out := al.out ++ dats k (d + 1), done := true }, false) := by
  intro d
  induction d with
  | zero =>
    intro k j r al hk htx hf hp g hg
    obtain ⟨tx, fc, rx, pend, inbox, out, done⟩ := al
    simp only [] at htx hf hp
    subst htx hf hp
    obtain ⟨g, rfl⟩ : ∃ g', g = g' + 2 := ⟨g - 2, by omega⟩
    have hk' : k + 1 = P.n := by omega
    simp [absTxLoop, absTx, absMail, absFsm, hz, hk', pushOut, dats]
  | succ d ih =>
    intro k j r al hk htx hf hp g hg
    obtain ⟨tx, fc, rx, pend, inbox, out, done⟩ := al
    simp only [] at htx hf hp
    subst htx hf hp
    obtain ⟨g, rfl⟩ : ∃ g', g = g' + 1 := ⟨g - 1, by omega⟩
    have hk' : ¬ (k + 1 = P.n) := by omega
    have h1 := ih (k + 1) (j + 1) R
      { tx := .T (k + 1) (j + 1) R, fc := false, rx := rx, pend := false, inbox := inbox, out := out ++ [.dat k], done := done }
      (by omega) rfl rfl rfl g (by omega)
    simp only [absTxLoop, absTx, absMail, absFsm, hz, hk', hb, pushOut, Bool.false_eq_true, if_false, Bool.true_or,
      if_true, ne_eq, not_true_eq_false, false_and, Option.isSome_some]
    rw [h1]
    simp [dats_succ (k := k)]

/-- reception with blocksize 0 while the own transmission is not time driven: the rx loop reads all the Consecutive
    Frames to the end of the message -/
theorem rxLoop_all (hb : P.bs = 0) : ∀ (d i : Nat) (t : Option Nat) (al : AL), i + d + 2 = P.n' →
    al.rx = .S i t → cfOk P R al.rx = true → al.pend = false → al.fc = false → timeDriven al.tx = false →
    absRxLoop P R al (dats (i + 1) (d + 1)) = some ({ al with rx := .D, inbox := [] }, false) := by
  intro d
  induction d with
  | zero =>
    intro i t al hn hrx hc hp hf htd
    obtain ⟨tx, fc, rx, pend, inbox, out, done⟩ := al
    simp only [] at hrx hc hp hf htd
    subst hrx hp hf
    have hn' : i + 2 = P.n' := by omega
    have hcD : cfOk P R .D = true := rfl
    simp only [show dats (i + 1) (0 + 1) = [Fr.dat (i + 1)] from rfl, absRxLoop, absRx, hc, hn', hcD, htd,
      Bool.not_true, Bool.false_eq_true, if_false, if_true, ne_eq, not_true_eq_false]
  | succ d ih =>
    intro i t al hn hrx hc hp hf htd
    obtain ⟨tx, fc, rx, pend, inbox, out, done⟩ := al
    simp only [] at hrx hc hp hf htd
    subst hrx hp hf
    have hn' : ¬ (i + 2 = P.n') := by omega
    have h1 := ih (i + 1) (some R)
      { tx := tx, fc := false, rx := .S (i + 1) (some R), pend := false, inbox := dats (i + 1 + 1) (d + 1), out := out, done := done }
      (by omega) rfl (by simp [cfOk]) rfl rfl htd
    rw [dats_succ]
    simp only [absRxLoop, absRx, hc, hn', hb, htd, Bool.not_true, Bool.false_eq_true, if_false, ne_eq,
      not_true_eq_false, Nat.lt_irrefl, false_and]
    rw [h1]

/-- a sender waiting for a Flow Control that sits in its mailbox behaves like one that has just honoured it -/
theorem absTx_mail (k r : Nat) (al : AL) (htx : al.tx = .W k r) (hf : al.fc = true) (hp : al.pend = false)
    (hr : R - r ≤ P.kFc) : absTx P R al = absTx P R { al with tx := .T k 0 R, fc := false } := by
  obtain ⟨tx, fc, rx, pend, inbox, out, done⟩ := al
  simp only [] at htx hf hp
  subst htx hf hp
  simp [absTx, absMail, hr]

theorem absTxLoop_mail (k r : Nat) (al : AL) (htx : al.tx = .W k r) (hf : al.fc = true) (hp : al.pend = false)
    (hr : R - r ≤ P.kFc) (g : Nat) :
    absTxLoop P R (g + 1) al = absTxLoop P R (g + 1) { al with tx := .T k 0 R, fc := false } := by
  simp only [absTxLoop, absTx_mail k r al htx hf hp hr]

/-! ### the six passes -/

/-- round 1, first layer: the First Frame goes out -/
theorem pass1a (hn : 2 ≤ P.n) : absPass P 0 {} = some { tx := .W 1 0, out := [.dat 0] } := by
  have hn1 : ¬ (P.n = 1) := by omega
  obtain ⟨m, hm⟩ : ∃ m, P.n = m + 2 := ⟨P.n - 2, by omega⟩
  simp [absPass, absFuel, absProcLoop, absRxLoop, absTxLoop, absTx, absMail, absFsm, rxIdle, txNeed, cfOk, pushOut,
    hm]

/-- round 1, second layer: its First Frame goes out, the peer's First Frame is read, the Flow Control goes out -/
theorem pass1b (hn : 2 ≤ P.n) (hn' : 2 ≤ P.n') (o : List Fr) (dn : Bool) :
    absPass P 0 { inbox := [.dat 0], out := o, done := dn } =
      some { tx := .W 1 0, rx := .S 0 (some 0), out := [.dat 0, .fc] } := by
  have hn1' : ¬ (P.n' = 1) := by omega
  obtain ⟨m, hm⟩ : ∃ m, P.n = m + 2 := ⟨P.n - 2, by omega⟩
  simp [absPass, absFuel, absProcLoop, absRxLoop, absRx, absTxLoop, absTx, absMail, absFsm, rxIdle, txNeed, cfOk,
    pushOut, hm, hn1']

/-- one iteration of the outer loop that starts with the rx loop -/
theorem procLoop_step (f : Nat) (al al1 al2 : AL) (rr run : Bool)
    (hsw : (decide (al.tx = .I) && rxIdle al.rx) = false)
    (h1 : absRxLoop P R al al.inbox = some (al1, rr))
    (h2 : absTxLoop P R (txNeed P al1.tx) al1 = some (al2, run)) :
    absProcLoop P R (f + 1) al = if (rr || run) = true then absProcLoop P R f al2 else some al2 := by
  simp only [absProcLoop, hsw, Bool.not_false, if_true, h1, h2, Bool.false_or]

/-- round 2, first layer: the peer's First Frame is read, the Flow Control goes out, the peer's Flow Control is
    read, all Consecutive Frames go out -/
theorem pass2a (hz : P.z = true) (hb' : P.bs' = 0) (hn : 2 ≤ P.n) (hn' : 2 ≤ P.n') (hf : 1 ≤ P.kFc)
    (o : List Fr) (dn : Bool) :
    absPass P 1 { tx := .W 1 0, inbox := [.dat 0, .fc], out := o, done := dn } =
      some { tx := .D, rx := .S 0 (some 1), out := .fc :: dats 1 (P.n - 1), done := true } := by
  have hn1' : ¬ (P.n' = 1) := by omega
  obtain ⟨m, hm⟩ : ∃ m, P.n = m + 2 := ⟨P.n - 2, by omega⟩
  -- first iteration: First Frame read, Flow Control sent
  have r1 : absRxLoop P 1 { tx := .W 1 0, inbox := [.dat 0, .fc] } [.dat 0, .fc] =
      some ({ tx := .W 1 0, rx := .S 0 (some 1), pend := true, inbox := [.fc] }, false) := by
    simp [absRxLoop, absRx, cfOk, hn1']
  have t1 : absTxLoop P 1 (txNeed P (.W 1 0)) { tx := .W 1 0, rx := .S 0 (some 1), pend := true, inbox := [.fc] } =
      some ({ tx := .W 1 0, rx := .S 0 (some 1), inbox := [.fc], out := [.fc] }, true) := by
    simp [txNeed, absTxLoop, absTx, pushOut]
  -- second iteration: Flow Control read, all Consecutive Frames sent
  have r2 : absRxLoop P 1 { tx := .W 1 0, rx := .S 0 (some 1), inbox := [.fc], out := [.fc] } [.fc] =
      some ({ tx := .W 1 0, fc := true, rx := .S 0 (some 1), out := [.fc] }, false) := by
    simp [absRxLoop, absRx, cfOk]
  have t2 : absTxLoop P 1 (txNeed P (.W 1 0)) { tx := .W 1 0, fc := true, rx := .S 0 (some 1), out := [.fc] } =
      some ({ tx := .D, rx := .S 0 (some 1), out := .fc :: dats 1 (P.n - 1), done := true }, false) := by
    have hall := txLoop_all (R := 1) hz hb' m 1 0 1
      { tx := .T 1 0 1, rx := .S 0 (some 1), out := [.fc] } (by omega) rfl rfl rfl (m + 2) (by omega)
    have hmail := absTxLoop_mail (P := P) (R := 1) 1 0
      { tx := .W 1 0, fc := true, rx := .S 0 (some 1), out := [.fc] } rfl rfl rfl (by omega) (m + 1)
    have e : txNeed P (.W 1 0) = m + 1 + 1 := by simp only [txNeed, hm]; omega
    rw [e, hmail, hall]
    have e2 : P.n - 1 = m + 1 := by omega
    rw [e2]; rfl
  show absProcLoop P 1 (11 + 1) { tx := .W 1 0, inbox := [.dat 0, .fc] } = _
  rw [procLoop_step 11 _ _ _ _ _ rfl r1 t1]
  simp only [Bool.or_true, if_true]
  rw [show (11 : Nat) = 10 + 1 from rfl, procLoop_step 10 _ _ _ _ _ rfl r2 t2]
  rfl

/-- round 2, second layer: the peer's Flow Control is read, all Consecutive Frames go out — and `process()` returns;
    the peer's Consecutive Frames stay in the inbox -/
theorem pass2b (hz : P.z = true) (hb' : P.bs' = 0) (hn : 2 ≤ P.n) (hk : 1 ≤ P.kCf) (hf : 1 ≤ P.kFc)
    (c : Nat) (o : List Fr) (dn : Bool) :
    absPass P 1 { tx := .W 1 0, rx := .S 0 (some 0), inbox := .fc :: dats 1 c, out := o, done := dn } =
      some { tx := .D, rx := .S 0 (some 0), inbox := dats 1 c, out := dats 1 (P.n - 1), done := true } := by
  obtain ⟨m, hm⟩ : ∃ m, P.n = m + 2 := ⟨P.n - 2, by omega⟩
  have r1 : absRxLoop P 1 { tx := .W 1 0, rx := .S 0 (some 0), inbox := .fc :: dats 1 c } (.fc :: dats 1 c) =
      some ({ tx := .W 1 0, fc := true, rx := .S 0 (some 0), inbox := dats 1 c }, false) := by
    have : (1 ≤ P.kCf) = True := by simp [hk]
    simp [absRxLoop, absRx, cfOk, this]
  have t1 : absTxLoop P 1 (txNeed P (.W 1 0)) { tx := .W 1 0, fc := true, rx := .S 0 (some 0), inbox := dats 1 c } =
      some ({ tx := .D, rx := .S 0 (some 0), inbox := dats 1 c, out := dats 1 (P.n - 1), done := true }, false) := by
    have hall := txLoop_all (R := 1) hz hb' m 1 0 1
      { tx := .T 1 0 1, rx := .S 0 (some 0), inbox := dats 1 c } (by omega) rfl rfl rfl (m + 2) (by omega)
    have hmail := absTxLoop_mail (P := P) (R := 1) 1 0
      { tx := .W 1 0, fc := true, rx := .S 0 (some 0), inbox := dats 1 c } rfl rfl rfl (by omega) (m + 1)
    have e : txNeed P (.W 1 0) = m + 1 + 1 := by simp only [txNeed, hm]; omega
    rw [e, hmail, hall]
    have e2 : P.n - 1 = m + 1 := by omega
    rw [e2]; rfl
  show absProcLoop P 1 (2 * ((Fr.fc :: dats 1 c).length + 0) + 7 + 1) { tx := .W 1 0, rx := .S 0 (some 0), inbox := .fc :: dats 1 c } = _
  rw [procLoop_step _ _ _ _ _ _ rfl r1 t1]
  rfl

/-- round 3: the Consecutive Frames are read to the end of the message -/
theorem pass3 (hb : P.bs = 0) (hn' : 2 ≤ P.n') (t : Nat) (hk : 2 - t ≤ P.kCf) (o : List Fr) (dn : Bool) :
    absPass P 2 { tx := .D, rx := .S 0 (some t), inbox := dats 1 (P.n' - 1), out := o, done := dn } =
      some { tx := .D, rx := .D } := by
  obtain ⟨m, hm⟩ : ∃ m, P.n' = m + 2 := ⟨P.n' - 2, by omega⟩
  have e2 : P.n' - 1 = m + 1 := by omega
  have r1 : absRxLoop P 2 { tx := .D, rx := .S 0 (some t), inbox := dats 1 (P.n' - 1) } (dats 1 (P.n' - 1)) =
      some ({ tx := .D, rx := .D }, false) := by
    rw [e2]
    have := rxLoop_all (P := P) (R := 2) hb m 0 (some t) { tx := .D, rx := .S 0 (some t), inbox := dats 1 (m + 1) }
      (by omega) rfl (by simpa [cfOk] using hk) rfl rfl rfl
    simpa using this
  have t1 : absTxLoop P 2 (txNeed P .D) { tx := .D, rx := .D } = some ({ tx := .D, rx := .D }, false) := by
    simp [txNeed, absTxLoop, absTx, absMail, absFsm, pushOut]
  show absProcLoop P 2 (2 * ((dats 1 (P.n' - 1)).length + 0) + 7 + 1) { tx := .D, rx := .S 0 (some t), inbox := dats 1 (P.n' - 1) } = _
  rw [procLoop_step _ _ _ _ _ _ rfl r1 t1]
  rfl

end bs0

/-! ### the three rounds -/

/-- the parameters: blocksize 0 and separation time 0 on both sides -/
def bs0A (nA nB kA fA : Nat) : Par := { n := nA, n' := nB, bs := 0, bs' := 0, z := true, kCf := kA, kFc := fA }
def bs0B (nA nB kB fB : Nat) : Par := { n := nB, n' := nA, bs := 0, bs' := 0, z := true, kCf := kB, kFc := fB }

section three
variable (nA nB kA fA kB fB : Nat)

/-- after round 1: both First Frames are out, B has answered A's; B's frames are in A's inbox -/
def net1 : AN :=
  { a := { tx := .W 1 0, inbox := [.dat 0, .fc], out := [.dat 0] },
    b := { tx := .W 1 0, rx := .S 0 (some 0), out := [.dat 0, .fc] }, R := 1 }

/-- after round 2: everything has been sent; A's Consecutive Frames are still in B's inbox (behind the Flow Control
    B stopped at), B's are in A's -/
def net2 : AN :=
  { a := { tx := .D, rx := .S 0 (some 1), inbox := dats 1 (nB - 1), out := .fc :: dats 1 (nA - 1), done := true },
    b := { tx := .D, rx := .S 0 (some 0), inbox := dats 1 (nA - 1), out := dats 1 (nB - 1), done := true },
    R := 2, doneA := true, doneB := true }

/-- after round 3: both payloads delivered -/
def net3 : AN :=
  { a := { tx := .D, rx := .D }, b := { tx := .D, rx := .D }, R := 3, doneA := true, doneB := true }

theorem round1 (hA : 2 ≤ nA) (hB : 2 ≤ nB) :
    absRound (bs0A nA nB kA fA) (bs0B nA nB kB fB) {} = some net1 := by
  unfold absRound
  rw [pass1a (P := bs0A nA nB kA fA) hA]
  simp only [List.nil_append]
  rw [show ({ ({} : AN).b with inbox := [Fr.dat 0] } : AL) = { inbox := [.dat 0], out := [], done := false } from rfl,
    pass1b (P := bs0B nA nB kB fB) hB hA]
  rfl

theorem round2 (hA : 2 ≤ nA) (hB : 2 ≤ nB) (h3 : 1 ≤ fA) (h2 : 1 ≤ kB) (h4 : 1 ≤ fB) :
    absRound (bs0A nA nB kA fA) (bs0B nA nB kB fB) net1 = some (net2 nA nB) := by
  unfold absRound net1
  simp only []
  rw [pass2a (P := bs0A nA nB kA fA) rfl rfl hA hB h3]
  simp only [List.nil_append]
  have := pass2b (P := bs0B nA nB kB fB) rfl rfl hB h2 h4 (nA - 1) [.dat 0, .fc] false
  simp only [bs0A, bs0B] at this ⊢
  rw [this]
  rfl

theorem round3 (hA : 2 ≤ nA) (hB : 2 ≤ nB) (h1 : 1 ≤ kA) (h2 : 2 ≤ kB) :
    absRound (bs0A nA nB kA fA) (bs0B nA nB kB fB) (net2 nA nB) = some net3 := by
  unfold absRound net2
  simp only []
  have ha := pass3 (P := bs0A nA nB kA fA) rfl hB 1 (by show 2 - 1 ≤ kA; omega) (.fc :: dats 1 (nA - 1)) true
  simp only [bs0A] at ha ⊢
  rw [ha]
  simp only [List.append_nil]
  have hb := pass3 (P := bs0B nA nB kB fB) rfl hA 0 (by show 2 - 0 ≤ kB; omega) (dats 1 (nB - 1)) true
  simp only [bs0B] at hb ⊢
  rw [hb]
  rfl

/-- **Blocksize 0, separation time 0 on both sides, any two segmented messages**: the abstract duplex machine is final
    after exactly three rounds, with N_Cr covering one tick at A and two at B, N_Bs one tick. -/
theorem absDone_bs0 (hA : 2 ≤ nA) (hB : 2 ≤ nB) (h1 : 1 ≤ kA) (h2 : 2 ≤ kB) (h3 : 1 ≤ fA) (h4 : 1 ≤ fB) :
    absDone (bs0A nA nB kA fA) (bs0B nA nB kB fB) 3 = true := by
  unfold absDone
  simp only [absRounds, round1 nA nB kA fA kB fB hA hB, round2 nA nB kA fA kB fB hA hB h3 (by omega) h4,
    round3 nA nB kA fA kB fB hA hB h1 h2]
  rfl

/-- … and not before: after two rounds Consecutive Frames are still in both inboxes -/
theorem absDone_bs0_not_before (hA : 2 ≤ nA) (hB : 2 ≤ nB) (h2 : 1 ≤ kB) (h3 : 1 ≤ fA) (h4 : 1 ≤ fB) :
    absDone (bs0A nA nB kA fA) (bs0B nA nB kB fB) 2 = false := by
  unfold absDone
  simp only [absRounds, round1 nA nB kA fA kB fB hA hB, round2 nA nB kA fA kB fB hA hB h3 h2 h4]
  rfl

end three

end Isotp.DuplexLive
