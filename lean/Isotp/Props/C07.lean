import Isotp.Process
/-
  C07 — property theorems (see DESIGN.md §6). Helper lemmas live in Isotp/Proofs.
-/
namespace Isotp.C07
open Isotp State

end Isotp.C07
