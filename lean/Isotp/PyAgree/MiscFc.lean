import Isotp.PyAgree.MiscLemmas
/-! Source agreement: `PDU.craft_flow_control_data` = `fcData` (for all inputs). -/
namespace Isotp.PyAgree
open Isotp Isotp.Py

/-! ### 3. `PDU.craft_flow_control_data` -/

def fcEnv (s b st : Nat) : Env := fun k =>
  match k with
  | "flow_status" => some (pint s)
  | "blocksize" => some (pint b)
  | "stmin" => some (pint st)
  | _ => constEnv k

/-- `0x30 | (flow_status & 0xF)` (Python precedence: `&` binds tighter than `|`) is `0x30 + flow_status % 16` -/
theorem or_30_and_f (s : Nat) : 48 ||| (s &&& 15) = 48 + s % 16 := by
  rw [and_f]
  have h : ∀ k, k < 16 → 48 ||| k = 48 + k := by decide
  exact h _ (Nat.mod_lt _ (by decide))

theorem craft_flow_control_data_agrees (s b st : Nat) :
    retOf (fcEnv s b st) Src.PDU_craft_flow_control_data = .ok (.bytes (fcData s b st)) := by
  have h1 : 0 ≤ 48 + (s : Int) % 16 := by omega
  have h2 : 48 + (s : Int) % 16 ≤ 255 := by omega
  have h3 : 0 ≤ (b : Int) % 256 := by omega
  have h4 : (b : Int) % 256 ≤ 255 := by omega
  have h5 : 0 ≤ (st : Int) % 256 := by omega
  have h6 : (st : Int) % 256 ≤ 255 := by omega
  simp [retOf, runFn, Src.PDU_craft_flow_control_data, execBlock, execStmt, eval, evalArgs, fcEnv, Int.natCast_nonneg,
    builtin_bytes_list, bytesOfScs, or_30_and_f, and_ff, Sc.isInt, Sc.intVal, PyVal.isInt, PyVal.intVal, h1, h2, h3, h4, h5, h6]
  have e1 : (48 + (s : Int) % 16).toNat = 48 + s % 16 := by omega
  have e2 : ((b : Int) % 256).toNat = b % 256 := by omega
  have e3 : ((st : Int) % 256).toNat = st % 256 := by omega
  rw [e1, e2, e3]
  rfl


end Isotp.PyAgree

#print axioms Isotp.PyAgree.craft_flow_control_data_agrees
