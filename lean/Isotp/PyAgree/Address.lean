import Isotp.PyAgree.EvalLemmas
namespace Isotp.PyAgree
open Isotp Isotp.Py

theorem is_for_me_normal_fixed_agrees (h : Half) (hm : h.mode = .nf29) (m : CanMsg) :
    retOf (msgEnv m (halfEnv h)) Src.Address_p_is_for_me_normal_fixed = .ok (pbool (h.isForMe m)) := by
  cases hx : m.ext <;> cases hs : h.sa <;> cases ht : h.ta <;>
  simp [retOf, runFn, Src.Address_p_is_for_me_normal_fixed, execBlock, execStmt, eval, evalArgs, msgEnv, halfEnv, hm, hx, hs, ht,
    Int.natCast_nonneg, and_mask2816, and_ff, and_ff00_shr, Half.isForMe, Mode.is29, optPV]
  all_goals grind

end Isotp.PyAgree
