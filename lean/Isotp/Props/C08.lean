import Isotp.Process
/-
  C08 — property theorems (see DESIGN.md §6). Helper lemmas live in Isotp/Proofs.
-/
namespace Isotp.C08
open Isotp State

end Isotp.C08
