import Isotp.Threaded
import Isotp.Net
/-
  C13, network level — definitions (this file imports model files only, so that it can be used together with either
  proof library: `Proofs/Threaded.lean` (C13) or `Proofs/NetSafety.lean` (C01net); the two cannot be imported together).

  `TNet`: two *threaded* transport layers (`TL`, Isotp/Threaded.lean), both started, wired back to back through two
  python-can style queues: the frames the logic layer of peer `b` hands to `txfn` during a worker iteration are put, in
  order, on the `bus` of the OTHER peer (the FIFO its relay thread reads with `rxfn`; no loss). Anybody else may put
  frames on either bus at any time (`noise`).

  A thread schedule is an arbitrary `List TStep`: user threads calling `send` / `recv` on either peer, iterations of
  the two relay threads and of the two worker threads, foreign frames appearing on a bus, time passing. Several user
  threads on one peer = any interleaving of their `userSend` steps (each thread's program is a sub-list of the
  schedule).

  Clock and history are instrumented exactly as in `Net.onLayer`: a thread that enters the logic layer of a peer sees
  the global clock (`now`), the events of the operation are collected (oldest first) in the observation of the step,
  the frames among them are routed to the peer's bus.
-/
namespace Isotp

structure TNet where
  p0  : TL
  p1  : TL
  now : Nat := 0
  deriving Inhabited

/-- one atomic step of one thread of the two-peer system (`false` = peer 0, `true` = peer 1) -/
inductive TStep where
  | userSend (b : Bool) (a : State.SendArgs)   -- a user thread calls `send` on peer `b`
  | userRecv (b : Bool)                        -- a user thread calls `recv` on peer `b`
  | relay (b : Bool)                           -- one iteration of the relay thread of peer `b` (`TL.relayStep`)
  | worker (b : Bool)                          -- one iteration of the worker thread of peer `b` (`TL.workerStep`)
  | noise (b : Bool) (m : CanMsg)              -- somebody else puts a frame on the bus peer `b` reads
  | tick (dt : Nat)                            -- time passes
  deriving Repr

/-- what is observed of one step: the result of the call and the events of the logic layer (oldest first) -/
inductive TEv where
  | sent (b : Bool) (a : State.SendArgs) (res : Option PyExc) (evs : List Ev)
  | worked (b : Bool) (moved : Nat) (evs : List Ev)    -- `moved` frames taken out of the relay queue
  | recvd (b : Bool) (res : Option Bytes) (evs : List Ev)
  | silent
  deriving Repr

/-- events of the logic layer of peer `b` in one observation -/
def TEv.evsOf (b : Bool) : TEv → List Ev
  | .sent b' _ _ evs => if b' = b then evs else []
  | .worked b' _ evs => if b' = b then evs else []
  | .recvd b' _ evs => if b' = b then evs else []
  | .silent => []

def TStep.isNoise : TStep → Bool
  | .noise _ _ => true
  | _ => false

namespace TNet

def get (d : TNet) (b : Bool) : TL := match b with | false => d.p0 | true => d.p1

def set (d : TNet) (b : Bool) (t : TL) : TNet :=
  match b with | false => { d with p0 := t } | true => { d with p1 := t }

/-- both peers constructed and started, nothing on either bus, clock 0 -/
def init (ca cb : Cfg) (aa ab : Addr) : TNet :=
  { p0 := (TL.init ca aa).start.1, p1 := (TL.init cb ab).start.1 }

/-- a thread enters the logic layer of peer `b`: it sees the global clock; the history of the operation starts empty
    (as `Net.onLayer`) -/
def enter (d : TNet) (b : Bool) : TL :=
  { d.get b with core := { (d.get b).core with now := d.now, log := [] } }

/-- the thread leaves the logic layer of peer `b` (now in state `t`): the events of the operation are returned oldest
    first, the frames handed to `txfn` are appended to the bus of the other peer, the clock follows the layer's -/
def leave (d : TNet) (b : Bool) (t : TL) : TNet × List Ev :=
  let evs := t.core.log.reverse
  let peer := d.get (!b)
  let d := (d.set b { t with core := { t.core with log := [] } }).set (!b) { peer with bus := peer.bus ++ Net.txOf evs }
  ({ d with now := t.core.now }, evs)

/-- number of frames the next worker iteration of peer `b` takes out of the relay queue (those in front of the first
    wake-up token) -/
def movedBy (d : TNet) (b : Bool) : Nat := (TL.takeUntilNone (d.get b).relayQ).1.length

def step (d : TNet) : TStep → TNet × TEv
  | .userSend b a =>
    let r := (d.enter b).send a
    let o := d.leave b r.1
    (o.1, .sent b a r.2 o.2)
  | .userRecv b =>
    let r := (d.enter b).recv
    let o := d.leave b r.1
    (o.1, .recvd b r.2 o.2)
  | .relay b => (d.set b (d.get b).relayStep, .silent)
  | .worker b =>
    let o := d.leave b (d.enter b).workerStep
    (o.1, .worked b (d.movedBy b) o.2)
  | .noise b m => (d.set b { d.get b with bus := (d.get b).bus ++ [m] }, .silent)
  | .tick dt => ({ d with now := d.now + dt }, .silent)

/-- run a schedule; the observations are collected in order -/
def runFrom (d : TNet) (tr : List TEv) (sched : List TStep) : TNet × List TEv :=
  sched.foldl (fun acc s => ((step acc.1 s).1, acc.2 ++ [(step acc.1 s).2])) (d, tr)

def run (d : TNet) (sched : List TStep) : TNet × List TEv := runFrom d [] sched

/-! ### observations -/

/-- all the events of the logic layer of peer `b`, oldest first -/
def logOf (b : Bool) (tr : List TEv) : List Ev := (tr.map (TEv.evsOf b)).flatten

/-- payloads of the `send` calls on peer `b` that queued their request (everything but `ValueError`), in the order in
    which the calls took effect -/
def sentOf (b : Bool) (tr : List TEv) : List Bytes :=
  tr.filterMap fun e => match e with
    | .sent b' a res _ => if b' = b ∧ (res != some .ValueError) = true then some a.src else none
    | _ => none

/-- payloads returned by the `recv` calls on peer `b`, in order -/
def recvdOf (b : Bool) (tr : List TEv) : List Bytes :=
  tr.filterMap fun e => match e with
    | .recvd b' (some p) _ => if b' = b then some p else none
    | _ => none

/-- payloads accepted by `send()` on peer `b` during the run, in linearisation order -/
def sent (b : Bool) (r : TNet × List TEv) : List Bytes := sentOf b r.2

/-- payloads peer `b` has handed to its user: returned by `recv()`, in order, then what is still in its rx queue -/
def got (b : Bool) (r : TNet × List TEv) : List Bytes := recvdOf b r.2 ++ (r.1.get b).core.rxQueue

/-- all the events of the logic layer of peer `b` during the run -/
def events (b : Bool) (r : TNet × List TEv) : List Ev := logOf b r.2

/-- errors handed to the error handler of peer `b` during the run -/
def errors (b : Bool) (r : TNet × List TEv) : List Err :=
  (events b r).filterMap fun e => match e with | .err _ x => some x | _ => none

def isTimeoutErr : Ev → Bool
  | .err _ .ConsecutiveFrameTimeout => true
  | .err _ .FlowControlTimeout => true
  | _ => false

/-- peer `b` reported no `ConsecutiveFrameTimeoutError` / `FlowControlTimeoutError` -/
def noTimeout (b : Bool) (r : TNet × List TEv) : Bool := (events b r).all (fun e => !isTimeoutErr e)

/-! ### admissible schedules -/

/-- address / configuration of peer `b` -/
def addrOf (aa ab : Addr) (b : Bool) : Addr := match b with | false => aa | true => ab
def cfgOf (ca cb : Cfg) (b : Bool) : Cfg := match b with | false => ca | true => cb

/-- admissible step: `send` is called with a bytes payload (`size = len(data)`), non-empty, below 2^32 bytes and not
    longer than the peer's `max_frame_size` (as `C01net.opOk`); a noise frame is a frame that the address filter of the
    peer that reads it rejects -/
def stepOk (ca cb : Cfg) (aa ab : Addr) : TStep → Bool
  | .userSend b a => decide (a.size = a.src.length) && decide (1 ≤ a.src.length) && decide (a.src.length < 4294967296) &&
      (b || decide (a.src.length ≤ cb.maxFrameSize)) && (!b || decide (a.src.length ≤ ca.maxFrameSize))
  | .noise b m => !(addrOf aa ab b).rx.isForMe m
  | _ => true

/-- a thread schedule: any list of steps, the `send`s and the noise frames admissible -/
def Sched (ca cb : Cfg) (aa ab : Addr) (sched : List TStep) : Prop := ∀ s ∈ sched, stepOk ca cb aa ab s = true

instance (ca cb : Cfg) (aa ab : Addr) (sched : List TStep) : Decidable (Sched ca cb aa ab sched) := by
  unfold Sched; infer_instance

/-- no foreign frame is put on either bus -/
def NoNoise (sched : List TStep) : Prop := ∀ s ∈ sched, TStep.isNoise s = false

instance (sched : List TStep) : Decidable (NoNoise sched) := by unfold NoNoise; infer_instance

/-! ### user threads -/

/-- `send(a)` on a layer with configuration `c` and address `ad` queues its request (does not raise `ValueError`);
    decided by the arguments, the configuration and the address alone -/
def accepts (c : Cfg) (ad : Addr) (a : State.SendArgs) : Bool := ((State.init c ad).send a).2 != some .ValueError

/-- the payloads a user thread of peer `b` gets accepted, in its program order (`prog` = the steps of that thread) -/
def programOf (c : Cfg) (ad : Addr) (b : Bool) (prog : List TStep) : List Bytes :=
  prog.filterMap fun s => match s with
    | .userSend b' a => if b' = b ∧ accepts c ad a = true then some a.src else none
    | _ => none

/-- the frames in flight towards peer `b`, oldest first: relay queue (tokens skipped), then bus -/
def inFlight (d : TNet) (b : Bool) : List CanMsg := (d.get b).relayQ.filterMap id ++ (d.get b).bus

end TNet
end Isotp
