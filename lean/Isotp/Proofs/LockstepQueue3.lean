import Isotp.Proofs.LockstepQueue2
/-
  C01, liveness half for any number of queued messages, part 3: the lockstep invariant with a queue, one round at a
  time.

  * `QSetting` : the hypotheses that do not depend on the payload (`Scenario` without `h32`, `hmax`).
  * `QIdle del l q` : both layers idle, links empty, `del` in B's rx queue, the requests of `l` in A's tx queue.
    `QLock del rest id p a q` : the transfer of `(id, p)` is in abstract state `a` (`W k` / `T k j` of `Lockstep.Abs`),
    `del` delivered before, the requests of `rest` still queued.
    `QAfter del l q` : the state right after a round in which the chain over `l` was started: every leading Single
    Frame message of `l` is already delivered, the first segmented one is in state `W 1` (recursive in `l`).
  * `sim_startQ` : a round from `QIdle del l` (`l ≠ []`) ends in `QAfter del l`.
    `sim_WQ`, `sim_TQ` : a round from `QLock … a` ends in `QLock … (absStep a)`, or — when the abstract step completes
    the message — in `QAfter (del ++ [p]) rest`: the next messages are started IN THE SAME ROUND.
    `sim_idleQ` : a round from `QIdle del []` changes nothing.
    Each with the events of the round: no error event, and exactly which requests were completed.
-/
namespace Isotp.LockstepQ
open Isotp Isotp.State Isotp.Spec Isotp.Proofs Isotp.Lockstep

/-! ## `complete(ok)` notifications of an event list (oldest first) -/

def doneEvs (evs : List Ev) : List (Nat × Bool) :=
  evs.filterMap fun e => match e with | .done i b => some (i, b) | _ => none

theorem doneEvs_reverse (lg : List Ev) : doneEvs lg.reverse = donesOf lg := rfl

theorem doneEvs_append (a b : List Ev) : doneEvs (a ++ b) = doneEvs a ++ doneEvs b := by
  simp [doneEvs, List.filterMap_append]

theorem doneEvs_nil : doneEvs [] = [] := rfl

section sim
variable (ca cb : Cfg) (aa ab : Addr) (dt : Nat)

/-- The hypotheses of the queue theorems that do not depend on the payloads: as `Lockstep.Scenario`. -/
structure QSetting : Prop where
  va      : ca.valid = true
  vb      : cb.valid = true
  listenB : cb.listen = false
  wfA     : aa.tx.txWf = true
  wfB     : ab.tx.txWf = true
  mirAB   : ab.rx = Spec.mirror aa.tx
  mirBA   : aa.rx = Spec.mirror ab.tx
  stmin   : validStmin cb.stmin = true
  sep     : effOf ca cb < dt
  tFc     : dt ≤ ca.tFc
  tCf     : gapOf ca cb dt ≤ cb.tCf

theorem QSetting.scen (hS : QSetting ca cb aa ab dt) (p : Bytes) (h32 : p.length < 4294967296)
    (hmax : p.length ≤ cb.maxFrameSize) : Scenario ca cb aa ab p dt :=
  ⟨hS.va, hS.vb, hS.listenB, hS.wfA, hS.wfB, hS.mirAB, hS.mirBA, hS.stmin, h32, hmax, hS.sep, hS.tFc, hS.tCf⟩

theorem QSetting.of_scen {p : Bytes} (h : Scenario ca cb aa ab p dt) : QSetting ca cb aa ab dt :=
  ⟨h.va, h.vb, h.listenB, h.wfA, h.wfB, h.mirAB, h.mirBA, h.stmin, h.sep, h.tFc, h.tCf⟩

theorem MsgOkB.toA {l : List Msg} (h : MsgOkB cb l) : MsgOkA l := fun m hm => ⟨(h m hm).1, (h m hm).2.1⟩

/-! ## the invariants -/

/-- the sender at the beginning of a round, transfer of `(id, p)` in abstract state `W k` / `T k j`, queue `Q` -/
def LockAQ (id : Nat) (p : Bytes) (Q : List Req) (fcm : CanMsg) (now : Nat) : Abs → AP → Prop
  | .W k, x => 1 ≤ k ∧ x.txState = .waitFc ∧ (∃ tF, x.timerFc = some tF ∧ now ≤ tF + dt) ∧
      x.active = some (reqAt ca id p (carried (TxCfg.of ca aa) p.length k)) ∧
      carried (TxCfg.of ca aa) p.length k < p.length ∧ x.txSeq = k % 16 ∧ x.txQueue = Q ∧
      x.inbox = [(0, fcm)] ∧ SyncW cb.blocksize k
  | .T k j, x => TCondQ ca aa id p cb.blocksize Q x k ∧ x.txBlockCnt = j ∧
      (∃ tS, x.timerStmin = { start := some tS, timeout := effOf ca cb } ∧ tS + effOf ca cb < now) ∧
      x.inbox = [] ∧ SyncT cb.blocksize k j
  | _, _ => False

/-- the receiver at the beginning of a round, `del` delivered before -/
def LockBQ (p : Bytes) (del : List Bytes) (now : Nat) : Abs → BP → Prop
  | .W k, y => ∃ t, SessAtQ ca aa del p y (k - 1) t ∧ now ≤ t + dt ∧ y.inbox = []
  | .T k _, y => ∃ t, SessAtQ ca aa del p y (k - 1) t ∧ now ≤ t + gapOf ca cb dt ∧ y.inbox = []
  | _, _ => False

/-- the transfer of `(id, p)` is in abstract state `a`; `del` delivered before, the requests of `rest` queued -/
def QLock (fcm : CanMsg) (del : List Bytes) (rest : List Msg) (id : Nat) (p : Bytes) (a : Abs) (q : Pair) : Prop :=
  ∃ x y, q.a = mkA ca aa x ∧ q.b = mkB cb ab y ∧ q.ab = [] ∧ q.ba = [] ∧
    LockAQ ca cb aa dt id p (reqsOf ca rest) fcm q.now a x ∧ LockBQ ca cb aa dt p del q.now a y

/-- both layers idle, links and inboxes empty; `del` delivered, the requests of `l` queued -/
def QIdle (del : List Bytes) (l : List Msg) (q : Pair) : Prop :=
  ∃ x y, q.a = mkA ca aa x ∧ q.b = mkB cb ab y ∧ q.ab = [] ∧ q.ba = [] ∧
    IdleA (reqsOf ca l) x ∧ x.inbox = [] ∧ IdleB del y ∧ y.inbox = []

/-- the state after a round in which the chain over `l` was started -/
def QAfter (fcm : CanMsg) : List Bytes → List Msg → Pair → Prop
  | del, [], q => QIdle ca cb aa ab del [] q
  | del, m :: rest, q =>
    if NeedsFF (TxCfg.of ca aa) m.2.length then QLock ca cb aa ab dt fcm del rest m.1 m.2 (.W 1) q
    else QAfter fcm (del ++ [m.2]) rest q

/-- what a round reports: no error event on either side, the requests completed in it, the clock -/
def RoundOkQ (q : Pair) (ds : List (Nat × Bool)) : Prop :=
  NoErr (q.round dt).2.1 ∧ NoErr (q.round dt).2.2 ∧ doneEvs (q.round dt).2.1 = ds ∧
  (q.round dt).1.now = q.now + dt

theorem ChainPostA_relog : ∀ (l : List Msg) (x : AP) (lg : List Ev), ChainPostA ca aa l x →
    ChainPostA ca aa l { x with log := lg } := by
  intro l
  induction l with
  | nil => intro x lg h; exact ⟨h.st, h.txq, h.lf, h.tf, h.act⟩
  | cons m rest ih =>
    intro x lg h
    by_cases hff : NeedsFF (TxCfg.of ca aa) m.2.length
    · simp only [ChainPostA, hff, if_true] at h ⊢
      exact ⟨h.st, h.tf, h.act, h.more, h.seq, h.txq, h.lf⟩
    · simp only [ChainPostA, hff, if_false] at h ⊢
      exact ih x lg h

/-- the network after a round in which A ended its pass as the chain over `l` says and B received that chain -/
theorem after_assemble (fcm : CanMsg) (now e1 e2 : Nat) : ∀ (l : List Msg) (del : List Bytes) (xa : AP) (yb : BP),
    ChainPostA ca aa l xa → ChainPostB ca aa fcm now [] del l yb → xa.inbox = [] → yb.inbox = [] → xa.now = now →
    QAfter ca cb aa ab dt fcm del l
      { a := mkA ca aa { xa with log := [], inbox := xa.inbox ++ toInbox (txsOf yb.log) },
        b := mkB cb ab { yb with log := [] }, ab := [], ba := [], now := now + dt, ea := e1, eb := e2 } := by
  intro l
  induction l with
  | nil =>
    intro del xa yb hA hB hia hib hn
    obtain ⟨hB1, hB2⟩ := hB
    refine ⟨_, _, rfl, rfl, rfl, rfl, ⟨hA.st, hA.txq, hA.lf, hA.tf, hA.act⟩, ?_, ⟨hB1.st, hB1.pend, hB1.queue, hB1.timer⟩, hib⟩
    show xa.inbox ++ toInbox (txsOf yb.log) = []
    rw [hia, hB2]; rfl
  | cons m rest ih =>
    intro del xa yb hA hB hia hib hn
    by_cases hff : NeedsFF (TxCfg.of ca aa) m.2.length
    · simp only [ChainPostA, hff, if_true] at hA
      simp only [ChainPostB, hff, if_true] at hB
      simp only [QAfter, hff, if_true]
      obtain ⟨hB1, hB2⟩ := hB
      refine ⟨_, _, rfl, rfl, rfl, rfl, ?_, ?_⟩
      · refine ⟨Nat.le_refl 1, hA.st, ⟨xa.now, hA.tf, ?_⟩, hA.act, hA.more, hA.seq, hA.txq, ?_, fun _ => ⟨0, by omega⟩⟩
        · show now + dt ≤ xa.now + dt
          rw [hn]; exact Nat.le_refl _
        · show xa.inbox ++ toInbox (txsOf yb.log) = _
          rw [hia, hB2]; rfl
      · refine ⟨now, ⟨hB1.sess.congr ca aa m.2 rfl rfl rfl rfl rfl rfl, hB1.pend, hB1.queue, hB1.timer⟩,
          Nat.le_refl _, hib⟩
    · simp only [ChainPostA, hff, if_false] at hA
      simp only [ChainPostB, hff, if_false] at hB
      simp only [QAfter, hff, if_false]
      exact ih _ xa yb hA hB hia hib hn

theorem toInbox_append (a b : List CanMsg) : toInbox (a ++ b) = toInbox a ++ toInbox b := by
  simp [toInbox]

/-! ## the rounds -/

/-- a round of two idle layers with nothing queued: nothing happens -/
theorem sim_idleQ (del : List Bytes) (q : Pair) (h : QIdle ca cb aa ab del [] q) :
    QIdle ca cb aa ab del [] (q.round dt).1 ∧ RoundOkQ dt q [] := by
  obtain ⟨x, y, hqa, hqb, hab, hba, hIA, hib, hIB, hyib⟩ := h
  have hA := passA_idleQ ca aa { x with now := q.now, log := [] } ⟨hIA.st, hIA.txq, hIA.lf, hIA.tf, hIA.act⟩ hib
  have hB := passB_quiet cb ab
    { y with now := q.now, log := [], inbox := y.inbox ++ toInbox (txsOf [Ev.rxNone q.now]) }
    (by show y.inbox ++ _ = []; rw [hyib]; rfl) (Or.inl hIB.timer) hIB.pend
  obtain ⟨e1, e2, e3⟩ := round_eq ca cb aa ab dt q x _ y _ hqa hqb hab hba hA rfl hB rfl
  refine ⟨⟨_, _, by rw [e1], by rw [e1], by rw [e1], by rw [e1], ?_, ?_, ?_, ?_⟩, ?_, ?_, ?_, ?_⟩
  · exact ⟨hIA.st, hIA.txq, hIA.lf, hIA.tf, hIA.act⟩
  · show x.inbox ++ _ = []; rw [hib]; rfl
  · exact ⟨hIB.st, hIB.pend, hIB.queue, hIB.timer⟩
  · show y.inbox ++ _ = []; rw [hyib]; rfl
  · rw [e2]; exact NoErr_reverse (NoErr_cons NoErr_nil (by intro t e h; cases h))
  · rw [e3]; exact NoErr_reverse (NoErr_cons NoErr_nil (by intro t e h; cases h))
  · rw [e2]; rfl
  · rw [e1]

/-- the first round with the requests of `l` queued: the chain goes out and is received -/
theorem sim_startQ (hS : QSetting ca cb aa ab dt) (fcm : CanMsg) (hfc : FcFacts cb aa ab fcm)
    (del : List Bytes) (l : List Msg) (hl : l ≠ []) (hok : MsgOkB cb l) (q : Pair)
    (h : QIdle ca cb aa ab del l q) :
    QAfter ca cb aa ab dt fcm del l (q.round dt).1 ∧ RoundOkQ dt q (chainDones ca aa l) := by
  obtain ⟨x, y, hqa, hqb, hab, hba, hIA, hib, hIB, hyib⟩ := h
  have htFc0 : ca.tFc ≠ 0 := by have := hS.tFc; have := hS.sep; omega
  have htCf0 : cb.tCf ≠ 0 := by
    have := hS.tCf; have := hS.sep; have := gapOf_ge ca cb dt; omega
  have hI0 : IdleA (reqsOf ca l) { x with now := q.now, log := [] } := ⟨hIA.st, hIA.txq, hIA.lf, hIA.tf, hIA.act⟩
  have hA := passA_startQ ca aa hS.va htFc0 l hl { x with now := q.now, log := [] } hI0 (MsgOkB.toA cb hok) hib
  obtain ⟨c1, c2, c3, c4, c5, c6⟩ := chainA_spec ca aa hS.va l { x with now := q.now, log := [] } hI0 (MsgOkB.toA cb hok)
  generalize hxc : chainA ca aa l { x with now := q.now, log := [] } = xc at *
  have hc2 : xc.now = q.now := c2
  have hc3 : xc.inbox = [] := by rw [c3]; exact hib
  have hc4 : txsOf xc.log = chainFrames ca aa l := by rw [c4]; rfl
  have hIB0 : IdleB del { y with now := q.now, log := [],
                                 inbox := y.inbox ++ toInbox (txsOf ({ xc with log := .rxNone xc.now :: xc.log } : AP).log) } :=
    ⟨hIB.st, hIB.pend, hIB.queue, hIB.timer⟩
  obtain ⟨y', hB, hPB, hnB, hib', hneB⟩ := passB_startQ ca cb aa ab hS.va hS.wfA hS.mirAB hS.listenB htCf0 fcm hfc.made
    l del _ hIB0 hok
    (by show y.inbox ++ toInbox (txsOf (.rxNone xc.now :: xc.log)) = _
        rw [hyib, txsOf_rxNone, hc4, chainMsgs_eq]; rfl) rfl
  obtain ⟨e1, e2, e3⟩ := round_eq ca cb aa ab dt q x _ y y' hqa hqb hab hba hA hc2 hB hnB
  refine ⟨?_, ?_, ?_, ?_, ?_⟩
  · rw [e1]
    exact after_assemble ca cb aa ab dt fcm q.now _ _ l del _ y'
      (ChainPostA_relog ca aa l xc _ c1) hPB hc3 hib' hc2
  · rw [e2]
    exact NoErr_reverse (NoErr_cons (c5 NoErr_nil) (by intro t e h; cases h))
  · rw [e3]; exact NoErr_reverse hneB
  · rw [e2, doneEvs_reverse]
    show donesOf (.rxNone xc.now :: xc.log) = _
    rw [donesOf_rxNone, c6]; rfl
  · rw [e1]

end sim

end Isotp.LockstepQ
