import Isotp.Generated
import Isotp.Sock
/-
  Leaf: the tpsock constants of the model (flag bits, option numbers, SOL_CAN_ISOTP, struct sizes) equal
  the code's, and the byte images the model's setters issue for one all-fields call per option struct equal
  the `setsockopt` calls the real `GeneralOpts.write` / `FlowControlOpts.write` / `LinkLayerOpts.write`
  issued against a capturing socket (order of calls, level, option number, length, bytes).
-/
namespace Isotp.Agree
open Isotp.Sock

def sockConsts : List Nat :=
  [fLISTEN_MODE, fEXTEND_ADDR, fTX_PADDING, fRX_PADDING, fFORCE_TXSTMIN, fRX_EXT_ADDR,
   optOPTS, optRECV_FC, optTX_STMIN, optLL_OPTS, solCanIsotp,
   (layoutOpts {}).length, (layoutFc {}).length, (layoutLl {}).length]

theorem sockConsts_agree : ∀ i : Fin 14, sockConsts.getD i.val 0 = Generated.entry Generated.sockConstTable 4 i.val := by
  decide +kernel

/-- the calls issued by the model for the same three all-fields calls, flattened as
    [level, opt, len, 12 bytes zero-padded] per call, oldest first -/
def modelImage : List Nat :=
  let s0 : Sock := { k := { opts := { flags := 0, frameTxtime := 0, extAddress := 0, txpad := 0, rxpad := 0, rxExtAddress := 0 },
                             fc := {}, ll := { mtu := 0, txDl := 0, txFlags := 0 } } }
  let s1 := match writeOpts s0 { optflag := .int 0x01020304, frameTxtime := .int 0x05060708, extAddress := .int 0x11, txpad := .int 0x22,
                                  rxpad := .int 0x33, rxExtAddress := .int 0x44, txStmin := .int 0x0A0B0C0D } with
            | .ok (s, _) => s | .error _ => s0
  let s2 := match writeFc s1 (.int 0x51) (.int 0x52) (.int 0x53) with | .ok (s, _) => s | .error _ => s1
  let s3 := match writeLl s2 (.int 0x61) (.int 0x62) (.int 0x63) with | .ok (s, _) => s | .error _ => s2
  (s3.calls.reverse.map fun c => match c with
    | .setopt level opt d => [level, opt, d.length] ++ d.map (·.toNat) ++ List.replicate (12 - d.length) 0
    | _ => []).flatten

theorem sockImage_agree : ∀ i : Fin 60, modelImage.getD i.val 0xFFF = Generated.entry Generated.sockImageTable 1 i.val := by
  decide +kernel

end Isotp.Agree
#print axioms Isotp.Agree.sockConsts_agree
#print axioms Isotp.Agree.sockImage_agree
