"""C05 - receiver is safe on arbitrary bus traffic."""
import gen
import ref
import trace
from props.base import PropBase


def alphabet(rng, a, mfs):
    """the representative 16-frame alphabet (bodies, before the address prefix)"""
    big = mfs + 1 if mfs < 4095 else 4095
    return [
        bytes([3, 1, 2, 3]),                       # valid SF
        bytes([5, 1, 2]),                          # invalid SF (length > room)
        bytes([0, 3, 1, 2, 3]) + bytes(7),         # escape SF in a 12-byte frame
        bytes([3, 1, 2, 3]) + bytes(8),            # SF without escape, CAN_DL 12
        bytes([0x10, 10, 1, 2, 3, 4, 5, 6]),       # FF short
        bytes([0x10, 20, 1, 2, 3, 4, 5, 6]),       # FF longer
        bytes([0x10 | (big >> 8), big & 0xFF, 1, 2, 3, 4, 5, 6]),   # FF too long for small max_frame_size
        bytes([0x10, 0, 0, 0, 0x20, 0, 1, 2]),     # FF escape (8192)
        bytes([0x21, 7, 8, 9, 10, 11, 12, 13]),    # CF sn 1 full
        bytes([0x22, 14, 15, 16, 17, 18, 19, 20]),  # CF sn 2 full
        bytes([0x20, 1, 2, 3]),                    # CF sn 0 short
        bytes([0x21]),                             # CF empty
        bytes([0x30, 0, 0]),                       # FC CTS
        bytes([0x31, 0, 0]),                       # FC wait
        bytes([0x32, 0, 0]),                       # FC overflow
        bytes([0x40, 1, 2]),                       # undecodable
        b'',                                       # empty
    ]


class C05(PropBase):
    id = 'C05'
    address_change = 0.15
    rx_only_gaps = 0.1
    partial_passes = 0.25
    rx_only_passes = 0.4
    lean_modules = ['Isotp.Props.C05']
    agree = []
    theorems = ['Isotp.C05.processRx_no_raise']
    rule = ('one receiver layer (no send) fed frame sequences: exhaustive-prefix sequences from a 17-frame alphabet (valid/invalid SF, escape SF, '
            'FF short/long/too long/escape, CF sn 0/1/2 short/full/empty, FC of each status, undecodable, empty, foreign id) plus random byte '
            'frames of length 0..70, random gaps and batching; non-trivial = at least one frame accepted by the address; distinct = '
            '(prefix?, blocksize class, sequence of frame kinds and outcomes)')
    assumptions = ['user callbacks do not raise', 'virtual clock; computation takes zero time']
    quick_per_shard = 150
    thorough_per_shard = 6000

    def enumerate(self, tier):
        """ALL frame sequences up to a bounded length over the representative alphabet, x prefix on/off x blocksize x max_frame_size"""
        import itertools
        depth = 2 if tier == 'quick' else 4
        addrs = [{'mode': 0, 'txid': 0x123, 'rxid': 0x456},
                 {'mode': 3, 'txid': 0x123, 'rxid': 0x456, 'target_address': 0x55, 'source_address': 0xAA}]
        cfgs = [(a, bs, mfs) for a in addrs for bs in (0, 1, 2) for mfs in (15, 4095)]
        if tier != 'quick':
            deep = cfgs[:1] + cfgs[7:8]          # depth 4 only for two configurations, depth 3 for all
        # one reception of more than 65536 Consecutive Frames (32-bit First Frame length) with a block size that does not divide 2^16: a
        # frame / block counter kept in a fixed-width field would wrap here.  Implementation trace only (`no_model`: the Lean model keeps the
        # reception buffer as a linked list and would need minutes for half a megabyte).
        for bs in ((3,) if tier == 'quick' else (3, 5, 255)):
            a = addrs[0]
            nfr = 65536 + bs
            total = 6 + 7 * (nfr + 10)
            ops = [{'op': 'layer', 'i': 0, 'addr': a, 'params': {'blocksize': bs, 'max_frame_size': total + 100}}]
            fid, ext, ff = gen.rx_match_frame(a, bytes([0x10, 0x00]) + total.to_bytes(4, 'big') + bytes([0xA0, 0xA1]))
            ops.append({'op': 'frame', 'i': 0, 'id': fid, 'ext': ext, 'data': ff})
            for k in range(1, nfr + 1):
                ops.append({'op': 'frame', 'i': 0, 'id': fid, 'ext': ext, 'data': bytes([0x20 | (k % 16)]) + bytes([k & 0xFF] * 7)})
                if k % 1500 == 0:
                    ops.append({'op': 'process', 'i': 0})
            ops.append({'op': 'process', 'i': 0})
            yield {'ops': ops, 'no_model': True, 'family': 'long_reception'}
        for (a, bs, mfs) in cfgs:
            alpha = alphabet(None, a, mfs)
            d = depth if tier == 'quick' else (4 if (a, bs, mfs) in deep else 3)
            for n in range(1, d + 1):
                for seq in itertools.product(range(len(alpha)), repeat=n):
                    ops = [{'op': 'layer', 'i': 0, 'addr': a, 'params': {'blocksize': bs, 'max_frame_size': mfs}}]
                    for k in seq:
                        fid, ext, data = gen.rx_match_frame(a, alpha[k])
                        ops.append({'op': 'frame', 'i': 0, 'id': fid, 'ext': ext, 'data': data})
                        ops.append({'op': 'process', 'i': 0})
                    ops.append({'op': 'recv', 'i': 0})
                    ops.append({'op': 'recv', 'i': 0})
                    yield {'ops': ops}

    def fd_refused_cf(self, rng):
        """a CAN FD reception (First Frame on 12..64 bytes) in which Consecutive Frames of the expected sequence number but of ANOTHER size arrive
        mid-block (refused: ChangingInvalidRXDLError), each followed by the properly sized frame: a refused frame completes no block"""
        a, _ = gen.rand_addr_pair(rng, mode=rng.choice([0, 1, 2, 3, 5]), asym_prob=0)
        bs = rng.choice([2, 2, 3, 4])
        ops = [{'op': 'layer', 'i': 0, 'addr': a, 'params': {'blocksize': bs}}]
        fid, ext, _ = gen.rx_match_frame(a, b'')
        _, _, d = gen.rx_match_frame(a, b'\x00')
        pre = d[:-1]
        txdl = rng.choice([12, 16, 24, 64])
        c = txdl - 1 - len(pre)
        ncf = rng.choice([3, 4, 6, 9])
        n = (txdl - 2 - len(pre)) + c * ncf - rng.randrange(0, c - 1)
        frames = ref.foreign_stream(gen.rand_payload(rng, n), txdl, prefix=pre, last='full')
        for k, fr in enumerate(frames):
            if 0 < k < len(frames) - 1 and rng.random() < 0.4:
                ops.append({'op': 'frame', 'i': 0, 'id': fid, 'ext': ext, 'data': (pre + bytes([0x20 | (k % 16)]) + bytes(7))[:8]})
                if rng.random() < 0.5:
                    ops.append({'op': 'process', 'i': 0})
            ops.append({'op': 'frame', 'i': 0, 'id': fid, 'ext': ext, 'data': fr})
            if rng.random() < 0.6:
                ops.append({'op': 'process', 'i': 0})
        ops.append({'op': 'process', 'i': 0})
        ops.append({'op': 'recv', 'i': 0})
        return {'ops': ops}

    def scenario(self, rng, tier):
        if rng.random() < 0.04:
            return self.fd_refused_cf(rng)
        mode = rng.choice([0, 0, 1, 2, 3, 4, 5, 6])
        a, _ = gen.rand_addr_pair(rng, mode=mode, asym_prob=0.1)
        mfs = rng.choice([4095, 4095, 15, 8, 100])
        params = {'blocksize': rng.choice([0, 1, 2, 8]), 'max_frame_size': mfs}
        if rng.random() < 0.3:
            params['rx_consecutive_frame_timeout'] = rng.choice([1, 10, 1000])
        if rng.random() < 0.2:
            params['tx_padding'] = 0xAA
        if rng.random() < 0.2:
            params['stmin'] = rng.choice([1, 0x7F, 0xF1])
        if rng.random() < 0.15:
            params['tx_data_length'] = rng.choice([12, 64])
        ops = [{'op': 'layer', 'i': 0, 'addr': a, 'params': params}]
        alpha = alphabet(rng, a, mfs)
        style = rng.random()
        n = rng.randrange(1, 6) if style < 0.5 else rng.randrange(5, 60)
        tcf = params.get('rx_consecutive_frame_timeout', 1000) * 1000000
        for _ in range(n):
            if style < 0.5 or rng.random() < 0.5:
                body = rng.choice(alpha)
            else:
                body = gen.rand_raw_frame(rng)
            fid, ext, data = gen.rx_match_frame(a, body)
            r = rng.random()
            if r < 0.06:
                fid = gen.rand_id(rng, ext)
            elif r < 0.09:
                ext = not ext
            elif r < 0.12 and len(data) > 0 and ref.rx_prefix_len(ref.half(a, 'rx')):
                data = bytes([data[0] ^ 0x10]) + data[1:]
            elif r < 0.2:
                # a near miss: the accepted identifier with one bit flipped (another priority, another node, the functional twin, ...)
                fid ^= 1 << rng.randrange(29 if ext else 11)
            dt = 0
            if rng.random() < 0.1:
                dt = rng.choice([1000, tcf - 1000, tcf + 1000])
            ops.append({'op': 'frame', 'i': 0, 'id': fid, 'ext': ext, 'data': data, 'dt': max(dt, 0)})
            if rng.random() < 0.5:
                ops.append({'op': 'process', 'i': 0})
            if rng.random() < 0.15:
                ops.append({'op': 'tick', 'dt': rng.choice([1000, tcf - 1000, tcf + 1000, 3 * tcf])})
            if rng.random() < 0.1:
                ops.append({'op': 'recv', 'i': 0})
        ops.append({'op': 'process', 'i': 0})
        for _ in range(3):
            ops.append({'op': 'recv', 'i': 0})
        return {'ops': ops}

    def project(self, op_line, out_line):
        return trace.project_events(out_line, keep=('tx', 'err', 'deliver'), status_keys=('av',), drop_err_name=True, drop_times=True)

    def judge(self, sc, lines_in, impl_out):
        return judge_c05(sc, lines_in, impl_out)

    def nontrivial_key(self, sc, lines_in, impl_out):
        if sc.get('family') == 'long_reception':
            return ('long_reception', trace.layer_cfg(sc)['params']['blocksize'])
        recs = trace.records(lines_in, impl_out)
        cfg = trace.layer_cfg(sc)
        kinds = []
        for r in recs:
            for e in r.events:
                if e['k'] == 'rx':
                    kinds.append('r')
                elif e['k'] == 'err':
                    kinds.append(e['name'][:4])
                elif e['k'] == 'deliver':
                    kinds.append('D%d' % len(e['data']))
                elif e['k'] == 'tx':
                    kinds.append('T')
        if 'r' not in kinds:
            return None
        return (cfg['addr'].get('mode', 'a'), cfg['params'].get('blocksize'), tuple(kinds[:40]))

    def tally(self, dist, sc, lines_in, impl_out):
        PropBase.tally(self, dist, sc, lines_in, impl_out)
        for l in impl_out:
            for e in l.split('|')[0].split(';'):
                if e.startswith('err@'):
                    k = 'err:' + e.split(':')[1]
                    dist[k] = dist.get(k, 0) + 1
                elif e.startswith('deliver'):
                    dist['deliveries'] = dist.get('deliveries', 0) + 1


def justified(hist, j, p, mfs):
    """hist: list of classified accepted frames (kind tuples + can_dl); delivery of p while processing frame j"""
    fj = hist[j]
    if fj[0] == 'sf' and fj[2] == p:
        return True, ('sf', j)
    if fj[0] != 'cf':
        return False, None
    # search a First Frame i < j
    for i in range(j - 1, -1, -1):
        f = hist[i]
        if f[0] == 'ff':
            if f[1] == len(p) and len(p) <= mfs:
                # DP over frames i+1..j: states (next_sn, matched)
                first = f[2][:len(p)]
                if p[:len(first)] == first:
                    states = {(1, len(first))}
                    ok = False
                    for k in range(i + 1, j + 1):
                        g = hist[k]
                        if g[0] == 'cf':
                            new = set(states) if k < j else set()
                            for (sn, m) in states:
                                if g[1] == sn % 16:
                                    chunk = g[2][:len(p) - m]
                                    if p[m:m + len(chunk)] == chunk:
                                        m2 = m + len(chunk)
                                        if k == j:
                                            if m2 == len(p) and m + len(g[2]) >= len(p):
                                                ok = True
                                        else:
                                            new.add((sn + 1, m2))
                            states = new
                    if ok:
                        return True, ('ff', i)
            break       # a First Frame in between: no earlier start is allowed
        if f[0] == 'sf' and f[4]:
            break       # a valid Single Frame in between
    return False, None


def judge_c05(sc, lines_in, impl_out, allow_sends=False):
    cfg = trace.layer_cfg(sc)
    a = cfg['addr']
    rxh = ref.half(a, 'rx')
    txh = ref.half(a, 'tx')
    mfs = cfg['params'].get('max_frame_size', 4095)
    bs = cfg['params'].get('blocksize', 8)
    pre_rx = ref.rx_prefix_len(rxh)
    pre_tx = len(ref.tx_prefix(txh))
    out = []
    hist = []
    used_starts = set()
    n_ff = n_cf = n_fc = 0
    n_cf_ok = 0          # Consecutive Frames read and not answered with an error (an ignored / refused frame completes no block)
    cf_pending = False   # the last frame read is a Consecutive Frame whose handling has reported no error so far
    for r in trace.records(lines_in, impl_out):
        if r.result.startswith('exc') and r.op == 'process':
            out.append(('no_raise', 'process() raised %s at op %d' % (r.result, r.k)))
        delivered_for_frame = {}
        for e in r.events:
            if e['k'] == 'rx':
                if cf_pending:
                    n_cf_ok += 1
                    cf_pending = False
                if ref.reception_condition(rxh, e['id'], e['ext'], e['data']):
                    body = e['data'][pre_rx:]
                    c = ref.classify(body)
                    cf_pending = (c[0] == 'cf')
                    if c[0] == 'sf':
                        c = c + (len(e['data']) <= 8 or c[3],)
                    hist.append(c)
                    if c[0] == 'ff':
                        n_ff += 1
                    if c[0] == 'cf':
                        n_cf += 1
            elif e['k'] == 'err':
                cf_pending = False
                if e['name'] not in ref.ISO_ERRORS:
                    out.append(('errors_typed', 'error %s is not a documented IsoTpError' % e['name']))
            elif e['k'] == 'deliver':
                j = len(hist) - 1
                if j < 0:
                    out.append(('justified', 'delivery of %s before any accepted frame' % e['data'].hex()))
                    continue
                if j in delivered_for_frame:
                    out.append(('justified', 'two deliveries while processing one frame'))
                delivered_for_frame[j] = True
                ok, start = justified(hist, j, e['data'], mfs)
                if not ok:
                    out.append(('justified', 'delivery of %d bytes (%s..) at accepted frame #%d not justified by the traffic' % (
                        len(e['data']), e['data'][:8].hex(), j)))
                elif start in used_starts:
                    out.append(('justified', 'frame %s justifies two deliveries' % (start,)))
                else:
                    used_starts.add(start)
            elif e['k'] == 'tx' and not allow_sends:
                c = ref.classify(e['data'][pre_tx:])
                if c[0] != 'fc':
                    out.append(('emission', 'non Flow Control frame %s emitted while the user sends nothing' % e['data'].hex()))
                n_fc += 1
                # at most one Flow Control per First Frame or COMPLETED block, at the moment it is emitted (frames that were refused count for nothing)
                ok_now = n_cf_ok + (1 if cf_pending else 0)
                if c[0] == 'fc' and n_fc > n_ff + (ok_now // bs if bs > 0 else 0) and not any(x[0] == 'emission' for x in out):
                    out.append(('emission', 'Flow Control number %d emitted after %d First Frames and %d accepted Consecutive Frames (blocksize %d): no block is complete' % (
                        n_fc, n_ff, ok_now, bs)))
    if not allow_sends:
        bound = n_ff + (n_cf // bs if bs > 0 else 0)
        if n_fc > bound:
            out.append(('emission', '%d Flow Control frames emitted for %d First Frames and %d Consecutive Frames (blocksize %d)' % (n_fc, n_ff, n_cf, bs)))
    return out


PROP = C05()
