import Isotp.Proofs.Fc
/-
  Helper lemmas for the PASS-level reading of C08 "with a zero separation time frames are not
  delayed at all" (`Isotp/Props/C08pass.lean`):

  * `Held s`   — the rate limiter is what keeps the next Consecutive Frame of `s` back;
  * `EndOk s`  — "if `s` is a clean TRANSMIT_CF state with a zero separation time, then `Held s`";
  * `step_endOk`        one `processTx` call that hands nothing out ends in an `EndOk` state;
  * `txLoop_endOk`      so does an inner tx loop that ends by itself (no re-run requested, fuel left);
  * `processLoop_endOk` so does a whole transmitting `process()` call;
  * `process_rl_enabled` `process()` never switches the limiter on or off.

  The invariant used is `Fc.TxWf` (Proofs/Fc.lean; kept by every operation of the layer,
  `TxWf_loopStable`) together with `CfgOk` (what a valid configuration guarantees about `tx_data_length`;
  configuration and addressing never change).
  Only `Isotp.Proofs.Fc` is imported (the limiter library `Proofs/Limiter.lean` is a separate
  library; the three one-line limiter facts needed here are re-proved).
-/
namespace Isotp.C08Pass
open Isotp State Fc

/-! ### Vocabulary -/

/-- what the theorems need from the configuration: a Consecutive Frame has room for at least one
    payload byte, and `tx_data_length` is below the "no limit" credit of a disabled limiter.
    Both follow from `Cfg.valid` (`CfgOk_of_valid`). -/
def CfgOk (s : State) : Prop := s.txPrefixLen + 2 ≤ s.cfg.txDl ∧ s.cfg.txDl ≤ noLimit

theorem CfgOk_of_valid (s : State) (hv : s.cfg.valid = true) : CfgOk s := by
  refine ⟨prefix_fits_valid s hv, ?_⟩
  simp only [Cfg.valid, validTxDl, Bool.and_eq_true, Bool.or_eq_true, decide_eq_true_eq] at hv
  unfold noLimit
  omega

theorem CfgOk_congr {s s' : State} (h1 : s'.cfg = s.cfg) (h2 : s'.addr = s.addr) (h : CfgOk s) : CfgOk s' := by
  unfold CfgOk txPrefixLen at *
  rw [h1, h2]; exact h

/-- the rate limiter is what holds the next Consecutive Frame back: it is enabled and the credit
    it grants right now is smaller than the payload of the next Consecutive Frame (the very test
    `payloadLen ≤ allowed` of the TRANSMIT_CF branch fails) -/
def Held (s : State) : Prop :=
  s.rl.enabled = true ∧ ∃ r, s.active = some r ∧ allowedNow s < cfPayloadLen s r

/-- a clean TRANSMIT_CF state with a zero separation time is held by the limiter -/
def EndOk (s : State) : Prop :=
  s.exc = none → s.txState = .transmitCf → s.timerStmin.timeout = 0 → Held s

theorem EndOk_of_exc {s : State} (h : s.exc.isSome) : EndOk s := by
  intro he; rw [he] at h; cases h

theorem EndOk_of_not_cf {s : State} (h : s.txState ≠ .transmitCf) : EndOk s :=
  fun _ hs _ => absurd hs h

/-! ### The phases of `processTx` keep configuration, addressing and limiter -/

theorem stopSending_keep (s : State) (ok : Bool) :
    (s.stopSending ok).cfg = s.cfg ∧ (s.stopSending ok).addr = s.addr ∧ (s.stopSending ok).rl = s.rl := by
  unfold stopSending
  cases h : s.active <;> simp [emit]

theorem handleFc_keep (s : State) (fc : FcFrame) :
    (s.handleFc fc).cfg = s.cfg ∧ (s.handleFc fc).addr = s.addr ∧ (s.handleFc fc).rl = s.rl := by
  unfold handleFc
  grind [stopSending, State.error, emit, startRxFcTimer]

theorem afterFc_keep (s : State) :
    (afterFc s).1.cfg = s.cfg ∧ (afterFc s).1.addr = s.addr ∧ (afterFc s).1.rl = s.rl := by
  unfold afterFc
  cases hfc : s.lastFc with
  | none => simp
  | some fc =>
    simp only []
    split
    · exact stopSending_keep ({ s with lastFc := none } : State) false
    · exact handleFc_keep ({ s with lastFc := none } : State) fc

theorem afterTimeout_keep (s : State) :
    (afterTimeout s).cfg = s.cfg ∧ (afterTimeout s).addr = s.addr ∧ (afterTimeout s).rl = s.rl := by
  unfold afterTimeout
  split
  · exact stopSending_keep (s.error .FlowControlTimeout) false
  · simp

theorem afterDepleted_keep (s : State) :
    (afterDepleted s).cfg = s.cfg ∧ (afterDepleted s).addr = s.addr ∧ (afterDepleted s).rl = s.rl :=
  ite_pred (P := fun x => x.cfg = s.cfg ∧ x.addr = s.addr ∧ x.rl = s.rl) (stopSending_keep _ _) ⟨rfl, rfl, rfl⟩

/-- the Overflow branch leaves the FSM idle -/
theorem afterFc_overflow_idle (s : State) (h : (afterFc s).2 = true) : (afterFc s).1.txState = .idle := by
  unfold afterFc at *
  cases hfc : s.lastFc with
  | none => simp [hfc] at h
  | some fc =>
    simp only [hfc] at h ⊢
    split
    · exact (stopSending_idle ({ s with lastFc := none } : State) false).1
    · rename_i h2; simp [h2] at h

/-! ### The TRANSMIT_CF branch with a zero separation time -/

theorem Req.consume_depleted (r : Req) (n : Nat) (e : Bool) (h : r.depleted = true) :
    (r.consume n e).1.depleted = true := by
  unfold Req.consume
  simp only [Req.depleted, Bool.or_eq_true, decide_eq_true_eq] at h ⊢
  grind

/-- a due frame that fits the credit, with a depleted generator: the pass raises or ends the
    message (the branch taken when a frame is still parked while the generator is exhausted) -/
theorem transmitCf_depleted (s : State) (a bs : Nat) (r : Req) (hb : s.remoteBs = some bs)
    (ha : s.active = some r) (hd : r.depleted = true) (ht : s.timerStmin.timedOut s.now = true)
    (hl : cfPayloadLen s r ≤ a) :
    (s.transmitCf a).1.exc.isSome ∨ (s.transmitCf a).1.txState = .idle := by
  rw [transmitCf_eq s a bs r hb ha]
  simp only [ht, hl, and_self, if_true]
  have hdep := Req.consume_depleted r (cfPayloadLen s r) false hd
  generalize (s.consumeActive r (cfPayloadLen s r) false).1 = s1
  generalize r.consume (cfPayloadLen s r) false = c at hdep ⊢
  obtain ⟨r', res⟩ := c
  cases res with
  | none => left; simp [State.raise]
  | some payload =>
    simp only at hdep ⊢
    unfold cfTail cfSend
    by_cases hpl : payload.length > 0
    · simp only [hpl, if_true]
      cases hm : makeTxMsg s1.cfg s1.addr (s1.addr.tx.txId .physical)
          (s1.addr.tx.txPrefix ++ [u8 (0x20 + s1.txSeq)] ++ payload) with
      | none => left; simp [State.raise]
      | some msg =>
        right
        simp only [Bool.false_eq_true, if_false, hdep, if_true]
        split <;> exact (stopSending_idle _ _).1
    · right
      simp only [hpl, if_false, Bool.false_eq_true, hdep, if_true]
      split <;> exact (stopSending_idle _ _).1

/-- **Core step.** The TRANSMIT_CF branch with a running STmin timer whose timeout is zero: if it
    hands nothing out, raises nothing and stays in TRANSMIT_CF, then the frame did not fit the
    credit `a` (and nothing at all changed). -/
theorem transmitCf_zero_held (s : State) (a : Nat) (hst : s.timerStmin.start.isSome)
    (hb : s.remoteBs.isSome) (hact : s.active.isSome) (h0 : s.timerStmin.timeout = 0)
    (hdl : s.txPrefixLen + 2 ≤ s.cfg.txDl)
    (he : (s.transmitCf a).1.exc = none) (ho : (s.transmitCf a).2.1 = none)
    (hs : (s.transmitCf a).1.txState = .transmitCf) :
    (s.transmitCf a).1 = s ∧ ∃ r, s.active = some r ∧ a < cfPayloadLen s r := by
  obtain ⟨bs, hb⟩ : ∃ bs, s.remoteBs = some bs := by
    cases h : s.remoteBs with
    | none => simp [h] at hb
    | some bs => exact ⟨bs, rfl⟩
  obtain ⟨r, ha⟩ : ∃ r, s.active = some r := by
    cases h : s.active with
    | none => simp [h] at hact
    | some r => exact ⟨r, rfl⟩
  obtain ⟨t0, ht0⟩ : ∃ t0, s.timerStmin.start = some t0 := by
    cases h : s.timerStmin.start with
    | none => simp [h] at hst
    | some t0 => exact ⟨t0, rfl⟩
  have ht : s.timerStmin.timedOut s.now = true := timedOut_of_zero h0 ht0 _
  by_cases hl : cfPayloadLen s r ≤ a
  · exfalso
    cases hd : r.depleted with
    | true =>
      rcases transmitCf_depleted s a bs r hb ha hd ht hl with p | p
      · rw [he] at p; cases p
      · rw [hs] at p; cases p
    | false =>
      rcases transmitCf_progress s a bs r hb ha hd ht hl hdl with p | p | ⟨msg, _, p, _⟩
      · rw [he] at p; cases p
      · rw [hs] at p; cases p
      · rw [ho] at p; cases p
  · refine ⟨?_, r, ha, by omega⟩
    rw [transmitCf_eq s a bs r hb ha]
    simp [hl]

/-- a disabled limiter grants `noLimit`, which every Consecutive Frame payload fits -/
theorem enabled_of_short_credit (s : State) (r : Req) (hc : CfgOk s)
    (h : allowedNow s < cfPayloadLen s r) : s.rl.enabled = true := by
  cases hen : s.rl.enabled with
  | true => rfl
  | false =>
    exfalso
    unfold allowedNow Limiter.allowedBytes at h
    simp only [hen, Bool.not_false, if_true] at h
    unfold cfPayloadLen at h
    have := hc.2
    omega

/-! ### One `processTx` call -/

theorem finish_none_fst (x : State × Option CanMsg × Bool) (h : x.2.1 = none) : (finish x).1 = x.1 := by
  unfold finish
  split
  · rfl
  · simp [h]

/-- phases 1–5 -/
theorem txPhases_endOk (s : State) (hw : TxWf s) (hc : CfgOk s)
    (ho : (txPhases s (allowedNow s)).2.1 = none) : EndOk (txPhases s (allowedNow s)).1 := by
  unfold txPhases at ho ⊢
  split
  · exact EndOk_of_not_cf (by rw [afterFc_overflow_idle s (by assumption)]; simp)
  · simp only [] at ho ⊢
    split
    · exact EndOk_of_exc (by simp [State.raise])
    · rename_i hov hassert
      simp only [hov, hassert, if_false, Bool.false_eq_true] at ho
      have k1 := afterFc_keep s
      have k2 := afterTimeout_keep (afterFc s).1
      have k3 := afterDepleted_keep (afterTimeout (afterFc s).1)
      have hw3 := TxWf_afterDepleted _ (TxWf_afterTimeout _ (TxWf_afterFc s hw))
      generalize afterDepleted (afterTimeout (afterFc s).1) = s3 at k3 hw3 ho ⊢
      have hcfg : s3.cfg = s.cfg := by rw [k3.1, k2.1, k1.1]
      have haddr : s3.addr = s.addr := by rw [k3.2.1, k2.2.1, k1.2.1]
      have hrl : s3.rl = s.rl := by rw [k3.2.2, k2.2.2, k1.2.2]
      have hc3 : CfgOk s3 := CfgOk_congr hcfg haddr hc
      have hal : allowedNow s = allowedNow s3 := by unfold allowedNow; rw [hcfg, hrl]
      rw [hal] at ho ⊢
      by_cases hs3 : s3.txState = .transmitCf
      · rw [fsm_cf s3 _ hs3] at ho ⊢
        intro he hs h0
        have ff := finish_fields (s3.transmitCf (allowedNow s3))
        have fe := (finish_lastFc_exc (s3.transmitCf (allowedNow s3))).2
        have fc := finish_constView (s3.transmitCf (allowedNow s3))
        have tc := transmitCf_constView s3 (allowedNow s3)
        simp only [constView, Prod.mk.injEq] at fc tc
        rw [fe] at he
        rw [ff.1] at hs
        rw [fc.2.2.2] at h0
        have ho' : (s3.transmitCf (allowedNow s3)).2.1 = none := by
          rw [← finish_of_no_exc _ he]; exact ho
        obtain ⟨w1, w2, w3, w4, w5, w6⟩ := hw3
        obtain ⟨e1, r, e2, e3⟩ := transmitCf_zero_held s3 (allowedNow s3) (w3 hs3).1 (w3 hs3).2
          (w5 (by simp [hs3])) (by rw [← tc.2.2.2]; exact h0) hc3.1 he ho' hs
        have efin : (finish (s3.transmitCf (allowedNow s3))).1 = s3 := by
          rw [finish_none_fst _ ho', e1]
        rw [efin]
        exact ⟨enabled_of_short_credit s3 r hc3 e3, r, e2, e3⟩
      · apply EndOk_of_not_cf
        rw [(finish_fields _).1]
        exact fsm_not_cf s3 _ hs3

theorem fcSendPhase_some_none {s s1 : State} (h : fcSendPhase s = (s1, some none)) : s1.exc.isSome := by
  unfold fcSendPhase at h
  grind [State.raise, startRxCfTimer]

/-- **Step.** A `processTx` call on a well-formed state that hands nothing out ends in a state that
    is not "clean TRANSMIT_CF with zero separation time", or is held by the limiter. -/
theorem step_endOk (s : State) (hw : TxWf s) (hc : CfgOk s) (ho : s.processTx.2.1 = none) :
    EndOk s.processTx.1 := by
  have hv := fcSendPhase_txView s
  rw [processTx_eq] at ho ⊢
  generalize hx : fcSendPhase s = x at hv ho ⊢
  obtain ⟨s1, o⟩ := x
  rcases o with _ | _ | msg
  · simp only [] at ho ⊢
    have hv1 := hv.1
    simp only [txView, Prod.mk.injEq] at hv1
    have hcfg : s1.cfg = s.cfg := hv1.2.2.2.2.2.2.2.2.1
    have haddr : s1.addr = s.addr := hv1.2.2.2.2.2.2.2.2.2.2.2.1
    have hrl : s1.rl = s.rl := hv1.2.2.2.2.2.2.2.2.2.2.2.2.1
    have hal : allowedNow s = allowedNow s1 := by unfold allowedNow; rw [hcfg, hrl]
    rw [hal] at ho ⊢
    exact txPhases_endOk s1 (TxWf_of_txView hv.1 hw) (CfgOk_congr hcfg haddr hc) ho
  · exact EndOk_of_exc (fcSendPhase_some_none hx)
  · simp at ho

/-! ### The invariant carried through the loops -/

/-- `TxWf` plus the (constant) configuration facts -/
def Inv (s : State) : Prop := TxWf s ∧ CfgOk s

theorem processTx_cfg_addr (s : State) : s.processTx.1.cfg = s.cfg ∧ s.processTx.1.addr = s.addr := by
  have hv := fcSendPhase_txView s
  rw [processTx_eq]
  generalize fcSendPhase s = x at hv ⊢
  obtain ⟨s1, o⟩ := x
  have hv1 := hv.1
  simp only [txView, Prod.mk.injEq] at hv1
  have hcfg : s1.cfg = s.cfg := hv1.2.2.2.2.2.2.2.2.1
  have haddr : s1.addr = s.addr := hv1.2.2.2.2.2.2.2.2.2.2.2.1
  rcases o with _ | _ | _
  · simp only []
    rw [← hcfg, ← haddr]
    have k1 := afterFc_keep s1
    unfold txPhases
    split
    · exact ⟨k1.1, k1.2.1⟩
    · simp only []
      have k2 := afterTimeout_keep (afterFc s1).1
      split
      · exact ⟨k2.1.trans k1.1, k2.2.1.trans k1.2.1⟩
      · have k3 := afterDepleted_keep (afterTimeout (afterFc s1).1)
        have h4 := fsm_constView (afterDepleted (afterTimeout (afterFc s1).1)) (allowedNow s)
        have h5 := finish_constView (fsm (afterDepleted (afterTimeout (afterFc s1).1)) (allowedNow s))
        simp only [constView, Prod.mk.injEq] at h4 h5
        exact ⟨by rw [h5.2.1, h4.2.1, k3.1, k2.1, k1.1], by rw [h5.2.2.1, h4.2.2.1, k3.2.1, k2.2.1, k1.2.1]⟩
  · exact ⟨hcfg, haddr⟩
  · exact ⟨hcfg, haddr⟩

theorem CfgOk_loopStable : LoopStable CfgOk where
  clock := fun _ _ _ h => h
  emit := fun _ _ h => h
  chk := fun s h => by
    unfold checkTimeoutsRx
    split
    · exact h
    · exact h
  rx := fun s m h => by
    have hv := processRx_txView s m
    simp only [txView, Prod.mk.injEq] at hv
    exact CfgOk_congr hv.2.2.2.2.2.2.2.2.1 hv.2.2.2.2.2.2.2.2.2.2.2.1 h
  tx := fun s h => CfgOk_congr (processTx_cfg_addr s).1 (processTx_cfg_addr s).2 h
  rl := fun _ _ h => h

theorem Inv_loopStable : LoopStable Inv where
  clock := fun s dt rest h => ⟨TxWf_loopStable.clock s dt rest h.1, CfgOk_loopStable.clock s dt rest h.2⟩
  emit := fun s e h => ⟨TxWf_loopStable.emit s e h.1, CfgOk_loopStable.emit s e h.2⟩
  chk := fun s h => ⟨TxWf_loopStable.chk s h.1, CfgOk_loopStable.chk s h.2⟩
  rx := fun s m h => ⟨TxWf_loopStable.rx s m h.1, CfgOk_loopStable.rx s m h.2⟩
  tx := fun s h => ⟨TxWf_loopStable.tx s h.1, CfgOk_loopStable.tx s h.2⟩
  rl := fun s l h => ⟨TxWf_loopStable.rl s l h.1, CfgOk_loopStable.rl s l h.2⟩

/-! ### The inner tx loop -/

/-- **Inner loop.** When `txLoop` ends by itself (no re-run of `process` requested, fuel left) its
    end state is `EndOk`: the last `processTx` call handed nothing out. -/
theorem txLoop_endOk (f : Nat) (s : State) (n : Nat) (h : Inv s)
    (hr : (txLoop f s n).2.2.1 = false) (hf : (txLoop f s n).2.2.2 = false) :
    EndOk (txLoop f s n).1 := by
  fun_induction txLoop f s n with
  | case1 => simp at hf
  | case2 f s n s1 out imm hx he => exact EndOk_of_exc he
  | case3 f s n s1 out he s2 n2 hm hx => simp at hr
  | case4 f s n s1 out imm hx he s2 n2 hm h2 h3 ih =>
    have h1 := Inv_loopStable.tx s h; rw [hx] at h1
    have : Inv s2 := by
      cases out with
      | none => simp at hm; rw [← hm.1]; exact h1
      | some m => simp at hm; rw [← hm.1]; exact Inv_loopStable.emit _ _ h1
    exact ih this hr hf
  | case5 f s n s1 out imm hx he s2 n2 hm h2 h3 =>
    cases out with
    | some m => simp at h3
    | none =>
      simp at hm
      rw [← hm.1]
      have := step_endOk s h.1 h.2 (by rw [hx])
      rw [hx] at this
      exact this

/-! ### The whole `process()` call -/

/-- **Pass.** A transmitting `process()` call that ends within fuel ends in an `EndOk` state. -/
theorem processLoop_endOk (f : Nat) (doRx : Bool) (s : State) (st : Stats) (h : Inv s)
    (hf : (processLoop f doRx true s st).2.2 = false) :
    EndOk (processLoop f doRx true s st).1 := by
  generalize hd : true = doTx at hf ⊢
  fun_induction processLoop f doRx doTx s st with
  | case1 => simp at hf
  | case2 f doRx doTx s st sw s2 st1 rr hx1 s1 s' st' run oof hx2 he => exact EndOk_of_exc he
  | case3 f doRx doTx s st sw s2 st1 rr hx1 s1 s' st' run he hx2 => simp at hf
  | case4 f doRx doTx s st sw s2 st1 rr hx1 s1 s' st' run oof hx2 he ho hc ih =>
    subst hd
    have hs2 : Inv s2 := by
      by_cases hcnd : (doRx && !sw) = true
      · have := rxLoop_stable Inv_loopStable true s st s.inbox h
        simp only [hcnd, if_true] at hx1
        rw [hx1] at this; exact this
      · simp only [hcnd, if_false, Bool.false_eq_true] at hx1
        simp only [Prod.mk.injEq] at hx1
        rw [← hx1.1]; exact h
    have hs1 : Inv s1 := Inv_loopStable.rl s2 _ hs2
    have hs' : Inv s' := by
      have := txLoop_stable Inv_loopStable s1.txFuel s1 st1.sent hs1
      simp only [if_true] at hx2
      generalize txLoop s1.txFuel s1 st1.sent = r at this hx2
      obtain ⟨a, b, c, d⟩ := r
      simp only [Prod.mk.injEq] at hx2
      rw [← hx2.1]; exact this
    exact ih hs' rfl hf
  | case5 f doRx doTx s st sw s2 st1 rr hx1 s1 s' st' run oof hx2 he ho hc =>
    subst hd
    have hs2 : Inv s2 := by
      by_cases hcnd : (doRx && !sw) = true
      · have := rxLoop_stable Inv_loopStable true s st s.inbox h
        simp only [hcnd, if_true] at hx1
        rw [hx1] at this; exact this
      · simp only [hcnd, if_false, Bool.false_eq_true] at hx1
        simp only [Prod.mk.injEq] at hx1
        rw [← hx1.1]; exact h
    have hs1 : Inv s1 := Inv_loopStable.rl s2 _ hs2
    simp only [if_true] at hx2
    have key := txLoop_endOk s1.txFuel s1 st1.sent hs1
    generalize txLoop s1.txFuel s1 st1.sent = r at key hx2
    obtain ⟨a, b, c, d⟩ := r
    simp only [Prod.mk.injEq] at hx2
    obtain ⟨e1, e2, e3, e4⟩ := hx2
    subst e1 e3 e4
    simp only [Bool.or_eq_true, not_or, Bool.not_eq_true] at hc
    simp only [Bool.not_eq_true] at ho
    exact key hc.2 ho

/-! ### `process()` never switches the limiter on or off -/

theorem update_enabled (l : Limiter) (w now : Nat) : (l.update w now).enabled = l.enabled := by
  unfold Limiter.update Limiter.reset
  split <;> rfl

theorem inform_enabled (l : Limiter) (now n : Nat) : (l.inform now n).enabled = l.enabled := by
  unfold Limiter.inform
  split <;> rfl

theorem finish_rl_enabled (x : State × Option CanMsg × Bool) : (finish x).1.rl.enabled = x.1.rl.enabled := by
  unfold finish
  split
  · rfl
  · split
    · exact inform_enabled _ _ _
    · rfl

theorem startTx_rl (s : State) (r : Req) (allowed : Nat) : (s.startTx r allowed).1.rl = s.rl := by
  unfold startTx
  grind (splits := 30) [consumeActive_fst, stopSending, State.error, emit, State.raise, startRxFcTimer, Timer.stop]

theorem readTxQueue_rl (s : State) (allowed : Nat) (q : List Req) : (s.readTxQueue allowed q).1.rl = s.rl := by
  induction q generalizing s with
  | nil => rfl
  | cons r rest ih =>
    unfold readTxQueue
    simp only []
    split
    · rw [ih]; rfl
    · rw [startTx_rl]

theorem transmitCf_rl (s : State) (allowed : Nat) : (s.transmitCf allowed).1.rl = s.rl := by
  unfold transmitCf
  grind (splits := 30) [consumeActive_fst, stopSending, State.error, emit, State.raise, startRxFcTimer,
    Timer.startAt, Timer.stop]

theorem fsm_rl (s : State) (a : Nat) : (fsm s a).1.rl = s.rl := by
  unfold fsm
  split
  · exact readTxQueue_rl _ _ _
  · grind [startRxFcTimer, stopSending, Timer.stop, emit]
  · grind [startRxFcTimer, stopSending, Timer.stop, emit]
  · rfl
  · exact transmitCf_rl _ _

theorem processTx_rl_enabled (s : State) : s.processTx.1.rl.enabled = s.rl.enabled := by
  have hv := fcSendPhase_txView s
  rw [processTx_eq]
  generalize fcSendPhase s = x at hv ⊢
  obtain ⟨s1, o⟩ := x
  have hv1 := hv.1
  simp only [txView, Prod.mk.injEq] at hv1
  have hrl : s1.rl = s.rl := hv1.2.2.2.2.2.2.2.2.2.2.2.2.1
  rcases o with _ | _ | _
  · simp only []
    rw [← hrl]
    have k1 := afterFc_keep s1
    unfold txPhases
    split
    · rw [k1.2.2]
    · simp only []
      have k2 := afterTimeout_keep (afterFc s1).1
      split
      · show (afterTimeout (afterFc s1).1).rl.enabled = _
        rw [k2.2.2, k1.2.2]
      · have k3 := afterDepleted_keep (afterTimeout (afterFc s1).1)
        rw [finish_rl_enabled, fsm_rl, k3.2.2, k2.2.2, k1.2.2]
  · simp only []; rw [hrl]
  · simp only []; rw [hrl]

theorem rxLoop_rl (doTx : Bool) (s : State) (st : Stats) (inbox : List (Nat × CanMsg)) :
    (rxLoop doTx s st inbox).1.rl = s.rl := by
  have chk : ∀ x : State, x.checkTimeoutsRx.rl = x.rl := by
    intro x
    unfold checkTimeoutsRx
    split <;> rfl
  have rx : ∀ (x : State) (m : CanMsg), (x.processRx m).1.rl = x.rl := by
    intro x m
    have hv := processRx_txView x m
    simp only [txView, Prod.mk.injEq] at hv
    exact hv.2.2.2.2.2.2.2.2.2.2.2.2.1
  fun_induction rxLoop doTx s st inbox with
  | case1 s st => rw [chk]; rfl
  | case2 s st dt m rest s1 s2 st2 hme st3 s3 fr st4 hx =>
    have := rx s2 m; rw [hx] at this; rw [this, chk]; rfl
  | case3 s st dt m rest s1 s2 st2 hme st3 s3 imm fr hx st4 =>
    have := rx s2 m; rw [hx] at this; rw [this, chk]; rfl
  | case4 s st dt m rest s1 s2 st2 hme st3 s3 imm fr hx st4 h1 h2 ih =>
    have := rx s2 m; rw [hx] at this; rw [ih, this, chk]; rfl
  | case5 s st dt m rest s1 s2 st2 hme h1 => rw [chk]; rfl
  | case6 s st dt m rest s1 s2 st2 hme h1 ih => rw [ih, chk]; rfl

theorem txLoop_rl_enabled (f : Nat) (s : State) (n : Nat) : (txLoop f s n).1.rl.enabled = s.rl.enabled := by
  fun_induction txLoop f s n with
  | case1 => rfl
  | case2 f s n s1 out imm hx he =>
    have := processTx_rl_enabled s; rw [hx] at this; exact this
  | case3 f s n s1 out he s2 n2 hm hx =>
    have h1 := processTx_rl_enabled s; rw [hx] at h1
    cases out with
    | none => simp at hm; rw [← hm.1]; exact h1
    | some m => simp at hm; rw [← hm.1]; exact h1
  | case4 f s n s1 out imm hx he s2 n2 hm h2 h3 ih =>
    have h1 := processTx_rl_enabled s; rw [hx] at h1
    rw [ih]
    cases out with
    | none => simp at hm; rw [← hm.1]; exact h1
    | some m => simp at hm; rw [← hm.1]; exact h1
  | case5 f s n s1 out imm hx he s2 n2 hm h2 h3 =>
    have h1 := processTx_rl_enabled s; rw [hx] at h1
    cases out with
    | none => simp at hm; rw [← hm.1]; exact h1
    | some m => simp at hm; rw [← hm.1]; exact h1

theorem processLoop_rl_enabled (f : Nat) (doRx doTx : Bool) (s : State) (st : Stats) :
    (processLoop f doRx doTx s st).1.rl.enabled = s.rl.enabled := by
  have key1 : ∀ (dT c : Bool) (s0 s2 : State) (st st1 : Stats) (rr : Bool),
      (if c = true then rxLoop dT s0 st s0.inbox else (s0, st, false)) = (s2, st1, rr) → s2.rl = s0.rl := by
    intro dT c s0 s2 st st1 rr he
    cases c with
    | true =>
      have := rxLoop_rl dT s0 st s0.inbox
      simp only [if_true] at he
      rw [he] at this; exact this
    | false =>
      simp at he
      rw [← he.1]
  have key2 : ∀ (d : Bool) (s1 s' : State) (st1 st' : Stats) (run oof : Bool),
      (if d = true then
        match txLoop s1.txFuel s1 st1.sent with
        | (s, n, run, oof) => (s, { st1 with sent := n }, run, oof)
       else (s1, st1, false, false)) = (s', st', run, oof) → s'.rl.enabled = s1.rl.enabled := by
    intro d s1 s' st1 st' run oof he
    cases d with
    | true =>
      have := txLoop_rl_enabled s1.txFuel s1 st1.sent
      simp only [if_true] at he
      generalize txLoop s1.txFuel s1 st1.sent = r at this he
      obtain ⟨a, b, c, d⟩ := r
      simp at he
      rw [← he.1]; exact this
    | false =>
      simp at he
      rw [← he.1]
  fun_induction processLoop f doRx doTx s st with
  | case1 => rfl
  | case2 f doRx doTx s st sw s2 st1 rr hx1 s1 s' st' run oof hx2 he =>
    rw [key2 _ _ _ _ _ _ _ hx2]
    show (s2.rl.update _ _).enabled = _
    rw [update_enabled, key1 _ _ _ _ _ _ _ hx1]
  | case3 f doRx doTx s st sw s2 st1 rr hx1 s1 s' st' run he hx2 =>
    rw [key2 _ _ _ _ _ _ _ hx2]
    show (s2.rl.update _ _).enabled = _
    rw [update_enabled, key1 _ _ _ _ _ _ _ hx1]
  | case4 f doRx doTx s st sw s2 st1 rr hx1 s1 s' st' run oof hx2 he ho hc ih =>
    rw [ih, key2 _ _ _ _ _ _ _ hx2]
    show (s2.rl.update _ _).enabled = _
    rw [update_enabled, key1 _ _ _ _ _ _ _ hx1]
  | case5 f doRx doTx s st sw s2 st1 rr hx1 s1 s' st' run oof hx2 he ho hc =>
    rw [key2 _ _ _ _ _ _ _ hx2]
    show (s2.rl.update _ _).enabled = _
    rw [update_enabled, key1 _ _ _ _ _ _ _ hx1]

/-- `process()` never switches the rate limiter on or off -/
theorem process_rl_enabled (s : State) (doRx doTx : Bool) :
    (s.process doRx doTx).1.rl.enabled = s.rl.enabled :=
  processLoop_rl_enabled _ _ _ _ _

end Isotp.C08Pass
