import Isotp.Proofs.Tx
/-
  C02 — "Emitted frames are exactly the ISO-15765-2 segmentation of the payload."
  Property theorems (see DESIGN.md §6). Helper lemmas live in Isotp/Proofs/Pad.lean and Isotp/Proofs/Tx.lean.

  Reading guide.
  * `Spec.segment tc p` (Isotp/Spec/Segment.lean) is the reference segmentation; `segOf s p` is the same thing
    for the configuration/address of the layer state `s`; `msgFor s r0 p d` is the CAN message that must carry
    the data field `d` (arbitration id, 11/29-bit flag, FD / BRS flags of the configuration, DLC from the table).
  * `Fresh r0 p`: `r0` is the `SendRequest` for payload `p` as `send()` builds it; `Full r0 p`: the payload is a
    bytes object, or a generator that does yield at least `size` values (generators that end early are C17).
  * `TxInv0 s r0 p k`: `k` frames of `p` have been handed to the CAN layer and the transfer is still going on
    (queued at the head of the queue / first frame parked by the rate limiter / waiting for FC / sending CFs).
  * `Pass`, `RunRes`: outcome of one `_process_tx` pass / of an arbitrary run of API calls.
-/
namespace Isotp.C02
open Isotp Isotp.Spec Isotp.State Isotp.Proofs

/-! ## A. padding, DLC and message flags -/

/-- The model's padded length is the reference padded length (smallest legal CAN length that is at least the
    frame and at least the documented floor). -/
theorem padLen_agrees (c : Cfg) (a : Addr) (hv : c.valid = true) (n : Nat) (hn : n ≤ c.txDl) :
    padLen c n = some (padTarget (TxCfg.of c a) n) :=
  padLen_eq c _ (mirrors_of c a) hv n hn

/-- The padding byte is the configured one (0xCC by default). -/
theorem padByte_agrees (c : Cfg) (a : Addr) : Isotp.padByte c = Spec.padByte (TxCfg.of c a) :=
  padByte_eq c _ (mirrors_of c a)

/-- Padded frames have a legal CAN / CAN FD length, not above `tx_data_length`, and only append padding. -/
theorem padFrame_legal (tc : TxCfg) (hv : ValidTx tc) (d : Bytes) (hd : d.length ≤ tc.txDl) :
    legal (padFrame tc d).length ∧ (padFrame tc d).length ≤ tc.txDl ∧ d <+: padFrame tc d ∧
    padFrame tc d = d ++ List.replicate ((padFrame tc d).length - d.length) (Spec.padByte tc) := by
  obtain ⟨h1, h2, h3⟩ := frame_len_ok tc hv d hd
  refine ⟨h1, h2, h3, ?_⟩
  rw [length_padFrame]; rfl

/-- The DLC table: 0..8 ↦ itself, 12 ↦ 9, 16 ↦ 10, 20 ↦ 11, 24 ↦ 12, 32 ↦ 13, 48 ↦ 14, 64 ↦ 15. -/
theorem canDlc_table :
    (∀ n, n ≤ 8 → canDlc n = n) ∧ canDlc 12 = 9 ∧ canDlc 16 = 10 ∧ canDlc 20 = 11 ∧ canDlc 24 = 12 ∧
    canDlc 32 = 13 ∧ canDlc 48 = 14 ∧ canDlc 64 = 15 := by
  refine ⟨?_, by decide, by decide, by decide, by decide, by decide, by decide, by decide⟩
  intro n hn; simp [canDlc, hn]

/-- `_make_tx_msg` never fails on the frames the FSM builds (2..tx_data_length bytes) and produces: the reference
    padded data, the DLC of the table, the given arbitration id, and the 11/29-bit, FD and BRS flags of the
    configuration. -/
theorem makeTxMsg_frame (c : Cfg) (a : Addr) (hv : c.valid = true) (arbId : Nat) (d : Bytes)
    (h2 : 2 ≤ d.length) (hd : d.length ≤ c.txDl) :
    ∃ msg, makeTxMsg c a arbId d = some msg ∧ msg.id = arbId ∧ msg.ext = a.tx.mode.is29 ∧ msg.fd = c.canFd ∧
      msg.brs = c.brs ∧ msg.data = padFrame (TxCfg.of c a) d ∧ msg.dlc = canDlc msg.data.length ∧
      legal msg.data.length ∧ msg.data.length ≤ c.txDl :=
  ⟨_, makeTxMsg_eq c a hv arbId d h2 hd, rfl, rfl, rfl, rfl, rfl, rfl,
    (frame_len_ok _ (valid_of c a hv) d hd).1, (frame_len_ok _ (valid_of c a hv) d hd).2.1⟩

/-- The address prefix of every `Half` is at most one byte. -/
theorem txPrefix_le_one (h : Half) : h.txPrefix.length ≤ 1 := txPrefix_length_le h

/-- What `Params.validate` + the address classes guarantee makes the reference configuration valid. -/
theorem txCfg_valid (c : Cfg) (a : Addr) (hv : c.valid = true) : ValidTx (TxCfg.of c a) := valid_of c a hv

/-- The fields of the message built for a frame `d` of request `r0`. -/
theorem msgFor_fields (s : State) (r0 : Req) (p d : Bytes) :
    (msgFor s r0 p d).data = d ∧ (msgFor s r0 p d).dlc = canDlc d.length ∧
    (msgFor s r0 p d).ext = s.addr.tx.mode.is29 ∧ (msgFor s r0 p d).fd = s.cfg.canFd ∧
    (msgFor s r0 p d).brs = s.cfg.brs ∧
    (msgFor s r0 p d).id =
      s.addr.tx.txId (if NeedsFF (TxCfg.of s.cfg s.addr) p.length then .physical else r0.tat) :=
  ⟨rfl, rfl, rfl, rfl, rfl, rfl⟩

/-! ## B. shape of the reference segmentation -/

/-- (B1) Every frame has a legal CAN / CAN FD length not above `tx_data_length` and starts with the address prefix. -/
theorem segment_shape_frames (tc : TxCfg) (hv : ValidTx tc) (p d : Bytes) (hd : d ∈ segment tc p) :
    legal d.length ∧ d.length ≤ tc.txDl ∧ tc.pre <+: d :=
  segment_frames_legal tc hv p d hd

/-- (B2) One frame exactly when the payload fits a Single Frame (short or escape form). -/
theorem segment_shape_single (tc : TxCfg) (hv : ValidTx tc) (p : Bytes) :
    (segment tc p).length = 1 ↔ (sfShort tc p.length ∨ sfEscape tc p.length) :=
  segment_single_iff tc hv p

/-- The short Single Frame form is used iff the whole frame (with the configured minimum length) is ≤ 8 bytes. -/
theorem segment_shape_sfShort (tc : TxCfg) (p : Bytes) (h : sfShort tc p.length) :
    segment tc p = [padFrame tc (tc.pre ++ [UInt8.ofNat p.length] ++ p)] ∧
    tc.pre.length + 1 + p.length ≤ 8 ∧ floorLen tc ≤ 8 :=
  ⟨segment_sfShort tc p h, (sfShort_iff tc p.length).mp h⟩

/-- Otherwise the escape form, when it fits `tx_data_length`. -/
theorem segment_shape_sfEscape (tc : TxCfg) (p : Bytes) (h : sfEscape tc p.length) :
    segment tc p = [padFrame tc (tc.pre ++ [0x00, UInt8.ofNat p.length] ++ p)] :=
  segment_sfEscape tc p h

/-- Otherwise frame 0 is a First Frame announcing the true length (12-bit form up to 4095, 32-bit escape form
    above) and carrying the first `ffRoom` bytes; it is exactly `tx_data_length` long. -/
theorem segment_shape_ff (tc : TxCfg) (hv : ValidTx tc) (p : Bytes) (h : NeedsFF tc p.length) :
    (segment tc p)[0]? = some (padFrame tc (tc.pre ++ ffHeader p.length ++ p.take (ffRoom tc p.length))) ∧
    (tc.pre ++ ffHeader p.length ++ p.take (ffRoom tc p.length)).length = tc.txDl := by
  refine ⟨segment_ff_zero tc p h, ?_⟩
  have hlt := ffRoom_lt tc p.length h hv
  have hdl := txDl_fix tc hv
  have hpre := hv.pre
  simp only [List.length_append, List.length_take]
  rw [Nat.min_eq_left (by omega)]
  unfold ffHeader ffRoom be32
  split <;> simp <;> omega

/-- (B4) Frame `k ≥ 1` is the Consecutive Frame numbered `k mod 16` (1,2,…,15,0,1,…) carrying the next `cfRoom`
    bytes after the `carried k` bytes of the previous frames; there is no such frame once everything is carried. -/
theorem segment_shape_cf (tc : TxCfg) (hv : ValidTx tc) (p : Bytes) (h : NeedsFF tc p.length) (k : Nat) (hk : 1 ≤ k) :
    (segment tc p)[k]? =
      if carried tc p.length k < p.length then
        some (padFrame tc (tc.pre ++ [UInt8.ofNat (0x20 + k % 16)] ++ (p.drop (carried tc p.length k)).take (cfRoom tc)))
      else none :=
  segment_ff_succ tc hv p h k hk

/-- (B3) The First Frame part and the Consecutive Frame pieces, put back together, are the payload; every piece
    has 1..cfRoom bytes and only the last one can be short. -/
theorem segment_shape_payload (tc : TxCfg) (hv : ValidTx tc) (p : Bytes) :
    p.take (ffRoom tc p.length) ++ (chunks (cfRoom tc) (p.drop (ffRoom tc p.length))).flatten = p ∧
    ∀ i c, (chunks (cfRoom tc) (p.drop (ffRoom tc p.length)))[i]? = some c →
      1 ≤ c.length ∧ c.length ≤ cfRoom tc ∧
      ((chunks (cfRoom tc) (p.drop (ffRoom tc p.length)))[i + 1]? ≠ none → c.length = cfRoom tc) :=
  ⟨segment_payload tc hv p, fun i c h => chunks_piece _ (cfRoom_pos tc hv) _ i c h⟩

/-! ## concrete instance used by the non-vacuity examples: classic CAN, normal 11-bit addressing, 20-byte payload -/

def exCfg : Cfg := {}
def exHalf : Half := { mode := .n11, txid := some 0x123, rxid := some 0x456, ta := none, sa := none, ae := none,
                       physId := 0, funcId := 0, rxOnly := false, txOnly := false }
def exAddr : Addr := { tx := exHalf, rx := exHalf }
def exPayload : Bytes := (List.range 20).map UInt8.ofNat
def exReq : Req := { id := 7, size := 20, src := exPayload }
/-- an idle layer with the request queued -/
def exState : State := { State.init exCfg exAddr with txQueue := [exReq] }
/-- a ContinueToSend Flow Control (BS = 0, STmin = 0) from the peer -/
def exFc : CanMsg := { id := 0x456, ext := false, data := [0x30, 0x00, 0x00] }
/-- CAN FD, 64-byte frames, extended addressing, padding -/
def exCfgFd : Cfg := { txDl := 64, canFd := true, txPadding := some 0xAA, rlBitMax := 20000000 }

example : exCfg.valid = true := by decide
example : exCfgFd.valid = true := by decide
example : ValidTx (TxCfg.of exCfg exAddr) := valid_of _ _ (by decide)
example : segment (TxCfg.of exCfg exAddr) exPayload =
    [[0x10, 20, 0, 1, 2, 3, 4, 5], [0x21, 6, 7, 8, 9, 10, 11, 12], [0x22, 13, 14, 15, 16, 17, 18, 19]] := by decide
example : NeedsFF (TxCfg.of exCfg exAddr) exPayload.length := by decide
example : sfShort (TxCfg.of exCfg exAddr) 7 := by decide
example : sfEscape (TxCfg.of exCfgFd exAddr) 30 := by decide
example : segment (TxCfg.of exCfgFd exAddr) [1, 2, 3] = [[0x03, 1, 2, 3]] := by decide
example : segment (TxCfg.of { exCfg with txPadding := some 0xAA } exAddr) [1, 2, 3] =
    [[0x03, 1, 2, 3, 0xAA, 0xAA, 0xAA, 0xAA]] := by decide
example : (segment (TxCfg.of exCfgFd exAddr) (List.replicate 11 7)) =
    [[0x00, 11] ++ List.replicate 11 7 ++ [0xAA, 0xAA, 0xAA]] := by decide
example : makeTxMsg exCfg exAddr 0x123 [0x02, 0xAA, 0xBB] =
    some { id := 0x123, ext := false, data := [0x02, 0xAA, 0xBB], dlc := 3 } := by decide
example : makeTxMsg exCfgFd exAddr 0x123 ([0x00, 11] ++ List.replicate 11 7) =
    some { id := 0x123, ext := false, data := [0x00, 11] ++ List.replicate 11 7 ++ [0xAA, 0xAA, 0xAA], dlc := 10,
           fd := true } := by decide
theorem exFresh : Fresh exReq exPayload := ⟨⟨rfl, by decide, by decide, rfl⟩, rfl⟩
theorem exFull : Full exReq exPayload := by unfold Full; decide
example : TxQueued exState exReq := ⟨rfl, rfl, [], rfl⟩

/-! ## C. the transmit FSM emits the reference segmentation -/

/-- (C1) `startTx` on a fresh request: frame 0 of the reference segmentation is built with the right id / flags /
    DLC. It is emitted (`out = some …`) or parked in `standby` by the rate limiter (`TxInv … 0`); a Single Frame
    completes the request at once (`Finished`: FSM idle, `complete(True)` logged), a First Frame leaves the FSM
    waiting for the Flow Control with 1 frame out (`TxInv … 1`). -/
theorem startTx_segment (s : State) (r0 : Req) (allowed : Nat) (p : Bytes) (hv : s.cfg.valid = true)
    (hfr : Fresh r0 p) (hfull : Full r0 p) (h1 : 1 ≤ p.length) (hn : p.length < 4294967296) :
    Advance s (s.startTx r0 allowed).1 (s.startTx r0 allowed).2 r0 p 0 :=
  startTx_adv s r0 allowed p hv hfr h1 hn (Nat.le_trans (firstPull_le _ (valid_of _ _ hv) _) hfull)

example : Advance exState (exState.startTx exReq 1000).1 (exState.startTx exReq 1000).2 exReq exPayload 0 :=
  startTx_segment _ _ _ _ (by decide) exFresh exFull (by decide) (by decide)

/-- (C2) `transmitCf` with `k ≥ 1` frames out: it emits nothing and changes nothing about the progress, or emits
    exactly frame `k`; then either more frames remain (`TxInv … (k+1)`, still sending or waiting for the next FC) or
    `k` was the last frame and the request completed with `complete(True)`, FSM idle. -/
theorem transmitCf_segment (s : State) (allowed : Nat) (r0 : Req) (p : Bytes) (k : Nat)
    (hv : s.cfg.valid = true) (hfr : Fresh r0 p) (hfull : Full r0 p) (hi : TxProg s r0 p k)
    (hst : s.txState = .transmitCf) :
    Advance s (s.transmitCf allowed).1 (s.transmitCf allowed).2.1 r0 p k :=
  txFsm_prog_cf_enough s allowed r0 p k hv hfr hi hst (Nat.le_trans (carried_le _ _ _) hfull)

/-- (C3) One data pass of `_process_tx` from the moment the request is at the head of the queue: nothing emitted and
    the progress unchanged; or exactly frame `k` emitted and the progress advanced; or frame `k` was the last and the
    request completed; or the transfer failed (Overflow FC, N_Bs timeout, too many Wait frames): then
    `complete(False)` is logged and the FSM left the transfer. No Python exception is raised in the first three. -/
theorem processTx_segment (s : State) (r0 : Req) (p : Bytes) (k : Nat)
    (hv : s.cfg.valid = true) (hfr : Fresh r0 p) (h1 : 1 ≤ p.length) (hn : p.length < 4294967296)
    (hexc : s.exc = none) (hfc : FcOk s) (hd : fcPass s = false) (hi : TxInv0 s r0 p k) :
    Pass s s.processTx.1 s.processTx.2.1 r0 p k :=
  processTx_pass s r0 p k hv hfr h1 hn hexc hfc hd hi

example : Pass exState exState.processTx.1 exState.processTx.2.1 exReq exPayload 0 :=
  processTx_segment _ _ _ _ (by decide) exFresh (by decide) (by decide) rfl
    (by intro h; cases h) rfl (Or.inl ⟨rfl, rfl, rfl, [], rfl⟩)

/-- (C3) A pass that sends the Flow Control requested by the receive side emits that FC frame and does not touch the
    transfer. -/
theorem processTx_fc_pass (s : State) (r0 : Req) (p : Bytes) (k : Nat) (hv : s.cfg.valid = true) (hfc : FcOk s)
    (hd : fcPass s = true) (hi : TxInv0 s r0 p k) :
    ∃ st, s.pendingFcStatus = some st ∧ s.processTx.2.1 = some (fcMsg s st) ∧ TxInv0 s.processTx.1 r0 p k ∧
      Quiet s s.processTx.1 := by
  obtain ⟨st, hst, he⟩ := processTx_fc s hv hfc hd
  rw [he]
  exact ⟨st, hst, rfl, afterFcReq_inv0 s st r0 p k hi, afterFcReq_quiet s st⟩

/-- (C4) `_process_rx`, `_check_timeouts_rx`, `send`, `recv`, the passing of time and bus input do not touch the
    transfer in progress. -/
theorem ops_preserve (s : State) (o : Op) (r0 : Req) (p : Bytes) (k : Nat) (hi : TxInv0 s r0 p k) :
    TxInv0 (o.apply s) r0 p k ∧ (o.apply s).exc = s.exc ∧ (o.apply s).cfg = s.cfg ∧ (o.apply s).addr = s.addr :=
  ⟨Op.inv0 s o r0 p k hi, Op.exc s o, (Op.same s o).cfg, (Op.same s o).addr⟩

/-- (C3, end to end) From the moment the request for `p` is at the head of the queue of a layer that has not raised,
    for every sequence of API calls: the data frames handed to the CAN layer are exactly the next frames of the
    reference segmentation of `p`, in order, with the id / flags / DLC of part A — a strict prefix while the transfer
    is in flight, all of them when `complete(True)` is logged; otherwise the transfer failed at some pass. -/
theorem frames_are_segmentation (s0 : State) (r0 : Req) (p : Bytes) (hv : s0.cfg.valid = true) (hfr : Fresh r0 p)
    (h1 : 1 ≤ p.length) (hn : p.length < 4294967296) (steps : List Step) (s : State) (k : Nat)
    (hl : Live s0 s) (hi : TxInv0 s r0 p k) :
    RunRes s0 r0 p k steps s :=
  run_segment s0 r0 p hv hfr h1 hn steps s k hl hi

/-- the example transfer, end to end: FF, (FC from the peer), CF 1, CF 2 -/
example : (run [.tx, .op (.rx exFc), .tx, .tx] exState).2.map (·.data) = segment (TxCfg.of exCfg exAddr) exPayload := by
  decide
example : Ev.done 7 true ∈ (run [.tx, .op (.rx exFc), .tx, .tx] exState).1.log := by decide
example : Live exState exState := ⟨rfl, rfl, rfl, (by intro h; cases h), QLog.refl _⟩
example : RunRes exState exReq exPayload 0 [.tx, .op (.rx exFc), .tx, .tx] exState :=
  frames_are_segmentation _ _ _ (by decide) exFresh (by decide) (by decide) _ _ _
    ⟨rfl, rfl, rfl, (by intro h; cases h), QLog.refl _⟩ (Or.inl ⟨rfl, rfl, rfl, [], rfl⟩)

/-! ## D. `send()` refuses what cannot be announced -/

/-- A declared size of 2^32 or more (or a negative one) is refused with `ValueError`; nothing is queued. -/
theorem send_refuses (s : State) (a : SendArgs) (h : a.size > 0xFFFFFFFF ∨ a.size < 0) :
    s.send a = (s, some .ValueError) := by
  rcases h with h | h
  · exact send_too_big s a h
  · exact send_negative s a h

example : exState.send { id := 1, size := 4294967296, src := [] } = (exState, some .ValueError) :=
  send_refuses _ _ (Or.inl (by decide))

/-- Otherwise (and unless a functional request is too long for a Single Frame) the request is appended to the queue
    with the declared size, nothing pulled yet. -/
theorem send_queues (s : State) (a : SendArgs) (h0 : 0 ≤ a.size) (h1 : a.size ≤ 0xFFFFFFFF)
    (hf : ¬ (a.tat.getD s.cfg.defaultTat = .functional ∧
            a.size.toNat + (if s.cfg.txDl = 8 then 1 else 2) + s.txPrefixLen > s.cfg.txDl)) :
    (s.send a).1 = { s with txQueue := s.txQueue ++ [reqOf s a] } ∧
    (s.send a).2 = (if s.cfg.blocking then some .BlockingSendTimeout else none) :=
  send_accepts s a h0 h1 hf

/-- The queued request is `Fresh` for the first `size` values of a bytes payload / long-enough generator. -/
theorem send_fresh (s : State) (a : SendArgs) (p : Bytes) (hs : a.size = p.length) (hp : a.src.take p.length = p) :
    Fresh (reqOf s a) p ∧ Full (reqOf s a) p :=
  reqOf_fresh s a p hs hp

example : ((State.init exCfg exAddr).send { id := 7, size := 20, src := exPayload }).1.txQueue = [exReq] := by decide

end Isotp.C02

#print axioms Isotp.C02.padLen_agrees
#print axioms Isotp.C02.padByte_agrees
#print axioms Isotp.C02.padFrame_legal
#print axioms Isotp.C02.canDlc_table
#print axioms Isotp.C02.makeTxMsg_frame
#print axioms Isotp.C02.txPrefix_le_one
#print axioms Isotp.C02.txCfg_valid
#print axioms Isotp.C02.msgFor_fields
#print axioms Isotp.C02.segment_shape_frames
#print axioms Isotp.C02.segment_shape_single
#print axioms Isotp.C02.segment_shape_sfShort
#print axioms Isotp.C02.segment_shape_sfEscape
#print axioms Isotp.C02.segment_shape_ff
#print axioms Isotp.C02.segment_shape_cf
#print axioms Isotp.C02.segment_shape_payload
#print axioms Isotp.C02.startTx_segment
#print axioms Isotp.C02.transmitCf_segment
#print axioms Isotp.C02.processTx_segment
#print axioms Isotp.C02.processTx_fc_pass
#print axioms Isotp.C02.ops_preserve
#print axioms Isotp.C02.frames_are_segmentation
#print axioms Isotp.C02.send_refuses
#print axioms Isotp.C02.send_queues
#print axioms Isotp.C02.send_fresh
