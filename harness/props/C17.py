"""C17 - generator payloads are streamed lazily and size mismatches are caught."""
import gen
import ref
import trace
from props.base import PropBase
from props.C02 import tx_cfg, coop_rounds, fc_frame


class C17(PropBase):
    id = 'C17'
    address_change = 0.15
    rx_only_gaps = 0.1
    partial_passes = 0.25
    rx_only_passes = 0.4
    lean_modules = ['Isotp.Props.C17']
    theorems = []
    rule = ('send((generator, size)) with (declared, actual) pairs around every frame boundary: equal, shorter by 1..k, longer, empty, huge declared '
            'size; link sizes x prefix x BS/STmin of the peer; the pull counter of an instrumented generator is compared after every event with '
            'the bytes emitted; the same through an enabled rate limiter whose credit runs out between the payload and the full length of a frame; distinct = (tx_dl, prefix, declared, actual, bs)')
    assumptions = ['generator yields bytes']
    quick_per_shard = 120
    thorough_per_shard = 3000

    def limited_family(self, rng):
        """generator payload sent through an enabled rate limiter whose remaining credit is, at some point, at least a Consecutive Frame's
        payload but less than the whole frame (payload + PCI + address byte): nothing may be pulled for a frame that does not go out"""
        a, _ = gen.rand_addr_pair(rng, mode=rng.choice([0, 1, 3, 5, 6, 2]), asym_prob=0.1)
        params = {}
        if rng.random() < 0.4:
            params['tx_data_length'] = rng.choice(gen.TXDLS)
        txdl = params.get('tx_data_length', 8)
        pre = gen.prefix_len(a, 'tx')
        c = txdl - 1 - pre
        ff = txdl - 2 - pre
        w = 0.5
        k = rng.choice([1, 2, 5, 5, 9])
        B = k * txdl + rng.choice([c, c + pre, c - 1, rng.randrange(0, txdl)])
        B = max(B, txdl)
        params.update({'rate_limit_enable': True, 'rate_limit_window_size': w, 'rate_limit_max_bitrate': 16 * B})
        ops = [{'op': 'layer', 'i': 0, 'addr': a, 'params': params}]
        wns = int(w * 1e9)
        for rid in range(1, rng.choice([2, 3])):
            declared = ff + rng.choice([2, 4, 7, 12]) * c + rng.choice([0, 1, c - 1, -1])
            actual = max(0, declared + rng.choice([0, 0, 0, 5, -1, -c - 1]))
            ops.append({'op': 'send', 'i': 0, 'id': rid, 'gen': (declared, gen.rand_payload(rng, actual))})
            ops.append({'op': 'process', 'i': 0})
            fid, ext, data = fc_frame(a, 0, 0)
            nframes = declared // c + 3
            for _ in range((nframes * txdl // B + 3) * 3):
                ops.append({'op': 'frame', 'i': 0, 'id': fid, 'ext': ext, 'data': data})
                ops.append({'op': 'process', 'i': 0})
                if rng.random() < 0.3:
                    ops.append({'op': 'process', 'i': 0})
                ops.append({'op': 'tick', 'dt': rng.choice([wns // 2 + 1, wns + 1, wns // 3, 2 * wns])})
            for _ in range(3):
                ops.append({'op': 'tick', 'dt': wns + 6000000})
                ops.append({'op': 'process', 'i': 0})
        return {'ops': ops}

    def scenario(self, rng, tier):
        if rng.random() < 0.2:
            return self.limited_family(rng)
        a, _ = gen.rand_addr_pair(rng, mode=rng.choice([0, 1, 3, 5, 6, 2]), asym_prob=0.1)
        params = {}
        if rng.random() < 0.6:
            params['tx_data_length'] = rng.choice(gen.TXDLS)
        txdl = params.get('tx_data_length', 8)
        if rng.random() < 0.2:
            params['tx_data_min_length'] = rng.choice([m for m in gen.MINLENS if m <= txdl])
        pre = gen.prefix_len(a, 'tx')
        ops = [{'op': 'layer', 'i': 0, 'addr': a, 'params': params}]
        c = txdl - 1 - pre
        ff = txdl - 2 - pre
        for rid in range(1, rng.choice([2, 2, 3])):
            r = rng.random()
            if r < 0.08:
                declared = rng.choice([2**31, 2**32 - 1, 10**6])
                actual = rng.choice([0, 3, ff, ff + 2 * c + 1, 200])
            else:
                declared = rng.choice(gen.boundary_lengths(txdl, pre) + [0, ff + 5 * c + 3])
                actual = max(0, declared + rng.choice([0, 0, 0, -1, -2, -c, -c - 1, 1, 5, c, -declared]))
            sop = {'op': 'send', 'i': 0, 'id': rid, 'gen': (declared, gen.rand_payload(rng, actual))}
            if rng.random() < 0.06:
                # a generator that is already finished when send() gets it: it yields nothing
                sop['gen_pre'] = 'closed'
                sop['gen'] = (declared, b'')
            ops.append(sop)
            bs = rng.choice([0, 1, 2, 8])
            nframes = min(declared, actual + c) // c + 2
            k0 = len(ops)
            coop_rounds(ops, a, nframes, bs, rng.choice([0, 0, 1]))
            if rng.random() < 0.12 and len(ops) > k0 + 1:
                # the owner closes the generator while the layer is still sending from it (between two passes): nothing more comes out
                ops.insert(rng.randrange(k0, len(ops)), {'op': 'genclose', 'i': 0, 'id': rid})
            if declared > 10**5:
                ops.append({'op': 'stop_sending', 'i': 0})
        return {'ops': ops}

    def project(self, op_line, out_line):
        return trace.project_events(out_line, keep=('tx', 'pull', 'err', 'done'), status_keys=(), drop_times=True)

    def judge(self, sc, lines_in, impl_out):
        cfg = trace.layer_cfg(sc)
        a = cfg['addr']
        prefix = ref.tx_prefix(ref.half(a, 'tx'))
        tc = tx_cfg(cfg)
        txdl = tc['txdl']
        out = []
        info = {op['id']: op['gen'] for op in sc['ops'] if op['op'] == 'send'}
        pulled = {}
        wire = {}       # id -> payload bytes seen on the wire
        cur = None
        outcome = {}
        errs = {}
        order = []
        # scenarios run one request to its end before the next send(): events belong to the latest accepted request
        for r in trace.records(lines_in, impl_out):
            if r.op == 'genclose':
                rid_c = int(r.toks[2])
                d_c, a_c = info[rid_c]
                info[rid_c] = (d_c, bytes(a_c)[:pulled.get(rid_c, 0)])       # what the generator yielded before it was closed is all there is
            if r.op == 'send' and r.result == 'ok':
                cur = int(r.toks[2])
                order.append(cur)
                wire[cur] = b''
            for e in r.events:
                if e['k'] == 'pull':
                    pulled[e['id']] = pulled.get(e['id'], 0) + e['n']
                    declared, actual = info[e['id']]
                    if pulled[e['id']] > declared:
                        out.append(('beyond_size', 'request %d pulled %d values, declared size %d' % (e['id'], pulled[e['id']], declared)))
                    carried = len(wire.get(e['id'], b''))
                    if pulled[e['id']] > carried + txdl:
                        out.append(('lazy', 'request %d pulled %d values with only %d bytes emitted (more than one frame ahead)' % (
                            e['id'], pulled[e['id']], carried)))
                elif e['k'] == 'tx' and cur is not None:
                    c = ref.classify(e['data'][len(prefix):])
                    if c[0] == 'fc' or c[0] == 'bad':
                        continue
                    declared, actual = info[cur]
                    room = declared - len(wire[cur])
                    wire[cur] += c[2][:max(room, 0)]
                    if cur in errs and r.k > errs[cur]:
                        out.append(('short', 'frame emitted for request %d after BadGeneratorError' % cur))
                elif e['k'] == 'done':
                    outcome[e['id']] = e['ok']
                elif e['k'] == 'err' and e['name'] == 'BadGeneratorError' and cur is not None:
                    errs.setdefault(cur, r.k)
        for rid in order:
            declared, actual = info[rid]
            src = bytes(actual)
            w = wire.get(rid, b'')
            # padding of the last CF may be counted: compare only up to the declared size / what was yielded
            if len(src) >= declared:
                if outcome.get(rid) is True and w[:declared] != src[:declared]:
                    out.append(('exact', 'request %d: wire carries %s.., generator yielded %s..' % (rid, w[:8].hex(), src[:8].hex())))
                if rid in errs and declared <= 10**5:
                    out.append(('exact', 'request %d: BadGeneratorError although the generator yields %d >= %d values' % (rid, len(src), declared)))
            else:
                if outcome.get(rid) is True:
                    out.append(('short', 'request %d completed with success although the generator ended after %d of %d values' % (rid, len(src), declared)))
                if not src.startswith(w[:len(src)]) or len(w) > len(src) + txdl:
                    out.append(('short', 'request %d: wire bytes are not a prefix of what the generator yielded' % rid))
        return out[:3]

    def nontrivial_key(self, sc, lines_in, impl_out):
        p = trace.layer_cfg(sc)['params']
        if not any('pull:' in o for o in impl_out):
            return None
        return (p.get('tx_data_length', 8), tuple((op['gen'][0], len(op['gen'][1])) for op in sc['ops'] if op['op'] == 'send'))

    def tally(self, dist, sc, lines_in, impl_out):
        PropBase.tally(self, dist, sc, lines_in, impl_out)
        for op in sc['ops']:
            if op['op'] == 'send':
                d, a = op['gen'][0], len(op['gen'][1])
                k = 'gen:' + ('exact' if d == a else 'short' if a < d else 'long')
                dist[k] = dist.get(k, 0) + 1


PROP = C17()
