import Isotp.PyAgree.Exec2Bridge
import Isotp.PyAgree.EvalLemmas
import Isotp.Threaded
/-!
  Source agreement for the python-can adapters of `isotp/protocol.py` against the model (`Isotp/Threaded.lean`, section "python-can
  adapters": `PyCanMsg`, `pyCanToIsotp`, `isotpToPyCan`), FOR ALL INPUTS.

  1. `_python_can_to_isotp_message` = `pyCanToIsotp`   (`python_can_to_isotp_message_agrees_env`, `python_can_to_isotp_message_agrees`; first
     semantics).  The keyword constructor `CanMessage#arbitration_id#data#extended_id#is_fd#bitrate_switch` is an arbitrary `K`; it receives
     exactly `[id, data, ext, fd, brs]` of the model's `CanMsg`.  `dlc` is NOT passed (constructor default `0` = the model's default `0`:
     `pyCanToIsotp_dlc`).
  2. `python_can_tx_canbus_3plus` = `isotpToPyCan`     (`python_can_tx_canbus_3plus_agrees`): the run IS "`v ← can.Message#…(five fields of
     isotpToPyCan m)`; `owner.bus.send([v])`; return `None`", for an arbitrary constructor `K` and an arbitrary primitive `send` `S`;
     `python_can_tx_canbus_3plus_once` instantiates `S` with a call counter (`#send_calls` goes from `n` to `n + 1`, `#last_sent` is the object).
     `is_error_frame` / `is_remote_frame` are not passed (defaults `False` = the model's defaults: `isotpToPyCan_flags`).
  3. `_read_isotp_message` (`while True:`, second semantics `run2`; repaired defect D18)   (`read_loop`, `read_isotp_message_agrees`,
     `…_all`, `…_enc`).  Presentation:
     * the bus is the list `bus : List (Option PyCanMsg)` of what successive `read(timeout)` calls return (exhausted list = `None` for ever);
       the dumper's procedure `"can_msg:=read"` is `busRead bus`: it binds `can_msg` (and its seven attribute keys) to the element at the
       position kept under the history key `#bus_pos` and advances the position (not when the list is exhausted);
     * `time.perf_counter` is an INTEGER clock `clock : Nat → Int` that may advance with every read (the real one returns a float; so does
       `timeout`, an integer here).  The clock value only enters `t_end - time.perf_counter()` and `max(0, …)`, which are handed to `read`;
       in this presentation what `read` returns is given by the list and does not depend on that argument - so nothing is proved about
       the timeout arithmetic beyond "it evaluates without error and is passed on";
     * `_python_can_to_isotp_message` is the callee `convFn K` = item 1's model function `pyCanToIsotp` on the message `can_msg` stands for
       (`convFn_src`: it IS the interpreted source of item 1 under parameter passing).
     Theorem: for every bus and every starting position, with fuel `≥ consumed + 9` (hence `≥ 3 * |bus| + 10`) the call returns the reference
     `firstUsable` (defined by recursion; characterised by `firstUsable_found / _timeout / _exhausted / _cases`): the conversion of the FIRST
     data frame if no timed-out read precedes it - error / remote frames before it are SKIPPED (D18) -, `None` at the first timed-out read
     or when nothing is pending; and `#bus_pos` has advanced by exactly the number of results up to and including that point.
     Added hypothesis (the statement is false without it, `read_needs_object`): the constructor returns an object `obj c ≠ None` on the five
     fields (`hK`, `hobj`) - a Python constructor call never evaluates to `None`; if it did, `if msg is not None` would skip data frames too.
  4. `CanStack._rx_canbus`   (`rx_canbus_agrees`): one call `_read_isotp_message(self.bus.recv, timeout)`, result returned unchanged;
     `rx_canbus_linked`: with the callee given by the interpreted source of item 3 the value is `firstUsable`.

  Helper lemmas live in the namespace `Isotp.PyAgree.PyCan`.
-/
namespace Isotp.PyAgree
open Isotp Isotp.Py

namespace PyCan

theorem set_get (env : Env) (k : String) (v : PV) (k' : String) :
    (env.set k v) k' = if k' = k then some v else env k' := rfl

/-- the names the interpreter treats as builtins; every other call goes to `Meths` -/
def builtinNames : List String :=
  ["len", "int", "bool", "min", "max", "bytes", "isinstance_int", "isinstance_bool", "isinstance_float", "isinstance_int_float"]

theorem evalBuiltin_none (fn : String) (args : List PV) (h : fn ∉ builtinNames) : evalBuiltin fn args = none := by
  simp only [builtinNames, List.mem_cons, List.not_mem_nil, or_false, not_or] at h
  unfold evalBuiltin; split <;> simp_all

theorem beq_pnone_false (v : PV) (h : v ≠ pnone) : (v == pnone) = false := by simpa using h
theorem bne_pnone_true (v : PV) (h : v ≠ pnone) : (v != pnone) = true := by simpa using h

theorem eval_isNone_var (M : Meths) (env : Env) (x : String) (v : PV) (h : env x = some v) :
    eval M env (.isNone (.var x)) = .ok (pbool (v == pnone)) := by
  simp [eval, h]

theorem eval_isNotNone_var (M : Meths) (env : Env) (x : String) (v : PV) (h : env x = some v) :
    eval M env (.isNotNone (.var x)) = .ok (pbool (v != pnone)) := by
  simp [eval, h]

end PyCan
open PyCan

/-! ## 1. `_python_can_to_isotp_message` = `pyCanToIsotp` -/

/-- the five keyword arguments of `CanMessage(arbitration_id=, data=, extended_id=, is_fd=, bitrate_switch=)`, in call order, for a model
    message.  `dlc` is NOT passed by `_python_can_to_isotp_message`: the constructor's default (`dlc: int = 0`, isotp/can_message.py) applies,
    which is the default `dlc := 0` of the model's `CanMsg` that `pyCanToIsotp` leaves in place (`pyCanToIsotp_dlc`). -/
def canMessageArgs (c : CanMsg) : List PV := [pint c.id, .bytes c.data, pbool c.ext, pbool c.fd, pbool c.brs]

/-- the value `_python_can_to_isotp_message` returns: `None`, or what the `CanMessage` constructor `K` makes of the five fields -/
def convRes (K : List PV → Except PErr PV) : Option CanMsg → Except PErr PV
  | none => .ok pnone
  | some c => K (canMessageArgs c)

/-- the constructor `CanMessage#arbitration_id#data#extended_id#is_fd#bitrate_switch` (the dumper puts the keyword names, in call order, in
    the callee name) is ANY function `K` of the list of its arguments (as in `make_tx_msg_agrees`, MiscFrame.lean) -/
def convMeths (K : List PV → Except PErr PV) : Meths where
  fn name args _ :=
    match name with
    | "CanMessage#arbitration_id#data#extended_id#is_fd#bitrate_switch" => K args
    | _ => .error (.unsupported ("call " ++ name))
  proc name _ _ := .error (.unsupported ("call " ++ name))

theorem convMeths_ctor (K : List PV → Except PErr PV) (vs : List PV) (env : Env) :
    (convMeths K).fn "CanMessage#arbitration_id#data#extended_id#is_fd#bitrate_switch" vs env = K vs := rfl

/-- what an environment must show of the argument `msg`: `None`, or any non-`None` object whose seven attributes read by the function are
    the fields of the `PyCanMsg` -/
def MsgShows (env : Env) : Option PyCanMsg → Prop
  | none => env "msg" = some pnone
  | some m => (∃ v, env "msg" = some v ∧ v ≠ pnone) ∧
      env "msg.is_error_frame" = some (pbool m.isError) ∧ env "msg.is_remote_frame" = some (pbool m.isRemote) ∧
      env "msg.arbitration_id" = some (pint m.id) ∧ env "msg.data" = some (.bytes m.data) ∧
      env "msg.is_extended_id" = some (pbool m.ext) ∧ env "msg.is_fd" = some (pbool m.fd) ∧
      env "msg.bitrate_switch" = some (pbool m.brs)

/-- the environment of the task statement: `msg ↦ None`, or `msg ↦` an object (`.meth "m"`) with its attributes -/
def pyCanEnv : Option PyCanMsg → Env
  | none => fun k => match k with
    | "msg" => some pnone
    | _ => none
  | some m => fun k => match k with
    | "msg" => some (.meth "m")
    | "msg.is_error_frame" => some (pbool m.isError)
    | "msg.is_remote_frame" => some (pbool m.isRemote)
    | "msg.arbitration_id" => some (pint m.id)
    | "msg.data" => some (.bytes m.data)
    | "msg.is_extended_id" => some (pbool m.ext)
    | "msg.is_fd" => some (pbool m.fd)
    | "msg.bitrate_switch" => some (pbool m.brs)
    | _ => none

theorem pyCanEnv_shows (om : Option PyCanMsg) : MsgShows (pyCanEnv om) om := by
  cases om with
  | none => exact rfl
  | some m => exact ⟨⟨_, rfl, by simp⟩, rfl, rfl, rfl, rfl, rfl, rfl, rfl⟩

/-- **`_python_can_to_isotp_message(msg)` is the model's `pyCanToIsotp`**, in every environment that shows the argument: the call returns
    `None` when `pyCanToIsotp` is `none` (no message, error frame, remote frame) and otherwise the constructor applied to exactly the
    fields `id`, `data`, `ext`, `fd`, `brs` of the model's `CanMsg`; the environment is left as it is. -/
theorem python_can_to_isotp_message_agrees_env (K : List PV → Except PErr PV) (env : Env) (om : Option PyCanMsg) (h : MsgShows env om) :
    runFn (convMeths K) env Src.module_p_python_can_to_isotp_message = (convRes K (pyCanToIsotp om)).map (fun v => (v, env)) := by
  cases om with
  | none =>
    have h' : env "msg" = some pnone := h
    simp [runFn, Src.module_p_python_can_to_isotp_message, execBlock, execStmt, eval, h', pyCanToIsotp, convRes]
  | some m =>
    obtain ⟨⟨v, hv, hne⟩, h1, h2, h3, h4, h5, h6, h7⟩ := h
    have hb := beq_pnone_false v hne
    cases he : m.isError <;> cases hr : m.isRemote <;>
      simp [runFn, Src.module_p_python_can_to_isotp_message, execBlock, execStmt, eval, evalArgs, hv, hb, h1, h2, h3, h4, h5, h6, h7, he, hr,
        pyCanToIsotp, convRes, canMessageArgs, evalBuiltin_none _ _ (by decide : "CanMessage#arbitration_id#data#extended_id#is_fd#bitrate_switch" ∉ builtinNames),
        convMeths_ctor]
    cases K _ <;> rfl

/-- the same on the environment of the task statement, value only -/
theorem python_can_to_isotp_message_agrees (K : List PV → Except PErr PV) (om : Option PyCanMsg) :
    (runFn (convMeths K) (pyCanEnv om) Src.module_p_python_can_to_isotp_message).map (·.1) =
      match pyCanToIsotp om with
      | none => .ok pnone
      | some c => K [pint c.id, .bytes c.data, pbool c.ext, pbool c.fd, pbool c.brs] := by
  rw [python_can_to_isotp_message_agrees_env K _ om (pyCanEnv_shows om)]
  cases pyCanToIsotp om with
  | none => rfl
  | some c => simp only [convRes, canMessageArgs]; cases K _ <;> rfl

/-- `dlc` is not passed to the constructor, and the model's conversion leaves the `CanMsg` default: both are `0` -/
theorem pyCanToIsotp_dlc (om : Option PyCanMsg) (c : CanMsg) (h : pyCanToIsotp om = some c) : c.dlc = 0 := by
  cases om with
  | none => simp [pyCanToIsotp] at h
  | some m =>
    simp only [pyCanToIsotp] at h
    split at h
    · cases h
    · cases h; rfl

/-- when the conversion is `none` -/
theorem pyCanToIsotp_none_iff (om : Option PyCanMsg) :
    pyCanToIsotp om = none ↔ (om = none ∨ ∃ m, om = some m ∧ (m.isError = true ∨ m.isRemote = true)) := by
  cases om with
  | none => simp [pyCanToIsotp]
  | some m => cases he : m.isError <;> cases hr : m.isRemote <;> simp [pyCanToIsotp, he, hr]

/-! ## 2. `python_can_tx_canbus_3plus` = `isotpToPyCan` -/

/-- the five keyword arguments of `can.Message(arbitration_id=, data=, is_extended_id=, is_fd=, bitrate_switch=)`, in call order, for a
    model python-can message.  `is_error_frame` / `is_remote_frame` are not passed: the defaults of `can.Message` (`False`) apply, which
    are the defaults of the model's `PyCanMsg` that `isotpToPyCan` leaves in place (`isotpToPyCan_flags`). -/
def pyCanMessageArgs (p : PyCanMsg) : List PV := [pint p.id, .bytes p.data, pbool p.ext, pbool p.fd, pbool p.brs]

/-- `can.Message#…` is any function `K` of its argument list; `owner.bus.send` is any primitive procedure `S` -/
def pyCanTxMeths (K : List PV → Except PErr PV) (S : List PV → Env → Except PErr Env) : Meths where
  fn name args _ :=
    match name with
    | "can.Message#arbitration_id#data#is_extended_id#is_fd#bitrate_switch" => K args
    | _ => .error (.unsupported ("call " ++ name))
  proc name args env :=
    match name with
    | "owner.bus.send" => S args env
    | _ => .error (.unsupported ("call " ++ name))

theorem pyCanTxMeths_lookups (K : List PV → Except PErr PV) (S : List PV → Env → Except PErr Env) (vs : List PV) (env : Env) :
    (pyCanTxMeths K S).fn "can.Message#arbitration_id#data#is_extended_id#is_fd#bitrate_switch" vs env = K vs ∧
    (pyCanTxMeths K S).proc "owner.bus.send" vs env = S vs env := ⟨rfl, rfl⟩

/-- what an environment must show of the `CanMessage` argument `msg` (the attributes `python_can_tx_canbus_3plus` reads; `msg.dlc` is not
    read) -/
def IsotpMsgShows (env : Env) (m : CanMsg) : Prop :=
  env "msg.arbitration_id" = some (pint m.id) ∧ env "msg.data" = some (.bytes m.data) ∧
  env "msg.is_extended_id" = some (pbool m.ext) ∧ env "msg.is_fd" = some (pbool m.fd) ∧
  env "msg.bitrate_switch" = some (pbool m.brs)

def isotpMsgEnv (m : CanMsg) : Env := fun k =>
  match k with
  | "owner" => some (.meth "owner")
  | "msg" => some (.meth "msg")
  | "msg.arbitration_id" => some (pint m.id)
  | "msg.dlc" => some (pint m.dlc)
  | "msg.data" => some (.bytes m.data)
  | "msg.is_extended_id" => some (pbool m.ext)
  | "msg.is_fd" => some (pbool m.fd)
  | "msg.bitrate_switch" => some (pbool m.brs)
  | _ => none

theorem isotpMsgEnv_shows (m : CanMsg) : IsotpMsgShows (isotpMsgEnv m) m := ⟨rfl, rfl, rfl, rfl, rfl⟩

/-- **`python_can_tx_canbus_3plus(owner, msg)` is the model's `isotpToPyCan`**: the run is exactly "build `can.Message` from the five
    fields of `isotpToPyCan m`, then call `owner.bus.send` ONCE with that one object"; it returns `None`, in the environment `send` left. -/
theorem python_can_tx_canbus_3plus_agrees (K : List PV → Except PErr PV) (S : List PV → Env → Except PErr Env) (env : Env) (m : CanMsg)
    (h : IsotpMsgShows env m) :
    runFn (pyCanTxMeths K S) env Src.module_python_can_tx_canbus_3plus =
      (do let v ← K (pyCanMessageArgs (isotpToPyCan m))
          let env' ← S [v] env
          .ok (pnone, env')) := by
  obtain ⟨h1, h2, h3, h4, h5⟩ := h
  simp [runFn, Src.module_python_can_tx_canbus_3plus, execBlock, execStmt, eval, evalArgs, h1, h2, h3, h4, h5,
    evalBuiltin_none _ _ (by decide : "can.Message#arbitration_id#data#is_extended_id#is_fd#bitrate_switch" ∉ builtinNames),
    evalBuiltin_none _ _ (by decide : "owner.bus.send" ∉ builtinNames),
    (pyCanTxMeths_lookups K S _ env).1, (pyCanTxMeths_lookups K S _ env).2, pyCanMessageArgs, isotpToPyCan]
  cases K _ with
  | error e => rfl
  | ok v => simp only [ok_bind]; cases S [v] env <;> rfl

theorem isotpToPyCan_flags (m : CanMsg) : (isotpToPyCan m).isError = false ∧ (isotpToPyCan m).isRemote = false := ⟨rfl, rfl⟩

/-- a concrete `send`: it counts its calls under the history key `#send_calls` and keeps the object it was last given under `#last_sent` -/
def busSend : List PV → Env → Except PErr Env
  | [v], env =>
    (match env "#send_calls" with
     | some (.sc (.py (.int n))) => .ok ((env.set "#last_sent" v).set "#send_calls" (pint (n + 1)))
     | _ => .error (.exc .AttributeError))
  | _, _ => .error (.exc .TypeError)

/-- with the counting `send`: exactly one more call, and the object sent is the `can.Message` built from the fields of `isotpToPyCan m`;
    nothing else changes -/
theorem python_can_tx_canbus_3plus_once (K : List PV → Except PErr PV) (env : Env) (m : CanMsg) (n : Int) (v : PV)
    (h : IsotpMsgShows env m) (hn : env "#send_calls" = some (pint n)) (hK : K (pyCanMessageArgs (isotpToPyCan m)) = .ok v) :
    ∃ env', runFn (pyCanTxMeths K busSend) env Src.module_python_can_tx_canbus_3plus = .ok (pnone, env') ∧
      env' "#send_calls" = some (pint (n + 1)) ∧ env' "#last_sent" = some v ∧
      ∀ q, q ≠ "#send_calls" → q ≠ "#last_sent" → env' q = env q := by
  refine ⟨(env.set "#last_sent" v).set "#send_calls" (pint (n + 1)), ?_, by simp [set_get], by simp [set_get], ?_⟩
  · rw [python_can_tx_canbus_3plus_agrees K busSend env m h, hK]
    simp only [ok_bind, busSend, hn]
  · intro q h1 h2; simp [set_get, h1, h2]

/-! ## 3. `_read_isotp_message` (second semantics; repaired defect D18) -/

/-- The reference: what a call of `_read_isotp_message` returns on a bus whose successive `read(timeout)` calls give `bus` (and `None` for
    ever once the list is exhausted), and how many of these pending results it consumes.
    * nothing pending: `None`, nothing consumed;
    * the next read times out (`none`): `None`, that one read result consumed;
    * the next read gives an error / remote frame: SKIPPED (consumed), carry on with the rest - this is the repair of D18;
    * the next read gives a data frame: its conversion, that one result consumed. -/
def firstUsable : List (Option PyCanMsg) → Option CanMsg × Nat
  | [] => (none, 0)
  | none :: _ => (none, 1)
  | some m :: rest =>
    if m.isError || m.isRemote then ((firstUsable rest).1, (firstUsable rest).2 + 1)
    else (pyCanToIsotp (some m), 1)

/-- the attribute keys of the local `can_msg` the `read` primitive binds -/
def canMsgKeys : List String :=
  ["can_msg", "can_msg.is_error_frame", "can_msg.is_remote_frame", "can_msg.arbitration_id", "can_msg.data", "can_msg.is_extended_id",
   "can_msg.is_fd", "can_msg.bitrate_switch"]

/-- `can_msg = <a can.Message>`: the local and the seven attributes the code reads -/
def bindCanMsg (env : Env) (m : PyCanMsg) : Env := fun k =>
  match k with
  | "can_msg" => some (.meth "can.Message")
  | "can_msg.is_error_frame" => some (pbool m.isError)
  | "can_msg.is_remote_frame" => some (pbool m.isRemote)
  | "can_msg.arbitration_id" => some (pint m.id)
  | "can_msg.data" => some (.bytes m.data)
  | "can_msg.is_extended_id" => some (pbool m.ext)
  | "can_msg.is_fd" => some (pbool m.fd)
  | "can_msg.bitrate_switch" => some (pbool m.brs)
  | _ => env k

theorem bindCanMsg_lookups (env : Env) (m : PyCanMsg) :
    bindCanMsg env m "can_msg" = some (.meth "can.Message") ∧
    bindCanMsg env m "can_msg.is_error_frame" = some (pbool m.isError) ∧
    bindCanMsg env m "can_msg.is_remote_frame" = some (pbool m.isRemote) ∧
    bindCanMsg env m "can_msg.arbitration_id" = some (pint m.id) ∧
    bindCanMsg env m "can_msg.data" = some (.bytes m.data) ∧
    bindCanMsg env m "can_msg.is_extended_id" = some (pbool m.ext) ∧
    bindCanMsg env m "can_msg.is_fd" = some (pbool m.fd) ∧
    bindCanMsg env m "can_msg.bitrate_switch" = some (pbool m.brs) := ⟨rfl, rfl, rfl, rfl, rfl, rfl, rfl, rfl⟩

theorem bindCanMsg_other (env : Env) (m : PyCanMsg) (k : String) (h : k ∉ canMsgKeys) : bindCanMsg env m k = env k := by
  simp only [canMsgKeys, List.mem_cons, List.not_mem_nil, or_false, not_or] at h
  unfold bindCanMsg; split <;> simp_all

/-- the environment after one `can_msg = read(t)` at position `k`: `r = none`: nothing pending (the bus list is exhausted: `None`, the
    position stays); `r = some none`: this read timed out (`None`, one result consumed); `r = some (some m)`: a message -/
def afterRead (env : Env) (k : Nat) : Option (Option PyCanMsg) → Env
  | none => env.set "can_msg" pnone
  | some none => (env.set "can_msg" pnone).set "#bus_pos" (pint ((k + 1 : Nat) : Int))
  | some (some m) => (bindCanMsg env m).set "#bus_pos" (pint ((k + 1 : Nat) : Int))

/-- `can_msg = read(t)` as an effectful primitive (the dumper turns the assignment of the result of the CALLBACK `read` into the procedure
    `"can_msg:=read"`): the pending read results are `bus`, the history key `#bus_pos` counts how many have been consumed.  The timeout
    argument is accepted and ignored: in this presentation WHAT a read returns is given by the list, not computed from the timeout. -/
def busRead (bus : List (Option PyCanMsg)) (args : List PV) (env : Env) : Except PErr Env :=
  match args, env "#bus_pos" with
  | [_], some (.sc (.py (.int (.ofNat k)))) => .ok (afterRead env k bus[k]?)
  | _, _ => .error (.exc .AttributeError)

/-- `time.perf_counter()`: an integer clock that may advance with every read (`clock k` = the time when `k` results have been consumed).
    The real one returns a float; the value only enters `t_end - time.perf_counter()` and `max(0, …)`, which are handed to `read`. -/
def clockFn (clock : Nat → Int) (args : List PV) (env : Env) : Except PErr PV :=
  match args, env "#bus_pos" with
  | [], some (.sc (.py (.int (.ofNat k)))) => .ok (pint (clock k))
  | _, _ => .error (.exc .AttributeError)

/-- the `can.Message` the local `can_msg` stands for, read back from its attribute keys -/
def canMsgAttrs (env : Env) : Option PyCanMsg :=
  match env "can_msg.is_error_frame", env "can_msg.is_remote_frame", env "can_msg.arbitration_id", env "can_msg.data",
    env "can_msg.is_extended_id", env "can_msg.is_fd", env "can_msg.bitrate_switch" with
  | some (.sc (.py (.bool e))), some (.sc (.py (.bool r))), some (.sc (.py (.int (.ofNat i)))), some (.bytes d),
    some (.sc (.py (.bool x))), some (.sc (.py (.bool f))), some (.sc (.py (.bool b))) =>
    some { id := i, ext := x, data := d, fd := f, brs := b, isError := e, isRemote := r }
  | _, _, _, _, _, _, _ => none

/-- `_python_can_to_isotp_message(can_msg)` as a callee: item 1's MODEL function `pyCanToIsotp` (through `convRes K`), applied to the
    message the argument stands for (`convFn_src`: this is what interpreting the source of `_python_can_to_isotp_message` gives) -/
def convFn (K : List PV → Except PErr PV) (args : List PV) (env : Env) : Except PErr PV :=
  match args with
  | [v] =>
    if v = pnone then convRes K (pyCanToIsotp none)
    else match canMsgAttrs env with
      | some m => convRes K (pyCanToIsotp (some m))
      | none => .error (.exc .AttributeError)
  | _ => .error (.exc .TypeError)

/-- the callees of `_read_isotp_message` -/
def readMeths (bus : List (Option PyCanMsg)) (clock : Nat → Int) (K : List PV → Except PErr PV) : Meths where
  fn name args env :=
    match name with
    | "time.perf_counter" => clockFn clock args env
    | "_python_can_to_isotp_message" => convFn K args env
    | _ => .error (.unsupported ("call " ++ name))
  proc name args env :=
    match name with
    | "can_msg:=read" => busRead bus args env
    | _ => .error (.unsupported ("call " ++ name))

theorem readMeths_lookups (bus : List (Option PyCanMsg)) (clock : Nat → Int) (K : List PV → Except PErr PV) (vs : List PV) (env : Env) :
    (readMeths bus clock K).fn "time.perf_counter" vs env = clockFn clock vs env ∧
    (readMeths bus clock K).fn "_python_can_to_isotp_message" vs env = convFn K vs env ∧
    (readMeths bus clock K).proc "can_msg:=read" vs env = busRead bus vs env := ⟨rfl, rfl, rfl⟩

theorem busRead_at (bus : List (Option PyCanMsg)) (t : PV) (env : Env) (k : Nat) (hp : env "#bus_pos" = some (pint k)) :
    busRead bus [t] env = .ok (afterRead env k bus[k]?) := by
  unfold busRead; rw [hp]

theorem clockFn_at (clock : Nat → Int) (env : Env) (k : Nat) (hp : env "#bus_pos" = some (pint k)) :
    clockFn clock [] env = .ok (pint (clock k)) := by
  unfold clockFn; rw [hp]

/-- what an environment must show of the local `can_msg` when it is a message -/
def CanMsgShows (env : Env) (m : PyCanMsg) : Prop :=
  env "can_msg.is_error_frame" = some (pbool m.isError) ∧ env "can_msg.is_remote_frame" = some (pbool m.isRemote) ∧
  env "can_msg.arbitration_id" = some (pint m.id) ∧ env "can_msg.data" = some (.bytes m.data) ∧
  env "can_msg.is_extended_id" = some (pbool m.ext) ∧ env "can_msg.is_fd" = some (pbool m.fd) ∧
  env "can_msg.bitrate_switch" = some (pbool m.brs)

theorem canMsgAttrs_shows (env : Env) (m : PyCanMsg) (h : CanMsgShows env m) : canMsgAttrs env = some m := by
  obtain ⟨h1, h2, h3, h4, h5, h6, h7⟩ := h
  unfold canMsgAttrs; rw [h1, h2, h3, h4, h5, h6, h7]

theorem convFn_msg (K : List PV → Except PErr PV) (env : Env) (v : PV) (m : PyCanMsg) (hv : v ≠ pnone) (h : CanMsgShows env m) :
    convFn K [v] env = convRes K (pyCanToIsotp (some m)) := by
  simp only [convFn, hv, if_false, canMsgAttrs_shows env m h]

/-- parameter passing `_python_can_to_isotp_message(can_msg)`: the callee's `msg` is the caller's `can_msg` -/
def convCalleeEnv (v : PV) (env : Env) : Env := fun k =>
  match k with
  | "msg" => some v
  | "msg.is_error_frame" => env "can_msg.is_error_frame"
  | "msg.is_remote_frame" => env "can_msg.is_remote_frame"
  | "msg.arbitration_id" => env "can_msg.arbitration_id"
  | "msg.data" => env "can_msg.data"
  | "msg.is_extended_id" => env "can_msg.is_extended_id"
  | "msg.is_fd" => env "can_msg.is_fd"
  | "msg.bitrate_switch" => env "can_msg.bitrate_switch"
  | _ => none

/-- the callee entry `convFn` IS the interpreted source of `_python_can_to_isotp_message` (item 1), on `None` and on every message -/
theorem convFn_src (K : List PV → Except PErr PV) (env : Env) :
    convFn K [pnone] env = (runFn (convMeths K) (convCalleeEnv pnone env) Src.module_p_python_can_to_isotp_message).map (·.1) ∧
    ∀ (v : PV) (m : PyCanMsg), v ≠ pnone → CanMsgShows env m →
      convFn K [v] env = (runFn (convMeths K) (convCalleeEnv v env) Src.module_p_python_can_to_isotp_message).map (·.1) := by
  constructor
  · rw [python_can_to_isotp_message_agrees_env K (convCalleeEnv pnone env) none (show convCalleeEnv pnone env "msg" = some pnone from rfl)]
    simp [convFn, convRes, pyCanToIsotp]
  · intro v m hv h
    obtain ⟨h1, h2, h3, h4, h5, h6, h7⟩ := h
    rw [python_can_to_isotp_message_agrees_env K _ (some m) ⟨⟨v, rfl, hv⟩, h1, h2, h3, h4, h5, h6, h7⟩,
      convFn_msg K env v m hv ⟨h1, h2, h3, h4, h5, h6, h7⟩]
    cases convRes K (pyCanToIsotp (some m)) <;> rfl

namespace PyCan

/-- `can_msg = read(max(0, t_end - time.perf_counter()))` -/
def readStmt : PStmt :=
  .expr (.call "can_msg:=read" (.cons (.call "max" (.cons (.int (0)) (.cons (.binop .sub (.var "t_end") (.call "time.perf_counter" .nil)) .nil))) .nil))

/-- the rest of the loop body -/
def readTail : PBlock :=
  (.cons (.ite (.isNone (.var "can_msg")) (.cons (.ret .none) .nil) .nil)
  (.cons (.assign "msg" (.call "_python_can_to_isotp_message" (.cons (.var "can_msg") .nil)))
  (.cons (.ite (.isNotNone (.var "msg")) (.cons (.ret (.var "msg")) .nil) .nil)
  .nil)))

def readBody : PBlock := .cons readStmt readTail

def tEndStmt : PStmt := .assign "t_end" (.binop .add (.call "time.perf_counter" .nil) (.var "timeout"))

theorem read_src : Src.module_p_read_isotp_message = .cons tEndStmt (.cons (.while_ .tt readBody) .nil) := rfl

theorem builtin_max0 (x : Int) : evalBuiltin "max" [pint 0, pint x] = some (.ok (if x > 0 then pint x else pint 0)) := by
  simp [evalBuiltin, asInt, Sc.isInt, Sc.intVal, PyVal.isInt, PyVal.intVal]

section steps
variable (bus : List (Option PyCanMsg)) (clock : Nat → Int) (K : List PV → Except PErr PV)

/-- `t_end = time.perf_counter() + timeout` -/
theorem step_tEnd (env : Env) (k : Nat) (τ : Int) (hp : env "#bus_pos" = some (pint k)) (ht : env "timeout" = some (pint τ)) :
    execStmt (readMeths bus clock K) env tEndStmt = .ok (.next (env.set "t_end" (pint (clock k + τ)))) := by
  simp [tEndStmt, execStmt, eval, evalArgs, ht, evalBuiltin_none "time.perf_counter" _ (by decide),
    (readMeths_lookups bus clock K [] env).1, clockFn_at clock env k hp]

/-- the `read` statement: whatever the clock and `t_end` are, the environment after it is `afterRead` -/
theorem step_read (env : Env) (k : Nat) (te : Int) (hp : env "#bus_pos" = some (pint k)) (ht : env "t_end" = some (pint te)) :
    execStmt (readMeths bus clock K) env readStmt = .ok (.next (afterRead env k bus[k]?)) := by
  have hrd : ∀ t, (readMeths bus clock K).proc "can_msg:=read" [t] env = .ok (afterRead env k bus[k]?) :=
    fun t => (readMeths_lookups bus clock K [t] env).2.2.trans (busRead_at bus t env k hp)
  simp only [readStmt, execStmt, eval, evalArgs, ht, ok_bind, evalBuiltin_none "time.perf_counter" _ (by decide),
    (readMeths_lookups bus clock K [] env).1, clockFn_at clock env k hp, evalBinop_sub, builtin_max0,
    evalBuiltin_none "can_msg:=read" _ (by decide)]
  split <;> simp only [ok_bind, hrd]

/-- `msg = _python_can_to_isotp_message(can_msg)` -/
theorem step_conv (env : Env) (v r : PV) (hc : env "can_msg" = some v) (hr : convFn K [v] env = .ok r) :
    execStmt (readMeths bus clock K) env (.assign "msg" (.call "_python_can_to_isotp_message" (.cons (.var "can_msg") .nil))) =
      .ok (.next (env.set "msg" r)) := by
  simp [execStmt, eval, evalArgs, hc, evalBuiltin_none "_python_can_to_isotp_message" _ (by decide),
    (readMeths_lookups bus clock K [v] env).2.1, hr]

/-- the rest of the body when the read gave `None`: `return None` -/
theorem tail_stop (env : Env) (j : Nat) (hc : env "can_msg" = some pnone) :
    exec2B (j + 4) (readMeths bus clock K) env readTail = .ok (.ret pnone env) := by
  rw [readTail, exec2B_cons, exec2S_ite, eval_isNone_var _ _ _ _ hc]
  simp only [truthy_pbool, beq_self_eq_true, if_true]
  rw [exec2B_cons, exec2S_simple _ _ _ _ rfl]
  rfl

/-- the rest of the body when the read gave a message that converts to `None` (error / remote frame): falls through, `msg = None` -/
theorem tail_skip (env : Env) (j : Nat) (v : PV) (hc : env "can_msg" = some v) (hv : v ≠ pnone)
    (hr : convFn K [v] env = .ok pnone) :
    exec2B (j + 6) (readMeths bus clock K) env readTail = .ok (.next (env.set "msg" pnone)) := by
  rw [readTail, exec2B_cons, exec2S_ite, eval_isNone_var _ _ _ _ hc]
  simp only [truthy_pbool, beq_pnone_false v hv, Bool.false_eq_true, if_false, exec2B_nil]
  rw [exec2B_cons, exec2S_simple _ _ _ _ rfl]
  unfold simple2
  rw [step_conv bus clock K env v pnone hc hr]
  simp only [ofFlow]
  rw [exec2B_cons, exec2S_ite, eval_isNotNone_var _ _ "msg" pnone (by simp [set_get])]
  simp only [truthy_pbool, bne_self_eq_false, Bool.false_eq_true, if_false, exec2B_nil]

/-- the rest of the body when the read gave a message that converts to an object: `return msg` -/
theorem tail_found (env : Env) (j : Nat) (v r : PV) (hc : env "can_msg" = some v) (hv : v ≠ pnone)
    (hr : convFn K [v] env = .ok r) (hne : r ≠ pnone) :
    exec2B (j + 6) (readMeths bus clock K) env readTail = .ok (.ret r (env.set "msg" r)) := by
  have hm : (env.set "msg" r) "msg" = some r := by simp [set_get]
  rw [readTail, exec2B_cons, exec2S_ite, eval_isNone_var _ _ _ _ hc]
  simp only [truthy_pbool, beq_pnone_false v hv, Bool.false_eq_true, if_false, exec2B_nil]
  rw [exec2B_cons, exec2S_simple _ _ _ _ rfl]
  unfold simple2
  rw [step_conv bus clock K env v r hc hr]
  simp only [ofFlow]
  rw [exec2B_cons, exec2S_ite, eval_isNotNone_var _ _ "msg" r hm]
  simp only [truthy_pbool, bne_pnone_true r hne, if_true]
  rw [exec2B_cons, exec2S_simple _ _ _ _ rfl]
  simp only [simple2, execStmt, eval, hm, ok_bind, ofFlow]

/-- the whole body = the `read` statement, then the rest in the environment `afterRead` -/
theorem body_split (env : Env) (j k : Nat) (te : Int) (hp : env "#bus_pos" = some (pint k)) (ht : env "t_end" = some (pint te)) :
    exec2B (j + 2) (readMeths bus clock K) env readBody =
      exec2B (j + 1) (readMeths bus clock K) (afterRead env k bus[k]?) readTail := by
  rw [readBody, exec2B_cons, exec2S_simple _ _ _ _ rfl]
  unfold simple2
  rw [step_read bus clock K env k te hp ht]
  simp only [ofFlow]

end steps

/-- the keys the loop writes -/
def loopKeys : List String := "msg" :: "#bus_pos" :: canMsgKeys

theorem afterRead_pos (env : Env) (k : Nat) (r : Option PyCanMsg) :
    afterRead env k (some r) "#bus_pos" = some (pint ((k + 1 : Nat) : Int)) := by
  cases r <;> simp [afterRead, set_get]

theorem afterRead_other (env : Env) (k : Nat) (r : Option (Option PyCanMsg)) (q : String) (h : q ∉ loopKeys) :
    afterRead env k r q = env q := by
  have h' := h
  simp only [loopKeys, canMsgKeys, List.mem_cons, List.not_mem_nil, or_false, not_or] at h'
  have hk : q ∉ canMsgKeys := fun hq => h (by simp only [loopKeys, List.mem_cons]; exact .inr (.inr hq))
  rcases r with _ | _ | m
  · simp [afterRead, set_get, h'.2.2.1]
  · simp [afterRead, set_get, h'.2.2.1, h'.2.1]
  · simp [afterRead, set_get, h'.2.1, bindCanMsg_other env m q hk]

theorem afterRead_tEnd (env : Env) (k : Nat) (r : Option (Option PyCanMsg)) : afterRead env k r "t_end" = env "t_end" :=
  afterRead_other env k r "t_end" (by decide)

theorem afterRead_shows (env : Env) (k : Nat) (m : PyCanMsg) :
    afterRead env k (some (some m)) "can_msg" = some (.meth "can.Message") ∧ CanMsgShows (afterRead env k (some (some m))) m := by
  obtain ⟨l0, l1, l2, l3, l4, l5, l6, l7⟩ := bindCanMsg_lookups env m
  refine ⟨?_, ?_, ?_, ?_, ?_, ?_, ?_, ?_⟩ <;> simp [afterRead, set_get, l0, l1, l2, l3, l4, l5, l6, l7]

end PyCan

/-- a returned `Optional[CanMessage]` as a Python value, the objects being given by `obj` -/
def optObj (obj : CanMsg → PV) : Option CanMsg → PV
  | none => pnone
  | some c => obj c

/-- The loop `while True: …`, by induction on the pending read results.  `bus = pre ++ rest`, `pre` already consumed. -/
theorem read_loop (clock : Nat → Int) (K : List PV → Except PErr PV) (obj : CanMsg → PV)
    (hK : ∀ c, K (canMessageArgs c) = .ok (obj c)) (hobj : ∀ c, obj c ≠ pnone) :
    ∀ (rest pre : List (Option PyCanMsg)) (env : Env) (te : Int) (n : Nat),
      env "#bus_pos" = some (pint pre.length) → env "t_end" = some (pint te) → (firstUsable rest).2 + 7 ≤ n →
      ∃ env', exec2S n (readMeths (pre ++ rest) clock K) env (.while_ .tt readBody) =
          .ok (.ret (optObj obj (firstUsable rest).1) env') ∧
        env' "#bus_pos" = some (pint ((pre.length + (firstUsable rest).2 : Nat) : Int)) ∧
        ∀ q, q ∉ loopKeys → env' q = env q
  | [], pre, env, te, n, hp, ht, hn => by
    obtain ⟨j, rfl⟩ : ∃ j, n = j + 7 := ⟨n - 7, by omega⟩
    have hnone : (pre ++ ([] : List (Option PyCanMsg)))[pre.length]? = none := by simp
    refine ⟨afterRead env pre.length none, ?_, ?_, fun q hq => afterRead_other env _ _ q hq⟩
    · rw [exec2S_while]
      simp only [eval, truthy_pbool]
      rw [body_split _ clock K env (j + 4) pre.length te hp ht, hnone,
        tail_stop _ clock K _ (j + 1) (by simp [afterRead, set_get])]
      rfl
    · simp [afterRead, set_get, hp, firstUsable]
  | none :: rest, pre, env, te, n, hp, ht, hn => by
    obtain ⟨j, rfl⟩ : ∃ j, n = j + 8 := ⟨n - 8, by simp only [firstUsable] at hn; omega⟩
    have hat : (pre ++ none :: rest)[pre.length]? = some none := by simp
    refine ⟨afterRead env pre.length (some none), ?_, ?_, fun q hq => afterRead_other env _ _ q hq⟩
    · rw [exec2S_while]
      simp only [eval, truthy_pbool]
      rw [body_split _ clock K env (j + 5) pre.length te hp ht, hat,
        tail_stop _ clock K _ (j + 2) (by simp [afterRead, set_get])]
      rfl
    · rw [afterRead_pos]; rfl
  | some m :: rest, pre, env, te, n, hp, ht, hn => by
    have hat : (pre ++ some m :: rest)[pre.length]? = some (some m) := by simp
    obtain ⟨hcm, hsh⟩ := afterRead_shows env pre.length m
    have hconv := convFn_msg K (afterRead env pre.length (some (some m))) (.meth "can.Message") m (by simp) hsh
    by_cases hu : (m.isError || m.isRemote) = true
    · -- error / remote frame: skipped
      have hfu : firstUsable (some m :: rest) = ((firstUsable rest).1, (firstUsable rest).2 + 1) := by
        simp only [firstUsable, hu, if_true]
      rw [hfu] at hn ⊢
      simp only at hn ⊢
      obtain ⟨j, rfl⟩ : ∃ j, n = j + 8 := ⟨n - 8, by omega⟩
      have hnone : pyCanToIsotp (some m) = none := by simp only [pyCanToIsotp, hu, if_true]
      rw [hnone] at hconv
      have hbus : pre ++ some m :: rest = (pre ++ [some m]) ++ rest := by simp
      obtain ⟨env', hrun, hpos, hfr⟩ := read_loop clock K obj hK hobj rest (pre ++ [some m])
        ((afterRead env pre.length (some (some m))).set "msg" pnone) te (j + 7)
        (by simp [set_get, afterRead_pos]) (by simp [set_get, afterRead_tEnd, ht]) (by omega)
      refine ⟨env', ?_, ?_, ?_⟩
      · rw [exec2S_while]
        simp only [eval, truthy_pbool]
        rw [body_split _ clock K env (j + 5) pre.length te hp ht, hat,
          tail_skip _ clock K _ j _ hcm (by simp) hconv]
        simp only
        rw [hbus]
        exact hrun
      · rw [hpos]; simp only [List.length_append, List.length_singleton]; congr 3; omega
      · intro q hq
        have hq' := hq
        simp only [loopKeys, List.mem_cons, not_or] at hq'
        rw [hfr q hq, set_get, if_neg hq'.1, afterRead_other env _ _ q hq]
    · -- a data frame: converted and returned
      have hfu : firstUsable (some m :: rest) = (pyCanToIsotp (some m), 1) := by
        simp only [firstUsable, hu]; simp
      rw [hfu] at hn ⊢
      simp only at hn ⊢
      obtain ⟨j, rfl⟩ : ∃ j, n = j + 8 := ⟨n - 8, by omega⟩
      obtain ⟨c, hc⟩ : ∃ c, pyCanToIsotp (some m) = some c := by simp [pyCanToIsotp, hu]
      rw [hc] at hconv ⊢
      simp only [convRes, hK] at hconv
      refine ⟨(afterRead env pre.length (some (some m))).set "msg" (obj c), ?_, ?_, ?_⟩
      · rw [exec2S_while]
        simp only [eval, truthy_pbool]
        rw [body_split _ clock K env (j + 5) pre.length te hp ht, hat,
          tail_found _ clock K _ j _ (obj c) hcm (by simp) hconv (hobj c)]
        rfl
      · simp [set_get, afterRead_pos]
      · intro q hq
        have hq' := hq
        simp only [loopKeys, List.mem_cons, not_or] at hq'
        rw [set_get, if_neg hq'.1, afterRead_other env _ _ q hq]

/-- **`_read_isotp_message(read, timeout)`** (repaired D18), for EVERY list of pending read results and every starting position
    (`bus = pre ++ rest`, `pre` consumed before the call): with fuel `≥ (number of results consumed) + 9` the call returns the reference
    `firstUsable rest` - the conversion of the first data frame if no timed-out read precedes it, error / remote frames before it being
    skipped; `None` at the first timed-out read or when nothing is pending - and has consumed exactly `(firstUsable rest).2` results.
    Everything but the locals (`t_end`, `can_msg` and its attributes, `msg`) and the position is left as it was.
    Hypotheses: `#bus_pos` and the integer `timeout` are bound; the constructor `K` returns an object `obj c`, never `None`, on the five
    fields (a Python constructor call does not evaluate to `None`; without it a data frame would be skipped too - `read_needs_object`). -/
theorem read_isotp_message_agrees (clock : Nat → Int) (K : List PV → Except PErr PV) (obj : CanMsg → PV)
    (hK : ∀ c, K (canMessageArgs c) = .ok (obj c)) (hobj : ∀ c, obj c ≠ pnone)
    (pre rest : List (Option PyCanMsg)) (env : Env) (τ : Int) (n : Nat)
    (hp : env "#bus_pos" = some (pint pre.length)) (ht : env "timeout" = some (pint τ)) (hn : (firstUsable rest).2 + 9 ≤ n) :
    ∃ env', run2 n (readMeths (pre ++ rest) clock K) env Src.module_p_read_isotp_message =
        .ok (.ret (optObj obj (firstUsable rest).1) env') ∧
      env' "#bus_pos" = some (pint ((pre.length + (firstUsable rest).2 : Nat) : Int)) ∧
      ∀ q, q ∉ "t_end" :: loopKeys → env' q = env q := by
  obtain ⟨j, rfl⟩ : ∃ j, n = j + 2 := ⟨n - 2, by omega⟩
  obtain ⟨env', hrun, hpos, hfr⟩ := read_loop clock K obj hK hobj rest pre
    (env.set "t_end" (pint (clock pre.length + τ))) (clock pre.length + τ) j
    (by simp [set_get, hp]) (by simp [set_get]) (by omega)
  refine ⟨env', ?_, hpos, ?_⟩
  · unfold run2
    rw [read_src, exec2B_cons, exec2S_simple _ _ _ _ rfl]
    unfold simple2
    rw [step_tEnd _ clock K env pre.length τ hp ht]
    simp only [ofFlow]
    rw [exec2B_cons, hrun]
  · intro q hq
    simp only [List.mem_cons, not_or] at hq
    rw [hfr q hq.2, set_get, if_neg hq.1]

/-! ### the reference `firstUsable`, characterised -/

/-- error / remote frames in front are skipped and counted -/
theorem firstUsable_skip (sk : List PyCanMsg) (rest : List (Option PyCanMsg))
    (h : ∀ m ∈ sk, (m.isError || m.isRemote) = true) :
    firstUsable (sk.map some ++ rest) = ((firstUsable rest).1, sk.length + (firstUsable rest).2) := by
  induction sk with
  | nil => simp
  | cons m sk ih =>
    have hm := h m (by simp)
    have ih' := ih (fun x hx => h x (by simp [hx]))
    simp only [List.map_cons, List.cons_append, firstUsable, hm, if_true, ih', List.length_cons]
    congr 1; omega

/-- the FIRST data frame, when only error / remote frames precede it, is what is returned (converted: the five fields, `dlc = 0`); the
    frames before it and the frame itself are consumed, nothing after it -/
theorem firstUsable_found (sk : List PyCanMsg) (m : PyCanMsg) (rest : List (Option PyCanMsg))
    (h : ∀ x ∈ sk, (x.isError || x.isRemote) = true) (hm : m.isError = false ∧ m.isRemote = false) :
    firstUsable (sk.map some ++ some m :: rest) =
      (some { id := m.id, ext := m.ext, data := m.data, fd := m.fd, brs := m.brs }, sk.length + 1) := by
  rw [firstUsable_skip sk _ h]
  simp [firstUsable, pyCanToIsotp, hm.1, hm.2]

/-- a read that times out before any data frame: `None`; consumed up to and including it -/
theorem firstUsable_timeout (sk : List PyCanMsg) (rest : List (Option PyCanMsg)) (h : ∀ x ∈ sk, (x.isError || x.isRemote) = true) :
    firstUsable (sk.map some ++ none :: rest) = (none, sk.length + 1) := by
  rw [firstUsable_skip sk _ h]; rfl

/-- nothing but error / remote frames pending: `None`, all consumed -/
theorem firstUsable_exhausted (sk : List PyCanMsg) (h : ∀ x ∈ sk, (x.isError || x.isRemote) = true) :
    firstUsable (sk.map some) = (none, sk.length) := by
  have := firstUsable_skip sk [] h
  simpa [firstUsable] using this

/-- every bus is in exactly one of the three situations above -/
theorem firstUsable_cases (bus : List (Option PyCanMsg)) :
    ∃ (sk : List PyCanMsg) (rest : List (Option PyCanMsg)), bus = sk.map some ++ rest ∧ (∀ x ∈ sk, (x.isError || x.isRemote) = true) ∧
      (rest = [] ∨ (∃ r, rest = none :: r) ∨ ∃ m r, rest = some m :: r ∧ m.isError = false ∧ m.isRemote = false) := by
  induction bus with
  | nil => exact ⟨[], [], rfl, by simp, .inl rfl⟩
  | cons x bus ih =>
    cases x with
    | none => exact ⟨[], none :: bus, rfl, by simp, .inr (.inl ⟨bus, rfl⟩)⟩
    | some m =>
      by_cases hu : (m.isError || m.isRemote) = true
      · obtain ⟨sk, rest, hb, hs, hr⟩ := ih
        refine ⟨m :: sk, rest, by simp [hb], ?_, hr⟩
        intro y hy
        rcases List.mem_cons.mp hy with rfl | hy
        · exact hu
        · exact hs y hy
      · refine ⟨[], some m :: bus, rfl, by simp, .inr (.inr ⟨m, bus, rfl, ?_⟩)⟩
        cases he : m.isError <;> cases hr : m.isRemote <;> simp_all

/-- never more consumed than pending -/
theorem firstUsable_le (bus : List (Option PyCanMsg)) : (firstUsable bus).2 ≤ bus.length := by
  induction bus with
  | nil => simp [firstUsable]
  | cons x bus ih =>
    cases x with
    | none => simp [firstUsable]
    | some m => simp only [firstUsable]; split <;> simp <;> omega

/-! ### corollaries -/

/-- from the start of the bus, with the fuel bound `3 * |bus| + 10` -/
theorem read_isotp_message_agrees_all (clock : Nat → Int) (K : List PV → Except PErr PV) (obj : CanMsg → PV)
    (hK : ∀ c, K (canMessageArgs c) = .ok (obj c)) (hobj : ∀ c, obj c ≠ pnone)
    (bus : List (Option PyCanMsg)) (env : Env) (τ : Int) (n : Nat)
    (hp : env "#bus_pos" = some (pint 0)) (ht : env "timeout" = some (pint τ)) (hn : 3 * bus.length + 10 ≤ n) :
    ∃ env', run2 n (readMeths bus clock K) env Src.module_p_read_isotp_message = .ok (.ret (optObj obj (firstUsable bus).1) env') ∧
      env' "#bus_pos" = some (pint ((firstUsable bus).2 : Nat)) ∧
      ∀ q, q ∉ "t_end" :: PyCan.loopKeys → env' q = env q := by
  have hle := firstUsable_le bus
  obtain ⟨env', h1, h2, h3⟩ := read_isotp_message_agrees clock K obj hK hobj [] bus env τ n hp ht (by omega)
  refine ⟨env', by simpa using h1, ?_, h3⟩
  rw [h2]; simp

/-- a concrete `CanMessage` object: the list `[id, extended, dlc, fd, brs] ++ data` (the layout of LayerTx.lean / MiscFrame.lean), with the
    constructor's default `dlc = 0` -/
def pyCanObj (c : CanMsg) : PV :=
  .list ([.py (.int c.id), .py (.bool c.ext), .py (.int 0), .py (.bool c.fd), .py (.bool c.brs)] ++
    c.data.map (fun b => Sc.py (.int b.toNat)))

/-- the five-keyword constructor for that representation -/
def pyCanCtor : List PV → Except PErr PV
  | [.sc (.py (.int i)), .bytes data, .sc (.py (.bool e)), .sc (.py (.bool f)), .sc (.py (.bool b))] =>
    .ok (.list ([.py (.int i), .py (.bool e), .py (.int 0), .py (.bool f), .py (.bool b)] ++ data.map (fun b => Sc.py (.int b.toNat))))
  | _ => .error (.unsupported "CanMessage arguments")

theorem pyCanCtor_args (c : CanMsg) : pyCanCtor (canMessageArgs c) = .ok (pyCanObj c) := rfl
theorem pyCanObj_ne_none (c : CanMsg) : pyCanObj c ≠ pnone := by simp [pyCanObj]

/-- the two hypotheses on the constructor are satisfiable: `_read_isotp_message` with the concrete constructor, every bus -/
theorem read_isotp_message_agrees_enc (clock : Nat → Int) (bus : List (Option PyCanMsg)) (env : Env) (τ : Int) (n : Nat)
    (hp : env "#bus_pos" = some (pint 0)) (ht : env "timeout" = some (pint τ)) (hn : 3 * bus.length + 10 ≤ n) :
    ∃ env', run2 n (readMeths bus clock pyCanCtor) env Src.module_p_read_isotp_message =
        .ok (.ret (optObj pyCanObj (firstUsable bus).1) env') ∧
      env' "#bus_pos" = some (pint ((firstUsable bus).2 : Nat)) :=
  let ⟨env', h1, h2, _⟩ := read_isotp_message_agrees_all clock pyCanCtor pyCanObj pyCanCtor_args pyCanObj_ne_none bus env τ n hp ht hn
  ⟨env', h1, h2⟩

/-- an environment that binds what the call needs -/
def readEnv (pos : Nat) (τ : Int) : Env := fun k =>
  match k with
  | "read" => some (.meth "self.bus.recv")
  | "timeout" => some (pint τ)
  | "#bus_pos" => some (pint pos)
  | _ => none

theorem readEnv_lookups (pos : Nat) (τ : Int) :
    readEnv pos τ "#bus_pos" = some (pint pos) ∧ readEnv pos τ "timeout" = some (pint τ) := ⟨rfl, rfl⟩

/-- **D18, as it was reported**: an error frame followed by a data frame.  The call returns the DATA frame (before the repair it returned
    `None`, "nothing received", and the caller went to sleep with a frame pending) and both results are consumed. -/
theorem read_skips_error_frame (clock : Nat → Int) (e d : PyCanMsg) (he : e.isError = true) (hd : d.isError = false ∧ d.isRemote = false)
    (rest : List (Option PyCanMsg)) (τ : Int) (n : Nat) (hn : 11 ≤ n) :
    ∃ env', run2 n (readMeths (some e :: some d :: rest) clock pyCanCtor) (readEnv 0 τ) Src.module_p_read_isotp_message =
        .ok (.ret (pyCanObj { id := d.id, ext := d.ext, data := d.data, fd := d.fd, brs := d.brs }) env') ∧
      env' "#bus_pos" = some (pint 2) := by
  have hfu : firstUsable (some e :: some d :: rest) =
      (some { id := d.id, ext := d.ext, data := d.data, fd := d.fd, brs := d.brs }, 2) :=
    firstUsable_found [e] d rest (by simp [he]) hd
  obtain ⟨env', h1, h2, -⟩ := read_isotp_message_agrees clock pyCanCtor pyCanObj pyCanCtor_args pyCanObj_ne_none []
    (some e :: some d :: rest) (readEnv 0 τ) τ n rfl rfl (by rw [hfu]; omega)
  rw [hfu] at h1 h2
  exact ⟨env', by simpa [optObj] using h1, by simpa using h2⟩

/-- the hypothesis "the constructor returns an object, not `None`" is needed: with a constructor that returns `None` a data frame is
    skipped like an error frame (here: one data frame pending, the call returns `None`) -/
theorem read_needs_object :
    ∃ env', run2 20 (readMeths [some { id := 1, ext := false, data := [], fd := false, brs := false }] (fun _ => 0) (fun _ => .ok pnone))
      (readEnv 0 0) Src.module_p_read_isotp_message = .ok (.ret pnone env') := ⟨_, rfl⟩

/-- the fuel bound `consumed + 9` is what the loop needs: with one data frame pending 10 units end the run, 9 do not -/
example :
    let bus : List (Option PyCanMsg) := [some { id := 1, ext := false, data := [2, 3], fd := false, brs := false }]
    (∃ env', run2 10 (readMeths bus (fun _ => 0) pyCanCtor) (readEnv 0 0) Src.module_p_read_isotp_message =
      .ok (.ret (pyCanObj { id := 1, ext := false, data := [2, 3] }) env')) ∧
    run2 9 (readMeths bus (fun _ => 0) pyCanCtor) (readEnv 0 0) Src.module_p_read_isotp_message = .error .outOfFuel := by
  intro bus
  obtain ⟨env', h, -⟩ := read_isotp_message_agrees (fun _ => 0) pyCanCtor pyCanObj pyCanCtor_args pyCanObj_ne_none [] bus (readEnv 0 0) 0 10
    rfl rfl (by decide)
  exact ⟨⟨env', h⟩, rfl⟩

/-! ## 4. `CanStack._rx_canbus` -/

/-- `_read_isotp_message` as a callee: any function `R` of its argument list and of the caller's environment -/
def rxCanbusMeths (R : List PV → Env → Except PErr PV) : Meths where
  fn name args env :=
    match name with
    | "_read_isotp_message" => R args env
    | _ => .error (.unsupported ("call " ++ name))
  proc name _ _ := .error (.unsupported ("call " ++ name))

theorem rxCanbusMeths_read (R : List PV → Env → Except PErr PV) (vs : List PV) (env : Env) :
    (rxCanbusMeths R).fn "_read_isotp_message" vs env = R vs env := rfl

/-- **`CanStack._rx_canbus(self, timeout)`**: ONE call `_read_isotp_message(self.bus.recv, timeout)` - the bound method `self.bus.recv`
    and the caller's `timeout`, in that order - whose result is returned unchanged. -/
theorem rx_canbus_agrees (R : List PV → Env → Except PErr PV) (env : Env) (recv t : PV)
    (hr : env "self.bus.recv" = some recv) (ht : env "timeout" = some t) :
    runFn (rxCanbusMeths R) env Src.CanStack_p_rx_canbus = (R [recv, t] env).map (fun v => (v, env)) := by
  simp [runFn, Src.CanStack_p_rx_canbus, execBlock, execStmt, eval, evalArgs, hr, ht,
    evalBuiltin_none _ _ (by decide : "_read_isotp_message" ∉ builtinNames), rxCanbusMeths_read]
  cases R [recv, t] env <;> rfl

/-- parameter passing `_read_isotp_message(self.bus.recv, timeout)`: the callee's `read` and `timeout`; the position on the bus is shared -/
def readCalleeEnv (recv t : PV) (env : Env) : Env := fun k =>
  match k with
  | "read" => some recv
  | "timeout" => some t
  | "#bus_pos" => env "#bus_pos"
  | _ => none

/-- `_read_isotp_message` as a callee given by its INTERPRETED source (item 3), with `fuel` units: the value it returns -/
def readFnOfSrc (bus : List (Option PyCanMsg)) (clock : Nat → Int) (K : List PV → Except PErr PV) (fuel : Nat) :
    List PV → Env → Except PErr PV
  | [recv, t], env =>
    (match run2 fuel (readMeths bus clock K) (readCalleeEnv recv t env) Src.module_p_read_isotp_message with
     | .ok (.ret v _) => .ok v
     | _ => .error (.unsupported "the callee did not return"))
  | _, _ => .error (.exc .TypeError)

/-- **`CanStack._rx_canbus` linked to the interpreted `_read_isotp_message`**: the value returned is the reference `firstUsable` of the
    pending read results.  (A call in expression position cannot change the caller's environment in this embedding: that the position
    advances by `(firstUsable rest).2` is the effect of the primitive `read` inside the callee, stated by `read_isotp_message_agrees`.) -/
theorem rx_canbus_linked (clock : Nat → Int) (K : List PV → Except PErr PV) (obj : CanMsg → PV)
    (hK : ∀ c, K (canMessageArgs c) = .ok (obj c)) (hobj : ∀ c, obj c ≠ pnone)
    (pre rest : List (Option PyCanMsg)) (env : Env) (recv : PV) (τ : Int) (fuel : Nat)
    (hr : env "self.bus.recv" = some recv) (ht : env "timeout" = some (pint τ)) (hp : env "#bus_pos" = some (pint pre.length))
    (hf : (firstUsable rest).2 + 9 ≤ fuel) :
    runFn (rxCanbusMeths (readFnOfSrc (pre ++ rest) clock K fuel)) env Src.CanStack_p_rx_canbus =
      .ok (optObj obj (firstUsable rest).1, env) := by
  obtain ⟨env', h, -⟩ := read_isotp_message_agrees clock K obj hK hobj pre rest (readCalleeEnv recv (pint τ) env) τ fuel hp rfl hf
  rw [rx_canbus_agrees _ env recv (pint τ) hr ht]
  simp only [readFnOfSrc, h, map_ok]

end Isotp.PyAgree

#print axioms Isotp.PyAgree.python_can_to_isotp_message_agrees_env
#print axioms Isotp.PyAgree.python_can_to_isotp_message_agrees
#print axioms Isotp.PyAgree.pyCanToIsotp_dlc
#print axioms Isotp.PyAgree.pyCanToIsotp_none_iff
#print axioms Isotp.PyAgree.python_can_tx_canbus_3plus_agrees
#print axioms Isotp.PyAgree.python_can_tx_canbus_3plus_once
#print axioms Isotp.PyAgree.convFn_src
#print axioms Isotp.PyAgree.read_loop
#print axioms Isotp.PyAgree.read_isotp_message_agrees
#print axioms Isotp.PyAgree.read_isotp_message_agrees_all
#print axioms Isotp.PyAgree.read_isotp_message_agrees_enc
#print axioms Isotp.PyAgree.read_skips_error_frame
#print axioms Isotp.PyAgree.read_needs_object
#print axioms Isotp.PyAgree.firstUsable_skip
#print axioms Isotp.PyAgree.firstUsable_found
#print axioms Isotp.PyAgree.firstUsable_timeout
#print axioms Isotp.PyAgree.firstUsable_exhausted
#print axioms Isotp.PyAgree.firstUsable_cases
#print axioms Isotp.PyAgree.firstUsable_le
#print axioms Isotp.PyAgree.rx_canbus_agrees
#print axioms Isotp.PyAgree.rx_canbus_linked
