import Isotp.Address
import Isotp.Pdu
/-
  Configuration record, timers, rate limiter, finite byte generator,
  padding / DLC helpers (`_pad_message_data`, `_get_dlc`, `_get_nearest_can_fd_size`,
  `_make_tx_msg`, `_make_flow_control`).
-/
namespace Isotp

/-- The validated parameters, with the float-valued ones already converted by Python
    (see DESIGN §3.1: `tFc`, `tCf`, `overrideStminNs`, `rlWindowNs`, `rlBitMax`). -/
structure Cfg where
  stmin        : Nat := 0
  blocksize    : Nat := 8
  overrideStminNs : Option Nat := none
  tFc          : Nat := 1000000000
  tCf          : Nat := 1000000000
  txPadding    : Option Nat := none
  wftmax       : Nat := 0
  txDl         : Nat := 8
  txMinLen     : Option Nat := none
  maxFrameSize : Nat := 4095
  canFd        : Bool := false
  brs          : Bool := false
  defaultTat   : Tat := .physical
  rlEnable     : Bool := false
  rlWindowNs   : Nat := 200000000
  rlBitMax     : Nat := 20000000
  listen       : Bool := false
  blocking     : Bool := false
  deriving DecidableEq, Repr, Inhabited

def validTxDl (n : Nat) : Bool := n = 8 || n = 12 || n = 16 || n = 20 || n = 24 || n = 32 || n = 48 || n = 64

def validMinLen (n : Nat) : Bool := (1 ≤ n && n ≤ 8) || (validTxDl n)

/-- What `Params.validate` guarantees about the integer-valued parameters
    (the decidable hypothesis `H-cfg` of the theorems). -/
def Cfg.valid (c : Cfg) : Bool :=
  validTxDl c.txDl && c.stmin ≤ 255 && c.blocksize ≤ 255 &&
  (match c.txPadding with | none => true | some p => p ≤ 255) &&
  (match c.txMinLen with | none => true | some m => validMinLen m && m ≤ c.txDl) &&
  (c.rlBitMax ≥ c.txDl * 8)

/-! ### Timer (isotp/tools.py), integer nanoseconds -/

structure Timer where
  start   : Option Nat := none
  timeout : Nat := 0
  deriving DecidableEq, Repr, Inhabited

namespace Timer
def stop (t : Timer) : Timer := { t with start := none }
def startAt (t : Timer) (now : Nat) : Timer := { t with start := some now }
def timedOut (t : Timer) (now : Nat) : Bool :=
  match t.start with
  | none => false
  | some s => now - s > t.timeout || t.timeout == 0
def remaining (t : Timer) (now : Nat) : Nat :=
  match t.start with
  | none => 0
  | some s => t.timeout - (now - s)
end Timer

/-! ### RateLimiter -/

def slotNs : Nat := 5000000
def noLimit : Nat := 0xFFFFFFFF

structure Limiter where
  enabled  : Bool := false
  slots    : List (Nat × Nat) := []     -- (burst_time ns, burst_bitcount), oldest first
  bitTotal : Nat := 0
  deriving DecidableEq, Repr, Inhabited

namespace Limiter
def reset (l : Limiter) : Limiter := { l with slots := [], bitTotal := 0 }

/-- the `while` loop of `update`: drop expired slots from the front. -/
def expire (w now : Nat) : List (Nat × Nat) → Nat → List (Nat × Nat) × Nat
  | [], bt => ([], bt)
  | (t, b) :: rest, bt => if now - t > w then expire w now rest (bt - b) else ((t, b) :: rest, bt)

def update (l : Limiter) (w now : Nat) : Limiter :=
  if !l.enabled then l.reset
  else
    let (sl, bt) := expire w now l.slots l.bitTotal
    { l with slots := sl, bitTotal := bt }

def allowedBytes (l : Limiter) (bitMax : Nat) : Nat :=
  if !l.enabled then noLimit else (bitMax - l.bitTotal) / 8

/-- `inform_byte_sent`: append to the last slot or open a new one. -/
def addToLast (now bits : Nat) : List (Nat × Nat) → List (Nat × Nat)
  | [] => [(now, bits)]
  | [(t, b)] => if now - t > slotNs then [(t, b), (now, bits)] else [(t, b + bits)]
  | x :: rest => x :: addToLast now bits rest

def inform (l : Limiter) (now datalen : Nat) : Limiter :=
  if l.enabled then
    { l with bitTotal := l.bitTotal + datalen * 8, slots := addToLast now (datalen * 8) l.slots }
  else l
end Limiter

/-! ### FiniteByteGenerator + SendRequest -/

structure Req where
  id       : Nat
  size     : Nat            -- declared size
  src      : Bytes          -- what the generator will still yield
  consumed : Nat := 0
  depletedFlag : Bool := false
  tat      : Tat := .physical
  instr    : Bool := false  -- generator instrumented by the harness (pull events)
  deriving DecidableEq, Repr, Inhabited

namespace Req
def remaining (r : Req) : Nat := r.size - r.consumed
def depleted (r : Req) : Bool := r.size ≤ r.consumed || r.depletedFlag

/-- `consume(n, enforce_exact)`: new request state, number pulled, and the data or
    `none` when `BadGeneratorError` is raised. -/
def consume (r : Req) (n : Nat) (exact : Bool) : Req × Option Bytes :=
  let data := r.src.take n
  let r1 := { r with src := r.src.drop n, consumed := r.consumed + data.length }
  if r1.consumed > r1.size then (r1, none)
  else if data.length < n then
    let r2 := { r1 with depletedFlag := true }
    if exact then (r2, none) else (r2, some data)
  else (r1, some data)
end Req

/-! ### padding and DLC -/

/-- `_get_nearest_can_fd_size`; `none` = `ValueError`. -/
def nearestFd (n : Nat) : Option Nat :=
  if n ≤ 8 then some n
  else if n ≤ 12 then some 12
  else if n ≤ 16 then some 16
  else if n ≤ 20 then some 20
  else if n ≤ 24 then some 24
  else if n ≤ 32 then some 32
  else if n ≤ 48 then some 48
  else if n ≤ 64 then some 64
  else none

/-- length after `_pad_message_data`; `none` = `ValueError` (from `_get_nearest_can_fd_size`). -/
def padLen (c : Cfg) (n : Nat) : Option Nat :=
  if c.txDl = 8 then
    match c.txMinLen with
    | none => match c.txPadding with
      | some _ => some (max n 8)
      | none => some n
    | some m => some (max n m)
  else if c.txDl > 8 then
    match nearestFd n with
    | none => none
    | some f => match c.txMinLen with
      | none => some (max n f)
      | some m => some (max n (max m f))
  else some n

def padByte (c : Cfg) : UInt8 := u8 ((c.txPadding.getD 0xCC) % 256)

def pad (c : Cfg) (d : Bytes) : Option Bytes :=
  match padLen c d.length with
  | none => none
  | some t => some (d ++ List.replicate (t - d.length) (padByte c))

/-- `_get_dlc(data, validate_tx=True)`; `none` = `ValueError`. -/
def dlcOf (c : Cfg) (n : Nat) : Option Nat :=
  match nearestFd n with
  | none => none
  | some f =>
    if c.txDl = 8 && (f < 2 || f > 8) then none
    else if 2 ≤ f && f ≤ 8 then some f
    else if f = 12 then some 9
    else if f = 16 then some 10
    else if f = 20 then some 11
    else if f = 24 then some 12
    else if f = 32 then some 13
    else if f = 48 then some 14
    else if f = 64 then some 15
    else none

/-- `_make_tx_msg`; `none` = `ValueError`. -/
def makeTxMsg (c : Cfg) (a : Addr) (arbId : Nat) (d : Bytes) : Option CanMsg :=
  match pad c d with
  | none => none
  | some pd =>
    match dlcOf c pd.length with
    | none => none
    | some dl => some { id := arbId, ext := a.tx.mode.is29, data := pd, dlc := dl, fd := c.canFd, brs := c.brs }

def fcData (status bs stmin : Nat) : Bytes := [u8 (0x30 + status % 16), u8 (bs % 256), u8 (stmin % 256)]

def makeFlowControl (c : Cfg) (a : Addr) (status : Nat) : Option CanMsg :=
  makeTxMsg c a (a.tx.txId .physical) (a.tx.txPrefix ++ fcData status c.blocksize c.stmin)

end Isotp
