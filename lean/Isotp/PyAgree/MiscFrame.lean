import Isotp.PyAgree.MiscFd
import Isotp.Frame
import Isotp.Proofs.Pad
/-!
  Source agreement: `_pad_message_data` = `pad`, `_make_tx_msg` = `makeTxMsg` (for ALL configurations and ALL byte strings).

  * `pad_message_data_agrees`, `make_tx_msg_agrees` carry NO hypothesis: the two sides agree on every `Cfg`, validated or not
    (`tx_data_length < 8`: neither pads; `tx_padding > 255`: `& 0xFF` = the model's `% 256`; `tx_data_min_length` of any size;
    more than 64 bytes with `tx_data_length > 8`: `ValueError` = `none`).  No disagreement was found.
  * `Cfg.valid` and `d.length ≤ c.txDl` only enter the consistency corollaries of section 3 (legal CAN / CAN FD length `≤ tx_data_length`),
    which are the lemmas of `Isotp/Proofs/Pad.lean` transported to the source; `make_tx_msg_long_frame` / `make_tx_msg_short_frame`
    show the two side conditions are needed.
  * helper lemmas live in the namespace `Isotp.PyAgree.MiscFrame` (generic names such as `set_get`, `nth` exist in other leaves).
-/
namespace Isotp.PyAgree
open Isotp Isotp.Py

namespace MiscFrame

theorem set_get (env : Env) (k : String) (v : PV) (k' : String) :
    (env.set k v) k' = if k' = k then some v else env k' := rfl

/-- the n-th top-level statement of a block -/
def nth : PBlock → Nat → PStmt
  | .nil, _ => .pass
  | .cons s _, 0 => s
  | .cons _ r, n + 1 => nth r n

/-- the block from its n-th top-level statement on -/
def dropB : PBlock → Nat → PBlock
  | b, 0 => b
  | .nil, _ + 1 => .nil
  | .cons _ r, n + 1 => dropB r n

theorem flatten_replicate_one {α : Type} (k : Nat) (x : α) : (List.replicate k [x]).flatten = List.replicate k x := by
  induction k with
  | zero => rfl
  | succ k ih => simp [List.replicate_succ, ih]

theorem bytesOfScs_replicate (k b : Nat) (hb : b ≤ 255) :
    bytesOfScs (List.replicate k (Sc.py (.int (b : Int)))) = .ok (List.replicate k (u8 b)) := by
  have hb' : (b : Int) ≤ 255 := by omega
  induction k with
  | zero => rfl
  | succ k ih => simp [List.replicate_succ, bytesOfScs, Sc.isInt, Sc.intVal, PyVal.isInt, PyVal.intVal, hb', u8, ih]

theorem evalBinop_add_bytes (x y : Bytes) : evalBinop .add (.bytes x) (.bytes y) = .ok (.bytes (x ++ y)) := rfl
theorem evalBinop_mul_list (xs : List Sc) (k : Int) :
    evalBinop .mul (.list xs) (pint k) = .ok (.list ((List.replicate k.toNat xs).flatten)) := rfl

/-- a one-element list literal -/
theorem lst1_eval (M : Meths) (env : Env) (e : PExpr) (s : Sc) (h : eval M env e = .ok (.sc s)) :
    eval M env (.lst (.cons e .nil)) = .ok (.list [s]) := by
  simp only [eval, evalArgs, h, ok_bind]
  rfl

abbrev padSrc : PBlock := Src.TransportLayerLogic_p_pad_message_data

/-- the body is five statements: two assignments, the `if / elif` that chooses `must_pad` / `target_length`, the padding `if`, `return msg_data` -/
theorem padSrc_split : padSrc = .cons (nth padSrc 0) (.cons (nth padSrc 1) (.cons (nth padSrc 2) (dropB padSrc 3))) := rfl

/-- `msg_data + bytes([padding_byte & 0xFF] * (target_length - len(msg_data)))` -/
theorem pad_expr_eval (M : Meths) (env : Env) (d : Bytes) (t pb : Nat)
    (hd : env "msg_data" = some (.bytes d)) (ht : env "target_length" = some (pint t)) (hp : env "padding_byte" = some (pint pb)) :
    eval M env (.binop .add (.var "msg_data") (.call "bytes" (.cons (.binop .mul (.lst (.cons (.binop .band (.var "padding_byte") (.int (255))) .nil))
      (.binop .sub (.var "target_length") (.call "len" (.cons (.var "msg_data") .nil)))) .nil))) =
    .ok (.bytes (d ++ List.replicate (t - d.length) (u8 (pb % 256)))) := by
  have hb : eval M env (.binop .band (.var "padding_byte") (.int (255))) = .ok (.sc (.py (.int ((pb % 256 : Nat) : Int)))) := by
    simp only [eval, hp, ok_bind]
    rw [evalBinop_band _ _ (Int.natCast_nonneg _) (by decide)]
    simp [and_ff]
  have hk : ((t : Int) - (d.length : Int)).toNat = t - d.length := by omega
  have h255 : pb % 256 ≤ 255 := by omega
  have hl := lst1_eval M env _ _ hb
  have hlen : eval M env (.call "len" (.cons (.var "msg_data") .nil)) = .ok (pint d.length) := by
    simp only [eval, evalArgs, hd, ok_bind, builtin_len_bytes]
  have hsub : eval M env (.binop .sub (.var "target_length") (.call "len" (.cons (.var "msg_data") .nil))) =
      .ok (pint ((t : Int) - (d.length : Int))) := by
    rw [eval, hlen]; simp only [eval, ht, ok_bind, evalBinop_sub]
  have hmul : eval M env (.binop .mul (.lst (.cons (.binop .band (.var "padding_byte") (.int (255))) .nil))
      (.binop .sub (.var "target_length") (.call "len" (.cons (.var "msg_data") .nil)))) =
      .ok (.list (List.replicate (t - d.length) (.py (.int ((pb % 256 : Nat) : Int))))) := by
    rw [eval, hl, hsub]; simp only [ok_bind, evalBinop_mul_list, hk, flatten_replicate_one]
  have hcall : eval M env (.call "bytes" (.cons (.binop .mul (.lst (.cons (.binop .band (.var "padding_byte") (.int (255))) .nil))
      (.binop .sub (.var "target_length") (.call "len" (.cons (.var "msg_data") .nil)))) .nil)) =
      .ok (.bytes (List.replicate (t - d.length) (u8 (pb % 256)))) := by
    rw [eval, evalArgs, hmul, evalArgs]
    simp only [ok_bind, builtin_bytes_list, bytesOfScs_replicate _ _ h255, map_ok]
  rw [eval, hcall]
  simp only [eval, hd, ok_bind, evalBinop_add_bytes]

/-- `must_pad and len(msg_data) < target_length` (`target_length` is only read when `must_pad` is true) -/
theorem pad_cond_eval (M : Meths) (env : Env) (d : Bytes) (t : Nat)
    (hd : env "msg_data" = some (.bytes d)) (hm : env "must_pad" = some (pbool true)) (ht : env "target_length" = some (pint t)) :
    eval M env (.and_ (.var "must_pad") (.cmp .lt (.call "len" (.cons (.var "msg_data") .nil)) (.var "target_length"))) =
      .ok (pbool (decide (d.length < t))) := by
  simp [eval, evalArgs, hd, hm, ht, builtin_len_bytes, evalCmp_lt_pint]

/-- the last two statements: the padding `if` and `return msg_data` -/
theorem pad_tail (M : Meths) (env : Env) (d : Bytes) (mp : Bool) (t pb : Nat)
    (hd : env "msg_data" = some (.bytes d)) (hm : env "must_pad" = some (pbool mp))
    (ht : mp = true → env "target_length" = some (pint t)) (hp : env "padding_byte" = some (pint pb)) :
    execBlock M env (dropB padSrc 3) =
      .ok (.returned (.bytes (if mp then d ++ List.replicate (t - d.length) (u8 (pb % 256)) else d)) env) := by
  cases mp with
  | false => simp [dropB, padSrc, Src.TransportLayerLogic_p_pad_message_data, execBlock, execStmt, eval, hm, hd]
  | true =>
    have ht := ht rfl
    have hc := pad_cond_eval M env d t hd hm ht
    have he := pad_expr_eval M env d t pb hd ht hp
    simp only [dropB, padSrc, Src.TransportLayerLogic_p_pad_message_data]
    rw [execBlock, execStmt, hc]
    by_cases hlt : d.length < t
    · simp only [hlt, decide_true, ok_bind, truthy_pbool, if_true]
      rw [execBlock, execStmt, he]
      rfl
    · have h0 : t - d.length = 0 := by omega
      simp [hlt, execBlock, execStmt, eval, hd, h0]

/-- the value a block returns (`None` when it falls off the end) -/
def flowVal : Flow → PV
  | .next _ => pnone
  | .returned v _ => v

theorem retM_eq (M : Meths) (env : Env) (b : PBlock) : retM M env b = (execBlock M env b).map flowVal := by
  unfold retM runFn
  cases execBlock M env b with
  | error e => rfl
  | ok f => cases f <;> rfl

/-- `some d'` = the function returns `d'`, `none` = it raises `ValueError` (the convention of the model) -/
def bytesRes : Option Bytes → Except PErr PV
  | some b => .ok (.bytes b)
  | none => .error (.exc .ValueError)

theorem max_cast (m f : Nat) : (if m < f then (f : Int) else (m : Int)) = ((max m f : Nat) : Int) := by
  split <;> omega

theorem pad_of_len_max (c : Cfg) (d : Bytes) (t : Nat) (h : padLen c d.length = some (max d.length t)) :
    pad c d = some (d ++ List.replicate (t - d.length) (u8 (c.txPadding.getD 204 % 256))) := by
  have e : max d.length t - d.length = t - d.length := by omega
  unfold pad
  rw [h]
  simp only [e]
  rfl

theorem pad_of_len_same (c : Cfg) (d : Bytes) (h : padLen c d.length = some d.length) : pad c d = some d := by
  unfold pad
  rw [h]
  simp

theorem pad_of_len_none (c : Cfg) (d : Bytes) (h : padLen c d.length = none) : pad c d = none := by
  unfold pad
  rw [h]

/-- what the tail returns when `must_pad` is true, as the caller sees it -/
theorem pad_tail_true (env : Env) (c : Cfg) (d : Bytes) (t : Nat)
    (hd : env "msg_data" = some (.bytes d)) (hm : env "must_pad" = some (pbool true))
    (ht : env "target_length" = some (pint t)) (hp : env "padding_byte" = some (pint (c.txPadding.getD 204)))
    (hl : padLen c d.length = some (max d.length t)) :
    (execBlock dlcMeths env (dropB padSrc 3)).map flowVal = bytesRes (pad c d) := by
  rw [pad_tail dlcMeths env d true t _ hd hm (fun _ => ht) hp, pad_of_len_max c d t hl]
  rfl

theorem pad_tail_false (env : Env) (c : Cfg) (d : Bytes)
    (hd : env "msg_data" = some (.bytes d)) (hm : env "must_pad" = some (pbool false))
    (hp : env "padding_byte" = some (pint (c.txPadding.getD 204)))
    (hl : padLen c d.length = some d.length) :
    (execBlock dlcMeths env (dropB padSrc 3)).map flowVal = bytesRes (pad c d) := by
  rw [pad_tail dlcMeths env d false 0 _ hd hm (by simp) hp, pad_of_len_same c d hl]
  rfl

theorem dropB2 : dropB padSrc 2 = .cons (nth padSrc 2) (dropB padSrc 3) := rfl

/-- from the third statement on, in any environment that has the parameters, the argument and the two locals set so far -/
theorem pad_from2 (c : Cfg) (d : Bytes) (env : Env)
    (hpad : env "self.params.tx_padding" = some (optPV c.txPadding))
    (hdl : env "self.params.tx_data_length" = some (pint c.txDl))
    (hmin : env "self.params.tx_data_min_length" = some (optPV c.txMinLen))
    (hd : env "msg_data" = some (.bytes d))
    (hm : env "must_pad" = some (pbool false))
    (hp : env "padding_byte" = some (pint (c.txPadding.getD 204))) :
    (execBlock dlcMeths env (dropB padSrc 2)).map flowVal = bytesRes (pad c d) := by
  rw [dropB2, execBlock]
  by_cases h8 : c.txDl = 8
  · cases hml : c.txMinLen with
    | none =>
      cases hpd : c.txPadding with
      | none =>
        have h3 : execStmt dlcMeths env (nth padSrc 2) = .ok (.next env) := by
          simp [nth, padSrc, Src.TransportLayerLogic_p_pad_message_data, execStmt, execBlock, eval, hpad, hdl, hmin, h8, hml, hpd, optPV]
        simp only [h3, ok_bind]
        exact pad_tail_false env c d hd hm hp (by simp [padLen, h8, hml, hpd])
      | some p =>
        have h3 : execStmt dlcMeths env (nth padSrc 2) =
            .ok (.next ((env.set "must_pad" (pbool true)).set "target_length" (pint (8 : Nat)))) := by
          simp [nth, padSrc, Src.TransportLayerLogic_p_pad_message_data, execStmt, execBlock, eval, hpad, hdl, hmin, h8, hml, hpd, optPV]
        simp only [h3, ok_bind]
        exact pad_tail_true _ c d 8 (by simp [set_get, hd]) (by simp [set_get]) (by simp [set_get]) (by simp [set_get, hp])
          (by simp [padLen, h8, hml, hpd])
    | some m =>
      have h3 : execStmt dlcMeths env (nth padSrc 2) =
          .ok (.next ((env.set "must_pad" (pbool true)).set "target_length" (pint m))) := by
        simp [nth, padSrc, Src.TransportLayerLogic_p_pad_message_data, execStmt, execBlock, eval, hpad, hdl, hmin, h8, hml, optPV, set_get]
      simp only [h3, ok_bind]
      exact pad_tail_true _ c d m (by simp [set_get, hd]) (by simp [set_get]) (by simp [set_get]) (by simp [set_get, hp])
        (by simp [padLen, h8, hml])
  · by_cases h9 : 8 < c.txDl
    · have hgt : c.txDl > 8 := h9
      cases hn : nearestFd d.length with
      | none =>
        have h3 : execStmt dlcMeths env (nth padSrc 2) = .error (.exc .ValueError) := by
          cases hml : c.txMinLen <;>
          simp [nth, padSrc, Src.TransportLayerLogic_p_pad_message_data, execStmt, execBlock, eval, evalArgs, hpad, hdl, hmin, hd, h8, h9, hml,
            optPV, set_get, evalCmp_gt_pint, cast_eq_lit, lit_lt_cast, builtin_len_bytes, builtin_nearest, dlcMeths, hn, optRes]
        rw [h3, pad_of_len_none c d (by simp [padLen, h8, hgt, hn])]
        rfl
      | some f =>
        cases hml : c.txMinLen with
        | none =>
          have h3 : execStmt dlcMeths env (nth padSrc 2) =
              .ok (.next ((env.set "target_length" (pint f)).set "must_pad" (pbool true))) := by
            simp [nth, padSrc, Src.TransportLayerLogic_p_pad_message_data, execStmt, execBlock, eval, evalArgs, hpad, hdl, hmin, hd, h8, h9, hml,
              optPV, set_get, evalCmp_gt_pint, cast_eq_lit, lit_lt_cast, builtin_len_bytes, builtin_nearest, dlcMeths, hn, optRes]
          simp only [h3, ok_bind]
          exact pad_tail_true _ c d f (by simp [set_get, hd]) (by simp [set_get]) (by simp [set_get]) (by simp [set_get, hp])
            (by simp [padLen, h8, hgt, hn, hml])
        | some m =>
          have h3 : execStmt dlcMeths env (nth padSrc 2) =
              .ok (.next ((env.set "must_pad" (pbool true)).set "target_length" (pint (max m f : Nat)))) := by
            simp [nth, padSrc, Src.TransportLayerLogic_p_pad_message_data, execStmt, execBlock, eval, evalArgs, hpad, hdl, hmin, hd, h8, h9, hml,
              optPV, set_get, evalCmp_gt_pint, cast_eq_lit, lit_lt_cast, builtin_len_bytes, builtin_nearest, dlcMeths, hn, optRes,
              builtin_max_pint, max_cast]
          simp only [h3, ok_bind]
          exact pad_tail_true _ c d (max m f) (by simp [set_get, hd]) (by simp [set_get]) (by simp [set_get]) (by simp [set_get, hp])
            (by simp [padLen, h8, hgt, hn, hml])
    · have hgt : ¬ c.txDl > 8 := h9
      have h3 : execStmt dlcMeths env (nth padSrc 2) = .ok (.next env) := by
        simp [nth, padSrc, Src.TransportLayerLogic_p_pad_message_data, execStmt, execBlock, eval, hpad, hdl, hmin, h8, h9,
          evalCmp_gt_pint, cast_eq_lit, lit_lt_cast]
      simp only [h3, ok_bind]
      exact pad_tail_false env c d hd hm hp (by simp [padLen, h8, hgt])

end MiscFrame

/-! ### 1. `_pad_message_data` -/

/-- the argument of `_pad_message_data(msg_data)` and the three parameters it reads -/
def padEnv (c : Cfg) (d : Bytes) : Env := fun k =>
  match k with
  | "msg_data" => some (.bytes d)
  | "self.params.tx_padding" => some (optPV c.txPadding)
  | "self.params.tx_data_length" => some (pint c.txDl)
  | "self.params.tx_data_min_length" => some (optPV c.txMinLen)
  | _ => constEnv k

theorem padEnv_lookups (c : Cfg) (d : Bytes) :
    padEnv c d "msg_data" = some (.bytes d) ∧
    padEnv c d "self.params.tx_padding" = some (optPV c.txPadding) ∧
    padEnv c d "self.params.tx_data_length" = some (pint c.txDl) ∧
    padEnv c d "self.params.tx_data_min_length" = some (optPV c.txMinLen) := ⟨rfl, rfl, rfl, rfl⟩

/-- **`_pad_message_data(msg_data)` is the model's `pad`**, for EVERY configuration (valid or not) and every byte string:
    it returns `pad c d`, and raises `ValueError` exactly when `pad c d = none` (`tx_data_length > 8` and more than 64 bytes).
    The only method it calls, `_get_nearest_can_fd_size`, is `dlcMeths` of MiscFd.lean (`= nearestFd`, tied to its own source by
    `dlcMeths_nearest` / `get_nearest_can_fd_size_agrees`). -/
theorem pad_message_data_agrees (c : Cfg) (d : Bytes) :
    retM dlcMeths (padEnv c d) Src.TransportLayerLogic_p_pad_message_data = MiscFrame.bytesRes (pad c d) := by
  obtain ⟨l1, l2, l3, l4⟩ := padEnv_lookups c d
  rw [MiscFrame.retM_eq]
  show (execBlock dlcMeths (padEnv c d) MiscFrame.padSrc).map MiscFrame.flowVal = _
  rw [MiscFrame.padSrc_split, execBlock]
  have h1 : execStmt dlcMeths (padEnv c d) (MiscFrame.nth MiscFrame.padSrc 0) = .ok (.next ((padEnv c d).set "must_pad" (pbool false))) := by
    simp [MiscFrame.nth, MiscFrame.padSrc, Src.TransportLayerLogic_p_pad_message_data, execStmt, eval]
  simp only [h1, ok_bind]
  rw [execBlock]
  have h2 : execStmt dlcMeths ((padEnv c d).set "must_pad" (pbool false)) (MiscFrame.nth MiscFrame.padSrc 1) =
      .ok (.next (((padEnv c d).set "must_pad" (pbool false)).set "padding_byte" (pint (c.txPadding.getD 204)))) := by
    cases hpd : c.txPadding <;>
      simp [MiscFrame.nth, MiscFrame.padSrc, Src.TransportLayerLogic_p_pad_message_data, execStmt, eval, MiscFrame.set_get, l2, hpd, optPV]
  simp only [h2, ok_bind]
  exact MiscFrame.pad_from2 c d _ (by simp [MiscFrame.set_get, l2]) (by simp [MiscFrame.set_get, l3]) (by simp [MiscFrame.set_get, l4])
    (by simp [MiscFrame.set_get, l1]) (by simp [MiscFrame.set_get]) (by simp [MiscFrame.set_get])

theorem pad_message_data_some (c : Cfg) (d d' : Bytes) (h : pad c d = some d') :
    retM dlcMeths (padEnv c d) Src.TransportLayerLogic_p_pad_message_data = .ok (.bytes d') := by
  rw [pad_message_data_agrees, h]; rfl

theorem pad_message_data_none (c : Cfg) (d : Bytes) (h : pad c d = none) :
    retM dlcMeths (padEnv c d) Src.TransportLayerLogic_p_pad_message_data = .error (.exc .ValueError) := by
  rw [pad_message_data_agrees, h]; rfl

/-! ### 2. `_make_tx_msg` -/

/-- the arguments of `_make_tx_msg(arbitration_id, data)` and the two parameters it reads -/
def mkEnv (c : Cfg) (arbId : Nat) (d : Bytes) : Env := fun k =>
  match k with
  | "arbitration_id" => some (pint arbId)
  | "data" => some (.bytes d)
  | "self.params.can_fd" => some (pbool c.canFd)
  | "self.params.bitrate_switch" => some (pbool c.brs)
  | _ => constEnv k

theorem mkEnv_lookups (c : Cfg) (arbId : Nat) (d : Bytes) :
    mkEnv c arbId d "arbitration_id" = some (pint arbId) ∧
    mkEnv c arbId d "data" = some (.bytes d) ∧
    mkEnv c arbId d "self.params.can_fd" = some (pbool c.canFd) ∧
    mkEnv c arbId d "self.params.bitrate_switch" = some (pbool c.brs) := ⟨rfl, rfl, rfl, rfl⟩

/-- What `_make_tx_msg` calls:
    * `self._pad_message_data(data)` is the model's `pad` (`pad_message_data_agrees` above; `mkMeths_pad_src`);
    * `self._get_dlc(data, validate_tx=True)` is the model's `dlcOf` (`get_dlc_agrees`, MiscFd.lean; `mkMeths_dlc_src`);
    * `self.address.is_tx_29bits()` returns the `_is_29bits` stored by the `Address` constructor for the transmit half, `Mode.is29`;
    * the `CanMessage(arbitration_id=, dlc=, data=, extended_id=, is_fd=, bitrate_switch=)` constructor (the dumper puts the keyword names,
      in call order, in the callee name) is ANY function `K` of the list of its six arguments: a `CanMessage` is not a value of the
      embedding, and the theorem says which six values the constructor receives whatever it does with them. -/
def mkMeths (c : Cfg) (a : Addr) (K : List PV → Except PErr PV) : Meths where
  fn name args _ :=
    match name, args with
    | "self._pad_message_data", [.bytes d] => MiscFrame.bytesRes (pad c d)
    | "self._get_dlc#validate_tx", [.bytes d, .sc (.py (.bool true))] => optRes (dlcOf c d.length)
    | "self.address.is_tx_29bits", [] => .ok (pbool a.tx.mode.is29)
    | "CanMessage#arbitration_id#dlc#data#extended_id#is_fd#bitrate_switch", vs => K vs
    | _, _ => .error (.unsupported ("call " ++ name))
  proc name _ _ := .error (.unsupported ("call " ++ name))

section entries
variable (c : Cfg) (a : Addr) (K : List PV → Except PErr PV) (env : Env)

theorem mkMeths_pad (d : Bytes) : (mkMeths c a K).fn "self._pad_message_data" [.bytes d] env = MiscFrame.bytesRes (pad c d) := rfl
theorem mkMeths_dlc (d : Bytes) :
    (mkMeths c a K).fn "self._get_dlc#validate_tx" [.bytes d, pbool true] env = optRes (dlcOf c d.length) := rfl
theorem mkMeths_is29 : (mkMeths c a K).fn "self.address.is_tx_29bits" [] env = .ok (pbool a.tx.mode.is29) := rfl
theorem mkMeths_ctor (vs : List PV) :
    (mkMeths c a K).fn "CanMessage#arbitration_id#dlc#data#extended_id#is_fd#bitrate_switch" vs env = K vs := rfl

/-- the `_pad_message_data` entry is what interpreting the source of `_pad_message_data` gives -/
theorem mkMeths_pad_src (d : Bytes) :
    (mkMeths c a K).fn "self._pad_message_data" [.bytes d] env =
      retM dlcMeths (padEnv c d) Src.TransportLayerLogic_p_pad_message_data := by
  rw [pad_message_data_agrees]; rfl

/-- the `_get_dlc(…, validate_tx=True)` entry is what interpreting the source of `_get_dlc` gives -/
theorem mkMeths_dlc_src (d : Bytes) :
    (mkMeths c a K).fn "self._get_dlc#validate_tx" [.bytes d, pbool true] env =
      retM dlcMeths (dlcEnv d true c.txDl) Src.TransportLayerLogic_p_get_dlc := by
  rw [get_dlc_agrees]; rfl

end entries

namespace MiscFrame
theorem builtin_pad (v : PV) : evalBuiltin "self._pad_message_data" [v] = none := by simp [evalBuiltin]
theorem builtin_dlc (v w : PV) : evalBuiltin "self._get_dlc#validate_tx" [v, w] = none := by simp [evalBuiltin]
theorem builtin_is29 : evalBuiltin "self.address.is_tx_29bits" [] = none := by simp [evalBuiltin]
theorem builtin_ctor (v1 v2 v3 v4 v5 v6 : PV) :
    evalBuiltin "CanMessage#arbitration_id#dlc#data#extended_id#is_fd#bitrate_switch" [v1, v2, v3, v4, v5, v6] = none := by
  simp [evalBuiltin]
end MiscFrame

/-- the six keyword arguments of the `CanMessage` constructor, in call order, for a model message -/
def ctorArgs (m : CanMsg) : List PV := [pint m.id, pint m.dlc, .bytes m.data, pbool m.ext, pbool m.fd, pbool m.brs]

/-- **`_make_tx_msg(arbitration_id, data)` is the model's `makeTxMsg`**, for EVERY configuration, address, identifier and byte string:
    `ValueError` exactly when `makeTxMsg` is `none`; otherwise the constructor `CanMessage(arbitration_id=, dlc=, data=, extended_id=,
    is_fd=, bitrate_switch=)` is called with exactly the fields `id`, `dlc`, `data`, `ext`, `fd`, `brs` of the model's message. -/
theorem make_tx_msg_agrees (c : Cfg) (a : Addr) (K : List PV → Except PErr PV) (arbId : Nat) (d : Bytes) :
    retM (mkMeths c a K) (mkEnv c arbId d) Src.TransportLayerLogic_p_make_tx_msg =
      match makeTxMsg c a arbId d with
      | some m => K (ctorArgs m)
      | none => .error (.exc .ValueError) := by
  obtain ⟨l1, l2, l3, l4⟩ := mkEnv_lookups c arbId d
  rw [MiscFrame.retM_eq]
  unfold makeTxMsg
  cases hp : pad c d with
  | none =>
    simp [Src.TransportLayerLogic_p_make_tx_msg, execBlock, execStmt, eval, evalArgs, l2, MiscFrame.builtin_pad, mkMeths_pad, hp,
      MiscFrame.bytesRes]
  | some pd =>
    cases hdl : dlcOf c pd.length with
    | none =>
      simp [Src.TransportLayerLogic_p_make_tx_msg, execBlock, execStmt, eval, evalArgs, l1, l2, l3, l4, MiscFrame.set_get,
        MiscFrame.builtin_pad, MiscFrame.builtin_dlc, mkMeths_pad, mkMeths_dlc, hp, hdl, MiscFrame.bytesRes, optRes]
    | some dl =>
      simp [Src.TransportLayerLogic_p_make_tx_msg, execBlock, execStmt, eval, evalArgs, l1, l2, l3, l4, MiscFrame.set_get,
        MiscFrame.builtin_pad, MiscFrame.builtin_dlc, MiscFrame.builtin_is29, MiscFrame.builtin_ctor, mkMeths_pad, mkMeths_dlc,
        mkMeths_is29, mkMeths_ctor, hp, hdl, MiscFrame.bytesRes, optRes, ctorArgs]
      cases K _ <;> rfl

/-- the constructor arguments determine the message: `ctorArgs` is injective -/
theorem ctorArgs_injective (m m' : CanMsg) (h : ctorArgs m = ctorArgs m') : m = m' := by
  cases m; cases m'
  simp only [ctorArgs, List.cons.injEq, PV.sc.injEq, Sc.py.injEq, PyVal.int.injEq, PyVal.bool.injEq, PV.bytes.injEq, and_true] at h
  obtain ⟨h1, h2, h3, h4, h5, h6⟩ := h
  simp only [CanMsg.mk.injEq]
  exact ⟨by omega, h4, h3, by omega, h5, h6⟩

/-- a concrete `CanMessage`: the list `[id, extended, dlc, fd, brs] ++ data` (the layout LayerTx.lean uses for the frames it emits) -/
def canMsgPV (m : CanMsg) : PV :=
  .list ([.py (.int m.id), .py (.bool m.ext), .py (.int m.dlc), .py (.bool m.fd), .py (.bool m.brs)] ++
    m.data.map (fun b => Sc.py (.int b.toNat)))

/-- the constructor for that representation -/
def canMessageCtor : List PV → Except PErr PV
  | [.sc (.py (.int i)), .sc (.py (.int dl)), .bytes data, .sc (.py (.bool e)), .sc (.py (.bool f)), .sc (.py (.bool b))] =>
    .ok (.list ([.py (.int i), .py (.bool e), .py (.int dl), .py (.bool f), .py (.bool b)] ++ data.map (fun b => Sc.py (.int b.toNat))))
  | _ => .error (.unsupported "CanMessage arguments")

theorem canMessageCtor_ctorArgs (m : CanMsg) : canMessageCtor (ctorArgs m) = .ok (canMsgPV m) := rfl

theorem canMsgPV_injective (m m' : CanMsg) (h : canMsgPV m = canMsgPV m') : m = m' := by
  cases m; cases m'
  simp only [canMsgPV, PV.list.injEq, List.cons_append, List.nil_append, List.cons.injEq, Sc.py.injEq, PyVal.int.injEq,
    PyVal.bool.injEq] at h
  obtain ⟨h1, h2, h3, h4, h5, h6⟩ := h
  have h6' := List.map_inj_right (f := fun b : UInt8 => Sc.py (.int b.toNat))
    (by intro x y hxy; simp only [Sc.py.injEq, PyVal.int.injEq] at hxy; exact UInt8.toNat_inj.mp (by omega)) |>.mp h6
  simp only [CanMsg.mk.injEq]
  refine ⟨by omega, h2, h6', by omega, h4, h5⟩

/-- `_make_tx_msg` with the concrete (injective) message representation -/
theorem make_tx_msg_agrees_enc (c : Cfg) (a : Addr) (arbId : Nat) (d : Bytes) :
    retM (mkMeths c a canMessageCtor) (mkEnv c arbId d) Src.TransportLayerLogic_p_make_tx_msg =
      match makeTxMsg c a arbId d with
      | some m => .ok (canMsgPV m)
      | none => .error (.exc .ValueError) := by
  rw [make_tx_msg_agrees]
  cases makeTxMsg c a arbId d <;> rfl

/-! ### 3. Consistency: under a validated configuration the emitted frame has a legal CAN / CAN FD length `≤ tx_data_length`

The agreement theorems above need no hypothesis.  What follows connects them to the lemmas about the model's `pad` / `makeTxMsg` of
`Isotp/Proofs/Pad.lean` (`Cfg.valid` = what `Params.validate` accepts; `d.length ≤ c.txDl` = what the transmit state machine builds). -/

open Isotp.Spec Isotp.Proofs in
/-- model side: a frame of at most `tx_data_length` bytes is padded to the reference `Spec.padFrame`, whose length is a legal CAN / CAN FD
    length not above `tx_data_length` -/
theorem makeTxMsg_legal (c : Cfg) (a : Addr) (arbId : Nat) (d : Bytes) (m : CanMsg) (hv : c.valid = true) (hd : d.length ≤ c.txDl)
    (h : makeTxMsg c a arbId d = some m) :
    m.data = padFrame (TxCfg.of c a) d ∧ legal m.data.length ∧ m.data.length ≤ c.txDl ∧ d.length ≤ m.data.length := by
  have hvt := valid_of c a hv
  have hd' : d.length ≤ (TxCfg.of c a).txDl := hd
  unfold makeTxMsg at h
  rw [pad_eq c _ (mirrors_of c a) hv d hd] at h
  simp only [] at h
  split at h
  · contradiction
  · injection h with h
    subst h
    refine ⟨rfl, ?_⟩
    simp only [length_padFrame]
    exact ⟨padTarget_legal _ hvt _ hd', padTarget_le _ hvt _ hd', padTarget_ge _ _⟩

open Isotp.Spec Isotp.Proofs in
/-- **whatever `_make_tx_msg` returns under a validated configuration, for a frame of at most `tx_data_length` bytes, is a message whose data
    field has a legal CAN / CAN FD length `≤ tx_data_length`** (it is the model's message, its data the reference `Spec.padFrame`) -/
theorem make_tx_msg_emits_legal (c : Cfg) (a : Addr) (arbId : Nat) (d : Bytes) (v : PV) (hv : c.valid = true) (hd : d.length ≤ c.txDl)
    (h : retM (mkMeths c a canMessageCtor) (mkEnv c arbId d) Src.TransportLayerLogic_p_make_tx_msg = .ok v) :
    ∃ m, v = canMsgPV m ∧ makeTxMsg c a arbId d = some m ∧ m.data = padFrame (TxCfg.of c a) d ∧
      legal m.data.length ∧ m.data.length ≤ c.txDl ∧ d.length ≤ m.data.length := by
  rw [make_tx_msg_agrees_enc] at h
  cases hm : makeTxMsg c a arbId d with
  | none => rw [hm] at h; cases h
  | some m =>
    rw [hm] at h
    injection h with h
    exact ⟨m, h.symm, rfl, makeTxMsg_legal c a arbId d m hv hd hm⟩

open Isotp.Spec Isotp.Proofs in
/-- and on the frames the transmit state machine builds (2 .. `tx_data_length` bytes) `_make_tx_msg` never raises: the constructor receives
    the padded frame, the DLC of the ISO 11898-1 table for its length, and the configured flags (`makeTxMsg_eq`, Proofs/Pad.lean) -/
theorem make_tx_msg_valid (c : Cfg) (a : Addr) (K : List PV → Except PErr PV) (arbId : Nat) (d : Bytes) (hv : c.valid = true)
    (h2 : 2 ≤ d.length) (hd : d.length ≤ c.txDl) :
    retM (mkMeths c a K) (mkEnv c arbId d) Src.TransportLayerLogic_p_make_tx_msg =
      K [pint arbId, pint (canDlc (padFrame (TxCfg.of c a) d).length), .bytes (padFrame (TxCfg.of c a) d), pbool a.tx.mode.is29,
         pbool c.canFd, pbool c.brs] := by
  rw [make_tx_msg_agrees, makeTxMsg_eq c a hv arbId d h2 hd]
  rfl

/-- the hypotheses are not vacuous -/
example : ({} : Cfg).valid = true ∧ ({ txDl := 64, txMinLen := some 12, txPadding := some 0xAA, canFd := true } : Cfg).valid = true := by decide

/-- `d.length ≤ tx_data_length` is needed for the length bound (the source, like the model, happily emits a 20-byte frame with
    `tx_data_length = 16`; the state machines never ask for it) -/
theorem make_tx_msg_long_frame :
    let c : Cfg := { txDl := 16, canFd := true }
    c.valid = true ∧
    (retM (mkMeths c default canMessageCtor) (mkEnv c 0x123 (List.replicate 20 0)) Src.TransportLayerLogic_p_make_tx_msg).toOption.isSome = true ∧
    (makeTxMsg c default 0x123 (List.replicate 20 0)).map (·.data.length) = some 20 := by
  refine ⟨by decide, ?_, by decide⟩
  rw [make_tx_msg_agrees_enc]
  have : (makeTxMsg { txDl := 16, canFd := true } default 0x123 (List.replicate 20 0)).isSome = true := by decide
  revert this
  cases makeTxMsg { txDl := 16, canFd := true } default 0x123 (List.replicate 20 0) <;> simp [Except.toOption]

/-- and `2 ≤ d.length` for the absence of `ValueError` (a DLC below 2 is refused with `tx_data_length = 8`) -/
theorem make_tx_msg_short_frame (K : List PV → Except PErr PV) :
    retM (mkMeths {} default K) (mkEnv {} 0x123 [0]) Src.TransportLayerLogic_p_make_tx_msg = .error (.exc .ValueError) := by
  rw [make_tx_msg_agrees]
  have : makeTxMsg {} default 0x123 [0] = none := by decide
  rw [this]

theorem nearestFd_none_iff (n : Nat) : nearestFd n = none ↔ 64 < n := by
  unfold nearestFd
  constructor
  · intro h
    repeat' split at h
    all_goals first | contradiction | omega
  · intro h
    have hk : ∀ k, k ≤ 64 → ¬ n ≤ k := by intro k hk; omega
    simp [hk]

/-- `_pad_message_data` raises only with `tx_data_length > 8` and more than 64 bytes -/
theorem pad_none_iff (c : Cfg) (d : Bytes) : pad c d = none ↔ (8 < c.txDl ∧ 64 < d.length) := by
  have hp : pad c d = none ↔ padLen c d.length = none := by
    unfold pad; cases padLen c d.length <;> simp
  rw [hp, ← nearestFd_none_iff]
  unfold padLen
  by_cases h8 : c.txDl = 8
  · cases c.txMinLen <;> cases c.txPadding <;> simp [h8]
  · by_cases h9 : c.txDl > 8
    · cases hn : nearestFd d.length <;> cases c.txMinLen <;> simp [h8, h9]
    · simp [h8, h9]

end Isotp.PyAgree

#print axioms Isotp.PyAgree.pad_message_data_agrees
#print axioms Isotp.PyAgree.pad_message_data_some
#print axioms Isotp.PyAgree.pad_message_data_none
#print axioms Isotp.PyAgree.mkMeths_pad_src
#print axioms Isotp.PyAgree.mkMeths_dlc_src
#print axioms Isotp.PyAgree.make_tx_msg_agrees
#print axioms Isotp.PyAgree.make_tx_msg_agrees_enc
#print axioms Isotp.PyAgree.ctorArgs_injective
#print axioms Isotp.PyAgree.canMsgPV_injective
#print axioms Isotp.PyAgree.makeTxMsg_legal
#print axioms Isotp.PyAgree.make_tx_msg_emits_legal
#print axioms Isotp.PyAgree.make_tx_msg_valid
#print axioms Isotp.PyAgree.make_tx_msg_long_frame
#print axioms Isotp.PyAgree.make_tx_msg_short_frame
#print axioms Isotp.PyAgree.pad_none_iff
