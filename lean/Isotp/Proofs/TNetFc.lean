import Isotp.Proofs.TNetFcTx
import Isotp.Proofs.TNetNoise
/-
  C13, network level, "… and no error is reported … regardless of … unrelated frames on the bus" — part 2:
  the two-layer Flow Control invariant on the THREADED pair `TNet`, for every thread schedule, foreign frames included.

  `FcLayerN S b s L psOwn psPeer` (logic layer of peer `b` in state `s`, earlier events `L`): the sender law with the
  count filtered by the address filter (`SndFcN`, Proofs/TNetFcTx.lean), the receiver law (`RcvFc`, unchanged: it only
  counts frames FED to `_process_rx`), and "no `UnexpectedFlowControlError` so far".
  `FcSyncT`: `FcLayerN` for both peers. `NInvFc`: `NInv` (Proofs/TNetNoise.lean: per-layer invariants + conservation
  filtered by the address filter) ∧ admissible payloads ∧ (valid STmin → no timeout reported → `FcSyncT`).

  What links the two peers is recomputed at the beginning of every operation of a logic layer from `NInv` and the
  peer's `FcLayerN` (`fcCtxN_start`): with `acc` = the address filter of `b`,
      (frames emitted by the peer)  =  acc-filter of (frames read by b ++ unread input ++ relay queue ++ bus)
  (the peer's frames are all accepted — C09 — and the foreign frames are exactly what the filter rejects), hence
      (ACCEPTED Flow Control frames read or in the inbox of b) ≤ (Flow Control frames emitted by the peer)
        ≤ need(data frames processed by the peer) ≤ need(data frames emitted by b),
  the accepted data frames `b` reads are a prefix of the peer's stream, and every accepted frame is `OutGood`.

  Main results: `FcMidN.micro`, `FcLayerN.process`, `fcCtxN_start`, `ninvfc_step`, `ninvfc_run`, `noUfc_noise_core`,
  `fcSyncT_credit`.
-/
set_option linter.unusedSimpArgs false

namespace Isotp.TNetP
open Isotp Isotp.State Isotp.NetP TNet

/-! ### the invariant of one logic layer -/

/-- sender law (filtered count) towards the peer, receiver law, no `UnexpectedFlowControlError` so far -/
structure FcLayerN (S : Setting) (b : Bool) (s : State) (L : List Ev) (psOwn psPeer : List Bytes) : Prop where
  snd : SndFcN (S.c b) (S.a b) (S.c (!b)).blocksize s L psOwn
  rcv : RcvFc (S.a b) (S.c b).blocksize (lensOf (S.c (!b)) (S.a (!b)) psPeer) s L
  noUfc : NoUfc (s.log ++ L)

theorem FcLayerN.congr {S : Setting} {b : Bool} {s s' : State} {L L' : List Ev} {psOwn psPeer : List Bytes}
    (h : FcLayerN S b s L psOwn psPeer) (h1 : s'.lastFc = s.lastFc) (h2 : s'.txState = s.txState)
    (h3 : s'.remoteBs = s.remoteBs) (h4 : s'.txBlockCnt = s.txBlockCnt) (h5 : s'.pendingFc = s.pendingFc)
    (hl : s'.log ++ L' = s.log ++ L) : FcLayerN S b s' L' psOwn psPeer :=
  ⟨h.snd.rehist h1 h2 h3 h4 hl, h.rcv.congr h5 hl, by rw [hl]; exact h.noUfc⟩

/-- the clock, the exception flag and the split of the history between `s.log` and `L` do not matter -/
theorem FcLayerN.relabel {S : Setting} {b : Bool} {s : State} {L : List Ev} {psOwn psPeer : List Bytes}
    (h : FcLayerN S b s L psOwn psPeer) (t : Nat) (lg L' : List Ev) (e : Option PyExc) (hlog : lg ++ L' = s.log ++ L) :
    FcLayerN S b { s with now := t, log := lg, exc := e } L' psOwn psPeer :=
  h.congr rfl rfl rfl rfl rfl hlog

/-- more payloads accepted by the peer: its stream gets longer, the receiver law keeps holding -/
theorem FcLayerN.peer_grow {S : Setting} {b : Bool} {s : State} {L : List Ev} {psOwn psPeer : List Bytes}
    (h : FcLayerN S b s L psOwn psPeer) (more : List Bytes) : FcLayerN S b s L psOwn (psPeer ++ more) := by
  refine ⟨h.snd, ?_, h.noUfc⟩
  have := h.rcv
  unfold RcvFc at this ⊢
  rw [lensOf_append]
  exact Nat.le_trans this (need_append_ge _ _ _ _)

/-! ### one operation: what is constant while the logic layer of `b` runs -/

/-- `sn`: the frames peer `b` has read or still has in its inbox (foreign ones included); `e0`: the number of data
    frames it had emitted when the operation began. Everything is conditional on / filtered by the address filter. -/
structure FcCtxN (S : Setting) (b : Bool) (psOwn psPeer : List Bytes) (sn : List CanMsg) (e0 : Nat) : Prop where
  good : ∀ m ∈ sn, (S.a b).rx.isForMe m = true → OutGood (S.c (!b)) (S.a (!b)) (S.c b).maxFrameSize m
  stream : fedsOf (S.a b) sn <+: Compose.stream (segA (S.c (!b)) (S.a (!b))) psPeer
  sendable : Compose.Sendable (State.init (S.c b) (S.a b)) psPeer
  cross : fcCountA (S.a b) sn ≤ need (S.c (!b)).blocksize (lensOf (S.c b) (S.a b) psOwn) e0

/-- the invariant carried along the micro-steps of `process()` on the logic layer of `b` -/
structure FcMidN (S : Setting) (b : Bool) (L : List Ev) (psOwn psPeer : List Bytes) (sn : List CanMsg) (e0 : Nat)
    (x : State) : Prop where
  seen : NetP.seen x L = sn
  safe : SafeOk x
  send2 : SendInv2 (S.c b) (S.a b) (S.c (!b)).maxFrameSize x L psOwn
  recv2 : RecvInv2 (S.c b) (S.a b) x L
  fc : noT (x.log ++ L) = true → FcLayerN S b x L psOwn psPeer ∧
    e0 ≤ (dataOut (S.a b).tx.txPrefix.length (x.log ++ L).reverse).length

/-- what the context says about a frame read by `b`: `InGood` (conditional on the address filter) -/
theorem FcCtxN.inGood {S : Setting} (hst : StminOk S) {b : Bool} {psOwn psPeer : List Bytes} {sn : List CanMsg} {e0 : Nat}
    (ctx : FcCtxN S b psOwn psPeer sn e0) (m : CanMsg) (hm : m ∈ sn) : InGood (S.c b) (S.a b) m := by
  by_cases hacc : (S.a b).rx.isForMe m = true
  · exact outGood_inGood S hst b m (ctx.good m hm hacc)
  · intro h; exact absurd h hacc

/-- … and: an accepted Flow Control frame carries the peer's block size -/
theorem FcCtxN.fcBs {S : Setting} (hst : StminOk S) {b : Bool} {psOwn psPeer : List Bytes} {sn : List CanMsg} {e0 : Nat}
    (ctx : FcCtxN S b psOwn psPeer sn e0) (m : CanMsg) (hm : m ∈ sn) : FcBs (S.a b) (S.c (!b)).blocksize m := by
  by_cases hacc : (S.a b).rx.isForMe m = true
  · exact outGood_fcBs S hst b m (ctx.good m hm hacc)
  · intro h; exact absurd h hacc

/-- **One micro-step of `process()` keeps the layer invariant, foreign frames in the inbox included.** -/
theorem FcMidN.micro {S : Setting} (hst : StminOk S) {b : Bool} {L : List Ev} {psOwn psPeer : List Bytes}
    {sn : List CanMsg} {e0 : Nat} (ctx : FcCtxN S b psOwn psPeer sn e0) {x y : State}
    (hx : FcMidN S b L psOwn psPeer sn e0 x) (hm : Micro x y) : FcMidN S b L psOwn psPeer sn e0 y := by
  refine ⟨(seen_step L x y hm).trans hx.seen, SafeOk.micro hx.safe hm, SendInv2.micro hx.safe hx.send2 hm,
    RecvInv2.step x y hx.recv2 hm, ?_⟩
  intro hn
  have hn0 := micro_noT L hm hn
  obtain ⟨hfl, he⟩ := hx.fc hn0
  have hgoodIn : ∀ m ∈ NetP.seen x L, InGood (S.c b) (S.a b) m := by
    intro m hmem
    rw [hx.seen] at hmem
    exact ctx.inGood hst m hmem
  have hok := hx.send2 hn0 hgoodIn
  have hfeeds := hx.recv2 hn0 hgoodIn
  have hbs : ∀ m ∈ NetP.seen x L, FcBs (S.a b) (S.c (!b)).blocksize m := by
    intro m hmem
    rw [hx.seen] at hmem
    exact ctx.fcBs hst m hmem
  have hcross : fcCountA (S.a b) (NetP.seen x L) ≤
      need (S.c (!b)).blocksize (lensOf (S.c b) (S.a b) psOwn)
        (dataOut (S.a b).tx.txPrefix.length (x.log ++ L).reverse).length := by
    rw [hx.seen]
    exact Nat.le_trans ctx.cross (need_mono _ _ he)
  obtain ⟨hsnd, hnu⟩ := SndFcN.micro hm hx.safe hok hbs hcross hn hfl.snd hfl.noUfc
  have hadm := (setting_link S b).admissible psPeer ctx.sendable
  have hrcv := RcvFc.micro hm hx.safe hok.cfg hok.addr hadm hfeeds (by rw [hx.seen]; exact ctx.stream)
    (fun hnt hp => tx_out_notFc hx.safe hok hnt hp) hn hfl.rcv
  exact ⟨⟨hsnd, hrcv, hnu⟩, Nat.le_trans he (micro_dataOut_mono _ L hm)⟩

/-- **`process()` keeps the layer invariant**, whatever foreign frames its inbox holds and wherever the rx loop hands
    over to the tx loop. -/
theorem FcLayerN.process {S : Setting} (hst : StminOk S) {b : Bool} {s : State} {L : List Ev} {psOwn psPeer : List Bytes}
    (doRx doTx : Bool) (hsafe : SafeOk s)
    (h2 : noT (s.log ++ L) = true → Layer2 (S.c b) (S.a b) (S.c (!b)).maxFrameSize s L psOwn)
    (hfc : noT (s.log ++ L) = true → FcLayerN S b s L psOwn psPeer)
    (ctx : FcCtxN S b psOwn psPeer (seen s L) (dataOut (S.a b).tx.txPrefix.length (s.log ++ L).reverse).length)
    (hn : noT ((s.process doRx doTx).1.log ++ L) = true) :
    FcLayerN S b (s.process doRx doTx).1 L psOwn psPeer := by
  have h0 : FcMidN S b L psOwn psPeer (seen s L) (dataOut (S.a b).tx.txPrefix.length (s.log ++ L).reverse).length s :=
    ⟨rfl, hsafe, fun hn0 _ => (h2 hn0).send2, fun hn0 _ => (h2 hn0).feeds, fun hn0 => ⟨hfc hn0, Nat.le_refl _⟩⟩
  have := process_ind (FcMidN S b L psOwn psPeer (seen s L) (dataOut (S.a b).tx.txPrefix.length (s.log ++ L).reverse).length)
    (fun x y hx hm => FcMidN.micro hst ctx hx hm) doRx doTx s h0
  exact (this.fc hn).1

/-! ### the operations other than `process()` -/

theorem FcLayerN.sendOp {S : Setting} {b : Bool} {s : State} {L : List Ev} {psOwn psPeer : List Bytes}
    (h : FcLayerN S b s L psOwn psPeer)
    (hp : Progress (S.c b) (S.a b) (S.c (!b)).maxFrameSize s psOwn (dataOut (S.a b).tx.txPrefix.length (s.log ++ L).reverse))
    (args : SendArgs) :
    FcLayerN S b (s.send args).1 L (if queued (s.send args).2 then psOwn ++ [args.src] else psOwn) psPeer := by
  rcases C12.send_cases s args with ⟨hres, hst⟩ | ⟨hres, -, hst⟩
  · rw [hres, hst]; exact h
  · have hq : queued (s.send args).2 = true := by
      rw [hres]; cases s.cfg.blocking <;> rfl
    rw [hq, hst]
    have h1 : FcLayerN S b s L (psOwn ++ [args.src]) psPeer := ⟨h.snd.grow hp _, h.rcv, h.noUfc⟩
    exact h1.congr rfl rfl rfl rfl rfl rfl

theorem FcLayerN.recvOp {S : Setting} {b : Bool} {s : State} {L : List Ev} {psOwn psPeer : List Bytes}
    (h : FcLayerN S b s L psOwn psPeer) : FcLayerN S b s.recv.1 L psOwn psPeer := by
  unfold State.recv
  split
  · exact h
  · exact h.congr rfl rfl rfl rfl rfl rfl

theorem FcLayerN.push {S : Setting} {b : Bool} {s : State} {L : List Ev} {psOwn psPeer : List Bytes}
    (h : FcLayerN S b s L psOwn psPeer) (mv : List CanMsg) : FcLayerN S b (pushAll s mv) L psOwn psPeer := by
  rw [pushAll_fields]
  exact h.congr rfl rfl rfl rfl rfl rfl

theorem fcLayerN_init (S : Setting) (b : Bool) : FcLayerN S b (State.init (S.c b) (S.a b)) [] [] [] := by
  refine ⟨⟨?_, ?_, ?_, ?_⟩, ?_, ?_⟩
  · simp [State.init, dataOut, Net.txOf, need_zero]
  · intro h; simp [State.init] at h
  · intro h; simp [State.init] at h
  · intro f h; simp [State.init] at h
  · simp [RcvFc, State.init, fcCount, Net.txOf, fed, rxOf, need_zero]
  · intro t h; simp [State.init] at h

/-! ### the invariant of the threaded pair -/

/-- both logic layers satisfy their (filtered) sender law, their receiver law, and have reported no
    `UnexpectedFlowControlError` -/
def FcSyncT (S : Setting) (d : TNet) (tr : List TEv) : Prop :=
  ∀ b, FcLayerN S b (d.get b).core (TNet.logOf b tr).reverse (TNet.sentOf b tr) (TNet.sentOf (!b) tr)

/-- the payloads accepted by each peer are admissible for the other one -/
def SendableT (S : Setting) (tr : List TEv) : Prop :=
  ∀ b, Compose.Sendable (State.init (S.c b) (S.a b)) (TNet.sentOf (!b) tr)

/-- `NInv`, admissible payloads, and — when the STmin values are valid and no timeout has been reported — `FcSyncT` -/
def NInvFc (S : Setting) (d : TNet) (tr : List TEv) : Prop :=
  NInv S d tr ∧ SendableT S tr ∧ (StminOk S → (∀ b, noT (TNet.logOf b tr) = true) → FcSyncT S d tr)

/-! ### the link between the two peers, from the filtered conservation law -/

theorem accF_eq (S : Setting) (b : Bool) : accF S b = (S.a b).rx.isForMe := rfl

/-- **The context of an operation of the logic layer of `b`**, from `NInv` and the peer's receiver law. -/
theorem fcCtxN_start (S : Setting) (hst : StminOk S) {d : TNet} {tr : List TEv} (hinv : NInv S d tr)
    (hnT : ∀ b, noT (TNet.logOf b tr) = true) (hfc : FcSyncT S d tr) (hsend : SendableT S tr) (b : Bool) :
    FcCtxN S b (TNet.sentOf b tr) (TNet.sentOf (!b) tr) (seen (d.get b).core (TNet.logOf b tr).reverse)
      (dataOut (S.a b).tx.txPrefix.length (TNet.logOf b tr)).length := by
  obtain ⟨-, hall, hcond⟩ := hinv
  have h2 := hcond hst hnT
  -- frames emitted by a peer, and what the invariants say about them
  have hframes : ∀ b' m, m ∈ Net.txOf (TNet.logOf b' tr) →
      OutGood (S.c b') (S.a b') (S.c (!b')).maxFrameSize m := by
    intro b' m hm
    have := (h2 b').send2.frames m
    rw [(hall b').1, List.nil_append, List.reverse_reverse] at this
    exact this hm
  have hprog : ∀ b', dataOut (S.a b').tx.txPrefix.length (TNet.logOf b' tr) <+:
      Compose.stream (segA (S.c b') (S.a b')) (TNet.sentOf b' tr) := by
    intro b'
    have := (h2 b').send2.prog.prefix
    rw [(hall b').1, List.nil_append, List.reverse_reverse] at this
    exact this
  -- every frame of the peer passes the filter of `x`; what `x` has read or holds unread, filtered, is a prefix of it
  have hallacc : ∀ x, ∀ m ∈ Net.txOf (TNet.logOf (!x) tr), (S.a x).rx.isForMe m = true :=
    fun x m hm => frameOk_accepted S x m (hframes (!x) m hm).1
  have hseenP : ∀ x, (seen (d.get x).core (TNet.logOf x tr).reverse).filter (S.a x).rx.isForMe <+:
      Net.txOf (TNet.logOf (!x) tr) := by
    intro x
    have hc := (hall (!x)).2.2
    rw [Bool.not_not, accF_eq] at hc
    rw [← List.filter_eq_self.mpr (hallacc x), hc]
    unfold incoming
    rw [List.filter_append]
    exact List.prefix_append _ _
  -- the accepted data frames `x` reads are a prefix of the data frames the peer has emitted
  have hfeds : ∀ x, fedsOf (S.a x) (seen (d.get x).core (TNet.logOf x tr).reverse) <+:
      dataOut (S.a (!x)).tx.txPrefix.length (TNet.logOf (!x) tr) := by
    intro x
    unfold fedsOf dataOut
    have e : (seen (d.get x).core (TNet.logOf x tr).reverse).filter
          (fun m => (S.a x).rx.isForMe m && !isFc (S.a x).rx.rxPrefixSize m) =
        ((seen (d.get x).core (TNet.logOf x tr).reverse).filter (S.a x).rx.isForMe).filter
          (fun m => !isFc (S.a (!x)).tx.txPrefix.length m) := by
      rw [List.filter_filter, prefixSize_eq S x]
      apply List.filter_congr
      intro m _
      simp only [Bool.and_comm]
    rw [e]
    exact ((hseenP x).filter _).map _
  refine ⟨?_, ?_, hsend b, ?_⟩
  · intro m hm hacc
    have hmem : m ∈ (seen (d.get b).core (TNet.logOf b tr).reverse).filter (S.a b).rx.isForMe :=
      List.mem_filter.mpr ⟨hm, hacc⟩
    have := hframes (!b) m ((hseenP b).subset hmem)
    rw [Bool.not_not] at this
    exact this
  · exact (hfeds b).trans (hprog (!b))
  · -- accepted Flow Control frames read or in the inbox ≤ emitted by the peer ≤ need(processed by the peer)
    --   ≤ need(emitted here)
    have h1 : fcCountA (S.a b) (seen (d.get b).core (TNet.logOf b tr).reverse) ≤
        fcCount (S.a (!b)).tx.txPrefix.length (Net.txOf (TNet.logOf (!b) tr)) := by
      unfold fcCountA
      rw [prefixSize_eq S b]
      exact fcCount_le_of_prefix _ (hseenP b)
    have h3 := (hfc (!b)).rcv
    unfold RcvFc at h3
    rw [(hall (!b)).1, List.nil_append, List.reverse_reverse, Bool.not_not] at h3
    have h4 : (fed (S.a (!b)) (TNet.logOf (!b) tr)).length ≤
        (dataOut (S.a b).tx.txPrefix.length (TNet.logOf b tr)).length := by
      have h5 := hfeds (!b)
      rw [Bool.not_not, fedsOf_seen, (hall (!b)).1, List.nil_append, List.reverse_reverse] at h5
      exact ((List.prefix_append _ _).trans h5).length_le
    have h6 := need_mono (S.c (!b)).blocksize (lensOf (S.c b) (S.a b) (TNet.sentOf b tr)) h4
    omega

/-! ### the steps -/

theorem noT_tlogOf_snoc (b : Bool) (tr : List TEv) (e : TEv) (h : noT (TNet.logOf b (tr ++ [e])) = true) :
    noT (TNet.logOf b tr) = true := by
  rw [logOf_snoc, noT_append] at h
  exact (Bool.and_eq_true _ _ ▸ h).1

/-- a silent step that changes no logic layer -/
theorem fcSyncT_silent (S : Setting) {d d' : TNet} {tr : List TEv} (hc : ∀ b, (d'.get b).core = (d.get b).core)
    (h : FcSyncT S d tr) : FcSyncT S d' (tr ++ [.silent]) := by
  intro b
  rw [hc, logOf_silent, sentOf_silent, sentOf_silent]
  exact h b

/-- a thread of peer `b` runs an operation of the logic layer and leaves it in TL-state `t'`, observed as `ev` -/
theorem fcSyncT_core_op (S : Setting) (hst : StminOk S) {d : TNet} {tr : List TEv} (hinv : NInv S d tr)
    (hsend : SendableT S tr) (hfc : FcSyncT S d tr) (hnTold : ∀ b, noT (TNet.logOf b tr) = true)
    (b : Bool) (t' : TL) (ev : TEv)
    (he1 : ev.evsOf b = t'.core.log.reverse) (he2 : ev.evsOf (!b) = [])
    (hs2 : TNet.sentOf (!b) [ev] = [])
    (hnT : noT (TNet.logOf b (tr ++ [ev])) = true)
    (hF : SafeOk (coreIn d b) →
      Layer2 (S.c b) (S.a b) (S.c (!b)).maxFrameSize (coreIn d b) (TNet.logOf b tr).reverse (TNet.sentOf b tr) →
      FcLayerN S b (coreIn d b) (TNet.logOf b tr).reverse (TNet.sentOf b tr) (TNet.sentOf (!b) tr) →
      FcCtxN S b (TNet.sentOf b tr) (TNet.sentOf (!b) tr) (seen (coreIn d b) (TNet.logOf b tr).reverse)
        (dataOut (S.a b).tx.txPrefix.length ((coreIn d b).log ++ (TNet.logOf b tr).reverse).reverse).length →
      noT (t'.core.log ++ (TNet.logOf b tr).reverse) = true →
      FcLayerN S b t'.core (TNet.logOf b tr).reverse (TNet.sentOf b tr ++ TNet.sentOf b [ev]) (TNet.sentOf (!b) tr)) :
    FcSyncT S (d.leave b t').1 (tr ++ [ev]) := by
  have hctx := fcCtxN_start S hst hinv hnTold hfc hsend b
  obtain ⟨-, hall, hcond⟩ := hinv
  obtain ⟨hlog, hL, -⟩ := hall b
  have hsafe0 : SafeOk (coreIn d b) :=
    (hL.relabel d.now [] (TNet.logOf b tr).reverse (d.get b).core.exc hL.safe.2 (by rw [hlog])).safe
  have h20 : Layer2 (S.c b) (S.a b) (S.c (!b)).maxFrameSize (coreIn d b) (TNet.logOf b tr).reverse (TNet.sentOf b tr) :=
    (hcond hst hnTold b).relabel d.now [] (TNet.logOf b tr).reverse (d.get b).core.exc (by rw [hlog])
  have hfc0 : FcLayerN S b (coreIn d b) (TNet.logOf b tr).reverse (TNet.sentOf b tr) (TNet.sentOf (!b) tr) :=
    (hfc b).relabel d.now [] (TNet.logOf b tr).reverse (d.get b).core.exc (by rw [hlog])
  have hseen0 : seen (coreIn d b) (TNet.logOf b tr).reverse = seen (d.get b).core (TNet.logOf b tr).reverse :=
    seen_relabel (d.get b).core (TNet.logOf b tr).reverse d.now [] (TNet.logOf b tr).reverse (d.get b).core.exc
      (by rw [hlog])
  have hctx0 : FcCtxN S b (TNet.sentOf b tr) (TNet.sentOf (!b) tr) (seen (coreIn d b) (TNet.logOf b tr).reverse)
      (dataOut (S.a b).tx.txPrefix.length ((coreIn d b).log ++ (TNet.logOf b tr).reverse).reverse).length := by
    rw [hseen0]
    have e : ((coreIn d b).log ++ (TNet.logOf b tr).reverse).reverse = TNet.logOf b tr := by
      show ([] ++ (TNet.logOf b tr).reverse).reverse = _
      rw [List.nil_append, List.reverse_reverse]
    rw [e]
    exact hctx
  have hlogb : (TNet.logOf b (tr ++ [ev])).reverse = t'.core.log ++ (TNet.logOf b tr).reverse := by
    rw [logOf_snoc, he1, List.reverse_append, List.reverse_reverse]
  have hlognb : TNet.logOf (!b) (tr ++ [ev]) = TNet.logOf (!b) tr := by
    rw [logOf_snoc, he2, List.append_nil]
  have hnAfter : noT (t'.core.log ++ (TNet.logOf b tr).reverse) = true := by
    rw [← noT_reverse, hlogb] at hnT
    exact hnT
  have hres := hF hsafe0 h20 hfc0 hctx0 hnAfter
  intro b'
  by_cases hb : b' = b
  · subst hb
    rw [leave_get_same, hlogb, sentOf_snoc, sentOf_snoc, hs2, List.append_nil]
    exact hres.relabel t'.core.now [] _ t'.core.exc rfl
  · have hb' := eq_not_of_ne hb
    subst hb'
    rw [leave_get_other, hlognb, sentOf_snoc, hs2, List.append_nil, sentOf_snoc, Bool.not_not]
    have := (hfc (!b)).peer_grow (TNet.sentOf b [ev])
    rw [Bool.not_not] at this
    exact this

/-- the payloads stay admissible -/
theorem sendableT_step (S : Setting) (d : TNet) (tr : List TEv) (h : SendableT S tr) (s : TStep) (hok : stepOkS S s) :
    SendableT S (tr ++ [(d.step s).2]) := by
  intro b p hp
  rw [sentOf_snoc] at hp
  rcases List.mem_append.mp hp with hp | hp
  · exact h b p hp
  · cases s with
    | userSend b' a =>
      have hp' : p ∈ TNet.sentOf (!b) [TEv.sent b' a ((d.enter b').send a).2 (d.leave b' ((d.enter b').send a).1).2] := hp
      rw [t_sentOf_sent] at hp'
      split at hp'
      · rename_i hc
        simp only [List.mem_singleton] at hp'
        subst hp'
        obtain ⟨-, h1, h2, h3⟩ := hok
        have := h3 b' rfl
        rw [hc.1, Bool.not_not] at this
        exact ⟨h1, this, h2⟩
      · cases hp'
    | userRecv b' => cases hp
    | relay b' => cases hp
    | worker b' => cases hp
    | noise b' m => cases hp
    | tick dt => cases hp

/-- the first half of a worker iteration keeps `FcSyncT` -/
theorem fcSyncT_take (S : Setting) {d : TNet} {tr : List TEv} (h : FcSyncT S d tr) (b : Bool) :
    FcSyncT S (takeStep d b) tr := by
  intro b'
  by_cases hb : b' = b
  · subst hb
    have hcb : ((takeStep d b').get b').core = pushAll (d.get b').core (TL.takeUntilNone (d.get b').relayQ).1 := by
      rw [pushAll_fields, takeStep, get_set_same]
    rw [hcb]
    exact (h b').push _
  · have hb' := eq_not_of_ne hb
    subst hb'
    rw [takeStep, get_set_other]
    exact h (!b)

/-- **One step** (foreign frames included) keeps the invariant. -/
theorem ninvfc_step (S : Setting) {d : TNet} {tr : List TEv} (h : NInvFc S d tr) (s : TStep) (hok : stepOkS S s)
    (hno : noiseOkS S s) : NInvFc S (d.step s).1 (tr ++ [(d.step s).2]) := by
  obtain ⟨hinv, hsend, hsync⟩ := h
  refine ⟨ninv_step S hinv s hok hno, sendableT_step S d tr hsend s hok, ?_⟩
  intro hst hnT
  have hnTold : ∀ b, noT (TNet.logOf b tr) = true := fun b => noT_tlogOf_snoc b tr _ (hnT b)
  have hfc := hsync hst hnTold
  have hlv := hinv.1
  cases s with
  | userSend b a =>
    have ht : ((d.enter b).send a).1 = { d.get b with
        core := ((coreIn d b).send a).1,
        relayQ := if ((coreIn d b).send a).2 = some .ValueError then (d.get b).relayQ else (d.get b).relayQ ++ [none] } := by
      rw [tl_send_eq]; rfl
    have hr : ((d.enter b).send a).2 = ((coreIn d b).send a).2 := by rw [tl_send_eq]; rfl
    have hnTb : noT (TNet.logOf b (tr ++ [.sent b a ((d.enter b).send a).2 (d.leave b ((d.enter b).send a).1).2])) = true :=
      hnT b
    show FcSyncT S (d.leave b ((d.enter b).send a).1).1
      (tr ++ [.sent b a ((d.enter b).send a).2 (d.leave b ((d.enter b).send a).1).2])
    rw [leave_evs, hr] at hnTb ⊢
    refine fcSyncT_core_op S hst hinv hsend hfc hnTold b _ _ ?_ ?_ ?_ hnTb ?_
    · simp [TEv.evsOf]
    · simp [TEv.evsOf]
    · rw [t_sentOf_sent]; simp
    · intro _ hl2 hl _ _
      rw [ht]
      show FcLayerN S b ((coreIn d b).send a).1 _ _ _
      have := hl.sendOp hl2.send2.prog a
      rw [t_sentOf_sent]
      cases hq : queued ((coreIn d b).send a).2
      · simpa [hq] using this
      · simpa [hq] using this
  | userRecv b =>
    have ht : (d.enter b).recv.1 = { d.get b with core := (coreIn d b).recv.1 } := rfl
    have hr : (d.enter b).recv.2 = (coreIn d b).recv.2 := rfl
    have hnTb : noT (TNet.logOf b (tr ++ [.recvd b (d.enter b).recv.2 (d.leave b (d.enter b).recv.1).2])) = true := hnT b
    show FcSyncT S (d.leave b (d.enter b).recv.1).1 (tr ++ [.recvd b (d.enter b).recv.2 (d.leave b (d.enter b).recv.1).2])
    rw [leave_evs, hr] at hnTb ⊢
    refine fcSyncT_core_op S hst hinv hsend hfc hnTold b _ _ ?_ ?_ ?_ hnTb ?_
    · simp [TEv.evsOf]
    · simp [TEv.evsOf]
    · rfl
    · intro _ _ hl _ _
      rw [ht]
      show FcLayerN S b (coreIn d b).recv.1 _ _ _
      rw [t_sentOf_recvd, List.append_nil]
      exact hl.recvOp
  | relay b =>
    show FcSyncT S (d.set b (d.get b).relayStep) (tr ++ [.silent])
    refine fcSyncT_silent S ?_ hfc
    intro b'
    by_cases hb : b' = b
    · subst hb
      rw [get_set_same]
      cases hbus : (d.get b').bus with
      | nil => rw [relayStep_nil _ (hlv b') hbus]
      | cons m rest => rw [relayStep_cons _ (hlv b') m rest hbus]
    · rw [eq_not_of_ne hb, get_set_other]
  | noise b m =>
    show FcSyncT S (d.set b { d.get b with bus := (d.get b).bus ++ [m] }) (tr ++ [.silent])
    refine fcSyncT_silent S ?_ hfc
    intro b'
    by_cases hb : b' = b
    · subst hb; rw [get_set_same]
    · rw [eq_not_of_ne hb, get_set_other]
  | tick dt =>
    show FcSyncT S { d with now := d.now + dt } (tr ++ [.silent])
    exact fcSyncT_silent S (fun b' => by rw [get_now]) hfc
  | worker b =>
    have hinv1 := ninv_take S hinv b
    have hfc1 := fcSyncT_take S hfc b
    have hnTb : noT (TNet.logOf b (tr ++ [.worked b (d.movedBy b) (d.leave b (d.enter b).workerStep).2])) = true := hnT b
    show FcSyncT S (d.leave b (d.enter b).workerStep).1 (tr ++ [.worked b (d.movedBy b) (d.leave b (d.enter b).workerStep).2])
    rw [worker_eq d b (hlv b), leave_evs] at hnTb ⊢
    refine fcSyncT_core_op S hst hinv1 hsend hfc1 hnTold b _ _ ?_ ?_ rfl hnTb ?_
    · simp [TEv.evsOf]
    · simp [TEv.evsOf]
    · intro hsafe hl2 hl hctx hn
      rw [t_sentOf_worked, List.append_nil]
      exact FcLayerN.process hst true true hsafe (fun _ => hl2) (fun _ => hl) hctx hn

theorem ninvfc_runFrom (S : Setting) (ss : List TStep) : ∀ (d : TNet) (tr : List TEv), NInvFc S d tr →
    (∀ s ∈ ss, stepOkS S s ∧ noiseOkS S s) → NInvFc S (TNet.runFrom d tr ss).1 (TNet.runFrom d tr ss).2 := by
  induction ss with
  | nil => intro d tr h _; exact h
  | cons s ss ih =>
    intro d tr h hok
    rw [runFrom_cons]
    exact ih _ _ (ninvfc_step S h s (hok s List.mem_cons_self).1 (hok s List.mem_cons_self).2)
      (fun x hx => hok x (List.mem_cons_of_mem _ hx))

theorem ninvfc_init (S : Setting) : NInvFc S (tnet0 S) [] := by
  refine ⟨ninv_init S, ?_, fun _ _ b => ?_⟩
  · intro b p hp; simp [TNet.sentOf] at hp
  · have : ((tnet0 S).get b).core = State.init (S.c b) (S.a b) := by cases b <;> rfl
    rw [this]
    exact fcLayerN_init S b

/-- **`NInvFc` holds after every admissible thread schedule, foreign frames included.** -/
theorem ninvfc_run (S : Setting) (sched : List TStep) (hok : ∀ s ∈ sched, stepOkS S s ∧ noiseOkS S s) :
    NInvFc S (TNet.run (tnet0 S) sched).1 (TNet.run (tnet0 S) sched).2 :=
  ninvfc_runFrom S sched _ _ (ninvfc_init S) hok

/-- **No `UnexpectedFlowControlError`, foreign frames included.** In a state satisfying the invariant, with valid STmin
    values and no timeout reported by either logic layer, neither has reported an `UnexpectedFlowControlError`. -/
theorem noUfc_noise_core (S : Setting) (hst : StminOk S) {d : TNet} {tr : List TEv} (hinv : NInvFc S d tr)
    (hnT : ∀ b, noT (TNet.logOf b tr) = true) (b : Bool) : NoUfc (TNet.logOf b tr) := by
  obtain ⟨⟨-, hall, -⟩, -, hsync⟩ := hinv
  have := (hsync hst hnT b).noUfc
  rw [(hall b).1, List.nil_append] at this
  intro t hmem
  exact this t (List.mem_reverse.mpr hmem)

/-! ### the diagnosed invariant with foreign frames: a ContinueToSend exists only while the peer waits for it -/

/-- **Credit bound, foreign frames included.** In a state of the threaded pair satisfying `NInvFc` (no timeout reported):
    the Flow Control frames ACCEPTED BY THE ADDRESS FILTER of `b` that are in the unread input of its logic layer, in its
    relay queue or on its bus, plus the Flow Control the peer has been asked to send (`pendingFc`), plus the one in `b`'s
    mailbox (`lastFc`), are at most ONE, and there is one only while the transmit FSM of `b` is in WAIT_FC — whatever
    foreign frames (N_PCI byte 0x3X included) sit in those queues. -/
theorem fcSyncT_credit (S : Setting) (hst : StminOk S) {d : TNet} {tr : List TEv} (hinv : NInvFc S d tr)
    (hnT : ∀ b, noT (TNet.logOf b tr) = true) (b : Bool) :
    fcCountA (S.a b) ((d.get b).core.inbox.map (·.2)) + fcCountA (S.a b) (d.inFlight b) +
      (if (d.get (!b)).core.pendingFc then 1 else 0) + (if (d.get b).core.lastFc.isSome then 1 else 0) ≤
    (if (d.get b).core.txState = .waitFc then 1 else 0) := by
  obtain ⟨hn, hsend, hsync⟩ := hinv
  have hfc := hsync hst hnT
  have hfedp := fed_prefix S hst hn (!b) hnT
  rw [Bool.not_not] at hfedp
  obtain ⟨-, hall, hcond⟩ := hn
  have h2 := hcond hst hnT
  -- conservation on the way from the peer to `b`, filtered
  have hframes : ∀ m ∈ Net.txOf (TNet.logOf (!b) tr), (S.a b).rx.isForMe m = true := by
    intro m hm
    have := (h2 (!b)).send2.frames m
    rw [(hall (!b)).1, List.nil_append, List.reverse_reverse] at this
    exact frameOk_accepted S b m (this hm).1
  have hc := (hall (!b)).2.2
  rw [Bool.not_not, accF_eq, List.filter_eq_self.mpr hframes] at hc
  have hG : fcCount (S.a (!b)).tx.txPrefix.length (Net.txOf (TNet.logOf (!b) tr)) =
      fcCountA (S.a b) (rxOf (TNet.logOf b tr)) + fcCountA (S.a b) ((d.get b).core.inbox.map (·.2)) +
        fcCountA (S.a b) (d.inFlight b) := by
    rw [hc, ← prefixSize_eq S b]
    unfold incoming seen
    rw [(hall b).1, List.nil_append, List.reverse_reverse]
    show fcCountA (S.a b) _ = _
    rw [fcCountA_append, fcCountA_append]
  -- the peer's receiver law
  have h3 := (hfc (!b)).rcv
  unfold RcvFc at h3
  rw [(hall (!b)).1, List.nil_append, List.reverse_reverse, Bool.not_not] at h3
  -- the frames the peer has processed are a prefix of those `b` has emitted
  have h4 : (fed (S.a (!b)) (TNet.logOf (!b) tr)).length ≤
      (dataOut (S.a b).tx.txPrefix.length (TNet.logOf b tr)).length := hfedp.length_le
  have h6 := need_mono (S.c (!b)).blocksize (lensOf (S.c b) (S.a b) (TNet.sentOf b tr)) h4
  -- the sender law of `b`
  have h7 := (hfc b).snd.sl
  rw [(hall b).1, List.nil_append, List.reverse_reverse] at h7
  omega

end Isotp.TNetP
