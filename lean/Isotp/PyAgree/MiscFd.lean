import Isotp.PyAgree.MiscLemmas
/-! Source agreement: `_get_nearest_can_fd_size` = `nearestFd`, `_get_dlc` = `dlcOf` (for all inputs). -/
namespace Isotp.PyAgree
open Isotp Isotp.Py

/-! ### 1. `_get_nearest_can_fd_size` -/

def sizeEnv (n : Nat) : Env := fun k =>
  match k with
  | "size" => some (pint n)
  | _ => constEnv k

/-- `if x <= c: return e` followed by `rest` -/
theorem execBlock_if_le_ret (M : Meths) (env : Env) (x : String) (n c : Int) (e : PExpr) (rest : PBlock)
    (hs : env x = some (pint n)) :
    execBlock M env (.cons (.ite (.cmp .le (.var x) (.int c)) (.cons (.ret e) .nil) .nil) rest) =
      if n ≤ c then (do let v ← eval M env e; .ok (.returned v env)) else execBlock M env rest := by
  by_cases h : n ≤ c <;> simp [execBlock, execStmt, eval, hs, evalCmp_le_pint, h]

theorem get_nearest_can_fd_size_agrees (n : Nat) :
    retOf (sizeEnv n) Src.TransportLayerLogic_p_get_nearest_can_fd_size = optRes (nearestFd n) := by
  have hs : sizeEnv n "size" = some (pint n) := rfl
  simp only [retOf, runFn, Src.TransportLayerLogic_p_get_nearest_can_fd_size, execBlock_if_le_ret _ _ _ _ _ _ _ hs, nearestFd,
    cast_le_lit]
  simp only [eval, hs, ok_bind, execBlock, execStmt]
  by_cases h8 : n ≤ 8 <;> simp [h8, optRes]
  by_cases h12 : n ≤ 12 <;> simp [h12]
  by_cases h16 : n ≤ 16 <;> simp [h16]
  by_cases h20 : n ≤ 20 <;> simp [h20]
  by_cases h24 : n ≤ 24 <;> simp [h24]
  by_cases h32 : n ≤ 32 <;> simp [h32]
  by_cases h48 : n ≤ 48 <;> simp [h48]
  by_cases h64 : n ≤ 64 <;> simp [h64]

theorem get_nearest_can_fd_size_some (n k : Nat) (h : nearestFd n = some k) :
    retOf (sizeEnv n) Src.TransportLayerLogic_p_get_nearest_can_fd_size = .ok (pint k) := by
  rw [get_nearest_can_fd_size_agrees, h]; rfl

theorem get_nearest_can_fd_size_none (n : Nat) (h : nearestFd n = none) :
    retOf (sizeEnv n) Src.TransportLayerLogic_p_get_nearest_can_fd_size = .error (.exc .ValueError) := by
  rw [get_nearest_can_fd_size_agrees, h]; rfl

/-! ### 2. `_get_dlc` -/

def dlcEnv (d : Bytes) (validateTx : Bool) (txdl : Nat) : Env := fun k =>
  match k with
  | "data" => some (.bytes d)
  | "validate_tx" => some (pbool validateTx)
  | "self.params.tx_data_length" => some (pint txdl)
  | _ => constEnv k

/-- `self._get_nearest_can_fd_size(n)` is what `get_nearest_can_fd_size_agrees` proves about its source
    (called with `len(data)`, a natural number). -/
def dlcMeths : Meths where
  fn name args _ :=
    match name, args with
    | "self._get_nearest_can_fd_size", [.sc (.py (.int i))] =>
        if 0 ≤ i then optRes (nearestFd i.toNat) else .error (.unsupported "negative size")
    | _, _ => .error (.unsupported ("call " ++ name))
  proc name _ _ := .error (.unsupported ("call " ++ name))

theorem dlcMeths_nearest (n : Nat) (env : Env) :
    dlcMeths.fn "self._get_nearest_can_fd_size" [pint n] env = retOf (sizeEnv n) Src.TransportLayerLogic_p_get_nearest_can_fd_size := by
  rw [get_nearest_can_fd_size_agrees]
  simp [dlcMeths]

/-- `_get_dlc(data, validate_tx=False)`: `dlcOf` without the `tx_data_length == 8` check -/
def dlcOfNoValidate (n : Nat) : Option Nat :=
  match nearestFd n with
  | none => none
  | some f =>
    if 2 ≤ f && f ≤ 8 then some f
    else if f = 12 then some 9
    else if f = 16 then some 10
    else if f = 20 then some 11
    else if f = 24 then some 12
    else if f = 32 then some 13
    else if f = 48 then some 14
    else if f = 64 then some 15
    else none

theorem dlcOf_eq_noValidate (c : Cfg) (n : Nat) (h : c.txDl ≠ 8) : dlcOf c n = dlcOfNoValidate n := by
  unfold dlcOf dlcOfNoValidate
  cases nearestFd n <;> simp [h]

/-- the `if / elif` chain of `_get_dlc` (its last two statements), for ANY value of `fdlen` -/
def dlcChain (f : Nat) : Option Nat :=
  if 2 ≤ f && f ≤ 8 then some f
  else if f = 12 then some 9
  else if f = 16 then some 10
  else if f = 20 then some 11
  else if f = 24 then some 12
  else if f = 32 then some 13
  else if f = 48 then some 14
  else if f = 64 then some 15
  else none

theorem get_dlc_chain (M : Meths) (env : Env) (f : Nat) (hf : env "fdlen" = some (pint f)) :
    (match Src.TransportLayerLogic_p_get_dlc with
     | .cons _ (.cons _ rest) => retM M env rest
     | _ => .error (.unsupported "")) = optRes (dlcChain f) := by
  simp only [Src.TransportLayerLogic_p_get_dlc, retM, runFn, dlcChain]
  simp only [execBlock, execStmt, eval, hf, ok_bind, evalCmp_le_pint, evalCmp_ge_pint, evalCmp_eq, pvEq_pint, truthy_pbool,
    cast_le_lit, lit_le_cast, cast_eq_lit, beq_iff_eq, decide_eq_true_eq]
  by_cases h2 : 2 ≤ f <;> by_cases h8 : f ≤ 8 <;> simp [h2, h8, optRes]
  all_goals
    by_cases h12 : f = 12 <;> simp [h12]
    by_cases h16 : f = 16 <;> simp [h16]
    by_cases h20 : f = 20 <;> simp [h20]
    by_cases h24 : f = 24 <;> simp [h24]
    by_cases h32 : f = 32 <;> simp [h32]
    by_cases h48 : f = 48 <;> simp [h48]
    by_cases h64 : f = 64 <;> simp [h64]

/-- first statement: `fdlen = self._get_nearest_can_fd_size(len(data))` -/
theorem get_dlc_stmt1 (d : Bytes) (v : Bool) (txdl : Nat) :
    execStmt dlcMeths (dlcEnv d v txdl)
        (.assign "fdlen" (.call "self._get_nearest_can_fd_size" (.cons (.call "len" (.cons (.var "data") .nil)) .nil))) =
      match nearestFd d.length with
      | some f => .ok (.next ((dlcEnv d v txdl).set "fdlen" (pint f)))
      | none => .error (.exc .ValueError) := by
  cases h : nearestFd d.length <;>
    simp [execStmt, eval, evalArgs, dlcEnv, builtin_len_bytes, builtin_nearest, dlcMeths, h, optRes]

/-- second statement: the `validate_tx` check -/
theorem get_dlc_stmt2 (M : Meths) (env : Env) (v : Bool) (txdl f : Nat)
    (hv : env "validate_tx" = some (pbool v)) (ht : env "self.params.tx_data_length" = some (pint txdl))
    (hf : env "fdlen" = some (pint f)) :
    execStmt M env
        (.ite (.var "validate_tx") (.cons (.ite (.cmp .eq (.var "self.params.tx_data_length") (.int (8)))
          (.cons (.ite (.or_ (.cmp .lt (.var "fdlen") (.int (2))) (.cmp .gt (.var "fdlen") (.int (8)))) (.cons (.raise "ValueError") .nil) .nil)
          .nil) .nil) .nil) .nil) =
      if v && txdl = 8 && (f < 2 || f > 8) then .error (.exc .ValueError) else .ok (.next env) := by
  cases v <;> by_cases h8 : txdl = 8 <;> by_cases h2 : f < 2 <;> by_cases h9 : 8 < f <;>
    simp [execBlock, execStmt, eval, hv, ht, hf, h8, h2, h9, evalCmp_lt_pint, evalCmp_gt_pint, cast_lt_lit, lit_lt_cast, cast_eq_lit]

/-- `_get_dlc(data, validate_tx)` in one formula -/
def dlcGen (validateTx : Bool) (txdl n : Nat) : Option Nat :=
  match nearestFd n with
  | none => none
  | some f => if validateTx && txdl = 8 && (f < 2 || f > 8) then none else dlcChain f

theorem get_dlc_agrees_gen (d : Bytes) (v : Bool) (txdl : Nat) :
    retM dlcMeths (dlcEnv d v txdl) Src.TransportLayerLogic_p_get_dlc = optRes (dlcGen v txdl d.length) := by
  have hc := fun env f hf => get_dlc_chain dlcMeths env f hf
  simp only [Src.TransportLayerLogic_p_get_dlc, retM, runFn] at hc ⊢
  rw [execBlock, get_dlc_stmt1, dlcGen]
  cases nearestFd d.length with
  | none => rfl
  | some f =>
    have hv : ((dlcEnv d v txdl).set "fdlen" (pint f)) "validate_tx" = some (pbool v) := rfl
    have ht : ((dlcEnv d v txdl).set "fdlen" (pint f)) "self.params.tx_data_length" = some (pint txdl) := rfl
    have hf : ((dlcEnv d v txdl).set "fdlen" (pint f)) "fdlen" = some (pint f) := rfl
    simp only [ok_bind]
    rw [execBlock, get_dlc_stmt2 _ _ v txdl f hv ht hf]
    by_cases hcnd : (v && txdl = 8 && (f < 2 || f > 8)) = true
    · simp only [hcnd, if_true]; rfl
    · simp only [hcnd]
      exact hc _ f hf

theorem get_dlc_agrees (c : Cfg) (d : Bytes) :
    retM dlcMeths (dlcEnv d true c.txDl) Src.TransportLayerLogic_p_get_dlc = optRes (dlcOf c d.length) := by
  rw [get_dlc_agrees_gen]
  unfold dlcGen dlcOf dlcChain
  cases nearestFd d.length <;> simp

theorem get_dlc_agrees_noValidate (d : Bytes) (txdl : Nat) :
    retM dlcMeths (dlcEnv d false txdl) Src.TransportLayerLogic_p_get_dlc = optRes (dlcOfNoValidate d.length) := by
  rw [get_dlc_agrees_gen]
  unfold dlcGen dlcOfNoValidate dlcChain
  cases nearestFd d.length <;> simp


example : nearestFd 13 = some 16 ∧ nearestFd 65 = none := by decide

end Isotp.PyAgree

#print axioms Isotp.PyAgree.get_nearest_can_fd_size_agrees
#print axioms Isotp.PyAgree.get_nearest_can_fd_size_some
#print axioms Isotp.PyAgree.get_nearest_can_fd_size_none
#print axioms Isotp.PyAgree.dlcMeths_nearest
#print axioms Isotp.PyAgree.get_dlc_agrees_gen
#print axioms Isotp.PyAgree.get_dlc_agrees
#print axioms Isotp.PyAgree.get_dlc_agrees_noValidate
#print axioms Isotp.PyAgree.dlcOf_eq_noValidate
