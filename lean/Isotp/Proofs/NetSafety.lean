import Isotp.Net
import Isotp.Proofs.NetSend2
/-
  Network-level safety (C01 / C10), part 6: two layers joined by two FIFO links (`Isotp.Net`, the functions the
  compiled driver executes), arbitrary schedules.

  * `NOp`, `Net.step`, `Net.run`: the operations of the harness and their observable results (`NEv`).
  * `Rep`: the network seen as two layers and two links (index `Bool`: `false` = layer 0, `true` = layer 1).
  * `NetInv`: per layer the sender / receiver / queue invariants of the endpoint files (`LayerInv`, each conditional on
    "this layer reported no error"), per direction the conservation law
    `emitted i = read by j ++ inbox of j ++ link of i` (FIFO, no loss, no duplication), and — jointly for both layers,
    conditional on "no TIMEOUT error at either layer" — the stronger invariants `Layer2` (every frame on the bus is
    `OutGood`, hence every frame read is `InGood`; proved by induction on the schedule, each layer relying on what the
    peer emitted earlier).
  * `netInv_run`: the invariant holds after every schedule.
  * `safety_core` / `safety_core2`: delivered payloads are a prefix of the payloads sent by the peer (no error at all /
    no timeout error); `errors_core2`: with no timeout error, only `UnexpectedFlowControl` can be reported.
-/
set_option linter.unusedSimpArgs false

namespace Isotp.NetP
open Isotp Isotp.State

/-! ### operations and observations -/

/-- operations of the harness on the two-layer network -/
inductive NOp where
  | send (i : Nat) (a : SendArgs)    -- `layer[i].send(...)`
  | proc (i : Nat)                   -- `layer[i].process()`
  | procTx (i : Nat)                 -- `layer[i].process(do_rx=False)`
  | deliver (i : Nat) (k : Nat)      -- the first `k` frames on the link of layer `i` reach the peer
  | tick (dt : Nat)                  -- time passes
  | recv (i : Nat)                   -- `layer[i].recv()`
  deriving Repr

/-- what the harness observes of one operation: the result and the events of the layer (oldest first) -/
inductive NEv where
  | sent (i : Nat) (a : SendArgs) (res : Option PyExc) (evs : List Ev)
  | procd (i : Nat) (evs : List Ev)
  | recvd (i : Nat) (res : Option Bytes) (evs : List Ev)
  | moved (i : Nat) (n : Nat)
  | ticked
  | invalid                          -- the operation addressed a layer / link that does not exist
  deriving Repr

def Net.step (d : Net) : NOp → Net × NEv
  | .send i a =>
    match d.onLayer i (fun s => s.send a) with
    | some (d', _, evs, res) => (d', .sent i a res evs)
    | none => (d, .invalid)
  | .proc i =>
    match d.onLayer i (fun s => s.process true true) with
    | some (d', _, evs, _) => (d', .procd i evs)
    | none => (d, .invalid)
  | .procTx i =>
    match d.onLayer i (fun s => s.process false true) with
    | some (d', _, evs, _) => (d', .procd i evs)
    | none => (d, .invalid)
  | .deliver i k =>
    if i < 2 then
      match d.deliver i [1 - i] k with
      | some (d', n) => (d', .moved i n)
      | none => (d, .invalid)
    else (d, .invalid)
  | .tick dt => (d.tick dt, .ticked)
  | .recv i =>
    match d.onLayer i State.recv with
    | some (d', _, evs, res) => (d', .recvd i res evs)
    | none => (d, .invalid)

/-- run a schedule; the observations are collected in order -/
def Net.runFrom (d : Net) (tr : List NEv) (ops : List NOp) : Net × List NEv :=
  ops.foldl (fun acc op => ((Net.step acc.1 op).1, acc.2 ++ [(Net.step acc.1 op).2])) (d, tr)

def Net.run (d : Net) (ops : List NOp) : Net × List NEv := Net.runFrom d [] ops

/-- layer index of a `Bool` -/
def idx (b : Bool) : Nat := if b then 1 else 0

/-- events of layer `i` in one observation -/
def NEv.evsOf (i : Nat) : NEv → List Ev
  | .sent j _ _ evs => if j = i then evs else []
  | .procd j evs => if j = i then evs else []
  | .recvd j _ evs => if j = i then evs else []
  | _ => []

/-- all the events of layer `i`, oldest first -/
def logOf (i : Nat) (tr : List NEv) : List Ev := (tr.map (NEv.evsOf i)).flatten

/-- payloads of the `send` calls of layer `i` that queued their request, in order -/
def sentOf (i : Nat) (tr : List NEv) : List Bytes :=
  tr.filterMap fun e => match e with
    | .sent j a res _ => if j = i ∧ queued res = true then some a.src else none
    | _ => none

/-- payloads returned by the `recv` calls of layer `i`, in order -/
def recvdOf (i : Nat) (tr : List NEv) : List Bytes :=
  tr.filterMap fun e => match e with
    | .recvd j (some p) _ => if j = i then some p else none
    | _ => none

theorem logOf_snoc (i : Nat) (tr : List NEv) (e : NEv) : logOf i (tr ++ [e]) = logOf i tr ++ e.evsOf i := by
  simp [logOf]
theorem sentOf_snoc (i : Nat) (tr : List NEv) (e : NEv) : sentOf i (tr ++ [e]) = sentOf i tr ++ sentOf i [e] := by
  simp [sentOf, List.filterMap_append]
theorem recvdOf_snoc (i : Nat) (tr : List NEv) (e : NEv) : recvdOf i (tr ++ [e]) = recvdOf i tr ++ recvdOf i [e] := by
  simp [recvdOf, List.filterMap_append]

/-! ### the network as two layers and two links -/

def upd {α : Type} (f : Bool → α) (b : Bool) (x : α) : Bool → α := fun b' => if b' = b then x else f b'

@[simp] theorem upd_same {α : Type} (f : Bool → α) (b : Bool) (x : α) : upd f b x b = x := by simp [upd]
@[simp] theorem upd_other {α : Type} (f : Bool → α) (b : Bool) (x : α) : upd f b x (!b) = f (!b) := by
  cases b <;> simp [upd]

@[simp] theorem upd_not {α : Type} (f : Bool → α) (b : Bool) (x : α) : upd f (!b) x b = f b := by
  cases b <;> simp [upd]

structure Rep (d : Net) (ly : Bool → State) (ob : Bool → List CanMsg) : Prop where
  layers : d.layers = #[ly false, ly true]
  outbox : d.outbox = #[ob false, ob true]
  faults : ∀ i : Nat, d.faults[i]?.getD none = none

/-- an operation on an existing layer -/
theorem onLayer_rep {α : Type} {d : Net} {ly : Bool → State} {ob : Bool → List CanMsg} (h : Rep d ly ob) (b : Bool)
    (f : State → State × α) :
    ∃ d', d.onLayer (idx b) f =
        some (d', (f { ly b with now := d.now, log := [] }).1, (f { ly b with now := d.now, log := [] }).1.log.reverse,
          (f { ly b with now := d.now, log := [] }).2) ∧
      Rep d' (upd ly b { (f { ly b with now := d.now, log := [] }).1 with log := [], exc := none })
        (upd ob b (ob b ++ Net.txOf (f { ly b with now := d.now, log := [] }).1.log.reverse)) := by
  obtain ⟨hl, ho, hf⟩ := h
  cases b
  · have h0 : d.layers[idx false]? = some (ly false) := by rw [hl]; rfl
    unfold Net.onLayer
    simp only [h0, hf, Net.route]
    exact ⟨_, rfl, by simp only [hl]; rfl, by simp only [ho]; rfl, hf⟩
  · have h0 : d.layers[idx true]? = some (ly true) := by rw [hl]; rfl
    unfold Net.onLayer
    simp only [h0, hf, Net.route]
    exact ⟨_, rfl, by simp only [hl]; rfl, by simp only [ho]; rfl, hf⟩

/-- an operation on a layer that does not exist -/
theorem onLayer_none {α : Type} {d : Net} {ly : Bool → State} {ob : Bool → List CanMsg} (h : Rep d ly ob) (i : Nat)
    (hi : 2 ≤ i) (f : State → State × α) : d.onLayer i f = none := by
  have : d.layers[i]? = none := by rw [h.layers]; simp; omega
  simp [Net.onLayer, this]

def pushAll (s : State) (mv : List CanMsg) : State := mv.foldl (fun s m => s.pushFrame 0 m) s

theorem deliver_rep {d : Net} {ly : Bool → State} {ob : Bool → List CanMsg} (h : Rep d ly ob) (b : Bool) (k : Nat) :
    ∃ d', d.deliver (idx b) [1 - idx b] k = some (d', ((ob b).take k).length) ∧ d'.now = d.now ∧
      Rep d' (upd ly (!b) (pushAll (ly !b) ((ob b).take k))) (upd ob b ((ob b).drop k)) := by
  obtain ⟨hl, ho, hf⟩ := h
  cases b
  · unfold Net.deliver
    simp only [idx, hl, ho]
    exact ⟨_, rfl, rfl, by simp only []; rfl, by simp only []; rfl, hf⟩
  · unfold Net.deliver
    simp only [idx, hl, ho]
    exact ⟨_, rfl, rfl, by simp only []; rfl, by simp only []; rfl, hf⟩


/-! ### the invariants of one layer -/

structure LayerInv (c : Cfg) (a : Addr) (mx : Nat) (s : State) (L : List Ev) (ps rc : List Bytes) : Prop where
  safe : SafeOk s
  send : SendInv c a mx s L ps
  recv : RecvInv c a s L
  got : GotInv s L rc

/-- the clock, the exception flag and the split of the history between `s.log` and `L` do not matter -/
theorem LayerInv.relabel {c : Cfg} {a : Addr} {mx : Nat} {s : State} {L : List Ev} {ps rc : List Bytes}
    (h : LayerInv c a mx s L ps rc) (t : Nat) (lg L' : List Ev) (e : Option PyExc) (he : e = none)
    (hlog : lg ++ L' = s.log ++ L) :
    LayerInv c a mx { s with now := t, log := lg, exc := e } L' ps rc := by
  subst he
  refine ⟨⟨h.safe.1.congr rfl rfl rfl rfl rfl rfl rfl rfl, rfl⟩, ?_, ?_, ?_⟩
  · intro hn
    have hn' : noErr (s.log ++ L) = true := by rw [← hlog]; exact hn
    have hok := h.send hn'
    refine ⟨hok.cfg, hok.addr, ?_, ?_⟩
    · show ∀ m ∈ Net.txOf (lg ++ L').reverse, _
      rw [hlog]; exact hok.frames
    · show Progress c a mx _ ps (dataOut _ (lg ++ L').reverse)
      rw [hlog]
      exact hok.prog.same (txSame_refl' _ _ rfl rfl rfl rfl rfl rfl rfl rfl) rfl
  · intro hn
    have hn' : noErr (s.log ++ L) = true := by rw [← hlog]; exact hn
    have hF := h.recv hn'
    show Rx.Feeds _ (fed a (lg ++ L').reverse) _
    rw [hlog]
    refine feeds_same hF ?_
    show Rx.rxView _ = Rx.rxView _
    simp only [Rx.rxView, Rx.rxTrace, relog, hlog]
  · have := h.got
    unfold GotInv at this ⊢
    rw [this]
    simp only [Rx.delivered, Rx.rxTrace, relog, hlog]

theorem seen_relabel (s : State) (L : List Ev) (t : Nat) (lg L' : List Ev) (e : Option PyExc)
    (hlog : lg ++ L' = s.log ++ L) : seen { s with now := t, log := lg, exc := e } L' = seen s L := by
  simp only [seen, hlog]

theorem LayerInv.process {c : Cfg} {a : Addr} {mx : Nat} {s : State} {L : List Ev} {ps rc : List Bytes}
    (h : LayerInv c a mx s L ps rc) (doRx doTx : Bool) : LayerInv c a mx (s.process doRx doTx).1 L ps rc :=
  ⟨(h.send.process s doRx doTx h.safe).1, (h.send.process s doRx doTx h.safe).2, h.recv.process s doRx doTx,
    h.got.process s doRx doTx⟩

/-- a state with the same log: the reception side is not concerned -/
theorem RecvInv.same_log {c : Cfg} {a : Addr} {s s' : State} {L : List Ev} (h : RecvInv c a s L)
    (hs : Rx.RxSame s s') (hl : s'.log = s.log) : RecvInv c a s' L :=
  h.neutral hs (IntExt.of_eq hl)

theorem LayerInv.sendOp {c : Cfg} {a : Addr} {mx : Nat} {s : State} {L : List Ev} {ps rc : List Bytes}
    (h : LayerInv c a mx s L ps rc) (args : SendArgs) (hsz : args.size = args.src.length) (h1 : 1 ≤ args.src.length)
    (h2 : args.src.length < 4294967296) (h3 : args.src.length ≤ mx) :
    LayerInv c a mx (s.send args).1 L (if queued (s.send args).2 then ps ++ [args.src] else ps) rc ∧
    (s.send args).1.log = s.log ∧ (s.send args).1.inbox = s.inbox := by
  have hlog : (s.send args).1.log = s.log ∧ (s.send args).1.inbox = s.inbox ∧ (s.send args).1.rxQueue = s.rxQueue := by
    rcases C12.send_cases s args with ⟨-, hst⟩ | ⟨-, -, hst⟩ <;> rw [hst] <;> exact ⟨rfl, rfl, rfl⟩
  refine ⟨⟨⟨h.safe.1.send args, (Safe.send_exc s args).trans h.safe.2⟩, h.send.send args hsz h1 h2 h3,
    h.recv.same_log (Rx.rxSame_send s args) hlog.1, ?_⟩, hlog.1, hlog.2.1⟩
  exact h.got.sync (QSync.of_same hlog.2.2 (Rx.rxSame_send s args).trace)

theorem LayerInv.recvOp {c : Cfg} {a : Addr} {mx : Nat} {s : State} {L : List Ev} {ps rc : List Bytes}
    (h : LayerInv c a mx s L ps rc) :
    LayerInv c a mx s.recv.1 L ps (rc ++ s.recv.2.toList) ∧ s.recv.1.log = s.log ∧ s.recv.1.inbox = s.inbox := by
  cases hq : s.rxQueue with
  | nil =>
    have hr : s.recv = (s, none) := by simp [State.recv, hq]
    rw [hr]
    exact ⟨by simpa using h, rfl, rfl⟩
  | cons p rest =>
    have hr : s.recv = ({ s with rxQueue := rest }, some p) := by simp [State.recv, hq]
    rw [hr]
    have hs : Proofs.TxSame s { s with rxQueue := rest } := txSame_refl' _ _ rfl rfl rfl rfl rfl rfl rfl rfl
    refine ⟨⟨⟨h.safe.1.congr rfl rfl rfl rfl rfl rfl rfl rfl, h.safe.2⟩, h.send.neutral hs rfl (IntExt.refl _),
      h.recv.same_log (Rx.rxView_congr _ _ rfl rfl rfl rfl rfl rfl rfl rfl rfl) rfl, ?_⟩, rfl, rfl⟩
    have := h.got
    unfold GotInv at this ⊢
    rw [hq] at this
    show rc ++ [p] ++ rest = _
    rw [List.append_assoc]
    exact this

theorem pushAll_fields (mv : List CanMsg) : ∀ s : State,
    pushAll s mv = { s with inbox := s.inbox ++ mv.map (fun m => (0, m)) } := by
  induction mv with
  | nil => intro s; simp [pushAll]
  | cons m mv ih =>
    intro s
    show pushAll (s.pushFrame 0 m) mv = _
    rw [ih]
    simp [State.pushFrame]

theorem LayerInv.push {c : Cfg} {a : Addr} {mx : Nat} {s : State} {L : List Ev} {ps rc : List Bytes}
    (h : LayerInv c a mx s L ps rc) (mv : List CanMsg) :
    LayerInv c a mx (pushAll s mv) L ps rc ∧ (pushAll s mv).log = s.log ∧ seen (pushAll s mv) L = seen s L ++ mv := by
  rw [pushAll_fields]
  have hs : Proofs.TxSame s { s with inbox := s.inbox ++ mv.map (fun m => (0, m)) } :=
    txSame_refl' _ _ rfl rfl rfl rfl rfl rfl rfl rfl
  refine ⟨⟨⟨h.safe.1.congr rfl rfl rfl rfl rfl rfl rfl rfl, h.safe.2⟩, h.send.neutral hs rfl (IntExt.refl _),
    h.recv.same_log (Rx.rxView_congr _ _ rfl rfl rfl rfl rfl rfl rfl rfl rfl) rfl,
    h.got.sync (QSync.of_same rfl rfl)⟩, rfl, ?_⟩
  simp [seen, List.map_append, List.map_map, Function.comp_def]


/-! ### the invariant of the network -/

/-- two validated configurations, two well-formed addresses, each one's receive half the mirror of the other's
    transmit half -/
structure Setting where
  c : Bool → Cfg
  a : Bool → Addr
  valid : ∀ b, (c b).valid = true
  wf : ∀ b, (a b).tx.txWf = true
  mirror : ∀ b, (a (!b)).rx = Spec.mirror (a b).tx

/-- `send` is called with a bytes payload (`size = len(data)`), non-empty, below 2^32 bytes, and not longer than the
    peer's `max_frame_size` -/
def NOp.ok (S : Setting) : NOp → Prop
  | .send i a => a.size = a.src.length ∧ 1 ≤ a.src.length ∧ a.src.length < 4294967296 ∧
      ∀ b, i = idx b → a.src.length ≤ (S.c (!b)).maxFrameSize
  | _ => True

/-- a frame with the sender's identifier and prefix passes the address filter of the mirrored address -/
theorem frameOk_accepted (S : Setting) (b : Bool) (m : CanMsg) (h : FrameOk (S.a (!b)) m) :
    (S.a b).rx.isForMe m = true := by
  obtain ⟨⟨t, hid⟩, hext, r, hr⟩ := h
  have hm := S.mirror (!b)
  rw [Bool.not_not] at hm
  rw [hm]
  exact C09.mirror_accepts (S.a (!b)).tx t m r (S.wf (!b)) hid hext hr

theorem prefixSize_eq (S : Setting) (b : Bool) : (S.a b).rx.rxPrefixSize = (S.a (!b)).tx.txPrefix.length := by
  have hm := S.mirror (!b)
  rw [Bool.not_not] at hm
  rw [hm, Compose.mirror_rxPrefixSize]

/-- the configured STmin of both layers is a valid STmin byte (0..0x7F, 0xF1..0xF9): what `_make_flow_control` emits
    is then decodable by the peer -/
def StminOk (S : Setting) : Prop := ∀ b, validStmin (S.c b).stmin = true

/-- what layer `!b` may emit (`OutGood`) is what layer `b` may read (`InGood`) -/
theorem outGood_inGood (S : Setting) (hst : StminOk S) (b : Bool) (m : CanMsg)
    (h : OutGood (S.c (!b)) (S.a (!b)) (S.c b).maxFrameSize m) : InGood (S.c b) (S.a b) m := by
  intro _
  obtain ⟨_, hfc, hdata⟩ := h
  rw [prefixSize_eq S b]
  have hfcdec : isFc (S.a (!b)).tx.txPrefix.length m = true →
      ∃ bs stm cdl rdl, decode m.data (S.a (!b)).tx.txPrefix.length = some ⟨.fc 0 bs stm, cdl, rdl⟩ := by
    intro hisfc
    obtain ⟨s0, hc0, ha0, rfl⟩ := hfc hisfc
    have hv : validStmin (s0.cfg.stmin % 256) = true := by
      have := hst (!b)
      rw [← hc0] at this
      have hlt : s0.cfg.stmin < 256 := by
        simp only [validStmin, Bool.or_eq_true, Bool.and_eq_true, decide_eq_true_eq] at this
        omega
      rw [Nat.mod_eq_of_lt hlt]; exact this
    have hd : (Proofs.fcMsg s0 0).data = s0.addr.tx.txPrefix ++ fcData 0 s0.cfg.blocksize s0.cfg.stmin ++
        List.replicate (Spec.padTarget (Spec.TxCfg.of s0.cfg s0.addr)
          (s0.addr.tx.txPrefix ++ fcData 0 s0.cfg.blocksize s0.cfg.stmin).length -
          (s0.addr.tx.txPrefix ++ fcData 0 s0.cfg.blocksize s0.cfg.stmin).length) (Spec.padByte (Spec.TxCfg.of s0.cfg s0.addr)) := rfl
    rw [← ha0, hd, Rx.decode_fc _ _ 0 _ _ (by decide) hv]
    exact ⟨_, _, _, _, rfl⟩
  refine ⟨hfcdec, ?_⟩
  intro len data esc cdl rdl hd
  by_cases hisfc : isFc (S.a (!b)).tx.txPrefix.length m = true
  · obtain ⟨bs, stm, cdl', rdl', hd'⟩ := hfcdec hisfc
    rw [hd] at hd'
    cases hd'
  · obtain ⟨p, h1, h2, h3, hmem⟩ := hdata (by simpa using hisfc)
    have hb := (Rx.decode_some _ _ _ hd).1
    have := segment_ff_len (Spec.TxCfg.of (S.c (!b)) (S.a (!b))) p m.data hmem h1 h2 len data esc hb
    omega

def NetInv (S : Setting) (d : Net) (tr : List NEv) : Prop :=
  ∃ ly ob, Rep d ly ob ∧ (∀ b,
    (ly b).log = [] ∧
    LayerInv (S.c b) (S.a b) (S.c (!b)).maxFrameSize (ly b) (logOf (idx b) tr).reverse (sentOf (idx b) tr) (recvdOf (idx b) tr) ∧
    Net.txOf (logOf (idx b) tr) = seen (ly (!b)) (logOf (idx (!b)) tr).reverse ++ ob b) ∧
    (StminOk S → (∀ b, noT (logOf (idx b) tr) = true) → ∀ b,
      Layer2 (S.c b) (S.a b) (S.c (!b)).maxFrameSize (ly b) (logOf (idx b) tr).reverse (sentOf (idx b) tr))

theorem idx_ne (b : Bool) : idx (!b) ≠ idx b := by cases b <;> decide

theorem eq_not_of_ne {b b' : Bool} (h : b' ≠ b) : b' = !b := by cases b <;> cases b' <;> simp_all

/-- an operation on layer `b` -/
theorem netInv_onLayer {α : Type} (S : Setting) (d : Net) (tr : List NEv) (hinv : NetInv S d tr) (b : Bool)
    (f : State → State × α) (mk : List Ev → α → NEv)
    (he1 : ∀ evs r, (mk evs r).evsOf (idx b) = evs) (he2 : ∀ evs r, (mk evs r).evsOf (idx (!b)) = [])
    (hs2 : ∀ evs r, sentOf (idx (!b)) [mk evs r] = []) (hr2 : ∀ evs r, recvdOf (idx (!b)) [mk evs r] = [])
    (hF : ∀ (s0 : State) (L : List Ev) (ps rc : List Bytes), LayerInv (S.c b) (S.a b) (S.c (!b)).maxFrameSize s0 L ps rc →
      LayerInv (S.c b) (S.a b) (S.c (!b)).maxFrameSize (f s0).1 L (ps ++ sentOf (idx b) [mk (f s0).1.log.reverse (f s0).2])
        (rc ++ recvdOf (idx b) [mk (f s0).1.log.reverse (f s0).2]) ∧ seen (f s0).1 L = seen s0 L)
    (hG : ∀ (s0 : State) (L : List Ev) (ps : List Bytes), SafeOk s0 → (∀ m ∈ seen s0 L, InGood (S.c b) (S.a b) m) →
      (noT (s0.log ++ L) = true → Layer2 (S.c b) (S.a b) (S.c (!b)).maxFrameSize s0 L ps) →
      noT ((f s0).1.log ++ L) = true →
      Layer2 (S.c b) (S.a b) (S.c (!b)).maxFrameSize (f s0).1 L (ps ++ sentOf (idx b) [mk (f s0).1.log.reverse (f s0).2])) :
    ∃ d' s evs r, d.onLayer (idx b) f = some (d', s, evs, r) ∧ NetInv S d' (tr ++ [mk evs r]) := by
  obtain ⟨ly, ob, hrep, hall, hcond⟩ := hinv
  obtain ⟨d', hon, hrep'⟩ := onLayer_rep hrep b f
  refine ⟨d', _, _, _, hon, _, _, hrep', ?_⟩
  obtain ⟨hlog, hL, hcons⟩ := hall b
  obtain ⟨hlog2, hL2, hcons2⟩ := hall (!b)
  rw [Bool.not_not] at hL2
  have henter := hL.relabel d.now [] (logOf (idx b) tr).reverse (ly b).exc hL.safe.2 (by rw [hlog])
  have hseen0 := seen_relabel (ly b) (logOf (idx b) tr).reverse d.now [] (logOf (idx b) tr).reverse (ly b).exc
    (by rw [hlog])
  -- the timeouts-only part, before the operation
  have henter2 : StminOk S → (∀ b, noT (logOf (idx b) tr) = true) →
      Layer2 (S.c b) (S.a b) (S.c (!b)).maxFrameSize ({ ly b with now := d.now, log := [] } : State)
        (logOf (idx b) tr).reverse (sentOf (idx b) tr) :=
    fun hst hn => (hcond hst hn b).relabel d.now [] (logOf (idx b) tr).reverse (ly b).exc (by rw [hlog])
  have hgood : StminOk S → (∀ b, noT (logOf (idx b) tr) = true) →
      ∀ m ∈ seen ({ ly b with now := d.now, log := [] } : State) (logOf (idx b) tr).reverse, InGood (S.c b) (S.a b) m := by
    intro hst hn m hm
    rw [hseen0] at hm
    have hmem : m ∈ Net.txOf (logOf (idx (!b)) tr) := by
      rw [hcons2, Bool.not_not]
      exact List.mem_append_left _ hm
    have hfr := (hcond hst hn (!b)).send2.frames m (by rw [hlog2, List.nil_append, List.reverse_reverse]; exact hmem)
    rw [Bool.not_not] at hfr
    exact outGood_inGood S hst b m hfr
  generalize ({ ly b with now := d.now, log := [] } : State) = s0 at henter hseen0 henter2 hgood ⊢
  obtain ⟨hF1, hF2⟩ := hF _ _ _ _ henter
  have hG' := hG s0 (logOf (idx b) tr).reverse (sentOf (idx b) tr) henter.safe
  generalize hs1 : (f s0).1 = s1 at hF1 hF2 hG' ⊢
  generalize (f s0).2 = r at hF1 hG' ⊢
  have hlogb : (logOf (idx b) (tr ++ [mk s1.log.reverse r])).reverse = s1.log ++ (logOf (idx b) tr).reverse := by
    rw [logOf_snoc, he1, List.reverse_append, List.reverse_reverse]
  have hlognb : logOf (idx (!b)) (tr ++ [mk s1.log.reverse r]) = logOf (idx (!b)) tr := by
    rw [logOf_snoc, he2, List.append_nil]
  have hseen1 : seen ({ s1 with log := [], exc := none } : State) (s1.log ++ (logOf (idx b) tr).reverse) =
      seen s1 (logOf (idx b) tr).reverse := seen_relabel s1 _ s1.now [] _ none rfl
  constructor
  · intro b'
    by_cases hb : b' = b
    · subst hb
      rw [upd_same, upd_other, upd_same, hlogb, hlognb, sentOf_snoc, recvdOf_snoc]
      refine ⟨rfl, ?_, ?_⟩
      · exact hF1.relabel s1.now [] _ none rfl rfl
      · rw [logOf_snoc, he1, txOf_append, hcons, List.append_assoc]
    · have hb' := eq_not_of_ne hb
      subst hb'
      rw [upd_other, upd_other, Bool.not_not, upd_same, hlogb, hlognb, sentOf_snoc, recvdOf_snoc, hs2, hr2,
        List.append_nil, List.append_nil]
      refine ⟨hlog2, hL2, ?_⟩
      rw [hcons2, Bool.not_not, hseen1, hF2, hseen0]
  · intro hst hnT
    have hnTold : ∀ b'', noT (logOf (idx b'') tr) = true := by
      intro b''
      by_cases hb : b'' = b
      · subst hb
        have := hnT b''
        rw [logOf_snoc, noT_append] at this
        exact (Bool.and_eq_true _ _ ▸ this).1
      · have hb' := eq_not_of_ne hb
        subst hb'
        have := hnT (!b)
        rwa [hlognb] at this
    have hnAfter : noT (s1.log ++ (logOf (idx b) tr).reverse) = true := by
      have := hnT b
      rw [← noT_reverse, hlogb] at this
      exact this
    intro b'
    by_cases hb : b' = b
    · subst hb
      rw [upd_same, hlogb, sentOf_snoc]
      have h2 := hG' (hgood hst hnTold) (fun _ => henter2 hst hnTold) hnAfter
      exact h2.relabel s1.now [] _ none rfl
    · have hb' := eq_not_of_ne hb
      subst hb'
      rw [upd_other, hlognb, sentOf_snoc, hs2, List.append_nil]
      exact hcond hst hnTold (!b)

/-- an observation that concerns no layer -/
theorem netInv_silent (S : Setting) (d d' : Net) (tr : List NEv) (e : NEv) (he : ∀ i, e.evsOf i = [])
    (hs : ∀ i, sentOf i [e] = []) (hr : ∀ i, recvdOf i [e] = []) (h : NetInv S d' tr) (hd : d = d') :
    NetInv S d (tr ++ [e]) := by
  subst hd
  obtain ⟨ly, ob, hrep, hall, hcond⟩ := h
  refine ⟨ly, ob, hrep, fun b => ?_, ?_⟩
  · simp only [logOf_snoc, sentOf_snoc, recvdOf_snoc, he, hs, hr, List.append_nil]
    exact hall b
  · simp only [logOf_snoc, sentOf_snoc, he, hs, List.append_nil]
    exact hcond

theorem exists_idx (i : Nat) (h : i < 2) : ∃ b, i = idx b := by
  rcases i with _ | _ | i
  · exact ⟨false, rfl⟩
  · exact ⟨true, rfl⟩
  · omega

theorem idx_inj {b b' : Bool} (h : idx b = idx b') : b = b' := by cases b <;> cases b' <;> simp_all [idx]

theorem netInv_deliver (S : Setting) (d : Net) (tr : List NEv) (hinv : NetInv S d tr) (b : Bool) (k : Nat) :
    ∃ d' n, d.deliver (idx b) [1 - idx b] k = some (d', n) ∧ NetInv S d' (tr ++ [.moved (idx b) n]) := by
  obtain ⟨ly, ob, hrep, hall, hcond⟩ := hinv
  obtain ⟨d', hdel, -, hrep'⟩ := deliver_rep hrep b k
  refine ⟨d', _, hdel, ?_⟩
  refine netInv_silent S d' d' tr _ (fun _ => rfl) (fun _ => rfl) (fun _ => rfl) ?_ rfl
  refine ⟨_, _, hrep', ?_, ?_⟩
  case refine_2 =>
    intro hst hnT b'
    have hold := hcond hst hnT
    by_cases hb : b' = b
    · subst hb
      simp only [upd_not]
      exact hold b'
    · have hb' := eq_not_of_ne hb
      subst hb'
      simp only [upd_same]
      rw [pushAll_fields]
      exact (hold (!b)).push _
  obtain ⟨hlog, hL, hcons⟩ := hall b
  obtain ⟨hlog2, hL2, hcons2⟩ := hall (!b)
  rw [Bool.not_not] at hL2
  obtain ⟨hp1, hp2, hp3⟩ := hL2.push ((ob b).take k)
  intro b'
  by_cases hb : b' = b
  · subst hb
    simp only [upd_same, upd_other, upd_not, Bool.not_not]
    refine ⟨hlog, hL, ?_⟩
    rw [hp3, hcons, List.append_assoc, List.take_append_drop]
  · have hb' := eq_not_of_ne hb
    subst hb'
    simp only [upd_same, upd_other, upd_not, Bool.not_not]
    rw [Bool.not_not] at hcons2
    exact ⟨hp2.trans hlog2, hp1, hcons2⟩

theorem sentOf_procd (j i : Nat) (evs : List Ev) : sentOf j [NEv.procd i evs] = [] := rfl
theorem recvdOf_procd (j i : Nat) (evs : List Ev) : recvdOf j [NEv.procd i evs] = [] := rfl

/-- **One operation** keeps the network invariant. -/
theorem netInv_step (S : Setting) (d : Net) (tr : List NEv) (hinv : NetInv S d tr) (op : NOp) (hok : op.ok S) :
    NetInv S (Net.step d op).1 (tr ++ [(Net.step d op).2]) := by
  have hrep : ∃ ly ob, Rep d ly ob := by obtain ⟨ly, ob, h, -, -⟩ := hinv; exact ⟨ly, ob, h⟩
  obtain ⟨ly0, ob0, hrep0⟩ := hrep
  have hinvalid : NetInv S d (tr ++ [NEv.invalid]) :=
    netInv_silent S d d tr _ (fun _ => rfl) (fun _ => rfl) (fun _ => rfl) hinv rfl
  cases op with
  | send i a =>
    obtain ⟨hsz, h1, h2, h3⟩ := hok
    by_cases hi : i < 2
    · obtain ⟨b, rfl⟩ := exists_idx i hi
      obtain ⟨d', s, evs, r, hon, hn⟩ := netInv_onLayer S d tr hinv b (fun s => s.send a)
        (fun evs r => NEv.sent (idx b) a r evs) (fun _ _ => by simp [NEv.evsOf])
        (fun _ _ => by simp [NEv.evsOf, (idx_ne b).symm]) (fun _ _ => by simp [sentOf, (idx_ne b).symm])
        (fun _ _ => rfl)
        (fun s0 L ps rc hl => by
          obtain ⟨h3, h4, h5⟩ := hl.sendOp a hsz h1 h2 (h3 b rfl)
          refine ⟨?_, by simp only [seen, h4, h5]⟩
          have e1 : sentOf (idx b) [NEv.sent (idx b) a (s0.send a).2 (s0.send a).1.log.reverse] =
              if queued (s0.send a).2 then [a.src] else [] := by
            simp only [sentOf, List.filterMap_cons, List.filterMap_nil, true_and]
            cases queued (s0.send a).2 <;> rfl
          have e2 : recvdOf (idx b) [NEv.sent (idx b) a (s0.send a).2 (s0.send a).1.log.reverse] = [] := rfl
          simp only [e1, e2, List.append_nil]
          cases hq : queued (s0.send a).2
          · simpa [hq] using h3
          · simpa [hq] using h3)
        (fun s0 L ps _ _ h0 hn => by
          have hlg : (s0.send a).1.log = s0.log := by
            rcases C12.send_cases s0 a with ⟨-, hst⟩ | ⟨-, -, hst⟩ <;> rw [hst]
          rw [hlg] at hn
          have h4 := (h0 hn).sendOp a hsz h1 h2 (h3 b rfl)
          have e1 : sentOf (idx b) [NEv.sent (idx b) a (s0.send a).2 (s0.send a).1.log.reverse] =
              if queued (s0.send a).2 then [a.src] else [] := by
            simp only [sentOf, List.filterMap_cons, List.filterMap_nil, true_and]
            cases queued (s0.send a).2 <;> rfl
          rw [e1]
          cases hq : queued (s0.send a).2
          · simpa [hq] using h4
          · simpa [hq] using h4)
      simp only [Net.step, hon]
      exact hn
    · simp only [Net.step, onLayer_none hrep0 i (by omega)]
      exact hinvalid
  | proc i =>
    by_cases hi : i < 2
    · obtain ⟨b, rfl⟩ := exists_idx i hi
      obtain ⟨d', s, evs, r, hon, hn⟩ := netInv_onLayer S d tr hinv b (fun s => s.process true true)
        (fun evs _ => NEv.procd (idx b) evs) (fun _ _ => by simp [NEv.evsOf])
        (fun _ _ => by simp [NEv.evsOf, (idx_ne b).symm]) (fun _ _ => rfl) (fun _ _ => rfl)
        (fun s0 L ps rc hl => by
          simp only [sentOf_procd, recvdOf_procd, List.append_nil]
          exact ⟨hl.process true true, seen_process L s0 true true⟩)
        (fun s0 L ps hsafe hg h0 hn => by
          simp only [sentOf_procd, List.append_nil]
          exact Layer2.process true true hsafe hg h0 hn)
      simp only [Net.step, hon]
      exact hn
    · simp only [Net.step, onLayer_none hrep0 i (by omega)]
      exact hinvalid
  | procTx i =>
    by_cases hi : i < 2
    · obtain ⟨b, rfl⟩ := exists_idx i hi
      obtain ⟨d', s, evs, r, hon, hn⟩ := netInv_onLayer S d tr hinv b (fun s => s.process false true)
        (fun evs _ => NEv.procd (idx b) evs) (fun _ _ => by simp [NEv.evsOf])
        (fun _ _ => by simp [NEv.evsOf, (idx_ne b).symm]) (fun _ _ => rfl) (fun _ _ => rfl)
        (fun s0 L ps rc hl => by
          simp only [sentOf_procd, recvdOf_procd, List.append_nil]
          exact ⟨hl.process false true, seen_process L s0 false true⟩)
        (fun s0 L ps hsafe hg h0 hn => by
          simp only [sentOf_procd, List.append_nil]
          exact Layer2.process false true hsafe hg h0 hn)
      simp only [Net.step, hon]
      exact hn
    · simp only [Net.step, onLayer_none hrep0 i (by omega)]
      exact hinvalid
  | deliver i k =>
    by_cases hi : i < 2
    · obtain ⟨b, rfl⟩ := exists_idx i hi
      obtain ⟨d', n, hdel, hn⟩ := netInv_deliver S d tr hinv b k
      simp only [Net.step, hi, if_true, hdel]
      exact hn
    · simp only [Net.step, hi, if_false]
      exact hinvalid
  | tick dt =>
    simp only [Net.step]
    refine netInv_silent S _ (d.tick dt) tr _ (fun _ => rfl) (fun _ => rfl) (fun _ => rfl) ?_ rfl
    obtain ⟨ly, ob, h, hall, hcond⟩ := hinv
    exact ⟨ly, ob, ⟨h.layers, h.outbox, h.faults⟩, hall, hcond⟩
  | recv i =>
    by_cases hi : i < 2
    · obtain ⟨b, rfl⟩ := exists_idx i hi
      obtain ⟨d', s, evs, r, hon, hn⟩ := netInv_onLayer S d tr hinv b State.recv
        (fun evs r => NEv.recvd (idx b) r evs) (fun _ _ => by simp [NEv.evsOf])
        (fun _ _ => by simp [NEv.evsOf, (idx_ne b).symm]) (fun _ _ => rfl)
        (fun _ r => by cases r <;> simp [recvdOf, (idx_ne b).symm])
        (fun s0 L ps rc hl => by
          obtain ⟨h3, h4, h5⟩ := hl.recvOp
          refine ⟨?_, by simp only [seen, h4, h5]⟩
          have e1 : sentOf (idx b) [NEv.recvd (idx b) s0.recv.2 s0.recv.1.log.reverse] = [] := rfl
          have e2 : recvdOf (idx b) [NEv.recvd (idx b) s0.recv.2 s0.recv.1.log.reverse] = s0.recv.2.toList := by
            cases s0.recv.2 <;> simp [recvdOf]
          simp only [e1, e2, List.append_nil]
          exact h3)
        (fun s0 L ps _ _ h0 hn => by
          have hlg : s0.recv.1.log = s0.log := by unfold State.recv; split <;> rfl
          rw [hlg] at hn
          have e1 : sentOf (idx b) [NEv.recvd (idx b) s0.recv.2 s0.recv.1.log.reverse] = [] := rfl
          rw [e1, List.append_nil]
          exact (h0 hn).recvOp)
      simp only [Net.step, hon]
      exact hn
    · simp only [Net.step, onLayer_none hrep0 i (by omega)]
      exact hinvalid

/-- the schedule is admissible -/
def SchedOk (S : Setting) (ops : List NOp) : Prop := ∀ op ∈ ops, op.ok S

theorem netInv_runFrom (S : Setting) (ops : List NOp) : ∀ (d : Net) (tr : List NEv), NetInv S d tr → SchedOk S ops →
    NetInv S (Net.runFrom d tr ops).1 (Net.runFrom d tr ops).2 := by
  induction ops with
  | nil => intro d tr h _; exact h
  | cons op ops ih =>
    intro d tr h hok
    exact ih _ _ (netInv_step S d tr h op (hok op List.mem_cons_self)) (fun o ho => hok o (List.mem_cons_of_mem _ ho))

/-- the two-layer network at power-on -/
def net0 (S : Setting) : Net :=
  (({} : Net).setLayer 0 (State.init (S.c false) (S.a false))).setLayer 1 (State.init (S.c true) (S.a true))

theorem layerInv_init (c : Cfg) (a : Addr) (mx : Nat) (hv : c.valid = true) : LayerInv c a mx (State.init c a) [] [] [] := by
  refine ⟨⟨Safe.init c a hv, rfl⟩, ?_, ?_, ?_⟩
  · intro _
    exact ⟨rfl, rfl, by intro m hm; simp [Net.txOf, State.init] at hm,
      Progress.idle rfl rfl rfl (by simp [dataOut, Net.txOf, State.init])⟩
  · intro _
    have : relog (State.init c a) [] = State.init c a := relog_nil _
    rw [this]
    exact Rx.Feeds.done (Rx.RxSame.refl _)
  · show [] ++ [] = Rx.delivered (relog (State.init c a) [])
    rw [relog_nil]; rfl

theorem netInv_init (S : Setting) : NetInv S (net0 S) [] := by
  refine ⟨fun b => State.init (S.c b) (S.a b), fun _ => [], ⟨rfl, rfl, ?_⟩, fun b => ⟨rfl, ?_, rfl⟩,
    fun _ _ b => layer2_init _ _ _⟩
  · intro i
    show (#[none, none] : Array (Option (Bool × Nat)))[i]?.getD none = none
    rcases i with _ | _ | i <;> simp
  · exact layerInv_init _ _ _ (S.valid b)

/-- **The network invariant holds after every admissible schedule.** -/
theorem netInv_run (S : Setting) (ops : List NOp) (hok : SchedOk S ops) :
    NetInv S (Net.run (net0 S) ops).1 (Net.run (net0 S) ops).2 :=
  netInv_runFrom S ops _ _ (netInv_init S) hok

/-! ### composition: what the receiver delivers is a prefix of what the peer sent -/

theorem completeIn_prefix (enc : Bytes → List Bytes) : ∀ (ps : List Bytes) (k : Nat), Compose.completeIn enc ps k <+: ps := by
  intro ps
  induction ps with
  | nil => intro k; exact List.prefix_refl _
  | cons p ps ih =>
    intro k
    unfold Compose.completeIn
    split
    · exact (List.prefix_cons_inj p).mpr (ih _)
    · exact List.nil_prefix

/-- the sender's emitted data frames are a prefix of the segmentations of the accepted payloads -/
theorem Progress.prefix {c : Cfg} {a : Addr} {mx : Nat} {s : State} {ps out : List Bytes} (h : Progress c a mx s ps out) :
    out <+: Compose.stream (segA c a) ps := by
  cases h with
  | idle _ _ _ h4 => rw [h4]; exact List.prefix_refl _
  | busy dn rest p r0 rq k h1 _ _ _ h5 _ _ =>
    rw [h5, h1, Compose.stream_append, Compose.stream_cons]
    exact (List.prefix_append_right_inj _).mpr ((List.take_prefix _ _).trans (List.prefix_append _ _))

theorem filter_congr_mem {α : Type} (l : List α) (p q : α → Bool) (h : ∀ x ∈ l, p x = q x) : l.filter p = l.filter q := by
  induction l with
  | nil => rfl
  | cons x l ih =>
    simp only [List.filter_cons, h x List.mem_cons_self]
    rw [ih (fun y hy => h y (List.mem_cons_of_mem _ hy))]

/-- **Safety core.** In a network state satisfying the invariant, if neither layer `b` nor its peer has reported an
    error, then what `recv()` returned at layer `b` followed by its rx queue is a prefix of the payloads accepted by
    `send()` at the peer (all of them admitted by `b`'s `max_frame_size`). -/
theorem safety_core (S : Setting) (d : Net) (tr : List NEv) (hinv : NetInv S d tr) (b : Bool)
    (hn1 : noErr (logOf (idx b) tr) = true) (hn2 : noErr (logOf (idx (!b)) tr) = true)
    (hsend : Compose.Sendable (State.init (S.c b) (S.a b)) (sentOf (idx (!b)) tr)) :
    ∃ lb, d.layers[idx b]? = some lb ∧ (recvdOf (idx b) tr ++ lb.rxQueue) <+: sentOf (idx (!b)) tr := by
  obtain ⟨ly, ob, hrep, hall, -⟩ := hinv
  refine ⟨ly b, by rw [hrep.layers]; cases b <;> rfl, ?_⟩
  obtain ⟨hlogj, hLj, -⟩ := hall b
  obtain ⟨hlogi, hLi, hcons⟩ := hall (!b)
  rw [Bool.not_not] at hcons
  -- receiver
  have hR := hLj.recv (by rw [hlogj, List.nil_append, noErr_reverse]; exact hn1)
  rw [hlogj, List.nil_append, List.reverse_reverse] at hR
  -- sender
  have hS := hLi.send (by rw [hlogi, List.nil_append, noErr_reverse]; exact hn2)
  have hfr := hS.frames
  have hpr := hS.prog.prefix
  rw [hlogi, List.nil_append, List.reverse_reverse] at hfr hpr
  -- the frames read by `b` are a prefix of the frames emitted by the peer
  have hP : rxOf (logOf (idx b) tr) <+: Net.txOf (logOf (idx (!b)) tr) := by
    rw [hcons]
    unfold seen
    rw [hlogj, List.nil_append, List.reverse_reverse, List.append_assoc]
    exact List.prefix_append _ _
  have hfed : fed (S.a b) (logOf (idx b) tr) <+: dataOut (S.a (!b)).tx.txPrefix.length (logOf (idx (!b)) tr) := by
    unfold fed dataOut
    rw [filter_congr_mem (rxOf (logOf (idx b) tr)) _ (fun m => !isFc (S.a (!b)).tx.txPrefix.length m) (by
      intro m hm
      have : m ∈ Net.txOf (logOf (idx (!b)) tr) := hP.subset hm
      rw [frameOk_accepted S b m (hfr m this), prefixSize_eq S b]
      rfl)]
    exact (hP.filter _).map _
  have hpre := hfed.trans hpr
  rw [List.prefix_iff_eq_take] at hpre
  rw [hpre] at hR
  have hlink : Compose.Link (S.c (!b)) (S.a (!b)) (State.init (S.c b) (S.a b)) :=
    ⟨S.valid (!b), S.wf (!b), by
      have hm := S.mirror (!b)
      rw [Bool.not_not] at hm
      exact hm⟩
  have hdel := Compose.messages_prefix _ _ (sentOf (idx (!b)) tr) _ _ _ (hlink.admissible _ hsend) hR
  have hgot := hLj.got
  unfold GotInv at hgot
  rw [hgot, hdel]
  exact completeIn_prefix _ _ _

/-- **Safety core, timeouts only.** The same conclusion when only the two timeout errors are excluded (at both
    layers), provided the configured STmin values are valid STmin bytes. -/
theorem safety_core2 (S : Setting) (hst : StminOk S) (d : Net) (tr : List NEv) (hinv : NetInv S d tr) (b : Bool)
    (hnT : ∀ b, noT (logOf (idx b) tr) = true)
    (hsend : Compose.Sendable (State.init (S.c b) (S.a b)) (sentOf (idx (!b)) tr)) :
    ∃ lb, d.layers[idx b]? = some lb ∧ (recvdOf (idx b) tr ++ lb.rxQueue) <+: sentOf (idx (!b)) tr := by
  obtain ⟨ly, ob, hrep, hall, hcond⟩ := hinv
  refine ⟨ly b, by rw [hrep.layers]; cases b <;> rfl, ?_⟩
  obtain ⟨hlogj, hLj, -⟩ := hall b
  obtain ⟨hlogi, hLi, hcons⟩ := hall (!b)
  rw [Bool.not_not] at hcons
  have h2 := hcond hst hnT
  -- receiver
  have hR := (h2 b).feeds
  rw [hlogj, List.nil_append, List.reverse_reverse] at hR
  -- sender
  have hS := (h2 (!b)).send2
  have hfr := hS.frames
  have hpr := hS.prog.prefix
  rw [hlogi, List.nil_append, List.reverse_reverse] at hfr hpr
  have hP : rxOf (logOf (idx b) tr) <+: Net.txOf (logOf (idx (!b)) tr) := by
    rw [hcons]
    unfold seen
    rw [hlogj, List.nil_append, List.reverse_reverse, List.append_assoc]
    exact List.prefix_append _ _
  have hfed : fed (S.a b) (logOf (idx b) tr) <+: dataOut (S.a (!b)).tx.txPrefix.length (logOf (idx (!b)) tr) := by
    unfold fed dataOut
    rw [filter_congr_mem (rxOf (logOf (idx b) tr)) _ (fun m => !isFc (S.a (!b)).tx.txPrefix.length m) (by
      intro m hm
      have : m ∈ Net.txOf (logOf (idx (!b)) tr) := hP.subset hm
      rw [frameOk_accepted S b m (hfr m this).1, prefixSize_eq S b]
      rfl)]
    exact (hP.filter _).map _
  have hpre := hfed.trans hpr
  rw [List.prefix_iff_eq_take] at hpre
  rw [hpre] at hR
  have hlink : Compose.Link (S.c (!b)) (S.a (!b)) (State.init (S.c b) (S.a b)) :=
    ⟨S.valid (!b), S.wf (!b), by
      have hm := S.mirror (!b)
      rw [Bool.not_not] at hm
      exact hm⟩
  have hdel := Compose.messages_prefix _ _ (sentOf (idx (!b)) tr) _ _ _ (hlink.admissible _ hsend) hR
  have hgot := hLj.got
  unfold GotInv at hgot
  rw [hgot, hdel]
  exact completeIn_prefix _ _ _

/-! ### no reception error: the reception trace of a prefix of a clean stream -/

/-- the first `k` frames of a well-formed message, to an idle receiver: nothing is logged -/
theorem msg_prefix_trace (pre p : Bytes) (fr : List Bytes) (c0 : Cfg) (a0 : Addr) (hw : Spec.WellFormed pre p fr)
    (hpre : pre.length = a0.rx.rxPrefixSize) (hmax : p.length ≤ c0.maxFrameSize) (k : Nat) (hk : k < fr.length)
    {T : List Rx.RxEv} {s s' : State} (h : Compose.IdleAt c0 a0 T s) (hf : Rx.Feeds s (fr.take k) s') :
    Rx.rxTrace s' = T := by
  rcases Compose.wellFormed_cases pre p fr c0 a0 hw hpre hmax with ⟨d, esc, cdl, rdl, rfl, hd, h8⟩ | ⟨g, n, pad, _, hg, rfl⟩
  · have : k = 0 := by simpa using hk
    subst this
    exact (h.of_same (Compose.Feeds.done_iff_trace hf)).trace
  · rw [Compose.length_segFrames] at hk
    match k, hk with
    | 0, _ => exact (h.of_same (Compose.Feeds.done_iff_trace hf)).trace
    | j + 1, hj =>
      rw [Compose.segFrames, List.take_succ_cons] at hf
      obtain ⟨s1, h1, hf1⟩ := Compose.feeds_ff_idle hg h hf
      exact (Compose.run_mid hg pad j (by omega) s1 s' h1 hf1).trace

/-- after the first `n` frames of a stream of well-formed messages, idle receiver: the reception trace holds exactly
    one delivery per complete message — no reception error -/
theorem messages_prefix_trace (pre : Bytes) (enc : Bytes → List Bytes) : ∀ (ps : List Bytes) (n : Nat) (s s' : State),
    Compose.Admissible s pre enc ps → s.rxState = .idle → Rx.Feeds s ((Compose.stream enc ps).take n) s' →
    Rx.rxTrace s' = Rx.rxTrace s ++ (Compose.completeIn enc ps n).map Rx.RxEv.deliver := by
  intro ps
  induction ps with
  | nil =>
    intro n s s' _ _ hf
    simp only [Compose.stream_nil, List.take_nil] at hf
    have h := Compose.Feeds.done_iff_trace hf
    simp [Compose.completeIn, h.trace]
  | cons p ps ih =>
    intro n s s' ha hi hf
    rw [Compose.stream_cons] at hf
    by_cases hk : (enc p).length ≤ n
    · rw [List.take_append, List.take_of_length_le hk] at hf
      obtain ⟨s1, h1, h2⟩ := hf.split
      obtain ⟨-, hi1, ht⟩ := Rx.wellFormed_delivers s s1 pre p _ (ha.hwf p List.mem_cons_self) ha.hpre
        (ha.hmax p List.mem_cons_self) h1
      obtain ⟨hc1, ha1⟩ := Compose.Feeds.cfg_addr h1
      have := ih (n - (enc p).length) s1 s' (ha.tail.of_eq hc1 ha1) hi1 h2
      rw [this, ht hi]
      simp [Compose.completeIn, hk]
    · have hk' : n < (enc p).length := by omega
      rw [List.take_append_of_le_length (by omega)] at hf
      have := msg_prefix_trace pre p (enc p) s.cfg s.addr (ha.hwf p List.mem_cons_self) ha.hpre
        (ha.hmax p List.mem_cons_self) n hk' (Compose.admissible_idleAt hi) hf
      rw [this]
      simp [Compose.completeIn, hk]

/-- **Only `UnexpectedFlowControlError` is left.** Under the hypotheses of `safety_core2` (no timeout at either
    layer, valid STmin values, admissible payloads), every error reported by layer `b` is an
    `UnexpectedFlowControlError`: no reception error, no `BadGenerator`, no Overflow / Wait Flow Control. -/
theorem errors_core2 (S : Setting) (hst : StminOk S) (d : Net) (tr : List NEv) (hinv : NetInv S d tr) (b : Bool)
    (hnT : ∀ b, noT (logOf (idx b) tr) = true)
    (hsend : Compose.Sendable (State.init (S.c b) (S.a b)) (sentOf (idx (!b)) tr)) :
    ∀ t x, Ev.err t x ∈ logOf (idx b) tr → x = .UnexpectedFlowControl := by
  obtain ⟨ly, ob, hrep, hall, hcond⟩ := hinv
  obtain ⟨hlogj, hLj, -⟩ := hall b
  obtain ⟨hlogi, hLi, hcons⟩ := hall (!b)
  rw [Bool.not_not] at hcons
  have h2 := hcond hst hnT
  have hR := (h2 b).feeds
  have herr := (h2 b).send2.errs
  rw [hlogj, List.nil_append] at herr
  rw [hlogj, List.nil_append, List.reverse_reverse] at hR
  have hS := (h2 (!b)).send2
  have hfr := hS.frames
  have hpr := hS.prog.prefix
  rw [hlogi, List.nil_append, List.reverse_reverse] at hfr hpr
  have hP : rxOf (logOf (idx b) tr) <+: Net.txOf (logOf (idx (!b)) tr) := by
    rw [hcons]
    unfold seen
    rw [hlogj, List.nil_append, List.reverse_reverse, List.append_assoc]
    exact List.prefix_append _ _
  have hfed : fed (S.a b) (logOf (idx b) tr) <+: dataOut (S.a (!b)).tx.txPrefix.length (logOf (idx (!b)) tr) := by
    unfold fed dataOut
    rw [filter_congr_mem (rxOf (logOf (idx b) tr)) _ (fun m => !isFc (S.a (!b)).tx.txPrefix.length m) (by
      intro m hm
      have : m ∈ Net.txOf (logOf (idx (!b)) tr) := hP.subset hm
      rw [frameOk_accepted S b m (hfr m this).1, prefixSize_eq S b]
      rfl)]
    exact (hP.filter _).map _
  have hpre := hfed.trans hpr
  rw [List.prefix_iff_eq_take] at hpre
  rw [hpre] at hR
  have hlink : Compose.Link (S.c (!b)) (S.a (!b)) (State.init (S.c b) (S.a b)) :=
    ⟨S.valid (!b), S.wf (!b), by
      have hm := S.mirror (!b)
      rw [Bool.not_not] at hm
      exact hm⟩
  have htrace := messages_prefix_trace _ _ (sentOf (idx (!b)) tr) _ _ _ (hlink.admissible _ hsend) rfl hR
  intro t x hx
  rcases herr t x (List.mem_reverse.mpr hx) with hrx | hu
  · -- a reception error would show in the reception trace
    exfalso
    have hmem : Rx.RxEv.err x ∈ Rx.rxTrace (relog (ly b) (logOf (idx b) tr).reverse) := by
      simp only [Rx.rxTrace, relog, hlogj, List.nil_append, List.reverse_reverse, List.mem_filterMap]
      exact ⟨_, hx, by simp [Rx.rxEv, hrx]⟩
    rw [htrace] at hmem
    simp [Rx.rxTrace, State.init] at hmem
  · exact hu

/-! ### the payloads in the trace come from the `send` operations of the schedule -/

theorem step_sent (d : Net) (op : NOp) (i : Nat) (a : SendArgs) (res : Option PyExc) (evs : List Ev)
    (h : (Net.step d op).2 = NEv.sent i a res evs) : op = NOp.send i a := by
  cases op with
  | send j a' =>
    simp only [Net.step] at h
    split at h
    · simp only [NEv.sent.injEq] at h
      rw [h.1, h.2.1]
    · cases h
  | proc j => simp only [Net.step] at h; split at h <;> cases h
  | procTx j => simp only [Net.step] at h; split at h <;> cases h
  | deliver j k =>
    simp only [Net.step] at h
    split at h
    · split at h <;> cases h
    · cases h
  | tick dt => cases h
  | recv j => simp only [Net.step] at h; split at h <;> cases h

theorem mem_sentOf (i : Nat) (tr : List NEv) (p : Bytes) (h : p ∈ sentOf i tr) :
    ∃ a res evs, NEv.sent i a res evs ∈ tr ∧ a.src = p := by
  simp only [sentOf, List.mem_filterMap] at h
  obtain ⟨e, he, hp⟩ := h
  cases e with
  | sent j a res evs =>
    simp only [] at hp
    split at hp
    · rename_i hc
      simp only [Option.some.injEq] at hp
      exact ⟨a, res, evs, by rw [← hc.1]; exact he, hp⟩
    · cases hp
  | _ => cases hp

theorem mem_runFrom (ops : List NOp) : ∀ (d : Net) (tr : List NEv) (e : NEv), e ∈ (Net.runFrom d tr ops).2 →
    e ∈ tr ∨ ∃ d' op, op ∈ ops ∧ e = (Net.step d' op).2 := by
  induction ops with
  | nil => intro d tr e h; exact Or.inl h
  | cons op ops ih =>
    intro d tr e h
    rcases ih _ _ e h with h | ⟨d', o, ho, he⟩
    · rcases List.mem_append.mp h with h | h
      · exact Or.inl h
      · simp only [List.mem_singleton] at h
        exact Or.inr ⟨d, op, List.mem_cons_self, h⟩
    · exact Or.inr ⟨d', o, List.mem_cons_of_mem _ ho, he⟩

/-- every payload counted as sent by layer `i` is the payload of a `send i` operation of the schedule -/
theorem sentOf_run (d : Net) (ops : List NOp) (i : Nat) (p : Bytes) (h : p ∈ sentOf i (Net.run d ops).2) :
    ∃ a, NOp.send i a ∈ ops ∧ a.src = p := by
  obtain ⟨a, res, evs, hmem, hp⟩ := mem_sentOf i _ p h
  rcases mem_runFrom ops d [] _ hmem with h | ⟨d', op, hop, he⟩
  · cases h
  · have := step_sent d' op i a res evs he.symm
    exact ⟨a, this ▸ hop, hp⟩

end Isotp.NetP
