import Isotp.Process
/-
  Helper lemmas for C05 (receiver safe on arbitrary traffic) and C16b (an accepted configuration is
  operable): padding / DLC lemmas (local, prefixed `Safe.`), the safety invariant `Safe`, a
  decomposition of `processTx` into three stages, the generic lifting of step invariants to
  `rxLoop` / `txLoop` / `processLoop` / `process`, the receiver invariant `RxJust`, the quiet-sender
  invariant `Quiet`.  Property theorems are in `Isotp/Props/C05.lean` and `Isotp/Props/C16b.lean`.
-/
set_option linter.unusedSimpArgs false
set_option linter.unusedVariables false

namespace Isotp
open State

/-! ## Padding and DLC (`_pad_message_data`, `_get_nearest_can_fd_size`, `_get_dlc`) -/

theorem Safe.txPrefix_le (h : Half) : h.txPrefix.length ≤ 1 := by
  unfold Half.txPrefix; cases h.mode <;> simp

theorem Safe.rxPrefix_le (h : Half) : h.rxPrefixSize ≤ 1 := by
  unfold Half.rxPrefixSize; split <;> omega

theorem Safe.validTxDl_iff (n : Nat) :
    validTxDl n = true ↔ (n = 8 ∨ n = 12 ∨ n = 16 ∨ n = 20 ∨ n = 24 ∨ n = 32 ∨ n = 48 ∨ n = 64) := by
  simp [validTxDl, or_assoc]

theorem Safe.nearestFd_spec (n d : Nat) (hd : validTxDl d = true) (hle : n ≤ d) :
    ∃ f, nearestFd n = some f ∧ n ≤ f ∧ f ≤ d ∧ (f ≤ 8 ∨ validTxDl f = true) ∧ (n ≤ 8 → f = n) := by
  rw [Safe.validTxDl_iff] at hd
  simp only [Safe.validTxDl_iff]
  unfold nearestFd
  repeat' split
  all_goals first | omega | (refine ⟨_, rfl, ?_⟩; omega)

theorem Safe.nearestFd_fix (t : Nat) (h : t ≤ 8 ∨ validTxDl t = true) : nearestFd t = some t := by
  rw [Safe.validTxDl_iff] at h
  unfold nearestFd
  repeat' split
  all_goals first | rfl | omega | (congr 1; omega)

theorem Safe.dlcOf_ok (c : Cfg) (t : Nat) (h : t ≤ 8 ∨ validTxDl t = true) (h2 : 2 ≤ t) (hle : t ≤ c.txDl) :
    (dlcOf c t).isSome = true := by
  unfold dlcOf
  rw [Safe.nearestFd_fix t h]
  rw [Safe.validTxDl_iff] at h
  simp only
  repeat' split
  all_goals first | rfl | (simp at *; omega)

theorem Safe.padLen_ok (c : Cfg) (hv : c.valid = true) (n : Nat) (h2 : 2 ≤ n) (hle : n ≤ c.txDl) :
    ∃ t, padLen c n = some t ∧ n ≤ t ∧ t ≤ c.txDl ∧ (t ≤ 8 ∨ validTxDl t = true) := by
  simp only [Cfg.valid, Bool.and_eq_true, decide_eq_true_eq] at hv
  obtain ⟨⟨⟨⟨⟨hdl, -⟩, -⟩, hpad⟩, hmin⟩, -⟩ := hv
  obtain ⟨f, hf, hnf, hfd, hfv, hf8⟩ := Safe.nearestFd_spec n c.txDl hdl hle
  have hdl' := (Safe.validTxDl_iff _).1 hdl
  unfold padLen
  rw [hf]
  cases hm : c.txMinLen with
  | none =>
    by_cases h8 : c.txDl = 8
    · simp only [h8, if_true]
      cases c.txPadding <;> exact ⟨_, rfl, by omega⟩
    · have : c.txDl > 8 := by omega
      simp only [h8, this, if_true, if_false]
      have : max n f = f := by omega
      rw [this]
      exact ⟨_, rfl, by omega, by omega, hfv⟩
  | some m =>
    simp only [hm, validMinLen, Bool.and_eq_true, Bool.or_eq_true, decide_eq_true_eq] at hmin
    obtain ⟨hmv, hmle⟩ := hmin
    have hmax : ∀ a b : Nat, (a ≤ 8 ∨ validTxDl a = true) → (b ≤ 8 ∨ validTxDl b = true) →
        (max a b ≤ 8 ∨ validTxDl (max a b) = true) := by
      intro a b ha hb
      rw [Nat.max_def]; split <;> assumption
    have hmv' : m ≤ 8 ∨ validTxDl m = true := by
      rcases hmv with h | h
      · exact .inl h.2
      · exact .inr h
    by_cases h8 : c.txDl = 8
    · simp only [h8, if_true]
      refine ⟨_, rfl, by omega, by omega, .inl (by omega)⟩
    · have : c.txDl > 8 := by omega
      simp only [h8, this, if_true, if_false]
      refine ⟨_, rfl, by omega, by omega, ?_⟩
      by_cases hn8 : n ≤ 8
      · have hfn := hf8 hn8
        rw [hfn]
        have : max n (max m n) = max n m := by omega
        rw [this]; exact hmax _ _ (.inl hn8) hmv'
      · have : max n (max m f) = max m f := by omega
        rw [this]; exact hmax _ _ hmv' hfv

theorem Safe.makeTxMsg_ok (c : Cfg) (a : Addr) (id : Nat) (d : Bytes) (hv : c.valid = true)
    (h2 : 2 ≤ d.length) (hle : d.length ≤ c.txDl) :
    ∃ m, makeTxMsg c a id d = some m ∧ 2 ≤ m.data.length ∧ m.data.length ≤ c.txDl ∧
      d.length ≤ m.data.length := by
  obtain ⟨t, ht, h1, h2', h3⟩ := Safe.padLen_ok c hv d.length h2 hle
  have hd := Safe.dlcOf_ok c t h3 (by omega) h2'
  obtain ⟨dl, hdl⟩ := Option.isSome_iff_exists.1 hd
  unfold makeTxMsg pad
  simp only [ht]
  have hlen : (d ++ List.replicate (t - d.length) (padByte c)).length = t := by
    simp; omega
  rw [hlen, hdl]
  exact ⟨_, rfl, by simp only [hlen]; omega⟩

/-! ## `FiniteByteGenerator.consume` -/

theorem Safe.consume_size (r : Req) (n : Nat) (e : Bool) : (r.consume n e).1.size = r.size := by
  unfold Req.consume; grind

theorem Safe.consume_mono (r : Req) (n : Nat) (e : Bool) : r.consumed ≤ (r.consume n e).1.consumed := by
  unfold Req.consume; grind

theorem Safe.consume_some (r : Req) (n : Nat) (e : Bool) (p : Bytes) (h : (r.consume n e).2 = some p) :
    (r.consume n e).1.consumed = r.consumed + p.length ∧ (r.consume n e).1.consumed ≤ r.size ∧
      p.length ≤ n ∧ (e = true → p.length = n) := by
  unfold Req.consume at *; grind

/-- a non-exact `consume` of at most the remaining size cannot raise `BadGeneratorError` -/
theorem Safe.consume_nonexact (r : Req) (n : Nat) (h : r.consumed ≤ r.size) (hn : n ≤ r.remaining) :
    (r.consume n false).2 ≠ none := by
  unfold Req.consume Req.remaining at *
  have := List.length_take_le n r.src
  simp only [Bool.false_eq_true, if_false]
  split
  · omega
  · split <;> simp

/-! ## The safety invariant -/

/-- Everything `_process_tx` relies on without checking it (each clause is what makes one Python
    exception site unreachable), plus the well-formedness facts that keep these clauses inductive. -/
structure Safe (s : State) : Prop where
  /-- the configuration passed `Params.validate` -/
  cfg_valid : s.cfg.valid = true
  /-- `pending_flowcontrol_status` exists whenever `pending_flow_control_tx` is set (AttributeError site) -/
  pend : s.pendingFc = true → s.pendingFcStatus.isSome = true
  /-- `assert self.active_send_request is not None` -/
  busy : s.txState ≠ .idle → s.active.isSome = true
  /-- `assert self.remote_blocksize is not None` -/
  bs : s.txState = .transmitCf → s.remoteBs.isSome = true
  /-- the sequence number is a nibble -/
  seq : s.txSeq < 16
  /-- a frame parked by the rate limiter is a legal CAN frame for this configuration -/
  standby_wf : ∀ m, s.standby = some m → 2 ≤ m.data.length ∧ m.data.length ≤ s.cfg.txDl
  /-- the generator of the request in transmission has not produced more than announced -/
  active_wf : ∀ r, s.active = some r → r.consumed ≤ r.size

theorem Safe.init (c : Cfg) (a : Addr) (hc : c.valid = true) : Safe (State.init c a) := by
  constructor <;> simp [State.init, hc]

/-- the part of the state `Safe` talks about -/
theorem Safe.congr {s s' : State} (h : Safe s) (h1 : s'.cfg = s.cfg) (h2 : s'.pendingFc = s.pendingFc)
    (h3 : s'.pendingFcStatus = s.pendingFcStatus) (h4 : s'.txState = s.txState) (h5 : s'.active = s.active)
    (h6 : s'.remoteBs = s.remoteBs) (h7 : s'.txSeq = s.txSeq) (h8 : s'.standby = s.standby) : Safe s' := by
  obtain ⟨a, b, c, d, e, f, g⟩ := h
  constructor <;> simp_all

theorem Safe.emit {s : State} (h : Safe s) (e : Ev) : Safe (s.emit e) := h.congr rfl rfl rfl rfl rfl rfl rfl rfl
theorem Safe.error {s : State} (h : Safe s) (e : Err) : Safe (s.error e) := h.congr rfl rfl rfl rfl rfl rfl rfl rfl
theorem Safe.raise {s : State} (h : Safe s) (e : PyExc) : Safe (s.raise e) := h.congr rfl rfl rfl rfl rfl rfl rfl rfl

theorem Safe.stopSending {s : State} (h : Safe s) (b : Bool) : Safe (s.stopSending b) := by
  obtain ⟨a, b, c, d, e, f, g⟩ := h
  constructor <;> grind [State.stopSending, State.emit]

theorem Safe.stopReceiving {s : State} (h : Safe s) : Safe s.stopReceiving := by
  obtain ⟨a, b, c, d, e, f, g⟩ := h
  constructor <;> grind [State.stopReceiving]

theorem Safe.requestFc {s : State} (h : Safe s) (st : Nat) : Safe (s.requestFc st) := by
  obtain ⟨a, b, c, d, e, f, g⟩ := h
  constructor <;> grind [State.requestFc]

theorem Safe.processRx {s : State} (h : Safe s) (m : CanMsg) : Safe (s.processRx m).1 := by
  obtain ⟨a, b, c, d, e, f, g⟩ := h
  unfold State.processRx State.startReception
  constructor <;>
    grind [deliver, State.stopReceiving, State.error, State.emit, State.requestFc, startRxCfTimer]

theorem Safe.checkTimeoutsRx {s : State} (h : Safe s) : Safe s.checkTimeoutsRx := by
  unfold State.checkTimeoutsRx
  split
  · exact (h.error _).stopReceiving
  · exact h

/-! ## `_process_tx` in three stages

`processTx` is a long function; the proofs go through three stages with the same text as the
model (`processTx_eq` is `rfl`). -/
namespace State

/-- stage 1: the pending Flow Control requested by the receive side.
    `some none` = an exception was raised, `some (some msg)` = the Flow Control is sent. -/
def pendStage (s : State) : State × Option (Option CanMsg) :=
  if s.pendingFc then
    let s := { s with pendingFc := false }
    match s.pendingFcStatus with
    | none => (s.raise .AttributeError, some none)
    | some st =>
      let s := if st = 0 then s.startRxCfTimer else s
      if !s.cfg.listen then
        match makeFlowControl s.cfg s.addr st with
        | none => (s.raise .ValueError, some none)
        | some msg => (s, some (some msg))
      else (s, none)
  else (s, none)

/-- stage 2: the received Flow Control in the mailbox. `true` = Overflow status, `_process_tx` returns. -/
def fcStage (s : State) : State × Bool :=
  let fc := s.lastFc
  let s := { s with lastFc := none }
  match fc with
  | some f => if f.status = 2 then (((s.stopSending false).error .Overflow), true) else (s.handleFc f, false)
  | none => (s, false)

/-- stage 3b: the transmit state machine proper. -/
def fsmDispatch (s : State) (allowed : Nat) : State × Option CanMsg × Bool :=
  match s.txState with
  | .idle =>
    let (s, out) := s.readTxQueue allowed s.txQueue
    (s, out, false)
  | .sfStandby | .ffStandby =>
    match s.standby with
    | some msg =>
      if msg.data.length ≤ allowed then
        let s := { s with standby := none }
        if s.txState = .ffStandby then
          (({ s.startRxFcTimer with txState := .waitFc }), some msg, false)
        else (s.stopSending true, some msg, false)
      else (s, none, false)
    | none => (s, none, false)
  | .waitFc => (s, none, false)
  | .transmitCf => s.transmitCf allowed

/-- stage 3: timeout, assertion, state machine, rate-limiter accounting. -/
def fsmStage (s : State) (allowed : Nat) : State × Option CanMsg × Bool :=
  let s := if s.timerFc.timedOut s.now then (s.error .FlowControlTimeout).stopSending false else s
  if s.txState ≠ .idle && s.active.isNone then (s.raise .AssertionError, none, false) else
  let s := if s.txState ≠ .idle && (match s.active with | some r => r.depleted | none => false) && s.standby.isNone
           then s.stopSending true else s
  let (s, out, imm) := s.fsmDispatch allowed
  if s.exc.isSome then (s, none, false) else
  match out with
  | some msg => ({ s with rl := s.rl.inform s.now msg.data.length }, some msg, imm)
  | none => (s, none, imm)

theorem processTx_eq (s : State) :
    s.processTx =
      match s.pendStage with
      | (s1, some none) => (s1, none, false)
      | (s1, some (some msg)) => (s1, some msg, true)
      | (s1, none) =>
        match s1.fcStage with
        | (s2, true) => (s2, none, false)
        | (s2, false) => s2.fsmStage (s.rl.allowedBytes s.cfg.rlBitMax) := rfl

end State

/-! ## `Safe` is preserved by `_process_tx`, and no exception site is reachable -/

theorem Safe.makeTxMsg_ne_none (c : Cfg) (a : Addr) (id : Nat) (d : Bytes) (hv : c.valid = true)
    (h2 : 2 ≤ d.length) (hle : d.length ≤ c.txDl) : makeTxMsg c a id d ≠ none := by
  obtain ⟨m, hm, -⟩ := Safe.makeTxMsg_ok c a id d hv h2 hle
  simp [hm]

theorem Safe.makeTxMsg_len (c : Cfg) (a : Addr) (id : Nat) (d : Bytes) (m : CanMsg) (hv : c.valid = true)
    (h2 : 2 ≤ d.length) (hle : d.length ≤ c.txDl) (h : makeTxMsg c a id d = some m) :
    2 ≤ m.data.length ∧ m.data.length ≤ c.txDl := by
  obtain ⟨m', hm, h⟩ := Safe.makeTxMsg_ok c a id d hv h2 hle
  simp_all

theorem Safe.txDl_ge {c : Cfg} (hv : c.valid = true) : 8 ≤ c.txDl ∧ c.txDl ≤ 64 := by
  simp only [Cfg.valid, Bool.and_eq_true, Safe.validTxDl_iff] at hv
  omega

theorem Safe.makeFlowControl_ne_none (c : Cfg) (a : Addr) (st : Nat) (hv : c.valid = true) :
    makeFlowControl c a st ≠ none := by
  unfold makeFlowControl
  have := Safe.txPrefix_le a.tx
  have := Safe.txDl_ge hv
  apply Safe.makeTxMsg_ne_none _ _ _ _ hv <;> simp [fcData] <;> omega

theorem Safe.pendStage {s : State} (h : Safe s) : Safe s.pendStage.1 ∧ s.pendStage.1.exc = s.exc := by
  have hfc := Safe.makeFlowControl_ne_none s.cfg s.addr
  obtain ⟨a, b, c, d, e, f, g⟩ := h
  unfold State.pendStage
  refine ⟨?_, ?_⟩
  · constructor <;> grind [State.raise, startRxCfTimer]
  · grind [State.raise, startRxCfTimer]

theorem Safe.handleFc {s : State} (h : Safe s) (fc : FcFrame) :
    Safe (s.handleFc fc) ∧ (s.handleFc fc).exc = s.exc := by
  obtain ⟨a, b, c, d, e, f, g⟩ := h
  unfold State.handleFc
  refine ⟨?_, ?_⟩
  · constructor <;> grind [State.stopSending, State.error, State.emit, startRxFcTimer, Timer.stop, Timer.startAt]
  · grind [State.stopSending, State.error, State.emit, startRxFcTimer]

theorem Safe.fcStage {s : State} (h : Safe s) : Safe s.fcStage.1 ∧ s.fcStage.1.exc = s.exc := by
  have h0 : Safe { s with lastFc := none } := h.congr rfl rfl rfl rfl rfl rfl rfl rfl
  unfold State.fcStage
  simp only
  split
  · split
    · exact ⟨(h0.stopSending _).error _, by simp [State.stopSending, State.error, State.emit]; split <;> rfl⟩
    · exact h0.handleFc _
  · exact ⟨h0, rfl⟩

/-- the generator-pull event of `consumeActive` (harness instrumentation; only the log changes) -/
def State.pullLog (s : State) (r r' : Req) : State :=
  if r.instr && r'.consumed - r.consumed > 0 then s.emit (.pull r.id (r'.consumed - r.consumed)) else s

/-! ## Field lemmas for the two primitives whose definition branches inside a structure update
(`stopSending`, `consumeActive`); `grind`/`simp` use these instead of unfolding. -/
namespace State

@[simp, grind =] theorem stopSending_cfg (s : State) (b : Bool) : (s.stopSending b).cfg = s.cfg := by
  unfold stopSending; cases h : s.active <;> simp [h, State.emit]
@[simp, grind =] theorem stopSending_addr (s : State) (b : Bool) : (s.stopSending b).addr = s.addr := by
  unfold stopSending; cases h : s.active <;> simp [h, State.emit]
@[simp, grind =] theorem stopSending_now (s : State) (b : Bool) : (s.stopSending b).now = s.now := by
  unfold stopSending; cases h : s.active <;> simp [h, State.emit]
@[simp, grind =] theorem stopSending_rxState (s : State) (b : Bool) : (s.stopSending b).rxState = s.rxState := by
  unfold stopSending; cases h : s.active <;> simp [h, State.emit]
@[simp, grind =] theorem stopSending_rxBuf (s : State) (b : Bool) : (s.stopSending b).rxBuf = s.rxBuf := by
  unfold stopSending; cases h : s.active <;> simp [h, State.emit]
@[simp, grind =] theorem stopSending_rxFrameLen (s : State) (b : Bool) : (s.stopSending b).rxFrameLen = s.rxFrameLen := by
  unfold stopSending; cases h : s.active <;> simp [h, State.emit]
@[simp, grind =] theorem stopSending_lastSeq (s : State) (b : Bool) : (s.stopSending b).lastSeq = s.lastSeq := by
  unfold stopSending; cases h : s.active <;> simp [h, State.emit]
@[simp, grind =] theorem stopSending_rxBlockCnt (s : State) (b : Bool) : (s.stopSending b).rxBlockCnt = s.rxBlockCnt := by
  unfold stopSending; cases h : s.active <;> simp [h, State.emit]
@[simp, grind =] theorem stopSending_actualRxdl (s : State) (b : Bool) : (s.stopSending b).actualRxdl = s.actualRxdl := by
  unfold stopSending; cases h : s.active <;> simp [h, State.emit]
@[simp, grind =] theorem stopSending_timerCf (s : State) (b : Bool) : (s.stopSending b).timerCf = s.timerCf := by
  unfold stopSending; cases h : s.active <;> simp [h, State.emit]
@[simp, grind =] theorem stopSending_pendingFc (s : State) (b : Bool) : (s.stopSending b).pendingFc = s.pendingFc := by
  unfold stopSending; cases h : s.active <;> simp [h, State.emit]
@[simp, grind =] theorem stopSending_pendingFcStatus (s : State) (b : Bool) : (s.stopSending b).pendingFcStatus = s.pendingFcStatus := by
  unfold stopSending; cases h : s.active <;> simp [h, State.emit]
@[simp, grind =] theorem stopSending_rxQueue (s : State) (b : Bool) : (s.stopSending b).rxQueue = s.rxQueue := by
  unfold stopSending; cases h : s.active <;> simp [h, State.emit]
@[simp, grind =] theorem stopSending_txState (s : State) (b : Bool) : (s.stopSending b).txState = .idle := by
  unfold stopSending; cases h : s.active <;> simp [h, State.emit]
@[simp, grind =] theorem stopSending_txQueue (s : State) (b : Bool) : (s.stopSending b).txQueue = s.txQueue := by
  unfold stopSending; cases h : s.active <;> simp [h, State.emit]
@[simp, grind =] theorem stopSending_active (s : State) (b : Bool) : (s.stopSending b).active = none := by
  unfold stopSending; cases h : s.active <;> simp [h, State.emit]
@[simp, grind =] theorem stopSending_standby (s : State) (b : Bool) : (s.stopSending b).standby = none := by
  unfold stopSending; cases h : s.active <;> simp [h, State.emit]
@[simp, grind =] theorem stopSending_txFrameLen (s : State) (b : Bool) : (s.stopSending b).txFrameLen = 0 := by
  unfold stopSending; cases h : s.active <;> simp [h, State.emit]
@[simp, grind =] theorem stopSending_txSeq (s : State) (b : Bool) : (s.stopSending b).txSeq = 0 := by
  unfold stopSending; cases h : s.active <;> simp [h, State.emit]
@[simp, grind =] theorem stopSending_txBlockCnt (s : State) (b : Bool) : (s.stopSending b).txBlockCnt = 0 := by
  unfold stopSending; cases h : s.active <;> simp [h, State.emit]
@[simp, grind =] theorem stopSending_remoteBs (s : State) (b : Bool) : (s.stopSending b).remoteBs = none := by
  unfold stopSending; cases h : s.active <;> simp [h, State.emit]
@[simp, grind =] theorem stopSending_wftCnt (s : State) (b : Bool) : (s.stopSending b).wftCnt = 0 := by
  unfold stopSending; cases h : s.active <;> simp [h, State.emit]
@[simp, grind =] theorem stopSending_timerFc (s : State) (b : Bool) : (s.stopSending b).timerFc = s.timerFc.stop := by
  unfold stopSending; cases h : s.active <;> simp [h, State.emit]
@[simp, grind =] theorem stopSending_timerStmin (s : State) (b : Bool) : (s.stopSending b).timerStmin = s.timerStmin.stop := by
  unfold stopSending; cases h : s.active <;> simp [h, State.emit]
@[simp, grind =] theorem stopSending_lastFc (s : State) (b : Bool) : (s.stopSending b).lastFc = s.lastFc := by
  unfold stopSending; cases h : s.active <;> simp [h, State.emit]
@[simp, grind =] theorem stopSending_rl (s : State) (b : Bool) : (s.stopSending b).rl = s.rl := by
  unfold stopSending; cases h : s.active <;> simp [h, State.emit]
@[simp, grind =] theorem stopSending_inbox (s : State) (b : Bool) : (s.stopSending b).inbox = s.inbox := by
  unfold stopSending; cases h : s.active <;> simp [h, State.emit]
@[simp, grind =] theorem stopSending_log (s : State) (b : Bool) : (s.stopSending b).log = (match s.active with | some r => Ev.done r.id b :: s.log | none => s.log) := by
  unfold stopSending; cases h : s.active <;> simp [h, State.emit]
@[simp, grind =] theorem stopSending_exc (s : State) (b : Bool) : (s.stopSending b).exc = s.exc := by
  unfold stopSending; cases h : s.active <;> simp [h, State.emit]

@[simp, grind =] theorem consumeActive_cfg (s : State) (r : Req) (n : Nat) (e : Bool) :
    (s.consumeActive r n e).1.cfg = s.cfg := by
  first | (simp only [consumeActive, pullLog]; split <;> rfl) | simp only [consumeActive, pullLog]
@[simp, grind =] theorem consumeActive_addr (s : State) (r : Req) (n : Nat) (e : Bool) :
    (s.consumeActive r n e).1.addr = s.addr := by
  first | (simp only [consumeActive, pullLog]; split <;> rfl) | simp only [consumeActive, pullLog]
@[simp, grind =] theorem consumeActive_now (s : State) (r : Req) (n : Nat) (e : Bool) :
    (s.consumeActive r n e).1.now = s.now := by
  first | (simp only [consumeActive, pullLog]; split <;> rfl) | simp only [consumeActive, pullLog]
@[simp, grind =] theorem consumeActive_rxState (s : State) (r : Req) (n : Nat) (e : Bool) :
    (s.consumeActive r n e).1.rxState = s.rxState := by
  first | (simp only [consumeActive, pullLog]; split <;> rfl) | simp only [consumeActive, pullLog]
@[simp, grind =] theorem consumeActive_rxBuf (s : State) (r : Req) (n : Nat) (e : Bool) :
    (s.consumeActive r n e).1.rxBuf = s.rxBuf := by
  first | (simp only [consumeActive, pullLog]; split <;> rfl) | simp only [consumeActive, pullLog]
@[simp, grind =] theorem consumeActive_rxFrameLen (s : State) (r : Req) (n : Nat) (e : Bool) :
    (s.consumeActive r n e).1.rxFrameLen = s.rxFrameLen := by
  first | (simp only [consumeActive, pullLog]; split <;> rfl) | simp only [consumeActive, pullLog]
@[simp, grind =] theorem consumeActive_lastSeq (s : State) (r : Req) (n : Nat) (e : Bool) :
    (s.consumeActive r n e).1.lastSeq = s.lastSeq := by
  first | (simp only [consumeActive, pullLog]; split <;> rfl) | simp only [consumeActive, pullLog]
@[simp, grind =] theorem consumeActive_rxBlockCnt (s : State) (r : Req) (n : Nat) (e : Bool) :
    (s.consumeActive r n e).1.rxBlockCnt = s.rxBlockCnt := by
  first | (simp only [consumeActive, pullLog]; split <;> rfl) | simp only [consumeActive, pullLog]
@[simp, grind =] theorem consumeActive_actualRxdl (s : State) (r : Req) (n : Nat) (e : Bool) :
    (s.consumeActive r n e).1.actualRxdl = s.actualRxdl := by
  first | (simp only [consumeActive, pullLog]; split <;> rfl) | simp only [consumeActive, pullLog]
@[simp, grind =] theorem consumeActive_timerCf (s : State) (r : Req) (n : Nat) (e : Bool) :
    (s.consumeActive r n e).1.timerCf = s.timerCf := by
  first | (simp only [consumeActive, pullLog]; split <;> rfl) | simp only [consumeActive, pullLog]
@[simp, grind =] theorem consumeActive_pendingFc (s : State) (r : Req) (n : Nat) (e : Bool) :
    (s.consumeActive r n e).1.pendingFc = s.pendingFc := by
  first | (simp only [consumeActive, pullLog]; split <;> rfl) | simp only [consumeActive, pullLog]
@[simp, grind =] theorem consumeActive_pendingFcStatus (s : State) (r : Req) (n : Nat) (e : Bool) :
    (s.consumeActive r n e).1.pendingFcStatus = s.pendingFcStatus := by
  first | (simp only [consumeActive, pullLog]; split <;> rfl) | simp only [consumeActive, pullLog]
@[simp, grind =] theorem consumeActive_rxQueue (s : State) (r : Req) (n : Nat) (e : Bool) :
    (s.consumeActive r n e).1.rxQueue = s.rxQueue := by
  first | (simp only [consumeActive, pullLog]; split <;> rfl) | simp only [consumeActive, pullLog]
@[simp, grind =] theorem consumeActive_txState (s : State) (r : Req) (n : Nat) (e : Bool) :
    (s.consumeActive r n e).1.txState = s.txState := by
  first | (simp only [consumeActive, pullLog]; split <;> rfl) | simp only [consumeActive, pullLog]
@[simp, grind =] theorem consumeActive_txQueue (s : State) (r : Req) (n : Nat) (e : Bool) :
    (s.consumeActive r n e).1.txQueue = s.txQueue := by
  first | (simp only [consumeActive, pullLog]; split <;> rfl) | simp only [consumeActive, pullLog]
@[simp, grind =] theorem consumeActive_active (s : State) (r : Req) (n : Nat) (e : Bool) :
    (s.consumeActive r n e).1.active = some (r.consume n e).1 := by
  first | (simp only [consumeActive, pullLog]; split <;> rfl) | simp only [consumeActive, pullLog]
@[simp, grind =] theorem consumeActive_standby (s : State) (r : Req) (n : Nat) (e : Bool) :
    (s.consumeActive r n e).1.standby = s.standby := by
  first | (simp only [consumeActive, pullLog]; split <;> rfl) | simp only [consumeActive, pullLog]
@[simp, grind =] theorem consumeActive_txFrameLen (s : State) (r : Req) (n : Nat) (e : Bool) :
    (s.consumeActive r n e).1.txFrameLen = s.txFrameLen := by
  first | (simp only [consumeActive, pullLog]; split <;> rfl) | simp only [consumeActive, pullLog]
@[simp, grind =] theorem consumeActive_txSeq (s : State) (r : Req) (n : Nat) (e : Bool) :
    (s.consumeActive r n e).1.txSeq = s.txSeq := by
  first | (simp only [consumeActive, pullLog]; split <;> rfl) | simp only [consumeActive, pullLog]
@[simp, grind =] theorem consumeActive_txBlockCnt (s : State) (r : Req) (n : Nat) (e : Bool) :
    (s.consumeActive r n e).1.txBlockCnt = s.txBlockCnt := by
  first | (simp only [consumeActive, pullLog]; split <;> rfl) | simp only [consumeActive, pullLog]
@[simp, grind =] theorem consumeActive_remoteBs (s : State) (r : Req) (n : Nat) (e : Bool) :
    (s.consumeActive r n e).1.remoteBs = s.remoteBs := by
  first | (simp only [consumeActive, pullLog]; split <;> rfl) | simp only [consumeActive, pullLog]
@[simp, grind =] theorem consumeActive_wftCnt (s : State) (r : Req) (n : Nat) (e : Bool) :
    (s.consumeActive r n e).1.wftCnt = s.wftCnt := by
  first | (simp only [consumeActive, pullLog]; split <;> rfl) | simp only [consumeActive, pullLog]
@[simp, grind =] theorem consumeActive_timerFc (s : State) (r : Req) (n : Nat) (e : Bool) :
    (s.consumeActive r n e).1.timerFc = s.timerFc := by
  first | (simp only [consumeActive, pullLog]; split <;> rfl) | simp only [consumeActive, pullLog]
@[simp, grind =] theorem consumeActive_timerStmin (s : State) (r : Req) (n : Nat) (e : Bool) :
    (s.consumeActive r n e).1.timerStmin = s.timerStmin := by
  first | (simp only [consumeActive, pullLog]; split <;> rfl) | simp only [consumeActive, pullLog]
@[simp, grind =] theorem consumeActive_lastFc (s : State) (r : Req) (n : Nat) (e : Bool) :
    (s.consumeActive r n e).1.lastFc = s.lastFc := by
  first | (simp only [consumeActive, pullLog]; split <;> rfl) | simp only [consumeActive, pullLog]
@[simp, grind =] theorem consumeActive_rl (s : State) (r : Req) (n : Nat) (e : Bool) :
    (s.consumeActive r n e).1.rl = s.rl := by
  first | (simp only [consumeActive, pullLog]; split <;> rfl) | simp only [consumeActive, pullLog]
@[simp, grind =] theorem consumeActive_inbox (s : State) (r : Req) (n : Nat) (e : Bool) :
    (s.consumeActive r n e).1.inbox = s.inbox := by
  first | (simp only [consumeActive, pullLog]; split <;> rfl) | simp only [consumeActive, pullLog]
@[simp, grind =] theorem consumeActive_log (s : State) (r : Req) (n : Nat) (e : Bool) :
    (s.consumeActive r n e).1.log = (s.pullLog r (r.consume n e).1).log := by
  first | (simp only [consumeActive, pullLog]; split <;> rfl) | simp only [consumeActive, pullLog]
@[simp, grind =] theorem consumeActive_exc (s : State) (r : Req) (n : Nat) (e : Bool) :
    (s.consumeActive r n e).1.exc = s.exc := by
  first | (simp only [consumeActive, pullLog]; split <;> rfl) | simp only [consumeActive, pullLog]
@[simp, grind =] theorem consumeActive_req (s : State) (r : Req) (n : Nat) (e : Bool) :
    (s.consumeActive r n e).2.1 = (r.consume n e).1 := rfl
@[simp, grind =] theorem consumeActive_res (s : State) (r : Req) (n : Nat) (e : Bool) :
    (s.consumeActive r n e).2.2 = (r.consume n e).2 := rfl

end State

/-! ## `startTx` in pieces -/
namespace State

/-- end of the Single Frame branch of `startTx`: build the message, park it or send it -/
def sfFinish (s : State) (tat : Tat) (allowed : Nat) (msgData : Bytes) : State × Option CanMsg :=
  match makeTxMsg s.cfg s.addr (s.addr.tx.txId tat) msgData with
  | none => (s.raise .ValueError, none)
  | some msg =>
    if msgData.length > allowed then ({ s with standby := some msg, txState := .sfStandby }, none)
    else (s.stopSending true, some msg)

/-- end of the First Frame branch of `startTx` -/
def ffFinish (s : State) (allowed : Nat) (msgData : Bytes) : State × Option CanMsg :=
  match makeTxMsg s.cfg s.addr (s.addr.tx.txId .physical) msgData with
  | none => (s.raise .ValueError, none)
  | some msg =>
    if msgData.length ≤ allowed then (({ s with txState := .waitFc }).startRxFcTimer, some msg)
    else ({ s with standby := some msg, txState := .ffStandby }, none)

def sizeOnFirst (s : State) (r : Req) : Bool :=
  (r.remaining + s.txPrefixLen ≤ 7) && !(match s.cfg.txMinLen with | some m => m > 8 | none => false)

def sfHdr (sof : Bool) (n : Nat) : Bytes := if sof then [u8 n] else [0, u8 n]

def ffHdr (total : Nat) : Bytes :=
  if total ≤ 0xFFF then [u8 (0x10 + total / 256 % 16), u8 (total % 256)]
  else [0x10, 0x00, u8 (total / 16777216 % 256), u8 (total / 65536 % 256), u8 (total / 256 % 256), u8 (total % 256)]

def ffDataLen (s : State) (r : Req) : Nat :=
  if r.size ≤ 0xFFF then s.cfg.txDl - 2 - s.txPrefixLen else s.cfg.txDl - 6 - s.txPrefixLen

theorem startTx_eq (s : State) (r : Req) (allowed : Nat) :
    s.startTx r allowed =
      if r.size + (if s.sizeOnFirst r then 1 else 2) + s.txPrefixLen ≤ s.cfg.txDl then
        match (r.consume r.size true).2 with
        | none => (((s.consumeActive r r.size true).1.error .BadGenerator).stopSending false, none)
        | some payload =>
          (s.consumeActive r r.size true).1.sfFinish r.tat allowed
            ((s.consumeActive r r.size true).1.addr.tx.txPrefix ++ sfHdr (s.sizeOnFirst r) payload.length ++ payload)
      else
        match (r.consume (s.ffDataLen r) true).2 with
        | none =>
          (((({ s with txFrameLen := r.size } : State).consumeActive r (s.ffDataLen r) true).1.error
            .BadGenerator).stopSending false, none)
        | some payload =>
          ({ (({ s with txFrameLen := r.size } : State).consumeActive r (s.ffDataLen r) true).1 with
              txSeq := 1 } : State).ffFinish allowed
            ((({ s with txFrameLen := r.size } : State).consumeActive r (s.ffDataLen r) true).1.addr.tx.txPrefix ++
              ffHdr r.size ++ payload) := by
  rfl
end State

/-- `stopSending` re-establishes everything about the transmit side -/
theorem Safe.stopSending_of {s : State} (hv : s.cfg.valid = true)
    (hp : s.pendingFc = true → s.pendingFcStatus.isSome = true) (b : Bool) : Safe (s.stopSending b) := by
  constructor <;> simp [hv] <;> exact hp

theorem Safe.sfFinish {s : State} (h : Safe s) (ha : s.active.isSome = true) (tat : Tat) (allowed : Nat)
    (d : Bytes) (h2 : 2 ≤ d.length) (hle : d.length ≤ s.cfg.txDl) :
    Safe (s.sfFinish tat allowed d).1 ∧ (s.sfFinish tat allowed d).1.exc = s.exc := by
  obtain ⟨m, hm, hm2, hmle, -⟩ := Safe.makeTxMsg_ok s.cfg s.addr (s.addr.tx.txId tat) d h.cfg_valid h2 hle
  unfold State.sfFinish
  rw [hm]
  simp only
  split
  · refine ⟨?_, rfl⟩
    obtain ⟨a, b, c, d, e, f, g⟩ := h
    constructor <;> simp_all
  · exact ⟨h.stopSending _, by simp⟩

theorem Safe.ffFinish {s : State} (h : Safe s) (ha : s.active.isSome = true) (allowed : Nat)
    (d : Bytes) (h2 : 2 ≤ d.length) (hle : d.length ≤ s.cfg.txDl) :
    Safe (s.ffFinish allowed d).1 ∧ (s.ffFinish allowed d).1.exc = s.exc := by
  obtain ⟨m, hm, hm2, hmle, -⟩ := Safe.makeTxMsg_ok s.cfg s.addr (s.addr.tx.txId .physical) d h.cfg_valid h2 hle
  unfold State.ffFinish
  rw [hm]
  simp only
  obtain ⟨a, b, c, d, e, f, g⟩ := h
  split
  · refine ⟨?_, rfl⟩
    constructor <;> simp_all [startRxFcTimer]
  · refine ⟨?_, rfl⟩
    constructor <;> simp_all

/-- after a successful `consume` the state is safe again (whatever `active` was before) -/
theorem Safe.consumeActive {s : State} (hv : s.cfg.valid = true)
    (hp : s.pendingFc = true → s.pendingFcStatus.isSome = true)
    (hbs : s.txState = .transmitCf → s.remoteBs.isSome = true) (hseq : s.txSeq < 16)
    (hsb : ∀ m, s.standby = some m → 2 ≤ m.data.length ∧ m.data.length ≤ s.cfg.txDl)
    (r : Req) (n : Nat) (e : Bool) (p : Bytes) (hres : (r.consume n e).2 = some p) :
    Safe (s.consumeActive r n e).1 := by
  have := (Safe.consume_some r n e p hres).2.1
  have := Safe.consume_size r n e
  constructor <;> simp_all

theorem Safe.sfHdr_length (b : Bool) (n : Nat) : (sfHdr b n).length = if b then 1 else 2 := by
  unfold sfHdr; split <;> simp_all

theorem Safe.ffHdr_length (n : Nat) : (ffHdr n).length = if n ≤ 0xFFF then 2 else 6 := by
  unfold ffHdr; split <;> simp_all

theorem Safe.startTx {s : State} (h : Safe s) (r : Req) (allowed : Nat) (hr : r.depleted = false) :
    Safe (s.startTx r allowed).1 ∧ (s.startTx r allowed).1.exc = s.exc := by
  have hp := Safe.txPrefix_le s.addr.tx
  have hdl := Safe.txDl_ge h.cfg_valid
  simp only [Req.depleted, Bool.or_eq_false_iff, decide_eq_false_iff_not] at hr
  rw [startTx_eq]
  by_cases hcond : r.size + (if s.sizeOnFirst r then 1 else 2) + s.txPrefixLen ≤ s.cfg.txDl
  · rw [if_pos hcond]
    cases hres : (r.consume r.size true).2 with
    | none =>
      dsimp only
      refine ⟨Safe.stopSending_of ?_ ?_ _, ?_⟩
      · simp [State.error, State.emit, h.cfg_valid]
      · simpa [State.error, State.emit] using h.pend
      · simp [State.error, State.emit]
    | some p =>
      have hc := Safe.consume_some r _ _ p hres
      have hs1 := Safe.consumeActive h.cfg_valid h.pend h.bs h.seq h.standby_wf r _ _ p hres
      have := Safe.sfFinish hs1 (by simp) r.tat allowed
        ((s.consumeActive r r.size true).1.addr.tx.txPrefix ++ sfHdr (s.sizeOnFirst r) p.length ++ p)
        (by have := hc.2.2.2 rfl; simp [Safe.sfHdr_length]; split <;> omega)
        (by have := hc.2.2.2 rfl; simp [Safe.sfHdr_length, txPrefixLen] at hcond ⊢; omega)
      simpa using this
  · rw [if_neg hcond]
    cases hres : (r.consume (s.ffDataLen r) true).2 with
    | none =>
      dsimp only
      refine ⟨Safe.stopSending_of ?_ ?_ _, ?_⟩
      · simp [State.error, State.emit, h.cfg_valid]
      · simpa [State.error, State.emit] using h.pend
      · simp [State.error, State.emit]
    | some p =>
      have hc := Safe.consume_some r _ _ p hres
      have hs0 := Safe.consumeActive (s := { s with txFrameLen := r.size }) h.cfg_valid h.pend h.bs h.seq
        h.standby_wf r _ _ p hres
      have hs1 : Safe ({ (({ s with txFrameLen := r.size } : State).consumeActive r (s.ffDataLen r) true).1 with
              txSeq := 1 } : State) := by
        obtain ⟨a, b, c, d, e, f, g⟩ := hs0
        constructor <;> simp_all
      have := Safe.ffFinish hs1 (by simp) allowed
        ((({ s with txFrameLen := r.size } : State).consumeActive r (s.ffDataLen r) true).1.addr.tx.txPrefix ++
              ffHdr r.size ++ p)
        (by simp [Safe.ffHdr_length]; split <;> omega)
        (by
          have hlen := hc.2.2.2 rfl
          simp only [List.length_append, Safe.ffHdr_length, hlen, ffDataLen, txPrefixLen, consumeActive_addr]
          by_cases h4 : r.size ≤ 0xFFF <;> simp [h4] <;> omega)
      simpa using this

/-! ## `transmitCf` in pieces -/
namespace State

/-- build and "send" one Consecutive Frame (third component: `ValueError` raised) -/
def cfEmit (s : State) (payload : Bytes) : State × Option CanMsg × Bool :=
  if payload.length > 0 then
    match makeTxMsg s.cfg s.addr (s.addr.tx.txId .physical)
        (s.addr.tx.txPrefix ++ [u8 (0x20 + s.txSeq)] ++ payload) with
    | none => (s.raise .ValueError, none, true)
    | some msg =>
      ({ s with txSeq := (s.txSeq + 1) % 16, timerStmin := s.timerStmin.startAt s.now,
                txBlockCnt := s.txBlockCnt + 1 }, some msg, false)
  else (s, none, false)

/-- after the Consecutive Frame: end of the request, end of the block, or continue -/
def cfAfter (s : State) (r' : Req) (rbs : Nat) (out : Option CanMsg) : State × Option CanMsg × Bool :=
  if r'.depleted then
    if r'.remaining > 0 then ((s.error .BadGenerator).stopSending false, out, false)
    else (s.stopSending true, out, false)
  else if rbs ≠ 0 && s.txBlockCnt ≥ rbs then
    (({ s with txState := .waitFc }).startRxFcTimer, out, true)
  else (s, out, false)

def cfPayloadLen (s : State) (r : Req) : Nat := min (s.cfg.txDl - 1 - s.txPrefixLen) r.remaining

theorem transmitCf_eq (s : State) (allowed : Nat) :
    s.transmitCf allowed =
      match s.remoteBs, s.active with
      | none, _ => (s.raise .AssertionError, none, false)
      | _, none => (s.raise .AssertionError, none, false)
      | some rbs, some r =>
        if s.timerStmin.timedOut s.now then
          if s.cfPayloadLen r ≤ allowed then
            match (r.consume (s.cfPayloadLen r) false).2 with
            | none => ((s.consumeActive r (s.cfPayloadLen r) false).1.raise .AssertionError, none, false)
            | some payload =>
              if ((s.consumeActive r (s.cfPayloadLen r) false).1.cfEmit payload).2.2 then
                (((s.consumeActive r (s.cfPayloadLen r) false).1.cfEmit payload).1, none, false)
              else
                cfAfter ((s.consumeActive r (s.cfPayloadLen r) false).1.cfEmit payload).1
                  (r.consume (s.cfPayloadLen r) false).1 rbs
                  ((s.consumeActive r (s.cfPayloadLen r) false).1.cfEmit payload).2.1
          else (s, none, false)
        else (s, none, false) := by
  rfl
end State

theorem Safe.cfEmit {s : State} (h : Safe s) (p : Bytes) (hle : p.length + 1 + s.txPrefixLen ≤ s.cfg.txDl) :
    Safe (s.cfEmit p).1 ∧ (s.cfEmit p).1.exc = s.exc ∧ (s.cfEmit p).2.2 = false ∧
      (s.cfEmit p).1.txState = s.txState ∧ (s.cfEmit p).1.active = s.active := by
  unfold State.cfEmit
  split
  · next hpos =>
    obtain ⟨m, hm, hm2, hmle, -⟩ := Safe.makeTxMsg_ok s.cfg s.addr (s.addr.tx.txId .physical)
      (s.addr.tx.txPrefix ++ [u8 (0x20 + s.txSeq)] ++ p) h.cfg_valid
      (by simp; omega) (by simp [txPrefixLen] at hle ⊢; omega)
    rw [hm]
    refine ⟨?_, rfl, rfl, rfl, rfl⟩
    obtain ⟨a, b, c, d, e, f, g⟩ := h
    constructor <;> simp_all <;> omega
  · exact ⟨h, rfl, rfl, rfl, rfl⟩

theorem Safe.cfAfter {s : State} (h : Safe s) (ha : s.active.isSome = true) (r' : Req) (rbs : Nat)
    (out : Option CanMsg) :
    Safe (s.cfAfter r' rbs out).1 ∧ (s.cfAfter r' rbs out).1.exc = s.exc := by
  unfold State.cfAfter
  split
  · split
    · exact ⟨(h.error _).stopSending _, by simp [State.error, State.emit]⟩
    · exact ⟨h.stopSending _, by simp⟩
  · split
    · refine ⟨?_, rfl⟩
      obtain ⟨a, b, c, d, e, f, g⟩ := h
      constructor <;> simp_all [startRxFcTimer]
    · exact ⟨h, rfl⟩

theorem Safe.transmitCf {s : State} (h : Safe s) (hst : s.txState = .transmitCf) (allowed : Nat) :
    Safe (s.transmitCf allowed).1 ∧ (s.transmitCf allowed).1.exc = s.exc := by
  have hp := Safe.txPrefix_le s.addr.tx
  have hdl := Safe.txDl_ge h.cfg_valid
  rw [transmitCf_eq]
  have hbs := h.bs hst
  have hac := h.busy (by simp [hst])
  obtain ⟨rbs, hrbs⟩ := Option.isSome_iff_exists.1 hbs
  obtain ⟨r, hr⟩ := Option.isSome_iff_exists.1 hac
  rw [hrbs, hr]
  dsimp only
  split
  · split
    · have hwf := h.active_wf r hr
      have hne := Safe.consume_nonexact r (s.cfPayloadLen r) hwf (by unfold cfPayloadLen; omega)
      cases hres : (r.consume (s.cfPayloadLen r) false).2 with
      | none => exact absurd hres hne
      | some p =>
        dsimp only
        have hc := Safe.consume_some r _ _ p hres
        have hs1 := Safe.consumeActive h.cfg_valid h.pend h.bs h.seq h.standby_wf r _ _ p hres
        obtain ⟨e1, e2, e3, e4, e5⟩ := Safe.cfEmit hs1 p
          (by have := hc.2.2.1; unfold cfPayloadLen at this; simp [txPrefixLen] at this ⊢; omega)
        rw [e3]
        simp only [Bool.false_eq_true, if_false]
        have := Safe.cfAfter e1 (by rw [e5]; simp) (r.consume (s.cfPayloadLen r) false).1 rbs
          ((s.consumeActive r (s.cfPayloadLen r) false).1.cfEmit p).2.1
        refine ⟨this.1, ?_⟩
        rw [this.2, e2]; simp
    · exact ⟨h, rfl⟩
  · exact ⟨h, rfl⟩

theorem Safe.readTxQueue (q : List Req) : ∀ {s : State}, Safe s → s.txState = .idle → ∀ (allowed : Nat),
    Safe (s.readTxQueue allowed q).1 ∧ (s.readTxQueue allowed q).1.exc = s.exc := by
  induction q with
  | nil =>
    intro s h hi allowed
    exact ⟨h.congr rfl rfl rfl rfl rfl rfl rfl rfl, rfl⟩
  | cons r rest ih =>
    intro s h hi allowed
    unfold State.readTxQueue
    dsimp only
    split
    · have : Safe ({ ({ s with txQueue := rest, active := some r } : State).emit (.done r.id true) with
          active := none } : State) := by
        obtain ⟨a, b, c, d, e, f, g⟩ := h
        constructor <;> simp_all [State.emit]
      exact ih this (by simp [State.emit, hi]) allowed
    · next hd =>
      have hd' : r.depleted = false := by simpa using hd
      have : Safe ({ s with txQueue := rest, active := some r } : State) := by
        simp only [Req.depleted, Bool.or_eq_false_iff, decide_eq_false_iff_not] at hd'
        obtain ⟨a, b, c, d, e, f, g⟩ := h
        constructor <;> simp_all <;> omega
      exact Safe.startTx this r allowed hd'

theorem Safe.fsmDispatch {s : State} (h : Safe s) (allowed : Nat) :
    Safe (s.fsmDispatch allowed).1 ∧ (s.fsmDispatch allowed).1.exc = s.exc := by
  unfold State.fsmDispatch
  split
  · next hst => exact Safe.readTxQueue s.txQueue h hst allowed
  · next hst =>
    split
    · split
      · dsimp only
        split
        all_goals first
          | (refine ⟨?_, rfl⟩
             obtain ⟨a, b, c, d, e, f, g⟩ := h
             constructor <;> simp_all [startRxFcTimer])
          | (refine ⟨?_, by simp⟩
             apply Safe.stopSending_of
             · exact h.cfg_valid
             · exact h.pend)
      · exact ⟨h, rfl⟩
    · exact ⟨h, rfl⟩
  · next hst =>
    split
    · split
      · dsimp only
        split
        all_goals first
          | (refine ⟨?_, rfl⟩
             obtain ⟨a, b, c, d, e, f, g⟩ := h
             constructor <;> simp_all [startRxFcTimer])
          | (refine ⟨?_, by simp⟩
             apply Safe.stopSending_of
             · exact h.cfg_valid
             · exact h.pend)
      · exact ⟨h, rfl⟩
    · exact ⟨h, rfl⟩
  · exact ⟨h, rfl⟩
  · next hst => exact Safe.transmitCf h hst allowed

theorem Safe.fsmStage {s : State} (h : Safe s) (allowed : Nat) :
    Safe (s.fsmStage allowed).1 ∧ (s.fsmStage allowed).1.exc = s.exc := by
  unfold State.fsmStage
  -- Flow Control timeout
  have h1 : Safe (if s.timerFc.timedOut s.now then (s.error .FlowControlTimeout).stopSending false else s) ∧
      (if s.timerFc.timedOut s.now then (s.error .FlowControlTimeout).stopSending false else s).exc = s.exc := by
    split
    · exact ⟨(h.error _).stopSending _, by simp [State.error, State.emit]⟩
    · exact ⟨h, rfl⟩
  generalize (if s.timerFc.timedOut s.now then (s.error .FlowControlTimeout).stopSending false else s) = s1 at h1
  obtain ⟨h1, e1⟩ := h1
  dsimp only
  split
  · next hc =>
    -- the assertion cannot fail
    exfalso
    simp only [Bool.and_eq_true, decide_eq_true_eq, Option.isNone_iff_eq_none] at hc
    have := h1.busy hc.1
    simp [hc.2] at this
  · have h2 : ∀ b : Bool, Safe (if b = true then s1.stopSending true else s1) ∧
        (if b = true then s1.stopSending true else s1).exc = s.exc := by
      intro b
      cases b
      · exact ⟨h1, e1⟩
      · exact ⟨h1.stopSending _, by simp [e1]⟩
    generalize (decide (s1.txState ≠ .idle) && (match s1.active with | some r => r.depleted | none => false)
          && s1.standby.isNone) = cnd
    have h2 := h2 cnd
    generalize (if cnd = true then s1.stopSending true else s1) = s2 at h2
    obtain ⟨h2, e2⟩ := h2
    obtain ⟨h3, e3⟩ := Safe.fsmDispatch h2 allowed
    split
    · exact ⟨h3, e3.trans e2⟩
    · split
      · exact ⟨h3.congr rfl rfl rfl rfl rfl rfl rfl rfl, e3.trans e2⟩
      · exact ⟨h3, e3.trans e2⟩

/-- **`_process_tx` keeps the safety invariant and reaches no exception site.** -/
theorem Safe.processTx {s : State} (h : Safe s) : Safe s.processTx.1 ∧ s.processTx.1.exc = s.exc := by
  rw [processTx_eq]
  obtain ⟨h1, e1⟩ := Safe.pendStage h
  split
  · next heq => rw [heq] at h1 e1; exact ⟨h1, e1⟩
  · next heq => rw [heq] at h1 e1; exact ⟨h1, e1⟩
  · next s1 heq =>
    rw [heq] at h1 e1
    obtain ⟨h2, e2⟩ := Safe.fcStage h1
    split
    · next heq2 => rw [heq2] at h2 e2; exact ⟨h2, e2.trans e1⟩
    · next s2 heq2 =>
      rw [heq2] at h2 e2
      obtain ⟨h3, e3⟩ := Safe.fsmStage h2 (s.rl.allowedBytes s.cfg.rlBitMax)
      exact ⟨h3, e3.trans (e2.trans e1)⟩

/-! ## `_process_rx` by frame kind -/
namespace State

/-- `_process_rx` on a Single Frame -/
def rxSf (s : State) (d : Decoded) (data : Bytes) (esc : Bool) : State × Bool × Bool :=
  if d.canDl > 8 && !esc then (s.error .MissingEscapeSequence, false, false)
  else match s.rxState with
    | .idle =>
      let s := { s with rxFrameLen := 0, timerCf := s.timerCf.stop }
      let s := s.deliver data
      (s, s.pendingFc, true)
    | .waitCf =>
      let s := ((s.deliver data).stopReceiving).error .InterruptedWithSingleFrame
      (s, s.pendingFc, true)

/-- `_process_rx` on a First Frame -/
def rxFf (s : State) (d : Decoded) (len : Nat) (data : Bytes) : State × Bool × Bool :=
  match s.rxState with
  | .idle =>
    let s := { s with rxFrameLen := 0, timerCf := s.timerCf.stop }
    let (s, started) := s.startReception len data d.rxDl
    (s, started || s.pendingFc, false)
  | .waitCf =>
    let (s, started) := s.startReception len data d.rxDl
    let s := s.error .InterruptedWithFirstFrame
    (s, started || s.pendingFc, false)

/-- `_process_rx` on a Consecutive Frame -/
def rxCf (s : State) (d : Decoded) (sn : Nat) (data : Bytes) : State × Bool × Bool :=
  match s.rxState with
  | .idle =>
    let s := { s with rxFrameLen := 0, timerCf := s.timerCf.stop }
    let s := s.error .UnexpectedConsecutiveFrame
    (s, s.pendingFc, false)
  | .waitCf =>
    let expected := (s.lastSeq + 1) % 16
    if sn = expected then
      let btr := s.rxFrameLen - s.rxBuf.length
      if some d.rxDl != s.actualRxdl && d.rxDl < btr then
        (s.error .ChangingInvalidRXDL, false, false)
      else
        let s := s.startRxCfTimer
        let s := { s with lastSeq := sn, rxBuf := s.rxBuf ++ data.take btr }
        if s.rxBuf.length ≥ s.rxFrameLen then
          let s := (s.deliver s.rxBuf).stopReceiving
          (s, s.pendingFc, true)
        else
          let s := { s with rxBlockCnt := s.rxBlockCnt + 1 }
          if s.cfg.blocksize > 0 && s.rxBlockCnt % s.cfg.blocksize = 0 then
            let s := s.requestFc 0
            ({ s with timerCf := s.timerCf.stop }, true, false)
          else (s, s.pendingFc, false)
    else
      let s := (s.stopReceiving).error .WrongSequenceNumber
      (s, s.pendingFc, false)

theorem processRx_eq (s : State) (m : CanMsg) :
    s.processRx m =
      match decode m.data s.addr.rx.rxPrefixSize with
      | none => ((s.error .InvalidCanData).stopReceiving, false, false)
      | some d =>
        match d.pdu with
        | .fc st bs stm => ({ s with lastFc := some ⟨st, bs, stm⟩ }, true, false)
        | .sf _ data esc => s.rxSf d data esc
        | .ff len data _ => s.rxFf d len data
        | .cf sn data => s.rxCf d sn data := rfl

end State

/-- events `_process_rx` may log -/
def Ev.rxInternal : Ev → Bool
  | .err _ _ | .deliver _ => true
  | _ => false

/-- events `_process_tx` may log (the `tx` event itself is logged by the loop of `process`) -/
def Ev.txInternal : Ev → Bool
  | .err _ _ | .done _ _ | .pull _ _ => true
  | _ => false

/-- `l'` is `l` with events satisfying `P` put in front (the log is newest-first) -/
inductive LogExt (P : Ev → Bool) : List Ev → List Ev → Prop
  | refl (l : List Ev) : LogExt P l l
  | cons (e : Ev) (l l' : List Ev) : P e = true → LogExt P l l' → LogExt P l (e :: l')

attribute [grind intro] LogExt

theorem LogExt.iff_append {P : Ev → Bool} {l l' : List Ev} :
    LogExt P l l' ↔ ∃ evs, l' = evs ++ l ∧ ∀ e ∈ evs, P e = true := by
  constructor
  · intro h
    induction h with
    | refl => exact ⟨[], rfl, by simp⟩
    | cons e l l' he _ ih =>
      obtain ⟨evs, rfl, h⟩ := ih
      exact ⟨e :: evs, rfl, by simpa [he] using h⟩
  · rintro ⟨evs, rfl, h⟩
    induction evs with
    | nil => exact .refl _
    | cons e evs ih =>
      simp only [List.mem_cons, forall_eq_or_imp] at h
      exact .cons _ _ _ h.1 (ih h.2)

theorem LogExt.trans {P : Ev → Bool} {l₁ l₂ l₃ : List Ev} (h₁ : LogExt P l₁ l₂) (h₂ : LogExt P l₂ l₃) :
    LogExt P l₁ l₃ := by
  induction h₂ with
  | refl => exact h₁
  | cons e l l' he _ ih => exact .cons _ _ _ he (ih h₁)

theorem LogExt.mono {P Q : Ev → Bool} (hPQ : ∀ e, P e = true → Q e = true) {l l' : List Ev}
    (h : LogExt P l l') : LogExt Q l l' := by
  induction h with
  | refl => exact .refl _
  | cons e l l' he _ ih => exact .cons _ _ _ (hPQ _ he) ih

/-! ## Receive side: frame conditions, `RxJust`, deliveries, Flow Control requests -/

/-- payloads put on the rx queue according to the log (newest first, like the log) -/
def deliveries : List Ev → List Bytes
  | [] => []
  | .deliver p :: l => p :: deliveries l
  | _ :: l => deliveries l

@[simp, grind =] theorem deliveries_nil : deliveries [] = [] := rfl
@[simp, grind =] theorem deliveries_deliver (p : Bytes) (l : List Ev) :
    deliveries (.deliver p :: l) = p :: deliveries l := rfl
@[simp, grind =] theorem deliveries_err (t : Nat) (e : Err) (l : List Ev) :
    deliveries (.err t e :: l) = deliveries l := rfl
@[simp, grind =] theorem deliveries_tx (t : Nat) (m : CanMsg) (l : List Ev) :
    deliveries (.tx t m :: l) = deliveries l := rfl
@[simp, grind =] theorem deliveries_done (i : Nat) (b : Bool) (l : List Ev) :
    deliveries (.done i b :: l) = deliveries l := rfl
@[simp, grind =] theorem deliveries_pull (i n : Nat) (l : List Ev) :
    deliveries (.pull i n :: l) = deliveries l := rfl
@[simp, grind =] theorem deliveries_rx (t : Nat) (m : CanMsg) (l : List Ev) :
    deliveries (.rx t m :: l) = deliveries l := rfl
@[simp, grind =] theorem deliveries_rxNone (t : Nat) (l : List Ev) :
    deliveries (.rxNone t :: l) = deliveries l := rfl

/-- what `_process_rx` / `_check_timeouts_rx` / `stop_receiving` never touch: configuration, clock,
    the whole transmit side, the exception flag; the log only gets errors and deliveries in front -/
structure RxFrame (s s' : State) : Prop where
  cfg : s'.cfg = s.cfg
  addr : s'.addr = s.addr
  now : s'.now = s.now
  inbox : s'.inbox = s.inbox
  exc : s'.exc = s.exc
  txState : s'.txState = s.txState
  txQueue : s'.txQueue = s.txQueue
  active : s'.active = s.active
  standby : s'.standby = s.standby
  txFrameLen : s'.txFrameLen = s.txFrameLen
  txSeq : s'.txSeq = s.txSeq
  txBlockCnt : s'.txBlockCnt = s.txBlockCnt
  remoteBs : s'.remoteBs = s.remoteBs
  wftCnt : s'.wftCnt = s.wftCnt
  timerFc : s'.timerFc = s.timerFc
  timerStmin : s'.timerStmin = s.timerStmin
  rl : s'.rl = s.rl
  log : LogExt Ev.rxInternal s.log s'.log


theorem RxFrame.rxSf (s : State) (d : Decoded) (data : Bytes) (esc : Bool) : RxFrame s (s.rxSf d data esc).1 := by
  unfold State.rxSf
  constructor <;>
    grind [State.deliver, State.stopReceiving, State.error, State.emit, Ev.rxInternal]

theorem RxFrame.rxFf (s : State) (d : Decoded) (len : Nat) (data : Bytes) : RxFrame s (s.rxFf d len data).1 := by
  unfold State.rxFf State.startReception
  constructor <;>
    grind [State.stopReceiving, State.error, State.emit, State.requestFc, startRxCfTimer, Ev.rxInternal]

theorem RxFrame.rxCf (s : State) (d : Decoded) (sn : Nat) (data : Bytes) : RxFrame s (s.rxCf d sn data).1 := by
  unfold State.rxCf
  constructor <;>
    grind [State.deliver, State.stopReceiving, State.error, State.emit, State.requestFc, startRxCfTimer,
      Ev.rxInternal]

theorem RxFrame.processRx (s : State) (m : CanMsg) : RxFrame s (s.processRx m).1 := by
  rw [processRx_eq]
  split
  · constructor <;> grind [State.stopReceiving, State.error, State.emit, Ev.rxInternal]
  · split
    · constructor <;> first | rfl | exact .refl _
    · exact RxFrame.rxSf ..
    · exact RxFrame.rxFf ..
    · exact RxFrame.rxCf ..

theorem RxFrame.stopReceiving (s : State) : RxFrame s s.stopReceiving := by
  constructor <;> first | rfl | exact .refl _

theorem RxFrame.checkTimeoutsRx (s : State) : RxFrame s s.checkTimeoutsRx := by
  unfold State.checkTimeoutsRx
  constructor <;> grind [State.stopReceiving, State.error, State.emit, Ev.rxInternal]

/-! ### the receiver invariant -/

/-- While a segmented reception is in progress the buffer never exceeds the announced length, and the
    announced length was accepted (`≤ max_frame_size`). -/
def RxJust (s : State) : Prop :=
  s.rxState = .waitCf → s.rxBuf.length ≤ s.rxFrameLen ∧ s.rxFrameLen ≤ s.cfg.maxFrameSize

theorem RxJust.init (c : Cfg) (a : Addr) : RxJust (State.init c a) := by
  simp [RxJust, State.init]

theorem RxJust.of_eq {s s' : State} (h : RxJust s) (h1 : s'.rxState = s.rxState) (h2 : s'.rxBuf = s.rxBuf)
    (h3 : s'.rxFrameLen = s.rxFrameLen) (h4 : s'.cfg = s.cfg) : RxJust s' := by
  simp_all [RxJust]

theorem RxJust.stopReceiving (s : State) : RxJust s.stopReceiving := by
  simp [RxJust, State.stopReceiving]

theorem RxJust.checkTimeoutsRx {s : State} (h : RxJust s) : RxJust s.checkTimeoutsRx := by
  unfold State.checkTimeoutsRx; split
  · exact RxJust.stopReceiving _
  · exact h

theorem Safe.ff_data_len (d : Bytes) (len : Nat) (data : Bytes) (esc : Bool)
    (h : decodeBody d = some (.ff len data esc)) : data.length ≤ len := by
  unfold decodeBody at h
  grind

theorem RxJust.processRx {s : State} (h : RxJust s) (m : CanMsg) : RxJust (s.processRx m).1 := by
  unfold RxJust at *
  rw [processRx_eq]
  split
  · simp [State.stopReceiving]
  · next d hd =>
    split
    · exact h
    · unfold State.rxSf
      grind [State.deliver, State.stopReceiving, State.error, State.emit]
    · next len data esc hp =>
      have hlen : data.length ≤ len := by
        unfold decode at hd
        split at hd
        · simp at hd
        · split at hd
          · simp at hd
          · next p hb =>
            simp only [Option.some.injEq] at hd
            subst hd
            simp only at hp
            subst hp
            exact Safe.ff_data_len _ _ _ _ hb
      unfold State.rxFf State.startReception
      grind [State.stopReceiving, State.error, State.emit, State.requestFc, startRxCfTimer]
    · unfold State.rxCf
      grind [State.deliver, State.stopReceiving, State.error, State.emit, State.requestFc, startRxCfTimer]

/-! ### deliveries: which frame puts what on the rx queue -/

/-- nothing delivered by the step `s → s'` -/
def NoDelivery (s s' : State) : Prop :=
  s'.rxQueue = s.rxQueue ∧ deliveries s'.log = deliveries s.log

/-- exactly `p` delivered by the step `s → s'` (queue and log agree) -/
def Delivered (s s' : State) (p : Bytes) : Prop :=
  s'.rxQueue = s.rxQueue ++ [p] ∧ deliveries s'.log = p :: deliveries s.log

theorem rxSf_deliv (s : State) (d : Decoded) (data : Bytes) (esc : Bool) :
    NoDelivery s (s.rxSf d data esc).1 ∨ Delivered s (s.rxSf d data esc).1 data := by
  unfold State.rxSf NoDelivery Delivered
  grind [State.deliver, State.stopReceiving, State.error, State.emit]

theorem rxFf_deliv (s : State) (d : Decoded) (len : Nat) (data : Bytes) :
    NoDelivery s (s.rxFf d len data).1 := by
  unfold State.rxFf State.startReception NoDelivery
  grind [State.stopReceiving, State.error, State.emit, State.requestFc, startRxCfTimer]

theorem rxCf_deliv (s : State) (d : Decoded) (sn : Nat) (data : Bytes) :
    NoDelivery s (s.rxCf d sn data).1 ∨
      (s.rxState = .waitCf ∧ sn = (s.lastSeq + 1) % 16 ∧
        s.rxFrameLen ≤ (s.rxBuf ++ data.take (s.rxFrameLen - s.rxBuf.length)).length ∧
        Delivered s (s.rxCf d sn data).1 (s.rxBuf ++ data.take (s.rxFrameLen - s.rxBuf.length))) := by
  unfold State.rxCf NoDelivery Delivered
  grind [State.deliver, State.stopReceiving, State.error, State.emit, State.requestFc, startRxCfTimer]

/-- One call of `_process_rx` delivers nothing, or the data of the Single Frame it was given, or —
    when it was given the expected Consecutive Frame — the buffer completed by that frame. -/
theorem processRx_deliv (s : State) (m : CanMsg) :
    NoDelivery s (s.processRx m).1 ∨
    (∃ d l p esc, decode m.data s.addr.rx.rxPrefixSize = some d ∧ d.pdu = .sf l p esc ∧
        Delivered s (s.processRx m).1 p) ∨
    (∃ d data, decode m.data s.addr.rx.rxPrefixSize = some d ∧ d.pdu = .cf ((s.lastSeq + 1) % 16) data ∧
        s.rxState = .waitCf ∧
        s.rxFrameLen ≤ (s.rxBuf ++ data.take (s.rxFrameLen - s.rxBuf.length)).length ∧
        Delivered s (s.processRx m).1 (s.rxBuf ++ data.take (s.rxFrameLen - s.rxBuf.length))) := by
  rw [processRx_eq]
  split
  · left; simp [NoDelivery, State.stopReceiving, State.error, State.emit]
  · next d hd =>
    split
    · left; exact ⟨rfl, rfl⟩
    · next l data esc hp =>
      rcases rxSf_deliv s d data esc with h | h
      · exact .inl h
      · exact .inr (.inl ⟨d, l, data, esc, hd, hp, h⟩)
    · exact .inl (rxFf_deliv ..)
    · next sn data hp =>
      rcases rxCf_deliv s d sn data with h | ⟨h1, h2, h3, h4⟩
      · exact .inl h
      · subst h2
        exact .inr (.inr ⟨d, data, hd, hp, h1, h3, h4⟩)

/-! ### Flow Control requests: which frame sets `pending_flow_control_tx` -/

theorem rxSf_pend (s : State) (d : Decoded) (data : Bytes) (esc : Bool)
    (h : (s.rxSf d data esc).1.pendingFc = true) : s.pendingFc = true := by
  unfold State.rxSf at h
  grind [State.deliver, State.stopReceiving, State.error, State.emit]

/-- the Consecutive Frame `sn` completes a block (and not the message) in state `s` -/
def blockDone (s : State) (sn : Nat) : Prop :=
  s.rxState = .waitCf ∧ sn = (s.lastSeq + 1) % 16 ∧ 0 < s.cfg.blocksize ∧
    (s.rxBlockCnt + 1) % s.cfg.blocksize = 0

theorem rxCf_pend (s : State) (d : Decoded) (sn : Nat) (data : Bytes)
    (h : (s.rxCf d sn data).1.pendingFc = true) : s.pendingFc = true ∨ blockDone s sn := by
  unfold State.rxCf at h
  unfold blockDone
  grind [State.deliver, State.stopReceiving, State.error, State.emit, State.requestFc, startRxCfTimer]

/-- `_process_rx` requests a Flow Control only for a First Frame or a block-completing Consecutive Frame. -/
theorem processRx_pend (s : State) (m : CanMsg) (h : (s.processRx m).1.pendingFc = true) :
    s.pendingFc = true ∨
    (∃ d len data esc, decode m.data s.addr.rx.rxPrefixSize = some d ∧ d.pdu = .ff len data esc) ∨
    (∃ d sn data, decode m.data s.addr.rx.rxPrefixSize = some d ∧ d.pdu = .cf sn data ∧ blockDone s sn) := by
  rw [processRx_eq] at h
  split at h
  · simp [State.stopReceiving] at h
  · next d hd =>
    split at h
    · exact .inl h
    · exact .inl (rxSf_pend _ _ _ _ h)
    · next len data esc hp => exact .inr (.inl ⟨d, len, data, esc, hd, hp⟩)
    · next sn data hp =>
      rcases rxCf_pend _ _ _ _ h with h | h
      · exact .inl h
      · exact .inr (.inr ⟨d, sn, data, hd, hp, h⟩)

/-- the status of a requested Flow Control is ContinueToSend (0) or Overflow (2) -/
theorem processRx_pendStatus (s : State) (m : CanMsg) :
    (s.processRx m).1.pendingFcStatus = s.pendingFcStatus ∨
      (s.processRx m).1.pendingFcStatus = some 0 ∨ (s.processRx m).1.pendingFcStatus = some 2 := by
  rw [processRx_eq]
  split
  · left; rfl
  · split
    · left; rfl
    · unfold State.rxSf
      grind [State.deliver, State.stopReceiving, State.error, State.emit]
    · unfold State.rxFf State.startReception
      grind [State.stopReceiving, State.error, State.emit, State.requestFc, startRxCfTimer]
    · unfold State.rxCf
      grind [State.deliver, State.stopReceiving, State.error, State.emit, State.requestFc, startRxCfTimer]

/-! ## Transmit side: frame conditions -/

/-- what `_process_tx` never touches: configuration, clock, inbox, the reception state machine and its
    buffer, the rx queue; it only clears `pending_flow_control_tx`; the log only gets errors, request
    completions and generator pulls in front (the `tx` event is logged by the loop of `process`) -/
structure TxFrame (s s' : State) : Prop where
  cfg : s'.cfg = s.cfg
  addr : s'.addr = s.addr
  now : s'.now = s.now
  inbox : s'.inbox = s.inbox
  rxState : s'.rxState = s.rxState
  rxBuf : s'.rxBuf = s.rxBuf
  rxFrameLen : s'.rxFrameLen = s.rxFrameLen
  lastSeq : s'.lastSeq = s.lastSeq
  rxBlockCnt : s'.rxBlockCnt = s.rxBlockCnt
  actualRxdl : s'.actualRxdl = s.actualRxdl
  rxQueue : s'.rxQueue = s.rxQueue
  pendSt : s'.pendingFcStatus = s.pendingFcStatus
  pend : s'.pendingFc = true → s.pendingFc = true
  log : LogExt Ev.txInternal s.log s'.log

theorem TxFrame.refl (s : State) : TxFrame s s := by
  constructor <;> first | rfl | exact .refl _ | exact id

/-- closes `TxFrame s s'` when `s'` is a structure update of `s` outside the frame -/
macro "txframe_upd" : tactic =>
  `(tactic| (constructor <;> first | rfl | exact LogExt.refl _ | exact id))

theorem TxFrame.trans {s₁ s₂ s₃ : State} (h₁ : TxFrame s₁ s₂) (h₂ : TxFrame s₂ s₃) : TxFrame s₁ s₃ := by
  obtain ⟨a1, a2, a3, a4, a5, a6, a7, a8, a9, a10, a11, a12, a13, a14⟩ := h₁
  obtain ⟨b1, b2, b3, b4, b5, b6, b7, b8, b9, b10, b11, b12, b13, b14⟩ := h₂
  constructor <;> first | exact a14.trans b14 | exact fun h => a13 (b13 h) | simp_all

theorem TxFrame.error (s : State) (e : Err) : TxFrame s (s.error e) := by
  constructor <;> first | rfl | exact id | exact .cons _ _ _ rfl (.refl _)

theorem TxFrame.raise (s : State) (e : PyExc) : TxFrame s (s.raise e) := by txframe_upd

theorem TxFrame.stopSending (s : State) (b : Bool) : TxFrame s (s.stopSending b) := by
  constructor <;> simp
  split
  · exact .cons _ _ _ rfl (.refl _)
  · exact .refl _

theorem TxFrame.consumeActive (s : State) (r : Req) (n : Nat) (e : Bool) :
    TxFrame s (s.consumeActive r n e).1 := by
  constructor <;> simp
  unfold State.pullLog
  split
  · exact .cons _ _ _ rfl (.refl _)
  · exact .refl _

theorem TxFrame.sfFinish (s : State) (tat : Tat) (allowed : Nat) (d : Bytes) :
    TxFrame s (s.sfFinish tat allowed d).1 := by
  unfold State.sfFinish
  split
  · exact TxFrame.raise _ _
  · split
    · txframe_upd
    · exact TxFrame.stopSending _ _

theorem TxFrame.ffFinish (s : State) (allowed : Nat) (d : Bytes) :
    TxFrame s (s.ffFinish allowed d).1 := by
  unfold State.ffFinish
  split
  · exact TxFrame.raise _ _
  · split <;> txframe_upd

theorem TxFrame.startTx (s : State) (r : Req) (allowed : Nat) : TxFrame s (s.startTx r allowed).1 := by
  rw [startTx_eq]
  have h0 : TxFrame s ({ s with txFrameLen := r.size } : State) := by txframe_upd
  by_cases hcond : r.size + (if s.sizeOnFirst r then 1 else 2) + s.txPrefixLen ≤ s.cfg.txDl
  · rw [if_pos hcond]
    split
    · exact (TxFrame.consumeActive ..).trans ((TxFrame.error ..).trans (TxFrame.stopSending ..))
    · exact (TxFrame.consumeActive ..).trans (TxFrame.sfFinish ..)
  · rw [if_neg hcond]
    split
    · exact h0.trans ((TxFrame.consumeActive ..).trans ((TxFrame.error ..).trans (TxFrame.stopSending ..)))
    · have h1 := TxFrame.consumeActive ({ s with txFrameLen := r.size } : State) r (s.ffDataLen r) true
      have h2 : TxFrame (({ s with txFrameLen := r.size } : State).consumeActive r (s.ffDataLen r) true).1
          ({ (({ s with txFrameLen := r.size } : State).consumeActive r (s.ffDataLen r) true).1 with
              txSeq := 1 } : State) := by txframe_upd
      exact h0.trans (h1.trans (h2.trans (TxFrame.ffFinish ..)))

theorem TxFrame.readTxQueue (q : List Req) : ∀ (s : State) (allowed : Nat),
    TxFrame s (s.readTxQueue allowed q).1 := by
  induction q with
  | nil => intro s allowed; first | exact TxFrame.refl s | txframe_upd
  | cons r rest ih =>
    intro s allowed
    unfold State.readTxQueue
    dsimp only
    split
    · refine TxFrame.trans ?_ (ih _ allowed)
      constructor <;> first | rfl | exact id | exact .cons _ _ _ rfl (.refl _)
    · refine TxFrame.trans ?_ (TxFrame.startTx _ _ _)
      txframe_upd

theorem TxFrame.cfEmit (s : State) (p : Bytes) : TxFrame s (s.cfEmit p).1 := by
  unfold State.cfEmit
  split
  · split
    · exact TxFrame.raise _ _
    · first | exact TxFrame.refl s | txframe_upd
  · first | exact TxFrame.refl s | txframe_upd

theorem TxFrame.cfAfter (s : State) (r' : Req) (rbs : Nat) (out : Option CanMsg) :
    TxFrame s (s.cfAfter r' rbs out).1 := by
  unfold State.cfAfter
  split
  · split
    · exact (TxFrame.error ..).trans (TxFrame.stopSending ..)
    · exact TxFrame.stopSending ..
  · split <;> first | exact TxFrame.refl s | txframe_upd

theorem TxFrame.transmitCf (s : State) (allowed : Nat) : TxFrame s (s.transmitCf allowed).1 := by
  rw [transmitCf_eq]
  split
  · exact TxFrame.raise ..
  · exact TxFrame.raise ..
  · split
    · split
      · split
        · exact (TxFrame.consumeActive ..).trans (TxFrame.raise ..)
        · split
          · exact (TxFrame.consumeActive ..).trans (TxFrame.cfEmit ..)
          · exact (TxFrame.consumeActive ..).trans ((TxFrame.cfEmit ..).trans (TxFrame.cfAfter ..))
      · first | exact TxFrame.refl s | txframe_upd
    · first | exact TxFrame.refl s | txframe_upd

theorem TxFrame.handleFc (s : State) (fc : FcFrame) : TxFrame s (s.handleFc fc) := by
  unfold State.handleFc
  split
  · exact TxFrame.error ..
  · split
    · split
      · exact TxFrame.error ..
      · split
        · exact (TxFrame.error ..).trans (TxFrame.stopSending ..)
        · dsimp only; split <;> first | exact TxFrame.refl s | txframe_upd
    · split
      · dsimp only; split <;> first | exact TxFrame.refl s | txframe_upd
      · first | exact TxFrame.refl s | txframe_upd

theorem TxFrame.pendStage (s : State) : TxFrame s s.pendStage.1 := by
  unfold State.pendStage
  constructor <;> grind [State.raise, startRxCfTimer]

theorem TxFrame.fcStage (s : State) : TxFrame s s.fcStage.1 := by
  unfold State.fcStage
  dsimp only
  split
  · split
    · refine TxFrame.trans ?_ ((TxFrame.stopSending _ _).trans (TxFrame.error _ _))
      txframe_upd
    · refine TxFrame.trans ?_ (TxFrame.handleFc _ _)
      txframe_upd
  · first | exact TxFrame.refl s | txframe_upd

theorem TxFrame.fsmDispatch (s : State) (allowed : Nat) : TxFrame s (s.fsmDispatch allowed).1 := by
  unfold State.fsmDispatch
  split
  · exact TxFrame.readTxQueue ..
  · split
    · split
      · dsimp only; split
        all_goals first
          | txframe_upd
          | (refine TxFrame.trans ?_ (TxFrame.stopSending _ _); txframe_upd)
      · exact TxFrame.refl s
    · exact TxFrame.refl s
  · split
    · split
      · dsimp only; split
        all_goals first
          | txframe_upd
          | (refine TxFrame.trans ?_ (TxFrame.stopSending _ _); txframe_upd)
      · exact TxFrame.refl s
    · exact TxFrame.refl s
  · exact TxFrame.refl s
  · exact TxFrame.transmitCf ..

theorem TxFrame.fsmStage (s : State) (allowed : Nat) : TxFrame s (s.fsmStage allowed).1 := by
  unfold State.fsmStage
  have h1 : TxFrame s (if s.timerFc.timedOut s.now then (s.error .FlowControlTimeout).stopSending false else s) := by
    split
    · exact (TxFrame.error ..).trans (TxFrame.stopSending ..)
    · exact TxFrame.refl s
  generalize (if s.timerFc.timedOut s.now then (s.error .FlowControlTimeout).stopSending false else s) = s1 at h1
  dsimp only
  split
  · exact h1.trans (TxFrame.raise ..)
  · have h2 : ∀ b : Bool, TxFrame s1 (if b = true then s1.stopSending true else s1) := by
      intro b
      cases b
      · exact TxFrame.refl _
      · exact TxFrame.stopSending ..
    generalize (decide (s1.txState ≠ .idle) && (match s1.active with | some r => r.depleted | none => false)
          && s1.standby.isNone) = cnd
    have h2 := h2 cnd
    generalize (if cnd = true then s1.stopSending true else s1) = s2 at h2
    have h3 := TxFrame.fsmDispatch s2 allowed
    split
    · exact h1.trans (h2.trans h3)
    · split
      · refine h1.trans (h2.trans (h3.trans ?_))
        txframe_upd
      · exact h1.trans (h2.trans h3)

/-- **Frame condition of `_process_tx`.** -/
theorem TxFrame.processTx (s : State) : TxFrame s s.processTx.1 := by
  rw [processTx_eq]
  have h1 := TxFrame.pendStage s
  split
  · next heq => rw [heq] at h1; exact h1
  · next heq => rw [heq] at h1; exact h1
  · next s1 heq =>
    rw [heq] at h1
    have h2 := TxFrame.fcStage s1
    split
    · next heq2 => rw [heq2] at h2; exact h1.trans h2
    · next s2 heq2 =>
      rw [heq2] at h2
      exact h1.trans (h2.trans (TxFrame.fsmStage ..))

/-! ## The quiet sender: the user sends nothing -/

/-- nothing queued, nothing in transmission -/
def Quiet (s : State) : Prop := s.txQueue = [] ∧ s.txState = .idle ∧ s.active = none

theorem Quiet.init (c : Cfg) (a : Addr) : Quiet (State.init c a) := ⟨rfl, rfl, rfl⟩

theorem Quiet.of_rxFrame {s s' : State} (h : Quiet s) (f : RxFrame s s') : Quiet s' := by
  obtain ⟨h1, h2, h3⟩ := h
  exact ⟨f.txQueue.trans h1, f.txState.trans h2, f.active.trans h3⟩

theorem Quiet.pendStage {s : State} (h : Quiet s) : Quiet s.pendStage.1 := by
  unfold Quiet State.pendStage at *
  grind [State.raise, startRxCfTimer]

theorem Quiet.fcStage {s : State} (h : Quiet s) : Quiet s.fcStage.1 := by
  unfold Quiet State.fcStage State.handleFc at *
  grind [State.error, State.emit]

theorem Quiet.fsmStage {s : State} (h : Quiet s) (allowed : Nat) :
    Quiet (s.fsmStage allowed).1 ∧ (s.fsmStage allowed).2.1 = none := by
  obtain ⟨h1, h2, h3⟩ := h
  unfold Quiet State.fsmStage State.fsmDispatch
  simp [h1, h2, h3, State.readTxQueue]
  grind [State.error, State.emit, State.readTxQueue]

/-- `_process_tx` always consumes the Flow Control request -/
theorem pendStage_clears (s : State) : s.pendStage.1.pendingFc = false := by
  unfold State.pendStage
  grind [State.raise, startRxCfTimer]

theorem processTx_clears (s : State) : s.processTx.1.pendingFc = false := by
  have h1 := pendStage_clears s
  rw [processTx_eq]
  split
  · next heq => rw [heq] at h1; exact h1
  · next heq => rw [heq] at h1; exact h1
  · next s1 heq =>
    rw [heq] at h1
    have h2 := TxFrame.fcStage s1
    split
    · next heq2 =>
      rw [heq2] at h2
      cases hp : (s.pendStage.1.fcStage).1.pendingFc
      · simp_all
      · have := h2.pend (by simp_all); simp_all
    · next s2 heq2 =>
      rw [heq2] at h2
      have h3 := (h2.trans (TxFrame.fsmStage s2 (s.rl.allowedBytes s.cfg.rlBitMax)))
      cases hp : (s2.fsmStage (s.rl.allowedBytes s.cfg.rlBitMax)).1.pendingFc
      · rfl
      · have := h3.pend hp; simp_all

/-- what stage 1 can output: the Flow Control frame with the stored status, only if one was requested
    and the layer is not in listen mode -/
theorem pendStage_out (s : State) (msg : CanMsg) (h : s.pendStage.2 = some (some msg)) :
    s.pendingFc = true ∧ s.cfg.listen = false ∧
      ∃ st, s.pendingFcStatus = some st ∧ makeFlowControl s.cfg s.addr st = some msg := by
  unfold State.pendStage at h
  grind [State.raise, startRxCfTimer]

/-- **Quiet sender.** With nothing to send, `_process_tx` stays quiet and its only possible output is the
    Flow Control frame that the receive side requested. -/
theorem Quiet.processTx {s : State} (h : Quiet s) :
    Quiet s.processTx.1 ∧
      ∀ msg, s.processTx.2.1 = some msg →
        s.pendingFc = true ∧ s.cfg.listen = false ∧
          ∃ st, s.pendingFcStatus = some st ∧ makeFlowControl s.cfg s.addr st = some msg := by
  have h1 := Quiet.pendStage h
  have ho := pendStage_out s
  rw [processTx_eq]
  split
  · next heq => rw [heq] at h1; exact ⟨h1, by simp⟩
  · next s1 msg heq =>
    rw [heq] at h1 ho
    refine ⟨h1, ?_⟩
    intro m hm
    simp only [Option.some.injEq] at hm
    subst hm
    exact ho _ rfl
  · next s1 heq =>
    rw [heq] at h1
    have h2 := Quiet.fcStage h1
    split
    · next heq2 => rw [heq2] at h2; exact ⟨h2, by simp⟩
    · next s2 heq2 =>
      rw [heq2] at h2
      have h3 := Quiet.fsmStage h2 (s.rl.allowedBytes s.cfg.rlBitMax)
      exact ⟨h3.1, by simp [h3.2]⟩

/-! ## Lifting step invariants to `process()` -/

/-- A state predicate kept by every elementary step of `process()`: `_process_rx` on any frame,
    `_check_timeouts_rx`, `_process_tx` (with the `tx` event of its output), the bookkeeping events
    of the loop, the clock / inbox, the rate limiter update. -/
structure StepInv (P : State → Prop) : Prop where
  rx : ∀ s m, P s → P (s.processRx m).1
  timeout : ∀ s, P s → P s.checkTimeoutsRx
  tx : ∀ s, P s → P s.processTx.1
  txEmit : ∀ s m, P s → s.processTx.2.1 = some m → P (s.processTx.1.emit (.tx s.processTx.1.now m))
  rxEv : ∀ s t m, P s → P (s.emit (.rx t m))
  rxNone : ∀ s t, P s → P (s.emit (.rxNone t))
  env : ∀ s i n, P s → P { s with inbox := i, now := n }
  rl : ∀ s l, P s → P { s with rl := l }

theorem StepInv.rxLoop {P : State → Prop} (hP : StepInv P) (doTx : Bool) (l : List (Nat × CanMsg)) :
    ∀ (s : State) (st : Stats), P s → P (rxLoop doTx s st l).1 := by
  induction l with
  | nil =>
    intro s st h
    unfold State.rxLoop
    exact hP.timeout _ (hP.rxNone _ _ (hP.env s [] s.now h))
  | cons x rest ih =>
    intro s st h
    obtain ⟨dt, m⟩ := x
    unfold State.rxLoop
    have h1 : P (({ s with inbox := rest, now := s.now + dt } : State).emit
        (.rx (s.now + dt) m)).checkTimeoutsRx := hP.timeout _ (hP.rxEv _ _ _ (hP.env s rest _ h))
    dsimp only
    generalize (({ s with inbox := rest, now := s.now + dt } : State).emit
        (.rx (s.now + dt) m)).checkTimeoutsRx = s1 at h1 ⊢
    split
    · have h2 := hP.rx s1 m h1
      split
      · exact h2
      · split
        · exact h2
        · exact ih _ _ h2
    · split
      · exact h1
      · exact ih _ _ h1

theorem StepInv.txLoop {P : State → Prop} (hP : StepInv P) (f : Nat) :
    ∀ (s : State) (n : Nat), P s → P (txLoop f s n).1 := by
  induction f with
  | zero => intro s n h; exact h
  | succ f ih =>
    intro s n h
    unfold State.txLoop
    dsimp only
    split
    · exact hP.tx s h
    · cases ho : s.processTx.2.1 with
      | none =>
        simp only
        split
        · exact hP.tx s h
        · simp; exact hP.tx s h
      | some m =>
        have h2 := hP.txEmit s m h ho
        simp only
        split
        · exact h2
        · simp; exact ih _ _ h2

theorem StepInv.processLoop {P : State → Prop} (hP : StepInv P) (f : Nat) (doRx doTx : Bool) :
    ∀ (s : State) (st : Stats), P s → P (processLoop f doRx doTx s st).1 := by
  induction f with
  | zero => intro s st h; exact h
  | succ f ih =>
    intro s st h
    unfold State.processLoop
    dsimp only
    generalize hA : (if (doRx && !(doTx && !s.txQueue.isEmpty && decide (s.rxState = .idle) &&
        decide (s.txState = .idle))) = true then s.rxLoop doTx st s.inbox else (s, st, false)) = A
    have hPA : P A.1 := by
      rw [← hA]; split
      · exact hP.rxLoop doTx _ _ _ h
      · exact h
    obtain ⟨sA, stA, rxRun⟩ := A
    dsimp only at hPA ⊢
    have hPB := hP.rl sA (sA.rl.update sA.cfg.rlWindowNs sA.now) hPA
    generalize ({ sA with rl := sA.rl.update sA.cfg.rlWindowNs sA.now } : State) = sB at hPB ⊢
    generalize hC : (if doTx = true then
        (match State.txLoop sB.txFuel sB stA.sent with
          | (s, n, run, oof) => (s, ({ stA with sent := n } : Stats), run, oof))
        else (sB, stA, false, false)) = C
    have hPC : P C.1 := by
      rw [← hC]; split
      · exact hP.txLoop _ _ _ hPB
      · exact hPB
    obtain ⟨sC, stC, run, oof⟩ := C
    dsimp only at hPC ⊢
    split
    · exact hPC
    · split
      · exact hPC
      · split
        · exact ih _ _ hPC
        · exact hPC

theorem StepInv.process {P : State → Prop} (hP : StepInv P) (s : State) (doRx doTx : Bool) (h : P s) :
    P (s.process doRx doTx).1 := hP.processLoop _ _ _ _ _ h

/-- the usual case: the predicate does not look at the log, the inbox, the clock or the rate limiter -/
theorem StepInv.of_simple {P : State → Prop}
    (rx : ∀ s m, P s → P (s.processRx m).1) (timeout : ∀ s, P s → P s.checkTimeoutsRx)
    (tx : ∀ s, P s → P s.processTx.1) (emit : ∀ s e, P s → P (s.emit e))
    (env : ∀ s i n, P s → P { s with inbox := i, now := n }) (rl : ∀ s l, P s → P { s with rl := l }) :
    StepInv P :=
  ⟨rx, timeout, tx, fun s m h _ => emit _ _ (tx s h), fun s t m h => emit _ _ h, fun s t h => emit _ _ h,
    env, rl⟩

/-! ## The invariants are step invariants -/

/-- safe and no exception so far -/
def SafeOk (s : State) : Prop := Safe s ∧ s.exc = none

theorem SafeOk.stepInv : StepInv SafeOk := by
  apply StepInv.of_simple
  · intro s m ⟨h, e⟩
    exact ⟨h.processRx m, (RxFrame.processRx s m).exc.trans e⟩
  · intro s ⟨h, e⟩
    exact ⟨h.checkTimeoutsRx, (RxFrame.checkTimeoutsRx s).exc.trans e⟩
  · intro s ⟨h, e⟩
    exact ⟨h.processTx.1, h.processTx.2.trans e⟩
  · intro s ev ⟨h, e⟩
    exact ⟨h.emit ev, e⟩
  · intro s i n ⟨h, e⟩
    exact ⟨h.congr rfl rfl rfl rfl rfl rfl rfl rfl, e⟩
  · intro s l ⟨h, e⟩
    exact ⟨h.congr rfl rfl rfl rfl rfl rfl rfl rfl, e⟩

theorem Safe.stepInv : StepInv Safe := by
  apply StepInv.of_simple
  · intro s m h; exact h.processRx m
  · intro s h; exact h.checkTimeoutsRx
  · intro s h; exact h.processTx.1
  · intro s ev h; exact h.emit ev
  · intro s i n h; exact h.congr rfl rfl rfl rfl rfl rfl rfl rfl
  · intro s l h; exact h.congr rfl rfl rfl rfl rfl rfl rfl rfl

theorem RxJust.of_txFrame {s s' : State} (h : RxJust s) (f : TxFrame s s') : RxJust s' :=
  h.of_eq f.rxState f.rxBuf f.rxFrameLen f.cfg

theorem RxJust.stepInv : StepInv RxJust := by
  apply StepInv.of_simple
  · intro s m h; exact h.processRx m
  · intro s h; exact h.checkTimeoutsRx
  · intro s h; exact h.of_txFrame (TxFrame.processTx s)
  · intro s ev h; exact h.of_eq rfl rfl rfl rfl
  · intro s i n h; exact h.of_eq rfl rfl rfl rfl
  · intro s l h; exact h.of_eq rfl rfl rfl rfl

theorem Quiet.stepInv : StepInv Quiet := by
  apply StepInv.of_simple
  · intro s m h; exact h.of_rxFrame (RxFrame.processRx s m)
  · intro s h; exact h.of_rxFrame (RxFrame.checkTimeoutsRx s)
  · intro s h; exact h.processTx.1
  · intro s ev h; exact h
  · intro s i n h; exact h
  · intro s l h; exact h

/-! ## The other public methods -/

theorem Safe.clearTxQueue (l : List Req) : ∀ {s : State}, Safe s → Safe (s.clearTxQueue l) := by
  induction l with
  | nil => intro s h; exact h.congr rfl rfl rfl rfl rfl rfl rfl rfl
  | cons r rest ih => intro s h; exact ih (h.emit _)

theorem Safe.clearTxQueue_exc (l : List Req) : ∀ (s : State), (s.clearTxQueue l).exc = s.exc := by
  induction l with
  | nil => intro s; rfl
  | cons r rest ih => intro s; exact (ih _).trans rfl

theorem Safe.send {s : State} (h : Safe s) (a : SendArgs) : Safe (s.send a).1 := by
  unfold State.send
  dsimp only
  repeat' split
  all_goals first | exact h | exact h.congr rfl rfl rfl rfl rfl rfl rfl rfl

theorem Safe.send_exc (s : State) (a : SendArgs) : (s.send a).1.exc = s.exc := by
  unfold State.send
  dsimp only
  repeat' split
  all_goals rfl

theorem Safe.recv {s : State} (h : Safe s) : Safe s.recv.1 := by
  unfold State.recv
  split
  · exact h
  · exact h.congr rfl rfl rfl rfl rfl rfl rfl rfl

theorem Safe.recv_exc (s : State) : s.recv.1.exc = s.exc := by
  unfold State.recv; split <;> rfl

theorem Safe.reset {s : State} (h : Safe s) : Safe s.reset := by
  have h0 : Safe ({ s with rxQueue := [] } : State) := h.congr rfl rfl rfl rfl rfl rfl rfl rfl
  exact (((Safe.clearTxQueue _ h0).stopSending false).stopReceiving).congr rfl rfl rfl rfl rfl rfl rfl rfl

theorem Safe.reset_exc (s : State) : s.reset.exc = s.exc := by
  have := Safe.clearTxQueue_exc s.txQueue ({ s with rxQueue := [] } : State)
  simp only [State.reset, State.stopReceiving, stopSending_exc]
  exact this

theorem Safe.advance {s : State} (h : Safe s) (dt : Nat) : Safe (s.advance dt) :=
  h.congr rfl rfl rfl rfl rfl rfl rfl rfl

theorem Safe.pushFrame {s : State} (h : Safe s) (dt : Nat) (m : CanMsg) : Safe (s.pushFrame dt m) :=
  h.congr rfl rfl rfl rfl rfl rfl rfl rfl

theorem Safe.process {s : State} (h : Safe s) (doRx doTx : Bool) : Safe (s.process doRx doTx).1 :=
  Safe.stepInv.process s doRx doTx h

/-- **`process()` never raises** (from a safe state without a pending exception). -/
theorem Safe.process_exc {s : State} (h : Safe s) (he : s.exc = none) (doRx doTx : Bool) :
    (s.process doRx doTx).1.exc = none :=
  (SafeOk.stepInv.process s doRx doTx ⟨h, he⟩).2

/-! ## Arbitrary use of the public interface -/

/-- one call of a public method (or, for `frame`, one frame put on the bus by the environment) -/
inductive Op where
  | send (a : SendArgs)
  | frame (dt : Nat) (m : CanMsg)
  | process (doRx doTx : Bool)
  | advance (dt : Nat)
  | recv
  | stopSending
  | stopReceiving
  | reset

def Op.step (s : State) : Op → State
  | .send a => (s.send a).1
  | .frame dt m => s.pushFrame dt m
  | .process doRx doTx => (s.process doRx doTx).1
  | .advance dt => s.advance dt
  | .recv => s.recv.1
  | .stopSending => s.stopSending false
  | .stopReceiving => s.stopReceiving
  | .reset => s.reset

def runOps (s : State) (ops : List Op) : State := ops.foldl Op.step s

theorem SafeOk.step {s : State} (h : SafeOk s) (op : Op) : SafeOk (op.step s) := by
  obtain ⟨h, e⟩ := h
  cases op with
  | send a => exact ⟨h.send a, (Safe.send_exc s a).trans e⟩
  | frame dt m => exact ⟨h.pushFrame dt m, e⟩
  | process doRx doTx => exact SafeOk.stepInv.process s doRx doTx ⟨h, e⟩
  | advance dt => exact ⟨h.advance dt, e⟩
  | recv => exact ⟨h.recv, (Safe.recv_exc s).trans e⟩
  | stopSending => exact ⟨h.stopSending false, by simpa [Op.step] using e⟩
  | stopReceiving => exact ⟨h.stopReceiving, e⟩
  | reset => exact ⟨h.reset, (Safe.reset_exc s).trans e⟩

theorem SafeOk.runOps (ops : List Op) : ∀ {s : State}, SafeOk s → SafeOk (runOps s ops) := by
  induction ops with
  | nil => intro s h; exact h
  | cons op rest ih => intro s h; exact ih (h.step op)

/-! ## Emission while the user sends nothing -/

theorem LogExt.mem_of {P : Ev → Bool} {l l' : List Ev} (h : LogExt P l l') (e : Ev) (he : e ∈ l') :
    e ∈ l ∨ P e = true := by
  induction h with
  | refl => exact .inl he
  | cons e' l l' hp _ ih =>
    rcases List.mem_cons.1 he with rfl | h'
    · exact .inr hp
    · exact ih h'

/-- `m` is a Flow Control frame of this layer (`_make_flow_control` with some status) -/
def IsFc (c : Cfg) (a : Addr) (m : CanMsg) : Prop := ∃ st, makeFlowControl c a st = some m

/-- quiet, and every frame handed to `txfn` since the log was `L0` is a Flow Control frame -/
def OnlyFc (c : Cfg) (a : Addr) (L0 : List Ev) (s : State) : Prop :=
  Quiet s ∧ s.cfg = c ∧ s.addr = a ∧ ∀ t m, Ev.tx t m ∈ s.log → Ev.tx t m ∈ L0 ∨ IsFc c a m

theorem OnlyFc.stepInv (c : Cfg) (a : Addr) (L0 : List Ev) : StepInv (OnlyFc c a L0) := by
  have hrx : ∀ s s', RxFrame s s' → OnlyFc c a L0 s → OnlyFc c a L0 s' := by
    intro s s' f ⟨q, hc, ha, hl⟩
    refine ⟨q.of_rxFrame f, f.cfg.trans hc, f.addr.trans ha, ?_⟩
    intro t m hm
    rcases f.log.mem_of _ hm with h | h
    · exact hl t m h
    · simp [Ev.rxInternal] at h
  have htx : ∀ s, OnlyFc c a L0 s → OnlyFc c a L0 s.processTx.1 := by
    intro s ⟨q, hc, ha, hl⟩
    have f := TxFrame.processTx s
    refine ⟨q.processTx.1, f.cfg.trans hc, f.addr.trans ha, ?_⟩
    intro t m hm
    rcases f.log.mem_of _ hm with h | h
    · exact hl t m h
    · simp [Ev.txInternal] at h
  have hemit : ∀ s e, (∀ t m, e ≠ Ev.tx t m) → OnlyFc c a L0 s → OnlyFc c a L0 (s.emit e) := by
    intro s e he ⟨q, hc, ha, hl⟩
    refine ⟨q, hc, ha, ?_⟩
    intro t m hm
    rcases List.mem_cons.1 hm with h | h
    · exact absurd h.symm (he t m)
    · exact hl t m h
  constructor
  · intro s m h; exact hrx _ _ (RxFrame.processRx s m) h
  · intro s h; exact hrx _ _ (RxFrame.checkTimeoutsRx s) h
  · exact htx
  · intro s m h ho
    obtain ⟨q', hc', ha', hl'⟩ := htx s h
    obtain ⟨q, hc, ha, hl⟩ := h
    refine ⟨q', hc', ha', ?_⟩
    intro t m' hm
    rcases List.mem_cons.1 hm with h | h
    · simp only [Ev.tx.injEq] at h
      obtain ⟨-, -, st, -, hfc⟩ := q.processTx.2 m ho
      right
      rw [h.2]
      exact ⟨st, by rw [← hc, ← ha]; exact hfc⟩
    · exact hl' t m' h
  · intro s t m h; exact hemit s _ (by simp) h
  · intro s t h; exact hemit s _ (by simp) h
  · intro s i n h; exact h
  · intro s l h; exact h

/-- **While the user sends nothing, `process()` emits only Flow Control frames** (and stays quiet). -/
theorem Quiet.process {s : State} (h : Quiet s) (doRx doTx : Bool) :
    Quiet (s.process doRx doTx).1 ∧
      ∀ t m, Ev.tx t m ∈ (s.process doRx doTx).1.log → Ev.tx t m ∈ s.log ∨ IsFc s.cfg s.addr m := by
  have := (OnlyFc.stepInv s.cfg s.addr s.log).process s doRx doTx
    ⟨h, rfl, rfl, fun t m hm => .inl hm⟩
  exact ⟨this.1, this.2.2.2⟩

/-! ### counting Flow Control frames against requests -/

instance (s : State) (sn : Nat) : Decidable (blockDone s sn) := by unfold blockDone; infer_instance

/-- reference predicate: frame `m` is a First Frame, or a Consecutive Frame that completes a block
    (the two events after which ISO 15765-2 lets the receiver send a Flow Control) -/
def requestsFc (s : State) (m : CanMsg) : Bool :=
  match decode m.data s.addr.rx.rxPrefixSize with
  | none => false
  | some d =>
    match d.pdu with
    | .ff _ _ _ => true
    | .cf sn _ => decide (blockDone s sn)
    | _ => false

theorem processRx_pend' (s : State) (m : CanMsg) (h : (s.processRx m).1.pendingFc = true) :
    s.pendingFc = true ∨ requestsFc s m = true := by
  rcases processRx_pend s m h with h | ⟨d, len, data, esc, hd, hp⟩ | ⟨d, sn, data, hd, hp, hb⟩
  · exact .inl h
  · right; simp [requestsFc, hd, hp]
  · right; simp [requestsFc, hd, hp, hb]

theorem checkTimeoutsRx_pend (s : State) (h : s.checkTimeoutsRx.pendingFc = true) : s.pendingFc = true := by
  unfold State.checkTimeoutsRx at h
  split at h
  · simp [State.stopReceiving] at h
  · exact h

/-- the receive-only activity of a layer: frames arrive, `_process_tx` runs, timeouts are checked -/
inductive QStep where
  | frame (m : CanMsg)
  | tx
  | timeout

/-- run a schedule; returns the state, the number of frames emitted, and the number of frames that
    requested a Flow Control (`requestsFc`) -/
def qRun : State → List QStep → State × Nat × Nat
  | s, [] => (s, 0, 0)
  | s, .frame m :: rest =>
    let r := qRun (s.processRx m).1 rest
    (r.1, r.2.1, r.2.2 + (if requestsFc s m then 1 else 0))
  | s, .tx :: rest =>
    let r := qRun s.processTx.1 rest
    (r.1, r.2.1 + (if s.processTx.2.1.isSome then 1 else 0), r.2.2)
  | s, .timeout :: rest => qRun s.checkTimeoutsRx rest

def pendCount (s : State) : Nat := if s.pendingFc then 1 else 0

theorem qRun_count (steps : List QStep) : ∀ (s : State), Quiet s →
    (qRun s steps).2.1 + pendCount (qRun s steps).1 ≤ (qRun s steps).2.2 + pendCount s := by
  induction steps with
  | nil => intro s _; simp [qRun]
  | cons st rest ih =>
    intro s q
    cases st with
    | frame m =>
      have h1 := ih _ (q.of_rxFrame (RxFrame.processRx s m))
      have h2 := processRx_pend' s m
      simp only [qRun]
      unfold pendCount at *
      split at h1 <;> split at h1 <;> split <;> split <;> split <;> simp_all <;> omega
    | tx =>
      have h1 := ih _ q.processTx.1
      have h2 := q.processTx.2
      have h3 := processTx_clears s
      simp only [qRun]
      unfold pendCount at *
      rw [h3] at h1
      cases ho : s.processTx.2.1 with
      | none => simp_all; omega
      | some msg =>
        have := (h2 msg ho).1
        simp_all; omega
    | timeout =>
      have h1 := ih _ (q.of_rxFrame (RxFrame.checkTimeoutsRx s))
      have h2 := checkTimeoutsRx_pend s
      simp only [qRun]
      unfold pendCount at *
      split at h1 <;> split at h1 <;> split <;> simp_all <;> omega

/-! ### buffer semantics while a reception is in progress -/

/-- the session (state, buffer, announced length, last sequence number) is untouched -/
def SessSame (s s' : State) : Prop :=
  s'.rxState = s.rxState ∧ s'.rxBuf = s.rxBuf ∧ s'.rxFrameLen = s.rxFrameLen ∧ s'.lastSeq = s.lastSeq

/-- the session is over (buffer emptied) -/
def SessEnd (s' : State) : Prop := s'.rxState = .idle ∧ s'.rxBuf = []

/-- frame `m` does not start a new message: it is not a First Frame, and if it is a Single Frame then
    one that `_process_rx` refuses (more than 8 bytes without the escape sequence) -/
def NotNewMsg (s : State) (m : CanMsg) : Prop :=
  ∀ d, decode m.data s.addr.rx.rxPrefixSize = some d →
    (∀ len data esc, d.pdu ≠ .ff len data esc) ∧
    (∀ l data esc, d.pdu = .sf l data esc → d.canDl > 8 ∧ esc = false)

theorem rxSf_buf (s : State) (d : Decoded) (data : Bytes) (esc : Bool) (hw : s.rxState = .waitCf) :
    (SessSame s (s.rxSf d data esc).1 ∧ d.canDl > 8 ∧ esc = false) ∨ SessEnd (s.rxSf d data esc).1 := by
  unfold State.rxSf SessSame SessEnd
  grind [State.deliver, State.stopReceiving, State.error, State.emit]

theorem rxFf_buf (s : State) (d : Decoded) (len : Nat) (data : Bytes) :
    SessEnd (s.rxFf d len data).1 ∨
      ((s.rxFf d len data).1.rxState = .waitCf ∧ (s.rxFf d len data).1.rxBuf = data ∧
        (s.rxFf d len data).1.rxFrameLen = len ∧ (s.rxFf d len data).1.lastSeq = 0 ∧
        len ≤ s.cfg.maxFrameSize) := by
  unfold State.rxFf State.startReception SessEnd
  grind [State.stopReceiving, State.error, State.emit, State.requestFc, startRxCfTimer]

theorem rxCf_buf (s : State) (d : Decoded) (sn : Nat) (data : Bytes) (hw : s.rxState = .waitCf) :
    SessSame s (s.rxCf d sn data).1 ∨ SessEnd (s.rxCf d sn data).1 ∨
      (sn = (s.lastSeq + 1) % 16 ∧ (s.rxCf d sn data).1.rxState = .waitCf ∧
        (s.rxCf d sn data).1.rxBuf = s.rxBuf ++ data.take (s.rxFrameLen - s.rxBuf.length) ∧
        (s.rxCf d sn data).1.rxFrameLen = s.rxFrameLen ∧ (s.rxCf d sn data).1.lastSeq = sn) := by
  unfold State.rxCf SessSame SessEnd
  simp only [hw]
  split
  · next hsn =>
    split
    · left; exact ⟨hw, rfl, rfl, rfl⟩
    · split
      · right; left; simp [State.stopReceiving]
      · split
        · right; right
          exact ⟨hsn, by simp [State.requestFc, startRxCfTimer, hw], by simp [State.requestFc, startRxCfTimer],
            by simp [State.requestFc, startRxCfTimer], by simp [State.requestFc, startRxCfTimer]⟩
        · right; right
          exact ⟨hsn, by simp [startRxCfTimer, hw], by simp [startRxCfTimer], by simp [startRxCfTimer],
            by simp [startRxCfTimer]⟩
  · right; left; simp [State.stopReceiving, State.error, State.emit]

/-- a frame that is not part of a reception in progress can only start one (First Frame) -/
theorem rxIdle_buf (s : State) (m : CanMsg) (hi : s.rxState = .idle) :
    (s.processRx m).1.rxState = .idle ∨
      ∃ d len data esc, decode m.data s.addr.rx.rxPrefixSize = some d ∧ d.pdu = .ff len data esc ∧
        (s.processRx m).1.rxState = .waitCf ∧ (s.processRx m).1.rxBuf = data ∧
        (s.processRx m).1.rxFrameLen = len ∧ (s.processRx m).1.lastSeq = 0 ∧ len ≤ s.cfg.maxFrameSize := by
  rw [processRx_eq]
  split
  · left; simp [State.stopReceiving]
  · next d hd =>
    split
    · left; exact hi
    · left; unfold State.rxSf; grind [State.deliver, State.stopReceiving, State.error, State.emit]
    · next len data esc hp =>
      rcases rxFf_buf s d len data with h | h
      · exact .inl h.1
      · exact .inr ⟨d, len, data, esc, hd, hp, h⟩
    · left; unfold State.rxCf; grind [State.error, State.emit]

/-- **Buffer semantics.** While a reception is in progress a frame either leaves the session untouched,
    or ends it (buffer emptied), or is the expected Consecutive Frame and appends its (clipped) data,
    or is a First Frame that starts a new session with its own data. -/
theorem processRx_buf (s : State) (hw : s.rxState = .waitCf) (m : CanMsg) :
    (SessSame s (s.processRx m).1 ∧ NotNewMsg s m) ∨ SessEnd (s.processRx m).1 ∨
    (∃ d data, decode m.data s.addr.rx.rxPrefixSize = some d ∧ d.pdu = .cf ((s.lastSeq + 1) % 16) data ∧
      (s.processRx m).1.rxState = .waitCf ∧
      (s.processRx m).1.rxBuf = s.rxBuf ++ data.take (s.rxFrameLen - s.rxBuf.length) ∧
      (s.processRx m).1.rxFrameLen = s.rxFrameLen ∧ (s.processRx m).1.lastSeq = (s.lastSeq + 1) % 16) ∨
    (∃ d len data esc, decode m.data s.addr.rx.rxPrefixSize = some d ∧ d.pdu = .ff len data esc ∧
      (s.processRx m).1.rxState = .waitCf ∧ (s.processRx m).1.rxBuf = data ∧
      (s.processRx m).1.rxFrameLen = len ∧ (s.processRx m).1.lastSeq = 0 ∧ len ≤ s.cfg.maxFrameSize) := by
  rw [processRx_eq]
  split
  · right; left; simp [SessEnd, State.stopReceiving]
  · next d hd =>
    split
    · next st bs stm hp =>
      left; refine ⟨⟨rfl, rfl, rfl, rfl⟩, ?_⟩
      intro d' hd'
      have : d' = d := by rw [hd] at hd'; exact (Option.some.inj hd').symm
      subst this
      simp [hp]
    · next l data esc hp =>
      rcases rxSf_buf s d data esc hw with ⟨h, h8, he⟩ | h
      · left; refine ⟨h, ?_⟩
        intro d' hd'
        have : d' = d := by rw [hd] at hd'; exact (Option.some.inj hd').symm
        subst this
        simp only [hp]
        refine ⟨by simp, ?_⟩
        intro l' data' esc' heq
        simp only [Pdu.sf.injEq] at heq
        exact ⟨h8, heq.2.2 ▸ he⟩
      · exact .inr (.inl h)
    · next len data esc hp =>
      rcases rxFf_buf s d len data with h | h
      · exact .inr (.inl h)
      · exact .inr (.inr (.inr ⟨d, len, data, esc, hd, hp, h⟩))
    · next sn data hp =>
      rcases rxCf_buf s d sn data hw with h | h | ⟨h1, h2, h3, h4, h5⟩
      · left; refine ⟨h, ?_⟩
        intro d' hd'
        have : d' = d := by rw [hd] at hd'; exact (Option.some.inj hd').symm
        subst this
        simp [hp]
      · exact .inr (.inl h)
      · subst h1
        exact .inr (.inr (.inl ⟨d, data, hd, hp, h2, h3, h4, h5⟩))

/-! ## The inner tx loop never runs out of fuel -/

/-- fuel still owed to the request in transmission -/
def actFuel (s : State) : Nat := match s.active with | some r => reqFuel r | none => 0

/-- one unit for a frame parked by the rate limiter -/
def sbFuel (s : State) : Nat := if s.standby.isSome then 1 else 0

/-- termination measure of the inner tx loop: bytes still to send (plus 2 per request), plus one for a
    frame parked by the rate limiter -/
def txMeasure (s : State) : Nat := (s.txQueue.map reqFuel).sum + actFuel s + sbFuel s

theorem txMeasure_lt_txFuel (s : State) : txMeasure s < s.txFuel := by
  unfold txMeasure State.txFuel actFuel sbFuel
  cases s.active <;> dsimp only <;> split <;> omega

theorem txMeasure_congr {s s' : State} (h1 : s'.txQueue = s.txQueue) (h2 : s'.active = s.active)
    (h3 : s'.standby = s.standby) : txMeasure s' = txMeasure s := by
  simp [txMeasure, actFuel, sbFuel, h1, h2, h3]

theorem txMeasure_stopSending (s : State) (b : Bool) :
    txMeasure (s.stopSending b) = (s.txQueue.map reqFuel).sum := by
  simp [txMeasure, actFuel, sbFuel]

theorem txMeasure_stopSending_le (s : State) (b : Bool) : txMeasure (s.stopSending b) ≤ txMeasure s := by
  rw [txMeasure_stopSending]; unfold txMeasure; omega

theorem txMeasure_handleFc_le (s : State) (fc : FcFrame) : txMeasure (s.handleFc fc) ≤ txMeasure s := by
  unfold State.handleFc
  split
  · exact Nat.le_of_eq (txMeasure_congr rfl rfl rfl)
  · split
    · split
      · exact Nat.le_of_eq (txMeasure_congr rfl rfl rfl)
      · split
        · exact Nat.le_trans (txMeasure_stopSending_le _ _) (Nat.le_of_eq (txMeasure_congr rfl rfl rfl))
        · dsimp only; split <;> exact Nat.le_of_eq (txMeasure_congr rfl rfl rfl)
    · split
      · dsimp only; split <;> exact Nat.le_of_eq (txMeasure_congr rfl rfl rfl)
      · exact Nat.le_refl _

theorem txMeasure_pendStage (s : State) : txMeasure s.pendStage.1 = txMeasure s := by
  apply txMeasure_congr <;> (unfold State.pendStage; grind [State.raise, startRxCfTimer])

theorem txMeasure_fcStage_le (s : State) : txMeasure s.fcStage.1 ≤ txMeasure s := by
  unfold State.fcStage
  dsimp only
  split
  · split
    · refine Nat.le_trans (Nat.le_of_eq (txMeasure_congr rfl rfl rfl)) (Nat.le_trans (txMeasure_stopSending_le _ _) ?_)
      exact Nat.le_of_eq (txMeasure_congr rfl rfl rfl)
    · exact Nat.le_trans (txMeasure_handleFc_le _ _) (Nat.le_of_eq (txMeasure_congr rfl rfl rfl))
  · exact Nat.le_of_eq (txMeasure_congr rfl rfl rfl)

/-- a successful `consume` of at least one byte brings the request closer to its end -/
theorem Safe.consume_remaining_lt (r : Req) (n : Nat) (e : Bool) (p : Bytes)
    (h : (r.consume n e).2 = some p) (hp : 0 < p.length) :
    (r.consume n e).1.remaining < r.remaining := by
  obtain ⟨h1, h2, -, -⟩ := Safe.consume_some r n e p h
  have h3 := Safe.consume_size r n e
  unfold Req.remaining
  omega

theorem sfFinish_measure (s : State) (tat : Tat) (allowed : Nat) (d : Bytes) (m : CanMsg)
    (h : (s.sfFinish tat allowed d).2 = some m) :
    txMeasure (s.sfFinish tat allowed d).1 = (s.txQueue.map reqFuel).sum := by
  unfold State.sfFinish at h ⊢
  split at h
  · simp at h
  · next heq =>
    try rw [heq]
    try dsimp only at h ⊢
    split at h
    · simp at h
    · next hle => rw [if_neg hle]; exact txMeasure_stopSending _ _

theorem ffFinish_measure (s : State) (allowed : Nat) (d : Bytes) (m : CanMsg)
    (h : (s.ffFinish allowed d).2 = some m) :
    txMeasure (s.ffFinish allowed d).1 = txMeasure s := by
  unfold State.ffFinish at h ⊢
  split at h
  · simp at h
  · next heq =>
    try rw [heq]
    try dsimp only at h ⊢
    split at h
    · next hle => rw [if_pos hle]; exact txMeasure_congr rfl rfl rfl
    · simp at h

theorem startTx_measure (s : State) (r : Req) (allowed : Nat) (hv : s.cfg.valid = true)
    (ha : s.active = some r) (m : CanMsg) (h : (s.startTx r allowed).2 = some m) :
    txMeasure (s.startTx r allowed).1 < txMeasure s := by
  have hp := Safe.txPrefix_le s.addr.tx
  have hdl := Safe.txDl_ge hv
  have hs : txMeasure s = (s.txQueue.map reqFuel).sum + (r.remaining + 2) + sbFuel s := by
    simp [txMeasure, actFuel, ha, reqFuel]
  rw [startTx_eq] at h ⊢
  by_cases hcond : r.size + (if s.sizeOnFirst r then 1 else 2) + s.txPrefixLen ≤ s.cfg.txDl
  · rw [if_pos hcond] at h ⊢
    cases hres : (r.consume r.size true).2 with
    | none => rw [hres] at h; simp at h
    | some p =>
      rw [hres] at h
      dsimp only at h ⊢
      rw [sfFinish_measure _ _ _ _ m h, hs]
      simp only [consumeActive_txQueue]
      omega
  · rw [if_neg hcond] at h ⊢
    cases hres : (r.consume (s.ffDataLen r) true).2 with
    | none => rw [hres] at h; simp at h
    | some p =>
      rw [hres] at h
      dsimp only at h ⊢
      rw [ffFinish_measure _ _ _ m h, hs]
      have hlen : p.length = s.ffDataLen r := (Safe.consume_some r _ _ p hres).2.2.2 rfl
      have hpos : 0 < p.length := by
        rw [hlen]; unfold State.ffDataLen State.txPrefixLen; split <;> omega
      have hlt := Safe.consume_remaining_lt r _ _ p hres hpos
      simp [txMeasure, actFuel, reqFuel, sbFuel]
      omega

theorem readTxQueue_measure (q : List Req) : ∀ (s : State) (allowed : Nat) (m : CanMsg),
    s.cfg.valid = true → (s.readTxQueue allowed q).2 = some m →
    txMeasure (s.readTxQueue allowed q).1 < (q.map reqFuel).sum + sbFuel s := by
  induction q with
  | nil => intro s allowed m hv h; simp [State.readTxQueue] at h
  | cons r rest ih =>
    intro s allowed m hv h
    unfold State.readTxQueue at h ⊢
    dsimp only at h ⊢
    split at h
    · next hd =>
      rw [if_pos hd]
      have := ih _ allowed m (by exact hv) h
      simp only [List.map_cons, List.sum_cons]
      have e : sbFuel ({ ({ s with txQueue := rest, active := some r } : State).emit (.done r.id true) with
          active := none } : State) = sbFuel s := rfl
      rw [e] at this
      omega
    · next hd =>
      rw [if_neg hd]
      have := startTx_measure ({ s with txQueue := rest, active := some r } : State) r allowed hv rfl m h
      simp only [List.map_cons, List.sum_cons]
      have e : txMeasure ({ s with txQueue := rest, active := some r } : State) =
          (rest.map reqFuel).sum + reqFuel r + sbFuel s := rfl
      rw [e] at this
      omega

theorem cfEmit_spec (s : State) (p : Bytes) :
    (s.cfEmit p).1.txQueue = s.txQueue ∧ (s.cfEmit p).1.active = s.active ∧
      (s.cfEmit p).1.standby = s.standby ∧ ((s.cfEmit p).2.1.isSome = true → 0 < p.length) := by
  unfold State.cfEmit
  split
  · split
    · exact ⟨rfl, rfl, rfl, by simp⟩
    · next hpos _ _ _ => exact ⟨rfl, rfl, rfl, fun _ => by simpa using hpos⟩
  · exact ⟨rfl, rfl, rfl, by simp⟩

theorem cfAfter_measure_le (s : State) (r' : Req) (rbs : Nat) (out : Option CanMsg) :
    txMeasure (s.cfAfter r' rbs out).1 ≤ txMeasure s ∧ (s.cfAfter r' rbs out).2.1 = out := by
  unfold State.cfAfter
  split
  · split
    · exact ⟨Nat.le_trans (txMeasure_stopSending_le _ _) (Nat.le_of_eq (txMeasure_congr rfl rfl rfl)), rfl⟩
    · exact ⟨txMeasure_stopSending_le _ _, rfl⟩
  · split
    · exact ⟨Nat.le_of_eq (txMeasure_congr rfl rfl rfl), rfl⟩
    · exact ⟨Nat.le_refl _, rfl⟩

theorem transmitCf_measure (s : State) (allowed : Nat) (m : CanMsg)
    (h : (s.transmitCf allowed).2.1 = some m) : txMeasure (s.transmitCf allowed).1 < txMeasure s := by
  rw [transmitCf_eq] at h ⊢
  split at h
  · simp at h
  · simp at h
  · next rbs r hb ha =>
    try simp only [hb, ha]
    split at h
    · next hto =>
      rw [if_pos hto]
      split at h
      · next hal =>
        rw [if_pos hal]
        cases hres : (r.consume (s.cfPayloadLen r) false).2 with
        | none => rw [hres] at h; simp at h
        | some p =>
          rw [hres] at h
          dsimp only at h ⊢
          obtain ⟨e1, e2, e3, e4⟩ := cfEmit_spec (s.consumeActive r (s.cfPayloadLen r) false).1 p
          split at h
          · simp at h
          · next hbad =>
            rw [if_neg hbad]
            obtain ⟨c1, c2⟩ := cfAfter_measure_le ((s.consumeActive r (s.cfPayloadLen r) false).1.cfEmit p).1
              (r.consume (s.cfPayloadLen r) false).1 rbs
              ((s.consumeActive r (s.cfPayloadLen r) false).1.cfEmit p).2.1
            rw [c2] at h
            have hpos := e4 (by rw [h]; rfl)
            have hlt := Safe.consume_remaining_lt r _ _ p hres hpos
            refine Nat.lt_of_le_of_lt c1 ?_
            simp only [txMeasure, actFuel, sbFuel, e1, e2, e3, consumeActive_txQueue, consumeActive_active,
              consumeActive_standby, ha, reqFuel]
            omega
      · simp at h
    · simp at h

theorem fsmDispatch_measure (s : State) (allowed : Nat) (hv : s.cfg.valid = true) (m : CanMsg)
    (h : (s.fsmDispatch allowed).2.1 = some m) : txMeasure (s.fsmDispatch allowed).1 < txMeasure s := by
  unfold State.fsmDispatch at h ⊢
  cases hst : s.txState <;> simp only [hst] at h ⊢
  · have := readTxQueue_measure s.txQueue s allowed m hv h
    unfold txMeasure at this ⊢
    omega
  · simp at h
  · exact transmitCf_measure s allowed m h
  · cases hsb : s.standby with
    | none => rw [hsb] at h; simp at h
    | some msg =>
      rw [hsb] at h
      dsimp only at h ⊢
      split at h
      · next hle =>
        rw [if_pos hle]
        simp only [reduceCtorEq, if_false]
        rw [txMeasure_stopSending]
        simp [txMeasure, sbFuel, hsb]
        omega
      · simp at h
  · cases hsb : s.standby with
    | none => rw [hsb] at h; simp at h
    | some msg =>
      rw [hsb] at h
      dsimp only at h ⊢
      split at h
      · next hle =>
        rw [if_pos hle]
        simp [txMeasure, actFuel, sbFuel, hsb, startRxFcTimer]
      · simp at h

theorem fsmStage_measure (s : State) (allowed : Nat) (hv : s.cfg.valid = true) (m : CanMsg)
    (h : (s.fsmStage allowed).2.1 = some m) : txMeasure (s.fsmStage allowed).1 < txMeasure s := by
  unfold State.fsmStage at h ⊢
  have h1 : txMeasure (if s.timerFc.timedOut s.now then (s.error .FlowControlTimeout).stopSending false else s)
      ≤ txMeasure s ∧
      (if s.timerFc.timedOut s.now then (s.error .FlowControlTimeout).stopSending false else s).cfg = s.cfg := by
    split
    · exact ⟨Nat.le_trans (txMeasure_stopSending_le _ _) (Nat.le_of_eq (txMeasure_congr rfl rfl rfl)), by simp [State.error, State.emit]⟩
    · exact ⟨Nat.le_refl _, rfl⟩
  generalize (if s.timerFc.timedOut s.now then (s.error .FlowControlTimeout).stopSending false else s) = s1
    at h h1 ⊢
  obtain ⟨h1, c1⟩ := h1
  dsimp only at h ⊢
  split at h
  · simp at h
  · next hna =>
    rw [if_neg hna]
    have h2 : ∀ b : Bool, txMeasure (if b = true then s1.stopSending true else s1) ≤ txMeasure s1 ∧
        (if b = true then s1.stopSending true else s1).cfg = s1.cfg := by
      intro b; cases b
      · exact ⟨Nat.le_refl _, rfl⟩
      · exact ⟨txMeasure_stopSending_le _ _, by simp⟩
    generalize (decide (s1.txState ≠ .idle) && (match s1.active with | some r => r.depleted | none => false)
          && s1.standby.isNone) = cnd at h ⊢
    have h2 := h2 cnd
    generalize (if cnd = true then s1.stopSending true else s1) = s2 at h h2 ⊢
    obtain ⟨h2, c2⟩ := h2
    have hv2 : s2.cfg.valid = true := by rw [c2, c1]; exact hv
    split at h
    · simp at h
    · next hexc =>
      rw [if_neg hexc]
      cases hout : (s2.fsmDispatch allowed).2.1 with
      | none => rw [hout] at h; simp at h
      | some msg =>
        have h3 := fsmDispatch_measure s2 allowed hv2 msg hout
        dsimp only
        have e : txMeasure ({ (s2.fsmDispatch allowed).1 with
            rl := (s2.fsmDispatch allowed).1.rl.inform (s2.fsmDispatch allowed).1.now msg.data.length } : State)
              = txMeasure (s2.fsmDispatch allowed).1 := txMeasure_congr rfl rfl rfl
        rw [e]
        omega

/-- a frame output that lets the inner tx loop continue strictly decreases the measure -/
theorem processTx_measure (s : State) (hv : s.cfg.valid = true) (m : CanMsg)
    (ho : s.processTx.2.1 = some m) (hi : s.processTx.2.2 = false) :
    txMeasure s.processTx.1 < txMeasure s := by
  rw [processTx_eq] at ho hi ⊢
  have h1 := txMeasure_pendStage s
  have c1 := (TxFrame.pendStage s).cfg
  split at ho
  · simp at ho
  · next heq => rw [heq] at hi; simp at hi
  · next s1 heq =>
    rw [heq] at h1 c1
    try rw [heq] at hi
    try rw [heq]
    dsimp only at h1 c1 hi ⊢
    have h2 := txMeasure_fcStage_le s1
    have c2 := (TxFrame.fcStage s1).cfg
    split at ho
    · simp at ho
    · next s2 heq2 =>
      rw [heq2] at h2 c2
      try rw [heq2]
      dsimp only at h2 c2 ⊢
      have := fsmStage_measure s2 (s.rl.allowedBytes s.cfg.rlBitMax) (by rw [c2, c1]; exact hv) m ho
      omega

/-- **The inner tx loop never runs out of fuel**: with more fuel than the measure (in particular with
    `txFuel s`, as `process` calls it) it stops by itself. -/
theorem txLoop_fuel (f : Nat) : ∀ (s : State) (n : Nat), s.cfg.valid = true → txMeasure s < f →
    (txLoop f s n).2.2.2 = false := by
  induction f with
  | zero => intro s n _ h; omega
  | succ f ih =>
    intro s n hv h
    unfold State.txLoop
    dsimp only
    split
    · rfl
    · cases ho : s.processTx.2.1 with
      | none => simp only; split <;> simp
      | some m =>
        simp only
        split
        · rfl
        · next himm =>
          simp only [Option.isSome_some, if_true]
          have hlt := processTx_measure s hv m ho (by simpa using himm)
          apply ih
          · rw [show (s.processTx.1.emit (.tx s.processTx.1.now m)).cfg = s.cfg from (TxFrame.processTx s).cfg]
            exact hv
          · have : txMeasure (s.processTx.1.emit (.tx s.processTx.1.now m)) = txMeasure s.processTx.1 :=
              txMeasure_congr rfl rfl rfl
            omega

theorem txLoop_txFuel (s : State) (n : Nat) (hv : s.cfg.valid = true) :
    (txLoop s.txFuel s n).2.2.2 = false :=
  txLoop_fuel _ s n hv (txMeasure_lt_txFuel s)

/-! ## `RxJust` under arbitrary use of the public interface -/

theorem RxJust.step {s : State} (h : RxJust s) (op : Op) : RxJust (op.step s) := by
  cases op with
  | send a =>
    simp only [Op.step]
    unfold State.send
    dsimp only
    repeat' split
    all_goals first | exact h | exact h.of_eq rfl rfl rfl rfl
  | frame dt m => exact h.of_eq rfl rfl rfl rfl
  | process doRx doTx => exact RxJust.stepInv.process s doRx doTx h
  | advance dt => exact h.of_eq rfl rfl rfl rfl
  | recv =>
    simp only [Op.step]
    unfold State.recv
    split
    · exact h
    · exact h.of_eq rfl rfl rfl rfl
  | stopSending => exact h.of_txFrame (TxFrame.stopSending s false)
  | stopReceiving => exact RxJust.stopReceiving s
  | reset => exact (RxJust.stopReceiving _).of_eq rfl rfl rfl rfl

theorem RxJust.runOps (ops : List Op) : ∀ {s : State}, RxJust s → RxJust (runOps s ops) := by
  induction ops with
  | nil => intro s h; exact h
  | cons op rest ih => intro s h; exact ih (h.step op)
end Isotp
