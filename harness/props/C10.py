"""C10 - full duplex: concurrent send and receive never disturb each other."""
import trace
from props.base import PropBase
from props.C01 import net_scenario, judge_transfer, C01


class C10(C01):
    id = 'C10'
    lean_modules = ['Isotp.Props.C10']
    theorems = []
    rule = ('both peers send multi-frame messages at the same time; interleavings of {A.process, A.process(tx only), B.process, B.process(tx only), '
            'deliver one frame A->B, deliver one frame B->A, ticks}; small-scope schedules plus long random ones; followed by regular rounds: every '
            'payload must arrive exactly once in order with no error (no deadlock: nothing may remain incomplete); distinct = (modes, sizes, schedule shape)')
    quick_per_shard = 60
    thorough_per_shard = 2500

    def scenario(self, rng, tier):
        return net_scenario(rng, tier, duplex_bias=True, tx_only_passes=True)

    def enumerate(self, tier):
        """EVERY interleaving prefix of bounded length over {A.process, A.process(tx only), B.process, B.process(tx only), deliver one frame
        A->B, deliver one frame B->A, tick} for a small full-duplex exchange (both sides send a 2-Consecutive-Frame message at the same time),
        blocksize in {0, 1} x prefix byte on/off, followed by regular rounds; every payload must arrive, no error, nothing left busy"""
        import itertools
        depth = 4 if tier == 'quick' else 6
        moves = {
            'pa': {'op': 'process', 'i': 0}, 'ta': {'op': 'process', 'i': 0, 'rx': False},
            'pb': {'op': 'process', 'i': 1}, 'tb': {'op': 'process', 'i': 1, 'rx': False},
            'dab': {'op': 'deliver', 'i': 0, 'j': 1, 'n': 1}, 'dba': {'op': 'deliver', 'i': 1, 'j': 0, 'n': 1},
            'tick': {'op': 'tick', 'dt': 1000000},
        }
        names = sorted(moves)
        addr_sets = [({'mode': 0, 'txid': 0x123, 'rxid': 0x456}, {'mode': 0, 'txid': 0x456, 'rxid': 0x123}),
                     ({'mode': 3, 'txid': 0x123, 'rxid': 0x456, 'target_address': 0x11, 'source_address': 0x22},
                      {'mode': 3, 'txid': 0x456, 'rxid': 0x123, 'target_address': 0x22, 'source_address': 0x11})]
        cfgs = [(ad, bs) for ad in addr_sets for bs in (0, 1)]
        if tier == 'quick':
            cfgs = cfgs[:1] + cfgs[3:]
        for (a, b), bs in cfgs:
            for n in range(1, depth + 1):
                for seq in itertools.product(names, repeat=n):
                    ops = [{'op': 'layer', 'i': 0, 'addr': a, 'params': {'blocksize': bs}}, {'op': 'layer', 'i': 1, 'addr': b, 'params': {'blocksize': bs}},
                           {'op': 'send', 'i': 0, 'id': 1, 'data': bytes(range(1, 18))}, {'op': 'send', 'i': 1, 'id': 2, 'data': bytes(range(101, 118))}]
                    ops += [dict(moves[m]) for m in seq]
                    for _ in range(12):
                        ops.append({'op': 'deliver', 'i': 0, 'j': 1, 'n': 100000, 'keep': True})
                        ops.append({'op': 'process', 'i': 1, 'keep': True})
                        ops.append({'op': 'deliver', 'i': 1, 'j': 0, 'n': 100000, 'keep': True})
                        ops.append({'op': 'process', 'i': 0, 'keep': True})
                        ops.append({'op': 'tick', 'dt': 1000001, 'keep': True})
                    yield {'ops': ops}

    def nontrivial_key(self, sc, lines_in, impl_out):
        k = C01.nontrivial_key(self, sc, lines_in, impl_out)
        if k is not None and 'enumerated' in sc.get('tags', ()):
            # an enumerated schedule is distinct by its interleaving prefix
            sched = tuple((op['op'], op.get('i'), op.get('rx', True)) for op in sc['ops'] if not op.get('keep') and op['op'] in ('process', 'deliver', 'tick'))
            return k + (sched,)
        return k

    def judge(self, sc, lines_in, impl_out):
        out = judge_transfer(sc, lines_in, impl_out)
        # quiescence: at the end nothing is in progress
        recs = trace.records(lines_in, impl_out)
        last = {}
        for r in recs:
            if r.layer is not None and r.status:
                last[r.layer] = r.status
        for i, st in last.items():
            if st.get('tr') == '1' or st.get('rx') == '1':
                out.append(('no_deadlock', 'layer %d still busy after regular processing: %s' % (i, st)))
        return out


PROP = C10()
