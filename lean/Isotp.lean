import Isotp.Basic
import Isotp.Pdu
import Isotp.Address
import Isotp.Frame
import Isotp.Layer
import Isotp.Process
