"""
Regenerates harness/registry.json: per property, the Lean modules, the property theorems (every
`#print axioms X` line at the end of lean/Isotp/Props/<module>.lean) and the Agree leaves.
Run by hand after proofs change; the file is committed, and the check refuses (proof obligation
broken) when a registered theorem has disappeared from the sources.
"""
import os, re, json
HERE = os.path.dirname(os.path.abspath(__file__))
LEAN = os.path.join(os.path.dirname(HERE), 'lean')

MODULES = {
    'C01': ['C01net', 'C01netfc', 'C01live', 'C01queue', 'C01', 'C01spec', 'C02', 'C03', 'C09'], 'C02': ['C02'], 'C03': ['C03'], 'C04': ['C04', 'C05term'], 'C05': ['C05', 'C05term'], 'C06': ['C06'], 'C07': ['C07', 'C07ign'],
    'C08': ['C08', 'C08pass'], 'C09': ['C09'], 'C10': ['C10', 'C10live', 'C10nostuck', 'C01net', 'C01netfc', 'C01', 'C01spec', 'C02', 'C03', 'C09', 'C04'], 'C11': ['C11', 'C11abort', 'C01spec', 'C03', 'C06', 'C04', 'C07', 'C07ign'], 'C12': ['C12'], 'C13': ['C13', 'C13net', 'C13netfc'], 'C14': ['C14'],
    'C15': ['C15', 'C15pass'], 'C16': ['C16', 'C16b'], 'C17': ['C17'], 'C18': ['C18'], 'C19': ['C19'], 'C20': ['C20'],
}
# properties whose proof files are finished and committed (others contribute only their table leaves)
READY = {'C02', 'C17', 'C01', 'C10', 'C11', 'C05', 'C15', 'C03', 'C06', 'C04', 'C07', 'C18', 'C08', 'C09', 'C12', 'C13', 'C14', 'C16', 'C19', 'C20'}

AGREE = {
    'C02': ['Isotp.Agree.NearestFd', 'Isotp.Agree.PadLen'],
    'C05': ['Isotp.Agree.Pci'],
    'C08': ['Isotp.Agree.Stmin'],
    'C19': ['Isotp.Agree.SockConsts'],
    'C20': ['Isotp.Agree.SockConsts'],
}
AGREE_THEOREMS = {
    'Isotp.Agree.NearestFd': ['Isotp.Agree.nearestFd_agree', 'Isotp.Agree.dlc8_agree', 'Isotp.Agree.dlcFd_agree'],
    'Isotp.Agree.PadLen': ['Isotp.Agree.padLen_agree', 'Isotp.Agree.padByte_agree'],
    'Isotp.Agree.Pci': ['Isotp.Agree.pciKind_agree', 'Isotp.Agree.pciVal_agree'],
    'Isotp.Agree.Stmin': ['Isotp.Agree.stmin_agree'],
    'Isotp.Agree.SockConsts': ['Isotp.Agree.sockConsts_agree', 'Isotp.Agree.sockImage_agree'],
}


# source-agreement leaves (DESIGN 11.7): interpreting the dumped Python source = the model, for all inputs
PYAGREE = {
    'C01': ['LayerWhole', 'LayerSend', 'LayerInitWhole', 'LayerIter'],
    'C11': ['LayerWhole'],
    'C18': ['LayerRx', 'LayerTxWhole'],
    'C02': ['MiscFd', 'MiscFrame', 'LayerSend'],
    'C03': ['Pdu', 'MiscFc', 'LayerRx'],
    'C04': ['LayerTxHelpers', 'LayerTx', 'LayerTxWhole'],
    'C05': ['Pdu', 'LayerRx'],
    'C06': ['Pdu', 'LayerRx'],
    'C07': ['MiscTimer'],
    'C08': ['MiscTimer', 'LayerTx', 'SmallFns'],
    'C09': ['AddressFns', 'AddressInit', 'LayerSend', 'AddressAccessors'],
    'C12': ['LayerTxHelpers', 'LayerQueues', 'Exec2Bridge', 'LayerSend', 'LayerInit'],
    'C13': ['PyCan', 'Threaded', 'ThreadedWorker', 'SmallFns', 'Ctors'],
    'C14': ['LayerQueues', 'Exec2Bridge', 'Threaded', 'ThreadedWorker', 'LayerInit'],
    'C10': ['LayerProcess', 'LayerWhole', 'LayerIter'],
    'C15': ['LayerTxHelpers', 'LimiterLoop', 'SmallFns'],
    'C16': ['AddressValidate', 'AddressInit', 'ParamsValidate'],
    'C17': ['LayerTxHelpers', 'LayerTx', 'GenConsume', 'LayerInit'],
    'C19': ['SockOpts', 'Ctors'],
    'C20': ['AddressFns', 'SockOpts', 'SockGuards', 'AddressAccessors', 'Ctors'],
}
# leaves that are finished and committed
PYAGREE_READY = {'AddressAccessors', 'Ctors', 'LayerIter', 'ParamsValidate', 'LayerInit', 'LayerInitWhole', 'SmallFns', 'LimiterLoop', 'GenConsume', 'ThreadedWorker', 'Threaded', 'PyCan', 'LayerWhole', 'SockGuards', 'LayerTxWhole', 'MiscFrame', 'LayerProcess', 'LayerTx', 'LayerRx', 'LayerSend', 'LayerTxHelpers', 'LayerQueues', 'Exec2Bridge', 'SockOpts', 'AddressFns', 'AddressValidate', 'AddressInit', 'Pdu', 'MiscFd', 'MiscFc', 'MiscTimer'}


def pyagree_theorems(mod):
    p = os.path.join(LEAN, 'Isotp', 'PyAgree', mod + '.lean')
    out = []
    if os.path.exists(p):
        for line in open(p, encoding='utf-8'):
            m = re.match(r'\s*#print axioms\s+(\S+)', line)
            if m:
                n = m.group(1) if m.group(1).startswith('Isotp.') else 'Isotp.PyAgree.' + m.group(1)
                if n not in out:
                    out.append(n)
    return out


def theorems_of(mod):
    p = os.path.join(LEAN, 'Isotp', 'Props', mod + '.lean')
    if not os.path.exists(p):
        return None
    out = []
    for line in open(p, encoding='utf-8'):
        m = re.match(r'\s*#print axioms\s+(\S+)', line)
        if m and m.group(1) not in out:
            out.append(m.group(1))
    return out


def main():
    reg = {}
    for pid, mods in MODULES.items():
        ms, ths, by_mod = [], [], {}
        for m in mods:
            t = theorems_of(m) if pid in READY else None
            if t is None:
                continue
            ms.append('Isotp.Props.' + m)
            ths.extend(t)
            by_mod['Isotp.Props.' + m] = t
        agree = list(AGREE.get(pid, []))
        agree_th = sum([AGREE_THEOREMS[a] for a in agree], [])
        for a in agree:
            by_mod[a] = AGREE_THEOREMS[a]
        for leaf in PYAGREE.get(pid, []):
            t = pyagree_theorems(leaf) if leaf in PYAGREE_READY else []
            if t:
                agree.append('Isotp.PyAgree.' + leaf)
                agree_th.extend(t)
                by_mod['Isotp.PyAgree.' + leaf] = t
        reg[pid] = {'modules': ms, 'theorems': ths, 'agree': agree, 'agree_theorems': agree_th, 'by_module': by_mod}
    with open(os.path.join(HERE, 'registry.json'), 'w') as f:
        json.dump(reg, f, indent=1)
    for pid, r in reg.items():
        print(pid, len(r['theorems']), 'theorems', r['modules'], r['agree'])


if __name__ == '__main__':
    main()
