import Isotp.PyAgree.EvalLemmas
import Isotp.PyAgree.MiscLemmas
import Isotp.PyAgree.MiscTimer
import Isotp.PyAgree.MiscFc
import Isotp.Process
/-!
  Source agreement for the small transmit-side helpers and accessors of `TransportLayerLogic`, for `RateLimiter` and for
  `FiniteByteGenerator` (`isotp/protocol.py`, `isotp/tools.py`), FOR ALL STATES.
-/
namespace Isotp.PyAgree
open Isotp Isotp.Py

/-! ## 0. Infrastructure -/

/-- `env` has every binding of `bs` -/
def Has (env : Env) (bs : List (String × PV)) : Prop := ∀ kv ∈ bs, env kv.1 = some kv.2

namespace TxH

theorem set_get (env : Env) (k : String) (v : PV) (k' : String) :
    (env.set k v) k' = if k' = k then some v else env k' := rfl

/-- the names the interpreter treats as builtins; every other call goes to `Meths` -/
def builtinNames : List String :=
  ["len", "int", "bool", "min", "max", "bytes", "isinstance_int", "isinstance_bool", "isinstance_float", "isinstance_int_float"]

theorem evalBuiltin_none (fn : String) (args : List PV) (h : fn ∉ builtinNames) : evalBuiltin fn args = none := by
  simp only [builtinNames, List.mem_cons, List.not_mem_nil, or_false, not_or] at h
  unfold evalBuiltin; split <;> simp_all

theorem cons_next {M : Meths} {env env' : Env} {s : PStmt} {rest : PBlock}
    (h : execStmt M env s = .ok (.next env')) : execBlock M env (.cons s rest) = execBlock M env' rest := by
  simp only [execBlock, h, ok_bind]

theorem cons_ret {M : Meths} {env env' : Env} {s : PStmt} {rest : PBlock} {v : PV}
    (h : execStmt M env s = .ok (.returned v env')) : execBlock M env (.cons s rest) = .ok (.returned v env') := by
  simp only [execBlock, h, ok_bind]

theorem cons_err {M : Meths} {env : Env} {s : PStmt} {rest : PBlock} {e : PErr}
    (h : execStmt M env s = .error e) : execBlock M env (.cons s rest) = .error e := by
  simp only [execBlock, h, error_bind]

theorem assign_int (M : Meths) (env : Env) (t : String) (i : Int) :
    execStmt M env (.assign t (.int i)) = .ok (.next (env.set t (pint i))) := by
  simp [execStmt, eval]

theorem assign_none (M : Meths) (env : Env) (t : String) :
    execStmt M env (.assign t .none) = .ok (.next (env.set t pnone)) := by
  simp [execStmt, eval]

theorem assign_tt (M : Meths) (env : Env) (t : String) :
    execStmt M env (.assign t .tt) = .ok (.next (env.set t (pbool true))) := by
  simp [execStmt, eval]

theorem assign_ff (M : Meths) (env : Env) (t : String) :
    execStmt M env (.assign t .ff) = .ok (.next (env.set t (pbool false))) := by
  simp [execStmt, eval]

theorem assign_var (M : Meths) (env : Env) (t src : String) (v : PV) (h : env src = some v) :
    execStmt M env (.assign t (.var src)) = .ok (.next (env.set t v)) := by
  simp [execStmt, eval, h]

/-- a call statement without arguments -/
theorem proc0 (M : Meths) (env env' : Env) (fn : String) (hb : fn ∉ builtinNames) (hp : M.proc fn [] env = .ok env') :
    execStmt M env (.expr (.call fn .nil)) = .ok (.next env') := by
  simp [execStmt, evalArgs, evalBuiltin_none fn _ hb, hp]

/-- a call statement with one argument -/
theorem proc1 (M : Meths) (env env' : Env) (fn : String) (a : PExpr) (v : PV) (hb : fn ∉ builtinNames)
    (ha : eval M env a = .ok v) (hp : M.proc fn [v] env = .ok env') :
    execStmt M env (.expr (.call fn (.cons a .nil))) = .ok (.next env') := by
  simp [execStmt, evalArgs, ha, evalBuiltin_none fn _ hb, hp]

theorem eval_var (M : Meths) (env : Env) (p : String) (v : PV) (h : env p = some v) : eval M env (.var p) = .ok v := by
  simp [eval, h]

/-- a call expression without arguments -/
theorem fn0 (M : Meths) (env : Env) (fn : String) (r : Except PErr PV) (hb : fn ∉ builtinNames) (hf : M.fn fn [] env = r) :
    eval M env (.call fn .nil) = r := by
  simp [eval, evalArgs, evalBuiltin_none fn _ hb, hf]

theorem runFn_next {M : Meths} {env env' : Env} {b : PBlock} (h : execBlock M env b = .ok (.next env')) :
    runFn M env b = .ok (pnone, env') := by simp [runFn, h]
theorem runFn_ret {M : Meths} {env env' : Env} {b : PBlock} {v : PV} (h : execBlock M env b = .ok (.returned v env')) :
    runFn M env b = .ok (v, env') := by simp [runFn, h]
theorem runFn_err {M : Meths} {env : Env} {b : PBlock} {e : PErr} (h : execBlock M env b = .error e) :
    runFn M env b = .error e := by simp [runFn, h]

/-- the n-th top-level statement of a block -/
def nth : PBlock → Nat → PStmt
  | .nil, _ => .pass
  | .cons s _, 0 => s
  | .cons _ r, n + 1 => nth r n

/-- the block from its n-th top-level statement on -/
def drop : PBlock → Nat → PBlock
  | b, 0 => b
  | .nil, _ + 1 => .nil
  | .cons _ r, n + 1 => drop r n

theorem step_next {M : Meths} {env env' : Env} {b : PBlock} {n : Nat}
    (hb : drop b n = .cons (nth b n) (drop b (n + 1)))
    (h : execStmt M env (nth b n) = .ok (.next env')) :
    execBlock M env (drop b n) = execBlock M env' (drop b (n + 1)) := by
  rw [hb]; exact cons_next h

end TxH
open TxH

/-! ## 1. The transmit side of a `TransportLayerLogic` object, as the interpreter sees it -/

def txStName : TxSt → String
  | .idle => "IDLE" | .waitFc => "WAIT_FC" | .transmitCf => "TRANSMIT_CF"
  | .sfStandby => "TRANSMIT_SF_STANDBY" | .ffStandby => "TRANSMIT_FF_STANDBY"

def txStPV (t : TxSt) : PV := .sc (.enum "TxState" (txStName t))

/-- an object-valued attribute that is `None` or an (opaque) object -/
def objPV (name : String) (present : Bool) : PV := if present then .meth name else pnone

/-- one outcome of `SendRequest.complete(success)`: the two scalars `id, success` -/
def donePair (id : Nat) (ok : Bool) : List Sc := [.py (.int id), .py (.bool ok)]

/-- the outcomes `SendRequest.complete(success)` recorded so far, oldest first, each as the two scalars `id, success`
    (the model's `.done id ok` events; the log of the model is newest first) -/
def doneHist : List Ev → List Sc
  | [] => []
  | .done id ok :: rest => doneHist rest ++ donePair id ok
  | _ :: rest => doneHist rest

/-- the attributes the transmit-side helpers read / write.  The two `Timer` sub-objects appear through their attributes
    (`self.timer_rx_fc.start_time` is the `self.start_time` of MiscTimer's `timerEnv s.timerFc`); `#done` is the history of
    completed requests (not a Python attribute: what the harness observes of `SendRequest.complete`). -/
def txAttrs (s : State) : List (String × PV) :=
  [("self.tx_state", txStPV s.txState),
   ("self.tx_frame_length", pint s.txFrameLen),
   ("self.tx_seqnum", pint s.txSeq),
   ("self.tx_block_counter", pint s.txBlockCnt),
   ("self.remote_blocksize", optPV s.remoteBs),
   ("self.wft_counter", pint s.wftCnt),
   ("self.tx_standby_msg", objPV "standby" s.standby.isSome),
   ("self.active_send_request", objPV "req" s.active.isSome),
   ("self.timer_rx_fc.start_time", optPV s.timerFc.start),
   ("self.timer_rx_fc.timeout", pint s.timerFc.timeout),
   ("self.timer_tx_stmin.start_time", optPV s.timerStmin.start),
   ("self.timer_tx_stmin.timeout", pint s.timerStmin.timeout),
   ("#done", .list (doneHist s.log))]

def txKeys : List String :=
  ["self.tx_state", "self.tx_frame_length", "self.tx_seqnum", "self.tx_block_counter", "self.remote_blocksize",
   "self.wft_counter", "self.tx_standby_msg", "self.active_send_request", "self.timer_rx_fc.start_time",
   "self.timer_rx_fc.timeout", "self.timer_tx_stmin.start_time", "self.timer_tx_stmin.timeout", "#done"]

theorem txAttrs_keys (s : State) : (txAttrs s).map (·.1) = txKeys := rfl

theorem has_txAttrs {env : Env} {s : State} (h : Has env (txAttrs s)) :
    env "self.tx_state" = some (txStPV s.txState) ∧
    env "self.tx_frame_length" = some (pint s.txFrameLen) ∧
    env "self.tx_seqnum" = some (pint s.txSeq) ∧
    env "self.tx_block_counter" = some (pint s.txBlockCnt) ∧
    env "self.remote_blocksize" = some (optPV s.remoteBs) ∧
    env "self.wft_counter" = some (pint s.wftCnt) ∧
    env "self.tx_standby_msg" = some (objPV "standby" s.standby.isSome) ∧
    env "self.active_send_request" = some (objPV "req" s.active.isSome) ∧
    env "self.timer_rx_fc.start_time" = some (optPV s.timerFc.start) ∧
    env "self.timer_rx_fc.timeout" = some (pint s.timerFc.timeout) ∧
    env "self.timer_tx_stmin.start_time" = some (optPV s.timerStmin.start) ∧
    env "self.timer_tx_stmin.timeout" = some (pint s.timerStmin.timeout) ∧
    env "#done" = some (.list (doneHist s.log)) := by
  simpa [Has, txAttrs] using h

/-- the members of `TxState`, by the dotted path the methods use -/
def txConsts : List (String × PV) :=
  [("self.TxState.IDLE", txStPV .idle), ("self.TxState.WAIT_FC", txStPV .waitFc), ("self.TxState.TRANSMIT_CF", txStPV .transmitCf),
   ("self.TxState.TRANSMIT_SF_STANDBY", txStPV .sfStandby), ("self.TxState.TRANSMIT_FF_STANDBY", txStPV .ffStandby)]

/-- ... are the ones dumped from the source -/
theorem txConsts_dumped : ∀ kv ∈ txConsts, kv ∈ Src.consts := by decide

theorem has_txConsts {env : Env} (h : Has env txConsts) :
    env "self.TxState.IDLE" = some (txStPV .idle) ∧ env "self.TxState.WAIT_FC" = some (txStPV .waitFc) ∧
    env "self.TxState.TRANSMIT_CF" = some (txStPV .transmitCf) ∧
    env "self.TxState.TRANSMIT_SF_STANDBY" = some (txStPV .sfStandby) ∧
    env "self.TxState.TRANSMIT_FF_STANDBY" = some (txStPV .ffStandby) := by
  simpa [Has, txConsts] using h

/-- The primitives the transmit-side helpers call, in state `s`:
    * `self.active_send_request.complete(success)` appends `(id, success)` of the ACTIVE request to the history `#done`
      (calling it on `None` would be an `AttributeError`);
    * `self.timer_rx_fc.stop()` / `self.timer_tx_stmin.stop()` are `Timer.stop` on the sub-object: `start_time = None`
      (`timer_stop_agrees`, and `txMeths_timer_stop_is_source` below);
    * `float(x)` of an `int` is numerically `x` (the interpreter's arithmetic is on integers / rationals: `float(x) / 1000` is then
      the exact rational `x/1000`); `Timer(timeout=<float>)` is an opaque object; `self.timer_rx_fc.start()` on that fresh object:
      see `p_start_rx_fc_timer_agrees`;
    * `self.rx_queue.empty()` / `self.tx_queue.empty()` answer what the model's queues answer. -/
def txMeths (s : State) : Meths where
  fn := fun name args _ =>
    match name, args with
    | "float", [.sc (.py (.int i))] => .ok (pint i)
    | "Timer#timeout", [.sc (.py (.float _ _))] => .ok (.meth "Timer")
    | "self.rx_queue.empty", [] => .ok (pbool s.rxQueue.isEmpty)
    | "self.tx_queue.empty", [] => .ok (pbool s.txQueue.isEmpty)
    | n, _ => .error (.unsupported ("call " ++ n))
  proc := fun name args env =>
    match name, args with
    | "self.active_send_request.complete", [.sc (.py (.bool ok))] =>
      (match s.active, env "#done" with
       | some r, some (.list h) => .ok (env.set "#done" (.list (h ++ donePair r.id ok)))
       | _, _ => .error (.exc .AttributeError))
    | "self.timer_rx_fc.stop", [] => .ok (env.set "self.timer_rx_fc.start_time" pnone)
    | "self.timer_tx_stmin.stop", [] => .ok (env.set "self.timer_tx_stmin.start_time" pnone)
    | "self.timer_rx_fc.start", [] =>
      (match env "self.timer_rx_fc" with
       | some (.meth "Timer") =>
         .ok ((env.set "self.timer_rx_fc.timeout" (pint s.cfg.tFc)).set "self.timer_rx_fc.start_time" (pint s.now))
       | _ => .error (.exc .AttributeError))
    | n, _ => .error (.unsupported ("call " ++ n))

theorem txMeths_complete (s : State) (r : Req) (ha : s.active = some r) (ok : Bool) (env : Env) (h : List Sc)
    (hd : env "#done" = some (.list h)) :
    (txMeths s).proc "self.active_send_request.complete" [pbool ok] env =
      .ok (env.set "#done" (.list (h ++ donePair r.id ok))) := by
  show (match s.active, env "#done" with
       | some r, some (PV.list h) => Except.ok (env.set "#done" (PV.list (h ++ donePair r.id ok)))
       | _, _ => (Except.error (PErr.exc .AttributeError) : Except PErr Env)) = _
  rw [ha, hd]

theorem txMeths_fc_stop (s : State) (env : Env) :
    (txMeths s).proc "self.timer_rx_fc.stop" [] env = .ok (env.set "self.timer_rx_fc.start_time" pnone) := rfl
theorem txMeths_stmin_stop (s : State) (env : Env) :
    (txMeths s).proc "self.timer_tx_stmin.stop" [] env = .ok (env.set "self.timer_tx_stmin.start_time" pnone) := rfl

/-- the value `self.timer_rx_fc.stop()` leaves in `start_time` is the one the interpreted `Timer.stop` leaves in the `self.start_time`
    of the timer object -/
theorem txMeths_timer_stop_is_source (s : State) (env : Env) (M : Meths) :
    ((txMeths s).proc "self.timer_rx_fc.stop" [] env).map (· "self.timer_rx_fc.start_time") =
      (envM M (timerEnv s.timerFc) Src.Timer_stop).map (· "self.start_time") ∧
    ((txMeths s).proc "self.timer_tx_stmin.stop" [] env).map (· "self.timer_tx_stmin.start_time") =
      (envM M (timerEnv s.timerStmin) Src.Timer_stop).map (· "self.start_time") := by
  rw [timer_stop_start_time, timer_stop_start_time]
  exact ⟨rfl, rfl⟩

/-! ## A. `_stop_sending(success)` = `State.stopSending` -/

/-- the environment `_stop_sending(success)` ends with -/
def stopEnv (s : State) (ok : Bool) (env : Env) : Env :=
  let env1 := match s.active with
    | some r =>
      (env.set "#done" (.list (doneHist s.log ++ donePair r.id ok))).set "self.active_send_request" pnone
    | none => env
  (((((((((env1.set "self.tx_state" (txStPV .idle)).set "self.tx_frame_length" (pint 0)).set
    "self.timer_rx_fc.start_time" pnone).set "self.timer_tx_stmin.start_time" pnone).set "self.remote_blocksize" pnone).set
    "self.tx_block_counter" (pint 0)).set "self.tx_seqnum" (pint 0)).set "self.wft_counter" (pint 0)).set
    "self.tx_standby_msg" pnone)

namespace TxH
abbrev SS (n : Nat) : PStmt := nth Src.TransportLayerLogic_p_stop_sending n
abbrev SR (n : Nat) : PBlock := drop Src.TransportLayerLogic_p_stop_sending n

/-- statement 0: `if self.active_send_request is not None: self.active_send_request.complete(success); self.active_send_request = None` -/
theorem stop_stmt0 (s : State) (ok : Bool) (env : Env) (hE : Has env (txAttrs s)) (hs : env "success" = some (pbool ok)) :
    execStmt (txMeths s) env (SS 0) = .ok (.next (match s.active with
      | some r =>
        (env.set "#done" (.list (doneHist s.log ++ donePair r.id ok))).set "self.active_send_request" pnone
      | none => env)) := by
  obtain ⟨-, -, -, -, -, -, -, hA, -, -, -, -, hD⟩ := has_txAttrs hE
  cases ha : s.active with
  | none =>
    simp [SS, nth, Src.TransportLayerLogic_p_stop_sending, execStmt, execBlock, eval, hA, ha, objPV]
  | some r =>
    have hc := txMeths_complete s r ha ok env _ hD
    simp [SS, nth, Src.TransportLayerLogic_p_stop_sending, execStmt, execBlock, eval, evalArgs, hA, ha, objPV, hs,
      evalBuiltin_none "self.active_send_request.complete" _ (by decide), hc]
end TxH

/-- **`_stop_sending`, run**: in every environment that shows the transmit side of `s`, the call returns `None` and leaves `stopEnv` -/
theorem p_stop_sending_run (s : State) (ok : Bool) (env : Env) (hE : Has env (txAttrs s)) (hC : Has env txConsts)
    (hs : env "success" = some (pbool ok)) :
    runFn (txMeths s) env Src.TransportLayerLogic_p_stop_sending = .ok (pnone, stopEnv s ok env) := by
  obtain ⟨hI, -⟩ := has_txConsts hC
  apply runFn_next
  show execBlock _ env (SR 0) = _
  rw [step_next rfl (stop_stmt0 s ok env hE hs)]
  rw [step_next rfl (assign_var _ _ "self.tx_state" "self.TxState.IDLE" (txStPV .idle)
    (by cases s.active <;> simp [set_get, hI]))]
  rw [step_next rfl (assign_int _ _ "self.tx_frame_length" 0)]
  rw [step_next rfl (proc0 _ _ _ "self.timer_rx_fc.stop" (by decide) (txMeths_fc_stop s _))]
  rw [step_next rfl (proc0 _ _ _ "self.timer_tx_stmin.stop" (by decide) (txMeths_stmin_stop s _))]
  rw [step_next rfl (assign_none _ _ "self.remote_blocksize")]
  rw [step_next rfl (assign_int _ _ "self.tx_block_counter" 0)]
  rw [step_next rfl (assign_int _ _ "self.tx_seqnum" 0)]
  rw [step_next rfl (assign_int _ _ "self.wft_counter" 0)]
  rw [step_next rfl (assign_none _ _ "self.tx_standby_msg")]
  rfl

/-- ... and `stopEnv` shows the transmit side of the model's `s.stopSending ok` -/
theorem stopEnv_has (s : State) (ok : Bool) (env : Env) (hE : Has env (txAttrs s)) :
    Has (stopEnv s ok env) (txAttrs (s.stopSending ok)) := by
  obtain ⟨h1, h2, h3, h4, h5, h6, h7, h8, h9, h10, h11, h12, h13⟩ := has_txAttrs hE
  rw [show s.active.isSome = (match s.active with | some _ => true | none => false) by cases s.active <;> rfl] at h8
  cases ha : s.active <;> rw [ha] at h8 <;>
  simp [Has, txAttrs, stopEnv, State.stopSending, State.emit, ha, set_get, Timer.stop, optPV, objPV, doneHist, h10, h12, h13] <;>
  simpa [objPV] using h8

/-- nothing else is written -/
theorem stopEnv_frame (s : State) (ok : Bool) (env : Env) (k : String) (hk : k ∉ txKeys) : stopEnv s ok env k = env k := by
  simp only [txKeys, List.mem_cons, List.not_mem_nil, or_false, not_or] at hk
  cases ha : s.active <;> simp [stopEnv, ha, set_get, hk]

/-- **`_stop_sending(success)` = `State.stopSending`**, for ALL states and EVERY environment that shows the transmit side of `s`
    (`Has env (txAttrs s)`), the `TxState` constants and the argument: the call returns `None`; afterwards the object shows the
    transmit side of the model's `s.stopSending ok` (in particular the history `#done` gained `(id, ok)` of the active request exactly
    when there was one: the model's `emit (.done r.id ok)`), and no other name was written. -/
theorem p_stop_sending_agrees (s : State) (ok : Bool) (env : Env) (hE : Has env (txAttrs s)) (hC : Has env txConsts)
    (hs : env "success" = some (pbool ok)) :
    ∃ env', runFn (txMeths s) env Src.TransportLayerLogic_p_stop_sending = .ok (pnone, env') ∧
      Has env' (txAttrs (s.stopSending ok)) ∧ ∀ k, k ∉ txKeys → env' k = env k :=
  ⟨stopEnv s ok env, p_stop_sending_run s ok env hE hC hs, stopEnv_has s ok env hE, stopEnv_frame s ok env⟩

/-- an environment with exactly the transmit side of `s`, the constants and the argument (non-vacuity of the hypotheses) -/
def txEnvOf (s : State) (extra : List (String × PV)) : Env := envOf (extra ++ txAttrs s ++ txConsts)

theorem txEnvOf_has (s : State) (ok : Bool) :
    Has (txEnvOf s [("success", pbool ok)]) (txAttrs s) ∧ Has (txEnvOf s [("success", pbool ok)]) txConsts ∧
    txEnvOf s [("success", pbool ok)] "success" = some (pbool ok) := by
  refine ⟨?_, ?_, rfl⟩
  · intro kv h
    simp only [txAttrs, List.mem_cons, List.not_mem_nil, or_false] at h
    rcases h with rfl | rfl | rfl | rfl | rfl | rfl | rfl | rfl | rfl | rfl | rfl | rfl | rfl <;> rfl
  · intro kv h
    simp only [txConsts, List.mem_cons, List.not_mem_nil, or_false] at h
    rcases h with rfl | rfl | rfl | rfl | rfl <;> rfl

/-! ## B. `_start_rx_fc_timer` = `State.startRxFcTimer`

  The source is `self.timer_rx_fc = Timer(timeout=float(self.params.rx_flowcontrol_timeout) / 1000); self.timer_rx_fc.start()`.
  The interpreter evaluates `float(ms) / 1000` to the exact rational `ms/1000` (seconds).  `Timer.__init__` / `Timer.set_timeout`
  then store `int(timeout * 1e9)` nanoseconds: a FLOAT computation, outside the subset.  Its result is, by construction of the
  harness, the value handed to the model as `cfg.tFc` (DESIGN 3.1: "timeout parameters enter the model as integer nanoseconds read
  from the implementation after construction").  Here `Timer(timeout=...)` is therefore an opaque fresh object (`Meths.fn` cannot
  write attributes) and `self.timer_rx_fc.start()` on that fresh object is the primitive that shows its two attributes:
  `timeout := cfg.tFc` (what the constructor stored) and `start_time := now` (`Timer.start`, `timer_start_none_agrees`). -/

theorem truediv_1000 (x : Int) : evalBinop .truediv (pint x) (pint 1000) = .ok (.sc (.py (.float x 1000))) := rfl

theorem txMeths_float (s : State) (i : Int) (env : Env) : (txMeths s).fn "float" [pint i] env = .ok (pint i) := rfl
theorem txMeths_Timer (s : State) (n : Int) (d : Nat) (env : Env) :
    (txMeths s).fn "Timer#timeout" [.sc (.py (.float n d))] env = .ok (.meth "Timer") := rfl
theorem txMeths_fc_start (s : State) (env : Env) (h : env "self.timer_rx_fc" = some (.meth "Timer")) :
    (txMeths s).proc "self.timer_rx_fc.start" [] env =
      .ok ((env.set "self.timer_rx_fc.timeout" (pint s.cfg.tFc)).set "self.timer_rx_fc.start_time" (pint s.now)) := by
  show (match env "self.timer_rx_fc" with
       | some (PV.meth "Timer") =>
         Except.ok ((env.set "self.timer_rx_fc.timeout" (pint s.cfg.tFc)).set "self.timer_rx_fc.start_time" (pint s.now))
       | _ => (Except.error (PErr.exc .AttributeError) : Except PErr Env)) = _
  rw [h]
  rfl

/-- the environment `_start_rx_fc_timer()` ends with -/
def fcStartEnv (s : State) (env : Env) : Env :=
  ((env.set "self.timer_rx_fc" (.meth "Timer")).set "self.timer_rx_fc.timeout" (pint s.cfg.tFc)).set
    "self.timer_rx_fc.start_time" (pint s.now)

theorem p_start_rx_fc_timer_run (s : State) (ms : Int) (env : Env)
    (hp : env "self.params.rx_flowcontrol_timeout" = some (pint ms)) :
    runFn (txMeths s) env Src.TransportLayerLogic_p_start_rx_fc_timer = .ok (pnone, fcStartEnv s env) := by
  have h0 : execStmt (txMeths s) env (nth Src.TransportLayerLogic_p_start_rx_fc_timer 0) =
      .ok (.next (env.set "self.timer_rx_fc" (.meth "Timer"))) := by
    simp [nth, Src.TransportLayerLogic_p_start_rx_fc_timer, execStmt, eval, evalArgs, hp,
      evalBuiltin_none "float" _ (by decide), evalBuiltin_none "Timer#timeout" _ (by decide), txMeths_float, truediv_1000,
      txMeths_Timer]
  apply runFn_next
  show execBlock _ env (drop Src.TransportLayerLogic_p_start_rx_fc_timer 0) = _
  rw [step_next rfl h0]
  rw [step_next rfl (proc0 _ _ _ "self.timer_rx_fc.start" (by decide) (txMeths_fc_start s _ (by simp [set_get])))]
  rfl

def fcTimerKeys : List String := ["self.timer_rx_fc", "self.timer_rx_fc.timeout", "self.timer_rx_fc.start_time"]

/-- **`_start_rx_fc_timer()` = `State.startRxFcTimer`**, for all states, whatever the parameter `rx_flowcontrol_timeout` (an `int`,
    milliseconds): relative to the float conversion described above. -/
theorem p_start_rx_fc_timer_agrees (s : State) (ms : Int) (env : Env) (hE : Has env (txAttrs s))
    (hp : env "self.params.rx_flowcontrol_timeout" = some (pint ms)) :
    ∃ env', runFn (txMeths s) env Src.TransportLayerLogic_p_start_rx_fc_timer = .ok (pnone, env') ∧
      Has env' (txAttrs s.startRxFcTimer) ∧ ∀ k, k ∉ fcTimerKeys → env' k = env k := by
  refine ⟨fcStartEnv s env, p_start_rx_fc_timer_run s ms env hp, ?_, ?_⟩
  · obtain ⟨h1, h2, h3, h4, h5, h6, h7, h8, h9, h10, h11, h12, h13⟩ := has_txAttrs hE
    simp [Has, txAttrs, fcStartEnv, State.startRxFcTimer, set_get, optPV, *]
  · intro k hk
    simp only [fcTimerKeys, List.mem_cons, List.not_mem_nil, or_false, not_or] at hk
    simp [fcStartEnv, set_get, hk]

/-! ## C. the accessors `available`, `transmitting`, `is_tx_throttled` -/

theorem txMeths_rx_empty (s : State) (env : Env) : (txMeths s).fn "self.rx_queue.empty" [] env = .ok (pbool s.rxQueue.isEmpty) := rfl
theorem txMeths_tx_empty (s : State) (env : Env) : (txMeths s).fn "self.tx_queue.empty" [] env = .ok (pbool s.txQueue.isEmpty) := rfl

/-- **`available()` = `State.available`** (`self.rx_queue.empty()` answering what the model's queue answers), every environment -/
theorem available_agrees (s : State) (env : Env) :
    runFn (txMeths s) env Src.TransportLayerLogic_available = .ok (pbool s.available, env) := by
  simp [runFn, Src.TransportLayerLogic_available, execBlock, execStmt, eval, evalArgs,
    evalBuiltin_none "self.rx_queue.empty" _ (by decide), txMeths_rx_empty, State.available]

theorem pvEq_txStPV (a b : TxSt) : pvEq (txStPV a) (txStPV b) = decide (a = b) := by
  cases a <;> cases b <;> rfl

/-- **`transmitting()` = `State.transmitting`**: Python's `or` returns an operand; both are `bool`s here -/
theorem transmitting_agrees (s : State) (env : Env) (hE : Has env (txAttrs s)) (hC : Has env txConsts) :
    runFn (txMeths s) env Src.TransportLayerLogic_transmitting = .ok (pbool s.transmitting, env) := by
  obtain ⟨hS, -⟩ := has_txAttrs hE
  obtain ⟨hI, -⟩ := has_txConsts hC
  cases hq : s.txQueue.isEmpty <;>
  simp [runFn, Src.TransportLayerLogic_transmitting, execBlock, execStmt, eval, evalArgs,
    evalBuiltin_none "self.tx_queue.empty" _ (by decide), txMeths_tx_empty, State.transmitting, hS, hI, hq, pvEq_txStPV]
  all_goals cases s.txState <;> rfl

/-- **`is_tx_throttled()` = `State.isTxThrottled`** -/
theorem is_tx_throttled_agrees (s : State) (M : Meths) (env : Env) (hE : Has env (txAttrs s)) (hC : Has env txConsts) :
    runFn M env Src.TransportLayerLogic_is_tx_throttled = .ok (pbool s.isTxThrottled, env) := by
  obtain ⟨hS, -⟩ := has_txAttrs hE
  obtain ⟨-, -, -, hSF, hFF⟩ := has_txConsts hC
  simp [runFn, Src.TransportLayerLogic_is_tx_throttled, execBlock, execStmt, eval, evalArgs, hS, hSF, hFF, txStPV,
    State.isTxThrottled, List.mapM_cons, List.mapM_nil]
  cases s.txState <;> rfl

/-! ## E. `FiniteByteGenerator.remaining_size / depleted / total_length` = `Req.remaining / depleted / size` -/

/-- the attributes of a `FiniteByteGenerator` (the generator itself, `_gen`, is only touched by `consume`) -/
def reqAttrs (r : Req) : List (String × PV) :=
  [("self._size", pint r.size), ("self._consumed", pint r.consumed), ("self._depleted", pbool r.depletedFlag)]

theorem has_reqAttrs {env : Env} {r : Req} (h : Has env (reqAttrs r)) :
    env "self._size" = some (pint r.size) ∧ env "self._consumed" = some (pint r.consumed) ∧
    env "self._depleted" = some (pbool r.depletedFlag) := by
  simpa [Has, reqAttrs] using h

/-- **`total_length()` = `Req.size`** -/
theorem fbg_total_length_agrees (r : Req) (M : Meths) (env : Env) (hE : Has env (reqAttrs r)) :
    runFn M env Src.FiniteByteGenerator_total_length = .ok (pint r.size, env) := by
  obtain ⟨h1, -, -⟩ := has_reqAttrs hE
  simp [runFn, Src.FiniteByteGenerator_total_length, execBlock, execStmt, eval, h1]

/-- `remaining_size()`, exactly: Python's `int` subtraction (negative when more was consumed than declared) -/
theorem fbg_remaining_size_int (r : Req) (M : Meths) (env : Env) (hE : Has env (reqAttrs r)) :
    runFn M env Src.FiniteByteGenerator_remaining_size = .ok (pint ((r.size : Int) - r.consumed), env) := by
  obtain ⟨h1, h2, -⟩ := has_reqAttrs hE
  simp [runFn, Src.FiniteByteGenerator_remaining_size, execBlock, execStmt, eval, h1, h2]

/-- **`remaining_size()` = `Req.remaining`** (the model's truncated `size - consumed`) as long as no more than the declared size was
    consumed.  `consume` raises `BadGeneratorError` when `_consumed` gets past `_size` (and the layer then drops the request), but it
    leaves the object in that state: the hypothesis cannot be dropped, see `fbg_remaining_size_needs_le`. -/
theorem fbg_remaining_size_agrees (r : Req) (M : Meths) (env : Env) (hE : Has env (reqAttrs r)) (hle : r.consumed ≤ r.size) :
    runFn M env Src.FiniteByteGenerator_remaining_size = .ok (pint r.remaining, env) := by
  rw [fbg_remaining_size_int r M env hE]
  have : (r.size : Int) - r.consumed = ((r.size - r.consumed : Nat) : Int) := by omega
  rw [this]; rfl

/-- declared size 2, 3 bytes consumed (a generator that yields more than it declared, after the `BadGeneratorError`):
    Python says `-1`, the model `0` -/
theorem fbg_remaining_size_needs_le :
    ∃ r : Req, (∀ M env, Has env (reqAttrs r) → runFn M env Src.FiniteByteGenerator_remaining_size = .ok (pint (-1), env)) ∧
      r.remaining = 0 :=
  ⟨{ id := 0, size := 2, src := [], consumed := 3 }, fun M env h => fbg_remaining_size_int _ M env h, rfl⟩

/-- `self.remaining_size()` resolved by interpreting its source on the same object -/
def fbgMeths : Meths where
  fn := fun name args env =>
    match name, args with
    | "self.remaining_size", [] => retM noMeths env Src.FiniteByteGenerator_remaining_size
    | n, _ => .error (.unsupported ("call " ++ n))
  proc := fun n _ _ => .error (.unsupported ("call " ++ n))

theorem fbgMeths_remaining (r : Req) (env : Env) (hE : Has env (reqAttrs r)) :
    fbgMeths.fn "self.remaining_size" [] env = .ok (pint ((r.size : Int) - r.consumed)) := by
  show retM noMeths env Src.FiniteByteGenerator_remaining_size = _
  simp [retM, fbg_remaining_size_int r noMeths env hE]

/-- **`depleted()` = `Req.depleted`**, for ALL requests (no hypothesis: `size - consumed <= 0` on `int`s is `size ≤ consumed`),
    the call `self.remaining_size()` being the interpreted source -/
theorem fbg_depleted_agrees (r : Req) (env : Env) (hE : Has env (reqAttrs r)) :
    runFn fbgMeths env Src.FiniteByteGenerator_depleted = .ok (pbool r.depleted, env) := by
  obtain ⟨-, -, h3⟩ := has_reqAttrs hE
  have e : ((r.size : Int) - r.consumed ≤ 0) ↔ r.size ≤ r.consumed := by omega
  by_cases hd : r.size ≤ r.consumed <;>
  simp [runFn, Src.FiniteByteGenerator_depleted, execBlock, execStmt, eval, evalArgs,
    evalBuiltin_none "self.remaining_size" _ (by decide), fbgMeths_remaining r env hE, evalCmp_le_pint, e, hd, h3, Req.depleted]

example : ∃ r env, Has env (reqAttrs r) ∧ r.consumed ≤ r.size :=
  ⟨{ id := 0, size := 2, src := [] }, envOf (reqAttrs { id := 0, size := 2, src := [] }), by
    intro kv h
    simp only [reqAttrs, List.mem_cons, List.not_mem_nil, or_false] at h
    rcases h with rfl | rfl | rfl <;> rfl, by decide⟩

/-! ## G. the public wrappers `stop_sending()` / `stop_receiving()`

  Model: `TransportLayerLogic.stop_sending()` is `State.stopSending s false`, `stop_receiving()` is `State.stopReceiving s`
  (what `Threaded.stopSending` / `Threaded.stopReceiving` apply to the core when the layer is not started). -/

/-- A call of another method of `self` with one parameter, as a statement: the callee's source runs on the same attributes with
    its parameter bound; the binding disappears on return. -/
def callWith (M : Meths) (body : PBlock) (param : String) (v : PV) (env : Env) : Except PErr Env :=
  (envM M (env.set param v) body).map (fun env' k => if k = param then env k else env' k)

/-- `stop_sending()`, whatever `_stop_sending` is -/
theorem stop_sending_calls (M : Meths) (env : Env) :
    runFn M env Src.TransportLayerLogic_stop_sending =
      (M.proc "self._stop_sending#success" [pbool false] env).map (fun env' => (pnone, env')) := by
  cases h : M.proc "self._stop_sending#success" [pbool false] env <;>
  simp [runFn, Src.TransportLayerLogic_stop_sending, execBlock, execStmt, eval, evalArgs,
    evalBuiltin_none "self._stop_sending#success" _ (by decide), h]

/-- `stop_receiving()`, whatever `_stop_receiving` is -/
theorem stop_receiving_calls (M : Meths) (env : Env) :
    runFn M env Src.TransportLayerLogic_stop_receiving =
      (M.proc "self._stop_receiving" [] env).map (fun env' => (pnone, env')) := by
  cases h : M.proc "self._stop_receiving" [] env <;>
  simp [runFn, Src.TransportLayerLogic_stop_receiving, execBlock, execStmt, evalArgs,
    evalBuiltin_none "self._stop_receiving" _ (by decide), h]

/-- `self._stop_sending(success=v)` resolved by INTERPRETING the source of `_stop_sending` (primitives: `txMeths s`) -/
def pubMeths (s : State) : Meths where
  fn := (txMeths s).fn
  proc := fun name args env =>
    match name, args with
    | "self._stop_sending#success", [v] => callWith (txMeths s) Src.TransportLayerLogic_p_stop_sending "success" v env
    | n, _ => .error (.unsupported ("call " ++ n))

/-- **`stop_sending()` = `State.stopSending s false`**, for all states: composition of the two sources -/
theorem stop_sending_agrees (s : State) (env : Env) (hE : Has env (txAttrs s)) (hC : Has env txConsts) :
    ∃ env', runFn (pubMeths s) env Src.TransportLayerLogic_stop_sending = .ok (pnone, env') ∧
      Has env' (txAttrs (s.stopSending false)) ∧ ∀ k, k ∉ txKeys → env' k = env k := by
  have hne : ∀ k ∈ txKeys ++ txConsts.map (·.1), k ≠ "success" := by decide
  have hE' : Has (env.set "success" (pbool false)) (txAttrs s) := by
    intro kv hkv
    have hk : kv.1 ≠ "success" := hne _ (List.mem_append_left _ (by rw [← txAttrs_keys s]; exact List.mem_map_of_mem hkv))
    simp [set_get, hk, hE kv hkv]
  have hC' : Has (env.set "success" (pbool false)) txConsts := by
    intro kv hkv
    have hk : kv.1 ≠ "success" := hne _ (List.mem_append_right _ (List.mem_map_of_mem hkv))
    simp [set_get, hk, hC kv hkv]
  have hrun := p_stop_sending_run s false _ hE' hC' (by simp [set_get])
  have hp : (pubMeths s).proc "self._stop_sending#success" [pbool false] env =
      .ok (fun k => if k = "success" then env k else stopEnv s false (env.set "success" (pbool false)) k) := by
    show callWith (txMeths s) Src.TransportLayerLogic_p_stop_sending "success" (pbool false) env = _
    simp [callWith, envM, hrun]
  refine ⟨_, by rw [stop_sending_calls, hp]; rfl, ?_, ?_⟩
  · intro kv hkv
    have hk : kv.1 ≠ "success" := hne _ (List.mem_append_left _ (by
      rw [← txAttrs_keys (s.stopSending false)]; exact List.mem_map_of_mem hkv))
    simp only [hk, if_false]
    exact stopEnv_has s false _ hE' kv hkv
  · intro k hk
    by_cases hs : k = "success"
    · simp [hs]
    · simp only [hs, if_false]
      rw [stopEnv_frame s false _ k hk]
      simp [set_get, hs]

/-! `stop_receiving()`: the callee `_stop_receiving` and ITS callees `_empty_rx_buffer`, `_stop_sending_flow_control` are all resolved by
    interpreting their sources; the primitives are `bytearray()` (an empty buffer) and `self.timer_rx_cf.stop()` (`Timer.stop` on the
    sub-object, `timer_stop_agrees`). -/

def pubRxStPV : RxSt → PV
  | .idle => .sc (.enum "RxState" "IDLE")
  | .waitCf => .sc (.enum "RxState" "WAIT_CF")

/-- the attributes `_stop_receiving` touches -/
def pubRxAttrs (s : State) : List (String × PV) :=
  [("self.actual_rxdl", optPV s.actualRxdl),
   ("self.rx_state", pubRxStPV s.rxState),
   ("self.rx_buffer", .bytes s.rxBuf),
   ("self.pending_flow_control_tx", pbool s.pendingFc),
   ("self.last_flow_control_frame", objPV "fc" s.lastFc.isSome),
   ("self.timer_rx_cf.start_time", optPV s.timerCf.start),
   ("self.timer_rx_cf.timeout", pint s.timerCf.timeout)]

def pubRxKeys : List String :=
  ["self.actual_rxdl", "self.rx_state", "self.rx_buffer", "self.pending_flow_control_tx", "self.last_flow_control_frame",
   "self.timer_rx_cf.start_time", "self.timer_rx_cf.timeout"]

theorem pubRxAttrs_keys (s : State) : (pubRxAttrs s).map (·.1) = pubRxKeys := rfl

def pubRxConsts : List (String × PV) :=
  [("self.RxState.IDLE", pubRxStPV .idle), ("self.RxState.WAIT_CF", pubRxStPV .waitCf)]

theorem pubRxConsts_dumped : ∀ kv ∈ pubRxConsts, kv ∈ Src.consts := by decide

/-- the primitives -/
def pubRxPrims : Meths where
  fn := fun name args _ =>
    match name, args with
    | "bytearray", [] => .ok (.bytes [])
    | n, _ => .error (.unsupported ("call " ++ n))
  proc := fun name args env =>
    match name, args with
    | "self.timer_rx_cf.stop", [] => .ok (env.set "self.timer_rx_cf.start_time" pnone)
    | n, _ => .error (.unsupported ("call " ++ n))

/-- the callees of `_stop_receiving`: interpreted sources -/
def pubRxMeths1 : Meths where
  fn := pubRxPrims.fn
  proc := fun name args env =>
    match name, args with
    | "self._empty_rx_buffer", [] => envM pubRxPrims env Src.TransportLayerLogic_p_empty_rx_buffer
    | "self._stop_sending_flow_control", [] => envM pubRxPrims env Src.TransportLayerLogic_p_stop_sending_flow_control
    | n, a => pubRxPrims.proc n a env

/-- the callee of `stop_receiving`: interpreted source -/
def pubRxMeths : Meths where
  fn := pubRxPrims.fn
  proc := fun name args env =>
    match name, args with
    | "self._stop_receiving", [] => envM pubRxMeths1 env Src.TransportLayerLogic_p_stop_receiving
    | n, _ => .error (.unsupported ("call " ++ n))

theorem p_empty_rx_buffer_run (env : Env) :
    envM pubRxPrims env Src.TransportLayerLogic_p_empty_rx_buffer = .ok (env.set "self.rx_buffer" (.bytes [])) := by
  have hf : ∀ env, pubRxPrims.fn "bytearray" [] env = .ok (.bytes []) := fun _ => rfl
  simp [envM, runFn, Src.TransportLayerLogic_p_empty_rx_buffer, execBlock, execStmt, eval, evalArgs,
    evalBuiltin_none "bytearray" _ (by decide), hf]

theorem p_stop_sending_flow_control_run (M : Meths) (env : Env) :
    envM M env Src.TransportLayerLogic_p_stop_sending_flow_control =
      .ok ((env.set "self.pending_flow_control_tx" (pbool false)).set "self.last_flow_control_frame" pnone) := by
  simp [envM, runFn, Src.TransportLayerLogic_p_stop_sending_flow_control, execBlock, execStmt, eval]

/-- the environment `_stop_receiving()` ends with -/
def pubRxStopEnv (env : Env) : Env :=
  ((((((env.set "self.actual_rxdl" pnone).set "self.rx_state" (pubRxStPV .idle)).set "self.rx_buffer" (.bytes [])).set
    "self.pending_flow_control_tx" (pbool false)).set "self.last_flow_control_frame" pnone).set "self.timer_rx_cf.start_time" pnone)

theorem p_stop_receiving_run (env : Env) (hI : env "self.RxState.IDLE" = some (pubRxStPV .idle)) :
    envM pubRxMeths1 env Src.TransportLayerLogic_p_stop_receiving = .ok (pubRxStopEnv env) := by
  have e : execBlock pubRxMeths1 env (drop Src.TransportLayerLogic_p_stop_receiving 0) = .ok (.next (pubRxStopEnv env)) := by
    rw [step_next rfl (assign_none _ _ "self.actual_rxdl")]
    rw [step_next rfl (assign_var _ _ "self.rx_state" "self.RxState.IDLE" (pubRxStPV .idle) (by simp [set_get, hI]))]
    have p1 : ∀ env, pubRxMeths1.proc "self._empty_rx_buffer" [] env = .ok (env.set "self.rx_buffer" (.bytes [])) :=
      fun env => p_empty_rx_buffer_run env
    have p2 : ∀ env, pubRxMeths1.proc "self._stop_sending_flow_control" [] env =
        .ok ((env.set "self.pending_flow_control_tx" (pbool false)).set "self.last_flow_control_frame" pnone) :=
      fun env => p_stop_sending_flow_control_run pubRxPrims env
    have p3 : ∀ env, pubRxMeths1.proc "self.timer_rx_cf.stop" [] env = .ok (env.set "self.timer_rx_cf.start_time" pnone) :=
      fun _ => rfl
    rw [step_next rfl (proc0 _ _ _ "self._empty_rx_buffer" (by decide) (p1 _))]
    rw [step_next rfl (proc0 _ _ _ "self._stop_sending_flow_control" (by decide) (p2 _))]
    rw [step_next rfl (proc0 _ _ _ "self.timer_rx_cf.stop" (by decide) (p3 _))]
    rfl
  have e' : execBlock pubRxMeths1 env Src.TransportLayerLogic_p_stop_receiving = .ok (.next (pubRxStopEnv env)) := e
  simp [envM, runFn, e']

/-- **`stop_receiving()` = `State.stopReceiving`**, for all states: composition of the four sources -/
theorem stop_receiving_agrees (s : State) (env : Env) (hE : Has env (pubRxAttrs s)) (hC : Has env pubRxConsts) :
    ∃ env', runFn pubRxMeths env Src.TransportLayerLogic_stop_receiving = .ok (pnone, env') ∧
      Has env' (pubRxAttrs s.stopReceiving) ∧ ∀ k, k ∉ pubRxKeys → env' k = env k := by
  have hI : env "self.RxState.IDLE" = some (pubRxStPV .idle) := hC ("self.RxState.IDLE", pubRxStPV .idle) (by simp [pubRxConsts])
  have hT : env "self.timer_rx_cf.timeout" = some (pint s.timerCf.timeout) := hE (_, _) (by simp [pubRxAttrs])
  have hp : pubRxMeths.proc "self._stop_receiving" [] env = .ok (pubRxStopEnv env) := p_stop_receiving_run env hI
  refine ⟨pubRxStopEnv env, by rw [stop_receiving_calls, hp]; rfl, ?_, ?_⟩
  · simp [Has, pubRxAttrs, pubRxStopEnv, State.stopReceiving, Timer.stop, set_get, optPV, objPV, hT, pubRxStPV]
  · intro k hk
    simp only [pubRxKeys, List.mem_cons, List.not_mem_nil, or_false, not_or] at hk
    simp [pubRxStopEnv, set_get, hk]

end Isotp.PyAgree
