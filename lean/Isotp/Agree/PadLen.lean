import Isotp.Generated
import Isotp.Frame
/-
  Leaf: `padLen` = `len(_pad_message_data(bytes(n)))` on the whole configuration space:
  8 link-layer sizes x 16 minimum lengths (None + 15) x {no padding byte, padding byte} x n in 0..64
  (0xFE: the combination is refused by `Params.validate`; 0xFF: ValueError).
-/
namespace Isotp.Agree

def txDls : List Nat := [8, 12, 16, 20, 24, 32, 48, 64]
def minLens : List (Option Nat) := [none, some 1, some 2, some 3, some 4, some 5, some 6, some 7, some 8,
  some 12, some 16, some 20, some 24, some 32, some 48, some 64]

def padLenCode (dl ml pad n : Nat) : Nat :=
  let txDl := txDls.getD dl 0
  let minLen := minLens.getD ml none
  match minLen with
  | some m => if m > txDl then 0xFE else
      (padLen { txDl := txDl, txMinLen := minLen, txPadding := if pad = 1 then some 0x5A else none } n).getD 0xFF
  | none => (padLen { txDl := txDl, txMinLen := none, txPadding := if pad = 1 then some 0x5A else none } n).getD 0xFF

theorem padLen_agree : ∀ (dl : Fin 8) (ml : Fin 16) (pad : Fin 2) (n : Fin 65),
    padLenCode dl.val ml.val pad.val n.val =
      Generated.entry Generated.padLenTable 1 (((dl.val * 16 + ml.val) * 2 + pad.val) * 65 + n.val) := by
  decide +kernel

/-- the padding bytes appended by the code are the configured byte (0xCC by default), the original data is kept -/
theorem padByte_agree : Generated.padByteOk = true := by decide

/-- `padLen` reads the padding byte only through `isSome` -/
theorem padLen_pad_uniform (c : Cfg) (b : Nat) (n : Nat) (h : c.txPadding = some b) :
    padLen c n = padLen { c with txPadding := some 0x5A } n := by
  unfold padLen; simp [h]

end Isotp.Agree
#print axioms Isotp.Agree.padLen_agree
