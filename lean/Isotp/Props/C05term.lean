import Isotp.Proofs.Termination
/-
  C05 / C04 (termination part) — "`process()` never raises … for any sequence of CAN frames" presupposes
  that a `process()` call *returns*.  The real method runs `while run_process:` with no bound; the model
  (`State.processLoop`) runs it with the fuel `processFuel s = 2 * (inbox + queue) + 8` and returns an
  explicit out-of-fuel flag (third component of `State.process`).  Here it is proved that the flag is
  never set: the loop of the model — hence, under the assumption that `rxfn` eventually returns `None`
  (the inbox is a finite list), the loop of the code — stops by itself.

  The only hypothesis is `s.cfg.valid` (the configuration passed `Params.validate`), which is what the
  inner tx loop needs (`C16.operable_tx_loop_terminates`); neither `Safe s` nor `exc = none` is needed.
  The bound of the model is not tight: `2 * (inbox + queue) + 3` iterations always suffice
  (`term_fuel_sharp`), and `+ 3` is attained (`term_fuel_sharp_attained`).  Nothing was found false.

  All proofs are in Isotp/Proofs/Termination.lean.
-/
namespace Isotp.C05
open Isotp State

/-! ## 1. One iteration, and when the loop iterates again -/

/-- The model's loop is the iteration body `procIter` (rx pass, rate-limiter update, tx pass) repeated:
    stop on an exception, on the inner loop's out-of-fuel flag, or when `run_process` is false. -/
theorem term_loop_unfold (f : Nat) (doRx doTx : Bool) (s : State) (st : Stats) :
    processLoop (f + 1) doRx doTx s st =
      if (s.procIter doRx doTx st).1.exc.isSome then ((s.procIter doRx doTx st).1, (s.procIter doRx doTx st).2.1, false)
      else if (s.procIter doRx doTx st).2.2.2 then ((s.procIter doRx doTx st).1, (s.procIter doRx doTx st).2.1, true)
      else if (s.procIter doRx doTx st).2.2.1 then
        processLoop f doRx doTx (s.procIter doRx doTx st).1 (s.procIter doRx doTx st).2.1
      else ((s.procIter doRx doTx st).1, (s.procIter doRx doTx st).2.1, false) :=
  processLoop_succ f doRx doTx s st

/-- **`run_process` at the end of the body** is `start_with_tx`, or the rx loop stopped early, or the tx
    loop got `immediate_rx_required`. -/
theorem term_run_again_iff (doRx doTx : Bool) (s : State) (st : Stats) :
    (s.procIter doRx doTx st).2.2.1 = true ↔
      s.startWithTx doTx = true ∨ (s.rxPass doRx doTx st).2.2 = true ∨
        (txPass doTx (s.rxPass doRx doTx st).1.rlPass (s.rxPass doRx doTx st).2.1).2.2.1 = true := by
  simp [State.procIter, or_assoc]

/-- The rx loop asks for another iteration only with `do_rx` and `do_tx`, not after `start_with_tx`, after
    reading at least one frame (the inbox got strictly shorter), and with a transmit FSM that has
    time-driven work (TRANSMIT_CF or a rate-limiter standby state). -/
theorem term_rx_run_spec (doRx doTx : Bool) (s : State) (st : Stats) (h : (s.rxPass doRx doTx st).2.2 = true) :
    doRx = true ∧ doTx = true ∧ s.startWithTx doTx = false ∧
      (s.rxPass doRx doTx st).1.txTimeDriven = true ∧
      (s.rxPass doRx doTx st).1.inbox.length < s.inbox.length := by
  unfold State.rxPass at h ⊢
  split at h
  · next hc =>
    rw [if_pos hc]
    simp only [Bool.and_eq_true, Bool.not_eq_true'] at hc
    obtain ⟨-, ⟨pre, hpre, hne⟩, h3, -⟩ := rxLoop_facts doTx s.inbox s st
    obtain ⟨a, b, c⟩ := h3 h
    refine ⟨hc.1, a, hc.2, b, ?_⟩
    have h0 : 0 < pre.length := List.length_pos_iff.2 (hne c)
    have := congrArg List.length hpre
    rw [List.length_append] at this
    omega
  · simp at h

/-- The tx loop asks for another iteration exactly when its last `_process_tx` (on some state `sm`,
    without raising) returned `immediate_rx_required`; the state after the loop is the one after that
    call (plus the `tx` event of its frame). -/
theorem term_tx_run_spec (f : Nat) (s : State) (n : Nat) (h : (txLoop f s n).2.2.1 = true) :
    ∃ sm : State, sm.processTx.2.2 = true ∧ sm.processTx.1.exc = none ∧
      ((sm.processTx.2.1 = none ∧ (txLoop f s n).1 = sm.processTx.1) ∨
       ∃ m, sm.processTx.2.1 = some m ∧ (txLoop f s n).1 = sm.processTx.1.emit (.tx sm.processTx.1.now m)) :=
  txLoop_run f s n h

/-- **`immediate_rx_required` from `_process_tx`**: the pending Flow Control was sent (transmit state,
    mailbox and queue untouched), or a block just ended: the FSM was hot (a Flow Control in the mailbox
    or TRANSMIT_CF), is now in WAIT_FC, and the mailbox is empty — from there no further
    `immediate_rx_required` arises until a frame is read. -/
theorem term_imm_rx_spec (s : State) (h : s.processTx.2.2 = true) :
    (s.pendingFc = true ∧ s.processTx.2.1.isSome = true ∧ s.processTx.1.txState = s.txState ∧
      s.processTx.1.lastFc = s.lastFc ∧ s.processTx.1.txQueue = s.txQueue) ∨
    (s.txHot = true ∧ s.processTx.1.txState = .waitFc ∧ s.processTx.1.lastFc = none) :=
  processTx_imm s h

/-! ## 2. The measure and the fuel -/

/-- the measure: two per frame still to be read, two per queued request, one for a Flow Control waiting to
    be sent, one for a hot transmit FSM -/
theorem term_measure_def (s : State) :
    procMeasure s = 2 * s.inbox.length + 2 * s.txQueue.length +
      ((if s.pendingFc then 1 else 0) + (if s.lastFc.isSome || decide (s.txState = .transmitCf) then 1 else 0)) :=
  rfl

/-- **The measure strictly decreases across every iteration that asks for another one** — for every
    state, every flags: no hypothesis at all. -/
theorem term_measure_decreases (doRx doTx : Bool) (s : State) (st : Stats)
    (hrun : (s.procIter doRx doTx st).2.2.1 = true) :
    procMeasure (s.procIter doRx doTx st).1 < procMeasure s :=
  procIter_measure doRx doTx s st hrun

/-- the measure is below the fuel `process` starts with -/
theorem term_measure_lt_fuel (s : State) : procMeasure s < s.processFuel := procMeasure_lt_processFuel s

/-- any fuel above the measure is enough -/
theorem term_loop_fuel (doRx doTx : Bool) (f : Nat) (s : State) (st : Stats) (hc : s.cfg.valid = true)
    (hf : procMeasure s < f) : (processLoop f doRx doTx s st).2.2 = false :=
  processLoop_fuel doRx doTx f s st hc hf

/-- **The `while run_process` loop terminates**: for every accepted configuration, every state, every
    `do_rx`/`do_tx`, the out-of-fuel flag of `process` is not set. -/
theorem term_process_fuel_sufficient (s : State) (doRx doTx : Bool) (hc : s.cfg.valid = true) :
    (s.process doRx doTx).2.2 = false :=
  process_fuel_sufficient s doRx doTx hc

/-- the same as an existence statement with the explicit (sharper) bound: `2 * (inbox + queue) + 3`
    iterations are enough, so the model's `+ 8` has a slack of 5 -/
theorem term_fuel_sharp (s : State) (doRx doTx : Bool) (hc : s.cfg.valid = true) :
    ∃ f, f ≤ 2 * (s.inbox.length + s.txQueue.length) + 3 ∧ f < s.processFuel ∧
      ∀ st, (processLoop f doRx doTx s st).2.2 = false :=
  ⟨2 * (s.inbox.length + s.txQueue.length) + 3, Nat.le_refl _, by unfold State.processFuel; omega,
    fun st => processLoop_fuel_sharp s doRx doTx st hc⟩

/-- **`process()` returns, and returns normally**: from a safe state without a pending exception, no
    exception escapes (C05/C16) and the loop has stopped by itself. -/
theorem term_process_returns (s : State) (h : Safe s) (he : s.exc = none) (doRx doTx : Bool) :
    (s.process doRx doTx).1.exc = none ∧ (s.process doRx doTx).2.2 = false ∧ Safe (s.process doRx doTx).1 :=
  ⟨Safe.process_exc h he doRx doTx, process_fuel_sufficient s doRx doTx h.cfg_valid, h.process doRx doTx⟩

/-- every `process` call of every run from the constructor returns normally -/
theorem term_every_process_returns (c : Cfg) (a : Addr) (hc : c.valid = true) (ops : List Op) (doRx doTx : Bool) :
    ((runOps (State.init c a) ops).process doRx doTx).1.exc = none ∧
    ((runOps (State.init c a) ops).process doRx doTx).2.2 = false := by
  have h := SafeOk.runOps ops (s := State.init c a) ⟨Safe.init c a hc, rfl⟩
  exact ⟨(term_process_returns _ h.1 h.2 doRx doTx).1, (term_process_returns _ h.1 h.2 doRx doTx).2.1⟩

/-! ## 3. What is left in the inbox -/

/-- what `process` leaves in the inbox is a suffix of what was there (frames are read in order, none is
    put back) -/
theorem term_inbox_suffix (s : State) (doRx doTx : Bool) (hc : s.cfg.valid = true) :
    ∃ pre, s.inbox = pre ++ (s.process doRx doTx).1.inbox := by
  have hf := process_fuel_sufficient s doRx doTx hc
  unfold State.process at hf ⊢
  obtain ⟨sk, stk, pre0, h1, -, -, h4, -⟩ := processLoop_last doRx doTx _ s {} hf
  obtain ⟨pre, h⟩ := procIter_inbox doRx doTx sk stk
  exact ⟨pre0 ++ pre, by rw [h4, h1, h, List.append_assoc]⟩

/-- **What `process(do_rx=True)` leaves unread.** When it returns normally: either everything was read
    (`rxfn` returned `None`), or the frames after some frame `m` are unread, where `m` is addressed to
    this layer and `_process_rx` asked for an immediate tx pass on it (the rx loop `break`s), and the tx
    pass did not ask for another iteration.  With `do_tx` outside listen mode, `m` is a Flow Control
    frame (when `m` left a Flow Control to be sent, sending it asks for another iteration). -/
theorem term_inbox_consumed (s : State) (doTx : Bool) (hc : s.cfg.valid = true)
    (hexc : (s.process true doTx).1.exc = none) :
    (s.process true doTx).1.inbox = [] ∨
    ∃ pre dt m, s.inbox = pre ++ (dt, m) :: (s.process true doTx).1.inbox ∧ s.addr.rx.isForMe m = true ∧
      (∃ sm : State, sm.addr = s.addr ∧ (sm.processRx m).2.1 = true) ∧
      (doTx = true → s.cfg.listen = false → IsFcFrame s.addr m) :=
  process_inbox s doTx hc hexc

/-- `immediate_tx_required` from `_process_rx`: a Flow Control frame, or a Flow Control is now pending -/
theorem term_imm_tx_spec (s : State) (m : CanMsg) (h : (s.processRx m).2.1 = true) :
    (s.processRx m).1.pendingFc = true ∨ IsFcFrame s.addr m :=
  processRx_imm s m h

/-- without `do_rx` the inbox is not touched -/
theorem term_inbox_untouched (s : State) (doTx : Bool) (hc : s.cfg.valid = true) :
    (s.process false doTx).1.inbox = s.inbox := by
  have hf := process_fuel_sufficient s false doTx hc
  unfold State.process at hf ⊢
  generalize s.processFuel = f at hf ⊢
  generalize ({} : Stats) = st at hf ⊢
  induction f generalizing s st with
  | zero => rfl
  | succ f ih =>
    have hi : (s.procIter false doTx st).1.inbox = s.inbox := by
      unfold State.procIter State.txPass State.rxPass
      simp only [Bool.false_and, Bool.false_eq_true, if_false]
      split
      · exact (txLoop_facts _ _ _).1
      · rfl
    rw [processLoop_succ] at hf ⊢
    split
    · exact hi
    · next h1 =>
      rw [if_neg h1] at hf
      split
      · exact hi
      · next h2 =>
        rw [if_neg h2] at hf
        split
        · next h3 =>
          rw [if_pos h3] at hf
          exact (ih _ (procIter_cfg_valid false doTx s st hc).2 _ hf).trans hi
        · exact hi

/-! ## 4. How many frames one call sends -/

/-- the budget: remaining payload bytes + 2 per request (+ 1 for a frame parked by the rate limiter),
    + 1 for a Flow Control waiting to be sent, + 1 per frame still to be read -/
theorem term_budget_def (s : State) :
    sendBudget s =
      ((s.txQueue.map (fun r => r.remaining + 2)).sum + (match s.active with | some r => r.remaining + 2 | none => 0) +
        (if s.standby.isSome then 1 else 0)) + (if s.pendingFc then 1 else 0) + s.inbox.length :=
  rfl

/-- **One `process` call hands at most `sendBudget s` frames to `txfn`**, and what it sends is taken off
    the budget of the state it returns (so the bound holds for any number of successive calls as long as
    nothing is added to the queue or the inbox). -/
theorem term_txLoop_bound (s : State) (doRx doTx : Bool) (hc : s.cfg.valid = true) :
    (s.process doRx doTx).2.1.sent + sendBudget (s.process doRx doTx).1 ≤ sendBudget s :=
  process_sent s doRx doTx hc

/-- in particular … -/
theorem term_sent_le (s : State) (doRx doTx : Bool) (hc : s.cfg.valid = true) :
    (s.process doRx doTx).2.1.sent ≤ sendBudget s :=
  Nat.le_trans (Nat.le_add_right _ _) (process_sent s doRx doTx hc)

/-- each `_process_tx` that outputs a frame takes one off `txMeasure + pending Flow Control` -/
theorem term_processTx_pays (s : State) (hc : s.cfg.valid = true) (m : CanMsg) (ho : s.processTx.2.1 = some m) :
    txMeasure s.processTx.1 + 1 ≤ txMeasure s + pendCount s :=
  processTx_out_measure s hc m ho

/-! ## Non-vacuity -/

def term_exHalf : Half :=
  { mode := .n11, txid := some 0x123, rxid := some 0x456, ta := none, sa := none, ae := none, physId := 0,
    funcId := 0, rxOnly := false, txOnly := false }
def term_exAddr : Addr := ⟨term_exHalf, term_exHalf⟩
/-- remote First Frame of a 20-byte message, its two Consecutive Frames, a Single Frame -/
def term_exFf : CanMsg := { id := 0x456, ext := false, data := [0x10, 0x14, 1, 2, 3, 4, 5, 6] }
def term_exCf (n : Nat) : CanMsg := { id := 0x456, ext := false, data := [u8 (0x20 + n), 7, 8, 9, 10, 11, 12, 13] }
def term_exSf : CanMsg := { id := 0x456, ext := false, data := [0x03, 7, 8, 9] }
/-- remote Flow Control, ContinueToSend with the given block size, STmin 0 -/
def term_exFc (bs : Nat) : CanMsg := { id := 0x456, ext := false, data := [0x30, u8 bs, 0] }
def term_exReq (id n : Nat) : Req := { id := id, size := n, src := List.replicate n 7 }

/-- a 30-byte request is queued and the First Frame has been sent: WAIT_FC -/
def term_exSending : State :=
  (({ State.init {} term_exAddr with txQueue := [term_exReq 1 30] } : State).process true true).1
/-- full duplex: while waiting for the Flow Control, a whole remote message and then the Flow Control
    (block size 1) arrive -/
def term_exDuplex : State :=
  { term_exSending with inbox := [(0, term_exFf), (0, term_exCf 1), (0, term_exCf 2), (0, term_exFc 1)] }

example : term_exDuplex.cfg.valid = true := by decide +kernel
example : term_exSending.txState = .waitFc ∧ term_exSending.txQueue = [] := by decide +kernel
/-- the theorem applies; here is what the call does: 4 frames read, the 20-byte message delivered, one
    Flow Control and one Consecutive Frame sent (block size 1), back in WAIT_FC, inbox empty -/
example : (term_exDuplex.process true true).2.2 = false :=
  term_process_fuel_sufficient _ _ _ (by decide +kernel)
example : (term_exDuplex.process true true).2 =
    ({ received := 4, processed := 4, sent := 2, frames := 1 }, false) := by decide +kernel
example : (term_exDuplex.process true true).1.inbox = [] ∧
    (term_exDuplex.process true true).1.txState = .waitFc ∧
    (term_exDuplex.process true true).1.rxQueue.length = 1 := by decide +kernel
/-- measure 8 (4 frames), fuel 16; the call needs 3 iterations (with fuel 2 the model would give up) -/
example : procMeasure term_exDuplex = 8 ∧ term_exDuplex.processFuel = 16 := by decide +kernel
example : (processLoop 2 true true term_exDuplex {}).2.2 = true ∧
    (processLoop 3 true true term_exDuplex {}).2.2 = false := by decide +kernel
/-- the first iteration asks for another one because `_process_tx` sent the Flow Control … -/
example : (term_exDuplex.procIter true true {}).2.2.1 = true ∧
    term_exDuplex.startWithTx true = false ∧ (term_exDuplex.rxPass true true {}).2.2 = false := by decide +kernel
/-- … and the measure went from 8 to 6 -/
example : procMeasure (term_exDuplex.procIter true true {}).1 = 6 := by decide +kernel
/-- budget 30 (24 bytes left + 2, 4 frames to read), 2 frames sent, budget left 19 (17 bytes + 2) -/
example : sendBudget term_exDuplex = 30 ∧ sendBudget (term_exDuplex.process true true).1 = 19 := by
  decide +kernel

/-- `start_with_tx`: three queued requests whose generators fail (`BadGeneratorError`, no frame) take one
    iteration each — the queue part of the measure is needed -/
def term_exBadQueue : State :=
  { State.init {} term_exAddr with
    txQueue := [{ id := 1, size := 30, src := [] }, { id := 2, size := 3, src := [] }, { id := 3, size := 4, src := [] }] }
example : term_exBadQueue.startWithTx true = true := by decide +kernel
example : (processLoop 3 true true term_exBadQueue {}).2.2 = true ∧
    (processLoop 4 true true term_exBadQueue {}).2.2 = false ∧
    (term_exBadQueue.process true true).1.txQueue = [] := by decide +kernel

/-- the constant `+ 3` of `term_fuel_sharp` is attained: empty inbox, empty queue, a Flow Control to send
    and a received Flow Control (block size 1) in the mailbox while in WAIT_FC (reached with two
    `process(do_tx=False)` calls): iteration 1 sends the Flow Control, iteration 2 sends the block and
    goes back to WAIT_FC, iteration 3 finds nothing to do. -/
def term_exHot : State :=
  (({ (({ term_exSending with inbox := [(0, term_exFf)] } : State).process true false).1 with
      inbox := [(0, term_exFc 1)] } : State).process true false).1
theorem term_fuel_sharp_attained :
    term_exHot.cfg.valid = true ∧ term_exHot.inbox = [] ∧ term_exHot.txQueue = [] ∧ procMeasure term_exHot = 2 ∧
    (processLoop 2 true true term_exHot {}).2.2 = true ∧ (processLoop 3 true true term_exHot {}).2.2 = false := by
  decide +kernel

/-- **`process` can return with unread frames** (as the code does): an unexpected Flow Control makes the
    rx loop `break`, the tx pass has nothing to do, and the two Single Frames stay in the inbox for the
    next call. -/
def term_exUnread : State :=
  { State.init {} term_exAddr with inbox := [(0, term_exFc 0), (0, term_exSf), (0, term_exSf)] }
theorem term_inbox_not_always_consumed :
    term_exUnread.cfg.valid = true ∧ (term_exUnread.process true true).1.exc = none ∧
    (term_exUnread.process true true).2.2 = false ∧
    (term_exUnread.process true true).1.inbox = [(0, term_exSf), (0, term_exSf)] := by
  decide +kernel
/-- … and `term_inbox_consumed` says why: the frame before them is a Flow Control frame -/
example : IsFcFrame term_exUnread.addr (term_exFc 0) :=
  ⟨{ pdu := .fc 0 0 0, canDl := 3, rxDl := 8 }, 0, 0, 0, by decide +kernel, rfl⟩
/-- with `do_tx = False` a First Frame is enough to stop the rx loop (its Flow Control stays pending) -/
example : (({ State.init {} term_exAddr with inbox := [(0, term_exFf), (0, term_exCf 1)] } : State).process
    true false).1.inbox = [(0, term_exCf 1)] := by decide +kernel
/-- a frame for somebody else never stops the rx loop -/
example : (({ State.init {} term_exAddr with
    inbox := [(0, { id := 0x7FF, ext := false, data := [0x30, 0, 0] }), (0, term_exSf)] } : State).process
    true true).1.inbox = [] := by decide +kernel
/-- the states above are safe states (hypothesis of `term_process_returns`) -/
theorem term_exSending_safe : Safe term_exSending :=
  Safe.process (s := { State.init {} term_exAddr with txQueue := [term_exReq 1 30] })
    ((Safe.init {} term_exAddr (by decide)).congr rfl rfl rfl rfl rfl rfl rfl rfl) true true
theorem term_exDuplex_safe : Safe term_exDuplex :=
  term_exSending_safe.congr
    (s' := { term_exSending with inbox := [(0, term_exFf), (0, term_exCf 1), (0, term_exCf 2), (0, term_exFc 1)] })
    rfl rfl rfl rfl rfl rfl rfl rfl
example : (term_exDuplex.process true true).1.exc = none ∧ (term_exDuplex.process true true).2.2 = false :=
  ⟨(term_process_returns _ term_exDuplex_safe (by decide +kernel) true true).1,
   (term_process_returns _ term_exDuplex_safe (by decide +kernel) true true).2.1⟩

end Isotp.C05

#print axioms Isotp.C05.term_loop_unfold
#print axioms Isotp.C05.term_run_again_iff
#print axioms Isotp.C05.term_rx_run_spec
#print axioms Isotp.C05.term_tx_run_spec
#print axioms Isotp.C05.term_imm_rx_spec
#print axioms Isotp.C05.term_measure_def
#print axioms Isotp.C05.term_measure_decreases
#print axioms Isotp.C05.term_measure_lt_fuel
#print axioms Isotp.C05.term_loop_fuel
#print axioms Isotp.C05.term_process_fuel_sufficient
#print axioms Isotp.C05.term_fuel_sharp
#print axioms Isotp.C05.term_process_returns
#print axioms Isotp.C05.term_every_process_returns
#print axioms Isotp.C05.term_inbox_suffix
#print axioms Isotp.C05.term_inbox_consumed
#print axioms Isotp.C05.term_imm_tx_spec
#print axioms Isotp.C05.term_inbox_untouched
#print axioms Isotp.C05.term_budget_def
#print axioms Isotp.C05.term_txLoop_bound
#print axioms Isotp.C05.term_sent_le
#print axioms Isotp.C05.term_processTx_pays
#print axioms Isotp.C05.term_fuel_sharp_attained
#print axioms Isotp.C05.term_inbox_not_always_consumed
