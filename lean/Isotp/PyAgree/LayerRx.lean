import Isotp.PyAgree.EvalLemmas
import Isotp.PyAgree.MiscLemmas
import Isotp.PyAgree.MiscTimer
import Isotp.PyAgree.Pdu
import Isotp.Layer
/-!
  The RECEIVE state machine of `TransportLayerLogic` (isotp/protocol.py): `_process_rx`, `_check_timeouts_rx` and the helpers they
  call, as dumped in `Isotp/Py/Src.lean`, against the model `State.processRx` / `State.checkTimeoutsRx` (`Isotp/Layer.lean`).
-/
namespace Isotp.PyAgree
open Isotp Isotp.Py

/-! ## 1. State <-> environment -/

def rxStPV : RxSt → PV
  | .idle => .sc (.enum "RxState" "IDLE")
  | .waitCf => .sc (.enum "RxState" "WAIT_CF")

/-- an `isotp.errors.<Class>` instance, as handed to `_trigger_error` (the message is dropped) -/
def errSc (e : Err) : Sc := .enum "errors" e.name

/-- HISTORY: the error classes handed to the error handler, oldest first (`State.log` is newest first) -/
def errsOf : List Ev → List Sc
  | [] => []
  | .err _ e :: r => errsOf r ++ [errSc e]
  | _ :: r => errsOf r

/-- HISTORY: the payloads handed to `rx_queue.put`, oldest first -/
def deliveredOf : List Ev → List Bytes
  | [] => []
  | .deliver p :: r => deliveredOf r ++ [p]
  | _ :: r => deliveredOf r

/-- one payload as scalars: its length, then its bytes -/
def encodePayload (p : Bytes) : List Sc := .py (.int p.length) :: p.map (fun b => Sc.py (.int b.toNat))
/-- a list of byte strings as ONE list of scalars -/
def encodePayloads (l : List Bytes) : List Sc := l.flatMap encodePayload

theorem encodePayloads_append (l : List Bytes) (p : Bytes) :
    encodePayloads (l ++ [p]) = encodePayloads l ++ encodePayloads [p] := by
  simp [encodePayloads, List.flatMap_append]

theorem encodePayloads_single (p : Bytes) : encodePayloads [p] = encodePayload p := by
  simp [encodePayloads]

/-- the value of the mailbox attribute: `None`, or the PDU object `obj` -/
def mbVal (obj : String) : Option FcFrame → PV
  | none => pnone
  | some _ => .meth obj

/-- the depth-1 mailbox `last_flow_control_frame`: `None`, or an object `obj` whose three decoded fields are `obj.flow_status` ... -/
def fcAttrs (obj : String) : Option FcFrame → List (String × PV)
  | none => [("self.last_flow_control_frame", pnone)]
  | some f => [("self.last_flow_control_frame", .meth obj), (obj ++ ".flow_status", pint f.status),
               (obj ++ ".blocksize", pint f.bs), (obj ++ ".stmin", pint f.stmin)]

/-- `pending_flowcontrol_status` does not exist until the first `_request_tx_flowcontrol` -/
def pfsAttrs : Option Nat → List (String × PV)
  | none => []
  | some n => [("self.pending_flowcontrol_status", pint n)]

/-- the attributes of the receive side other than the mailbox, and the history keys -/
def coreAttrs (s : State) : List (String × PV) :=
  [("self.rx_state", rxStPV s.rxState), ("self.rx_frame_length", pint s.rxFrameLen), ("self.last_seqnum", pint s.lastSeq),
   ("self.rx_block_counter", pint s.rxBlockCnt), ("self.actual_rxdl", optPV s.actualRxdl), ("self.rx_buffer", .bytes s.rxBuf),
   ("self.pending_flow_control_tx", pbool s.pendingFc),
   ("self.timer_rx_cf.start_time", optPV s.timerCf.start), ("self.timer_rx_cf.timeout", pint s.timerCf.timeout),
   ("self.params.blocksize", pint s.cfg.blocksize), ("self.params.max_frame_size", pint s.cfg.maxFrameSize),
   ("self.params.rx_consecutive_frame_timeout", pint (s.cfg.tCf / 1000000)),
   ("#errors", .list (errsOf s.log)), ("#delivered", .list (encodePayloads (deliveredOf s.log))),
   ("#rx_queue", .list (encodePayloads s.rxQueue))]

/-- everything the receive side reads and writes; `obj` names the PDU object that sits in the mailbox (if any) -/
def rxAttrs (obj : String) (s : State) : List (String × PV) :=
  coreAttrs s ++ pfsAttrs s.pendingFcStatus ++ fcAttrs obj s.lastFc

/-- the object as the interpreter sees it (a Flow Control waiting in the mailbox is the object `fc`) -/
def rxEnv (s : State) : Env := fun k =>
  match k with
  | "self.rx_state" => some (rxStPV s.rxState)
  | "self.rx_frame_length" => some (pint s.rxFrameLen)
  | "self.last_seqnum" => some (pint s.lastSeq)
  | "self.rx_block_counter" => some (pint s.rxBlockCnt)
  | "self.actual_rxdl" => some (optPV s.actualRxdl)
  | "self.rx_buffer" => some (.bytes s.rxBuf)
  | "self.pending_flow_control_tx" => some (pbool s.pendingFc)
  | "self.pending_flowcontrol_status" => s.pendingFcStatus.map (fun n => pint n)
  | "self.timer_rx_cf.start_time" => some (optPV s.timerCf.start)
  | "self.timer_rx_cf.timeout" => some (pint s.timerCf.timeout)
  | "self.params.blocksize" => some (pint s.cfg.blocksize)
  | "self.params.max_frame_size" => some (pint s.cfg.maxFrameSize)
  | "self.params.rx_consecutive_frame_timeout" => some (pint (s.cfg.tCf / 1000000))
  | "#errors" => some (.list (errsOf s.log))
  | "#delivered" => some (.list (encodePayloads (deliveredOf s.log)))
  | "#rx_queue" => some (.list (encodePayloads s.rxQueue))
  | "self.last_flow_control_frame" => some (mbVal "fc" s.lastFc)
  | "fc.flow_status" => s.lastFc.map (fun f => pint f.status)
  | "fc.blocksize" => s.lastFc.map (fun f => pint f.bs)
  | "fc.stmin" => s.lastFc.map (fun f => pint f.stmin)
  | _ => constEnv k

/-! ## 2. The decoded frame -/

def pLen : Pdu → Option PV
  | .sf l _ _ => some (pint l) | .ff l _ _ => some (pint l) | _ => none
def pData : Pdu → Option PV
  | .sf _ d _ => some (.bytes d) | .ff _ d _ => some (.bytes d) | .cf _ d => some (.bytes d) | _ => none
def pSeq : Pdu → Option PV
  | .cf sn _ => some (pint sn) | _ => none
def pEsc : Pdu → Option PV
  | .sf _ _ e => some (pbool e) | .ff _ _ e => some (pbool e) | _ => none
def pFs : Pdu → Option PV
  | .fc st _ _ => some (pint st) | _ => none
def pBs : Pdu → Option PV
  | .fc _ bs _ => some (pint bs) | _ => none
def pStmin : Pdu → Option PV
  | .fc _ _ stm => some (pint stm) | _ => none

/-- the attributes of the object `PDU(msg, start_of_data)` builds: exactly those of `fieldsOf` (Pdu.lean), under the name `pdu`.
    The attributes `PDU.__init__` leaves at their default for this frame type are NOT bound: the agreement theorem therefore also
    shows that `_process_rx` never reads them. -/
def pduView (o : Option Decoded) (base : Env) : Env := fun k =>
  match k with
  | "pdu.type" => o.map (fun d => pint (typeCode d.pdu))
  | "pdu.can_dl" => o.map (fun d => pint d.canDl)
  | "pdu.rx_dl" => o.map (fun d => pint d.rxDl)
  | "pdu.length" => o.bind (fun d => pLen d.pdu)
  | "pdu.data" => o.bind (fun d => pData d.pdu)
  | "pdu.seqnum" => o.bind (fun d => pSeq d.pdu)
  | "pdu.escape_sequence" => o.bind (fun d => pEsc d.pdu)
  | "pdu.flow_status" => o.bind (fun d => pFs d.pdu)
  | "pdu.blocksize" => o.bind (fun d => pBs d.pdu)
  | "pdu.stmin" => o.bind (fun d => pStmin d.pdu)
  | _ => base k

/-- the decoding of the frame `_process_rx` is given -/
def rxDecoded (s : State) (m : CanMsg) : Option Decoded := decode m.data s.addr.rx.rxPrefixSize

/-- the environment `_process_rx(self, msg)` starts in -/
def rxEnvIn (s : State) (m : CanMsg) : Env := fun k =>
  match k with
  | "msg" => some (.meth "msg")
  | _ => pduView (rxDecoded s m) (rxEnv s) k

/-! ## 3. Primitive `Meths` entries, 4. the helper methods as environment transformers -/

def scListOf : Option PV → List Sc
  | some (.list xs) => xs
  | _ => []

/-- `self._trigger_error(isotp.errors.<c>(...))` -/
def trigEnv (c : String) (env : Env) : Env := env.set "#errors" (.list (scListOf (env "#errors") ++ [.enum "errors" c]))

/-- `self.rx_queue.put(b)` -/
def putEnv (b : Bytes) (env : Env) : Env :=
  (env.set "#delivered" (.list (scListOf (env "#delivered") ++ encodePayloads [b]))).set
    "#rx_queue" (.list (scListOf (env "#rx_queue") ++ encodePayloads [b]))

/-- `_empty_rx_buffer` -/
def emptyBufEnv (env : Env) : Env := env.set "self.rx_buffer" (.bytes [])
/-- `_stop_sending_flow_control` -/
def stopFcEnv (env : Env) : Env := (env.set "self.pending_flow_control_tx" (pbool false)).set "self.last_flow_control_frame" pnone
/-- `self.timer_rx_cf.stop()` -/
def timerStopEnv (env : Env) : Env := env.set "self.timer_rx_cf.start_time" pnone
/-- `self.timer_rx_cf.start()` on the timer `_start_rx_cf_timer` has just built -/
def timerStartEnv (now tCf : Nat) (env : Env) : Env :=
  (env.set "self.timer_rx_cf.start_time" (pint now)).set "self.timer_rx_cf.timeout" (pint tCf)
/-- `_start_rx_cf_timer` -/
def startCfEnv (now tCf : Nat) (env : Env) : Env := timerStartEnv now tCf (env.set "self.timer_rx_cf" (.meth "Timer"))
/-- `_request_tx_flowcontrol(status)` -/
def reqFcEnv (v : PV) (env : Env) : Env :=
  (env.set "self.pending_flow_control_tx" (pbool true)).set "self.pending_flowcontrol_status" v
/-- `_stop_receiving` -/
def stopRecvEnv (env : Env) : Env :=
  timerStopEnv (stopFcEnv (emptyBufEnv ((env.set "self.actual_rxdl" pnone).set "self.rx_state" (.sc (.enum "RxState" "IDLE")))))

/-- `self.rx_buffer.extend(d)` -/
def extendProc (args : List PV) (env : Env) : Except PErr Env :=
  match args, env "self.rx_buffer" with
  | [.bytes d], some (.bytes b) => .ok (env.set "self.rx_buffer" (.bytes (b ++ d)))
  | _, _ => .error (.unsupported "self.rx_buffer.extend")

def trigProc (args : List PV) (env : Env) : Except PErr Env :=
  match args with
  | [.sc (.enum "errors" c)] => .ok (trigEnv c env)
  | _ => .error (.unsupported "self._trigger_error")

def putProc (args : List PV) (env : Env) : Except PErr Env :=
  match args with
  | [.bytes b] => .ok (putEnv b env)
  | _ => .error (.unsupported "self.rx_queue.put")

def reqFcProc (args : List PV) (env : Env) : Except PErr Env :=
  match args with
  | [v] => .ok (reqFcEnv v env)
  | _ => .error (.unsupported "self._request_tx_flowcontrol")

def validRxDlInt (i : Int) : Bool :=
  i == 8 || i == 12 || i == 16 || i == 20 || i == 24 || i == 32 || i == 48 || i == 64

/-- `_start_reception_after_first_frame_if_valid(pdu)` followed by the binding of its result to `started`, as an environment
    transformer (the three cases of the model's `startReception`) -/
def startRecEnv (now tCf : Nat) (len rxDl : Int) (data : Bytes) (mx : Int) (env : Env) : Env :=
  let e1 := emptyBufEnv env
  if !validRxDlInt rxDl then
    (stopRecvEnv (trigEnv "InvalidCanFdFirstFrameRXDL" e1)).set "started" (pbool false)
  else
    let e2 := (e1.set "self.actual_rxdl" (pint rxDl)).set "started" (pbool false)
    if len > mx then
      ((((reqFcEnv (pint 2) (stopRecvEnv (trigEnv "FrameTooLongError" e2))).set "self.last_seqnum" (pint 0)).set
        "self.rx_block_counter" (pint 0))).set "started" (pbool false)
    else
      let e3 := (e2.set "self.rx_state" (.sc (.enum "RxState" "WAIT_CF"))).set "self.rx_frame_length" (pint len)
      let e4 := e3.set "self.rx_buffer" (.bytes ([] ++ data))
      let e5 := (startCfEnv now tCf (reqFcEnv (pint 0) e4)).set "started" (pbool true)
      ((e5.set "self.last_seqnum" (pint 0)).set "self.rx_block_counter" (pint 0)).set "started" (pbool true)

def startRecProc (now tCf : Nat) (args : List PV) (env : Env) : Except PErr Env :=
  match args, env "pdu.length", env "pdu.rx_dl", env "pdu.data", env "self.params.max_frame_size" with
  | [_], some (.sc (.py (.int len))), some (.sc (.py (.int rxDl))), some (.bytes data), some (.sc (.py (.int mx))) =>
    .ok (startRecEnv now tCf len rxDl data mx env)
  | _, _, _, _, _ => .error (.unsupported "self._start_reception_after_first_frame_if_valid")

/-- the timer object `self.timer_rx_cf`, read back from the environment -/
def envTimer (env : Env) : Option Timer :=
  match env "self.timer_rx_cf.start_time", env "self.timer_rx_cf.timeout" with
  | some (.sc (.py .none)), some (.sc (.py (.int t))) => some { start := none, timeout := t.toNat }
  | some (.sc (.py (.int a))), some (.sc (.py (.int t))) => some { start := some a.toNat, timeout := t.toNat }
  | _, _ => none

def timedOutFn (now : Nat) (env : Env) : Except PErr PV :=
  match envTimer env with
  | some t => .ok (pbool (t.timedOut now))
  | none => .error (.unsupported "self.timer_rx_cf.is_timed_out")

/-- `PDU(msg, start_of_data=start)`: the object `pdu` when `decode` accepts, `ValueError` when it rejects
    (`pdu_init_accepts` / `pdu_init_rejects`, Pdu.lean) -/
def pduFn (data : Bytes) (args : List PV) : Except PErr PV :=
  match args with
  | [_, .sc (.py (.int start))] =>
    if start < 0 then .error (.unsupported "negative start_of_data") else
    match decode data start.toNat with
    | some _ => .ok (.meth "pdu")
    | none => .error (.exc .ValueError)
  | _ => .error (.unsupported "PDU")

def bytearrayFn (args : List PV) : Except PErr PV :=
  match args with
  | [] => .ok (.bytes [])
  | [.bytes b] => .ok (.bytes b)
  | _ => .error (.unsupported "bytearray")

def copyFn (args : List PV) : Except PErr PV :=
  match args with
  | [x] => .ok x
  | _ => .error (.unsupported "copy")

def reportFn (args : List PV) : Except PErr PV :=
  match args with
  | [.sc a, .sc b] => .ok (.list [a, b])
  | _ => .error (.unsupported "ProcessRxReport")

/-- `float(x)` of an integer: the integer itself (`/` then makes the exact quotient) -/
def floatFn (args : List PV) : Except PErr PV :=
  match args with
  | [.sc (.py (.int i))] => .ok (pint i)
  | _ => .error (.unsupported "float")

/-- the `isotp.errors` classes the receive side instantiates -/
def errClass : String → Option String
  | "isotp.errors.InvalidCanDataError" => some "InvalidCanDataError"
  | "isotp.errors.MissingEscapeSequenceError" => some "MissingEscapeSequenceError"
  | "isotp.errors.UnexpectedConsecutiveFrameError" => some "UnexpectedConsecutiveFrameError"
  | "isotp.errors.ReceptionInterruptedWithSingleFrameError" => some "ReceptionInterruptedWithSingleFrameError"
  | "isotp.errors.ReceptionInterruptedWithFirstFrameError" => some "ReceptionInterruptedWithFirstFrameError"
  | "isotp.errors.ChangingInvalidRXDLError" => some "ChangingInvalidRXDLError"
  | "isotp.errors.WrongSequenceNumberError" => some "WrongSequenceNumberError"
  | "isotp.errors.InvalidCanFdFirstFrameRXDL" => some "InvalidCanFdFirstFrameRXDL"
  | "isotp.errors.FrameTooLongError" => some "FrameTooLongError"
  | "isotp.errors.ConsecutiveFrameTimeoutError" => some "ConsecutiveFrameTimeoutError"
  | _ => none

/-- The callees of the receive side.  `now` = the clock, `tCf` = `rx_consecutive_frame_timeout` converted to nanoseconds
    (the conversion `float(ms)/1000` seconds -> ns is the one the harness hands to the model, DESIGN 3.1: float arithmetic is
    outside the subset, so `Timer(timeout=...)` only yields the object and `start()` installs `now` and `tCf`),
    `start` = `address.get_rx_prefix_size()`, `data` = `msg.data`. -/
def rxMethsOf (now tCf start : Nat) (data : Bytes) : Meths where
  fn := fun name args env =>
    match name with
    | "PDU#start_of_data" => pduFn data args
    | "self.address.get_rx_prefix_size" => .ok (pint start)
    | "__format__" => .ok (.str "")
    | "str" => .ok (.str "")
    | "__caught__" => .ok (.str "")
    | "bytearray" => bytearrayFn args
    | "copy" => copyFn args
    | "self.ProcessRxReport#immediate_tx_required#frame_received" => reportFn args
    | "self.timer_rx_cf.is_timed_out" => timedOutFn now env
    | "float" => floatFn args
    | "Timer#timeout" => .ok (.meth "Timer")
    | n => match errClass n with
      | some c => .ok (.sc (.enum "errors" c))
      | none => .error (.unsupported ("call " ++ n))
  proc := fun name args env =>
    match name with
    | "self._trigger_error" => trigProc args env
    | "self.rx_queue.put" => putProc args env
    | "self.timer_rx_cf.stop" => .ok (timerStopEnv env)
    | "self.timer_rx_cf.start" => .ok (timerStartEnv now tCf env)
    | "self.rx_buffer.extend" => extendProc args env
    | "self._empty_rx_buffer" => .ok (emptyBufEnv env)
    | "self._stop_sending_flow_control" => .ok (stopFcEnv env)
    | "self._start_rx_cf_timer" => .ok (startCfEnv now tCf env)
    | "self._append_rx_data" => extendProc args env
    | "self._request_tx_flowcontrol" => reqFcProc args env
    | "self._stop_receiving" => .ok (stopRecvEnv env)
    | "started:=self._start_reception_after_first_frame_if_valid" => startRecProc now tCf args env
    | n => .error (.unsupported ("call " ++ n))

def rxMeths (s : State) (m : CanMsg) : Meths := rxMethsOf s.now s.cfg.tCf s.addr.rx.rxPrefixSize m.data

/-! ## Proof machinery (own namespace: generic names) -/
namespace Rx

/-- what the interpreter sees of the model state `s` (the mailbox object being `fc`) -/
structure Rep (s : State) (env : Env) : Prop where
  rxState : env "self.rx_state" = some (rxStPV s.rxState)
  rxFrameLen : env "self.rx_frame_length" = some (pint s.rxFrameLen)
  lastSeq : env "self.last_seqnum" = some (pint s.lastSeq)
  rxBlockCnt : env "self.rx_block_counter" = some (pint s.rxBlockCnt)
  actualRxdl : env "self.actual_rxdl" = some (optPV s.actualRxdl)
  rxBuf : env "self.rx_buffer" = some (.bytes s.rxBuf)
  pendingFc : env "self.pending_flow_control_tx" = some (pbool s.pendingFc)
  pfs : env "self.pending_flowcontrol_status" = s.pendingFcStatus.map (fun n => pint n)
  tStart : env "self.timer_rx_cf.start_time" = some (optPV s.timerCf.start)
  tTimeout : env "self.timer_rx_cf.timeout" = some (pint s.timerCf.timeout)
  blocksize : env "self.params.blocksize" = some (pint s.cfg.blocksize)
  maxFrameSize : env "self.params.max_frame_size" = some (pint s.cfg.maxFrameSize)
  cfTimeout : env "self.params.rx_consecutive_frame_timeout" = some (pint (s.cfg.tCf / 1000000))
  errors : env "#errors" = some (.list (errsOf s.log))
  delivered : env "#delivered" = some (.list (encodePayloads (deliveredOf s.log)))
  rxQueue : env "#rx_queue" = some (.list (encodePayloads s.rxQueue))
  mb : env "self.last_flow_control_frame" = some (mbVal "fc" s.lastFc)
  fcS : ∀ f, s.lastFc = some f → env "fc.flow_status" = some (pint f.status)
  fcB : ∀ f, s.lastFc = some f → env "fc.blocksize" = some (pint f.bs)
  fcM : ∀ f, s.lastFc = some f → env "fc.stmin" = some (pint f.stmin)

/-- the class constants the receive side reads -/
structure Consts (env : Env) : Prop where
  t0 : env "PDU.Type.SINGLE_FRAME" = some (pint 0)
  t1 : env "PDU.Type.FIRST_FRAME" = some (pint 1)
  t2 : env "PDU.Type.CONSECUTIVE_FRAME" = some (pint 2)
  t3 : env "PDU.Type.FLOW_CONTROL" = some (pint 3)
  idle : env "self.RxState.IDLE" = some (.sc (.enum "RxState" "IDLE"))
  waitCf : env "self.RxState.WAIT_CF" = some (.sc (.enum "RxState" "WAIT_CF"))
  cts : env "PDU.FlowStatus.ContinueToSend" = some (pint 0)
  ovf : env "PDU.FlowStatus.Overflow" = some (pint 2)

/-- the decoded frame, as the object `pdu` -/
structure PduCtx (d : Decoded) (env : Env) : Prop where
  type : env "pdu.type" = some (pint (typeCode d.pdu))
  canDl : env "pdu.can_dl" = some (pint d.canDl)
  rxDl : env "pdu.rx_dl" = some (pint d.rxDl)
  length : env "pdu.length" = pLen d.pdu
  data : env "pdu.data" = pData d.pdu
  seqnum : env "pdu.seqnum" = pSeq d.pdu
  esc : env "pdu.escape_sequence" = pEsc d.pdu
  fs : env "pdu.flow_status" = pFs d.pdu
  bs : env "pdu.blocksize" = pBs d.pdu
  stmin : env "pdu.stmin" = pStmin d.pdu

theorem rep_rxEnv (s : State) : Rep s (rxEnv s) := by
  refine ⟨rfl, rfl, rfl, rfl, rfl, rfl, rfl, rfl, rfl, rfl, rfl, rfl, rfl, rfl, rfl, rfl, rfl, ?_, ?_, ?_⟩ <;>
  · intro f hf
    show Option.map _ s.lastFc = _
    rw [hf]; rfl

theorem consts_rxEnv (s : State) : Consts (rxEnv s) := ⟨rfl, rfl, rfl, rfl, rfl, rfl, rfl, rfl⟩

theorem rep_rxEnvIn (s : State) (m : CanMsg) : Rep s (rxEnvIn s m) := by
  refine ⟨rfl, rfl, rfl, rfl, rfl, rfl, rfl, rfl, rfl, rfl, rfl, rfl, rfl, rfl, rfl, rfl, rfl, ?_, ?_, ?_⟩ <;>
  · intro f hf
    show Option.map _ s.lastFc = _
    rw [hf]; rfl

theorem consts_rxEnvIn (s : State) (m : CanMsg) : Consts (rxEnvIn s m) := ⟨rfl, rfl, rfl, rfl, rfl, rfl, rfl, rfl⟩

theorem pduCtx_rxEnvIn (s : State) (m : CanMsg) (d : Decoded) (h : rxDecoded s m = some d) : PduCtx d (rxEnvIn s m) := by
  have e : ∀ k, rxEnvIn s m k = (match k with | "msg" => some (.meth "msg") | _ => pduView (some d) (rxEnv s) k) := by
    intro k; unfold rxEnvIn; rw [h]
  constructor <;> (rw [e]; rfl)

/-! ### callee lookups -/

def builtinNames : List String :=
  ["len", "int", "bool", "min", "max", "bytes", "isinstance_int", "isinstance_bool", "isinstance_float", "isinstance_int_float"]

/-- a name that is not a builtin of the interpreter goes to `Meths` -/
theorem evalBuiltin_none (fn : String) (args : List PV) (h : fn ∉ builtinNames) : evalBuiltin fn args = none := by
  simp only [builtinNames, List.mem_cons, List.not_mem_nil, or_false, not_or] at h
  unfold evalBuiltin; split <;> simp_all

section lookups
variable (now tCf start : Nat) (data : Bytes)

theorem fn_lookups :
    (∀ args env, (rxMethsOf now tCf start data).fn "PDU#start_of_data" args env = pduFn data args) ∧
    (∀ args env, (rxMethsOf now tCf start data).fn "self.address.get_rx_prefix_size" args env = .ok (pint start)) ∧
    (∀ args env, (rxMethsOf now tCf start data).fn "__format__" args env = .ok (.str "")) ∧
    (∀ args env, (rxMethsOf now tCf start data).fn "str" args env = .ok (.str "")) ∧
    (∀ args env, (rxMethsOf now tCf start data).fn "__caught__" args env = .ok (.str "")) ∧
    (∀ args env, (rxMethsOf now tCf start data).fn "bytearray" args env = bytearrayFn args) ∧
    (∀ args env, (rxMethsOf now tCf start data).fn "copy" args env = copyFn args) ∧
    (∀ args env, (rxMethsOf now tCf start data).fn "self.ProcessRxReport#immediate_tx_required#frame_received" args env
        = reportFn args) ∧
    (∀ args env, (rxMethsOf now tCf start data).fn "self.timer_rx_cf.is_timed_out" args env = timedOutFn now env) ∧
    (∀ args env, (rxMethsOf now tCf start data).fn "float" args env = floatFn args) ∧
    (∀ args env, (rxMethsOf now tCf start data).fn "Timer#timeout" args env = .ok (.meth "Timer")) :=
  ⟨fun _ _ => rfl, fun _ _ => rfl, fun _ _ => rfl, fun _ _ => rfl, fun _ _ => rfl, fun _ _ => rfl, fun _ _ => rfl,
   fun _ _ => rfl, fun _ _ => rfl, fun _ _ => rfl, fun _ _ => rfl⟩

theorem err_lookups :
    (∀ args env, (rxMethsOf now tCf start data).fn "isotp.errors.InvalidCanDataError" args env
        = .ok (.sc (errSc .InvalidCanData))) ∧
    (∀ args env, (rxMethsOf now tCf start data).fn "isotp.errors.MissingEscapeSequenceError" args env
        = .ok (.sc (errSc .MissingEscapeSequence))) ∧
    (∀ args env, (rxMethsOf now tCf start data).fn "isotp.errors.UnexpectedConsecutiveFrameError" args env
        = .ok (.sc (errSc .UnexpectedConsecutiveFrame))) ∧
    (∀ args env, (rxMethsOf now tCf start data).fn "isotp.errors.ReceptionInterruptedWithSingleFrameError" args env
        = .ok (.sc (errSc .InterruptedWithSingleFrame))) ∧
    (∀ args env, (rxMethsOf now tCf start data).fn "isotp.errors.ReceptionInterruptedWithFirstFrameError" args env
        = .ok (.sc (errSc .InterruptedWithFirstFrame))) ∧
    (∀ args env, (rxMethsOf now tCf start data).fn "isotp.errors.ChangingInvalidRXDLError" args env
        = .ok (.sc (errSc .ChangingInvalidRXDL))) ∧
    (∀ args env, (rxMethsOf now tCf start data).fn "isotp.errors.WrongSequenceNumberError" args env
        = .ok (.sc (errSc .WrongSequenceNumber))) ∧
    (∀ args env, (rxMethsOf now tCf start data).fn "isotp.errors.InvalidCanFdFirstFrameRXDL" args env
        = .ok (.sc (errSc .InvalidCanFdFirstFrameRXDL))) ∧
    (∀ args env, (rxMethsOf now tCf start data).fn "isotp.errors.FrameTooLongError" args env
        = .ok (.sc (errSc .FrameTooLong))) ∧
    (∀ args env, (rxMethsOf now tCf start data).fn "isotp.errors.ConsecutiveFrameTimeoutError" args env
        = .ok (.sc (errSc .ConsecutiveFrameTimeout))) :=
  ⟨fun _ _ => rfl, fun _ _ => rfl, fun _ _ => rfl, fun _ _ => rfl, fun _ _ => rfl, fun _ _ => rfl, fun _ _ => rfl,
   fun _ _ => rfl, fun _ _ => rfl, fun _ _ => rfl⟩

theorem proc_lookups :
    (∀ args env, (rxMethsOf now tCf start data).proc "self._trigger_error" args env = trigProc args env) ∧
    (∀ args env, (rxMethsOf now tCf start data).proc "self.rx_queue.put" args env = putProc args env) ∧
    (∀ args env, (rxMethsOf now tCf start data).proc "self.timer_rx_cf.stop" args env = .ok (timerStopEnv env)) ∧
    (∀ args env, (rxMethsOf now tCf start data).proc "self.timer_rx_cf.start" args env = .ok (timerStartEnv now tCf env)) ∧
    (∀ args env, (rxMethsOf now tCf start data).proc "self.rx_buffer.extend" args env = extendProc args env) ∧
    (∀ args env, (rxMethsOf now tCf start data).proc "self._empty_rx_buffer" args env = .ok (emptyBufEnv env)) ∧
    (∀ args env, (rxMethsOf now tCf start data).proc "self._stop_sending_flow_control" args env = .ok (stopFcEnv env)) ∧
    (∀ args env, (rxMethsOf now tCf start data).proc "self._start_rx_cf_timer" args env = .ok (startCfEnv now tCf env)) ∧
    (∀ args env, (rxMethsOf now tCf start data).proc "self._append_rx_data" args env = extendProc args env) ∧
    (∀ args env, (rxMethsOf now tCf start data).proc "self._request_tx_flowcontrol" args env = reqFcProc args env) ∧
    (∀ args env, (rxMethsOf now tCf start data).proc "self._stop_receiving" args env = .ok (stopRecvEnv env)) ∧
    (∀ args env, (rxMethsOf now tCf start data).proc "started:=self._start_reception_after_first_frame_if_valid" args env
        = startRecProc now tCf args env) :=
  ⟨fun _ _ => rfl, fun _ _ => rfl, fun _ _ => rfl, fun _ _ => rfl, fun _ _ => rfl, fun _ _ => rfl, fun _ _ => rfl,
   fun _ _ => rfl, fun _ _ => rfl, fun _ _ => rfl, fun _ _ => rfl, fun _ _ => rfl⟩

end lookups

theorem trigProc_err (e : Err) (env : Env) : trigProc [.sc (errSc e)] env = .ok (trigEnv e.name env) := rfl
theorem putProc_bytes (b : Bytes) (env : Env) : putProc [.bytes b] env = .ok (putEnv b env) := rfl
theorem reqFcProc_one (v : PV) (env : Env) : reqFcProc [v] env = .ok (reqFcEnv v env) := rfl
theorem bytearrayFn_nil : bytearrayFn [] = .ok (.bytes []) := rfl
theorem bytearrayFn_bytes (b : Bytes) : bytearrayFn [.bytes b] = .ok (.bytes b) := rfl
theorem copyFn_one (x : PV) : copyFn [x] = .ok x := rfl
theorem reportFn_bools (a b : Bool) : reportFn [pbool a, pbool b] = .ok (.list [.py (.bool a), .py (.bool b)]) := rfl
theorem floatFn_int (i : Int) : floatFn [pint i] = .ok (pint i) := rfl
theorem scListOf_some (xs : List Sc) : scListOf (some (.list xs)) = xs := rfl
theorem extendProc_bytes (d b : Bytes) (env : Env) (h : env "self.rx_buffer" = some (.bytes b)) :
    extendProc [.bytes d] env = .ok (env.set "self.rx_buffer" (.bytes (b ++ d))) := by
  simp only [extendProc, h]

/-- symbolic evaluation: the interpreter's equations, the callee lookups, the value-level lemmas -/
macro "rx_eval" "[" ts:Lean.Parser.Tactic.simpLemma,* "]" : tactic =>
  `(tactic| simp (disch := decide) only [↓execBlock_single, execBlock, execStmt, eval, evalArgs, ok_bind, error_bind, set_apply,
      String.reduceEq, ↓reduceIte, evalBuiltin_none, fn_lookups, err_lookups, proc_lookups, trigProc_err, putProc_bytes,
      reqFcProc_one, bytearrayFn_nil, bytearrayFn_bytes, copyFn_one, reportFn_bools, floatFn_int, scListOf_some,
      truthy_pbool, evalCmp_eq, evalCmp_ne, pvEq_pint, pvEq_pbool, bi_len, ite_tt, ite_ff,
      stopRecvEnv, trigEnv, putEnv, emptyBufEnv, stopFcEnv, timerStopEnv, timerStartEnv, startCfEnv, reqFcEnv, $ts,*])

/-! ### 4a. the helpers: their own source = the environment transformer -/

section helpers
variable (now tCf start : Nat) (data : Bytes) (env : Env)

/-- `_empty_rx_buffer` -/
theorem empty_rx_buffer_src :
    runFn (rxMethsOf now tCf start data) env Src.TransportLayerLogic_p_empty_rx_buffer = .ok (pnone, emptyBufEnv env) := by
  simp only [runFn, Src.TransportLayerLogic_p_empty_rx_buffer]
  rx_eval []

/-- `_stop_sending_flow_control` -/
theorem stop_sending_flow_control_src :
    runFn (rxMethsOf now tCf start data) env Src.TransportLayerLogic_p_stop_sending_flow_control = .ok (pnone, stopFcEnv env) := by
  simp only [runFn, Src.TransportLayerLogic_p_stop_sending_flow_control]
  rx_eval []

/-- `_start_rx_cf_timer`: `Timer(timeout=float(ms)/1000)` then `start()` -/
theorem start_rx_cf_timer_src (ms : Nat) (h : env "self.params.rx_consecutive_frame_timeout" = some (pint ms)) :
    runFn (rxMethsOf now tCf start data) env Src.TransportLayerLogic_p_start_rx_cf_timer = .ok (pnone, startCfEnv now tCf env) := by
  simp only [runFn, Src.TransportLayerLogic_p_start_rx_cf_timer]
  rx_eval [h, truediv_ev]

/-- `_append_rx_data(data)`: the source run with its parameter bound, and the `Meths` entry the callers use; they differ only on
    the callee's parameter `data` -/
theorem append_rx_data_src (d b : Bytes) (h : env "self.rx_buffer" = some (.bytes b)) :
    runFn (rxMethsOf now tCf start data) (env.set "data" (.bytes d)) Src.TransportLayerLogic_p_append_rx_data
      = .ok (pnone, (env.set "data" (.bytes d)).set "self.rx_buffer" (.bytes (b ++ d))) ∧
    (rxMethsOf now tCf start data).proc "self._append_rx_data" [.bytes d] env
      = .ok (env.set "self.rx_buffer" (.bytes (b ++ d))) ∧
    ∀ k, k ≠ "data" →
      ((env.set "data" (.bytes d)).set "self.rx_buffer" (.bytes (b ++ d))) k = (env.set "self.rx_buffer" (.bytes (b ++ d))) k := by
  refine ⟨?_, ?_, ?_⟩
  · simp only [runFn, Src.TransportLayerLogic_p_append_rx_data]
    rx_eval [extendProc, h]
  · rx_eval [extendProc, h]
  · intro k hk
    simp only [set_apply, hk, if_false]

/-- `_request_tx_flowcontrol(status)`: same remark (parameter `status`) -/
theorem request_tx_flowcontrol_src (v : PV) :
    runFn (rxMethsOf now tCf start data) (env.set "status" v) Src.TransportLayerLogic_p_request_tx_flowcontrol
      = .ok (pnone, reqFcEnv v (env.set "status" v)) ∧
    (rxMethsOf now tCf start data).proc "self._request_tx_flowcontrol" [v] env = .ok (reqFcEnv v env) ∧
    ∀ k, k ≠ "status" → reqFcEnv v (env.set "status" v) k = reqFcEnv v env k := by
  refine ⟨?_, ?_, ?_⟩
  · simp only [runFn, Src.TransportLayerLogic_p_request_tx_flowcontrol]
    rx_eval []
  · rx_eval []
  · intro k hk
    simp only [reqFcEnv, set_apply, hk, if_false]

/-- `_stop_receiving` (calls `_empty_rx_buffer`, `_stop_sending_flow_control`, `timer_rx_cf.stop`) -/
theorem stop_receiving_src (hI : env "self.RxState.IDLE" = some (.sc (.enum "RxState" "IDLE"))) :
    runFn (rxMethsOf now tCf start data) env Src.TransportLayerLogic_p_stop_receiving = .ok (pnone, stopRecvEnv env) := by
  simp only [runFn, Src.TransportLayerLogic_p_stop_receiving]
  rx_eval [hI]

theorem lst_rxdl (M : Meths) (env : Env) :
    eval M env (.lst (.cons (.int (8)) (.cons (.int (12)) (.cons (.int (16)) (.cons (.int (20)) (.cons (.int (24))
      (.cons (.int (32)) (.cons (.int (48)) (.cons (.int (64)) .nil)))))))))
      = .ok (.list [.py (.int 8), .py (.int 12), .py (.int 16), .py (.int 20), .py (.int 24), .py (.int 32), .py (.int 48),
                    .py (.int 64)]) := rfl

theorem notIn_rxdl (i : Int) :
    evalCmp .notIn (pint i) (.list [.py (.int 8), .py (.int 12), .py (.int 16), .py (.int 20), .py (.int 24), .py (.int 32),
      .py (.int 48), .py (.int 64)]) = .ok (pbool (!validRxDlInt i)) := by
  simp [validRxDlInt, Bool.or_assoc]

theorem pint_bne_pnone (i : Int) : (pint i != pnone) = true := by simp [pint, pnone]
theorem bytes_bne_pnone' (b : Bytes) : (PV.bytes b != pnone) = true := by simp [pnone]

theorem startRecProc_eq (v : PV) (len rxDl mx : Int) (dat : Bytes)
    (hl : env "pdu.length" = some (pint len)) (hr : env "pdu.rx_dl" = some (pint rxDl))
    (hd : env "pdu.data" = some (.bytes dat)) (hm : env "self.params.max_frame_size" = some (pint mx)) :
    startRecProc now tCf [v] env = .ok (startRecEnv now tCf len rxDl dat mx env) := by
  simp only [startRecProc, hl, hr, hd, hm]

/-- `_start_reception_after_first_frame_if_valid(pdu)`: its source returns `b` in the environment `envR`, and the entry
    `started:=self._start_reception_after_first_frame_if_valid` of the callers is `envR` with `started := b` -/
theorem start_reception_src (hC : Consts env) (len rxDl mx : Int) (dat : Bytes)
    (hl : env "pdu.length" = some (pint len)) (hr : env "pdu.rx_dl" = some (pint rxDl))
    (hd : env "pdu.data" = some (.bytes dat)) (hm : env "self.params.max_frame_size" = some (pint mx)) :
    ∃ envR b, runFn (rxMethsOf now tCf start data) env Src.TransportLayerLogic_p_start_reception_after_first_frame_if_valid
        = .ok (pbool b, envR) ∧
      startRecProc now tCf [.meth "pdu"] env = .ok (envR.set "started" (pbool b)) := by
  rw [startRecProc_eq now tCf env _ len rxDl mx dat hl hr hd hm]
  simp only [runFn, Src.TransportLayerLogic_p_start_reception_after_first_frame_if_valid]
  cases hv : validRxDlInt rxDl
  · rx_eval [↓lst_rxdl, hl, hr, hd, hm, notIn_rxdl, pint_bne_pnone, hv, hC.idle, Bool.not_false]
    exact ⟨_, _, rfl, by simp only [startRecEnv, hv]; rfl⟩
  · by_cases hgt : mx < len
    · rx_eval [↓lst_rxdl, hl, hr, hd, hm, notIn_rxdl, pint_bne_pnone, hv, hC.idle, hC.ovf, cmp_gt_pint, hgt,
        Bool.not_true, decide_true]
      exact ⟨_, _, rfl, by simp only [startRecEnv, hv, hgt]; rfl⟩
    · rx_eval [↓lst_rxdl, hl, hr, hd, hm, notIn_rxdl, pint_bne_pnone, hv, hC.waitCf, hC.cts, cmp_gt_pint, hgt,
        Bool.not_true, decide_false, extendProc]
      exact ⟨_, _, rfl, by simp only [startRecEnv, hv, hgt]; rfl⟩

end helpers

/-! ### 4b. the environment transformers = the model functions -/

/-- `Rep s' env'` for an `env'` built from `env` by `Env.set`s, given `h : Rep s env`: one lookup per attribute -/
macro "rep_tac" h:ident : tactic =>
  `(tactic| (constructor <;>
      (try simp only [stopRecvEnv, trigEnv, putEnv, emptyBufEnv, stopFcEnv, timerStopEnv, timerStartEnv, startCfEnv, reqFcEnv,
        set_apply, String.reduceEq, ↓reduceIte, ($h).errors, ($h).delivered, ($h).rxQueue, scListOf_some]) <;>
      first
        | rfl
        | exact ($h).rxState | exact ($h).rxFrameLen | exact ($h).lastSeq | exact ($h).rxBlockCnt | exact ($h).actualRxdl
        | exact ($h).rxBuf | exact ($h).pendingFc | exact ($h).pfs | exact ($h).tStart | exact ($h).tTimeout
        | exact ($h).blocksize | exact ($h).maxFrameSize | exact ($h).cfTimeout | exact ($h).mb
        | exact ($h).fcS | exact ($h).fcB | exact ($h).fcM
        | (intro f hf; cases hf)))

/-- the same for the read-only parts -/
macro "consts_tac" h:ident : tactic =>
  `(tactic| (constructor <;>
      (try simp only [stopRecvEnv, trigEnv, putEnv, emptyBufEnv, stopFcEnv, timerStopEnv, timerStartEnv, startCfEnv, reqFcEnv,
        set_apply, String.reduceEq, ↓reduceIte]) <;>
      first
        | exact ($h).t0 | exact ($h).t1 | exact ($h).t2 | exact ($h).t3 | exact ($h).idle | exact ($h).waitCf
        | exact ($h).cts | exact ($h).ovf))

macro "pdu_tac" h:ident : tactic =>
  `(tactic| (constructor <;>
      (try simp only [stopRecvEnv, trigEnv, putEnv, emptyBufEnv, stopFcEnv, timerStopEnv, timerStartEnv, startCfEnv, reqFcEnv,
        set_apply, String.reduceEq, ↓reduceIte]) <;>
      first
        | exact ($h).type | exact ($h).canDl | exact ($h).rxDl | exact ($h).length | exact ($h).data | exact ($h).seqnum
        | exact ($h).esc | exact ($h).fs | exact ($h).bs | exact ($h).stmin))

section transformers
variable {s : State} {env : Env}

theorem errsOf_error (s : State) (e : Err) : errsOf (s.error e).log = errsOf s.log ++ [errSc e] := rfl
theorem deliveredOf_error (s : State) (e : Err) : deliveredOf (s.error e).log = deliveredOf s.log := rfl
theorem errsOf_deliver (s : State) (p : Bytes) : errsOf (s.deliver p).log = errsOf s.log := rfl
theorem deliveredOf_deliver (s : State) (p : Bytes) : deliveredOf (s.deliver p).log = deliveredOf s.log ++ [p] := rfl

theorem rxQueue_deliver (s : State) (p : Bytes) : (s.deliver p).rxQueue = s.rxQueue ++ [p] := rfl

theorem Rep.trig (h : Rep s env) (e : Err) : Rep (s.error e) (trigEnv e.name env) := by rep_tac h
theorem Rep.put (h : Rep s env) (p : Bytes) : Rep (s.deliver p) (putEnv p env) := by
  constructor <;>
    (try simp only [putEnv, set_apply, String.reduceEq, ↓reduceIte, h.delivered, h.rxQueue, scListOf_some,
      deliveredOf_deliver, rxQueue_deliver, encodePayloads_append])
  all_goals first
    | rfl
    | exact h.rxState | exact h.rxFrameLen | exact h.lastSeq | exact h.rxBlockCnt | exact h.actualRxdl
    | exact h.rxBuf | exact h.pendingFc | exact h.pfs | exact h.tStart | exact h.tTimeout
    | exact h.blocksize | exact h.maxFrameSize | exact h.cfTimeout | exact h.mb | exact h.errors
    | exact h.fcS | exact h.fcB | exact h.fcM
theorem Rep.emptyBuf (h : Rep s env) : Rep { s with rxBuf := [] } (emptyBufEnv env) := by rep_tac h
theorem Rep.stopFc (h : Rep s env) : Rep { s with pendingFc := false, lastFc := none } (stopFcEnv env) := by rep_tac h
theorem Rep.timerStop (h : Rep s env) : Rep { s with timerCf := s.timerCf.stop } (timerStopEnv env) := by rep_tac h
theorem Rep.startCf (h : Rep s env) : Rep s.startRxCfTimer (startCfEnv s.now s.cfg.tCf env) := by rep_tac h
theorem Rep.extend (h : Rep s env) (d : Bytes) :
    Rep { s with rxBuf := s.rxBuf ++ d } (env.set "self.rx_buffer" (.bytes (s.rxBuf ++ d))) := by rep_tac h
theorem Rep.reqFc (h : Rep s env) (st : Nat) : Rep (s.requestFc st) (reqFcEnv (pint st) env) := by rep_tac h
theorem Rep.stopRecv (h : Rep s env) : Rep s.stopReceiving (stopRecvEnv env) := by rep_tac h


theorem validRxDlInt_nat (n : Nat) : validRxDlInt (n : Int) = validTxDl n := by
  unfold validRxDlInt validTxDl
  rw [Bool.eq_iff_iff]
  simp only [Bool.or_eq_true, beq_iff_eq, decide_eq_true_eq]
  omega

/-- the keys `_start_reception_after_first_frame_if_valid` may write -/
def startRecKeys : List String :=
  ["self.rx_buffer", "#errors", "self.actual_rxdl", "self.rx_state", "self.pending_flow_control_tx",
   "self.last_flow_control_frame", "self.timer_rx_cf.start_time", "started", "self.pending_flowcontrol_status",
   "self.last_seqnum", "self.rx_block_counter", "self.rx_frame_length", "self.timer_rx_cf", "self.timer_rx_cf.timeout"]

theorem startRecEnv_frame (now tCf : Nat) (len rxDl : Int) (dat : Bytes) (mx : Int) (env : Env) (k : String)
    (hk : k ∉ startRecKeys) : startRecEnv now tCf len rxDl dat mx env k = env k := by
  simp only [startRecKeys, List.mem_cons, List.not_mem_nil, or_false, not_or] at hk
  obtain ⟨h1, h2, h3, h4, h5, h6, h7, h8, h9, h10, h11, h12, h13, h14⟩ := hk
  unfold startRecEnv
  simp only [stopRecvEnv, trigEnv, emptyBufEnv, stopFcEnv, timerStopEnv, timerStartEnv, startCfEnv, reqFcEnv]
  split
  · simp only [set_apply, *, if_false]
  · split <;> simp only [set_apply, *, if_false]

/-- `_start_reception_after_first_frame_if_valid` = `State.startReception`, state and result -/
theorem Rep.startRec (h : Rep s env) (len rxDl : Nat) (dat : Bytes) :
    Rep (s.startReception len dat rxDl).1 (startRecEnv s.now s.cfg.tCf len rxDl dat s.cfg.maxFrameSize env) ∧
    startRecEnv s.now s.cfg.tCf len rxDl dat s.cfg.maxFrameSize env "started"
      = some (pbool (s.startReception len dat rxDl).2) := by
  unfold startRecEnv State.startReception
  simp only [validRxDlInt_nat]
  cases hv : validTxDl rxDl
  · simp only [Bool.not_false, if_true]
    exact ⟨by rep_tac h, rfl⟩
  · by_cases hgt : len > s.cfg.maxFrameSize
    · have hgt' : (len : Int) > (s.cfg.maxFrameSize : Int) := by omega
      simp only [Bool.not_true, Bool.false_eq_true, if_false, hgt, hgt', if_true]
      exact ⟨by rep_tac h, rfl⟩
    · have hgt' : ¬ (len : Int) > (s.cfg.maxFrameSize : Int) := by omega
      simp only [Bool.not_true, Bool.false_eq_true, if_false, hgt, hgt']
      exact ⟨by rep_tac h, rfl⟩

end transformers

/-! ## 5. `_process_rx`, cut along its structure -/

abbrev body : PBlock := Src.TransportLayerLogic_p_process_rx
/-- `try: pdu = PDU(msg, start_of_data=...) except Exception as e: ...; return` -/
def st0 : PStmt := bhead (bdrop 0 body)
/-- `if pdu.type == FLOW_CONTROL: self.last_flow_control_frame = pdu; return` -/
def st1 : PStmt := bhead (bdrop 1 body)
/-- `frame_complete = False` -/
def st2 : PStmt := bhead (bdrop 2 body)
/-- `if pdu.type == SINGLE_FRAME: if pdu.can_dl > 8 and pdu.escape_sequence == False: ...; return` -/
def st3 : PStmt := bhead (bdrop 3 body)
/-- `immediate_tx_msg_required = False` -/
def st4 : PStmt := bhead (bdrop 4 body)
/-- the state machine: `if self.rx_state == IDLE: ... elif self.rx_state == WAIT_CF: ...` -/
def st5 : PStmt := bhead (bdrop 5 body)
/-- `if self.pending_flow_control_tx: immediate_tx_msg_required = True` -/
def st6 : PStmt := bhead (bdrop 6 body)
/-- `return self.ProcessRxReport(immediate_tx_required=immediate_tx_msg_required, frame_received=frame_complete)` -/
def st7 : PStmt := bhead (bdrop 7 body)

theorem body_shape : body =
    .cons st0 (.cons st1 (.cons st2 (.cons st3 (.cons st4 (.cons st5 (.cons st6 (.cons st7 .nil))))))) := rfl

/-- the IDLE branch -/
def idleBlk : PBlock := thenOf st5
/-- the WAIT_CF branch -/
def waitStmt : PStmt := bhead (elseOf st5)
def waitBlk : PBlock := thenOf waitStmt

theorem st5_shape : st5 =
    .ite (.cmp .eq (.var "self.rx_state") (.var "self.RxState.IDLE")) idleBlk
      (.cons (.ite (.cmp .eq (.var "self.rx_state") (.var "self.RxState.WAIT_CF")) waitBlk .nil) .nil) := rfl

theorem pvEq_rxSt_idle (r : RxSt) : pvEq (rxStPV r) (.sc (.enum "RxState" "IDLE")) = decide (r = .idle) := by
  cases r <;> rfl
theorem pvEq_rxSt_waitCf (r : RxSt) : pvEq (rxStPV r) (.sc (.enum "RxState" "WAIT_CF")) = decide (r = .waitCf) := by
  cases r <;> rfl

section sm
variable (now tCf start : Nat) (data : Bytes)
local notation "M" => rxMethsOf now tCf start data

/-- statements 6-7: the pending Flow Control request and the report -/
theorem tail_run {s : State} {env : Env} {fc itx : Bool} (hR : Rep s env)
    (hfc : env "frame_complete" = some (pbool fc)) (hitx : env "immediate_tx_msg_required" = some (pbool itx)) :
    ∃ env', execBlock M env (.cons st6 (.cons st7 .nil))
        = .ok (.returned (.list [.py (.bool (itx || s.pendingFc)), .py (.bool fc)]) env') ∧ Rep s env' := by
  simp only [st6, st7, bhead, bdrop, body, Src.TransportLayerLogic_p_process_rx]
  cases hp : s.pendingFc
  · rx_eval [hR.pendingFc, hp, hfc, hitx, Bool.or_false]
    exact ⟨_, rfl, hR⟩
  · rx_eval [hR.pendingFc, hp, hfc, hitx, Bool.or_true]
    exact ⟨_, rfl, by rep_tac hR⟩

end sm


def repKeys : List String :=
  ["self.rx_state", "self.rx_frame_length", "self.last_seqnum", "self.rx_block_counter", "self.actual_rxdl", "self.rx_buffer",
   "self.pending_flow_control_tx", "self.pending_flowcontrol_status", "self.timer_rx_cf.start_time", "self.timer_rx_cf.timeout",
   "self.params.blocksize", "self.params.max_frame_size", "self.params.rx_consecutive_frame_timeout", "#errors", "#delivered",
   "#rx_queue", "self.last_flow_control_frame", "fc.flow_status", "fc.blocksize", "fc.stmin"]

/-- writing a local variable (any other name) does not change the object -/
theorem Rep.setLocal {s : State} {env : Env} (h : Rep s env) (k : String) (v : PV) (hk : k ∉ repKeys) : Rep s (env.set k v) := by
  simp only [repKeys, List.mem_cons, List.not_mem_nil, or_false, not_or] at hk
  obtain ⟨h1, h2, h3, h4, h5, h6, h7, h8, h9, h10, h11, h12, h13, h14, h15, h16, h17, h18, h19, h20⟩ := hk
  cases h
  constructor <;> simp only [set_apply, Ne.symm h1, Ne.symm h2, Ne.symm h3, Ne.symm h4, Ne.symm h5, Ne.symm h6, Ne.symm h7,
    Ne.symm h8, Ne.symm h9, Ne.symm h10, Ne.symm h11, Ne.symm h12, Ne.symm h13, Ne.symm h14, Ne.symm h15, Ne.symm h16,
    Ne.symm h17, Ne.symm h18, Ne.symm h19, Ne.symm h20, if_false] <;> assumption

theorem pvEq_enum_self (c m : String) : pvEq (.sc (.enum c m)) (.sc (.enum c m)) = true := by simp
theorem pvEq_idle_wait : pvEq (.sc (.enum "RxState" "WAIT_CF")) (.sc (.enum "RxState" "IDLE")) = false := by decide
theorem pvEq_wait_idle : pvEq (.sc (.enum "RxState" "IDLE")) (.sc (.enum "RxState" "WAIT_CF")) = false := by decide

/-- a lookup of a local variable through a chain of `Env.set`s -/
macro "loc_tac" : tactic =>
  `(tactic| (simp only [set_apply, String.reduceEq, ↓reduceIte] <;> try assumption))



/-- `if pdu.type == SF: .. elif pdu.type == FF: .. elif pdu.type == CF: ..` of the IDLE branch -/
def idleDispatch : PStmt := bhead (bdrop 2 idleBlk)
def sfI : PBlock := thenOf idleDispatch
def ffI : PBlock := thenOf (bhead (elseOf idleDispatch))
def cfI : PBlock := thenOf (bhead (elseOf (bhead (elseOf idleDispatch))))
/-- the same of the WAIT_CF branch -/
def waitDispatch : PStmt := bhead waitBlk
def sfW : PBlock := thenOf waitDispatch
def ffW : PBlock := thenOf (bhead (elseOf waitDispatch))
def cfW : PBlock := thenOf (bhead (elseOf (bhead (elseOf waitDispatch))))
/-- `if pdu.seqnum == expected_seqnum: cfOk else: cfBad` -/
def seqStmt : PStmt := bhead (bdrop 1 cfW)
def cfOk : PBlock := thenOf seqStmt
def cfBad : PBlock := elseOf seqStmt
/-- `if pdu.rx_dl != self.actual_rxdl and pdu.rx_dl < bytes_to_receive: ...; return` -/
def chgStmt : PStmt := bhead (bdrop 1 cfOk)
/-- `if len(self.rx_buffer) >= self.rx_frame_length: complBlk else: moreBlk` -/
def complStmt : PStmt := bhead (bdrop 5 cfOk)
def complBlk : PBlock := thenOf complStmt
def moreBlk : PBlock := elseOf complStmt

def typeIs (c : String) : PExpr := .cmp .eq (.var "pdu.type") (.var c)
def dispatch3 (bs bf bc : PBlock) : PStmt :=
  .ite (typeIs "PDU.Type.SINGLE_FRAME") bs (.cons (.ite (typeIs "PDU.Type.FIRST_FRAME") bf
    (.cons (.ite (typeIs "PDU.Type.CONSECUTIVE_FRAME") bc .nil) .nil)) .nil)

theorem idleBlk_shape : idleBlk =
    .cons (.assign "self.rx_frame_length" (.int (0))) (.cons (.expr (.call "self.timer_rx_cf.stop" .nil))
      (.cons (dispatch3 sfI ffI cfI) .nil)) := rfl
theorem waitBlk_shape : waitBlk = .cons (dispatch3 sfW ffW cfW) .nil := rfl
theorem cfW_shape : cfW =
    .cons (.assign "expected_seqnum" (.binop .band (.binop .add (.var "self.last_seqnum") (.int (1))) (.int (15))))
      (.cons (.ite (.cmp .eq (.var "pdu.seqnum") (.var "expected_seqnum")) cfOk cfBad) .nil) := rfl
theorem cfOk_shape : cfOk =
    .cons (.assign "bytes_to_receive" (.binop .sub (.var "self.rx_frame_length") (.call "len" (.cons (.var "self.rx_buffer") .nil))))
    (.cons chgStmt
    (.cons (.expr (.call "self._start_rx_cf_timer" .nil))
    (.cons (.assign "self.last_seqnum" (.var "pdu.seqnum"))
    (.cons (.expr (.call "self._append_rx_data" (.cons (.sliceTo (.var "pdu.data") (.var "bytes_to_receive")) .nil)))
    (.cons (.ite (.cmp .ge (.call "len" (.cons (.var "self.rx_buffer") .nil)) (.var "self.rx_frame_length")) complBlk moreBlk)
    .nil))))) := rfl

/-! generic stepping lemmas (the blocks are variables: `simp` never looks into a branch that is not taken) -/

theorem exec_ite (M : Meths) (env : Env) (c : PExpr) (t e : PBlock) (b : Bool) (hc : eval M env c = .ok (pbool b)) :
    execStmt M env (.ite c t e) = execBlock M env (if b then t else e) := by
  cases b <;> simp only [execStmt, hc, ok_bind, truthy_pbool, ite_ff] <;> rfl

theorem block_next (M : Meths) (env env' : Env) (s : PStmt) (r : PBlock) (h : execStmt M env s = .ok (.next env')) :
    execBlock M env (.cons s r) = execBlock M env' r := by
  simp only [execBlock, h, ok_bind]

theorem block_ret (M : Meths) (env env' : Env) (v : PV) (s : PStmt) (r : PBlock) (h : execStmt M env s = .ok (.returned v env')) :
    execBlock M env (.cons s r) = .ok (.returned v env') := by
  simp only [execBlock, h, ok_bind]

theorem block_nil (M : Meths) (env : Env) : execBlock M env .nil = .ok (.next env) := rfl

/-- the three-way dispatch on the frame type -/
theorem dispatch3_run (M : Meths) (env : Env) (hC : Consts env) (bs bf bc : PBlock) (k : Nat)
    (ht : env "pdu.type" = some (pint k)) :
    execStmt M env (dispatch3 bs bf bc) =
      if k = 0 then execBlock M env bs else if k = 1 then execBlock M env bf else if k = 2 then execBlock M env bc
      else .ok (.next env) := by
  have e0 : eval M env (typeIs "PDU.Type.SINGLE_FRAME") = .ok (pbool (decide (k = 0))) := by
    simp [typeIs, eval, ht, hC.t0]
    rw [Bool.eq_iff_iff]; simp only [beq_iff_eq, decide_eq_true_eq]; omega
  have e1 : eval M env (typeIs "PDU.Type.FIRST_FRAME") = .ok (pbool (decide (k = 1))) := by
    simp [typeIs, eval, ht, hC.t1]
    rw [Bool.eq_iff_iff]; simp only [beq_iff_eq, decide_eq_true_eq]; omega
  have e2 : eval M env (typeIs "PDU.Type.CONSECUTIVE_FRAME") = .ok (pbool (decide (k = 2))) := by
    simp [typeIs, eval, ht, hC.t2]
    rw [Bool.eq_iff_iff]; simp only [beq_iff_eq, decide_eq_true_eq]; omega
  unfold dispatch3
  rw [exec_ite M env _ _ _ _ e0]
  by_cases h0 : k = 0
  · simp only [h0, decide_true, if_true]
  · simp only [h0, decide_false, if_false, Bool.false_eq_true]
    rw [execBlock_single, exec_ite M env _ _ _ _ e1]
    by_cases h1 : k = 1
    · simp only [h1, decide_true, if_true]
    · simp only [h1, decide_false, if_false, Bool.false_eq_true]
      rw [execBlock_single, exec_ite M env _ _ _ _ e2]
      by_cases h2 : k = 2
      · simp only [h2, decide_true, if_true]
      · simp only [h2, decide_false, if_false, Bool.false_eq_true]
        rfl



section sm2
variable (start : Nat) (data : Bytes)

/-- environment after `self.rx_frame_length = 0; self.timer_rx_cf.stop()` -/
def idleEnv (env : Env) : Env := (env.set "self.rx_frame_length" (pint 0)).set "self.timer_rx_cf.start_time" pnone
/-- the model state at the same point -/
def idleSt (s : State) : State := { s with rxFrameLen := 0, timerCf := s.timerCf.stop }

theorem rep_idle {s : State} {env : Env} (hR : Rep s env) : Rep (idleSt s) (idleEnv env) := by
  unfold idleSt idleEnv; rep_tac hR
theorem consts_idle {env : Env} (hC : Consts env) : Consts (idleEnv env) := by unfold idleEnv; consts_tac hC
theorem pduCtx_idle {d : Decoded} {env : Env} (hP : PduCtx d env) : PduCtx d (idleEnv env) := by unfold idleEnv; pdu_tac hP

/-- IDLE: the two statements before the dispatch on the frame type -/
theorem idle_prefix (M : Meths) {s : State} {env : Env} (hM : ∀ args e, M.proc "self.timer_rx_cf.stop" args e = .ok (timerStopEnv e))
    (hR : Rep s env) (hC : Consts env) (hst : s.rxState = .idle) :
    execStmt M env st5 = execStmt M (idleEnv env) (dispatch3 sfI ffI cfI) := by
  have hrs : env "self.rx_state" = some (.sc (.enum "RxState" "IDLE")) := by rw [hR.rxState, hst]; rfl
  have hc : eval M env (.cmp .eq (.var "self.rx_state") (.var "self.RxState.IDLE")) = .ok (pbool true) := by
    simp only [eval, hrs, hC.idle, ok_bind, evalCmp_eq, pvEq_enum_self]
  rw [st5_shape, exec_ite M env _ _ _ _ hc]
  simp only [if_true]
  rw [idleBlk_shape, block_next M env _ _ _ rfl]
  have h2 : execStmt M (env.set "self.rx_frame_length" (pint 0)) (.expr (.call "self.timer_rx_cf.stop" .nil))
      = .ok (.next (idleEnv env)) := by
    simp (disch := decide) only [execStmt, evalArgs, ok_bind, evalBuiltin_none, hM, timerStopEnv, idleEnv]
  rw [block_next M _ _ _ _ h2, execBlock_single]

/-- WAIT_CF: straight to the dispatch on the frame type -/
theorem wait_prefix (M : Meths) {s : State} {env : Env} (hR : Rep s env) (hC : Consts env) (hst : s.rxState = .waitCf) :
    execStmt M env st5 = execStmt M env (dispatch3 sfW ffW cfW) := by
  have hrs : env "self.rx_state" = some (.sc (.enum "RxState" "WAIT_CF")) := by rw [hR.rxState, hst]; rfl
  have hc : eval M env (.cmp .eq (.var "self.rx_state") (.var "self.RxState.IDLE")) = .ok (pbool false) := by
    simp only [eval, hrs, hC.idle, ok_bind, evalCmp_eq, pvEq_idle_wait]
  have hc2 : eval M env (.cmp .eq (.var "self.rx_state") (.var "self.RxState.WAIT_CF")) = .ok (pbool true) := by
    simp only [eval, hrs, hC.waitCf, ok_bind, evalCmp_eq, pvEq_enum_self]
  rw [st5_shape, exec_ite M env _ _ _ _ hc]
  simp only [Bool.false_eq_true, if_false]
  rw [execBlock_single, exec_ite M env _ _ _ _ hc2]
  simp only [if_true]
  rw [waitBlk_shape, execBlock_single]


local notation "Ms" s:max => rxMethsOf (State.now s) (Cfg.tCf (State.cfg s)) start data

theorem stop_lookup (now tCf : Nat) : ∀ args e, (rxMethsOf now tCf start data).proc "self.timer_rx_cf.stop" args e = .ok (timerStopEnv e) :=
  (proc_lookups now tCf start data).2.2.1

/-- what the state machine does to the object and the two result locals -/
def SmOut (M : Meths) (env : Env) (s1 : State) (fc itx : Bool) : Prop :=
  ∃ env', execStmt M env st5 = .ok (.next env') ∧ Rep s1 env' ∧
    env' "frame_complete" = some (pbool fc) ∧ env' "immediate_tx_msg_required" = some (pbool itx)

variable {s : State} {d : Decoded} {env : Env}

/-- IDLE, Single Frame: delivered -/
theorem sm_sf_idle (hR : Rep s env) (hC : Consts env) (hP : PduCtx d env)
    (len : Nat) (dat : Bytes) (esc : Bool) (hd : d.pdu = .sf len dat esc) (hst : s.rxState = .idle)
    (hitx : env "immediate_tx_msg_required" = some (pbool false)) :
    SmOut (Ms s) env ((idleSt s).deliver dat) true false := by
  have ht : idleEnv env "pdu.type" = some (pint (0 : Nat)) := by rw [(pduCtx_idle hP).type, hd]; rfl
  have hdat : idleEnv env "pdu.data" = some (.bytes dat) := by rw [(pduCtx_idle hP).data, hd]; rfl
  unfold SmOut
  rw [idle_prefix _ (stop_lookup start data _ _) hR hC hst, dispatch3_run _ _ (consts_idle hC) _ _ _ 0 ht]
  simp only [if_true, sfI, thenOf, idleDispatch, bhead, bdrop, idleBlk, st5, body, Src.TransportLayerLogic_p_process_rx]
  rx_eval [hdat, bytes_bne_pnone']
  refine ⟨_, rfl, ?_, ?_, ?_⟩
  · exact ((rep_idle hR).setLocal "frame_complete" _ (by decide)).put dat
  · loc_tac
  · simp only [idleEnv]; loc_tac

/-- IDLE, Consecutive Frame: `UnexpectedConsecutiveFrameError` -/
theorem sm_cf_idle (hR : Rep s env) (hC : Consts env) (hP : PduCtx d env)
    (sn : Nat) (dat : Bytes) (hd : d.pdu = .cf sn dat) (hst : s.rxState = .idle)
    (hfc : env "frame_complete" = some (pbool false)) (hitx : env "immediate_tx_msg_required" = some (pbool false)) :
    SmOut (Ms s) env ((idleSt s).error .UnexpectedConsecutiveFrame) false false := by
  have ht : idleEnv env "pdu.type" = some (pint (2 : Nat)) := by rw [(pduCtx_idle hP).type, hd]; rfl
  unfold SmOut
  rw [idle_prefix _ (stop_lookup start data _ _) hR hC hst, dispatch3_run _ _ (consts_idle hC) _ _ _ 2 ht]
  simp only [Nat.reduceEqDiff, if_false, if_true, cfI, thenOf, elseOf, idleDispatch, bhead, bdrop, idleBlk, st5, body,
    Src.TransportLayerLogic_p_process_rx]
  rx_eval []
  refine ⟨_, rfl, ?_, ?_, ?_⟩
  · exact (rep_idle hR).trig .UnexpectedConsecutiveFrame
  · simp only [idleEnv]; loc_tac
  · simp only [idleEnv]; loc_tac

/-- WAIT_CF, Single Frame: delivered, reception aborted, `ReceptionInterruptedWithSingleFrameError` -/
theorem sm_sf_wait (hR : Rep s env) (hC : Consts env) (hP : PduCtx d env)
    (len : Nat) (dat : Bytes) (esc : Bool) (hd : d.pdu = .sf len dat esc) (hst : s.rxState = .waitCf)
    (hitx : env "immediate_tx_msg_required" = some (pbool false)) :
    SmOut (Ms s) env (((s.deliver dat).stopReceiving).error .InterruptedWithSingleFrame) true false := by
  have ht : env "pdu.type" = some (pint (0 : Nat)) := by rw [hP.type, hd]; rfl
  have hdat : env "pdu.data" = some (.bytes dat) := by rw [hP.data, hd]; rfl
  unfold SmOut
  rw [wait_prefix _ hR hC hst, dispatch3_run _ _ hC _ _ _ 0 ht]
  simp only [if_true, sfW, thenOf, waitDispatch, bhead, bdrop, waitBlk, waitStmt, elseOf, st5, body,
    Src.TransportLayerLogic_p_process_rx]
  rx_eval [hdat, bytes_bne_pnone']
  refine ⟨_, rfl, ?_, ?_, ?_⟩
  · exact (((hR.setLocal "frame_complete" _ (by decide)).put dat).stopRecv).trig .InterruptedWithSingleFrame
  · loc_tac
  · loc_tac


/-- IDLE, First Frame: `_start_reception_after_first_frame_if_valid` -/
theorem sm_ff_idle (hR : Rep s env) (hC : Consts env) (hP : PduCtx d env) (hpdu : env "pdu" = some (.meth "pdu"))
    (len : Nat) (dat : Bytes) (esc : Bool) (hd : d.pdu = .ff len dat esc) (hst : s.rxState = .idle)
    (hfc : env "frame_complete" = some (pbool false)) (hitx : env "immediate_tx_msg_required" = some (pbool false)) :
    SmOut (Ms s) env ((idleSt s).startReception len dat d.rxDl).1 false ((idleSt s).startReception len dat d.rxDl).2 := by
  have ht : idleEnv env "pdu.type" = some (pint (1 : Nat)) := by rw [(pduCtx_idle hP).type, hd]; rfl
  have hlen : idleEnv env "pdu.length" = some (pint len) := by rw [(pduCtx_idle hP).length, hd]; rfl
  have hdat : idleEnv env "pdu.data" = some (.bytes dat) := by rw [(pduCtx_idle hP).data, hd]; rfl
  have hpdu' : idleEnv env "pdu" = some (.meth "pdu") := by simp only [idleEnv]; loc_tac
  have hitx' : idleEnv env "immediate_tx_msg_required" = some (pbool false) := by simp only [idleEnv]; loc_tac
  have hfc' : idleEnv env "frame_complete" = some (pbool false) := by simp only [idleEnv]; loc_tac
  have h0 := rep_idle hR
  have hmx : idleEnv env "self.params.max_frame_size" = some (pint s.cfg.maxFrameSize) := h0.maxFrameSize
  have hsr := Rep.startRec h0 len d.rxDl dat
  have hstarted : startRecEnv s.now s.cfg.tCf len d.rxDl dat s.cfg.maxFrameSize (idleEnv env) "started"
      = some (pbool ((idleSt s).startReception len dat d.rxDl).2) := hsr.2
  unfold SmOut
  rw [idle_prefix _ (stop_lookup start data _ _) hR hC hst, dispatch3_run _ _ (consts_idle hC) _ _ _ 1 ht]
  simp only [Nat.reduceEqDiff, if_false, if_true, ffI, thenOf, elseOf, idleDispatch, bhead, bdrop, idleBlk, st5, body,
    Src.TransportLayerLogic_p_process_rx]
  rx_eval [hpdu', startRecProc, hlen, (pduCtx_idle hP).rxDl, hdat, hmx, startRecEnv_frame, hitx', hstarted]
  refine ⟨_, rfl, ?_, ?_, ?_⟩
  · exact hsr.1.setLocal _ _ (by decide)
  · simp (disch := decide) only [set_apply, String.reduceEq, ↓reduceIte, startRecEnv_frame, hfc']
  · loc_tac

/-- WAIT_CF, First Frame: the same, then `ReceptionInterruptedWithFirstFrameError` -/
theorem sm_ff_wait (hR : Rep s env) (hC : Consts env) (hP : PduCtx d env) (hpdu : env "pdu" = some (.meth "pdu"))
    (len : Nat) (dat : Bytes) (esc : Bool) (hd : d.pdu = .ff len dat esc) (hst : s.rxState = .waitCf)
    (hfc : env "frame_complete" = some (pbool false)) (hitx : env "immediate_tx_msg_required" = some (pbool false)) :
    SmOut (Ms s) env ((s.startReception len dat d.rxDl).1.error .InterruptedWithFirstFrame) false
      (s.startReception len dat d.rxDl).2 := by
  have ht : env "pdu.type" = some (pint (1 : Nat)) := by rw [hP.type, hd]; rfl
  have hlen : env "pdu.length" = some (pint len) := by rw [hP.length, hd]; rfl
  have hdat : env "pdu.data" = some (.bytes dat) := by rw [hP.data, hd]; rfl
  have hsr := Rep.startRec hR len d.rxDl dat
  have hstarted := hsr.2
  unfold SmOut
  rw [wait_prefix _ hR hC hst, dispatch3_run _ _ hC _ _ _ 1 ht]
  simp only [Nat.reduceEqDiff, if_false, if_true, ffW, thenOf, waitDispatch, bhead, bdrop, waitBlk, waitStmt, elseOf, st5, body,
    Src.TransportLayerLogic_p_process_rx]
  rx_eval [hpdu, startRecProc, hlen, hP.rxDl, hdat, hR.maxFrameSize, startRecEnv_frame, hitx, hstarted]
  refine ⟨_, rfl, ?_, ?_, ?_⟩
  · exact (hsr.1.setLocal _ _ (by decide)).trig .InterruptedWithFirstFrame
  · simp (disch := decide) only [set_apply, String.reduceEq, ↓reduceIte, startRecEnv_frame, hfc]
  · loc_tac


end sm2


macro "loc_tac2" : tactic =>
  `(tactic| (simp only [stopRecvEnv, trigEnv, putEnv, emptyBufEnv, stopFcEnv, timerStopEnv, timerStartEnv, startCfEnv, reqFcEnv,
      set_apply, String.reduceEq, ↓reduceIte] <;> try assumption))

section cfwait
variable (start : Nat) (data : Bytes)
local notation "Ms" s:max => rxMethsOf (State.now s) (Cfg.tCf (State.cfg s)) start data
variable {s : State} {d : Decoded} {env : Env}

theorem band_seq (n : Nat) : evalBinop .band (pint ((n : Int) + 1)) (pint 15) = .ok (pint (((n + 1) % 16 : Nat) : Int)) := by
  have e : ((n : Int) + 1) = ((n + 1 : Nat) : Int) := by omega
  rw [e, band15_ev]

theorem natCast_beq (a b : Nat) : ((a : Int) == (b : Int)) = (a == b) := by
  rw [Bool.eq_iff_iff]; simp only [beq_iff_eq]; omega

/-- environment after `expected_seqnum = (self.last_seqnum + 1) & 0xF` -/
def seqEnv (s : State) (env : Env) : Env := env.set "expected_seqnum" (pint (((s.lastSeq + 1) % 16 : Nat) : Int))

/-- WAIT_CF, Consecutive Frame: up to the test of the sequence number -/
theorem cfw_prefix (hR : Rep s env) (hC : Consts env) (hP : PduCtx d env)
    (sn : Nat) (dat : Bytes) (hd : d.pdu = .cf sn dat) (hst : s.rxState = .waitCf) :
    execStmt (Ms s) env st5 = execBlock (Ms s) (seqEnv s env) (if sn = (s.lastSeq + 1) % 16 then cfOk else cfBad) := by
  have ht : env "pdu.type" = some (pint (2 : Nat)) := by rw [hP.type, hd]; rfl
  have hsn : env "pdu.seqnum" = some (pint sn) := by rw [hP.seqnum, hd]; rfl
  rw [wait_prefix _ hR hC hst, dispatch3_run _ _ hC _ _ _ 2 ht]
  simp only [Nat.reduceEqDiff, if_false, if_true]
  have h1 : execStmt (Ms s) env (.assign "expected_seqnum" (.binop .band (.binop .add (.var "self.last_seqnum") (.int (1))) (.int (15))))
      = .ok (.next (seqEnv s env)) := by
    rx_eval [hR.lastSeq, evalBinop_add, band_seq, seqEnv]
  rw [cfW_shape, block_next _ _ _ _ _ h1, execBlock_single]
  have hc : eval (Ms s) (seqEnv s env) (.cmp .eq (.var "pdu.seqnum") (.var "expected_seqnum"))
      = .ok (pbool (decide (sn = (s.lastSeq + 1) % 16))) := by
    rx_eval [seqEnv, hsn, natCast_beq]
    congr 2
  rw [exec_ite _ _ _ _ _ _ hc]
  by_cases h : sn = (s.lastSeq + 1) % 16
  · simp only [h, decide_true, if_true]
  · simp only [h, decide_false, if_false, Bool.false_eq_true]


/-- WAIT_CF, Consecutive Frame, wrong sequence number: reception aborted, `WrongSequenceNumberError` -/
theorem sm_cf_wait_bad (hR : Rep s env) (hC : Consts env) (hP : PduCtx d env)
    (sn : Nat) (dat : Bytes) (hd : d.pdu = .cf sn dat) (hst : s.rxState = .waitCf) (hsn : sn ≠ (s.lastSeq + 1) % 16)
    (hfc : env "frame_complete" = some (pbool false)) (hitx : env "immediate_tx_msg_required" = some (pbool false)) :
    SmOut (Ms s) env ((s.stopReceiving).error .WrongSequenceNumber) false false := by
  have hsq0 : env "pdu.seqnum" = some (pint sn) := by rw [hP.seqnum, hd]; rfl
  have hsq : seqEnv s env "pdu.seqnum" = some (pint sn) := by simp only [seqEnv]; loc_tac
  unfold SmOut
  rw [cfw_prefix start data hR hC hP sn dat hd hst]
  simp only [hsn, if_false, cfBad, seqStmt, cfW, thenOf, elseOf, waitDispatch, bhead, bdrop, waitBlk, waitStmt, st5, body,
    Src.TransportLayerLogic_p_process_rx]
  rx_eval [hsq, pint_bne_pnone]
  refine ⟨_, rfl, ?_, ?_, ?_⟩
  · exact ((((hR.setLocal "expected_seqnum" _ (by decide)).stopRecv).setLocal "received" _ (by decide)).setLocal "received" _
      (by decide)).trig .WrongSequenceNumber
  · simp only [seqEnv]; loc_tac2
  · simp only [seqEnv]; loc_tac2


theorem chgStmt_shape : chgStmt =
    .ite (.and_ (.cmp .ne (.var "pdu.rx_dl") (.var "self.actual_rxdl")) (.cmp .lt (.var "pdu.rx_dl") (.var "bytes_to_receive")))
      (.cons (.expr (.call "self._trigger_error" (.cons (.call "isotp.errors.ChangingInvalidRXDLError"
          (.cons (.call "__format__" (.cons (.var "pdu.rx_dl") (.cons (.var "self.actual_rxdl") .nil))) .nil)) .nil)))
        (.cons (.ret (.call "self.ProcessRxReport#immediate_tx_required#frame_received" (.cons .ff (.cons .ff .nil)))) .nil))
      .nil := rfl

/-- the `ChangingInvalidRXDLError` check, in any environment -/
theorem chg_run (now tCf : Nat) (E : Env) (rxDl btr : Nat) (a : Option Nat) (h1 : E "pdu.rx_dl" = some (pint rxDl))
    (h2 : E "self.actual_rxdl" = some (optPV a)) (h3 : E "bytes_to_receive" = some (pint btr)) :
    execStmt (rxMethsOf now tCf start data) E chgStmt =
      if (some rxDl != a && decide (rxDl < btr)) = true then
        .ok (.returned (.list [.py (.bool false), .py (.bool false)]) (trigEnv "ChangingInvalidRXDLError" E))
      else .ok (.next E) := by
  rw [chgStmt_shape]
  by_cases hA : a = some rxDl
  · have hA' : (a == some rxDl) = true := by simp [hA]
    have hm : (some rxDl != a) = false := by simp [hA]
    rx_eval [h1, h2, pvEq_pint_optPV, hA', hm, Bool.not_true, Bool.false_and]
  · have hA' : (a == some rxDl) = false := by simp [hA]
    have hm : (some rxDl != a) = true := by simp [bne, Ne.symm hA]
    by_cases hB : rxDl < btr
    · have hB' : decide ((rxDl : Int) < (btr : Int)) = true := by simp; omega
      rx_eval [h1, h2, h3, pvEq_pint_optPV, hA', hm, Bool.not_false, cmp_lt_pint, hB', hB, decide_true, Bool.and_self]
      rfl
    · have hB' : decide ((rxDl : Int) < (btr : Int)) = false := by simp; omega
      rx_eval [h1, h2, h3, pvEq_pint_optPV, hA', hm, Bool.not_false, cmp_lt_pint, hB', hB, decide_false, Bool.and_false]


/-- `bytes_to_receive` -/
def btrOf (s : State) : Nat := s.rxFrameLen - s.rxBuf.length
def btrEnv (s : State) (env : Env) : Env := (seqEnv s env).set "bytes_to_receive" (pint (btrOf s : Nat))
/-- the model state after `_start_rx_cf_timer(); self.last_seqnum = pdu.seqnum; self._append_rx_data(pdu.data[:bytes_to_receive])` -/
def cf5St (s : State) (sn : Nat) (dat : Bytes) : State :=
  { s.startRxCfTimer with lastSeq := sn, rxBuf := s.startRxCfTimer.rxBuf ++ dat.take (btrOf s) }
def cf5Env (s : State) (sn : Nat) (dat : Bytes) (env : Env) : Env :=
  ((startCfEnv s.now s.cfg.tCf (btrEnv s env)).set "self.last_seqnum" (pint sn)).set
    "self.rx_buffer" (.bytes (s.rxBuf ++ dat.take (btrOf s)))

theorem rep_cf5 (hR : Rep s env) (sn : Nat) (dat : Bytes) : Rep (cf5St s sn dat) (cf5Env s sn dat env) := by
  unfold cf5St cf5Env btrEnv seqEnv State.startRxCfTimer; rep_tac hR

/-- WAIT_CF, Consecutive Frame with the expected sequence number: up to the completeness test -/
theorem cfOk_run (hR : Rep s env) (hP : PduCtx d env) (sn : Nat) (dat : Bytes) (hd : d.pdu = .cf sn dat)
    (hinv : s.rxBuf.length ≤ s.rxFrameLen) :
    execBlock (Ms s) (seqEnv s env) cfOk =
      if (some d.rxDl != s.actualRxdl && decide (d.rxDl < btrOf s)) = true then
        .ok (.returned (.list [.py (.bool false), .py (.bool false)]) (trigEnv "ChangingInvalidRXDLError" (btrEnv s env)))
      else execBlock (Ms s) (cf5Env s sn dat env)
        (if s.rxFrameLen ≤ (s.rxBuf ++ dat.take (btrOf s)).length then complBlk else moreBlk) := by
  have hsub : (s.rxFrameLen : Int) - (s.rxBuf.length : Int) = ((btrOf s : Nat) : Int) := by unfold btrOf; omega
  have h1 : execStmt (Ms s) (seqEnv s env) (.assign "bytes_to_receive" (.binop .sub (.var "self.rx_frame_length")
      (.call "len" (.cons (.var "self.rx_buffer") .nil)))) = .ok (.next (btrEnv s env)) := by
    rx_eval [seqEnv, hR.rxFrameLen, hR.rxBuf, evalBinop_sub, hsub, btrEnv]
  rw [cfOk_shape, block_next _ _ _ _ _ h1]
  have hrx : btrEnv s env "pdu.rx_dl" = some (pint d.rxDl) := by simp only [btrEnv, seqEnv]; rw [← hP.rxDl]; loc_tac
  have hac : btrEnv s env "self.actual_rxdl" = some (optPV s.actualRxdl) := by
    simp only [btrEnv, seqEnv]; rw [← hR.actualRxdl]; loc_tac
  have hbt : btrEnv s env "bytes_to_receive" = some (pint (btrOf s : Nat)) := by simp only [btrEnv]; loc_tac
  have h2 := chg_run start data s.now s.cfg.tCf (btrEnv s env) d.rxDl (btrOf s) s.actualRxdl hrx hac hbt
  by_cases hchg : (some d.rxDl != s.actualRxdl && decide (d.rxDl < btrOf s)) = true
  · simp only [hchg, if_true] at h2 ⊢
    rw [block_ret _ _ _ _ _ _ h2]
  · simp only [hchg] at h2 ⊢
    rw [block_next _ _ _ _ _ h2]
    have hdat0 : env "pdu.data" = some (.bytes dat) := by rw [hP.data, hd]; rfl
    have hsn0 : env "pdu.seqnum" = some (pint sn) := by rw [hP.seqnum, hd]; rfl
    have hbuf0 := hR.rxBuf
    have hfl0 := hR.rxFrameLen
    rx_eval [btrEnv, seqEnv, hdat0, hsn0, hbuf0, hfl0, natIdx_nat, extendProc, cmp_ge_pint]
    by_cases hc : s.rxFrameLen ≤ (s.rxBuf ++ dat.take (btrOf s)).length
    · have hc' : decide ((s.rxFrameLen : Int) ≤ ((s.rxBuf ++ dat.take (btrOf s)).length : Int)) = true := by
        simp only [decide_eq_true_eq]; omega
      simp only [hc, hc', if_true]; rfl
    · have hc' : decide ((s.rxFrameLen : Int) ≤ ((s.rxBuf ++ dat.take (btrOf s)).length : Int)) = false := by
        simp only [decide_eq_false_iff_not]; omega
      simp only [hc, hc', if_false, Bool.false_eq_true]; rfl


theorem cf5Env_local (s : State) (sn : Nat) (dat : Bytes) (env : Env) (k : String)
    (hk : k ∉ ["expected_seqnum", "bytes_to_receive", "self.timer_rx_cf", "self.timer_rx_cf.start_time",
      "self.timer_rx_cf.timeout", "self.last_seqnum", "self.rx_buffer"]) : cf5Env s sn dat env k = env k := by
  simp only [List.mem_cons, List.not_mem_nil, or_false, not_or] at hk
  obtain ⟨h1, h2, h3, h4, h5, h6, h7⟩ := hk
  simp only [cf5Env, btrEnv, seqEnv, startCfEnv, timerStartEnv, set_apply, *, if_false]

/-- WAIT_CF, expected Consecutive Frame that completes the payload: delivered, back to IDLE -/
theorem sm_cf_wait_complete (hR : Rep s env) (hC : Consts env) (hP : PduCtx d env)
    (sn : Nat) (dat : Bytes) (hd : d.pdu = .cf sn dat) (hst : s.rxState = .waitCf) (hsn : sn = (s.lastSeq + 1) % 16)
    (hinv : s.rxBuf.length ≤ s.rxFrameLen)
    (hchg : ¬ (some d.rxDl != s.actualRxdl && decide (d.rxDl < btrOf s)) = true)
    (hcompl : s.rxFrameLen ≤ (s.rxBuf ++ dat.take (btrOf s)).length)
    (hitx : env "immediate_tx_msg_required" = some (pbool false)) :
    SmOut (Ms s) env (((cf5St s sn dat).deliver (cf5St s sn dat).rxBuf).stopReceiving) true false := by
  have h5 := rep_cf5 hR sn dat
  have hbuf : cf5Env s sn dat env "self.rx_buffer" = some (.bytes (cf5St s sn dat).rxBuf) := h5.rxBuf
  have hidle : cf5Env s sn dat env "self.RxState.IDLE" = some (.sc (.enum "RxState" "IDLE")) := by
    rw [cf5Env_local _ _ _ _ _ (by decide)]; exact hC.idle
  unfold SmOut
  rw [cfw_prefix start data hR hC hP sn dat hd hst, if_pos hsn, cfOk_run start data hR hP sn dat hd hinv, if_neg hchg, if_pos hcompl]
  simp only [complBlk, complStmt, cfOk, seqStmt, cfW, thenOf, elseOf, waitDispatch, bhead, bdrop, waitBlk, waitStmt, st5, body,
    Src.TransportLayerLogic_p_process_rx]
  rx_eval [hbuf, hidle]
  refine ⟨_, rfl, ?_, ?_, ?_⟩
  · exact ((h5.setLocal "frame_complete" _ (by decide)).put _).stopRecv
  · loc_tac2
  · simp (disch := decide) only [set_apply, String.reduceEq, ↓reduceIte, cf5Env_local, hitx]


theorem mod_ev (a b : Nat) (hb : 0 < b) :
    evalBinop .mod (pint (a : Int)) (pint (b : Int)) = .ok (pint ((a % b : Nat) : Int)) := by
  rw [evalBinop_nonneg _ _ _ (Int.natCast_nonneg _) (Int.natCast_nonneg _)]
  have : ¬ b = 0 := by omega
  simp [this]

/-- the model state after `self.rx_block_counter += 1` -/
def cf6St (s : State) (sn : Nat) (dat : Bytes) : State := { cf5St s sn dat with rxBlockCnt := (cf5St s sn dat).rxBlockCnt + 1 }

theorem moreBlk_shape : moreBlk =
    .cons (.assign "self.rx_block_counter" (.binop .add (.var "self.rx_block_counter") (.int (1))))
    (.cons (.ite (.and_ (.cmp .gt (.var "self.params.blocksize") (.int (0)))
        (.cmp .eq (.binop .mod (.var "self.rx_block_counter") (.var "self.params.blocksize")) (.int (0))))
      (.cons (.expr (.call "self._request_tx_flowcontrol" (.cons (.var "PDU.FlowStatus.ContinueToSend") .nil)))
      (.cons (.expr (.call "self.timer_rx_cf.stop" .nil))
      (.cons (.assign "immediate_tx_msg_required" .tt) .nil))) .nil) .nil) := rfl

/-- WAIT_CF, expected Consecutive Frame, payload not complete: the block counter; at a block boundary a Flow Control is requested
    and the timer is stopped -/
theorem sm_cf_wait_more (hR : Rep s env) (hC : Consts env) (hP : PduCtx d env)
    (sn : Nat) (dat : Bytes) (hd : d.pdu = .cf sn dat) (hst : s.rxState = .waitCf) (hsn : sn = (s.lastSeq + 1) % 16)
    (hinv : s.rxBuf.length ≤ s.rxFrameLen)
    (hchg : ¬ (some d.rxDl != s.actualRxdl && decide (d.rxDl < btrOf s)) = true)
    (hcompl : ¬ s.rxFrameLen ≤ (s.rxBuf ++ dat.take (btrOf s)).length)
    (hfc : env "frame_complete" = some (pbool false)) (hitx : env "immediate_tx_msg_required" = some (pbool false)) :
    if (decide (s.cfg.blocksize > 0) && decide ((s.rxBlockCnt + 1) % s.cfg.blocksize = 0)) = true then
      SmOut (Ms s) env { (cf6St s sn dat).requestFc 0 with timerCf := ((cf6St s sn dat).requestFc 0).timerCf.stop } false true
    else SmOut (Ms s) env (cf6St s sn dat) false false := by
  have h5 := rep_cf5 hR sn dat
  have hcnt : cf5Env s sn dat env "self.rx_block_counter" = some (pint s.rxBlockCnt) := h5.rxBlockCnt
  have hbs : cf5Env s sn dat env "self.params.blocksize" = some (pint s.cfg.blocksize) := h5.blocksize
  have hcts : cf5Env s sn dat env "PDU.FlowStatus.ContinueToSend" = some (pint 0) := by
    rw [cf5Env_local _ _ _ _ _ (by decide)]; exact hC.cts
  have hcast : ((s.rxBlockCnt : Int) + 1) = ((s.rxBlockCnt + 1 : Nat) : Int) := by omega
  have h6 : Rep (cf6St s sn dat) ((cf5Env s sn dat env).set "self.rx_block_counter" (pint ((s.rxBlockCnt + 1 : Nat) : Int))) := by
    unfold cf6St; rep_tac h5
  have hpre : execStmt (Ms s) env st5 = execBlock (Ms s) (cf5Env s sn dat env) moreBlk := by
    rw [cfw_prefix start data hR hC hP sn dat hd hst, if_pos hsn, cfOk_run start data hR hP sn dat hd hinv, if_neg hchg,
      if_neg hcompl]
  unfold SmOut
  rw [hpre, moreBlk_shape]
  by_cases hb : s.cfg.blocksize > 0
  · have hb' : decide ((0 : Int) < (s.cfg.blocksize : Int)) = true := by simp only [decide_eq_true_eq]; omega
    by_cases hm : (s.rxBlockCnt + 1) % s.cfg.blocksize = 0
    · simp only [hb, hm, decide_true, Bool.and_self, if_true]
      rx_eval [hcnt, hbs, hcts, evalBinop_add, hcast, cmp_gt_pint, hb', mod_ev _ _ hb, hm, cast_beq_zero, beq_self_eq_true]
      refine ⟨_, rfl, ?_, ?_, ?_⟩
      · exact ((h6.reqFc 0).timerStop).setLocal _ _ (by decide)
      · simp (disch := decide) only [set_apply, String.reduceEq, ↓reduceIte, cf5Env_local, hfc]
      · loc_tac
    · have hm' : ((s.rxBlockCnt + 1) % s.cfg.blocksize == 0) = false := by simp [hm]
      simp only [hb, hm, decide_true, decide_false, Bool.and_false, Bool.false_eq_true, if_false]
      rx_eval [hcnt, hbs, hcts, evalBinop_add, hcast, cmp_gt_pint, hb', mod_ev _ _ hb, hm', cast_beq_zero]
      refine ⟨_, rfl, h6, ?_, ?_⟩
      · simp (disch := decide) only [set_apply, String.reduceEq, ↓reduceIte, cf5Env_local, hfc]
      · simp (disch := decide) only [set_apply, String.reduceEq, ↓reduceIte, cf5Env_local, hitx]
  · have hb' : decide ((0 : Int) < (s.cfg.blocksize : Int)) = false := by simp only [decide_eq_false_iff_not]; omega
    simp only [hb, decide_false, Bool.false_and, Bool.false_eq_true, if_false]
    rx_eval [hcnt, hbs, evalBinop_add, hcast, cmp_gt_pint, hb']
    refine ⟨_, rfl, h6, ?_, ?_⟩
    · simp (disch := decide) only [set_apply, String.reduceEq, ↓reduceIte, cf5Env_local, hfc]
    · simp (disch := decide) only [set_apply, String.reduceEq, ↓reduceIte, cf5Env_local, hitx]


/-- WAIT_CF, expected Consecutive Frame whose RX_DL changed and is too small: `ChangingInvalidRXDLError`, the frame is ignored
    (`_process_rx` returns from inside the state machine) -/
theorem sm_cf_wait_changing (hR : Rep s env) (hC : Consts env) (hP : PduCtx d env)
    (sn : Nat) (dat : Bytes) (hd : d.pdu = .cf sn dat) (hst : s.rxState = .waitCf) (hsn : sn = (s.lastSeq + 1) % 16)
    (hinv : s.rxBuf.length ≤ s.rxFrameLen)
    (hchg : (some d.rxDl != s.actualRxdl && decide (d.rxDl < btrOf s)) = true) :
    ∃ env', execStmt (Ms s) env st5 = .ok (.returned (.list [.py (.bool false), .py (.bool false)]) env') ∧
      Rep (s.error .ChangingInvalidRXDL) env' := by
  rw [cfw_prefix start data hR hC hP sn dat hd hst, if_pos hsn, cfOk_run start data hR hP sn dat hd hinv, if_pos hchg]
  exact ⟨_, rfl, ((hR.setLocal "expected_seqnum" _ (by decide)).setLocal "bytes_to_receive" _ (by decide)).trig .ChangingInvalidRXDL⟩


end cfwait

end Rx

end Isotp.PyAgree
