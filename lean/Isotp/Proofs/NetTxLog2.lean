import Isotp.Proofs.NetTxLog
/-
  Network-level safety (C01 / C10), part 2b: WHY a request can be completed with failure in one `_process_tx` pass.
  `FailWhy fc`: if the events logged by the pass contain a `done _ false`, then the pass reported `BadGenerator` or
  `FlowControlTimeout`, or the Flow Control found in the mailbox (`fc`) had status Overflow (2) or Wait (1).
  Same stage decomposition as NetTxLog.lean.
-/
namespace Isotp.NetP
open Isotp Isotp.State

/-- the errors `_process_tx` can report, with their cause (`fc`: the Flow Control found in the mailbox) -/
def AllowedErr (fc : Option FcFrame) (x : Err) : Prop :=
  x = .BadGenerator ∨ x = .FlowControlTimeout ∨ x = .UnexpectedFlowControl ∨
  (x = .Overflow ∧ ∃ f, fc = some f ∧ f.status = 2) ∨
  ((x = .UnsupportedWaitFrame ∨ x = .MaximumWaitFrameReached) ∧ ∃ f, fc = some f ∧ f.status = 1)

/-- `l'` extends `l`; a failed completion among the new events has one of four causes; every error among the new
    events is one of those `_process_tx` reports, with its cause -/
def FailWhy (fc : Option FcFrame) (l l' : List Ev) : Prop :=
  ∃ new, l' = new ++ l ∧ ((∃ i, Ev.done i false ∈ new) →
    (∃ t, Ev.err t .BadGenerator ∈ new) ∨ (∃ t, Ev.err t .FlowControlTimeout ∈ new) ∨
    (∃ f, fc = some f ∧ f.status = 2) ∨ (∃ f, fc = some f ∧ f.status = 1)) ∧
    (∀ t x, Ev.err t x ∈ new → AllowedErr fc x)

theorem FailWhy.refl (fc : Option FcFrame) (l : List Ev) : FailWhy fc l l := ⟨[], rfl, by simp, by simp⟩

theorem FailWhy.trans {fc : Option FcFrame} {a b c : List Ev} (h1 : FailWhy fc a b) (h2 : FailWhy fc b c) :
    FailWhy fc a c := by
  obtain ⟨n1, rfl, p1, q1⟩ := h1
  obtain ⟨n2, rfl, p2, q2⟩ := h2
  refine ⟨n2 ++ n1, by simp, ?_, fun t x hx => (List.mem_append.mp hx).elim (q2 t x) (q1 t x)⟩
  rintro ⟨i, hi⟩
  rcases List.mem_append.mp hi with hi | hi
  · rcases p2 ⟨i, hi⟩ with ⟨t, h⟩ | ⟨t, h⟩ | h | h
    · exact Or.inl ⟨t, List.mem_append_left _ h⟩
    · exact Or.inr (Or.inl ⟨t, List.mem_append_left _ h⟩)
    · exact Or.inr (Or.inr (Or.inl h))
    · exact Or.inr (Or.inr (Or.inr h))
  · rcases p1 ⟨i, hi⟩ with ⟨t, h⟩ | ⟨t, h⟩ | h | h
    · exact Or.inl ⟨t, List.mem_append_right _ h⟩
    · exact Or.inr (Or.inl ⟨t, List.mem_append_right _ h⟩)
    · exact Or.inr (Or.inr (Or.inl h))
    · exact Or.inr (Or.inr (Or.inr h))

/-- one stage of a transmit pass, with the cause of a failed completion -/
def Why (fc : Option FcFrame) (s s' : State) : Prop := FailWhy fc s.log s'.log

theorem Why.refl (fc : Option FcFrame) (s : State) : Why fc s s := FailWhy.refl fc _
theorem Why.trans' {fc : Option FcFrame} {a b c : State} (h1 : Why fc a b) (h2 : Why fc b c) : Why fc a c :=
  FailWhy.trans h1 h2

theorem Why.of_eq {fc : Option FcFrame} {s s' : State} (hl : s'.log = s.log) : Why fc s s' := by
  unfold Why; rw [hl]; exact FailWhy.refl fc _

/-- events that are not a failed completion -/
theorem Why.cons {fc : Option FcFrame} {s s' : State} (e : Ev) (he : ∀ i, e ≠ Ev.done i false)
    (hx : ∀ t x, e = Ev.err t x → AllowedErr fc x) (hl : s'.log = e :: s.log) : Why fc s s' :=
  ⟨[e], hl, fun ⟨i, hi⟩ => by simp only [List.mem_singleton] at hi; exact absurd hi.symm (he i),
    fun t x h => by simp only [List.mem_singleton] at h; exact hx t x h.symm⟩

theorem Why.stopTrue {fc : Option FcFrame} {s s' : State} (hl : s'.log = s.log) : Why fc s (s'.stopSending true) := by
  unfold stopSending
  cases h : s'.active with
  | none => exact Why.of_eq hl
  | some r => exact Why.cons (.done r.id true) (by intro i h; cases h) (by intro t x h; cases h) (by simp [emit, hl])

theorem Why.error {fc : Option FcFrame} {s s' : State} (hl : s'.log = s.log) (e : Err) (he : AllowedErr fc e) :
    Why fc s (s'.error e) :=
  Why.cons (.err s'.now e) (by intro i h; cases h) (by intro t x h; cases h; exact he) (by simp [State.error, emit, hl])

/-- `error(BadGenerator)` then `_stop_sending(False)` -/
theorem Why.errStopBg {fc : Option FcFrame} {s s' : State} (hl : s'.log = s.log) (b : Bool) :
    Why fc s ((s'.error .BadGenerator).stopSending b) := by
  unfold stopSending
  cases h : (s'.error .BadGenerator).active with
  | none => exact Why.error hl _ (Or.inl rfl)
  | some r =>
    exact ⟨[.done r.id b, .err s'.now .BadGenerator], by simp [State.error, emit, hl],
      fun _ => Or.inl ⟨s'.now, by simp⟩, by
        intro t x h
        simp only [List.mem_cons, List.not_mem_nil, or_false, reduceCtorEq, false_or, Ev.err.injEq] at h
        rw [h.2]; exact Or.inl rfl⟩

/-- `error(FlowControlTimeout)` then `_stop_sending(False)` -/
theorem Why.errStopTo {fc : Option FcFrame} {s s' : State} (hl : s'.log = s.log) (b : Bool) :
    Why fc s ((s'.error .FlowControlTimeout).stopSending b) := by
  unfold stopSending
  cases h : (s'.error .FlowControlTimeout).active with
  | none => exact Why.error hl _ (Or.inr (Or.inl rfl))
  | some r =>
    exact ⟨[.done r.id b, .err s'.now .FlowControlTimeout], by simp [State.error, emit, hl],
      fun _ => Or.inr (Or.inl ⟨s'.now, by simp⟩), by
        intro t x h
        simp only [List.mem_cons, List.not_mem_nil, or_false, reduceCtorEq, false_or, Ev.err.injEq] at h
        rw [h.2]; exact Or.inr (Or.inl rfl)⟩

/-- an abort caused by the Flow Control in the mailbox -/
theorem Why.ofFc {fc : Option FcFrame} {s s' : State} (hcause : (∃ f, fc = some f ∧ f.status = 2) ∨ (∃ f, fc = some f ∧ f.status = 1))
    (hsfx : ∃ new, s'.log = new ++ s.log ∧ ∀ t x, Ev.err t x ∈ new → AllowedErr fc x) : Why fc s s' := by
  obtain ⟨new, hn, hx⟩ := hsfx
  exact ⟨new, hn, fun _ => Or.inr (Or.inr hcause), hx⟩

/-- closes a leaf goal -/
macro "why_leaf" : tactic => `(tactic| first
  | exact Why.of_eq (by rfl)
  | exact Why.stopTrue (by rfl)
  | exact Why.error (by rfl) _ (Or.inl rfl)
  | exact Why.error (by rfl) _ (Or.inr (Or.inl rfl))
  | exact Why.error (by rfl) _ (Or.inr (Or.inr (Or.inl rfl)))
  | exact Why.errStopBg (by rfl) _
  | exact Why.errStopTo (by rfl) _)

theorem Why.ite {fc : Option FcFrame} (c : Prop) [Decidable c] {s a b : State} (ha : Why fc s a) (hb : Why fc s b) :
    Why fc s (if c then a else b) := by split <;> assumption

theorem Why.cfTail (fc : Option FcFrame) (s : State) (r' : Req) (rbs : Nat) (res : Option Bytes) :
    Why fc s (C12.cfTail s r' rbs res).1 := by
  unfold C12.cfTail
  cases res with
  | none => why_leaf
  | some payload =>
    dsimp only
    by_cases hp : payload.length > 0
    · simp only [hp, if_true]
      cases hm : makeTxMsg s.cfg s.addr (s.addr.tx.txId .physical) (s.addr.tx.txPrefix ++ [u8 (0x20 + s.txSeq)] ++ payload) with
      | none => simp only [if_true]; why_leaf
      | some msg =>
        simp only [Bool.false_eq_true, if_false]
        repeat' split
        all_goals why_leaf
    · simp only [hp, if_false, Bool.false_eq_true]
      repeat' split
      all_goals why_leaf

theorem stopSending_sfx' (s : State) (b : Bool) :
    ∃ new, (s.stopSending b).log = new ++ s.log ∧ ∀ t x, Ev.err t x ∉ new := by
  unfold stopSending
  cases s.active with
  | none => exact ⟨[], rfl, by simp⟩
  | some r => exact ⟨[.done r.id b], rfl, by simp⟩

/-- Flow Control handling: an abort (too many Wait frames) is caused by a Flow Control with status Wait -/
theorem Why.handleFc (s : State) (f : FcFrame) : Why (some f) s (s.handleFc f) := by
  unfold State.handleFc
  dsimp only
  by_cases h0 : s.txState = .idle
  · simp only [h0, if_true]; why_leaf
  · simp only [h0, if_false]
    by_cases h1 : (decide (f.status = 1) && !(s.timerFc.timedOut s.now)) = true
    · simp only [h1, if_true]
      have hst : f.status = 1 := by
        simp only [Bool.and_eq_true, decide_eq_true_eq] at h1; exact h1.1
      repeat' split
      all_goals first
        | why_leaf
        | exact Why.error (by rfl) _ (Or.inr (Or.inr (Or.inr (Or.inr ⟨Or.inl rfl, f, rfl, hst⟩))))
        | (refine Why.ofFc (Or.inr ⟨f, rfl, hst⟩) ?_
           obtain ⟨new, hn, hne⟩ := stopSending_sfx' (s.error .MaximumWaitFrameReached) false
           refine ⟨new ++ [.err s.now .MaximumWaitFrameReached], by rw [hn]; simp [State.error, emit], ?_⟩
           intro t x hx
           rcases List.mem_append.mp hx with hx | hx
           · exact absurd hx (hne t x)
           · simp only [List.mem_singleton, Ev.err.injEq] at hx
             rw [hx.2]
             exact Or.inr (Or.inr (Or.inr (Or.inr ⟨Or.inr rfl, f, rfl, hst⟩))))
    · simp only [h1, Bool.false_eq_true, if_false]
      repeat' split
      all_goals why_leaf

theorem Why.txFc (s : State) : Why s.lastFc s (C12.txFc s).1 := by
  unfold C12.txFc
  dsimp only
  cases hfc : s.lastFc with
  | none => dsimp only; why_leaf
  | some f =>
    dsimp only
    by_cases h2 : f.status = 2
    · simp only [h2, if_true]
      refine Why.ofFc (Or.inl ⟨f, rfl, h2⟩) ?_
      obtain ⟨new, hn, hne⟩ := stopSending_sfx' ({ s with lastFc := none } : State) false
      refine ⟨.err (({ s with lastFc := none } : State).stopSending false).now .Overflow :: new, by
        simp only [State.error, emit, hn]; rfl, ?_⟩
      intro t x hx
      rcases List.mem_cons.mp hx with hx | hx
      · simp only [Ev.err.injEq] at hx
        rw [hx.2]
        exact Or.inr (Or.inr (Or.inr (Or.inl ⟨rfl, f, rfl, h2⟩)))
      · exact absurd hx (hne t x)
    · simp only [h2, if_false]
      exact Why.trans' (Why.of_eq rfl : Why (some f) s { s with lastFc := none }) (Why.handleFc _ f)

theorem Why.txTimeout (fc : Option FcFrame) (s : State) : Why fc s (C12.txTimeout s) := by
  unfold C12.txTimeout
  exact Why.ite _ (Why.errStopTo rfl _) (Why.refl fc _)

theorem Why.txDepl (fc : Option FcFrame) (s : State) : Why fc s (C12.txDepl s) := by
  unfold C12.txDepl
  exact Why.ite _ (Why.stopTrue rfl) (Why.refl fc _)

theorem Why.consumeActive (fc : Option FcFrame) (s : State) (r : Req) (n : Nat) (e : Bool) :
    Why fc s (s.consumeActive r n e).1 := by
  unfold State.consumeActive
  dsimp only
  split
  · exact Why.cons (.pull r.id _) (by intro i h; cases h) (by intro t x h; cases h) rfl
  · why_leaf

theorem Why.sfTail (fc : Option FcFrame) (s : State) (r : Req) (b : Bool) (allowed : Nat) (res : Option Bytes) :
    Why fc s (C12.sfTail s r b allowed res).1 := by
  unfold C12.sfTail
  cases res with
  | none => why_leaf
  | some payload =>
    dsimp only
    repeat' split
    all_goals why_leaf

theorem Why.ffTail (fc : Option FcFrame) (s : State) (total : Nat) (allowed : Nat) (res : Option Bytes) :
    Why fc s (C12.ffTail s total allowed res).1 := by
  unfold C12.ffTail
  cases res with
  | none => why_leaf
  | some payload =>
    dsimp only
    repeat' split
    all_goals why_leaf

theorem Why.startTx (fc : Option FcFrame) (s : State) (r : Req) (allowed : Nat) : Why fc s (s.startTx r allowed).1 := by
  rw [C12.startTx_eq]
  split
  · exact (Why.consumeActive fc s r _ _).trans' (Why.sfTail fc _ _ _ _ _)
  · exact (Why.trans' (Why.of_eq rfl : Why fc s { s with txFrameLen := r.size })
      (Why.consumeActive fc _ r _ _)).trans' (Why.ffTail fc _ _ _ _)

theorem Why.readTxQueue (fc : Option FcFrame) (allowed : Nat) (q : List Req) : ∀ s : State,
    Why fc s (s.readTxQueue allowed q).1 := by
  induction q with
  | nil => intro s; exact Why.of_eq rfl
  | cons r rest ih =>
    intro s
    cases hd : r.depleted
    · rw [C12.readTxQueue_start _ _ _ _ hd]
      exact Why.trans' (Why.of_eq rfl : Why fc s { s with txQueue := rest, active := some r }) (Why.startTx fc _ _ _)
    · rw [C12.readTxQueue_depl _ _ _ _ hd]
      exact Why.trans'
        (Why.cons (.done r.id true) (by intro i h; cases h) (by intro t x h; cases h) rfl :
          Why fc s { s with txQueue := rest, active := none, log := .done r.id true :: s.log })
        (ih _)

theorem Why.transmitCf (fc : Option FcFrame) (s : State) (allowed : Nat) : Why fc s (s.transmitCf allowed).1 := by
  rw [C12.transmitCf_eq]
  split
  · why_leaf
  · why_leaf
  · split
    · split
      · exact (Why.consumeActive fc s _ _ _).trans' (Why.cfTail fc _ _ _ _)
      · why_leaf
    · why_leaf

theorem Why.txFsm (fc : Option FcFrame) (s : State) (allowed : Nat) : Why fc s (C12.txFsm s allowed).1 := by
  unfold C12.txFsm
  cases hst : s.txState with
  | idle => exact Why.readTxQueue fc allowed s.txQueue s
  | waitFc => why_leaf
  | transmitCf => exact Why.transmitCf fc _ _
  | sfStandby =>
    dsimp only
    cases hsb : s.standby with
    | none => why_leaf
    | some msg =>
      dsimp only
      repeat' split
      all_goals why_leaf
  | ffStandby =>
    dsimp only
    cases hsb : s.standby with
    | none => why_leaf
    | some msg =>
      dsimp only
      repeat' split
      all_goals why_leaf

theorem Why.txFinish (fc : Option FcFrame) (x : State × Option CanMsg × Bool) : Why fc x.1 (C12.txFinish x).1 := by
  obtain ⟨s, out, imm⟩ := x
  unfold C12.txFinish
  dsimp only
  repeat' split
  all_goals why_leaf

theorem txPend_lastFc (s : State) : (C12.txPend s).1.lastFc = s.lastFc := by
  unfold C12.txPend
  dsimp only
  repeat' (first | split | dsimp only)
  all_goals rfl

/-- one `_process_tx` pass: a failed completion is caused by `BadGenerator`, `FlowControlTimeout`, or an Overflow /
    Wait Flow Control in the mailbox -/
theorem Why.processTx (s : State) : Why s.lastFc s s.processTx.1 := by
  rw [C12.processTx_eq]
  have a1 : Why s.lastFc s (C12.txPend s).1 := Why.of_eq (C12.txPend_fields s).2.2.2.2.1
  have hfc := txPend_lastFc s
  split
  · rename_i s1 hp; rw [hp] at a1; exact a1
  · rename_i s1 msg hp; rw [hp] at a1; exact a1
  · rename_i s1 hp
    rw [hp] at a1 hfc
    have a2 := Why.txFc s1
    simp only [] at hfc
    rw [hfc] at a2
    split
    · rename_i s2 hf; rw [hf] at a2; exact a1.trans' a2
    · rename_i s2 hf
      rw [hf] at a2
      have a3 := Why.txTimeout s.lastFc s2
      split
      · exact (a1.trans' a2).trans' (a3.trans' (Why.of_eq rfl))
      · exact ((((a1.trans' a2).trans' a3).trans' (Why.txDepl _ _)).trans' (Why.txFsm _ _ _)).trans'
          (Why.txFinish _ _)

end Isotp.NetP
