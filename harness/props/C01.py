"""C01 - lossless, ordered, exactly-once transfer between two peers (also base of C10)."""
import gen
import ref
import trace
from props.base import PropBase


def frames_needed(n, txdl, pre):
    c = max(1, txdl - 1 - pre)
    return 2 + n // c


def net_scenario(rng, tier, duplex_bias=False, tx_only_passes=True, big=False):
    a, b = gen.rand_addr_pair(rng)
    pa = gen.rand_params(rng, simple=True)
    pb = gen.rand_params(rng, simple=True)
    if rng.random() < 0.3:
        mfs = rng.choice([7, 20, 100, 4095, 4096, 100000])
        pa['max_frame_size'] = mfs
        pb['max_frame_size'] = mfs
    ops = [{'op': 'layer', 'i': 0, 'addr': a, 'params': pa}, {'op': 'layer', 'i': 1, 'addr': b, 'params': pb}]
    rid = 0
    if rng.random() < 0.15 and min(pa.get('max_frame_size', 4095), pb.get('max_frame_size', 4095)) >= 20:
        # the pair first talks on ANOTHER mirrored address pair (one multi-frame payload each way), then both sides are moved to the
        # addresses of this scenario with set_address(): nothing derived from the old addresses may survive
        a0, b0 = gen.rand_addr_pair(rng)
        ops = [{'op': 'layer', 'i': 0, 'addr': a0, 'params': pa}, {'op': 'layer', 'i': 1, 'addr': b0, 'params': pb}]
        dt0 = max(ref.stmin_ns(pa.get('stmin', 0)) or 0, ref.stmin_ns(pb.get('stmin', 0)) or 0, 1000000) + 1
        for side in (0, 1):
            rid += 1
            ops.append({'op': 'send', 'i': side, 'id': rid, 'data': gen.rand_payload(rng, 20), 'keep': True})
        for _ in range(60):
            ops.append({'op': 'deliver', 'i': 0, 'j': 1, 'n': 100000, 'keep': True})
            ops.append({'op': 'process', 'i': 1, 'keep': True})
            ops.append({'op': 'deliver', 'i': 1, 'j': 0, 'n': 100000, 'keep': True})
            ops.append({'op': 'process', 'i': 0, 'keep': True})
            ops.append({'op': 'tick', 'dt': dt0, 'keep': True})
        ops.append({'op': 'set_address', 'i': 0, 'addr': a, 'keep': True})
        ops.append({'op': 'set_address', 'i': 1, 'addr': b, 'keep': True})
    sends = []
    total_frames = 0
    if duplex_bias:
        n0, n1 = rng.randrange(1, 3), rng.randrange(1, 3)
    else:
        n0, n1 = rng.choice([(1, 0), (2, 0), (3, 1), (0, 2), (5, 0), (1, 1)])
    for side, n, p, ad, peer in ((0, n0, pa, a, pb), (1, n1, pb, b, pa)):
        txdl = p.get('tx_data_length', 8)
        pre = gen.prefix_len(ad, 'tx')
        for _ in range(n):
            rid += 1
            if big and rng.random() < 0.3:
                ln = rng.choice([4095, 4096, 4097, 10000, 20000])
            else:
                ln = gen.rand_len(rng, txdl, pre)
            ln = max(1, min(ln, peer.get('max_frame_size', 4095)))
            if peer.get('max_frame_size', 4095) == 0:
                continue
            sends.append({'op': 'send', 'i': side, 'id': rid, 'data': gen.rand_payload(rng, ln)})
            total_frames += frames_needed(ln, txdl, pre)
    rng.shuffle(sends)
    pending = list(sends)
    steps = rng.choice([0, 20, 80, 200])
    for _ in range(steps):
        r = rng.random()
        if pending and r < 0.12:
            ops.append(pending.pop(0))
        elif r < 0.45:
            op = {'op': 'process', 'i': rng.randrange(2)}
            if tx_only_passes and rng.random() < 0.2:
                op['rx'] = False
            ops.append(op)
        elif r < 0.8:
            i = rng.randrange(2)
            ops.append({'op': 'deliver', 'i': i, 'j': 1 - i, 'n': rng.choice([1, 1, 1, 2, 5, 100])})
        elif r < 0.9:
            ops.append({'op': 'tick', 'dt': rng.choice([0, 1000, 100000, 1000000, 2000000])})
        else:
            ops.append({'op': 'recv', 'i': rng.randrange(2)})
    ops.extend(pending)
    # regular processing until everything is through: one canonical round per possible frame
    dt = max(ref.stmin_ns(pa.get('stmin', 0)) or 0, ref.stmin_ns(pb.get('stmin', 0)) or 0, 1000000) + 1
    for _ in range(2 * total_frames + 8):
        ops.append({'op': 'deliver', 'i': 0, 'j': 1, 'n': 100000, 'keep': True})
        ops.append({'op': 'process', 'i': 1, 'keep': True})
        ops.append({'op': 'deliver', 'i': 1, 'j': 0, 'n': 100000, 'keep': True})
        ops.append({'op': 'process', 'i': 0, 'keep': True})
        ops.append({'op': 'tick', 'dt': dt, 'keep': True})
    return {'ops': ops}


def judge_transfer(sc, lines_in, impl_out, allow_missing=None):
    """every accepted payload delivered exactly once, in order, on the other side; no error"""
    out = []
    sent = {0: [], 1: []}
    got = {0: [], 1: []}
    payload = {}
    for op in sc['ops']:
        if op['op'] == 'send':
            payload[op['id']] = bytes(op['data'])
    for r in trace.records(lines_in, impl_out):
        if r.op == 'send' and r.result == 'ok':
            sent[r.layer].append(payload[int(r.toks[2])])
        if r.result.startswith('exc') and r.op in ('process', 'send'):
            out.append(('no_exception', '%s raised %s' % (r.op, r.result)))
        for e in r.events:
            if e['k'] == 'err':
                out.append(('no_error', 'layer %d reported %s' % (r.layer, e['name'])))
            elif e['k'] == 'deliver':
                got[r.layer].append(e['data'])
    for s, d in ((0, 1), (1, 0)):
        if got[d] != sent[s]:
            out.append(('delivery', 'layer %d sent %d payloads (lengths %s), layer %d received lengths %s%s' % (
                s, len(sent[s]), [len(x) for x in sent[s]][:8], d, [len(x) for x in got[d]][:8],
                '' if [len(x) for x in got[d]] != [len(x) for x in sent[s]] else ' with different content')))
    return out[:4]


class C01(PropBase):
    id = 'C01'
    partial_passes = 0.25
    lean_modules = ['Isotp.Props.C01']
    theorems = []
    rule = ('two real layers with mirrored addresses (7 modes, asymmetric mixes, random ids/bytes/custom bases) joined by FIFO links; random '
            'tx_data_length x min length x padding x blocksize x stmin on each side; 0..5 queued payloads per side with lengths on every SF/FF/CF '
            'boundary; random schedule of process / deliver / tick / recv followed by regular canonical rounds; non-trivial = at least one '
            'multi-frame or two payloads; distinct = (modes, tx_dl pair, blocksizes, payload lengths)')
    assumptions = ['reliable in-order links; both sides processed regularly (no gap above the protocol timeouts)']
    quick_per_shard = 60
    thorough_per_shard = 2500
    keep_ops = ('layer', 'send')

    def scenario(self, rng, tier):
        return net_scenario(rng, tier, big=(tier == 'thorough'))

    def project(self, op_line, out_line):
        return trace.project_events(out_line, keep=('tx', 'err', 'deliver', 'done'), status_keys=('av', 'tr'), drop_times=True)

    def judge(self, sc, lines_in, impl_out):
        return judge_transfer(sc, lines_in, impl_out)

    def nontrivial_key(self, sc, lines_in, impl_out):
        cfgs = [op for op in sc['ops'] if op['op'] == 'layer']
        lens = tuple(len(op['data']) for op in sc['ops'] if op['op'] == 'send')
        if not lens or (len(lens) == 1 and lens[0] < 7):
            return None
        return (str(cfgs[0]['addr'].get('mode', 'asym')), cfgs[0]['params'].get('tx_data_length', 8), cfgs[1]['params'].get('tx_data_length', 8),
                cfgs[0]['params'].get('blocksize', 8), cfgs[1]['params'].get('blocksize', 8), lens)

    def tally(self, dist, sc, lines_in, impl_out):
        PropBase.tally(self, dist, sc, lines_in, impl_out)
        for op in sc['ops']:
            if op['op'] == 'send':
                n = len(op['data'])
                k = 'len:' + ('1-7' if n <= 7 else '8-62' if n <= 62 else '63-400' if n <= 400 else '401-4095' if n <= 4095 else '4096+')
                dist[k] = dist.get(k, 0) + 1
            if op['op'] == 'layer':
                k = 'mode:%s' % op['addr'].get('mode', 'asym')
                dist[k] = dist.get(k, 0) + 1


PROP = C01()
