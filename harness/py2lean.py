#!/venv/bin/python
"""
Source translator (DESIGN 11.7): dumps the Python `ast` of the pure functions of /repo, as they are in the working tree NOW, into
lean/Isotp/Py/Src.lean as terms of the deep embedding `Isotp.Py.PBlock` (lean/Isotp/Py/Ast.lean).

The dumper does not interpret or simplify anything: every `ast` node class of the supported subset is renamed to the constructor of the
same meaning, everything else becomes `PStmt.unsupported "<node>"` (statements) or makes the whole function an unsupported stub
(expressions) - the agreement theorems in lean/Isotp/PyAgree/*.lean then no longer check and the properties that rest on them report
the broken obligation.  What is dropped on purpose: docstrings, comments, type annotations, the ARGUMENTS of raised exceptions
(messages), `logger` calls made as statements.

Also dumped: the members of the `Enum` classes and the integer class constants the functions refer to.

Content-hashed: an unchanged translation does not touch the file (no rebuild).
"""
import ast
import os
import sys
import hashlib

HERE = os.path.dirname(os.path.abspath(__file__))
VERIF = os.path.dirname(HERE)
OUT = os.path.join(VERIF, 'lean', 'Isotp', 'Py', 'Src.lean')

# (file, class, function)
FUNCTIONS = [
    ('isotp/address.py', 'Address', 'validate'),
    ('isotp/address.py', 'Address', '_get_tx_arbitration_id'),
    ('isotp/address.py', 'Address', '_get_rx_arbitration_id'),
    ('isotp/address.py', 'Address', '_is_for_me_normal'),
    ('isotp/address.py', 'Address', '_is_for_me_extended'),
    ('isotp/address.py', 'Address', '_is_for_me_normal_fixed'),
    ('isotp/address.py', 'Address', '_is_for_me_mixed_11bits'),
    ('isotp/address.py', 'Address', '_is_for_me_mixed_29bits'),
    ('isotp/address.py', 'Address', '_requires_extension_byte'),
    ('isotp/address.py', 'Address', 'get_tx_extension_byte'),
    ('isotp/address.py', 'Address', 'get_rx_extension_byte'),
    ('isotp/address.py', 'Address', 'get_tx_arbitration_id'),
    ('isotp/address.py', 'Address', 'get_rx_arbitration_id'),
    ('isotp/address.py', 'Address', 'is_partial_address'),
    ('isotp/address.py', 'Address', '__init__'),
    ('isotp/address.py', 'AsymmetricAddress', '__init__'),
    ('isotp/protocol.py', 'PDU', '__init__'),
    ('isotp/protocol.py', 'PDU', 'craft_flow_control_data'),
    ('isotp/protocol.py', 'TransportLayerLogic', '_get_nearest_can_fd_size'),
    ('isotp/protocol.py', 'TransportLayerLogic', '_get_dlc'),
    ('isotp/tpsock/opts.py', 'GeneralOpts', 'write'),
    ('isotp/tpsock/opts.py', 'FlowControlOpts', 'write'),
    ('isotp/tpsock/opts.py', 'LinkLayerOpts', 'write'),
    ('isotp/tpsock/__init__.py', 'socket', 'set_opts'),
    ('isotp/tpsock/__init__.py', 'socket', 'set_fc_opts'),
    ('isotp/tpsock/__init__.py', 'socket', 'set_ll_opts'),
    ('isotp/tpsock/__init__.py', 'socket', 'bind'),
    ('isotp/tpsock/__init__.py', 'socket', 'close'),
    ('isotp/tpsock/__init__.py', 'socket', 'send'),
    ('isotp/tpsock/__init__.py', 'socket', 'recv'),
    ('isotp/tpsock/__init__.py', 'socket', 'get_opts'),
    ('isotp/tpsock/__init__.py', 'socket', 'get_fc_opts'),
    ('isotp/tpsock/__init__.py', 'socket', 'get_ll_opts'),
    ('isotp/protocol.py', 'TransportLayerLogic', '_process_rx'),
    ('isotp/protocol.py', 'TransportLayerLogic', '_check_timeouts_rx'),
    ('isotp/protocol.py', 'TransportLayerLogic', '_stop_receiving'),
    ('isotp/protocol.py', 'TransportLayerLogic', '_empty_rx_buffer'),
    ('isotp/protocol.py', 'TransportLayerLogic', '_stop_sending_flow_control'),
    ('isotp/protocol.py', 'TransportLayerLogic', '_start_rx_cf_timer'),
    ('isotp/protocol.py', 'TransportLayerLogic', '_start_rx_fc_timer'),
    ('isotp/protocol.py', 'TransportLayerLogic', '_append_rx_data'),
    ('isotp/protocol.py', 'TransportLayerLogic', '_request_tx_flowcontrol'),
    ('isotp/protocol.py', 'TransportLayerLogic', '_start_reception_after_first_frame_if_valid'),
    ('isotp/protocol.py', 'TransportLayerLogic', '_stop_sending'),
    ('isotp/protocol.py', 'TransportLayerLogic', '_make_flow_control'),
    ('isotp/protocol.py', 'TransportLayerLogic', '_process_tx'),
    ('isotp/protocol.py', 'TransportLayerLogic', 'process'),
    ('isotp/protocol.py', 'TransportLayerLogic', 'recv'),
    ('isotp/protocol.py', 'TransportLayerLogic', 'clear_rx_queue'),
    ('isotp/protocol.py', 'TransportLayerLogic', 'clear_tx_queue'),
    ('isotp/protocol.py', 'TransportLayerLogic', 'send'),
    ('isotp/protocol.py', 'TransportLayerLogic', 'set_address'),
    ('isotp/protocol.py', 'TransportLayerLogic', 'load_params'),
    ('isotp/protocol.py', 'TransportLayerLogic.SendRequest', 'complete'),
    ('isotp/tools.py', 'FiniteByteGenerator', '__init__'),
    ('isotp/tools.py', 'FiniteByteGenerator', 'consume'),
    ('isotp/protocol.py', 'TransportLayerLogic', '_make_tx_msg'),
    ('isotp/protocol.py', 'TransportLayerLogic', '_pad_message_data'),
    ('isotp/protocol.py', 'TransportLayerLogic', 'stop_sending'),
    ('isotp/protocol.py', 'TransportLayerLogic', 'stop_receiving'),
    ('isotp/protocol.py', 'TransportLayerLogic', 'reset'),
    ('isotp/protocol.py', 'TransportLayerLogic', 'is_tx_throttled'),
    ('isotp/protocol.py', 'TransportLayerLogic', '_trigger_error'),
    ('isotp/protocol.py', 'TransportLayerLogic', 'available'),
    ('isotp/protocol.py', 'TransportLayerLogic', 'transmitting'),
    ('isotp/protocol.py', 'RateLimiter', 'allowed_bytes'),
    ('isotp/protocol.py', 'RateLimiter', 'reset'),
    ('isotp/protocol.py', 'RateLimiter', 'enable'),
    ('isotp/protocol.py', 'RateLimiter', 'disable'),
    ('isotp/protocol.py', 'RateLimiter', 'update'),
    ('isotp/protocol.py', 'RateLimiter', 'inform_byte_sent'),
    ('isotp/tools.py', 'FiniteByteGenerator', 'remaining_size'),
    ('isotp/tools.py', 'FiniteByteGenerator', 'depleted'),
    ('isotp/tools.py', 'FiniteByteGenerator', 'total_length'),
    ('isotp/protocol.py', 'TransportLayer', 'start'),
    ('isotp/protocol.py', 'TransportLayer', 'stop'),
    ('isotp/protocol.py', 'TransportLayer', '_relay_thread_fn'),
    ('isotp/protocol.py', 'TransportLayer', '_main_thread_fn'),
    ('isotp/protocol.py', 'TransportLayer', 'stop_sending'),
    ('isotp/protocol.py', 'TransportLayer', 'stop_receiving'),
    ('isotp/protocol.py', 'TransportLayer', 'process'),
    ('isotp/protocol.py', 'TransportLayer', 'reset'),
    ('isotp/protocol.py', 'TransportLayerLogic.Params', 'validate'),
    ('isotp/protocol.py', 'TransportLayerLogic.Params', 'set'),
    ('isotp/protocol.py', 'TransportLayerLogic.Params', '__init__'),
    ('isotp/protocol.py', 'TransportLayerLogic.Params', '_fits_float'),
    ('isotp/protocol.py', 'TransportLayerLogic.SendRequest', '__init__'),
    ('isotp/protocol.py', 'TransportLayerLogic', 'sleep_time'),
    ('isotp/protocol.py', 'TransportLayerLogic', 'next_cf_delay'),
    ('isotp/protocol.py', 'TransportLayerLogic', 'is_rx_active'),
    ('isotp/protocol.py', 'TransportLayerLogic', 'is_tx_transmitting_cf'),
    ('isotp/protocol.py', 'RateLimiter', '__init__'),
    ('isotp/protocol.py', 'RateLimiter', 'can_be_enabled'),
    ('isotp/protocol.py', 'RateLimiter', 'set_bitrate'),
    ('isotp/tools.py', 'Timer', '__init__'),
    ('isotp/tools.py', 'Timer', 'set_timeout'),
    ('isotp/tools.py', 'Timer', 'elapsed'),
    ('isotp/tools.py', 'Timer', 'remaining'),
    ('isotp/protocol.py', 'TransportLayer', '_read_relay_queue'),
    ('isotp/protocol.py', 'TransportLayer', '__init__'),
    ('isotp/protocol.py', 'NotifierBasedCanStack', '_rx_canbus'),
    ('isotp/address.py', 'Address', 'is_tx_only'),
    ('isotp/address.py', 'Address', 'is_rx_only'),
    ('isotp/address.py', 'Address', 'get_rx_prefix_size'),
    ('isotp/address.py', 'Address', 'get_tx_payload_prefix'),
    ('isotp/address.py', 'Address', 'is_for_me'),
    ('isotp/address.py', 'Address', 'requires_rx_extension_byte'),
    ('isotp/address.py', 'Address', 'requires_tx_extension_byte'),
    ('isotp/address.py', 'Address', 'is_tx_29bits'),
    ('isotp/address.py', 'Address', 'is_rx_29bits'),
    ('isotp/address.py', 'AsymmetricAddress', 'get_tx_extension_byte'),
    ('isotp/address.py', 'AsymmetricAddress', 'get_rx_extension_byte'),
    ('isotp/address.py', 'AsymmetricAddress', 'is_for_me'),
    ('isotp/address.py', 'AsymmetricAddress', 'get_tx_arbitration_id'),
    ('isotp/address.py', 'AsymmetricAddress', 'get_rx_arbitration_id'),
    ('isotp/address.py', 'AsymmetricAddress', 'is_tx_29bits'),
    ('isotp/address.py', 'AsymmetricAddress', 'is_rx_29bits'),
    ('isotp/address.py', 'AsymmetricAddress', 'requires_tx_extension_byte'),
    ('isotp/address.py', 'AsymmetricAddress', 'requires_rx_extension_byte'),
    ('isotp/address.py', 'AsymmetricAddress', 'get_rx_prefix_size'),
    ('isotp/address.py', 'AsymmetricAddress', 'get_tx_payload_prefix'),
    ('isotp/address.py', 'AsymmetricAddress', 'is_partial_address'),
    ('isotp/can_message.py', 'CanMessage', '__init__'),
    ('isotp/protocol.py', '', 'python_can_tx_canbus_3minus'),
    ('isotp/protocol.py', '', '_make_python_can_tx_func'),
    ('isotp/protocol.py', 'CanStack', '__init__'),
    ('isotp/protocol.py', 'CanStack', 'set_bus'),
    ('isotp/protocol.py', 'NotifierBasedCanStack', '__init__'),
    ('isotp/protocol.py', 'TransportLayerLogic', '_set_rxfn'),
    ('isotp/protocol.py', 'TransportLayer.Events', '__init__'),
    ('isotp/tpsock/__init__.py', 'socket', '__init__'),
    ('isotp/tpsock/__init__.py', 'socket', 'settimeout'),
    ('isotp/tpsock/__init__.py', 'socket', 'gettimeout'),
    ('isotp/tpsock/__init__.py', 'socket', 'fileno'),
    ('isotp/tpsock/opts.py', 'GeneralOpts', '__init__'),
    ('isotp/tpsock/opts.py', 'GeneralOpts', 'read'),
    ('isotp/tpsock/opts.py', 'FlowControlOpts', '__init__'),
    ('isotp/tpsock/opts.py', 'FlowControlOpts', 'read'),
    ('isotp/tpsock/opts.py', 'LinkLayerOpts', '__init__'),
    ('isotp/tpsock/opts.py', 'LinkLayerOpts', 'read'),
    ('isotp/tpsock/opts.py', '', 'assert_is_socket'),
    ('isotp/protocol.py', 'NotifierBasedCanStack', 'start'),
    ('isotp/protocol.py', 'NotifierBasedCanStack', 'stop'),
    ('isotp/protocol.py', '', '_python_can_to_isotp_message'),
    ('isotp/protocol.py', '', '_read_isotp_message'),
    ('isotp/protocol.py', '', 'python_can_tx_canbus_3plus'),
    ('isotp/protocol.py', 'CanStack', '_rx_canbus'),
    ('isotp/tools.py', 'Timer', 'is_timed_out'),
    ('isotp/tools.py', 'Timer', 'is_stopped'),
    ('isotp/tools.py', 'Timer', 'stop'),
    ('isotp/tools.py', 'Timer', 'start'),
    ('isotp/tools.py', 'Timer', 'elapsed_ns'),
    ('isotp/tools.py', 'Timer', 'remaining_ns'),
]

# REGIONS: loop-free parts of functions that contain a loop (`_process_tx` has `while read_tx_queue`, which is outside the subset).  Each is a
# list of consecutive statements located STRUCTURALLY in the function (not by line number); a region that cannot be located becomes an
# unsupported stub.  (file, class, function, region name, locator: function body -> list of statements or None)
def _is_call_test(n, needle):
    return needle in ast.dump(n)


def _ptx_dispatch_index(body):
    """index of the top-level `if self.tx_state == IDLE: ... elif ...` statement of _process_tx (the one that contains the while loop)"""
    for k, st in enumerate(body):
        if isinstance(st, ast.If) and any(isinstance(x, ast.While) for x in ast.walk(st)):
            return k
    return None


def _ptx_prefix(body):
    k = _ptx_dispatch_index(body)
    return None if k is None else body[:k]


def _ptx_tail(body):
    k = _ptx_dispatch_index(body)
    return None if k is None else body[k + 1:]


def _ptx_branch(needle):
    def loc(body):
        k = _ptx_dispatch_index(body)
        if k is None:
            return None
        node = body[k]
        while isinstance(node, ast.If):
            if needle in ast.dump(node.test):
                return node.body
            node = node.orelse[0] if len(node.orelse) == 1 else None
        return None
    return loc


def _ptx_try(body):
    k = _ptx_dispatch_index(body)
    if k is None:
        return None
    for x in ast.walk(body[k]):
        if isinstance(x, ast.Try):
            return x.body
    return None


def _ptx_before_try(body):
    """the statements of the non-empty-payload branch that precede the try (size_on_first_byte, size_offset)"""
    k = _ptx_dispatch_index(body)
    if k is None:
        return None
    for x in ast.walk(body[k]):
        if isinstance(x, ast.If) and x.orelse and any(isinstance(y, ast.Try) for y in x.orelse):
            out = []
            for y in x.orelse:
                if isinstance(y, ast.Try):
                    return out
                out.append(y)
    return None


def _init_state(body):
    """the state-initialisation statements of TransportLayerLogic.__init__: from `self.txfn = ...` to `self.actual_rxdl = ...`"""
    def idx(name):
        for i, x in enumerate(body):
            if isinstance(x, ast.Assign) and len(x.targets) == 1 and dotted(x.targets[0]) == name:
                return i
        return None
    i, j = idx('self.txfn'), idx('self.actual_rxdl')
    if i is None or j is None or j < i:
        return None
    return body[i:j + 1]


# functions computing on floats: see `expr` (BinOp)
FLOAT_ARITH = {('TransportLayerLogic.Params', 'validate'), ('TransportLayerLogic.Params', '_fits_float'),
               ('Timer', 'set_timeout'), ('Timer', 'elapsed'), ('Timer', 'remaining')}
FLOAT_MODE = [False]


REGIONS = [
    ('isotp/protocol.py', 'TransportLayerLogic', '__init__', 'state_init', _init_state),
    ('isotp/protocol.py', 'TransportLayerLogic', '_process_tx', 'prefix', _ptx_prefix),
    ('isotp/protocol.py', 'TransportLayerLogic', '_process_tx', 'standby', _ptx_branch('TRANSMIT_SF_STANDBY')),
    ('isotp/protocol.py', 'TransportLayerLogic', '_process_tx', 'transmit_cf', _ptx_branch("attr='TRANSMIT_CF'")),
    ('isotp/protocol.py', 'TransportLayerLogic', '_process_tx', 'before_start', _ptx_before_try),
    ('isotp/protocol.py', 'TransportLayerLogic', '_process_tx', 'start_tx', _ptx_try),
    ('isotp/protocol.py', 'TransportLayerLogic', '_process_tx', 'tail', _ptx_tail),
]

# classes whose members / integer constants are dumped: (file, dotted class path)
CONST_CLASSES = [
    ('isotp/address.py', 'AddressingMode'),
    ('isotp/address.py', 'TargetAddressType'),
    ('isotp/protocol.py', 'PDU.Type'),
    ('isotp/protocol.py', 'PDU.FlowStatus'),
    ('isotp/tpsock/__init__.py', 'flags'),
    ('isotp/tpsock/__init__.py', 'LinkLayerProtocol'),
    ('isotp/tpsock/opts.py', ''),           # module-level integer constants (option numbers)
    ('isotp/protocol.py', 'TransportLayerLogic.RxState'),
    ('isotp/protocol.py', 'TransportLayerLogic.TxState'),
]


class Unsupported(Exception):
    pass


# Expressions of the embedding are pure.  `x = f(...)` where f changes the object (or pops a queue) is therefore dumped as the STATEMENT-level
# call `"x:=f"(...)`: the `Meths.proc` of the theorem gives both the new environment and the binding of x.
EFFECTFUL_CALLEES = {
    'self._start_reception_after_first_frame_if_valid',
    'self.tx_queue.get', 'self.tx_queue.get_nowait', 'self.rx_queue.get', 'self.rx_queue.get_nowait',
    'self.active_send_request.generator.consume',
    'self.rxfn', 'self._process_rx', 'self._process_tx', 'read',
    'self.burst_bitcount.pop', 'self.burst_time.pop',
}


def lstr(s):
    return '"' + s.replace('\\', '\\\\').replace('"', '\\"') + '"'


def dotted(node):
    """Name / Attribute chain rooted in a Name -> 'a.b.c' (None otherwise)"""
    parts = []
    while isinstance(node, ast.Attribute):
        parts.append(node.attr)
        node = node.value
    if isinstance(node, ast.Name):
        parts.append(node.id)
        return '.'.join(reversed(parts))
    return None


BINOPS = {ast.BitAnd: 'band', ast.BitOr: 'bor', ast.BitXor: 'bxor', ast.LShift: 'shl', ast.RShift: 'shr', ast.Add: 'add', ast.Sub: 'sub',
          ast.Mult: 'mul', ast.FloorDiv: 'floordiv', ast.Mod: 'mod', ast.Div: 'truediv'}
CMPOPS = {ast.Eq: 'eq', ast.NotEq: 'ne', ast.Lt: 'lt', ast.LtE: 'le', ast.Gt: 'gt', ast.GtE: 'ge', ast.In: 'isIn', ast.NotIn: 'notIn'}


def is_none(n):
    return isinstance(n, ast.Constant) and n.value is None


def expr(n):
    if isinstance(n, ast.Constant):
        v = n.value
        if v is None:
            return '.none'
        if v is True:
            return '.tt'
        if v is False:
            return '.ff'
        if isinstance(v, int):
            return '(.int (%d))' % v
        if isinstance(v, str):
            return '(.strLit %s)' % lstr(v)
        if isinstance(v, float):
            # a float literal: an opaque value (floats are outside the subset); the `Meths` of the theorem says what it stands for
            return '(.call "__float__" (.cons (.strLit %s) .nil))' % lstr(repr(v))
        raise Unsupported('constant %r' % (v,))
    if isinstance(n, (ast.Name, ast.Attribute)):
        d = dotted(n)
        if d is None and isinstance(n, ast.Attribute):
            # `<expr>.name` on a computed value (e.g. `inspect.signature(f).parameters`): the call "__attr__" on the value and the name
            return '(.call "__attr__" %s)' % ('(.cons %s (.cons (.strLit %s) .nil))' % (expr(n.value), lstr(n.attr)))
        if d is None:
            raise Unsupported('attribute of a computed value')
        return '(.var %s)' % lstr(d)
    if isinstance(n, ast.BinOp):
        if type(n.op) not in BINOPS:
            raise Unsupported(type(n.op).__name__)
        if isinstance(n.op, ast.Mod) and isinstance(n.left, ast.Constant) and isinstance(n.left.value, str):
            # `"..." % values`: an opaque call (resolved by the `Meths` of the theorem: it yields some string); the operands are still evaluated
            right = list(n.right.elts) if isinstance(n.right, ast.Tuple) else [n.right]
            return '(.call "__format__" %s)' % args(right)
        if FLOAT_MODE[0] and isinstance(n.op, (ast.Mult, ast.Div)):
            # in a function whose operands may be floats, `a * b` / `a / b` are dumped as the calls they are in Python (`__mul__`, `__truediv__`):
            # the interpreter's own arithmetic is integer arithmetic, the float results are facts supplied through the `Meths` of the theorem
            return '(.call %s %s)' % (lstr('__mul__' if isinstance(n.op, ast.Mult) else '__truediv__'), args([n.left, n.right]))
        return '(.binop .%s %s %s)' % (BINOPS[type(n.op)], expr(n.left), expr(n.right))
    if isinstance(n, ast.UnaryOp):
        if isinstance(n.op, ast.Not):
            return '(.not_ %s)' % expr(n.operand)
        if isinstance(n.op, ast.USub) and isinstance(n.operand, ast.Constant) and isinstance(n.operand.value, int):
            return '(.int (%d))' % (-n.operand.value)
        raise Unsupported('unary ' + type(n.op).__name__)
    if isinstance(n, ast.BoolOp):
        ctor = '.and_' if isinstance(n.op, ast.And) else '.or_'
        vals = [expr(v) for v in n.values]
        out = vals[-1]
        for v in reversed(vals[:-1]):
            out = '(%s %s %s)' % (ctor, v, out)
        return out
    if isinstance(n, ast.Compare):
        if len(n.ops) != 1:
            raise Unsupported('chained comparison')
        op, r = n.ops[0], n.comparators[0]
        if isinstance(op, ast.Is):
            if not is_none(r):
                raise Unsupported('is <not None>')
            return '(.isNone %s)' % expr(n.left)
        if isinstance(op, ast.IsNot):
            if not is_none(r):
                raise Unsupported('is not <not None>')
            return '(.isNotNone %s)' % expr(n.left)
        if type(op) not in CMPOPS:
            raise Unsupported(type(op).__name__)
        if isinstance(op, ast.In) and isinstance(n.left, ast.Constant) and isinstance(n.left.value, str):
            # `'name' in mapping`: membership of a STRING in a container that is not a list literal of scalars (the only thing the
            # interpreter's `isIn` decides) - dumped as the container's `__contains__`, resolved by the `Meths` of the theorem
            return '(.call "__contains__" %s)' % args([r, n.left])
        return '(.cmp .%s %s %s)' % (CMPOPS[type(op)], expr(n.left), expr(r))
    if isinstance(n, ast.IfExp):
        return '(.ifexp %s %s %s)' % (expr(n.test), expr(n.body), expr(n.orelse))
    if isinstance(n, (ast.List, ast.Tuple)):
        return '(.lst %s)' % args(n.elts)
    if isinstance(n, ast.Subscript):
        s = n.slice
        if isinstance(s, ast.Slice):
            if s.step is not None:
                raise Unsupported('slice step')
            if s.lower is not None and s.upper is not None:
                return '(.slice %s %s %s)' % (expr(n.value), expr(s.lower), expr(s.upper))
            if s.lower is not None:
                return '(.sliceFrom %s %s)' % (expr(n.value), expr(s.lower))
            if s.upper is not None:
                return '(.sliceTo %s %s)' % (expr(n.value), expr(s.upper))
            raise Unsupported('full slice')
        if isinstance(s, ast.UnaryOp) and isinstance(s.op, ast.USub) and isinstance(s.operand, ast.Constant) and s.operand.value == 1:
            return '(.call "__last__" %s)' % args([n.value])       # `x[-1]`: the last element (negative indices are not part of `index`)
        return '(.index %s %s)' % (expr(n.value), expr(s))
    if isinstance(n, ast.Call):
        f = dotted(n.func)
        if f is None and isinstance(n.func, ast.Attribute) and isinstance(n.func.value, ast.Call) and not n.func.value.args \
                and not n.func.value.keywords and dotted(n.func.value.func) is not None:
            # a method of the object returned by an argument-less call: `q.get_nowait().complete(x)` -> callee "q.get_nowait().complete"
            f = dotted(n.func.value.func) + '().' + n.func.attr
        if f is None:
            raise Unsupported('call of a computed value')
        if n.keywords or any(isinstance(x, ast.Starred) for x in n.args):
            # keyword arguments: passed after the positional ones, their names appended to the callee's name (`f(a, k=b)` -> `f#k` [a, b]), so
            # that the `Meths` of the theorem sees which parameter each value goes to; `*xs` / `**kw` are passed as the sequence / mapping
            # itself, marked `#*` / `#**` in the callee's name (`f(*a, **k)` -> `f#*#**` [a, k])
            name = f + ''.join('#*' for x in n.args if isinstance(x, ast.Starred)) + ''.join('#' + (k.arg or '**') for k in n.keywords)
            pos = [x.value if isinstance(x, ast.Starred) else x for x in n.args]
            return '(.call %s %s)' % (lstr(name), args(pos + [k.value for k in n.keywords]))
        if f == 'cast' and len(n.args) == 2 and not n.keywords:
            # `typing.cast(T, x)` returns x unchanged at run time; the type expression is not evaluated into the model
            return expr(n.args[1])
        if f == 'isinstance':
            if len(n.args) != 2:
                raise Unsupported('isinstance arity')
            t = n.args[1]
            if isinstance(t, ast.Name) and t.id in ('int', 'bool', 'float'):
                return '(.call %s %s)' % (lstr('isinstance_' + t.id), args(n.args[:1]))
            if isinstance(t, ast.Tuple) and sorted(dotted(e) or '?' for e in t.elts) == ['float', 'int']:
                return '(.call "isinstance_int_float" %s)' % args(n.args[:1])
            if isinstance(t, ast.Tuple) and all(dotted(e) is not None for e in t.elts):
                return '(.call %s %s)' % (lstr('isinstance_' + '_'.join(dotted(e).split('.')[-1] for e in t.elts)), args(n.args[:1]))
            d = dotted(t)
            if d is not None:
                # a class of the package: not a builtin of the interpreter, so the call is resolved by the `Meths` of the theorem
                return '(.call %s %s)' % (lstr('isinstance_' + d.split('.')[-1]), args(n.args[:1]))
            raise Unsupported('isinstance with %s' % ast.dump(t))
        return '(.call %s %s)' % (lstr(f), args(n.args))
    if isinstance(n, ast.GeneratorExp) and len(n.generators) == 1 and not n.generators[0].ifs and not n.generators[0].is_async \
            and isinstance(n.generators[0].target, ast.Name) and isinstance(n.elt, ast.Name) and n.elt.id == n.generators[0].target.id:
        # `(x for x in it)`: the identity generator over `it`
        return '(.call "__iter__" %s)' % args([n.generators[0].iter])
    if isinstance(n, ast.Dict) and not n.keys:
        return '(.call "__emptydict__" .nil)'
    raise Unsupported(type(n).__name__)


def args(elts):
    out = '.nil'
    for e in reversed(elts):
        out = '(.cons %s %s)' % (expr(e), out)
    return out


def target(n):
    d = dotted(n)
    if d is None:
        raise Unsupported('assignment target')
    return d


def stmt(n):
    """-> Lean PStmt term, or None when the statement is dropped (docstring, logging)"""
    try:
        if isinstance(n, ast.Expr):
            if isinstance(n.value, ast.Constant) and isinstance(n.value.value, str):
                return None        # docstring
            if isinstance(n.value, ast.Call):
                f = dotted(n.value.func) or ''
                if f.split('.')[0] in ('logger', 'logging') or '.logger.' in '.' + f + '.':
                    return None
            return '(.expr %s)' % expr(n.value)
        if isinstance(n, ast.Assign):
            if len(n.targets) != 1:
                raise Unsupported('multiple assignment')
            v = n.value
            tg = n.targets[0]
            if isinstance(tg, ast.Tuple) and all(dotted(e) is not None for e in tg.elts):
                # `a, b = v` / `(o.x, o.y) = v`: unpacking binds all targets or raises: the statement-level call "a,b:=__unpack__" on the value
                return '(.expr (.call %s %s))' % (lstr(','.join(dotted(e) for e in tg.elts) + ':=__unpack__'), args([v]))
            if isinstance(v, ast.Call) and dotted(v.func) == 'bytearray' and len(v.args) == 1 and isinstance(v.args[0], ast.Call) \
                    and dotted(v.args[0].func) == 'itertools.islice' and not v.keywords and not v.args[0].keywords:
                # `x = bytearray(itertools.islice(gen, n))` pulls n values out of the generator: an effect, dumped as the statement-level call
                # "x:=bytearray(itertools.islice)" with islice's arguments
                return '(.expr (.call %s %s))' % (lstr('%s:=bytearray(itertools.islice)' % target(n.targets[0])), args(v.args[0].args))
            if isinstance(n.value, ast.Call) and (dotted(n.value.func) or '') in EFFECTFUL_CALLEES:
                c = n.value
                kws = ''.join('#' + k.arg for k in c.keywords if k.arg)
                return '(.expr (.call %s %s))' % (lstr('%s:=%s%s' % (target(n.targets[0]), dotted(c.func), kws)),
                                                  args(list(c.args) + [k.value for k in c.keywords]))
            return '(.assign %s %s)' % (lstr(target(n.targets[0])), expr(n.value))
        if isinstance(n, ast.AnnAssign):
            if n.value is None:
                return None
            return '(.assign %s %s)' % (lstr(target(n.target)), expr(n.value))
        if isinstance(n, ast.AugAssign) and isinstance(n.target, ast.Subscript) and isinstance(n.op, ast.Add) and dotted(n.target.value) \
                and isinstance(n.target.slice, ast.UnaryOp) and isinstance(n.target.slice.op, ast.USub) \
                and isinstance(n.target.slice.operand, ast.Constant) and n.target.slice.operand.value == 1:
            # `x[-1] += v`: an update in place of the last element of a list held by the object: statement-level call "x[-1]+="
            return '(.expr (.call %s %s))' % (lstr(dotted(n.target.value) + '[-1]+='), args([n.value]))
        if isinstance(n, ast.AugAssign):
            if type(n.op) not in BINOPS:
                raise Unsupported('augmented ' + type(n.op).__name__)
            t = target(n.target)
            return '(.assign %s (.binop .%s (.var %s) %s))' % (lstr(t), BINOPS[type(n.op)], lstr(t), expr(n.value))
        if isinstance(n, ast.Return):
            return '.retNone' if n.value is None else '(.ret %s)' % expr(n.value)
        if isinstance(n, ast.Raise):
            e = n.exc
            if isinstance(e, ast.Call):
                e = e.func
            d = dotted(e) if e is not None else None
            if d is None:
                raise Unsupported('raise')
            return '(.raise %s)' % lstr(d.split('.')[-1])
        if isinstance(n, ast.Assert):
            return '(.assert_ %s)' % expr(n.test)
        if isinstance(n, ast.If):
            return '(.ite %s %s %s)' % (expr(n.test), block(n.body), block(n.orelse))
        if isinstance(n, (ast.Import, ast.ImportFrom)):
            # a local import binds module names: kept visible as a call on the imported names
            return '(.expr (.call "__import__" %s))' % ('(.cons (.strLit %s) .nil)' % lstr(','.join(a.name for a in n.names)))
        if isinstance(n, ast.Pass):
            return '.pass'
        if isinstance(n, ast.Try):
            # only `try: <ONE assignment or expression statement> except Exception [as e]: ...` (no else / finally): see `PStmt.tryExcept`
            if n.finalbody and not n.handlers and not n.orelse:
                return '(.tryFinally %s %s)' % (block(n.body), block(n.finalbody))
            if n.orelse or n.finalbody or len(n.handlers) != 1:
                raise Unsupported('Try (shape)')
            h = n.handlers[0]
            cls = 'Exception' if h.type is None else (dotted(h.type) or '')
            if not cls:
                raise Unsupported('except <computed class>')
            pre = [] if h.name is None else ['(.assign %s (.call "__caught__" .nil))' % lstr(h.name)]
            hb = block(h.body)
            for t in reversed(pre):
                hb = '(.cons %s\n    %s)' % (t, hb)
            if cls == 'Exception' and len(n.body) == 1 and isinstance(n.body[0], (ast.Assign, ast.Expr)):
                return '(.tryExcept %s %s)' % (block(n.body), hb)       # has a meaning in both semantics
            # any body, a specific class: meaning in the fuelled semantics (Exec2.lean) only
            return '(.tryCatch %s %s %s)' % (block(n.body), lstr(cls.split('.')[-1]), hb)
        if isinstance(n, ast.Break):
            return '.break_'
        if isinstance(n, ast.While):
            if n.orelse:
                raise Unsupported('while ... else')
            return '(.while_ %s %s)' % (expr(n.test), block(n.body))
        if isinstance(n, ast.FunctionDef):
            # a nested function definition binds a function object to a local name; its body is not part of this function's behaviour
            return '(.assign %s (.call "__function__" (.cons (.strLit %s) .nil)))' % (lstr(n.name), lstr(n.name))
        raise Unsupported(type(n).__name__)
    except Unsupported as u:
        return '(.unsupported %s)' % lstr('%s at line %d' % (u, getattr(n, 'lineno', 0)))


def block(stmts):
    terms = [t for t in (stmt(s) for s in stmts) if t is not None]
    out = '.nil'
    for t in reversed(terms):
        out = '(.cons %s\n    %s)' % (t, out)
    return out


def find_class(tree, path):
    node = tree
    for name in path.split('.'):
        nxt = None
        for c in node.body:
            if isinstance(c, ast.ClassDef) and c.name == name:
                nxt = c
        if nxt is None:
            return None
        node = nxt
    return node


def lean_name(cls, fn):
    if fn.startswith('__'):
        fn = fn.strip('_')
    elif fn.startswith('_'):
        fn = 'p_' + fn[1:]          # "private" methods keep a marker: `get_x` and `_get_x` both exist
    return '%s_%s' % (cls.replace('.', '_'), fn)


def translate(repo):
    trees = {}
    out = ['/- GENERATED by harness/py2lean.py from the working tree of the repository - do not edit. -/',
           'import Isotp.Py.Ast', 'namespace Isotp.Py.Src', 'open Isotp.Py', '']
    report = {}
    for f, cls, fn in FUNCTIONS:
        if f not in trees:
            trees[f] = ast.parse(open(os.path.join(repo, f), encoding='utf-8', newline=None).read())
        c = find_class(trees[f], cls) if cls else trees[f]      # cls == '': a module-level function
        fd = None
        if c is not None:
            for m in c.body:
                if isinstance(m, ast.FunctionDef) and m.name == fn:
                    fd = m
        name = lean_name(cls or 'module', fn)
        if fd is None:
            out.append('/-- %s.%s: NOT FOUND in %s -/' % (cls, fn, f))
            out.append('def %s : PBlock := .cons (.unsupported "function not found") .nil' % name)
            out.append('def %s_params : List String := []' % name)
            report[name] = 'missing'
            continue
        params = [a.arg for a in fd.args.args]
        FLOAT_MODE[0] = (cls, fn) in FLOAT_ARITH
        body = block(fd.body)
        FLOAT_MODE[0] = False
        out.append('/-- %s.%s (%s) -/' % (cls, fn, f))
        out.append('def %s : PBlock :=\n    %s' % (name, body))
        out.append('def %s_params : List String := [%s]' % (name, ', '.join(lstr(p) for p in params)))
        out.append('')
        report[name] = 'unsupported' if '.unsupported' in body else 'ok'
    # regions
    for f, cls, fn, rname, loc in REGIONS:
        if f not in trees:
            trees[f] = ast.parse(open(os.path.join(repo, f), encoding='utf-8', newline=None).read())
        c = find_class(trees[f], cls)
        fd = None
        if c is not None:
            for m in c.body:
                if isinstance(m, ast.FunctionDef) and m.name == fn:
                    fd = m
        name = lean_name(cls, fn) + '__' + rname
        stmts = None
        if fd is not None:
            try:
                stmts = loc(fd.body)
            except Exception:
                stmts = None
        if not stmts:
            out.append('/-- region %s of %s.%s: NOT FOUND -/' % (rname, cls, fn))
            out.append('def %s : PBlock := .cons (.unsupported "region not found") .nil' % name)
            report[name] = 'missing'
            continue
        body = block(stmts)
        out.append('/-- region `%s` of %s.%s (%s): %d consecutive statements located structurally -/' % (rname, cls, fn, f, len(stmts)))
        out.append('def %s : PBlock :=\n    %s' % (name, body))
        out.append('')
        report[name] = 'unsupported' if '.unsupported' in body else 'ok'
    # class constants
    consts = []
    for f, path in CONST_CLASSES:
        if f not in trees:
            trees[f] = ast.parse(open(os.path.join(repo, f), encoding='utf-8', newline=None).read())
        c = find_class(trees[f], path) if path else trees[f]
        if c is None:
            continue
        if not path:
            for m in c.body:
                if isinstance(m, ast.Assign) and len(m.targets) == 1 and isinstance(m.targets[0], ast.Name) and isinstance(m.value, ast.Constant) \
                        and isinstance(m.value.value, int) and not isinstance(m.value.value, bool):
                    consts.append(('', m.targets[0].id, 'pint (%d)' % m.value.value, m.value.value))
            continue
        is_enum = any((dotted(b) or '').split('.')[-1] == 'Enum' for b in c.bases)
        short = path.split('.')[-1]
        for m in c.body:
            if isinstance(m, ast.Assign) and len(m.targets) == 1 and isinstance(m.targets[0], ast.Name) and isinstance(m.value, ast.Constant) \
                    and isinstance(m.value.value, int) and not isinstance(m.value.value, bool):
                if is_enum:
                    consts.append((path, m.targets[0].id, '.sc (.enum %s %s)' % (lstr(short), lstr(m.targets[0].id)), m.value.value))
                else:
                    consts.append((path, m.targets[0].id, 'pint (%d)' % m.value.value, m.value.value))
    def keys(path, member):
        if not path:
            return [member]
        ks = ['%s.%s' % (path, member)]
        if '.' in path:
            ks.append('self.%s.%s' % (path.split('.', 1)[1], member))      # a nested class is reached through `self` inside its outer class
        return ks
    out.append('/-- members of the Enum classes (values equal only to themselves) and integer class constants, by the dotted path the functions use -/')
    out.append('def consts : List (String × PV) := [')
    out.append(',\n'.join('  (%s, %s)' % (lstr(k), v) for p, m, v, _ in consts for k in keys(p, m)))
    out.append(']')
    out.append('/-- the integer VALUE of each of them (`AddressingMode.X.value`, ...) -/')
    out.append('def constValues : List (String × Int) := [')
    out.append(',\n'.join('  (%s, %d)' % (lstr(('%s.%s' % (p, m)) if p else m), iv) for p, m, _, iv in consts))
    out.append(']')
    out.append('')
    out.append('end Isotp.Py.Src')
    return '\n'.join(out) + '\n', report


def main(repo=None):
    repo = repo or os.environ.get('VERIF_REPO', '/repo')
    text, report = translate(repo)
    old = open(OUT, encoding='utf-8').read() if os.path.exists(OUT) else None
    if old != text:
        os.makedirs(os.path.dirname(OUT), exist_ok=True)
        tmp = OUT + '.tmp'
        with open(tmp, 'w', encoding='utf-8') as f:
            f.write(text)
        os.replace(tmp, OUT)
    return {'sha': hashlib.sha1(text.encode()).hexdigest()[:12], 'changed': old != text, 'functions': report}


if __name__ == '__main__':
    r = main(sys.argv[1] if len(sys.argv) > 1 else None)
    print(r)
