import Isotp.Proofs.Req
/-
  Network-level safety (C01 / C10), part 2: two facts about one `_process_tx` pass that the endpoint
  libraries do not state:
  * the request queue only loses elements at its head (`txQueue` after the pass is a suffix of `txQueue` before);
  * a request is completed with failure (`complete(False)`) only together with an error report
    (`FailErr`: if the events logged by the pass contain a `done _ false`, they contain an `err`).
  Both go through the stage decomposition of `_process_tx` of Proofs/Req.lean (C12).
-/
namespace Isotp.NetP
open Isotp Isotp.State

/-- `l'` extends `l` (newest first) by events among which a failed completion comes with an error report -/
def FailErr (l l' : List Ev) : Prop :=
  ∃ new, l' = new ++ l ∧ ((∃ i, Ev.done i false ∈ new) → ∃ t x, Ev.err t x ∈ new)

theorem FailErr.refl (l : List Ev) : FailErr l l := ⟨[], rfl, by simp⟩

theorem FailErr.trans {a b c : List Ev} (h1 : FailErr a b) (h2 : FailErr b c) : FailErr a c := by
  obtain ⟨n1, rfl, p1⟩ := h1
  obtain ⟨n2, rfl, p2⟩ := h2
  refine ⟨n2 ++ n1, by simp, ?_⟩
  rintro ⟨i, hi⟩
  rcases List.mem_append.mp hi with hi | hi
  · obtain ⟨t, x, h⟩ := p2 ⟨i, hi⟩
    exact ⟨t, x, List.mem_append_left _ h⟩
  · obtain ⟨t, x, h⟩ := p1 ⟨i, hi⟩
    exact ⟨t, x, List.mem_append_right _ h⟩

theorem FailErr.err (l : List Ev) (t : Nat) (x : Err) : FailErr l (.err t x :: l) :=
  ⟨[.err t x], rfl, fun _ => ⟨t, x, by simp⟩⟩

theorem FailErr.doneTrue (l : List Ev) (i : Nat) : FailErr l (.done i true :: l) :=
  ⟨[.done i true], rfl, by simp⟩

theorem FailErr.pull (l : List Ev) (i n : Nat) : FailErr l (.pull i n :: l) :=
  ⟨[.pull i n], rfl, by simp⟩

theorem FailErr.doneErr (l : List Ev) (i : Nat) (b : Bool) (t : Nat) (x : Err) : FailErr l (.done i b :: .err t x :: l) :=
  ⟨[.done i b, .err t x], rfl, fun _ => ⟨t, x, by simp⟩⟩

theorem FailErr.errDone (l : List Ev) (i : Nat) (b : Bool) (t : Nat) (x : Err) : FailErr l (.err t x :: .done i b :: l) :=
  ⟨[.err t x, .done i b], rfl, fun _ => ⟨t, x, by simp⟩⟩

/-- one stage of a transmit pass: the queue only shrinks from the head; failures come with an error report -/
structure TxStep (s s' : State) : Prop where
  queue : s'.txQueue <:+ s.txQueue
  log : FailErr s.log s'.log

theorem TxStep.refl (s : State) : TxStep s s := ⟨List.suffix_refl _, FailErr.refl _⟩

theorem TxStep.trans {a b c : State} (h1 : TxStep a b) (h2 : TxStep a b → TxStep b c) : TxStep a c :=
  ⟨(h2 h1).queue.trans h1.queue, h1.log.trans (h2 h1).log⟩

theorem TxStep.trans' {a b c : State} (h1 : TxStep a b) (h2 : TxStep b c) : TxStep a c :=
  ⟨h2.queue.trans h1.queue, h1.log.trans h2.log⟩

/-- `s'` has the queue and the log of `s` -/
theorem TxStep.of_eq {s s' : State} (hq : s'.txQueue = s.txQueue) (hl : s'.log = s.log) : TxStep s s' :=
  ⟨by rw [hq]; exact List.suffix_refl _, by rw [hl]; exact FailErr.refl _⟩

theorem TxStep.stopTrue {s s' : State} (hq : s'.txQueue = s.txQueue) (hl : s'.log = s.log) :
    TxStep s (s'.stopSending true) := by
  unfold stopSending
  cases h : s'.active with
  | none => exact TxStep.of_eq hq hl
  | some r => exact ⟨by rw [← hq]; exact List.suffix_refl _, by rw [← hl]; exact FailErr.doneTrue _ _⟩

theorem TxStep.error {s s' : State} (hq : s'.txQueue = s.txQueue) (hl : s'.log = s.log) (e : Err) :
    TxStep s (s'.error e) :=
  ⟨by rw [← hq]; exact List.suffix_refl _, by rw [← hl]; exact FailErr.err _ _ _⟩

theorem TxStep.errStop {s s' : State} (hq : s'.txQueue = s.txQueue) (hl : s'.log = s.log) (e : Err) (b : Bool) :
    TxStep s ((s'.error e).stopSending b) := by
  unfold stopSending
  cases h : (s'.error e).active with
  | none => exact ⟨by rw [← hq]; exact List.suffix_refl _, by rw [← hl]; exact FailErr.err _ _ _⟩
  | some r => exact ⟨by rw [← hq]; exact List.suffix_refl _, by rw [← hl]; exact FailErr.doneErr _ _ _ _ _⟩

theorem TxStep.stopErr {s s' : State} (hq : s'.txQueue = s.txQueue) (hl : s'.log = s.log) (e : Err) (b : Bool) :
    TxStep s ((s'.stopSending b).error e) := by
  unfold stopSending
  cases h : s'.active with
  | none => exact ⟨by rw [← hq]; exact List.suffix_refl _, by rw [← hl]; exact FailErr.err _ _ _⟩
  | some r => exact ⟨by rw [← hq]; exact List.suffix_refl _, by rw [← hl]; exact FailErr.errDone _ _ _ _ _⟩

/-- closes a leaf goal -/
macro "txstep_leaf" : tactic => `(tactic| first
  | exact TxStep.of_eq (by rfl) (by rfl)
  | exact TxStep.stopTrue (by rfl) (by rfl)
  | exact TxStep.error (by rfl) (by rfl) _
  | exact TxStep.errStop (by rfl) (by rfl) _ _
  | exact TxStep.stopErr (by rfl) (by rfl) _ _)

macro "txstep_split" : tactic => `(tactic| (repeat' (first | split | (dsimp only; done) | dsimp only)))

theorem TxStep.cfTail (s : State) (r' : Req) (rbs : Nat) (res : Option Bytes) :
    TxStep s (C12.cfTail s r' rbs res).1 := by
  unfold C12.cfTail
  cases res with
  | none => txstep_leaf
  | some payload =>
    dsimp only
    by_cases hp : payload.length > 0
    · simp only [hp, if_true]
      cases hm : makeTxMsg s.cfg s.addr (s.addr.tx.txId .physical) (s.addr.tx.txPrefix ++ [u8 (0x20 + s.txSeq)] ++ payload) with
      | none => simp only [if_true]; txstep_leaf
      | some msg =>
        simp only [Bool.false_eq_true, if_false]
        repeat' split
        all_goals txstep_leaf
    · simp only [hp, if_false, Bool.false_eq_true]
      repeat' split
      all_goals txstep_leaf

theorem TxStep.ite (c : Prop) [Decidable c] {s a b : State} (ha : TxStep s a) (hb : TxStep s b) :
    TxStep s (if c then a else b) := by split <;> assumption

theorem TxStep.handleFc (s : State) (f : FcFrame) : TxStep s (s.handleFc f) := by
  unfold State.handleFc
  dsimp only
  repeat' split
  all_goals txstep_leaf

theorem TxStep.txFc (s : State) : TxStep s (C12.txFc s).1 := by
  unfold C12.txFc
  dsimp only
  split
  · split
    · txstep_leaf
    · exact TxStep.trans' (TxStep.of_eq rfl rfl : TxStep s { s with lastFc := none }) (TxStep.handleFc _ _)
  · txstep_leaf

theorem TxStep.txTimeout (s : State) : TxStep s (C12.txTimeout s) := by
  unfold C12.txTimeout
  exact TxStep.ite _ (TxStep.errStop rfl rfl _ _) (TxStep.refl _)

theorem TxStep.txDepl (s : State) : TxStep s (C12.txDepl s) := by
  unfold C12.txDepl
  exact TxStep.ite _ (TxStep.stopTrue rfl rfl) (TxStep.refl _)

theorem TxStep.consumeActive (s : State) (r : Req) (n : Nat) (e : Bool) : TxStep s (s.consumeActive r n e).1 := by
  unfold State.consumeActive
  dsimp only
  split
  · exact ⟨List.suffix_refl _, FailErr.pull _ _ _⟩
  · txstep_leaf

theorem TxStep.sfTail (s : State) (r : Req) (b : Bool) (allowed : Nat) (res : Option Bytes) :
    TxStep s (C12.sfTail s r b allowed res).1 := by
  unfold C12.sfTail
  cases res with
  | none => txstep_leaf
  | some payload =>
    dsimp only
    repeat' split
    all_goals txstep_leaf

theorem TxStep.ffTail (s : State) (total : Nat) (allowed : Nat) (res : Option Bytes) :
    TxStep s (C12.ffTail s total allowed res).1 := by
  unfold C12.ffTail
  cases res with
  | none => txstep_leaf
  | some payload =>
    dsimp only
    repeat' split
    all_goals txstep_leaf

theorem TxStep.startTx (s : State) (r : Req) (allowed : Nat) : TxStep s (s.startTx r allowed).1 := by
  rw [C12.startTx_eq]
  split
  · exact (TxStep.consumeActive s r _ _).trans' (TxStep.sfTail _ _ _ _ _)
  · exact (TxStep.trans' (TxStep.of_eq rfl rfl : TxStep s { s with txFrameLen := r.size })
      (TxStep.consumeActive _ r _ _)).trans' (TxStep.ffTail _ _ _ _)

theorem TxStep.readTxQueue (allowed : Nat) (q : List Req) : ∀ s : State, q <:+ s.txQueue →
    TxStep s (s.readTxQueue allowed q).1 := by
  induction q with
  | nil => intro s hq; exact ⟨List.nil_suffix, FailErr.refl _⟩
  | cons r rest ih =>
    intro s hq
    have hrest : rest <:+ s.txQueue := (List.suffix_cons r rest).trans hq
    cases hd : r.depleted
    · rw [C12.readTxQueue_start _ _ _ _ hd]
      exact TxStep.trans' (⟨hrest, FailErr.refl _⟩ : TxStep s { s with txQueue := rest, active := some r })
        (TxStep.startTx _ _ _)
    · rw [C12.readTxQueue_depl _ _ _ _ hd]
      exact TxStep.trans'
        (⟨hrest, FailErr.doneTrue _ _⟩ :
          TxStep s { s with txQueue := rest, active := none, log := .done r.id true :: s.log })
        (ih _ (List.suffix_refl _))

theorem TxStep.transmitCf (s : State) (allowed : Nat) : TxStep s (s.transmitCf allowed).1 := by
  rw [C12.transmitCf_eq]
  split
  · txstep_leaf
  · txstep_leaf
  · split
    · split
      · exact (TxStep.consumeActive s _ _ _).trans' (TxStep.cfTail _ _ _ _)
      · txstep_leaf
    · txstep_leaf

theorem TxStep.txFsm (s : State) (allowed : Nat) : TxStep s (C12.txFsm s allowed).1 := by
  unfold C12.txFsm
  cases hst : s.txState with
  | idle => exact TxStep.readTxQueue allowed s.txQueue s (List.suffix_refl _)
  | waitFc => txstep_leaf
  | transmitCf => exact TxStep.transmitCf _ _
  | sfStandby =>
    dsimp only
    cases hsb : s.standby with
    | none => txstep_leaf
    | some msg =>
      dsimp only
      repeat' split
      all_goals txstep_leaf
  | ffStandby =>
    dsimp only
    cases hsb : s.standby with
    | none => txstep_leaf
    | some msg =>
      dsimp only
      repeat' split
      all_goals txstep_leaf

theorem TxStep.txFinish (x : State × Option CanMsg × Bool) : TxStep x.1 (C12.txFinish x).1 := by
  obtain ⟨s, out, imm⟩ := x
  unfold C12.txFinish
  dsimp only
  repeat' split
  all_goals txstep_leaf

theorem TxStep.txPend (s : State) : TxStep s (C12.txPend s).1 :=
  TxStep.of_eq (C12.txPend_fields s).1 (C12.txPend_fields s).2.2.2.2.1

/-- one `_process_tx` pass: the queue only shrinks from the head; a failed completion comes with an error report -/
theorem TxStep.processTx (s : State) : TxStep s s.processTx.1 := by
  rw [C12.processTx_eq]
  have a1 := TxStep.txPend s
  split
  · rename_i s1 hp; rw [hp] at a1; exact a1
  · rename_i s1 msg hp; rw [hp] at a1; exact a1
  · rename_i s1 hp
    rw [hp] at a1
    have a2 := TxStep.txFc s1
    split
    · rename_i s2 hf; rw [hf] at a2; exact a1.trans' a2
    · rename_i s2 hf
      rw [hf] at a2
      have a3 := TxStep.txTimeout s2
      split
      · exact (a1.trans' a2).trans' (a3.trans' (TxStep.of_eq rfl rfl))
      · exact ((((a1.trans' a2).trans' a3).trans' (TxStep.txDepl _)).trans' (TxStep.txFsm _ _)).trans'
          (TxStep.txFinish _)

end Isotp.NetP
