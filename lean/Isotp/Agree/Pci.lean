import Isotp.Generated
import Isotp.Pdu
/-
  Leaf: PCI classification of `decodeBody` = `PDU.__init__` on the frames
  [b0, b1, 11, 22, 33, 44, 55, 66] for every first byte b0 and b1 in {0, 1, 5, 7, 200}:
  kind (0 = rejected, 1 SF, 2 FF, 3 CF, 4 FC) and decoded length / sequence number / flow status.
-/
namespace Isotp.Agree

def b1s : List Nat := [0, 1, 5, 7, 200]

def pciFrame (b0 i : Nat) : Bytes := [u8 b0, u8 (b1s.getD i 0), 0x11, 0x22, 0x33, 0x44, 0x55, 0x66]

def pciKind (b0 i : Nat) : Nat :=
  match decodeBody (pciFrame b0 i) with
  | none => 0 | some (.sf ..) => 1 | some (.ff ..) => 2 | some (.cf ..) => 3 | some (.fc ..) => 4

def pciVal (b0 i : Nat) : Nat :=
  match decodeBody (pciFrame b0 i) with
  | none => 0 | some (.sf l _ _) => l % 65536 | some (.ff l _ _) => l % 65536 | some (.cf sn _) => sn | some (.fc st _ _) => st

theorem pciKind_agree : ∀ (b0 : Fin 256) (i : Fin 5),
    pciKind b0.val i.val = Generated.entry Generated.pciKindTable 1 (b0.val * 5 + i.val) := by
  decide +kernel

theorem pciVal_agree : ∀ (b0 : Fin 256) (i : Fin 5),
    pciVal b0.val i.val = Generated.entry Generated.pciValTable 2 (b0.val * 5 + i.val) := by
  decide +kernel

end Isotp.Agree
#print axioms Isotp.Agree.pciKind_agree
#print axioms Isotp.Agree.pciVal_agree
