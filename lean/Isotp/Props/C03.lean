import Isotp.Process
import Isotp.Spec.Segment
import Isotp.Proofs.Rx
/-
  C03 — "Receiver reassembles every well-formed stream and issues correct flow control."

  Property theorems (see DESIGN.md §6). Helper lemmas live in Isotp/Proofs/Rx.lean.

  Vocabulary (all defined in Proofs/Rx.lean):
  * `Spec.WellFormed pre p frames`  — `frames` (data fields) is a well-formed ISO-TP encoding of `p` for a
    receiver with address prefix `pre` (Single Frame short / escape, or First Frame + Consecutive Frames),
    produced by any conforming sender (Spec/Segment.lean).
  * `RxSession g s p i`  — reception of `p` in progress, First Frame and `i` Consecutive Frames consumed,
    sender geometry `g` (TX_DL and prefix).
  * `RxSame s s'`  — `s'` differs from `s` only in what the reception FSM does not look at; `processTx`,
    `send`, `recv`, `advance`, un-expired `checkTimeoutsRx` are `RxSame`.
  * `Feeds s frames s'`  — the frames are handed to `processRx` in order, with arbitrary `RxSame` steps
    before, between and after; `feed s msgs` is the plain fold.
  * `delivered s` / `rxTrace s` — payloads put in the rx queue / deliveries and reception errors, from the log.
  The address filter (`isForMe`) is applied by the caller `rxLoop` (property C09); `processRx` sees accepted
  frames only, hence the prefix bytes `pre` are arbitrary with `pre.length = rxPrefixSize`.
-/
namespace Isotp.C03
open Isotp Isotp.State Isotp.Rx

/-! ## A. Single Frames -/

/-- A well-formed Single Frame (short or escape form, any legal padding) received while idle delivers
    exactly its payload at once: one `deliver` event, no error, receiver still idle. -/
theorem single_frame_delivers (s : State) (m : CanMsg) (pre p : Bytes)
    (hw : Spec.WfSfShort pre p [m.data] ∨ Spec.WfSfEscape pre p [m.data])
    (hpre : pre.length = s.addr.rx.rxPrefixSize) (hidle : s.rxState = .idle) :
    (s.processRx m).1.rxQueue = s.rxQueue ++ [p] ∧
    (s.processRx m).1.log = .deliver p :: s.log ∧
    (s.processRx m).1.rxState = .idle ∧
    (s.processRx m).1.pendingFc = s.pendingFc ∧
    (s.processRx m).2.2 = true := by
  obtain ⟨d, esc, cdl, rdl, hfr, hd, h8⟩ := sf_wellFormed_decodes pre p _ hw
  have hdm : d = m.data := (List.cons.inj hfr).1.symm
  subst hdm
  rw [hpre] at hd
  rw [processRx_sf_idle_eq s m _ _ _ _ _ hd h8 hidle]
  exact ⟨rfl, rfl, hidle, rfl, rfl⟩

/-! ## B1–B3. One step of a segmented reception -/

/-- B1. From ANY state, the First Frame of a segmented well-formed stream for `p`
    (`p.length ≤ max_frame_size`) opens a session for `p`, requests a ContinueToSend Flow Control,
    asks for an immediate transmit pass, starts the N_Cr timer, delivers nothing; it logs nothing if
    the receiver was idle and exactly `ReceptionInterruptedWithFirstFrameError` otherwise. -/
theorem ff_starts_session (s : State) (m : CanMsg) (txDl : Nat) (pre p : Bytes)
    (hpre : pre.length = s.addr.rx.rxPrefixSize) (htx : Spec.validTxDl txDl)
    (hlen : p.length < 4294967296)
    (hseg : Spec.ffRoom (Spec.streamCfg txDl pre) p.length < p.length)
    (hmax : p.length ≤ s.cfg.maxFrameSize)
    (hm : m.data = pre ++ Spec.ffHeader p.length ++ p.take (Spec.ffRoom (Spec.streamCfg txDl pre) p.length)) :
    RxSession (Spec.streamCfg txDl pre) (s.processRx m).1 p 0 ∧
    (s.processRx m).1.pendingFc = true ∧ (s.processRx m).1.pendingFcStatus = some 0 ∧
    (s.processRx m).2 = (true, false) ∧
    (s.processRx m).1.timerCf = { start := some s.now, timeout := s.cfg.tCf } ∧
    (s.processRx m).1.rxQueue = s.rxQueue ∧
    (s.processRx m).1.log =
      (if s.rxState = .idle then s.log else .err s.now .InterruptedWithFirstFrame :: s.log) := by
  refine ⟨Rx.ff_starts_session s m txDl pre p hpre htx hlen hseg hmax hm, ?_⟩
  rw [ff_step_eq s m txDl pre p hpre htx hlen hseg hmax hm]
  exact ⟨rfl, rfl, rfl, rfl, rfl, rfl⟩

/-- B2. In a session, the next in-sequence full Consecutive Frame (not the last one) advances the
    session, delivers nothing, logs nothing; a ContinueToSend Flow Control is requested iff
    `blocksize > 0` and the number of Consecutive Frames received is a multiple of `blocksize`. -/
theorem cf_advances (g : Spec.TxCfg) (s : State) (m : CanMsg) (p : Bytes) (i : Nat)
    (hs : RxSession g s p i) (hpre : g.pre.length = s.addr.rx.rxPrefixSize) (hg : g.pre.length + 1 ≤ g.txDl)
    (hg8 : 8 ≤ g.txDl)
    (hmore : Spec.ffRoom g p.length + (i + 1) * Spec.cfRoom g < p.length)
    (hm : m.data = Spec.cfOf g.pre i ((p.drop (Spec.ffRoom g p.length + i * Spec.cfRoom g)).take (Spec.cfRoom g))) :
    RxSession g (s.processRx m).1 p (i + 1) ∧
    (s.processRx m).1.rxQueue = s.rxQueue ∧ (s.processRx m).1.log = s.log ∧
    (if 0 < s.cfg.blocksize ∧ (i + 1) % s.cfg.blocksize = 0 then
      (s.processRx m).1.pendingFc = true ∧ (s.processRx m).1.pendingFcStatus = some 0 ∧
        (s.processRx m).2 = (true, false)
     else
      (s.processRx m).1.pendingFc = s.pendingFc ∧ (s.processRx m).1.pendingFcStatus = s.pendingFcStatus ∧
        (s.processRx m).2 = (s.pendingFc, false)) := by
  refine ⟨Rx.cf_advances g s m p i hs hpre hg hg8 hmore hm, ?_⟩
  rw [cf_step_eq g s m p i hs hpre hg hg8 hmore hm]
  split <;> exact ⟨rfl, rfl, rfl, rfl, rfl⟩

/-- B3. In a session, the Consecutive Frame that carries all the remaining bytes (followed by any
    padding, whatever its own RX_DL) delivers exactly `p`: one `deliver p` event, `p` appended to the
    rx queue, receiver idle with an empty buffer, timer stopped, no error, no Flow Control requested. -/
theorem last_cf_delivers (g : Spec.TxCfg) (s : State) (m : CanMsg) (p pad : Bytes) (i : Nat)
    (hs : RxSession g s p i) (hpre : g.pre.length = s.addr.rx.rxPrefixSize)
    (hm : m.data = Spec.cfOf g.pre i (p.drop (Spec.ffRoom g p.length + i * Spec.cfRoom g) ++ pad)) :
    (s.processRx m).1.rxQueue = s.rxQueue ++ [p] ∧
    (s.processRx m).1.log = .deliver p :: s.log ∧
    (s.processRx m).1.rxState = .idle ∧ (s.processRx m).1.rxBuf = [] ∧
    (s.processRx m).1.timerCf.start = none ∧
    (s.processRx m).1.pendingFc = false ∧
    (s.processRx m).2 = (false, true) := by
  rw [last_cf_step_eq g s m p pad i hs hpre hm]
  exact ⟨rfl, rfl, rfl, rfl, rfl, rfl, rfl⟩

/-- the buffer of a session is the prefix of `p` that the reference segmentation (`Spec.carried`) says
    the First Frame and the first `i` Consecutive Frames carry -/
theorem session_buffer (g : Spec.TxCfg) (s : State) (p : Bytes) (i : Nat) (hs : RxSession g s p i) :
    s.rxBuf = p.take (Spec.carried g p.length (i + 1)) ∧ s.rxBuf.length < p.length := by
  refine ⟨hs.buf_eq_carried, ?_⟩
  rw [hs.buf, List.length_take]; have := hs.more; omega

/-! ## B4. Whole streams -/

/-- Steps that do not disturb a reception in progress: transmit passes (including the one that sends
    the pending Flow Control), `send`, `recv`, clock advance, timeout checks before N_Cr expiry. -/
theorem session_preserved (g : Spec.TxCfg) (s : State) (p : Bytes) (i : Nat) (hs : RxSession g s p i) :
    RxSession g s.processTx.1 p i ∧
    (∀ a, RxSession g (s.send a).1 p i) ∧
    RxSession g s.recv.1 p i ∧
    (∀ dt, RxSession g (s.advance dt) p i) ∧
    (s.timerCf.timedOut s.now = false → RxSession g s.checkTimeoutsRx p i) :=
  ⟨hs.of_same (rxSame_processTx s), fun a => hs.of_same (rxSame_send s a), hs.of_same (rxSame_recv s),
   fun dt => hs.of_same (rxSame_advance s dt), fun h => hs.of_same (rxSame_checkTimeoutsRx s h)⟩

/-- the same steps, as instances of the relation used by `Feeds` -/
theorem neutral_steps (s : State) :
    RxSame s s.processTx.1 ∧ (∀ a, RxSame s (s.send a).1) ∧ RxSame s s.recv.1 ∧
    (∀ dt, RxSame s (s.advance dt)) ∧ (s.timerCf.timedOut s.now = false → RxSame s s.checkTimeoutsRx) :=
  ⟨rxSame_processTx s, rxSame_send s, rxSame_recv s, rxSame_advance s, rxSame_checkTimeoutsRx s⟩

/-- B4 (plain fold). Feeding the frames of ANY well-formed encoding of `p` (`p.length ≤ max_frame_size`)
    to an idle receiver appends exactly `p` to the rx queue, leaves the receiver idle, and the only
    reception event is that delivery (no error). -/
theorem stream_delivers (s : State) (ms : List CanMsg) (pre p : Bytes)
    (hw : Spec.WellFormed pre p (ms.map (·.data))) (hpre : pre.length = s.addr.rx.rxPrefixSize)
    (hmax : p.length ≤ s.cfg.maxFrameSize) (hidle : s.rxState = .idle) :
    (feed s ms).rxQueue = s.rxQueue ++ [p] ∧ (feed s ms).rxState = .idle ∧
      rxTrace (feed s ms) = rxTrace s ++ [.deliver p] := by
  obtain ⟨h1, h2, h3⟩ := feed_wellFormed s ms pre p hw hpre hmax
  exact ⟨h1, h2, h3 hidle⟩

/-- B4, "and nothing earlier": after any strict prefix of the frames the rx queue is unchanged. -/
theorem nothing_earlier (s : State) (ms rest : List CanMsg) (pre p : Bytes)
    (hw : Spec.WellFormed pre p ((ms ++ rest).map (·.data))) (hne : rest ≠ [])
    (hpre : pre.length = s.addr.rx.rxPrefixSize) (hmax : p.length ≤ s.cfg.maxFrameSize) :
    (feed s ms).rxQueue = s.rxQueue :=
  feed_nothing_earlier s ms rest pre p hw hne hpre hmax

/-- B4 (interleaved). The same from ANY state and with arbitrary reception-neutral steps before, between
    and after the frames: exactly `p` is delivered, once; if the receiver was idle there is no
    reception error at all. -/
theorem stream_delivers_interleaved (s s' : State) (pre p : Bytes) (frames : List Bytes)
    (hw : Spec.WellFormed pre p frames) (hpre : pre.length = s.addr.rx.rxPrefixSize)
    (hmax : p.length ≤ s.cfg.maxFrameSize) (hf : Feeds s frames s') :
    delivered s' = delivered s ++ [p] ∧ s'.rxState = .idle ∧
      (s.rxState = .idle → rxTrace s' = rxTrace s ++ [.deliver p]) :=
  wellFormed_delivers s s' pre p frames hw hpre hmax hf

theorem nothing_earlier_interleaved (s s'' : State) (pre p : Bytes) (frames fs rest : List Bytes)
    (hw : Spec.WellFormed pre p frames) (hpre : pre.length = s.addr.rx.rxPrefixSize)
    (hmax : p.length ≤ s.cfg.maxFrameSize) (hsplit : frames = fs ++ rest) (hne : rest ≠ [])
    (hf : Feeds s fs s'') : delivered s'' = delivered s :=
  wellFormed_nothing_earlier s s'' pre p frames fs rest hw hpre hmax hsplit hne hf

/-- `recv()` after the stream: with an empty queue before, it returns exactly `p` and the queue is
    empty again. -/
theorem recv_after_stream (s : State) (ms : List CanMsg) (pre p : Bytes)
    (hw : Spec.WellFormed pre p (ms.map (·.data))) (hpre : pre.length = s.addr.rx.rxPrefixSize)
    (hmax : p.length ≤ s.cfg.maxFrameSize) (hq : s.rxQueue = []) :
    (feed s ms).recv.2 = some p ∧ (feed s ms).recv.1.rxQueue = [] := by
  have h := (feed_wellFormed s ms pre p hw hpre hmax).1
  rw [hq, List.nil_append] at h
  simp [recv, h]

/-- Link to `process()`: what `rxLoop` does with an inbox entry before handing it to `processRx` (clock,
    `rx` event, timeout check) is reception-neutral while N_Cr has not expired, and for an accepted frame
    that requests an immediate transmit pass the loop returns exactly the `processRx` result. -/
theorem rx_loop_entry (doTx : Bool) (s : State) (st : Stats) (rest : List (Nat × CanMsg)) (dt : Nat) (m : CanMsg) :
    (s.timerCf.timedOut (s.now + dt) = false →
      RxSame s ((({ s with inbox := rest, now := s.now + dt } : State).emit (.rx (s.now + dt) m)).checkTimeoutsRx)) ∧
    (s.addr.rx.isForMe m = true →
      ((({ s with inbox := rest, now := s.now + dt } : State).emit (.rx (s.now + dt) m)).checkTimeoutsRx.processRx m).2.1
        = true →
      (s.rxLoop doTx st ((dt, m) :: rest)).1 =
        ((({ s with inbox := rest, now := s.now + dt } : State).emit (.rx (s.now + dt) m)).checkTimeoutsRx.processRx m).1) :=
  ⟨rxSame_rxLoop_entry s rest dt m, rxLoop_accepted_imm doTx s st rest dt m⟩

/-! ## B5. Flow Control -/

/-- A requested Flow Control is emitted by the very next transmit pass, before anything else, as the
    frame built by `makeFlowControl`; the request is cleared (so it is sent once) and, for
    ContinueToSend, the N_Cr timer restarts. -/
theorem fc_sent (s : State) (st : Nat) (msg : CanMsg) (hp : s.pendingFc = true)
    (hst : s.pendingFcStatus = some st) (hl : s.cfg.listen = false)
    (hm : makeFlowControl s.cfg s.addr st = some msg) :
    s.processTx.2 = (some msg, true) ∧ s.processTx.1.pendingFc = false ∧
    s.processTx.1.log = s.log ∧
    (st = 0 → s.processTx.1.timerCf = { start := some s.now, timeout := s.cfg.tCf }) := by
  rw [processTx_sends_fc s st msg hp hst hl hm]
  exact ⟨rfl, rfl, rfl, fun h => by simp [h]⟩

/-- The Flow Control frame of a validated configuration: physical tx identifier, the address prefix
    followed by `[0x30 + status, blocksize, stmin]`, padded according to the documented rule. -/
theorem fc_frame (c : Cfg) (a : Addr) (st : Nat) (hv : c.valid = true) :
    ∃ dlc, makeFlowControl c a st = some
      { id := a.tx.txId .physical, ext := a.tx.mode.is29,
        data := Spec.padFrame (Spec.TxCfg.of c a) (a.tx.txPrefix ++ fcData st c.blocksize c.stmin),
        dlc := dlc, fd := c.canFd, brs := c.brs } :=
  makeFlowControl_eq c a st hv

theorem fc_bytes (bs stmin : Nat) (hb : bs ≤ 255) (hs : stmin ≤ 255) :
    fcData 0 bs stmin = [0x30, u8 bs, u8 stmin] := fcData_cts bs stmin hb hs

/-- The answer to a First Frame: the transmit pass that follows it emits exactly one frame, the
    ContinueToSend Flow Control with the configured blocksize and stmin, correctly addressed and padded,
    and the request is consumed. -/
theorem ff_answered (s : State) (m : CanMsg) (txDl : Nat) (pre p : Bytes)
    (hv : s.cfg.valid = true) (hl : s.cfg.listen = false)
    (hpre : pre.length = s.addr.rx.rxPrefixSize) (htx : Spec.validTxDl txDl)
    (hlen : p.length < 4294967296)
    (hseg : Spec.ffRoom (Spec.streamCfg txDl pre) p.length < p.length)
    (hmax : p.length ≤ s.cfg.maxFrameSize)
    (hm : m.data = pre ++ Spec.ffHeader p.length ++ p.take (Spec.ffRoom (Spec.streamCfg txDl pre) p.length)) :
    ∃ dlc, (s.processRx m).1.processTx.2 =
      (some { id := s.addr.tx.txId .physical, ext := s.addr.tx.mode.is29,
              data := Spec.padFrame (Spec.TxCfg.of s.cfg s.addr)
                        (s.addr.tx.txPrefix ++ [0x30, u8 s.cfg.blocksize, u8 s.cfg.stmin]),
              dlc := dlc, fd := s.cfg.canFd, brs := s.cfg.brs }, true) ∧
      (s.processRx m).1.processTx.1.pendingFc = false ∧
      RxSession (Spec.streamCfg txDl pre) (s.processRx m).1.processTx.1 p 0 := by
  obtain ⟨dlc, hfc⟩ := makeFlowControl_eq s.cfg s.addr 0 hv
  have hb : s.cfg.blocksize ≤ 255 ∧ s.cfg.stmin ≤ 255 := by
    simp only [Cfg.valid, Bool.and_eq_true, decide_eq_true_eq] at hv
    exact ⟨hv.1.1.1.2, hv.1.1.1.1.2⟩
  rw [fcData_cts _ _ hb.1 hb.2] at hfc
  have hsess := Rx.ff_starts_session s m txDl pre p hpre htx hlen hseg hmax hm
  have heq := ff_step_eq s m txDl pre p hpre htx hlen hseg hmax hm
  have hc : (s.processRx m).1.cfg = s.cfg := by rw [heq]
  have ha : (s.processRx m).1.addr = s.addr := by rw [heq]
  have hsend := processTx_sends_fc (s.processRx m).1 0 _ (by rw [heq]) (by rw [heq]) (by rw [hc]; exact hl)
    (by rw [hc, ha]; exact hfc)
  refine ⟨dlc, ?_, ?_, hsess.of_same (rxSame_processTx _)⟩
  · rw [hsend]
  · rw [hsend]

/-- The answer to a block: same for the Consecutive Frame that completes a block of `blocksize`
    frames without completing the message. -/
theorem block_answered (g : Spec.TxCfg) (s : State) (m : CanMsg) (p : Bytes) (i : Nat)
    (hv : s.cfg.valid = true) (hl : s.cfg.listen = false)
    (hs : RxSession g s p i) (hpre : g.pre.length = s.addr.rx.rxPrefixSize) (hg : g.pre.length + 1 ≤ g.txDl)
    (hg8 : 8 ≤ g.txDl)
    (hmore : Spec.ffRoom g p.length + (i + 1) * Spec.cfRoom g < p.length)
    (hm : m.data = Spec.cfOf g.pre i ((p.drop (Spec.ffRoom g p.length + i * Spec.cfRoom g)).take (Spec.cfRoom g)))
    (hblk : 0 < s.cfg.blocksize ∧ (i + 1) % s.cfg.blocksize = 0) :
    ∃ dlc, (s.processRx m).1.processTx.2 =
      (some { id := s.addr.tx.txId .physical, ext := s.addr.tx.mode.is29,
              data := Spec.padFrame (Spec.TxCfg.of s.cfg s.addr)
                        (s.addr.tx.txPrefix ++ [0x30, u8 s.cfg.blocksize, u8 s.cfg.stmin]),
              dlc := dlc, fd := s.cfg.canFd, brs := s.cfg.brs }, true) ∧
      (s.processRx m).1.processTx.1.pendingFc = false := by
  obtain ⟨dlc, hfc⟩ := makeFlowControl_eq s.cfg s.addr 0 hv
  have hb : s.cfg.blocksize ≤ 255 ∧ s.cfg.stmin ≤ 255 := by
    simp only [Cfg.valid, Bool.and_eq_true, decide_eq_true_eq] at hv
    exact ⟨hv.1.1.1.2, hv.1.1.1.1.2⟩
  rw [fcData_cts _ _ hb.1 hb.2] at hfc
  have heq := cf_step_eq g s m p i hs hpre hg hg8 hmore hm
  rw [if_pos hblk] at heq
  have hc : (s.processRx m).1.cfg = s.cfg := by rw [heq]
  have ha : (s.processRx m).1.addr = s.addr := by rw [heq]
  have hsend := processTx_sends_fc (s.processRx m).1 0 _ (by rw [heq]) (by rw [heq]) (by rw [hc]; exact hl)
    (by rw [hc, ha]; exact hfc)
  exact ⟨dlc, by rw [hsend], by rw [hsend]⟩

/-- "…and emits nothing else": once the request is served (`pendingFc = false`), with no received Flow
    Control in the mailbox and nothing to transmit, a transmit pass emits no frame; in particular no
    second Flow Control. -/
theorem nothing_else (s : State) (h1 : s.pendingFc = false) (h2 : s.lastFc = none)
    (h3 : s.txState = .idle) (h4 : s.txQueue = []) (h5 : s.timerFc.timedOut s.now = false) :
    s.processTx.2.1 = none :=
  processTx_silent s h1 h2 h3 h4 h5

/-- Consecutive Frames that do not complete a block, and the last frame, request no Flow Control
    (see `cf_advances`, `last_cf_delivers`); in listen mode a request is dropped without a frame. -/
theorem listen_mode_no_fc (s : State) (st : Nat) (hp : s.pendingFc = true)
    (hst : s.pendingFcStatus = some st) (hl : s.cfg.listen = true) :
    (pendPart s).2 = none ∧ (pendPart s).1.pendingFc = false :=
  pendPart_listen s st hp hst hl

/-- **The Flow Control follows the address the layer holds NOW.**  After `set_address(a')` (the layer keeps all its state and uses the
    new address from now on: `{ s with addr := a' }`, the driver's `setaddr` operation) a requested Flow Control is the frame
    `makeFlowControl` builds from the NEW address - identifier, 29-bit flag and prefix byte (see `fc_frame`) -, whatever frames the layer
    built before: nothing of an earlier Flow Control is kept. -/
theorem fc_follows_set_address (s : State) (a' : Addr) (st : Nat) (msg : CanMsg) (hp : s.pendingFc = true)
    (hst : s.pendingFcStatus = some st) (hl : s.cfg.listen = false)
    (hm : makeFlowControl s.cfg a' st = some msg) :
    ({ s with addr := a' } : State).processTx.2 = (some msg, true) :=
  (fc_sent { s with addr := a' } st msg hp hst hl hm).1

/-- the same for a configuration replaced on the live layer (`params.set` of blocksize, stmin, padding, CAN FD ...): the Flow Control
    is built from the configuration held at the transmit pass -/
theorem fc_follows_live_config (s : State) (c' : Cfg) (st : Nat) (msg : CanMsg) (hp : s.pendingFc = true)
    (hst : s.pendingFcStatus = some st) (hl : c'.listen = false)
    (hm : makeFlowControl c' s.addr st = some msg) :
    ({ s with cfg := c' } : State).processTx.2 = (some msg, true) :=
  (fc_sent { s with cfg := c' } st msg hp hst hl hm).1

/-- two validated layers that differ only in their address answer with Flow Control frames that differ exactly as the addresses do:
    same status / blocksize / stmin bytes, the identifier, 29-bit flag and prefix of each one's own address -/
theorem fc_frames_differ_as_addresses (c : Cfg) (a a' : Addr) (st : Nat) (hv : c.valid = true) :
    ∃ m m', makeFlowControl c a st = some m ∧ makeFlowControl c a' st = some m' ∧
      m.id = a.tx.txId .physical ∧ m'.id = a'.tx.txId .physical ∧ m.ext = a.tx.mode.is29 ∧ m'.ext = a'.tx.mode.is29 ∧
      m.data = Spec.padFrame (Spec.TxCfg.of c a) (a.tx.txPrefix ++ fcData st c.blocksize c.stmin) ∧
      m'.data = Spec.padFrame (Spec.TxCfg.of c a') (a'.tx.txPrefix ++ fcData st c.blocksize c.stmin) := by
  obtain ⟨d, h⟩ := fc_frame c a st hv
  obtain ⟨d', h'⟩ := fc_frame c a' st hv
  exact ⟨_, _, h, h', rfl, rfl, rfl, rfl, rfl, rfl⟩

/-! ## Non-vacuity: concrete frames -/

def exHalf : Half :=
  { mode := .n11, txid := some 0x123, rxid := some 0x456, ta := none, sa := none, ae := none,
    physId := 0, funcId := 0, rxOnly := false, txOnly := false }
def exAddr : Addr := { tx := exHalf, rx := exHalf }
/-- default configuration (blocksize 8, stmin 0, tx_data_length 8, max_frame_size 4095) -/
def s0 : State := State.init {} exAddr
def exMsg (d : Bytes) : CanMsg := { id := 0x456, ext := false, data := d }

/-- the address the layer is moved to with `set_address` -/
def exAddr2 : Addr := { tx := { exHalf with txid := some 0x7E0 }, rx := exHalf }
/-- a First Frame was received under `exAddr` (a ContinueToSend request is pending), then the address was replaced -/
def sPend : State := { s0 with pendingFc := true, pendingFcStatus := some 0 }

/-- premises of `fc_follows_set_address` are satisfiable, and the frame goes out under the NEW identifier 0x7E0, not 0x123 -/
example : sPend.pendingFc = true ∧ sPend.pendingFcStatus = some 0 ∧ sPend.cfg.listen = false ∧
    (makeFlowControl sPend.cfg exAddr2 0).map (·.id) = some 0x7E0 ∧
    (({ sPend with addr := exAddr2 } : State).processTx.2.1).map (·.id) = some 0x7E0 ∧
    (sPend.processTx.2.1).map (·.id) = some 0x123 := by decide +kernel

def exP : Bytes := [1, 2, 3, 4, 5, 6, 7, 8, 9, 10, 11, 12, 13, 14, 15, 16, 17, 18, 19, 20]
/-- First Frame (FF_DL = 20), one full Consecutive Frame, last Consecutive Frame -/
def exFrames : List Bytes :=
  [[0x10, 0x14, 1, 2, 3, 4, 5, 6], [0x21, 7, 8, 9, 10, 11, 12, 13], [0x22, 14, 15, 16, 17, 18, 19, 20]]

example : Spec.WfSegmented [] exP exFrames :=
  ⟨8, [], [[7, 8, 9, 10, 11, 12, 13]], [14, 15, 16, 17, 18, 19, 20], by decide, by decide, by decide, by decide,
    by decide, by decide, by decide⟩
example : Spec.WellFormed [] exP ((exFrames.map exMsg).map (·.data)) :=
  Or.inr (Or.inr ⟨8, [], [[7, 8, 9, 10, 11, 12, 13]], [14, 15, 16, 17, 18, 19, 20], by decide, by decide,
    by decide, by decide, by decide, by decide, by decide⟩)
example : ([] : Bytes).length = s0.addr.rx.rxPrefixSize ∧ exP.length ≤ s0.cfg.maxFrameSize ∧ s0.rxState = .idle := by
  decide
example : (feed s0 (exFrames.map exMsg)).rxQueue = [exP] := by decide
example : (feed s0 (exFrames.map exMsg)).log = [.deliver exP] := by decide
example : (feed s0 ((exFrames.take 2).map exMsg)).rxQueue = [] := by decide
example : Feeds s0 exFrames (feed s0 (exFrames.map exMsg)) := feeds_feed (exFrames.map exMsg) s0
example : (feed s0 (exFrames.map exMsg)).recv.2 = some exP := by decide
/-- the same stream through `process()`: frames in the inbox, Flow Control `30 08 00` transmitted after the
    First Frame, payload delivered -/
example : (((s0.pushFrame 0 (exMsg [0x10, 0x14, 1, 2, 3, 4, 5, 6])).pushFrame 10 (exMsg [0x21, 7, 8, 9, 10, 11, 12, 13])
      ).pushFrame 10 (exMsg [0x22, 14, 15, 16, 17, 18, 19, 20])).process true true |>.1.rxQueue = [exP] := by decide

/-- the session after the First Frame and after one Consecutive Frame -/
example : RxSession (Spec.streamCfg 8 []) (feed s0 ((exFrames.take 1).map exMsg)) exP 0 :=
  ⟨by decide, by decide, by decide, by decide, by decide, by decide, by decide⟩
example : RxSession (Spec.streamCfg 8 []) (feed s0 ((exFrames.take 2).map exMsg)) exP 1 :=
  ⟨by decide, by decide, by decide, by decide, by decide, by decide, by decide⟩

/-- the Flow Control that answers the First Frame: `30 08 00`, id 0x123, sent once -/
example : (feed s0 ((exFrames.take 1).map exMsg)).processTx.2 =
    (some { id := 0x123, ext := false, data := [0x30, 8, 0], dlc := 3 }, true) := by decide
example : (feed s0 ((exFrames.take 1).map exMsg)).processTx.1.processTx.2.1 = none := by decide
example : s0.cfg.valid = true ∧ s0.cfg.listen = false := by decide

/-- last frame padded to 8 bytes by a sender that pads with 0xAA; payload of 10 bytes -/
def exP2 : Bytes := [1, 2, 3, 4, 5, 6, 7, 8, 9, 10]
def exFrames2 : List Bytes := [[0x10, 0x0A, 1, 2, 3, 4, 5, 6], [0x21, 7, 8, 9, 10, 0xAA, 0xAA, 0xAA]]
example : Spec.WfSegmented [] exP2 exFrames2 :=
  ⟨8, [0xAA, 0xAA, 0xAA], [], [7, 8, 9, 10], by decide, by decide, by decide, by decide, by decide, by decide,
    by decide⟩
example : (feed s0 (exFrames2.map exMsg)).rxQueue = [exP2] := by decide

/-- extended addressing: one prefix byte (source address 0x66), CAN FD sender with TX_DL = 12 whose
    last frame is shorter (RX_DL 8) than the First Frame -/
def exHalfExt : Half :=
  { mode := .e11, txid := some 0x123, rxid := some 0x456, ta := some 0x55, sa := some 0x66, ae := none,
    physId := 0, funcId := 0, rxOnly := false, txOnly := false }
def s0x : State := State.init { blocksize := 1, stmin := 5 } { tx := exHalfExt, rx := exHalfExt }
def exP3 : Bytes := [1, 2, 3, 4, 5, 6, 7, 8, 9, 10, 11, 12, 13, 14, 15, 16, 17, 18, 19, 20, 21]
def exFrames3 : List Bytes :=
  [[0x66, 0x10, 0x15, 1, 2, 3, 4, 5, 6, 7, 8, 9], [0x66, 0x21, 10, 11, 12, 13, 14, 15, 16, 17, 18, 19],
   [0x66, 0x22, 20, 21]]
example : Spec.WfSegmented [0x66] exP3 exFrames3 :=
  ⟨12, [], [[10, 11, 12, 13, 14, 15, 16, 17, 18, 19]], [20, 21], by decide, by decide, by decide, by decide,
    by decide, by decide, by decide⟩
example : ([0x66] : Bytes).length = s0x.addr.rx.rxPrefixSize := by decide
example : (feed s0x (exFrames3.map exMsg)).rxQueue = [exP3] := by decide
/-- blocksize 1: the full Consecutive Frame is answered by `55 30 01 05` -/
example : (feed s0x ((exFrames3.take 2).map exMsg)).processTx.2 =
    (some { id := 0x123, ext := false, data := [0x55, 0x30, 1, 5], dlc := 4 }, true) := by decide

/-- Single Frames: short form with padding, and CAN FD escape form -/
example : Spec.WfSfShort [] [0xDE, 0xAD] [[0x02, 0xDE, 0xAD, 0xCC, 0xCC, 0xCC, 0xCC, 0xCC]] :=
  ⟨[0xCC, 0xCC, 0xCC, 0xCC, 0xCC], by decide, by decide, by decide, by decide⟩
example : (s0.processRx (exMsg [0x02, 0xDE, 0xAD, 0xCC, 0xCC, 0xCC, 0xCC, 0xCC])).1.rxQueue = [[0xDE, 0xAD]] := by
  decide
example : Spec.WfSfEscape [] [1, 2, 3, 4, 5, 6, 7, 8, 9] [[0x00, 0x09, 1, 2, 3, 4, 5, 6, 7, 8, 9, 0xCC]] :=
  ⟨[0xCC], by decide, by decide, by decide, by decide⟩
example : (s0.processRx (exMsg [0x00, 0x09, 1, 2, 3, 4, 5, 6, 7, 8, 9, 0xCC])).1.rxQueue =
    [[1, 2, 3, 4, 5, 6, 7, 8, 9]] := by decide

end Isotp.C03

#print axioms Isotp.C03.single_frame_delivers
#print axioms Isotp.C03.ff_starts_session
#print axioms Isotp.C03.cf_advances
#print axioms Isotp.C03.last_cf_delivers
#print axioms Isotp.C03.session_buffer
#print axioms Isotp.C03.session_preserved
#print axioms Isotp.C03.neutral_steps
#print axioms Isotp.C03.stream_delivers
#print axioms Isotp.C03.nothing_earlier
#print axioms Isotp.C03.stream_delivers_interleaved
#print axioms Isotp.C03.nothing_earlier_interleaved
#print axioms Isotp.C03.recv_after_stream
#print axioms Isotp.C03.rx_loop_entry
#print axioms Isotp.C03.fc_sent
#print axioms Isotp.C03.fc_frame
#print axioms Isotp.C03.fc_bytes
#print axioms Isotp.C03.ff_answered
#print axioms Isotp.C03.block_answered
#print axioms Isotp.C03.nothing_else
#print axioms Isotp.C03.listen_mode_no_fc
#print axioms Isotp.C03.fc_follows_set_address
#print axioms Isotp.C03.fc_follows_live_config
#print axioms Isotp.C03.fc_frames_differ_as_addresses
