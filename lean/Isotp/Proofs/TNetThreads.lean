import Isotp.Proofs.TNetSim
/-
  C13, network level — what holds for EVERY thread schedule of the threaded pair (foreign frames included), thread
  by thread:

  * `TInv`: both internal threads of both peers stay alive, configuration and address never change;
  * `sent_eq_program`: the payloads accepted by `send()` on a peer are exactly the payloads of the `userSend` steps of
    the schedule whose arguments are acceptable (`TNet.accepts`: decided by arguments, configuration and address
    alone), in schedule order — the linearisation order of the calls; hence the accepted payloads of one user thread
    (a sub-list of the schedule) are a sub-list of it (`program_sublist`);
  * `wakeup_*`: an accepted `send` leaves a wake-up token in the relay queue and its request in the tx queue; both stay
    there until the next worker iteration of that peer, which therefore does not block and runs
    `process(do_rx=True, do_tx=True)` with the request in the queue.
-/
set_option linter.unusedSimpArgs false

namespace Isotp.TNetP
open Isotp Isotp.State Isotp.NetP TNet

/-! ### configuration, address, threads -/

theorem process_env (s : State) (doRx doTx : Bool) :
    (s.process doRx doTx).1.cfg = s.cfg ∧ (s.process doRx doTx).1.addr = s.addr := by
  refine process_ind (fun x => x.cfg = s.cfg ∧ x.addr = s.addr) ?_ doRx doTx s ⟨rfl, rfl⟩
  intro x y hx hm
  cases hm with
  | frame dt m rest hin =>
    unfold rxOne
    split
    · rw [(RxFrame.processRx _ m).cfg, (RxFrame.processRx _ m).addr, (RxFrame.checkTimeoutsRx _).cfg,
        (RxFrame.checkTimeoutsRx _).addr]
      exact hx
    · rw [(RxFrame.checkTimeoutsRx _).cfg, (RxFrame.checkTimeoutsRx _).addr]
      exact hx
  | rxEnd hin =>
    unfold rxEnd
    rw [(RxFrame.checkTimeoutsRx _).cfg, (RxFrame.checkTimeoutsRx _).addr]
    exact hx
  | rl => exact hx
  | tx he =>
    unfold afterTxfn
    split
    · show x.processTx.1.cfg = _ ∧ x.processTx.1.addr = _
      rw [(TxFrame.processTx x).cfg, (TxFrame.processTx x).addr]; exact hx
    · rw [(TxFrame.processTx x).cfg, (TxFrame.processTx x).addr]; exact hx
  | txExc he => rw [(TxFrame.processTx x).cfg, (TxFrame.processTx x).addr]; exact hx

theorem send_env (s : State) (a : SendArgs) : (s.send a).1.cfg = s.cfg ∧ (s.send a).1.addr = s.addr := by
  rcases C12.send_cases s a with ⟨-, h⟩ | ⟨-, -, h⟩ <;> rw [h] <;> exact ⟨rfl, rfl⟩

theorem recv_env (s : State) : s.recv.1.cfg = s.cfg ∧ s.recv.1.addr = s.addr := by
  unfold State.recv; split <;> exact ⟨rfl, rfl⟩

/-- invariant of every run: threads alive, configuration and address constant -/
structure TInv (ca cb : Cfg) (aa ab : Addr) (d : TNet) : Prop where
  live : ∀ b, Live (d.get b)
  cfg : ∀ b, (d.get b).core.cfg = cfgOf ca cb b
  addr : ∀ b, (d.get b).core.addr = addrOf aa ab b

theorem tinv_init (ca cb : Cfg) (aa ab : Addr) : TInv ca cb aa ab (TNet.init ca cb aa ab) :=
  ⟨fun b => by cases b <;> exact ⟨rfl, rfl, rfl⟩, fun b => by cases b <;> rfl, fun b => by cases b <;> rfl⟩

/-- leaving the logic layer of `b` in TL-state `t'` keeps the invariant if `t'` has it -/
theorem tinv_leave {ca cb : Cfg} {aa ab : Addr} {d : TNet} (h : TInv ca cb aa ab d) (b : Bool) (t' : TL)
    (hl : Live t') (hc : t'.core.cfg = cfgOf ca cb b) (ha : t'.core.addr = addrOf aa ab b) :
    TInv ca cb aa ab (d.leave b t').1 := by
  refine ⟨fun b' => ?_, fun b' => ?_, fun b' => ?_⟩ <;> by_cases hb : b' = b
  · subst hb; rw [leave_get_same]; exact ⟨hl.main, hl.relay, hl.noStop⟩
  · rw [eq_not_of_ne hb, leave_get_other]; exact ⟨(h.live _).main, (h.live _).relay, (h.live _).noStop⟩
  · subst hb; rw [leave_get_same]; exact hc
  · rw [eq_not_of_ne hb, leave_get_other]; exact h.cfg _
  · subst hb; rw [leave_get_same]; exact ha
  · rw [eq_not_of_ne hb, leave_get_other]; exact h.addr _

theorem tinv_set {ca cb : Cfg} {aa ab : Addr} {d : TNet} (h : TInv ca cb aa ab d) (b : Bool) (t' : TL)
    (hl : Live t') (hc : t'.core.cfg = cfgOf ca cb b) (ha : t'.core.addr = addrOf aa ab b) :
    TInv ca cb aa ab (d.set b t') := by
  refine ⟨fun b' => ?_, fun b' => ?_, fun b' => ?_⟩ <;> by_cases hb : b' = b
  · subst hb; rw [get_set_same]; exact hl
  · rw [eq_not_of_ne hb, get_set_other]; exact h.live _
  · subst hb; rw [get_set_same]; exact hc
  · rw [eq_not_of_ne hb, get_set_other]; exact h.cfg _
  · subst hb; rw [get_set_same]; exact ha
  · rw [eq_not_of_ne hb, get_set_other]; exact h.addr _

theorem tinv_step {ca cb : Cfg} {aa ab : Addr} {d : TNet} (h : TInv ca cb aa ab d) (s : TStep) :
    TInv ca cb aa ab (d.step s).1 := by
  cases s with
  | userSend b a =>
    refine tinv_leave h b _ ?_ ?_ ?_ <;> rw [tl_send_eq]
    · exact ⟨(h.live b).main, (h.live b).relay, (h.live b).noStop⟩
    · exact (send_env _ a).1.trans (h.cfg b)
    · exact (send_env _ a).2.trans (h.addr b)
  | userRecv b =>
    refine tinv_leave h b _ ⟨(h.live b).main, (h.live b).relay, (h.live b).noStop⟩ ?_ ?_
    · exact (recv_env _).1.trans (h.cfg b)
    · exact (recv_env _).2.trans (h.addr b)
  | relay b =>
    show TInv ca cb aa ab (d.set b (d.get b).relayStep)
    cases hb : (d.get b).bus with
    | nil => rw [relayStep_nil _ (h.live b) hb]; exact tinv_set h b _ (h.live b) (h.cfg b) (h.addr b)
    | cons m rest =>
      rw [relayStep_cons _ (h.live b) m rest hb]
      exact tinv_set h b _ ⟨(h.live b).main, (h.live b).relay, (h.live b).noStop⟩ (h.cfg b) (h.addr b)
  | worker b =>
    have hl : Live (d.enter b) := ⟨(h.live b).main, (h.live b).relay, (h.live b).noStop⟩
    refine tinv_leave h b _ ?_ ?_ ?_ <;> rw [workerStep_live _ hl]
    · exact ⟨hl.main, hl.relay, hl.noStop⟩
    · exact (process_env _ true true).1.trans (h.cfg b)
    · exact (process_env _ true true).2.trans (h.addr b)
  | noise b m =>
    exact tinv_set h b _ ⟨(h.live b).main, (h.live b).relay, (h.live b).noStop⟩ (h.cfg b) (h.addr b)
  | tick dt =>
    exact ⟨fun b => by rw [TNet.step, get_now]; exact h.live b, fun b => by rw [TNet.step, get_now]; exact h.cfg b,
      fun b => by rw [TNet.step, get_now]; exact h.addr b⟩

theorem tinv_runFrom {ca cb : Cfg} {aa ab : Addr} (ss : List TStep) : ∀ (d : TNet) (tr : List TEv),
    TInv ca cb aa ab d → TInv ca cb aa ab (TNet.runFrom d tr ss).1 := by
  induction ss with
  | nil => intro d tr h; exact h
  | cons s ss ih => intro d tr h; rw [runFrom_cons]; exact ih _ _ (tinv_step h s)

/-! ### the accepted payloads, in linearisation order -/

/-- whether `send` accepts its arguments is decided by the arguments, the configuration and the address alone -/
theorem send_res_congr (s s' : State) (a : SendArgs) (hc : s.cfg = s'.cfg) (ha : s.addr = s'.addr) :
    (s.send a).2 = (s'.send a).2 := by
  unfold State.send txPrefixLen
  rw [hc, ha]
  simp only []
  repeat' split
  all_goals rfl

theorem programOf_append (c : Cfg) (ad : Addr) (b : Bool) (xs ys : List TStep) :
    programOf c ad b (xs ++ ys) = programOf c ad b xs ++ programOf c ad b ys := by
  simp [programOf, List.filterMap_append]

theorem programOf_cons (c : Cfg) (ad : Addr) (b : Bool) (x : TStep) (ys : List TStep) :
    programOf c ad b (x :: ys) = programOf c ad b [x] ++ programOf c ad b ys :=
  programOf_append c ad b [x] ys

theorem programOf_send (c : Cfg) (ad : Addr) (b b' : Bool) (a : SendArgs) :
    programOf c ad b [.userSend b' a] = if b' = b ∧ accepts c ad a = true then [a.src] else [] := by
  by_cases h : b' = b ∧ accepts c ad a = true
  · simp only [programOf, List.filterMap_cons, List.filterMap_nil, if_pos h]
  · simp only [programOf, List.filterMap_cons, List.filterMap_nil, if_neg h]

/-- the observation of one step, as far as accepted payloads are concerned -/
theorem sentOf_step {ca cb : Cfg} {aa ab : Addr} {d : TNet} (h : TInv ca cb aa ab d) (s : TStep) (b : Bool) :
    TNet.sentOf b [(d.step s).2] = programOf (cfgOf ca cb b) (addrOf aa ab b) b [s] := by
  cases s with
  | userSend b' a =>
    show TNet.sentOf b [TEv.sent b' a ((d.enter b').send a).2 _] = _
    rw [t_sentOf_sent, programOf_send, tl_send_eq]
    by_cases hb : b' = b
    · subst hb
      have : ((d.enter b').core.send a).2 = ((State.init (cfgOf ca cb b') (addrOf aa ab b')).send a).2 :=
        send_res_congr _ _ a (h.cfg b') (h.addr b')
      simp only [this, queued, accepts]
    · simp [hb]
  | _ => rfl

/-- **send_linearised (network level).** In every run, the payloads accepted by `send()` on peer `b` are the
    payloads of the acceptable `userSend b` steps of the schedule, in schedule order. -/
theorem sentOf_runFrom {ca cb : Cfg} {aa ab : Addr} (ss : List TStep) (b : Bool) : ∀ (d : TNet) (tr : List TEv),
    TInv ca cb aa ab d →
    TNet.sentOf b (TNet.runFrom d tr ss).2 = TNet.sentOf b tr ++ programOf (cfgOf ca cb b) (addrOf aa ab b) b ss := by
  induction ss with
  | nil => intro d tr _; simp [runFrom_nil, programOf]
  | cons s ss ih =>
    intro d tr h
    rw [runFrom_cons, ih _ _ (tinv_step h s), sentOf_snoc, sentOf_step h s b, programOf_cons _ _ _ s ss,
      List.append_assoc]

theorem sent_eq_program (ca cb : Cfg) (aa ab : Addr) (sched : List TStep) (b : Bool) :
    TNet.sent b (TNet.run (TNet.init ca cb aa ab) sched) = programOf (cfgOf ca cb b) (addrOf aa ab b) b sched := by
  have := sentOf_runFrom sched b (TNet.init ca cb aa ab) [] (tinv_init ca cb aa ab)
  simpa [TNet.sent, TNet.run, TNet.sentOf] using this

/-- the program of one user thread (a sub-list of the schedule) is a sub-list of the linearisation -/
theorem program_sublist (c : Cfg) (ad : Addr) (b : Bool) (thread sched : List TStep) (h : thread.Sublist sched) :
    (programOf c ad b thread).Sublist (programOf c ad b sched) := h.filterMap _

/-! ### wake-up -/

/-- the state of the logic layer of peer `b` on which the next worker iteration runs `process`: global clock, the
    frames in front of the first token appended to the unread input -/
def workerInput (d : TNet) (b : Bool) : State :=
  { coreIn d b with inbox := (coreIn d b).inbox ++ (TL.takeUntilNone (d.get b).relayQ).1.map (fun m => (0, m)) }

/-- one worker iteration of peer `b`: `process(do_rx=True, do_tx=True)` on `workerInput`; the relay queue loses the
    frames taken and the first token -/
theorem worker_step_get {d : TNet} (b : Bool) (hl : Live (d.get b)) :
    ((d.step (.worker b)).1.get b).core = { ((workerInput d b).process true true).1 with log := [] } ∧
    ((d.step (.worker b)).1.get b).relayQ = (TL.takeUntilNone (d.get b).relayQ).2 := by
  have hl' : Live (d.enter b) := ⟨hl.main, hl.relay, hl.noStop⟩
  show ((d.leave b (d.enter b).workerStep).1.get b).core = _ ∧ ((d.leave b (d.enter b).workerStep).1.get b).relayQ = _
  rw [leave_get_same, workerStep_live _ hl']
  exact ⟨rfl, rfl⟩

/-- the request `send(a)` queues -/
def reqOf (c : Cfg) (a : SendArgs) : Req :=
  { id := a.id, size := a.size.toNat, src := a.src, tat := a.tat.getD c.defaultTat, instr := a.instr }

/-- an accepted `send` on peer `b`: its request goes to the END of the tx queue, a wake-up token to the end of the relay
    queue -/
theorem send_step_get {ca cb : Cfg} {aa ab : Addr} {d : TNet} (h : TInv ca cb aa ab d) (b : Bool) (a : SendArgs)
    (hacc : accepts (cfgOf ca cb b) (addrOf aa ab b) a = true) :
    ((d.step (.userSend b a)).1.get b).core.txQueue = (d.get b).core.txQueue ++ [reqOf (cfgOf ca cb b) a] ∧
    ((d.step (.userSend b a)).1.get b).relayQ = (d.get b).relayQ ++ [none] := by
  show ((d.leave b ((d.enter b).send a).1).1.get b).core.txQueue = _ ∧ ((d.leave b ((d.enter b).send a).1).1.get b).relayQ = _
  rw [leave_get_same, tl_send_eq]
  have hres : ((d.enter b).core.send a).2 ≠ some .ValueError := by
    rw [send_res_congr (d.enter b).core (State.init (cfgOf ca cb b) (addrOf aa ab b)) a (h.cfg b) (h.addr b)]
    simpa [accepts] using hacc
  rcases C12.send_cases (d.enter b).core a with ⟨h1, -⟩ | ⟨-, -, h2⟩
  · exact absurd h1 hres
  · refine ⟨?_, by simp only [hres, if_false]; rfl⟩
    show ((d.enter b).core.send a).1.txQueue = _
    rw [h2]
    show (d.get b).core.txQueue ++ [C12.mkReq (d.enter b).core a] = _
    unfold C12.mkReq reqOf
    rw [show (d.enter b).core.cfg = cfgOf ca cb b from h.cfg b]

/-- a step other than a worker iteration of peer `b` only appends to the relay queue and to the tx queue of `b` -/
theorem other_step_get {ca cb : Cfg} {aa ab : Addr} {d : TNet} (h : TInv ca cb aa ab d) (b : Bool) (s : TStep)
    (hs : s ≠ .worker b) :
    (d.get b).core.txQueue <+: ((d.step s).1.get b).core.txQueue ∧ (d.get b).relayQ <+: ((d.step s).1.get b).relayQ := by
  cases s with
  | userSend b' a =>
    show _ <+: ((d.leave b' ((d.enter b').send a).1).1.get b).core.txQueue ∧ _ <+: ((d.leave b' ((d.enter b').send a).1).1.get b).relayQ
    by_cases hb : b = b'
    · subst hb
      rw [leave_get_same, tl_send_eq]
      constructor
      · show _ <+: ((d.enter b).core.send a).1.txQueue
        rcases C12.send_cases (d.enter b).core a with ⟨-, h2⟩ | ⟨-, -, h2⟩ <;> rw [h2]
        · exact List.prefix_refl _
        · exact List.prefix_append _ _
      · show _ <+: (if _ then _ else _)
        split
        · exact List.prefix_refl _
        · exact List.prefix_append _ _
    · rw [eq_not_of_ne hb, leave_get_other]
      exact ⟨List.prefix_refl _, List.prefix_refl _⟩
  | userRecv b' =>
    show _ <+: ((d.leave b' (d.enter b').recv.1).1.get b).core.txQueue ∧ _ <+: ((d.leave b' (d.enter b').recv.1).1.get b).relayQ
    by_cases hb : b = b'
    · subst hb
      rw [leave_get_same]
      refine ⟨?_, List.prefix_refl _⟩
      show _ <+: (d.enter b).core.recv.1.txQueue
      unfold State.recv
      split <;> exact List.prefix_refl _
    · rw [eq_not_of_ne hb, leave_get_other]
      exact ⟨List.prefix_refl _, List.prefix_refl _⟩
  | relay b' =>
    show _ <+: ((d.set b' (d.get b').relayStep).get b).core.txQueue ∧ _ <+: ((d.set b' (d.get b').relayStep).get b).relayQ
    by_cases hb : b = b'
    · subst hb
      rw [get_set_same]
      cases hbus : (d.get b).bus with
      | nil => rw [relayStep_nil _ (h.live b) hbus]; exact ⟨List.prefix_refl _, List.prefix_refl _⟩
      | cons m rest =>
        rw [relayStep_cons _ (h.live b) m rest hbus]
        exact ⟨List.prefix_refl _, List.prefix_append _ _⟩
    · rw [eq_not_of_ne hb, get_set_other]
      exact ⟨List.prefix_refl _, List.prefix_refl _⟩
  | worker b' =>
    have hb : b ≠ b' := fun e => hs (e ▸ rfl)
    show _ <+: ((d.leave b' (d.enter b').workerStep).1.get b).core.txQueue ∧ _ <+: ((d.leave b' (d.enter b').workerStep).1.get b).relayQ
    rw [eq_not_of_ne hb, leave_get_other]
    exact ⟨List.prefix_refl _, List.prefix_refl _⟩
  | noise b' m =>
    show _ <+: ((d.set b' _).get b).core.txQueue ∧ _ <+: ((d.set b' _).get b).relayQ
    by_cases hb : b = b'
    · subst hb
      rw [get_set_same]
      exact ⟨List.prefix_refl _, List.prefix_refl _⟩
    · rw [eq_not_of_ne hb, get_set_other]
      exact ⟨List.prefix_refl _, List.prefix_refl _⟩
  | tick dt =>
    show _ <+: (TNet.get { d with now := d.now + dt } b).core.txQueue ∧ _ <+: (TNet.get { d with now := d.now + dt } b).relayQ
    rw [get_now]
    exact ⟨List.prefix_refl _, List.prefix_refl _⟩

theorem other_steps_get {ca cb : Cfg} {aa ab : Addr} (b : Bool) (ss : List TStep) : ∀ (d : TNet) (tr : List TEv),
    TInv ca cb aa ab d → (∀ s ∈ ss, s ≠ .worker b) →
    (d.get b).core.txQueue <+: ((TNet.runFrom d tr ss).1.get b).core.txQueue ∧
    (d.get b).relayQ <+: ((TNet.runFrom d tr ss).1.get b).relayQ := by
  induction ss with
  | nil => intro d tr _ _; exact ⟨List.prefix_refl _, List.prefix_refl _⟩
  | cons s ss ih =>
    intro d tr h hs
    rw [runFrom_cons]
    obtain ⟨h1, h2⟩ := other_step_get h b s (hs s List.mem_cons_self)
    obtain ⟨h3, h4⟩ := ih _ (tr ++ [(d.step s).2]) (tinv_step h s) (fun x hx => hs x (List.mem_cons_of_mem _ hx))
    exact ⟨h1.trans h3, h2.trans h4⟩

/-- **No lost wake-up (network level).** After an accepted `send(a)` on peer `b`, whatever the other threads do
    (`mid`: any steps but a worker iteration of `b`), the relay queue of `b` holds a wake-up token and its tx queue the
    new request; so the next worker iteration of `b` does not block (it consumes at least the token), and it runs
    `process(do_rx=True, do_tx=True)` on a state (`workerInput`) whose tx queue contains the request. -/
theorem wakeup_net {ca cb : Cfg} {aa ab : Addr} {d : TNet} (h : TInv ca cb aa ab d) (b : Bool) (a : SendArgs)
    (hacc : accepts (cfgOf ca cb b) (addrOf aa ab b) a = true) (tr : List TEv) (mid : List TStep)
    (hmid : ∀ s ∈ mid, s ≠ .worker b) :
    let d2 := (TNet.runFrom (d.step (.userSend b a)).1 tr mid).1
    none ∈ (d2.get b).relayQ ∧
    reqOf (cfgOf ca cb b) a ∈ (workerInput d2 b).txQueue ∧
    ((d2.step (.worker b)).1.get b).core = { ((workerInput d2 b).process true true).1 with log := [] } ∧
    ((d2.step (.worker b)).1.get b).relayQ.length < (d2.get b).relayQ.length ∧
    toNOp d2 (.worker b) = [.deliver (idx (!b)) (d2.movedBy b), .proc (idx b)] := by
  intro d2
  have h1 := tinv_step h (.userSend b a)
  obtain ⟨hq, hr⟩ := send_step_get h b a hacc
  obtain ⟨hq2, hr2⟩ := other_steps_get b mid _ tr h1 hmid
  have h2 : TInv ca cb aa ab d2 := tinv_runFrom mid _ tr h1
  have htok : none ∈ (d2.get b).relayQ := hr2.subset (by rw [hr]; simp)
  obtain ⟨hw1, hw2⟩ := worker_step_get (d := d2) b (h2.live b)
  refine ⟨htok, ?_, hw1, ?_, rfl⟩
  · show _ ∈ (d2.get b).core.txQueue
    exact hq2.subset (by rw [hq]; simp)
  · rw [hw2]
    exact takeUntilNone_length_lt _ htok

end Isotp.TNetP
