import Isotp.Proofs.Tx
/-
  C17 — "Generator payloads are streamed lazily and size mismatches are caught."
  Property theorems (see DESIGN.md §6). Helper lemmas live in Isotp/Proofs/Tx.lean.

  Reading guide (definitions in Isotp/Proofs/Tx.lean).
  * `Req` (model): `size` = declared size, `src` = what the generator will still yield, `consumed` = pull counter.
  * `Fresh r0 p`: `r0` has pulled nothing yet, declares `|p|` values, and what its generator yields agrees with `p`
    as far as it goes. Every request `send` builds is `Fresh` for `completion src size` (`send_any_generator`):
    what the generator yields, cut at `size` or completed to `size`. `Full r0 p`: it yields at least `size` values.
  * `TxInv0 s r0 p k`: `k` frames of `p` have been handed to the CAN layer and the transfer is going on.
  * `pulled s`: pull counter of the request in flight; `firstPull`: values needed for frame 0; `Spec.carried tc n k`:
    payload bytes carried by the first `k` frames.
  * `BadGen s s' r`: `BadGeneratorError` reported, `complete(False)` logged, FSM idle. `Failed`: `complete(False)` logged.
-/
namespace Isotp.C17
open Isotp Isotp.Spec Isotp.State Isotp.Proofs

/-! ## concrete instances for the non-vacuity examples -/

def exCfg : Cfg := {}
def exHalf : Half := { mode := .n11, txid := some 0x123, rxid := some 0x456, ta := none, sa := none, ae := none,
                       physId := 0, funcId := 0, rxOnly := false, txOnly := false }
def exAddr : Addr := { tx := exHalf, rx := exHalf }
/-- a generator that yields 30 values while 20 are declared -/
def exLong : Req := { id := 7, size := 20, src := (List.range 30).map UInt8.ofNat, instr := true }
/-- a generator that yields only 9 values while 20 are declared: enough for the First Frame, not for CF 1 -/
def exShort : Req := { id := 8, size := 20, src := (List.range 9).map UInt8.ofNat, instr := true }
/-- a generator that yields only 3 values while 5 are declared (Single Frame) -/
def exShortSf : Req := { id := 9, size := 5, src := [1, 2, 3], instr := true }
def exState (r : Req) : State := { State.init exCfg exAddr with txQueue := [r] }
def exFc : CanMsg := { id := 0x456, ext := false, data := [0x30, 0x00, 0x00] }

theorem exLong_fresh : Fresh exLong ((List.range 20).map UInt8.ofNat) := ⟨⟨rfl, by decide, by decide, rfl⟩, rfl⟩
theorem exShort_fresh : Fresh exShort (completion exShort.src 20) := ⟨⟨rfl, by decide, by decide, rfl⟩, rfl⟩
theorem exLive (r : Req) : Live (exState r) (exState r) := ⟨rfl, rfl, rfl, (by intro h; cases h), QLog.refl _⟩

/-! ## E1. `FiniteByteGenerator.consume` -/

/-- One `consume(n, enforce_exact)` call: the values are taken in order from the front of what the generator still
    yields (each at most once: the rest is `src.drop n`), at most `n` of them (`min n |src|`), the returned data — if
    any — are exactly those values, and the declared size / identity do not change. -/
theorem consume_bounds (r : Req) (n : Nat) (e : Bool) :
    (r.consume n e).1.src = r.src.drop n ∧
    (r.consume n e).1.consumed = r.consumed + min n r.src.length ∧
    (r.consume n e).1.consumed - r.consumed ≤ n ∧
    (r.consume n e).1.size = r.size ∧ (r.consume n e).1.id = r.id ∧
    (∀ d, (r.consume n e).2 = some d → d = r.src.take n ∧ d.length = (r.consume n e).1.consumed - r.consumed) := by
  obtain ⟨h1, h2, h3, h4, h5⟩ := consume_spec r n e
  refine ⟨h1, h2, by rw [h2]; omega, h3, h4, ?_⟩
  intro d hd
  obtain ⟨h6, h7⟩ := h5 d hd
  exact ⟨h6, by rw [h7, h2]; omega⟩

/-- Asking for no more than `remaining_size()` never pulls beyond the declared size. -/
theorem consume_within_size (r : Req) (n : Nat) (e : Bool) (hle : r.consumed ≤ r.size) (hn : n ≤ r.remaining) :
    (r.consume n e).1.consumed ≤ r.size :=
  consume_within r n e hle hn

/-- When the generator ends before `n` values: `BadGeneratorError` (`none`) with `enforce_exact`, otherwise the values
    that were left are returned and the generator is flagged depleted. -/
theorem consume_generator_ended (r : Req) (n : Nat) (e : Bool) (hle : r.consumed ≤ r.size) (hn : n ≤ r.remaining)
    (hs : r.src.length < n) :
    (r.consume n e).2 = (if e then none else some r.src) ∧ (r.consume n e).1.depletedFlag = true :=
  consume_early r n e hle hn hs

example : (exLong.consume 6 true).2 = some [0, 1, 2, 3, 4, 5] ∧ (exLong.consume 6 true).1.consumed = 6 := by decide
example : (exShortSf.consume 5 true).2 = none ∧ (exShortSf.consume 5 false).2 = some [1, 2, 3] := by decide

/-! ## E2. call sites: never more than `remaining`, never beyond `size` -/

/-- Every request `send` can build — any generator, any declared size — is `Fresh` for the completion of what its
    generator yields: all the theorems below apply to it. -/
theorem send_any_generator (s : State) (a : SendArgs) :
    Fresh (reqOf s a) (completion a.src a.size.toNat) ∧ (completion a.src a.size.toNat).length = a.size.toNat :=
  ⟨reqOf_fresh_any s a, completion_length _ _⟩

/-- …and when the generator yields at least `size` values, that completion is just its first `size` values. -/
theorem completion_of_long_generator (src : Bytes) (size : Nat) (h : size ≤ src.length) :
    completion src size = src.take size :=
  completion_full src size h

/-- The first pull (`startTx`): the whole payload for a Single Frame (`n = size = remaining`), the First Frame part
    otherwise (`n = ffRoom < size`); both are at most `remaining_size()` and at most one frame. -/
theorem first_pull_within (c : Cfg) (a : Addr) (hv : c.valid = true) (n : Nat) :
    firstPull (TxCfg.of c a) n ≤ n ∧ firstPull (TxCfg.of c a) n ≤ c.txDl :=
  ⟨firstPull_le _ (valid_of c a hv) n, firstPull_le_txDl _ (valid_of c a hv) n⟩

/-- `startTx` pulls exactly `firstPull` values when the generator has them (state: `Req.adv r0 firstPull` stored as the
    active request — frame 0 emitted or parked), and otherwise pulls what is left and aborts with `BadGeneratorError`
    without building any frame. -/
theorem startTx_pulls (s : State) (r0 : Req) (a : Nat) (p : Bytes) (hv : s.cfg.valid = true) (hfr : Fresh r0 p)
    (h1 : 1 ≤ p.length) (hn : p.length < 4294967296) :
    (firstPull (TxCfg.of s.cfg s.addr) p.length ≤ r0.src.length ∧
      Advance s (s.startTx r0 a).1 (s.startTx r0 a).2 r0 p 0) ∨
    (r0.src.length < firstPull (TxCfg.of s.cfg s.addr) p.length ∧
      (s.startTx r0 a).2 = none ∧ BadGen s (s.startTx r0 a).1 r0) := by
  by_cases hen : firstPull (TxCfg.of s.cfg s.addr) p.length ≤ r0.src.length
  · exact Or.inl ⟨hen, startTx_adv s r0 a p hv hfr h1 hn hen⟩
  · exact Or.inr ⟨by omega, startTx_short s r0 a p hv hfr.1 hfr.2 (by omega)⟩

/-- Invariant: while a transfer is queued or in flight the pull counter of the active request never exceeds its
    declared size — values beyond `size` are never pulled (for any generator). -/
theorem consumed_le_size (s : State) (r0 : Req) (p : Bytes) (k : Nat) (hv : s.cfg.valid = true) (hfr : Fresh r0 p)
    (hi : TxInv0 s r0 p k) : ∀ r, s.active = some r → r.consumed ≤ r.size :=
  TxInv0.within_size hv hfr hi

/-- The invariant is established by `send` + the first pass and maintained by every pass and every other API call,
    for any generator (`Pass`: the progress invariant holds again afterwards unless the transfer completed / failed). -/
theorem invariant_maintained (s : State) (r0 : Req) (p : Bytes) (k : Nat)
    (hv : s.cfg.valid = true) (hfr : Fresh r0 p) (h1 : 1 ≤ p.length) (hn : p.length < 4294967296)
    (hexc : s.exc = none) (hfc : FcOk s) (hd : fcPass s = false) (hi : TxInv0 s r0 p k) :
    Pass s s.processTx.1 s.processTx.2.1 r0 p k ∧ ∀ o : Op, TxInv0 (o.apply s) r0 p k :=
  ⟨processTx_pass s r0 p k hv hfr h1 hn hexc hfc hd hi, fun o => Op.inv0 s o r0 p k hi⟩

example : ∀ r, (run [.tx, .op (.rx exFc), .tx] (exState exLong)).1.active = some r → r.consumed ≤ r.size := by decide
/-- the values beyond `size` stay in the generator -/
example : (run [.tx, .op (.rx exFc), .tx, .tx] (exState exLong)).1.log.filter (fun e => match e with | .pull .. => true | _ => false)
    = [.pull 7 6, .pull 7 7, .pull 7 7].reverse ∧
    (run [.tx, .op (.rx exFc), .tx, .tx] (exState exLong)).2.map (·.data) =
      segment (TxCfg.of exCfg exAddr) ((List.range 20).map UInt8.ofNat) := by decide

/-! ## E3. laziness -/

/-- The number of values pulled so far is exactly what the frames built so far carry: nothing while the request is
    queued; the payload of the `k` frames already emitted while the transfer is in flight (no look-ahead); and, only
    when the rate limiter parked frame 0, that single frame. -/
theorem pulled_matches_frames (s : State) (r0 : Req) (p : Bytes) (k : Nat) (hv : s.cfg.valid = true)
    (hfr : Fresh r0 p) (hi : TxInv0 s r0 p k) :
    (k = 0 ∧ pulled s = 0) ∨ (k = 0 ∧ pulled s = firstPull (TxCfg.of s.cfg s.addr) p.length) ∨
    (1 ≤ k ∧ carried (TxCfg.of s.cfg s.addr) p.length k < p.length ∧
      pulled s = carried (TxCfg.of s.cfg s.addr) p.length k) :=
  TxInv0.pulled_cases hv hfr hi

/-- `carried` really counts payload bytes: frame `k ≥ 1` adds the length of its payload piece. -/
theorem carried_counts_payload (tc : TxCfg) (p : Bytes) (k : Nat) (hk : 1 ≤ k) (hlt : carried tc p.length k < p.length) :
    carried tc p.length (k + 1) = carried tc p.length k + ((p.drop (carried tc p.length k)).take (cfRoom tc)).length :=
  carried_payload tc p k hk hlt

/-- A transmit pass (progress unchanged or one more frame out) pulls at most one frame's worth of values,
    `≤ tx_data_length`: arbitrarily large payloads need no buffering. -/
theorem pulls_per_pass (s s' : State) (r0 : Req) (p : Bytes) (k k' : Nat) (hv : s.cfg.valid = true) (hfr : Fresh r0 p)
    (hcfg : s'.cfg = s.cfg) (haddr : s'.addr = s.addr) (hi : TxInv0 s r0 p k) (hi' : TxInv0 s' r0 p k')
    (hk : k' = k ∨ k' = k + 1) : pulled s' ≤ pulled s + s.cfg.txDl :=
  pulled_step hv hfr hcfg haddr hi hi' hk

example : pulled (exState exLong) = 0 ∧ pulled (run [.tx] (exState exLong)).1 = 6 ∧
    pulled (run [.tx, .op (.rx exFc), .tx] (exState exLong)).1 = 13 := by decide

/-! ## E4. generators that end early -/

/-- `startTx` (`enforce_exact = True`) with a generator that cannot fill frame 0: what is left is pulled, no frame is
    built, `BadGeneratorError` is reported, the request completed with failure and the FSM idle. -/
theorem startTx_generator_ended (s : State) (r0 : Req) (a : Nat) (p : Bytes) (hv : s.cfg.valid = true)
    (hfr : Fresh r0 p) (hs : r0.src.length < firstPull (TxCfg.of s.cfg s.addr) p.length) :
    (s.startTx r0 a).2 = none ∧ BadGen s (s.startTx r0 a).1 r0 :=
  startTx_short s r0 a p hv hfr.1 hfr.2 hs

example : ((exState exShortSf).startTx exShortSf 1000).2 = none ∧
    ((exState exShortSf).startTx exShortSf 1000).1.log =
      [.done 9 false, .err 0 .BadGenerator, .pull 9 3] := by decide

/-- `transmitCf` (`enforce_exact = False`) with a generator that cannot fill the next Consecutive Frame: either the
    pass does nothing (STmin pacing / rate limiter), or what is left is pulled and sent in a short Consecutive Frame —
    none if nothing was left —, then `BadGeneratorError` is reported, the request completed with failure, FSM idle. -/
theorem transmitCf_generator_ended (s : State) (allowed : Nat) (p : Bytes) (r : Req) (rbs : Nat)
    (hv : s.cfg.valid = true) (hact : s.active = some r) (hbs : s.remoteBs = some rbs) (hf : Feeds r p)
    (hlt : r.consumed < p.length)
    (hs : r.src.length < min (cfRoom (TxCfg.of s.cfg s.addr)) (p.length - r.consumed)) :
    s.transmitCf allowed = (s, none, false) ∨
    ((s.transmitCf allowed).2.1 =
        (if r.src.length = 0 then none else
          some (frameMsg s.cfg s.addr (s.addr.tx.txId .physical)
            (padFrame (TxCfg.of s.cfg s.addr) (s.addr.tx.txPrefix ++ [u8 (0x20 + s.txSeq)] ++ r.src)))) ∧
     BadGen s (s.transmitCf allowed).1 r) :=
  transmitCf_short s allowed p r rbs hv hact hbs hf hlt hs

/-- A data pass for any generator: the progress invariant again, or frame `k` of the reference segmentation of the
    completed payload, or completion — which requires that the generator really yielded `size` values —, or failure. -/
theorem pass_any_generator (s : State) (r0 : Req) (p : Bytes) (k : Nat)
    (hv : s.cfg.valid = true) (hfr : Fresh r0 p) (h1 : 1 ≤ p.length) (hn : p.length < 4294967296)
    (hexc : s.exc = none) (hfc : FcOk s) (hd : fcPass s = false) (hi : TxInv0 s r0 p k) :
    Pass s s.processTx.1 s.processTx.2.1 r0 p k :=
  processTx_pass s r0 p k hv hfr h1 hn hexc hfc hd hi

/-- A generator that ends early is never completed as a shorter or padded message: for every run of API calls, either
    the transfer is still in flight — no `complete(...)` at all has been logged since the start (`Live.log`) and the
    frames emitted so far are frames of the reference segmentation (First Frame announcing the declared size) —, or it
    ended at some pass with `complete(False)`. `complete(True)` is never the outcome. -/
theorem short_generator_never_completes (s0 : State) (r0 : Req) (p : Bytes) (hv : s0.cfg.valid = true)
    (hfr : Fresh r0 p) (hshort : r0.src.length < p.length) (h1 : 1 ≤ p.length) (hn : p.length < 4294967296)
    (steps : List Step) (s : State) (k : Nat) (hl : Live s0 s) (hi : TxInv0 s r0 p k) :
    (TxInv0 (run steps s).1 r0 p (k + (run steps s).2.length) ∧ Live s0 (run steps s).1 ∧ Sent s0 r0 p k (run steps s).2) ∨
    (∃ pre post, steps = pre ++ Step.tx :: post ∧
       TxInv0 (run pre s).1 r0 p (k + (run pre s).2.length) ∧ Live s0 (run pre s).1 ∧ Sent s0 r0 p k (run pre s).2 ∧
       Failed (run pre s).1 (run pre s).1.processTx.1 r0) := by
  rcases run_segment s0 r0 p hv hfr h1 hn steps s k hl hi with h | ⟨pre, post, he, h1', h2, h3, -, h5⟩
  · exact Or.inl h
  · rcases h5 with ⟨d, -, -, -, hfull⟩ | h5
    · omega
    · exact Or.inr ⟨pre, post, he, h1', h2, h3, h5⟩

/-- Conversely a request can only complete successfully if its generator yielded all the declared values. -/
theorem completion_needs_all_values (s : State) (r0 : Req) (p : Bytes) (k : Nat)
    (hv : s.cfg.valid = true) (hfr : Fresh r0 p) (h1 : 1 ≤ p.length) (hn : p.length < 4294967296)
    (hexc : s.exc = none) (hfc : FcOk s) (hd : fcPass s = false) (hi : TxInv0 s r0 p k)
    (hshort : r0.src.length < p.length) :
    (s.processTx.2.1 = none ∧ TxInv0 s.processTx.1 r0 p k ∧ Quiet s s.processTx.1) ∨
    (∃ d, (segOf s p)[k]? = some d ∧ s.processTx.2.1 = some (msgFor s r0 p d) ∧ TxInv0 s.processTx.1 r0 p (k + 1) ∧
      Quiet s s.processTx.1) ∨
    Failed s s.processTx.1 r0 := by
  rcases processTx_pass s r0 p k hv hfr h1 hn hexc hfc hd hi with h | h | ⟨d, -, -, -, -, hfull⟩ | h
  · exact Or.inl h
  · exact Or.inr (Or.inl h)
  · omega
  · exact Or.inr (Or.inr h)

/-- the short generator of the example: First Frame out, then CF 1 cannot be filled: the 3 values left go out in a
    short CF and the transfer fails -/
example : (run [.tx, .op (.rx exFc), .tx] (exState exShort)).2.map (·.data) =
    [[0x10, 20, 0, 1, 2, 3, 4, 5], [0x21, 6, 7, 8]] := by decide
example : (run [.tx, .op (.rx exFc), .tx] (exState exShort)).1.log.filter (fun e => match e with | .done .. | .err .. => true | _ => false)
    = [.done 8 false, .err 0 .BadGenerator] := by decide
example : (run [.tx, .op (.rx exFc), .tx] (exState exShort)).1.txState = .idle := by decide
example : exShort.src.length < (completion exShort.src 20).length := by decide
example : TxQueued (exState exShort) exShort := ⟨rfl, rfl, [], rfl⟩

end Isotp.C17

#print axioms Isotp.C17.consume_bounds
#print axioms Isotp.C17.consume_within_size
#print axioms Isotp.C17.consume_generator_ended
#print axioms Isotp.C17.send_any_generator
#print axioms Isotp.C17.completion_of_long_generator
#print axioms Isotp.C17.first_pull_within
#print axioms Isotp.C17.startTx_pulls
#print axioms Isotp.C17.consumed_le_size
#print axioms Isotp.C17.invariant_maintained
#print axioms Isotp.C17.pulled_matches_frames
#print axioms Isotp.C17.carried_counts_payload
#print axioms Isotp.C17.pulls_per_pass
#print axioms Isotp.C17.startTx_generator_ended
#print axioms Isotp.C17.transmitCf_generator_ended
#print axioms Isotp.C17.pass_any_generator
#print axioms Isotp.C17.short_generator_never_completes
#print axioms Isotp.C17.completion_needs_all_values
