"""
Source drift steering (DESIGN 4.2b).  Not a verdict: it only decides HOW MUCH correspondence / judge
search a quick run does.  harness/anchors.json (committed) holds, for every function of /repo that the
model mirrors, a hash of its normalised AST (docstrings, comments, formatting, type annotations
removed).  When the hash of a function differs from the recorded one, the quick tier of the
properties that depend on it runs with a multiplied scenario budget, and the evidence records it.

  anchors.py update      rewrite anchors.json from the current /repo (run by hand on the unchanged tree)
  anchors.py show        list drifted functions
"""
import ast
import os
import sys
import json
import hashlib

HERE = os.path.dirname(os.path.abspath(__file__))
PATH = os.path.join(HERE, 'anchors.json')

LOGIC = ['C01', 'C02', 'C03', 'C04', 'C05', 'C06', 'C07', 'C08', 'C09', 'C10', 'C11', 'C12', 'C13', 'C14', 'C15', 'C16', 'C17', 'C18']
RX = ['C01', 'C03', 'C05', 'C06', 'C07', 'C10', 'C11', 'C13', 'C18']
TX = ['C01', 'C02', 'C04', 'C07', 'C08', 'C10', 'C11', 'C12', 'C13', 'C15', 'C17', 'C18']
THREAD = ['C12', 'C13', 'C14']

# function (file:qualified name) -> properties whose model / theorems depend on it
DEPENDS = {
    'isotp/protocol.py:PDU.__init__': RX + ['C04', 'C08'],
    'isotp/protocol.py:PDU.craft_flow_control_data': ['C03', 'C05', 'C06', 'C01', 'C10'],
    'isotp/protocol.py:RateLimiter.*': ['C15', 'C04', 'C12'],
    'isotp/protocol.py:TransportLayerLogic.Params.*': ['C16'],
    'isotp/protocol.py:TransportLayerLogic.SendRequest.*': ['C12', 'C17', 'C02', 'C13'],
    'isotp/protocol.py:TransportLayerLogic.__init__': LOGIC,
    'isotp/protocol.py:TransportLayerLogic.load_params': ['C15', 'C16', 'C07'],
    'isotp/protocol.py:TransportLayerLogic.send': ['C02', 'C09', 'C12', 'C16', 'C17', 'C13', 'C01', 'C10'],
    'isotp/protocol.py:TransportLayerLogic.recv': ['C01', 'C03', 'C05', 'C10', 'C13'],
    'isotp/protocol.py:TransportLayerLogic.available': ['C03', 'C05'],
    'isotp/protocol.py:TransportLayerLogic.transmitting': ['C04', 'C12'],
    'isotp/protocol.py:TransportLayerLogic.process': LOGIC,
    'isotp/protocol.py:TransportLayerLogic._check_timeouts_rx': RX,
    'isotp/protocol.py:TransportLayerLogic._process_rx': RX + ['C04', 'C09'],
    'isotp/protocol.py:TransportLayerLogic._process_tx': TX + ['C03', 'C05', 'C06', 'C09', 'C16'],
    'isotp/protocol.py:TransportLayerLogic.set_address': ['C09', 'C16'],
    'isotp/protocol.py:TransportLayerLogic._pad_message_data': ['C02', 'C03', 'C01', 'C10', 'C15', 'C16'],
    'isotp/protocol.py:TransportLayerLogic._empty_rx_buffer': RX,
    'isotp/protocol.py:TransportLayerLogic._start_rx_fc_timer': ['C07', 'C04', 'C11'],
    'isotp/protocol.py:TransportLayerLogic._start_rx_cf_timer': ['C07', 'C03', 'C11'],
    'isotp/protocol.py:TransportLayerLogic._append_rx_data': RX,
    'isotp/protocol.py:TransportLayerLogic._request_tx_flowcontrol': ['C03', 'C05', 'C06', 'C18', 'C01', 'C10'],
    'isotp/protocol.py:TransportLayerLogic._stop_sending_flow_control': ['C03', 'C10', 'C01', 'C06'],
    'isotp/protocol.py:TransportLayerLogic._make_tx_msg': ['C02', 'C09', 'C03', 'C16'],
    'isotp/protocol.py:TransportLayerLogic._get_dlc': ['C02', 'C16'],
    'isotp/protocol.py:TransportLayerLogic._get_nearest_can_fd_size': ['C02', 'C16'],
    'isotp/protocol.py:TransportLayerLogic._make_flow_control': ['C03', 'C05', 'C06', 'C09'],
    'isotp/protocol.py:TransportLayerLogic.stop_sending': ['C12', 'C04', 'C14'],
    'isotp/protocol.py:TransportLayerLogic._stop_sending': TX,
    'isotp/protocol.py:TransportLayerLogic.stop_receiving': ['C06', 'C07', 'C14'],
    'isotp/protocol.py:TransportLayerLogic._stop_receiving': RX,
    'isotp/protocol.py:TransportLayerLogic.clear_rx_queue': ['C14', 'C12'],
    'isotp/protocol.py:TransportLayerLogic.clear_tx_queue': ['C12', 'C14'],
    'isotp/protocol.py:TransportLayerLogic._start_reception_after_first_frame_if_valid': RX,
    'isotp/protocol.py:TransportLayerLogic._trigger_error': ['C05', 'C06', 'C07', 'C04'],
    'isotp/protocol.py:TransportLayerLogic.reset': ['C12', 'C14', 'C06'],
    'isotp/protocol.py:TransportLayerLogic.is_tx_throttled': ['C15'],
    'isotp/protocol.py:TransportLayerLogic.is_rx_active': ['C07'],
    'isotp/protocol.py:TransportLayer.*': THREAD,
    'isotp/protocol.py:python_can_tx_canbus_3plus': ['C13'],
    'isotp/protocol.py:_python_can_to_isotp_message': ['C13'],
    'isotp/protocol.py:CanStack.*': ['C13', 'C14'],
    'isotp/protocol.py:NotifierBasedCanStack.*': ['C13', 'C14'],
    'isotp/tools.py:Timer.*': ['C07', 'C08', 'C04', 'C11', 'C15'],
    'isotp/tools.py:FiniteByteGenerator.*': ['C17', 'C02', 'C12'],
    'isotp/address.py:Address.*': ['C09', 'C16', 'C20', 'C01', 'C10'],
    'isotp/address.py:AsymmetricAddress.*': ['C09', 'C16', 'C20', 'C01'],
    'isotp/tpsock/opts.py:*': ['C19', 'C20'],
    'isotp/tpsock/__init__.py:*': ['C19', 'C20'],
    'isotp/errors.py:*': ['C05', 'C06'],
    'isotp/can_message.py:*': ['C02', 'C05', 'C13'],
}


class _Norm(ast.NodeTransformer):
    def visit_FunctionDef(self, node):
        self.generic_visit(node)
        node.returns = None
        for a in node.args.args + node.args.kwonlyargs + node.args.posonlyargs:
            a.annotation = None
        if node.body and isinstance(node.body[0], ast.Expr) and isinstance(getattr(node.body[0], 'value', None), ast.Constant) \
                and isinstance(node.body[0].value.value, str):
            node.body = node.body[1:] or [ast.Pass()]
        return node

    def visit_AnnAssign(self, node):
        self.generic_visit(node)
        if node.value is None:
            return None
        return ast.Assign(targets=[node.target], value=node.value)


def function_hashes(repo):
    out = {}
    for rel in ('isotp/protocol.py', 'isotp/tools.py', 'isotp/address.py', 'isotp/tpsock/opts.py', 'isotp/tpsock/__init__.py',
                'isotp/errors.py', 'isotp/can_message.py'):
        p = os.path.join(repo, rel)
        try:
            tree = ast.parse(open(p, 'rb').read())
        except Exception:
            out[rel + ':<unparsable>'] = 'x'
            continue

        def walk(node, prefix):
            for ch in node.body:
                if isinstance(ch, (ast.FunctionDef, ast.AsyncFunctionDef)):
                    n = _Norm().visit(ast.parse(ast.unparse(ch)).body[0])
                    out['%s:%s%s' % (rel, prefix, ch.name)] = hashlib.sha1(ast.dump(n).encode()).hexdigest()[:16]
                elif isinstance(ch, ast.ClassDef):
                    # class-level statements other than functions (constants, enum members)
                    rest = [c for c in ch.body if not isinstance(c, (ast.FunctionDef, ast.AsyncFunctionDef, ast.ClassDef))]
                    rest = [c for c in rest if not (isinstance(c, ast.Expr) and isinstance(getattr(c, 'value', None), ast.Constant))]
                    rest = [c for c in rest if not (isinstance(c, ast.AnnAssign) and c.value is None)]
                    out['%s:%s%s.<body>' % (rel, prefix, ch.name)] = hashlib.sha1(
                        ''.join(ast.dump(c) for c in rest).encode()).hexdigest()[:16]
                    walk(ch, prefix + ch.name + '.')
        walk(tree, '')
    return out


def properties_of(func):
    rel, q = func.split(':', 1)
    best = None
    for pat, props in DEPENDS.items():
        prel, pq = pat.split(':', 1)
        if prel != rel:
            continue
        if pq == q or pq == '*' or (pq.endswith('.*') and (q.startswith(pq[:-1]) or q == pq[:-2])):
            if best is None or len(pq) > len(best[0]):
                best = (pq, props)
    return best[1] if best else []


def drift(repo):
    """-> {property: [functions whose normalised AST changed / appeared / disappeared]}"""
    if not os.path.exists(PATH):
        return {}
    ref = json.load(open(PATH))
    cur = function_hashes(repo)
    changed = [f for f in set(ref) | set(cur) if ref.get(f) != cur.get(f)]
    out = {}
    for f in sorted(changed):
        for p in properties_of(f):
            out.setdefault(p, []).append(f)
    return out


if __name__ == '__main__':
    repo = os.environ.get('VERIF_REPO', '/repo')
    if sys.argv[1:] == ['update']:
        json.dump(function_hashes(repo), open(PATH, 'w'), indent=1, sort_keys=True)
        print('anchors written:', len(function_hashes(repo)))
    else:
        print(json.dumps(drift(repo), indent=1))
