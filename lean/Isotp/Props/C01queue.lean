import Isotp.Proofs.LockstepQueue5
import Isotp.Props.C01live
/-
  C01, liveness half, ANY NUMBER OF QUEUED MESSAGES — "… every non-empty payload accepted by send() on one side is
  returned by recv() on the other side exactly once, byte-for-byte identical and in the order it was sent … any
  number of queued messages".

  Setting (as C01live): two freshly constructed layers A (layer 0) and B (layer 1) of the network the driver runs,
  `A.send(p₁) … A.send(p_k)` (all before the first round; `startNetQ`), then the canonical rounds of C01live
      round := A.process(); deliver all A emitted to B; B.process(); deliver all B emitted to A; tick dt.
  Hypotheses (`QScenario`): the payload-independent hypotheses of `Lockstep.Scenario` (valid configurations, B not in
  listen mode, well-formed mirrored addresses, valid STmin byte, `eff < dt`, `dt ≤ tFc(A)`, `gap ≤ tCf(B)`), and for
  EVERY queued payload `1 ≤ |p| < 2^32`, `|p| ≤ max_frame_size(B)`; rate limiter off at A; every `send` accepted.
  `recv()` is never called during the rounds: B's rx queue accumulates.

  What happens (and is proved): the pass of A that hands out the LAST frame of a message goes on in the same transmit
  loop — `_process_tx` finds the FSM idle with a non-empty queue and starts the next message: every queued Single
  Frame message goes out (and completes) at once, then the First Frame of the next segmented message. B receives all
  of it in one pass: delivers the payload, every Single Frame payload, opens the next session and answers with
  ContinueToSend. So a message does NOT cost `roundsFor p` rounds but `roundsFor p − 1` (0 for a Single Frame):

      queueRounds [p₁, …, p_k] = 1 + Σᵢ (roundsFor pᵢ − 1)        (0 for the empty list)        — EXACT.

  Results (any blocksize, any valid STmin with or without override, any addressing mode, any mix of Single Frame
  and segmented messages, any ids — they need not be distinct):
  * `queue_completes`: after `N ≥ queueRounds l` rounds B's rx queue is exactly the payloads of `l` in order, B idle,
    A idle with empty queue and no active request, both links and inboxes empty, no error event on either side, and
    the `complete(ok)` notifications A reported over all rounds are exactly `complete(True)` for id₁, …, id_k, in this
    order, each once; clock = N·dt.
  * `recv_returns_all`: then `k` calls of `recv()` on B return p₁, …, p_k in order and the next one returns None.
  * `not_before`: the bound is exact — before `queueRounds l` rounds B has not delivered all the payloads.
  * `queue_completes_scenarios`: the same under `Lockstep.Scenario` for every payload (the vocabulary of C01live).
  * `interleaved_completes` (+ `_simple`): the `send` calls may be INTERLEAVED with the rounds in any way (`QStep`,
    `runSched`: a schedule is a list of steps, each `A.send(id, p)` or one round). Every `send` returns None; at the
    end of the schedule the messages split into `done ++ pend`, B's rx queue holds exactly the payloads of `done` and
    their requests were completed; after `N ≥ queueRounds pend` (≤ `queueRounds` of all messages) further rounds the
    conclusion of `queue_completes` holds for all the messages sent, in the order of the `send` calls.
  * `single_message`, `queueRounds_eq`, `queueRounds_le_sum`: for one message `queueRounds [p] = roundsFor p`
    (C01live.transfer_completes is the case k = 1); `queueRounds l + (k − 1) = Σ roundsFor pᵢ`: consecutive messages
    overlap by exactly one round.
  Nothing here is partial: the statements `C01queue_statement`, `C01queue_interleaved_statement` are proved as stated.
  The machinery is in Isotp/Proofs/LockstepQueue*.lean (sender with a queue; receiver with several messages per pass;
  lockstep invariant `QIdle` / `QLock` / `QAfter`; iteration; schedules).
-/
namespace Isotp.C01queue
open Isotp Isotp.State Isotp.Spec Isotp.Proofs Isotp.Lockstep Isotp.LockstepQ

/-! ## the statement -/

/-- The hypotheses: the payload-independent ones of `Lockstep.Scenario`, and every queued payload is non-empty,
    shorter than 2^32 and not longer than B's `max_frame_size`. -/
structure QScenario (ca cb : Cfg) (aa ab : Addr) (l : List (Nat × Bytes)) (dt : Nat) : Prop where
  setting : QSetting ca cb aa ab dt
  msgs    : ∀ id p, (id, p) ∈ l → 1 ≤ p.length ∧ p.length < 4294967296 ∧ p.length ≤ cb.maxFrameSize

/-- `k` calls of `recv()`: what they return, in order -/
def recvN : Nat → State → List (Option Bytes)
  | 0, _ => []
  | k + 1, s => s.recv.2 :: recvN k s.recv.1

/-- "All the transfers of `l` have completed": network `d`, events of A / of B over all rounds. -/
def CompletedAll (l : List (Nat × Bytes)) (d : Net) (evA evB : List Ev) : Prop :=
  ∃ a b, d.layers = #[a, b] ∧ d.outbox = #[[], []] ∧
    -- B has delivered exactly the payloads, in order, and is idle
    b.rxQueue = l.map (·.2) ∧ b.rxState = .idle ∧ b.inbox = [] ∧
    -- A is idle again, nothing queued, nothing active
    a.txState = .idle ∧ a.active = none ∧ a.txQueue = [] ∧ a.inbox = [] ∧
    -- every request was completed with success exactly once, in order
    doneEvs evA = l.map (fun m => (m.1, true)) ∧
    -- no error event on either side
    (∀ t e, Ev.err t e ∉ evA) ∧ (∀ t e, Ev.err t e ∉ evB)

/-- The general statement. -/
def C01queue_statement : Prop :=
  ∀ (ca cb : Cfg) (aa ab : Addr) (l : List (Nat × Bytes)) (dt : Nat),
    QScenario ca cb aa ab l dt → ca.rlEnable = false →
    (∀ id p, (id, p) ∈ l → ((State.init ca aa).send { id := id, size := p.length, src := p }).2 = none) →
    ∀ N, queueRounds ca cb aa l ≤ N →
      ∃ d0 d evA evB, startNetQ ca cb aa ab l = some (d0, l.map fun _ => none) ∧
        canonRounds dt N d0 = some (d, evA, evB) ∧ CompletedAll l d evA evB ∧ d.now = N * dt

/-! ## the theorems -/

theorem msgOk_of {ca cb : Cfg} {aa ab : Addr} {l : List (Nat × Bytes)} {dt : Nat} (h : QScenario ca cb aa ab l dt) :
    MsgOkB cb l := fun m hm => h.msgs m.1 m.2 hm

theorem fcFacts_of {ca cb : Cfg} {aa ab : Addr} {dt : Nat} (hS : QSetting ca cb aa ab dt) :
    ∃ fcm, FcFacts cb aa ab fcm :=
  fc_facts ca cb aa ab [] dt (hS.scen ca cb aa ab dt [] (by decide) (Nat.zero_le _))

/-- **C01 (liveness, any number of queued messages).** After `A.send(p₁) … A.send(p_k)` and `N ≥ queueRounds`
    canonical rounds B's rx queue is exactly `[p₁, …, p_k]`, every request was completed with success exactly once
    (in order), both sides are idle, nothing is queued or in flight, no error event. -/
theorem queue_completes : C01queue_statement := by
  intro ca cb aa ab l dt hQ hrl hacc N hN
  obtain ⟨fcm, hfc⟩ := fcFacts_of hQ.setting
  obtain ⟨hI, hA, hB, hd, hn⟩ := rounds_queueQ ca cb aa ab dt hQ.setting fcm hfc [] l (msgOk_of hQ)
    (pairQ ca cb aa ab l) (idleQ0 ca cb aa ab l) N hN
  obtain ⟨x, y, hqa, hqb, hab, hba, hIA, hxib, hIB, hyib⟩ := hI
  refine ⟨_, _, _, _, startNetQ_eq ca cb aa ab l hrl hacc, canonRounds_toNet dt N _, ?_, ?_⟩
  · refine ⟨_, _, rfl, ?_, ?_, ?_, ?_, ?_, ?_, ?_, ?_, hd, hA, hB⟩
    · show #[_, _] = #[[], []]
      rw [hab, hba]
    · rw [hqb]; show y.rxQueue = _; simpa using hIB.queue
    · rw [hqb]; exact hIB.st
    · rw [hqb]; exact hyib
    · rw [hqa]; exact hIA.st
    · rw [hqa]; exact hIA.act
    · rw [hqa]; exact hIA.txq
    · rw [hqa]; exact hxib
  · show (Pair.rounds dt N (pairQ ca cb aa ab l)).1.now = _
    rw [hn]; simp [pairQ]

/-- `recv()` returns a queue in order, then None -/
theorem recvN_queue : ∀ (ps : List Bytes) (s : State), s.rxQueue = ps →
    recvN (ps.length + 1) s = ps.map some ++ [none] := by
  intro ps
  induction ps with
  | nil => intro s h; simp [recvN, State.recv, h]
  | cons p rest ih =>
    intro s h
    have h1 : s.recv = ({ s with rxQueue := rest }, some p) := by simp [State.recv, h]
    show s.recv.2 :: recvN (rest.length + 1) s.recv.1 = _
    rw [h1, ih _ rfl]
    rfl

/-- **Returned by recv() exactly once, in order**: once all transfers have completed, `k` calls of `recv()` on B
    return `p₁, …, p_k` and the next call returns None. -/
theorem recv_returns_all (l : List (Nat × Bytes)) (d : Net) (evA evB : List Ev) (h : CompletedAll l d evA evB) :
    ∃ a b, d.layers = #[a, b] ∧ recvN (l.length + 1) b = l.map (fun m => some m.2) ++ [none] := by
  obtain ⟨a, b, hl, -, hq, -⟩ := h
  refine ⟨a, b, hl, ?_⟩
  have := recvN_queue (l.map (·.2)) b hq
  simpa [List.map_map, Function.comp_def] using this

/-- **The number of rounds is exact**: before `queueRounds l` rounds have passed, B has not delivered all the
    payloads yet (its rx queue is shorter than `l`). -/
theorem not_before (ca cb : Cfg) (aa ab : Addr) (l : List (Nat × Bytes)) (dt : Nat)
    (hQ : QScenario ca cb aa ab l dt) (hrl : ca.rlEnable = false)
    (hacc : ∀ id p, (id, p) ∈ l → ((State.init ca aa).send { id := id, size := p.length, src := p }).2 = none)
    (i : Nat) (hi : i < queueRounds ca cb aa l) :
    ∃ d0 d evA evB a b, startNetQ ca cb aa ab l = some (d0, l.map fun _ => none) ∧
      canonRounds dt i d0 = some (d, evA, evB) ∧ d.layers = #[a, b] ∧ b.rxQueue.length < l.length := by
  obtain ⟨fcm, hfc⟩ := fcFacts_of hQ.setting
  have := rounds_queue_notyet ca cb aa ab dt hQ.setting fcm hfc [] l (msgOk_of hQ)
    (pairQ ca cb aa ab l) (idleQ0 ca cb aa ab l) i hi
  refine ⟨_, _, _, _, _, _, startNetQ_eq ca cb aa ab l hrl hacc, canonRounds_toNet dt i _, rfl, ?_⟩
  simpa using this

/-- the hypotheses in the vocabulary of C01live: `Lockstep.Scenario` for every queued payload -/
theorem qscenario_of_scenarios (ca cb : Cfg) (aa ab : Addr) (l : List (Nat × Bytes)) (dt : Nat) (hl : l ≠ [])
    (h : ∀ id p, (id, p) ∈ l → Scenario ca cb aa ab p dt ∧ 1 ≤ p.length) : QScenario ca cb aa ab l dt := by
  cases l with
  | nil => exact absurd rfl hl
  | cons m rest =>
    refine ⟨QSetting.of_scen ca cb aa ab dt (h m.1 m.2 (List.mem_cons_self ..)).1, ?_⟩
    intro id p hm
    obtain ⟨hs, h1⟩ := h id p hm
    exact ⟨h1, hs.h32, hs.hmax⟩

/-- `queue_completes` under the hypotheses of `C01live.transfer_completes` for every payload of a non-empty list -/
theorem queue_completes_scenarios (ca cb : Cfg) (aa ab : Addr) (l : List (Nat × Bytes)) (dt : Nat) (hl : l ≠ [])
    (hS : ∀ id p, (id, p) ∈ l → Scenario ca cb aa ab p dt ∧ 1 ≤ p.length) (hrl : ca.rlEnable = false)
    (hacc : ∀ id p, (id, p) ∈ l → ((State.init ca aa).send { id := id, size := p.length, src := p }).2 = none)
    (N : Nat) (hN : queueRounds ca cb aa l ≤ N) :
    ∃ d0 d evA evB, startNetQ ca cb aa ab l = some (d0, l.map fun _ => none) ∧
      canonRounds dt N d0 = some (d, evA, evB) ∧ CompletedAll l d evA evB ∧ d.now = N * dt :=
  queue_completes ca cb aa ab l dt (qscenario_of_scenarios ca cb aa ab l dt hl hS) hrl hacc N hN

/-! ## `send` calls interleaved with the rounds -/

/-- The statement for an arbitrary schedule (`QStep`: `A.send(id, p)` or one canonical round; `runSched`): every
    `send` returns None, and at the end of the schedule the messages sent split into `done` (delivered: B's rx queue
    holds exactly their payloads, their requests were completed with success, in order) and `pend`; after
    `N ≥ queueRounds pend` further rounds everything is delivered. -/
def C01queue_interleaved_statement : Prop :=
  ∀ (ca cb : Cfg) (aa ab : Addr) (sched : List QStep) (dt : Nat),
    QScenario ca cb aa ab (msgsOf sched) dt → ca.rlEnable = false →
    (∀ id p, (id, p) ∈ msgsOf sched →
      ((State.init ca aa).send { id := id, size := p.length, src := p }).2 = none) →
    ∃ d1 eA eB done pend, runSched dt sched (net0 ca cb aa ab) = some (d1, eA, eB, (msgsOf sched).map fun _ => none) ∧
      msgsOf sched = done ++ pend ∧ doneEvs eA = done.map (fun m => (m.1, true)) ∧
      (∀ t e, Ev.err t e ∉ eA) ∧ (∀ t e, Ev.err t e ∉ eB) ∧
      (∃ a b, d1.layers = #[a, b] ∧ b.rxQueue = done.map (·.2)) ∧
      ∀ N, queueRounds ca cb aa pend ≤ N →
        ∃ d eA' eB', canonRounds dt N d1 = some (d, eA', eB') ∧
          CompletedAll (msgsOf sched) d (eA ++ eA') (eB ++ eB') ∧ d.now = (roundsOf sched + N) * dt

/-- **C01 (liveness), sends interleaved with rounds.** Whatever the interleaving of `A.send` calls and canonical
    rounds, nothing is lost or reordered: what is not yet delivered at the end of the schedule is delivered within
    `queueRounds pend` further rounds. -/
theorem interleaved_completes : C01queue_interleaved_statement := by
  intro ca cb aa ab sched dt hQ hrl hacc
  obtain ⟨fcm, hfc⟩ := fcFacts_of hQ.setting
  have hok : MsgOkB cb ([] ++ msgsOf sched) := msgOk_of hQ
  obtain ⟨mid, pend, e1, hN, o1, o2, o3, o4, o5⟩ := sched_norm ca cb aa ab dt hQ.setting fcm hfc sched [] []
    (pairQ ca cb aa ab []) (norm0 ca cb aa ab dt fcm) hok hacc
  have hrx := QNorm.rxq ca cb aa ab dt hN
  simp only [List.nil_append] at e1 hN hrx
  refine ⟨(schedP dt sched (pairQ ca cb aa ab [])).1.toNet, _, _, mid, pend, ?_, e1, o3, o1, o2, ⟨_, _, rfl, hrx⟩, ?_⟩
  · rw [net0_eq ca cb aa ab hrl, runSched_toNet, o5]
  · intro N hNN
    have hokp : MsgOkB cb pend := by
      intro m hm; apply msgOk_of hQ m; rw [e1]; exact List.mem_append_right _ hm
    obtain ⟨hI, hA, hB, hd, hn⟩ := norm_finish ca cb aa ab dt hQ.setting fcm hfc mid pend hokp _ hN N hNN
    obtain ⟨x, y, hqa, hqb, hab, hba, hIA, hxib, hIB, hyib⟩ := hI
    refine ⟨_, _, _, canonRounds_toNet dt N _, ?_, ?_⟩
    · refine ⟨_, _, rfl, ?_, ?_, ?_, ?_, ?_, ?_, ?_, ?_, ?_, NoErr_append o1 hA, NoErr_append o2 hB⟩
      · show #[_, _] = #[[], []]
        rw [hab, hba]
      · rw [hqb, e1]; show y.rxQueue = _; simpa [payloads] using hIB.queue
      · rw [hqb]; exact hIB.st
      · rw [hqb]; exact hyib
      · rw [hqa]; exact hIA.st
      · rw [hqa]; exact hIA.act
      · rw [hqa]; exact hIA.txq
      · rw [hqa]; exact hxib
      · rw [doneEvs_append, o3, hd, e1]; simp [okIds]
    · show (Pair.rounds dt N _).1.now = _
      rw [hn, o4]; simp [pairQ, Nat.add_mul]

/-- the simple form: after any schedule, `N ≥ queueRounds (all messages sent)` further rounds are enough -/
theorem interleaved_completes_simple (ca cb : Cfg) (aa ab : Addr) (sched : List QStep) (dt : Nat)
    (hQ : QScenario ca cb aa ab (msgsOf sched) dt) (hrl : ca.rlEnable = false)
    (hacc : ∀ id p, (id, p) ∈ msgsOf sched →
      ((State.init ca aa).send { id := id, size := p.length, src := p }).2 = none)
    (N : Nat) (hN : queueRounds ca cb aa (msgsOf sched) ≤ N) :
    ∃ d1 eA eB d eA' eB', runSched dt sched (net0 ca cb aa ab) = some (d1, eA, eB, (msgsOf sched).map fun _ => none) ∧
      canonRounds dt N d1 = some (d, eA', eB') ∧ CompletedAll (msgsOf sched) d (eA ++ eA') (eB ++ eB') ∧
      d.now = (roundsOf sched + N) * dt := by
  obtain ⟨d1, eA, eB, done, pend, h1, h2, -, -, -, -, h3⟩ := interleaved_completes ca cb aa ab sched dt hQ hrl hacc
  have : queueRounds ca cb aa pend ≤ N := by
    have := queueRounds_suffix ca cb aa done pend
    rw [← h2] at this
    omega
  obtain ⟨d, eA', eB', r1, r2, r3⟩ := h3 N this
  exact ⟨d1, eA, eB, d, eA', eB', h1, r1, r2, r3⟩

/-! ## the objects of the statement, spelled out -/

/-- the number of rounds, spelled out: `1 + Σ (roundsFor p − 1)` -/
theorem queueRounds_eq (ca cb : Cfg) (aa : Addr) (l : List (Nat × Bytes)) :
    queueRounds ca cb aa l = if l = [] then 0 else 1 + (l.map fun m => roundsFor ca cb aa m.2 - 1).sum := by
  unfold queueRounds
  have : ∀ l : List (Nat × Bytes), extraRounds ca cb aa l = (l.map fun m => roundsFor ca cb aa m.2 - 1).sum := by
    intro l
    induction l with
    | nil => rfl
    | cons m rest ih => simp [extraRounds, ih]
  rw [this]

/-- never more than the sum of the single-message round counts, and strictly fewer as soon as two messages are queued:
    the messages overlap by one round -/
theorem queueRounds_le_sum (ca cb : Cfg) (aa : Addr) (hva : ca.valid = true) (l : List (Nat × Bytes)) :
    queueRounds ca cb aa l + (l.length - 1) = (l.map fun m => roundsFor ca cb aa m.2).sum := by
  have h1 : ∀ p : Bytes, 1 ≤ roundsFor ca cb aa p := by
    intro p
    by_cases hff : NeedsFF (TxCfg.of ca aa) p.length
    · have := roundsFor_ge_two ca cb aa p hva hff; omega
    · rw [roundsFor_sf ca cb aa p hff]; exact Nat.le_refl 1
  have : ∀ l : List (Nat × Bytes),
      extraRounds ca cb aa l + l.length = (l.map fun m => roundsFor ca cb aa m.2).sum := by
    intro l
    induction l with
    | nil => rfl
    | cons m rest ih =>
      have := h1 m.2
      simp only [extraRounds, List.length_cons, List.map_cons, List.sum_cons]
      omega
  unfold queueRounds
  cases l with
  | nil => rfl
  | cons m rest =>
    have := this (m :: rest)
    simp only [List.length_cons] at this ⊢
    rw [if_neg (by simp)]
    omega

/-- one message: the count of C01live -/
theorem single_message (ca cb : Cfg) (aa : Addr) (hva : ca.valid = true) (id : Nat) (p : Bytes) :
    queueRounds ca cb aa [(id, p)] = roundsFor ca cb aa p := by
  have := queueRounds_le_sum ca cb aa hva [(id, p)]
  simpa using this

/-- the start state is the sequence of `send` calls on the network of the driver -/
theorem startNetQ_def (ca cb : Cfg) (aa ab : Addr) (m : Nat × Bytes) (rest : List (Nat × Bytes)) :
    startNetQ ca cb aa ab (m :: rest) =
      ((net0 ca cb aa ab).onLayer 0 (sendOp m.1 m.2)).bind fun r =>
        (sendAll r.1 rest).bind fun r2 => some (r2.1, r.2.2.2 :: r2.2) := by
  unfold startNetQ
  show sendAll _ (m :: rest) = _
  conv => lhs; unfold sendAll
  cases h1 : (net0 ca cb aa ab).onLayer 0 (sendOp m.1 m.2) with
  | none => rfl
  | some r1 =>
    obtain ⟨d1, s1, e1, x1⟩ := r1
    simp only [Option.bind_some]
    cases h2 : sendAll d1 rest with
    | none => rfl
    | some r2 => rfl

/-- for one message the start state is that of C01live -/
theorem startNetQ_single (ca cb : Cfg) (aa ab : Addr) (id : Nat) (p : Bytes) :
    (startNetQ ca cb aa ab [(id, p)]).map (·.1) = (startNet ca cb aa ab id p).map (·.1) := by
  unfold startNetQ startNet
  show (sendAll _ [(id, p)]).map _ = _
  unfold sendAll
  cases h1 : (net0 ca cb aa ab).onLayer 0 (sendOp id p) with
  | none => rfl
  | some r1 =>
    obtain ⟨d1, s1, e1, x1⟩ := r1
    simp [sendAll]

/-! ## concrete instances (non-vacuity): classic CAN, normal 11-bit addressing; three queued messages:
      a Single Frame (3 bytes), a 20-byte message (3 frames), a 30-byte message (5 frames) -/

/-- the queued messages: ids 1, 2, 3 -/
def exL : List (Nat × Bytes) :=
  [(1, [1, 2, 3]), (2, (List.range 20).map UInt8.ofNat), (3, (List.range 30).map fun i => UInt8.ofNat (i + 100))]

section examples
open Isotp.C01live

theorem QScenario.of_forall {ca cb : Cfg} {aa ab : Addr} {l : List (Nat × Bytes)} {dt : Nat}
    (hS : QSetting ca cb aa ab dt)
    (h : ∀ m ∈ l, 1 ≤ m.2.length ∧ m.2.length < 4294967296 ∧ m.2.length ≤ cb.maxFrameSize) :
    QScenario ca cb aa ab l dt := ⟨hS, fun id p hm => h (id, p) hm⟩

theorem accepted_of_forall {ca : Cfg} {aa : Addr} {l : List (Nat × Bytes)}
    (h : ∀ m ∈ l, ((State.init ca aa).send { id := m.1, size := m.2.length, src := m.2 }).2 = none) :
    ∀ id p, (id, p) ∈ l → ((State.init ca aa).send { id := id, size := p.length, src := p }).2 = none :=
  fun id p hm => h (id, p) hm

example : (exL.map fun m => (segment (TxCfg.of exCa exAddrA) m.2).length) = [1, 3, 5] := by decide

/-- the hypotheses are satisfiable: blocksize 2, STmin 0, tick 1 ns -/
theorem exQScenario_2_0 : QScenario exCa (exCb 2 0) exAddrA exAddrB exL 1 :=
  QScenario.of_forall ⟨by decide, by decide, by decide, by decide, by decide, by decide, by decide, by decide, by decide,
    by decide, by decide⟩ (by decide)
/-- … blocksize 2, STmin 1 ms, tick 1 ms + 1 ns -/
theorem exQScenario_2_1 : QScenario exCa (exCb 2 1) exAddrA exAddrB exL 1000001 :=
  QScenario.of_forall ⟨by decide, by decide, by decide, by decide, by decide, by decide, by decide, by decide, by decide,
    by decide, by decide⟩ (by decide)
/-- … three Single Frame messages with the same id -/
theorem exQScenario_sf : QScenario exCa (exCb 8 0) exAddrA exAddrB [(7, [1]), (7, [2]), (7, [3])] 1 :=
  QScenario.of_forall ⟨by decide, by decide, by decide, by decide, by decide, by decide, by decide, by decide, by decide,
    by decide, by decide⟩ (by decide)

/-- single-message round counts: 1, 2, 3 (STmin 0) and 1, 4, 7 (STmin 1 ms); for the queue 1 + 0 + 1 + 2 = 4 and
    1 + 0 + 3 + 6 = 10 -/
example : (exL.map fun m => roundsFor exCa (exCb 2 0) exAddrA m.2) = [1, 2, 3] := by decide
example : (exL.map fun m => roundsFor exCa (exCb 2 1) exAddrA m.2) = [1, 4, 7] := by decide
example : queueRounds exCa (exCb 2 0) exAddrA exL = 4 := by decide
example : queueRounds exCa (exCb 2 1) exAddrA exL = 10 := by decide
example : queueRounds exCa (exCb 8 0) exAddrA [(7, [1]), (7, [2]), (7, [3])] = 1 := by decide

/-- instances of the theorems -/
example : ∃ d0 d evA evB, startNetQ exCa (exCb 2 0) exAddrA exAddrB exL = some (d0, [none, none, none]) ∧
    canonRounds 1 4 d0 = some (d, evA, evB) ∧ CompletedAll exL d evA evB ∧ d.now = 4 * 1 :=
  queue_completes _ _ _ _ exL _ exQScenario_2_0 rfl (accepted_of_forall (by decide)) 4 (by decide)
example : ∃ d0 d evA evB, startNetQ exCa (exCb 2 1) exAddrA exAddrB exL = some (d0, [none, none, none]) ∧
    canonRounds 1000001 10 d0 = some (d, evA, evB) ∧ CompletedAll exL d evA evB ∧ d.now = 10 * 1000001 :=
  queue_completes _ _ _ _ exL _ exQScenario_2_1 rfl (accepted_of_forall (by decide)) 10 (by decide)
example : ∃ d0 d evA evB, startNetQ exCa (exCb 8 0) exAddrA exAddrB [(7, [1]), (7, [2]), (7, [3])] =
      some (d0, [none, none, none]) ∧
    canonRounds 1 1 d0 = some (d, evA, evB) ∧ CompletedAll [(7, [1]), (7, [2]), (7, [3])] d evA evB ∧ d.now = 1 * 1 :=
  queue_completes _ _ _ _ _ _ exQScenario_sf rfl (accepted_of_forall (by decide)) 1 (by decide)
example : ∃ d0 d evA evB a b, startNetQ exCa (exCb 2 1) exAddrA exAddrB exL = some (d0, [none, none, none]) ∧
    canonRounds 1000001 9 d0 = some (d, evA, evB) ∧ d.layers = #[a, b] ∧ b.rxQueue.length < exL.length :=
  not_before _ _ _ _ exL _ exQScenario_2_1 rfl (accepted_of_forall (by decide)) 9 (by decide)

/-! ### the same scenarios, evaluated: what the network looks like after `N` rounds -/

/-- what is looked at after the sends and `N` rounds -/
structure SummaryQ where
  sendResults : List (Option PyExc)
  rxQueueB    : List Bytes
  txQueueA    : Nat                   -- requests still queued at A
  txStates    : List TxSt
  rxStates    : List RxSt
  now         : Nat
  dones       : List (Nat × Bool)     -- `complete(ok)` seen by A, in order
  noErrA      : Bool
  noErrB      : Bool
  recvs       : List (Option Bytes)   -- what 4 calls of `recv()` on B return
  deriving DecidableEq, Repr

def runQ (cb : Cfg) (l : List (Nat × Bytes)) (dt N : Nat) : Option SummaryQ :=
  (startNetQ exCa cb exAddrA exAddrB l).bind fun d0 =>
    (canonRounds dt N d0.1).map fun r =>
      { sendResults := d0.2,
        rxQueueB := (r.1.layers.getD 1 default).rxQueue, txQueueA := (r.1.layers.getD 0 default).txQueue.length,
        txStates := r.1.layers.toList.map (·.txState), rxStates := r.1.layers.toList.map (·.rxState), now := r.1.now,
        dones := doneEvs r.2.1, noErrA := noErr r.2.1, noErrB := noErr r.2.2,
        recvs := recvN 4 (r.1.layers.getD 1 default) }

def exP2 : Bytes := (List.range 20).map UInt8.ofNat
def exP3 : Bytes := (List.range 30).map fun i => UInt8.ofNat (i + 100)

-- blocksize 2, STmin 0. Round 1: the Single Frame AND the First Frame of message 2 go out in the same pass.
example : runQ (exCb 2 0) exL 1 0 = some ⟨[none, none, none], [], 3, [.idle, .idle], [.idle, .idle], 0, [], true, true,
    [none, none, none, none]⟩ := by decide +kernel
example : runQ (exCb 2 0) exL 1 1 = some ⟨[none, none, none], [[1, 2, 3]], 1, [.waitFc, .idle], [.idle, .waitCf], 1,
    [(1, true)], true, true, [some [1, 2, 3], none, none, none]⟩ := by decide +kernel
-- round 2: message 2 completes and the First Frame of message 3 goes out in the same pass
example : runQ (exCb 2 0) exL 1 2 = some ⟨[none, none, none], [[1, 2, 3], exP2], 0, [.waitFc, .idle], [.idle, .waitCf], 2,
    [(1, true), (2, true)], true, true, [some [1, 2, 3], some exP2, none, none]⟩ := by decide +kernel
example : runQ (exCb 2 0) exL 1 3 = some ⟨[none, none, none], [[1, 2, 3], exP2], 0, [.waitFc, .idle], [.idle, .waitCf], 3,
    [(1, true), (2, true)], true, true, [some [1, 2, 3], some exP2, none, none]⟩ := by decide +kernel
-- round 4 = queueRounds: everything delivered, in order
example : runQ (exCb 2 0) exL 1 4 = some ⟨[none, none, none], [[1, 2, 3], exP2, exP3], 0, [.idle, .idle], [.idle, .idle], 4,
    [(1, true), (2, true), (3, true)], true, true, [some [1, 2, 3], some exP2, some exP3, none]⟩ := by decide +kernel
-- blocksize 2, STmin 1 ms, tick 1 ms + 1 ns: 10 rounds; after 9 the last message is still on its way
example : runQ (exCb 2 1) exL 1000001 4 = some ⟨[none, none, none], [[1, 2, 3], exP2], 0, [.waitFc, .idle],
    [.idle, .waitCf], 4000004, [(1, true), (2, true)], true, true, [some [1, 2, 3], some exP2, none, none]⟩ := by
  decide +kernel
example : runQ (exCb 2 1) exL 1000001 9 = some ⟨[none, none, none], [[1, 2, 3], exP2], 0, [.transmitCf, .idle],
    [.idle, .waitCf], 9000009, [(1, true), (2, true)], true, true, [some [1, 2, 3], some exP2, none, none]⟩ := by
  decide +kernel
example : runQ (exCb 2 1) exL 1000001 10 = some ⟨[none, none, none], [[1, 2, 3], exP2, exP3], 0, [.idle, .idle],
    [.idle, .idle], 10000010, [(1, true), (2, true), (3, true)], true, true,
    [some [1, 2, 3], some exP2, some exP3, none]⟩ := by decide +kernel
-- a segmented message first, then two Single Frames, a segmented one and a Single Frame: 1 + 1 + 0 + 0 + 2 + 0 = 4
example : runQ (exCb 2 0) [(2, exP2), (1, [1, 2, 3]), (5, [9]), (3, exP3), (7, [4, 4])] 1 4 =
    some ⟨[none, none, none, none, none], [exP2, [1, 2, 3], [9], exP3, [4, 4]], 0, [.idle, .idle], [.idle, .idle], 4,
      [(2, true), (1, true), (5, true), (3, true), (7, true)], true, true,
      [some exP2, some [1, 2, 3], some [9], some exP3]⟩ := by decide +kernel
example : queueRounds exCa (exCb 2 0) exAddrA [(2, exP2), (1, [1, 2, 3]), (5, [9]), (3, exP3), (7, [4, 4])] = 4 := by
  decide
-- three Single Frames: one round
example : runQ (exCb 8 0) [(7, [1]), (7, [2]), (7, [3])] 1 1 = some ⟨[none, none, none], [[1], [2], [3]], 0,
    [.idle, .idle], [.idle, .idle], 1, [(7, true), (7, true), (7, true)], true, true,
    [some [1], some [2], some [3], none]⟩ := by decide +kernel

/-- `recv()` on B after the run: the three payloads in order, then None -/
example : ∃ d0 d evA evB a b, startNetQ exCa (exCb 2 0) exAddrA exAddrB exL = some (d0, [none, none, none]) ∧
    canonRounds 1 4 d0 = some (d, evA, evB) ∧ d.layers = #[a, b] ∧
    recvN 4 b = [some [1, 2, 3], some exP2, some exP3, none] := by
  obtain ⟨d0, d, evA, evB, h0, h1, hc, -⟩ :=
    queue_completes _ _ _ _ exL _ exQScenario_2_0 rfl (accepted_of_forall (by decide)) 4 (by decide)
  obtain ⟨a, b, hl, hr⟩ := recv_returns_all exL d evA evB hc
  exact ⟨d0, d, evA, evB, a, b, h0, h1, hl, hr⟩

/-- the same payload queued twice (ids 7 and 8) under the hypotheses of C01live -/
example : ∃ d0 d evA evB, startNetQ exCa (exCb 2 1) exAddrA exAddrB [(7, exP), (8, exP)] = some (d0, [none, none]) ∧
    canonRounds 1000001 7 d0 = some (d, evA, evB) ∧ CompletedAll [(7, exP), (8, exP)] d evA evB ∧
    d.now = 7 * 1000001 :=
  queue_completes_scenarios _ _ _ _ [(7, exP), (8, exP)] _ (by decide)
    (fun id p h => by
      have : p = exP := by simp at h; rcases h with ⟨-, h⟩ | ⟨-, h⟩ <;> exact h
      subst this; exact ⟨exScenario_2_1, by decide⟩)
    rfl (accepted_of_forall (by decide)) 7 (by decide)
example : Isotp.C01queue.QScenario exCa (exCb 2 1) exAddrA exAddrB [(7, exP), (8, exP)] 1000001 :=
  qscenario_of_scenarios _ _ _ _ _ _ (by decide)
    (fun id p h => by
      have : p = exP := by simp at h; rcases h with ⟨-, h⟩ | ⟨-, h⟩ <;> exact h
      subst this; exact ⟨exScenario_2_1, by decide⟩)
example : queueRounds exCa (exCb 2 1) exAddrA [(7, exP), (8, exP)] + 1 =
    roundsFor exCa (exCb 2 1) exAddrA exP + roundsFor exCa (exCb 2 1) exAddrA exP := by decide
example : queueRounds exCa (exCb 2 1) exAddrA [(7, exP)] = roundsFor exCa (exCb 2 1) exAddrA exP :=
  single_message _ _ _ (by decide) 7 exP

/-! ### sends interleaved with rounds -/

/-- send 1 (Single Frame); round; send 2 (3 frames); round; send 3 (5 frames), send 4 (Single Frame); round -/
def exSched : List QStep :=
  [.send 1 [1, 2, 3], .round, .send 2 exP2, .round, .send 3 exP3, .send 4 [7], .round]

example : msgsOf exSched = [(1, [1, 2, 3]), (2, exP2), (3, exP3), (4, [7])] := rfl
example : roundsOf exSched = 3 := rfl

theorem exQScenario_sched : QScenario exCa (exCb 2 0) exAddrA exAddrB (msgsOf exSched) 1 :=
  QScenario.of_forall ⟨by decide, by decide, by decide, by decide, by decide, by decide, by decide, by decide, by decide,
    by decide, by decide⟩ (by decide)

example : queueRounds exCa (exCb 2 0) exAddrA (msgsOf exSched) = 4 := by decide

example : ∃ d1 eA eB d eA' eB',
    runSched 1 exSched (net0 exCa (exCb 2 0) exAddrA exAddrB) = some (d1, eA, eB, [none, none, none, none]) ∧
    canonRounds 1 4 d1 = some (d, eA', eB') ∧ CompletedAll (msgsOf exSched) d (eA ++ eA') (eB ++ eB') ∧
    d.now = (3 + 4) * 1 :=
  interleaved_completes_simple _ _ _ _ exSched _ exQScenario_sched rfl (accepted_of_forall (by decide)) 4 (by decide)

def runSchedQ (cb : Cfg) (sched : List QStep) (dt N : Nat) : Option SummaryQ :=
  (runSched dt sched (net0 exCa cb exAddrA exAddrB)).bind fun r1 =>
    (canonRounds dt N r1.1).map fun r =>
      { sendResults := r1.2.2.2,
        rxQueueB := (r.1.layers.getD 1 default).rxQueue, txQueueA := (r.1.layers.getD 0 default).txQueue.length,
        txStates := r.1.layers.toList.map (·.txState), rxStates := r.1.layers.toList.map (·.rxState), now := r.1.now,
        dones := doneEvs (r1.2.1 ++ r.2.1), noErrA := noErr (r1.2.1 ++ r.2.1), noErrB := noErr (r1.2.2.1 ++ r.2.2),
        recvs := recvN 4 (r.1.layers.getD 1 default) }

-- at the end of the schedule: messages 1 and 2 delivered, message 3 in transfer, message 4 queued behind it
example : runSchedQ (exCb 2 0) exSched 1 0 = some ⟨[none, none, none, none], [[1, 2, 3], exP2], 1, [.waitFc, .idle],
    [.idle, .waitCf], 3, [(1, true), (2, true)], true, true, [some [1, 2, 3], some exP2, none, none]⟩ := by
  decide +kernel
-- two more rounds (2 ≤ queueRounds of what is pending): everything delivered, in the order of the sends
example : runSchedQ (exCb 2 0) exSched 1 2 = some ⟨[none, none, none, none], [[1, 2, 3], exP2, exP3, [7]], 0,
    [.idle, .idle], [.idle, .idle], 5, [(1, true), (2, true), (3, true), (4, true)], true, true,
    [some [1, 2, 3], some exP2, some exP3, some [7]]⟩ := by decide +kernel

end examples

end Isotp.C01queue

#print axioms Isotp.C01queue.queue_completes
#print axioms Isotp.C01queue.recv_returns_all
#print axioms Isotp.C01queue.not_before
#print axioms Isotp.C01queue.interleaved_completes
#print axioms Isotp.C01queue.interleaved_completes_simple
#print axioms Isotp.C01queue.qscenario_of_scenarios
#print axioms Isotp.C01queue.queue_completes_scenarios
#print axioms Isotp.C01queue.queueRounds_eq
#print axioms Isotp.C01queue.queueRounds_le_sum
#print axioms Isotp.C01queue.single_message
#print axioms Isotp.C01queue.startNetQ_def
#print axioms Isotp.C01queue.startNetQ_single
