import Isotp.PyAgree.EvalLemmas
import Isotp.PyAgree.MiscLemmas
import Isotp.Layer
/-!
  Source agreement for `TransportLayerLogic._process_tx` (isotp/protocol.py), FOR ALL STATES, region by region.
-/
namespace Isotp.PyAgree.Tx
open Isotp Isotp.Py Isotp.PyAgree

/-! ## 0. Infrastructure -/

theorem set_get (env : Env) (k : String) (v : PV) (k' : String) :
    (env.set k v) k' = if k' = k then some v else env k' := rfl

@[simp] theorem except_pure {ε α : Type} (a : α) : (pure a : Except ε α) = .ok a := rfl

/-- the names the interpreter treats as builtins; every other call goes to `Meths` -/
def builtinNames : List String :=
  ["len", "int", "bool", "min", "max", "bytes", "isinstance_int", "isinstance_bool", "isinstance_float", "isinstance_int_float"]

theorem evalBuiltin_none (fn : String) (args : List PV) (h : fn ∉ builtinNames) : evalBuiltin fn args = none := by
  simp only [builtinNames, List.mem_cons, List.not_mem_nil, or_false, not_or] at h
  unfold evalBuiltin; split <;> simp_all

/-! ### values -/

def txStName : TxSt → String
  | .idle => "IDLE" | .waitFc => "WAIT_FC" | .transmitCf => "TRANSMIT_CF"
  | .sfStandby => "TRANSMIT_SF_STANDBY" | .ffStandby => "TRANSMIT_FF_STANDBY"

def txStPV (t : TxSt) : PV := .sc (.enum "TxState" (txStName t))

theorem pvEq_txSt (a b : TxSt) : pvEq (txStPV a) (txStPV b) = decide (a = b) := by
  cases a <;> cases b <;> rfl

/-- a `CanMessage` object as a value: an injective encoding by the list of its fields -/
def msgScs (m : CanMsg) : List Sc :=
  [.py (.int m.id), .py (.bool m.ext), .py (.int m.dlc), .py (.bool m.fd), .py (.bool m.brs)] ++
    m.data.map (fun b => Sc.py (.int b.toNat))
def msgPV (m : CanMsg) : PV := .list (msgScs m)
def optMsgPV : Option CanMsg → PV
  | none => pnone
  | some m => msgPV m

@[simp] theorem msgPV_bne (m : CanMsg) : (msgPV m != pnone) = true := by simp [msgPV, pnone]
@[simp] theorem msgPV_beq (m : CanMsg) : (msgPV m == pnone) = false := by simp [msgPV, pnone]

/-- a decoded Flow Control PDU (the mailbox `last_flow_control_frame`) as a value -/
def fcPV (f : FcFrame) : PV := .list [.py (.int f.status), .py (.int f.bs), .py (.int f.stmin)]
def optFcPV : Option FcFrame → PV
  | none => pnone
  | some f => fcPV f
@[simp] theorem fcPV_bne (f : FcFrame) : (fcPV f != pnone) = true := by simp [fcPV, pnone]

/-- `None` or an opaque object -/
def objPV (name : String) (present : Bool) : PV := if present then .meth name else pnone

/-- a float number of seconds, represented by the exact rational `ns / 10^9` where `ns` is the integer number of nanoseconds the
    harness hands to the model (DESIGN 3.1: the float conversion itself is outside the subset) -/
def nsPV : Option Nat → PV
  | none => pnone
  | some n => .sc (.py (.float n 1000000000))

/-- the rate limiter's state as a value (injective) -/
def rlPV (l : Limiter) : PV :=
  .list (.py (.bool l.enabled) :: .py (.int l.bitTotal) :: l.slots.flatMap (fun p => [Sc.py (.int p.1), Sc.py (.int p.2)]))

def errCode : Err → Nat
  | .BadGenerator => 0 | .FlowControlTimeout => 1 | .ConsecutiveFrameTimeout => 2 | .InvalidCanData => 3
  | .UnexpectedFlowControl => 4 | .UnexpectedConsecutiveFrame => 5 | .InterruptedWithSingleFrame => 6
  | .InterruptedWithFirstFrame => 7 | .WrongSequenceNumber => 8 | .UnsupportedWaitFrame => 9
  | .MaximumWaitFrameReached => 10 | .FrameTooLong => 11 | .ChangingInvalidRXDL => 12 | .MissingEscapeSequence => 13
  | .InvalidCanFdFirstFrameRXDL => 14 | .Overflow => 15

/-- one observable event, as scalars: `error_handler(err)` at time `t`, `SendRequest.complete(ok)`, a pull of `n` values from the
    generator of request `id` (the other events are never produced by `_process_tx`) -/
def encEv : Ev → List Sc
  | .err t e => [.py (.int 0), .py (.int t), .py (.int (errCode e))]
  | .done id ok => [.py (.int 1), .py (.int id), .py (.bool ok)]
  | .pull id n => [.py (.int 2), .py (.int id), .py (.int n)]
  | _ => []

/-- the history, oldest first (the model's log is newest first) -/
def histOf : List Ev → List Sc
  | [] => []
  | e :: l => histOf l ++ encEv e

/-- `ProcessTxReport(msg=m, immediate_rx_required=b)` as a value: `b` followed by the fields of the message, if any -/
def reportPV (out : Option CanMsg) (imm : Bool) : PV :=
  .list (.py (.bool imm) :: (match out with | none => [] | some m => msgScs m))

def reportP (m : PV) (b : Bool) : Except PErr PV :=
  match m with
  | .sc (.py .none) => .ok (.list [.py (.bool b)])
  | .list xs => .ok (.list (.py (.bool b) :: xs))
  | _ => .error (.unsupported "ProcessTxReport of a non-message")

theorem reportP_opt (out : Option CanMsg) (b : Bool) : reportP (optMsgPV out) b = .ok (reportPV out b) := by
  cases out <;> rfl

/-! ### the primitives -/

/-- `Timer.is_timed_out()` on a timer whose two attributes are given (`timer_is_timed_out_linked` in MiscTimer.lean ties this
    to the source of `Timer`) -/
def timedOutP (now : Nat) (st to : Option PV) : Except PErr PV :=
  match st, to with
  | some (.sc (.py .none)), some (.sc (.py (.int _))) => .ok (pbool false)
  | some (.sc (.py (.int a))), some (.sc (.py (.int t))) => .ok (pbool (decide (t < (now : Int) - a) || t == 0))
  | _, _ => .error (.exc .AttributeError)

theorem timedOutP_timer (t : Timer) (now : Nat) :
    timedOutP now (some (optPV t.start)) (some (pint t.timeout)) = .ok (pbool (t.timedOut now)) := by
  cases hs : t.start with
  | none => simp [timedOutP, optPV, Timer.timedOut, hs]
  | some a =>
    have e : ((t.timeout : Int) < (now : Int) - (a : Int)) ↔ t.timeout < now - a := by omega
    simp [timedOutP, optPV, Timer.timedOut, hs, e, cast_beq_zero]

def genRemaining (env : Env) : Except PErr PV :=
  match env "self.active_send_request.generator._size", env "self.active_send_request.generator._consumed" with
  | some (.sc (.py (.int a))), some (.sc (.py (.int c))) => .ok (pint (a - c))
  | _, _ => .error (.exc .AttributeError)

def genDepleted (env : Env) : Except PErr PV :=
  match env "self.active_send_request.generator._size", env "self.active_send_request.generator._consumed",
    env "self.active_send_request.generator._depleted" with
  | some (.sc (.py (.int a))), some (.sc (.py (.int c))), some (.sc (.py (.bool d))) => .ok (pbool (decide (a - c ≤ 0) || d))
  | _, _, _ => .error (.exc .AttributeError)

def genTotal (env : Env) : Except PErr PV :=
  match env "self.active_send_request.generator._size" with
  | some (.sc (.py (.int a))) => .ok (pint a)
  | _ => .error (.exc .AttributeError)

def txFn (c : Cfg) (a : Addr) (now : Nat) (rl : Limiter) (name : String) (args : List PV) (env : Env) : Except PErr PV :=
  match name, args with
  | "self.rate_limiter.allowed_bytes", [] => .ok (pint (rl.allowedBytes c.rlBitMax))
  | "self.timer_rx_fc.is_timed_out", [] => timedOutP now (env "self.timer_rx_fc.start_time") (env "self.timer_rx_fc.timeout")
  | "self.timer_tx_stmin.is_timed_out", [] =>
    timedOutP now (env "self.timer_tx_stmin.start_time") (env "self.timer_tx_stmin.timeout")
  | "self.active_send_request.generator.remaining_size", [] => genRemaining env
  | "self.active_send_request.generator.depleted", [] => genDepleted env
  | "self.active_send_request.generator.total_length", [] => genTotal env
  | "self.address.get_tx_payload_prefix", [] => .ok (.bytes a.tx.txPrefix)
  | "self.address.get_tx_arbitration_id", [] => .ok (pint (a.tx.txId .physical))
  | "self.address.get_tx_arbitration_id", [v] =>
    if v = tatPV .physical then .ok (pint (a.tx.txId .physical))
    else if v = tatPV .functional then .ok (pint (a.tx.txId .functional))
    else .error (.unsupported "address type")
  | "bytearray", [.list xs] => (bytesOfScs xs).map .bytes
  | "self._make_tx_msg", [.sc (.py (.int i)), .bytes d] =>
    (match makeTxMsg c a i.toNat d with
     | some m => .ok (msgPV m)
     | none => .error (.exc .ValueError))
  | "self._make_flow_control#flow_status", [.sc (.py (.int st))] =>
    (match makeFlowControl c a st.toNat with
     | some m => .ok (msgPV m)
     | none => .error (.exc .ValueError))
  | "isotp.errors.OverflowError", [_] => .ok (pint (errCode .Overflow))
  | "isotp.errors.UnexpectedFlowControlError", [_] => .ok (pint (errCode .UnexpectedFlowControl))
  | "isotp.errors.UnsupportedWaitFrameError", [_] => .ok (pint (errCode .UnsupportedWaitFrame))
  | "isotp.errors.MaximumWaitFrameReachedError", [_] => .ok (pint (errCode .MaximumWaitFrameReached))
  | "isotp.errors.FlowControlTimeoutError", [_] => .ok (pint (errCode .FlowControlTimeout))
  | "isotp.errors.BadGeneratorError", [_] => .ok (pint (errCode .BadGenerator))
  | "__format__", _ => .ok (.str "")
  | "self.ProcessTxReport#msg#immediate_rx_required", [m, .sc (.py (.bool b))] => reportP m b
  | n, _ => .error (.unsupported ("call " ++ n))

/-- what `_stop_sending` writes besides completing the request -/
def stopCore (env : Env) : Env :=
  (((((((((env.set "self.tx_state" (txStPV .idle)).set "self.tx_frame_length" (pint 0)).set
    "self.timer_rx_fc.start_time" pnone).set "self.timer_tx_stmin.start_time" pnone).set "self.remote_blocksize" pnone).set
    "self.tx_block_counter" (pint 0)).set "self.tx_seqnum" (pint 0)).set "self.wft_counter" (pint 0)).set
    "self.tx_standby_msg" pnone)

/-- `_stop_sending(success)` (HELPER: its own source is tied to `State.stopSending` in LayerTxHelpers.lean) -/
def stopP (ok : Bool) (env : Env) : Except PErr Env :=
  match env "self.active_send_request" with
  | some (.sc (.py .none)) => .ok (stopCore env)
  | some (.meth _) =>
    (match env "#req.id", env "#log" with
     | some (.sc (.py (.int id))), some (.list h) =>
       .ok (stopCore ((env.set "#log" (.list (h ++ [.py (.int 1), .py (.int id), .py (.bool ok)]))).set
         "self.active_send_request" pnone))
     | _, _ => .error (.exc .AttributeError))
  | _ => .error (.exc .AttributeError)

/-- `_trigger_error(err)`: the error handler sees `err` (at the time of the call) -/
def trigP (now : Nat) (code : Int) (env : Env) : Except PErr Env :=
  match env "#log" with
  | some (.list h) => .ok (env.set "#log" (.list (h ++ [.py (.int 0), .py (.int now), .py (.int code)])))
  | _ => .error (.exc .AttributeError)

/-- the request object and its generator, read back from the environment -/
def reqOf (env : Env) : Option Req :=
  match env "#req.id", env "self.active_send_request.generator._size", env "self.active_send_request.generator._consumed",
    env "self.active_send_request.generator._depleted", env "#gen.src", env "self.active_send_request.target_address_type",
    env "#req.instr" with
  | some (.sc (.py (.int id))), some (.sc (.py (.int sz))), some (.sc (.py (.int c))), some (.sc (.py (.bool d))),
      some (.bytes src), some tat, some (.sc (.py (.bool instr))) =>
    some { id := id.toNat, size := sz.toNat, src := src, consumed := c.toNat, depletedFlag := d,
           tat := if tat = tatPV .functional then .functional else .physical, instr := instr }
  | _, _, _, _, _, _, _ => none

/-- `payload = self.active_send_request.generator.consume(n, enforce_exact=exact)`: the model's `Req.consume` on the generator the
    environment holds; the pull is recorded in the history when the generator is instrumented (`State.consumeActive`).
    `BadGeneratorError` is not one of the interpreter's exceptions: it is the interpreter error `unsupported "raise BadGeneratorError"`.
    (`itertools.islice` with a negative count is a `ValueError`.) -/
def consumeP (n : Int) (exact : Bool) (env : Env) : Except PErr Env :=
  if n < 0 then .error (.exc .ValueError) else
  match reqOf env, env "#log" with
  | some r, some (.list h) =>
    (match (r.consume n.toNat exact).2 with
     | none => .error (.unsupported "raise BadGeneratorError")
     | some data =>
       let r' := (r.consume n.toNat exact).1
       let pulled := r'.consumed - r.consumed
       .ok (((((env.set "#log" (.list (h ++ (if r.instr && pulled > 0 then [.py (.int 2), .py (.int r.id), .py (.int pulled)] else [])))).set
         "self.active_send_request.generator._consumed" (pint r'.consumed)).set
         "self.active_send_request.generator._depleted" (pbool r'.depletedFlag)).set "#gen.src" (.bytes r'.src)).set
         "payload" (.bytes data)))
  | _, _ => .error (.exc .AttributeError)

def txProc (c : Cfg) (now : Nat) (rl : Limiter) (name : String) (args : List PV) (env : Env) : Except PErr Env :=
  match name, args with
  | "self.timer_rx_fc.stop", [] => .ok (env.set "self.timer_rx_fc.start_time" pnone)
  | "self.timer_tx_stmin.start", [] => .ok (env.set "self.timer_tx_stmin.start_time" (pint now))
  | "self.timer_tx_stmin.set_timeout", [.sc (.py (.float n d))] =>
    if 0 ≤ n ∧ d = 1000000000 then .ok (env.set "self.timer_tx_stmin.timeout" (pint n))
    else .error (.unsupported "set_timeout of a float that is not a nanosecond count")
  | "self._stop_sending#success", [.sc (.py (.bool ok))] => stopP ok env
  | "payload:=self.active_send_request.generator.consume#enforce_exact", [.sc (.py (.int n)), .sc (.py (.bool exact))] =>
    consumeP n exact env
  | "self._start_rx_fc_timer", [] =>
    .ok ((env.set "self.timer_rx_fc.start_time" (pint now)).set "self.timer_rx_fc.timeout" (pint c.tFc))
  | "self._start_rx_cf_timer", [] =>
    .ok ((env.set "self.timer_rx_cf.start_time" (pint now)).set "self.timer_rx_cf.timeout" (pint c.tCf))
  | "self._trigger_error", [.sc (.py (.int code))] => trigP now code env
  | "self.rate_limiter.inform_byte_sent", [.sc (.py (.int n))] => .ok (env.set "#rl" (rlPV (rl.inform now n.toNat)))
  | n, _ => .error (.unsupported ("call " ++ n))

def txMeths (c : Cfg) (a : Addr) (now : Nat) (rl : Limiter) : Meths where
  fn := txFn c a now rl
  proc := txProc c now rl

/-- the primitives in state `s` (only `cfg`, `addr`, `now`, `rl` are used: `_process_tx` changes none of them before its tail) -/
abbrev txM (s : State) : Meths := txMeths s.cfg s.addr s.now s.rl

/-! ### the object, as the interpreter sees it -/

def reqAttrs (r : Req) : List (String × PV) :=
  [("self.active_send_request.target_address_type", tatPV r.tat),
   ("self.active_send_request.generator._size", pint r.size),
   ("self.active_send_request.generator._consumed", pint r.consumed),
   ("self.active_send_request.generator._depleted", pbool r.depletedFlag),
   ("#gen.src", .bytes r.src),
   ("#req.id", pint r.id),
   ("#req.instr", pbool r.instr)]

def txAttrs (s : State) : List (String × PV) :=
  [("self.tx_state", txStPV s.txState),
   ("self.tx_frame_length", pint s.txFrameLen),
   ("self.tx_seqnum", pint s.txSeq),
   ("self.tx_block_counter", pint s.txBlockCnt),
   ("self.remote_blocksize", optPV s.remoteBs),
   ("self.wft_counter", pint s.wftCnt),
   ("self.pending_flow_control_tx", pbool s.pendingFc),
   ("self.params.listen_mode", pbool s.cfg.listen),
   ("self.params.wftmax", pint s.cfg.wftmax),
   ("self.params.override_receiver_stmin", nsPV s.cfg.overrideStminNs),
   ("self.params.tx_data_length", pint s.cfg.txDl),
   ("self.params.tx_data_min_length", optPV s.cfg.txMinLen),
   ("self.tx_standby_msg", optMsgPV s.standby),
   ("self.active_send_request", objPV "req" s.active.isSome),
   ("self.last_flow_control_frame", optFcPV s.lastFc),
   ("self.timer_rx_fc.start_time", optPV s.timerFc.start),
   ("self.timer_rx_fc.timeout", pint s.timerFc.timeout),
   ("self.timer_tx_stmin.start_time", optPV s.timerStmin.start),
   ("self.timer_tx_stmin.timeout", pint s.timerStmin.timeout),
   ("self.timer_rx_cf.start_time", optPV s.timerCf.start),
   ("self.timer_rx_cf.timeout", pint s.timerCf.timeout),
   ("#log", .list (histOf s.log)),
   ("#rl", rlPV s.rl)]
  ++ (match s.pendingFcStatus with | some st => [("self.pending_flowcontrol_status", pint st)] | none => [])
  ++ (match s.active with | some r => reqAttrs r | none => [])

/-- every key the representation of a state talks about (the class constants excepted: nobody writes them) -/
def allKeys : List String :=
  ["self.tx_state", "self.tx_frame_length", "self.tx_seqnum", "self.tx_block_counter", "self.remote_blocksize",
   "self.wft_counter", "self.pending_flow_control_tx", "self.params.listen_mode", "self.params.wftmax",
   "self.params.override_receiver_stmin", "self.params.tx_data_length", "self.params.tx_data_min_length",
   "self.tx_standby_msg", "self.active_send_request", "self.last_flow_control_frame",
   "self.timer_rx_fc.start_time", "self.timer_rx_fc.timeout", "self.timer_tx_stmin.start_time", "self.timer_tx_stmin.timeout",
   "self.timer_rx_cf.start_time", "self.timer_rx_cf.timeout", "#log", "#rl", "self.pending_flowcontrol_status",
   "self.active_send_request.target_address_type", "self.active_send_request.generator._size",
   "self.active_send_request.generator._consumed", "self.active_send_request.generator._depleted", "#gen.src", "#req.id",
   "#req.instr",
   "PDU.FlowStatus.ContinueToSend", "PDU.FlowStatus.Wait", "PDU.FlowStatus.Overflow", "self.TxState.IDLE",
   "self.TxState.WAIT_FC", "self.TxState.TRANSMIT_CF", "self.TxState.TRANSMIT_SF_STANDBY", "self.TxState.TRANSMIT_FF_STANDBY"]

/-- the active request and its generator -/
structure ReqRep (env : Env) (r : Req) : Prop where
  tat : env "self.active_send_request.target_address_type" = some (tatPV r.tat)
  size : env "self.active_send_request.generator._size" = some (pint r.size)
  consumed : env "self.active_send_request.generator._consumed" = some (pint r.consumed)
  depl : env "self.active_send_request.generator._depleted" = some (pbool r.depletedFlag)
  src : env "#gen.src" = some (.bytes r.src)
  id : env "#req.id" = some (pint r.id)
  instr : env "#req.instr" = some (pbool r.instr)

/-- the class constants the regions read (values as dumped in `Src.consts`) -/
structure ConstRep (env : Env) : Prop where
  cts : env "PDU.FlowStatus.ContinueToSend" = some (pint 0)
  wait : env "PDU.FlowStatus.Wait" = some (pint 1)
  ovf : env "PDU.FlowStatus.Overflow" = some (pint 2)
  idle : env "self.TxState.IDLE" = some (txStPV .idle)
  waitFc : env "self.TxState.WAIT_FC" = some (txStPV .waitFc)
  transmitCf : env "self.TxState.TRANSMIT_CF" = some (txStPV .transmitCf)
  sfStandby : env "self.TxState.TRANSMIT_SF_STANDBY" = some (txStPV .sfStandby)
  ffStandby : env "self.TxState.TRANSMIT_FF_STANDBY" = some (txStPV .ffStandby)

theorem constRep_constEnv : ConstRep constEnv := ⟨rfl, rfl, rfl, rfl, rfl, rfl, rfl, rfl⟩

/-- `env` represents the transmit side of `s` -/
structure Rep (env : Env) (s : State) : Prop where
  txState : env "self.tx_state" = some (txStPV s.txState)
  txFrameLen : env "self.tx_frame_length" = some (pint s.txFrameLen)
  txSeq : env "self.tx_seqnum" = some (pint s.txSeq)
  txBlockCnt : env "self.tx_block_counter" = some (pint s.txBlockCnt)
  remoteBs : env "self.remote_blocksize" = some (optPV s.remoteBs)
  wftCnt : env "self.wft_counter" = some (pint s.wftCnt)
  pendingFc : env "self.pending_flow_control_tx" = some (pbool s.pendingFc)
  listen : env "self.params.listen_mode" = some (pbool s.cfg.listen)
  wftmax : env "self.params.wftmax" = some (pint s.cfg.wftmax)
  ovr : env "self.params.override_receiver_stmin" = some (nsPV s.cfg.overrideStminNs)
  txDl : env "self.params.tx_data_length" = some (pint s.cfg.txDl)
  txMinLen : env "self.params.tx_data_min_length" = some (optPV s.cfg.txMinLen)
  standby : env "self.tx_standby_msg" = some (optMsgPV s.standby)
  active : env "self.active_send_request" = some (objPV "req" s.active.isSome)
  lastFc : env "self.last_flow_control_frame" = some (optFcPV s.lastFc)
  fcStart : env "self.timer_rx_fc.start_time" = some (optPV s.timerFc.start)
  fcTo : env "self.timer_rx_fc.timeout" = some (pint s.timerFc.timeout)
  stStart : env "self.timer_tx_stmin.start_time" = some (optPV s.timerStmin.start)
  stTo : env "self.timer_tx_stmin.timeout" = some (pint s.timerStmin.timeout)
  cfStart : env "self.timer_rx_cf.start_time" = some (optPV s.timerCf.start)
  cfTo : env "self.timer_rx_cf.timeout" = some (pint s.timerCf.timeout)
  log : env "#log" = some (.list (histOf s.log))
  rl : env "#rl" = some (rlPV s.rl)
  /-- the attribute does not exist before the first request (`AttributeError` when read) -/
  pfs : env "self.pending_flowcontrol_status" = s.pendingFcStatus.map (fun (st : Nat) => pint (st : Int))
  req : ∀ r, s.active = some r → ReqRep env r
  consts : ConstRep env

theorem ReqRep.attrs {env : Env} {r : Req} (h : ReqRep env r) : ∀ kv ∈ reqAttrs r, env kv.1 = some kv.2 := by
  cases h; simp [reqAttrs, *]

/-- the form asked for: every attribute of the model state has the model's value -/
theorem Rep.attrs {env : Env} {s : State} (h : Rep env s) : ∀ kv ∈ txAttrs s, env kv.1 = some kv.2 := by
  intro kv hkv
  simp only [txAttrs, List.mem_append] at hkv
  rcases hkv with (hkv | hkv) | hkv
  · cases h; simp at hkv; rcases hkv with h | h | h | h | h | h | h | h | h | h | h | h | h | h | h | h | h | h | h | h | h | h | h <;>
      (subst h; assumption)
  · cases hp : s.pendingFcStatus with
    | none => simp [hp] at hkv
    | some st =>
      have := h.pfs
      simp [hp] at hkv this; subst hkv; exact this
  · cases ha : s.active with
    | none => simp [ha] at hkv
    | some r => simp only [ha] at hkv; exact (h.req r ha).attrs kv hkv

/-- the names outside `allKeys` (the locals, the attributes of object-valued locals), those of `xs` excepted, are left alone -/
def Frame (xs : List String) (env env' : Env) : Prop := ∀ k, k ∉ allKeys → k ∉ xs → env' k = env k

theorem Frame.refl (xs : List String) (env : Env) : Frame xs env env := fun _ _ _ => rfl
theorem Frame.trans {xs : List String} {e1 e2 e3 : Env} (h1 : Frame xs e1 e2) (h2 : Frame xs e2 e3) : Frame xs e1 e3 :=
  fun k hk hx => (h2 k hk hx).trans (h1 k hk hx)
theorem Frame.mono {xs ys : List String} {e1 e2 : Env} (h : Frame xs e1 e2) (hs : ∀ k ∈ xs, k ∈ ys) : Frame ys e1 e2 :=
  fun k hk hx => h k hk (fun hm => hx (hs k hm))
theorem Frame.set {xs : List String} {e1 e2 : Env} (h : Frame xs e1 e2) {k : String} (hk : k ∈ allKeys ∨ k ∈ xs) (v : PV) :
    Frame xs e1 (e2.set k v) := by
  intro k' hk' hx'
  have : k' ≠ k := by
    rintro rfl
    rcases hk with hk | hk
    · exact hk' hk
    · exact hx' hk
  simp [set_get, this, h k' hk' hx']

theorem ReqRep.set {env : Env} {r : Req} (h : ReqRep env r) {k : String}
    (hk : k ∉ ["self.active_send_request.target_address_type", "self.active_send_request.generator._size",
      "self.active_send_request.generator._consumed", "self.active_send_request.generator._depleted", "#gen.src", "#req.id",
      "#req.instr"]) (v : PV) : ReqRep (env.set k v) r := by
  simp only [List.mem_cons, List.not_mem_nil, or_false, not_or] at hk
  obtain ⟨h1, h2, h3, h4, h5, h6, h7⟩ := hk
  cases h
  constructor <;> simp [set_get, *, Ne.symm]

theorem ConstRep.set {env : Env} (h : ConstRep env) {k : String}
    (hk : k ∉ ["PDU.FlowStatus.ContinueToSend", "PDU.FlowStatus.Wait", "PDU.FlowStatus.Overflow", "self.TxState.IDLE",
      "self.TxState.WAIT_FC", "self.TxState.TRANSMIT_CF", "self.TxState.TRANSMIT_SF_STANDBY", "self.TxState.TRANSMIT_FF_STANDBY"])
    (v : PV) : ConstRep (env.set k v) := by
  simp only [List.mem_cons, List.not_mem_nil, or_false, not_or] at hk
  obtain ⟨h1, h2, h3, h4, h5, h6, h7, h8⟩ := hk
  cases h
  constructor <;> simp [set_get, *, Ne.symm]

/-! ### updating the representation -/

/-- `Rep` of an environment obtained by `Env.set`s on keys other than the request's, for a state with the same `active` -/
macro "rep_upd" hR:ident : tactic => `(tactic| (
  have hq := Rep.req $hR
  have hc := Rep.consts $hR
  cases $hR:ident
  constructor
  case req =>
    intro r hr
    first
    | exact (hq r hr)
    | exact (hq r hr).set (by decide) _
    | exact ((hq r hr).set (by decide) _).set (by decide) _
    | exact (((hq r hr).set (by decide) _).set (by decide) _).set (by decide) _
  case consts =>
    first
    | exact hc
    | exact hc.set (by decide) _
    | exact (hc.set (by decide) _).set (by decide) _
    | exact ((hc.set (by decide) _).set (by decide) _).set (by decide) _
  all_goals simp [set_get, *]))

section upd
variable {env : Env} {s : State}

theorem Rep.setOther (hR : Rep env s) {k : String} (hk : k ∉ allKeys) (v : PV) : Rep (env.set k v) s := by
  simp only [allKeys, List.mem_cons, List.not_mem_nil, or_false, not_or] at hk
  have hq := hR.req
  have hc := hR.consts
  cases hR
  constructor
  case req => exact fun r hr => (hq r hr).set (by simp [hk]) _
  case consts => exact hc.set (by simp [hk]) _
  all_goals simp [set_get, *, Ne.symm]

theorem Rep.setTxState (hR : Rep env s) (t : TxSt) :
    Rep (env.set "self.tx_state" (txStPV t)) { s with txState := t } := by rep_upd hR
theorem Rep.setTxFrameLen (hR : Rep env s) (n : Nat) :
    Rep (env.set "self.tx_frame_length" (pint n)) { s with txFrameLen := n } := by rep_upd hR
theorem Rep.setTxSeq (hR : Rep env s) (n : Nat) :
    Rep (env.set "self.tx_seqnum" (pint n)) { s with txSeq := n } := by rep_upd hR
theorem Rep.setTxBlockCnt (hR : Rep env s) (n : Nat) :
    Rep (env.set "self.tx_block_counter" (pint n)) { s with txBlockCnt := n } := by rep_upd hR
theorem Rep.setRemoteBs (hR : Rep env s) (o : Option Nat) :
    Rep (env.set "self.remote_blocksize" (optPV o)) { s with remoteBs := o } := by rep_upd hR
theorem Rep.setWftCnt (hR : Rep env s) (n : Nat) :
    Rep (env.set "self.wft_counter" (pint n)) { s with wftCnt := n } := by rep_upd hR
theorem Rep.setPendingFc (hR : Rep env s) (b : Bool) :
    Rep (env.set "self.pending_flow_control_tx" (pbool b)) { s with pendingFc := b } := by rep_upd hR
theorem Rep.setStandby (hR : Rep env s) (o : Option CanMsg) :
    Rep (env.set "self.tx_standby_msg" (optMsgPV o)) { s with standby := o } := by rep_upd hR
theorem Rep.setLastFc (hR : Rep env s) (o : Option FcFrame) :
    Rep (env.set "self.last_flow_control_frame" (optFcPV o)) { s with lastFc := o } := by rep_upd hR
theorem Rep.setFcStart (hR : Rep env s) (o : Option Nat) :
    Rep (env.set "self.timer_rx_fc.start_time" (optPV o)) { s with timerFc := { s.timerFc with start := o } } := by rep_upd hR
theorem Rep.setStStart (hR : Rep env s) (o : Option Nat) :
    Rep (env.set "self.timer_tx_stmin.start_time" (optPV o)) { s with timerStmin := { s.timerStmin with start := o } } := by
  rep_upd hR
theorem Rep.setStTo (hR : Rep env s) (n : Nat) :
    Rep (env.set "self.timer_tx_stmin.timeout" (pint n)) { s with timerStmin := { s.timerStmin with timeout := n } } := by
  rep_upd hR
theorem Rep.setLog (hR : Rep env s) (l : List Ev) :
    Rep (env.set "#log" (.list (histOf l))) { s with log := l } := by rep_upd hR
theorem Rep.setRl (hR : Rep env s) (l : Limiter) :
    Rep (env.set "#rl" (rlPV l)) { s with rl := l } := by rep_upd hR

/-- `_start_rx_fc_timer()` -/
theorem Rep.startFc (hR : Rep env s) :
    Rep ((env.set "self.timer_rx_fc.start_time" (pint s.now)).set "self.timer_rx_fc.timeout" (pint s.cfg.tFc)) s.startRxFcTimer := by
  unfold State.startRxFcTimer
  rep_upd hR
  rfl

/-- `_start_rx_cf_timer()` -/
theorem Rep.startCf (hR : Rep env s) :
    Rep ((env.set "self.timer_rx_cf.start_time" (pint s.now)).set "self.timer_rx_cf.timeout" (pint s.cfg.tCf)) s.startRxCfTimer := by
  unfold State.startRxCfTimer
  rep_upd hR
  rfl

/-- `_trigger_error(e)` -/
theorem Rep.error (hR : Rep env s) (e : Err) :
    Rep (env.set "#log" (.list (histOf s.log ++ [.py (.int 0), .py (.int s.now), .py (.int (errCode e))]))) (s.error e) :=
  hR.setLog (.err s.now e :: s.log)

end upd

/-! ### `_stop_sending` -/

section stop
variable {env : Env} {s : State}

theorem rep_stopCore (hR : Rep env s) :
    Rep (stopCore env) { s with txState := .idle, txFrameLen := 0, timerFc := s.timerFc.stop, timerStmin := s.timerStmin.stop,
                                remoteBs := none, txBlockCnt := 0, txSeq := 0, wftCnt := 0, standby := none } := by
  have hq := hR.req
  have hc := hR.consts
  cases hR
  unfold stopCore
  constructor
  case req =>
    intro r hr
    have := hq r hr
    repeat (first | exact this | refine ReqRep.set ?_ (by decide) _)
  case consts =>
    repeat (first | exact hc | refine ConstRep.set ?_ (by decide) _)
  all_goals simp [set_get, *, Timer.stop, optPV, optMsgPV]

/-- `self.active_send_request.complete(ok); self.active_send_request = None` -/
theorem rep_complete (hR : Rep env s) (r : Req) (ok : Bool) :
    Rep ((env.set "#log" (.list (histOf s.log ++ [.py (.int 1), .py (.int r.id), .py (.bool ok)]))).set
      "self.active_send_request" pnone) { s.emit (.done r.id ok) with active := none } := by
  have hc := hR.consts
  cases hR
  constructor
  case req => intro r hr; cases hr
  case consts => exact (hc.set (by decide) _).set (by decide) _
  all_goals simp [set_get, *, State.emit, histOf, encEv, objPV]

theorem frame_stopCore (xs : List String) (env : Env) : Frame xs env (stopCore env) := by
  unfold stopCore
  exact ((((((((((Frame.refl xs env).set (.inl (by decide)) _).set (.inl (by decide)) _).set (.inl (by decide)) _).set
    (.inl (by decide)) _).set (.inl (by decide)) _).set (.inl (by decide)) _).set (.inl (by decide)) _).set
    (.inl (by decide)) _).set (.inl (by decide)) _)

/-- the helper `_stop_sending(ok)` is the model's `stopSending ok` -/
theorem stopP_rep (hR : Rep env s) (ok : Bool) (xs : List String) :
    ∃ env', stopP ok env = .ok env' ∧ Rep env' (s.stopSending ok) ∧ Frame xs env env' := by
  cases ha : s.active with
  | none =>
    refine ⟨stopCore env, ?_, ?_, frame_stopCore xs env⟩
    · have h := hR.active
      simp only [ha, Option.isSome_none, objPV] at h
      simp [stopP, h]
    · have := rep_stopCore hR
      simpa [State.stopSending, ha] using this
  | some r =>
    refine ⟨stopCore ((env.set "#log" (.list (histOf s.log ++ [.py (.int 1), .py (.int r.id), .py (.bool ok)]))).set
      "self.active_send_request" pnone), ?_, ?_, ?_⟩
    · have h := hR.active
      simp only [ha, Option.isSome_some, objPV] at h
      simp [stopP, h, (hR.req r ha).id, hR.log]
    · have := rep_stopCore (rep_complete hR r ok)
      simpa [State.stopSending, ha] using this
    · exact (((Frame.refl xs env).set (.inl (by decide)) _).set (.inl (by decide)) _).trans (frame_stopCore xs _)

end stop

/-! ### the primitives, by name (proved once by `rfl`: the string `match` of `txFn` / `txProc` is never unfolded by `simp`) -/

theorem bi_none (fn : String) (args : List PV)
    (h : fn ∉ ["len", "int", "bool", "min", "max", "bytes", "isinstance_int", "isinstance_bool", "isinstance_float",
      "isinstance_int_float"]) : evalBuiltin fn args = none := evalBuiltin_none fn args h

section meths
variable (c : Cfg) (a : Addr) (now : Nat) (rl : Limiter) (env : Env)

theorem fn_allowed :
    (txMeths c a now rl).fn "self.rate_limiter.allowed_bytes" [] env = .ok (pint (rl.allowedBytes c.rlBitMax)) := rfl
theorem fn_fc_timed_out : (txMeths c a now rl).fn "self.timer_rx_fc.is_timed_out" [] env =
    timedOutP now (env "self.timer_rx_fc.start_time") (env "self.timer_rx_fc.timeout") := rfl
theorem fn_st_timed_out : (txMeths c a now rl).fn "self.timer_tx_stmin.is_timed_out" [] env =
    timedOutP now (env "self.timer_tx_stmin.start_time") (env "self.timer_tx_stmin.timeout") := rfl
theorem fn_remaining :
    (txMeths c a now rl).fn "self.active_send_request.generator.remaining_size" [] env = genRemaining env := rfl
theorem fn_depleted :
    (txMeths c a now rl).fn "self.active_send_request.generator.depleted" [] env = genDepleted env := rfl
theorem fn_total :
    (txMeths c a now rl).fn "self.active_send_request.generator.total_length" [] env = genTotal env := rfl
theorem fn_prefix :
    (txMeths c a now rl).fn "self.address.get_tx_payload_prefix" [] env = .ok (.bytes a.tx.txPrefix) := rfl
theorem fn_arb0 :
    (txMeths c a now rl).fn "self.address.get_tx_arbitration_id" [] env = .ok (pint (a.tx.txId .physical)) := rfl
theorem fn_arb1 (t : Tat) :
    (txMeths c a now rl).fn "self.address.get_tx_arbitration_id" [tatPV t] env = .ok (pint (a.tx.txId t)) := by
  cases t <;> rfl
theorem fn_bytearray (xs : List Sc) :
    (txMeths c a now rl).fn "bytearray" [.list xs] env = (bytesOfScs xs).map .bytes := rfl
theorem fn_make_tx_msg (i : Nat) (d : Bytes) :
    (txMeths c a now rl).fn "self._make_tx_msg" [pint i, .bytes d] env =
      (match makeTxMsg c a i d with
       | some m => .ok (msgPV m)
       | none => .error (.exc .ValueError)) := rfl
theorem fn_make_fc (st : Nat) :
    (txMeths c a now rl).fn "self._make_flow_control#flow_status" [pint st] env =
      (match makeFlowControl c a st with
       | some m => .ok (msgPV m)
       | none => .error (.exc .ValueError)) := rfl
theorem fn_err_overflow (v : PV) :
    (txMeths c a now rl).fn "isotp.errors.OverflowError" [v] env = .ok (pint (errCode .Overflow)) := rfl
theorem fn_err_unexpected (v : PV) :
    (txMeths c a now rl).fn "isotp.errors.UnexpectedFlowControlError" [v] env = .ok (pint (errCode .UnexpectedFlowControl)) := rfl
theorem fn_err_unsupported (v : PV) :
    (txMeths c a now rl).fn "isotp.errors.UnsupportedWaitFrameError" [v] env = .ok (pint (errCode .UnsupportedWaitFrame)) := rfl
theorem fn_err_maxwait (v : PV) :
    (txMeths c a now rl).fn "isotp.errors.MaximumWaitFrameReachedError" [v] env =
      .ok (pint (errCode .MaximumWaitFrameReached)) := rfl
theorem fn_err_fctimeout (v : PV) :
    (txMeths c a now rl).fn "isotp.errors.FlowControlTimeoutError" [v] env = .ok (pint (errCode .FlowControlTimeout)) := rfl
theorem fn_err_badgen (v : PV) :
    (txMeths c a now rl).fn "isotp.errors.BadGeneratorError" [v] env = .ok (pint (errCode .BadGenerator)) := rfl
theorem fn_format (vs : List PV) : (txMeths c a now rl).fn "__format__" vs env = .ok (.str "") := rfl
theorem fn_report (m : PV) (b : Bool) :
    (txMeths c a now rl).fn "self.ProcessTxReport#msg#immediate_rx_required" [m, pbool b] env = reportP m b := rfl

theorem proc_fc_stop :
    (txMeths c a now rl).proc "self.timer_rx_fc.stop" [] env = .ok (env.set "self.timer_rx_fc.start_time" pnone) := rfl
theorem proc_st_start :
    (txMeths c a now rl).proc "self.timer_tx_stmin.start" [] env = .ok (env.set "self.timer_tx_stmin.start_time" (pint now)) := rfl
theorem proc_st_set_timeout (n : Nat) :
    (txMeths c a now rl).proc "self.timer_tx_stmin.set_timeout" [nsPV (some n)] env =
      .ok (env.set "self.timer_tx_stmin.timeout" (pint n)) := by
  have e : (txMeths c a now rl).proc "self.timer_tx_stmin.set_timeout" [nsPV (some n)] env =
      (if (0 : Int) ≤ (n : Int) ∧ (1000000000 : Nat) = 1000000000 then .ok (env.set "self.timer_tx_stmin.timeout" (pint n))
       else .error (.unsupported "set_timeout of a float that is not a nanosecond count")) := rfl
  rw [e]; simp
theorem proc_stop (ok : Bool) : (txMeths c a now rl).proc "self._stop_sending#success" [pbool ok] env = stopP ok env := rfl
theorem proc_consume (n : Nat) (exact : Bool) :
    (txMeths c a now rl).proc "payload:=self.active_send_request.generator.consume#enforce_exact" [pint n, pbool exact] env =
      consumeP n exact env := rfl
theorem proc_start_fc : (txMeths c a now rl).proc "self._start_rx_fc_timer" [] env =
    .ok ((env.set "self.timer_rx_fc.start_time" (pint now)).set "self.timer_rx_fc.timeout" (pint c.tFc)) := rfl
theorem proc_start_cf : (txMeths c a now rl).proc "self._start_rx_cf_timer" [] env =
    .ok ((env.set "self.timer_rx_cf.start_time" (pint now)).set "self.timer_rx_cf.timeout" (pint c.tCf)) := rfl
theorem proc_trigger (code : Nat) :
    (txMeths c a now rl).proc "self._trigger_error" [pint code] env = trigP now code env := rfl
theorem proc_inform (n : Nat) : (txMeths c a now rl).proc "self.rate_limiter.inform_byte_sent" [pint n] env =
    .ok (env.set "#rl" (rlPV (rl.inform now n))) := rfl

end meths

/-! ## 1. Region `standby` (body of the TRANSMIT_SF_STANDBY / TRANSMIT_FF_STANDBY branch) -/

/-- the model's branch (`processTx`, `.sfStandby | .ffStandby`) -/
def standbyM (s : State) (allowed : Nat) : State × Option CanMsg :=
  match s.standby with
  | some msg =>
    if msg.data.length ≤ allowed then
      let s := { s with standby := none }
      if s.txState = .ffStandby then ({ s.startRxFcTimer with txState := .waitFc }, some msg)
      else (s.stopSending true, some msg)
    else (s, none)
  | none => (s, none)

theorem standby_agrees (s : State) (env : Env) (allowed : Nat) (hR : Rep env s)
    (ha : env "allowed_bytes" = some (pint allowed))
    (hd : ∀ m, s.standby = some m → env "self.tx_standby_msg.data" = some (.bytes m.data)) :
    ∃ env', execBlock (txM s) env Src.TransportLayerLogic_p_process_tx__standby = .ok (.next env') ∧
      Rep env' (standbyM s allowed).1 ∧
      (match (standbyM s allowed).2 with
       | some m => env' "output_msg" = some (msgPV m)
       | none => env' "output_msg" = env "output_msg") ∧
      Frame ["output_msg"] env env' := by
  cases hs : s.standby with
  | none =>
    refine ⟨env, ?_, ?_, ?_, Frame.refl _ _⟩
    · have h := hR.standby
      simp only [hs, optMsgPV] at h
      simp [Src.TransportLayerLogic_p_process_tx__standby, execBlock, execStmt, eval, h]
    · simpa [standbyM, hs] using hR
    · simp [standbyM, hs]
  | some m =>
    have h := hR.standby
    simp only [hs, optMsgPV] at h
    have hd' := hd m hs
    by_cases hle : m.data.length ≤ allowed
    · by_cases hff : s.txState = .ffStandby
      · refine ⟨?e, ?h1, ?h2, ?h3, ?h4⟩
        case h1 =>
          simp [Src.TransportLayerLogic_p_process_tx__standby, execBlock, execStmt, eval, evalArgs, h, hd', ha,
            builtin_len_bytes, evalCmp_le_pint, hle, set_get, hR.txState, hR.consts.ffStandby, hR.consts.waitFc, pvEq_txSt, hff,
            bi_none, proc_start_fc]
          rfl
        case h2 =>
          have := ((((hR.setOther (k := "output_msg") (by decide) (msgPV m)).setStandby none).startFc).setTxState .waitFc)
          simpa [standbyM, hs, hle, hff, optMsgPV] using this
        case h3 => simp [standbyM, hs, hle, hff, set_get]
        case h4 =>
          exact (((((Frame.refl _ env).set (.inr (by decide)) _).set (.inl (by decide)) _).set (.inl (by decide)) _).set
            (.inl (by decide)) _).set (.inl (by decide)) _
      · have R1 : Rep ((env.set "output_msg" (msgPV m)).set "self.tx_standby_msg" pnone) { s with standby := none } := by
          simpa [optMsgPV] using (hR.setOther (k := "output_msg") (by decide) (msgPV m)).setStandby none
        obtain ⟨env', he, hR', hF⟩ := stopP_rep R1 true []
        refine ⟨env', ?h1, ?h2, ?h3, ?h4⟩
        case h1 =>
          simp [Src.TransportLayerLogic_p_process_tx__standby, execBlock, execStmt, eval, evalArgs, h, hd', ha,
            builtin_len_bytes, evalCmp_le_pint, hle, set_get, hR.txState, hR.consts.ffStandby, pvEq_txSt, hff,
            bi_none, proc_stop, he]
        case h2 => simpa [standbyM, hs, hle, hff] using hR'
        case h3 =>
          simp only [standbyM, hs, hle, hff, if_true, if_false]
          rw [hF "output_msg" (by decide) (by simp)]
          simp [set_get]
        case h4 =>
          exact ((((Frame.refl _ env).set (.inr (by decide)) _).set (.inl (by decide)) _)).trans (hF.mono (by simp))
    · refine ⟨env, ?_, ?_, ?_, Frame.refl _ _⟩
      · simp [Src.TransportLayerLogic_p_process_tx__standby, execBlock, execStmt, eval, evalArgs, h, hd', ha,
          builtin_len_bytes, evalCmp_le_pint, hle]
      · simpa [standbyM, hs, hle] using hR
      · simp [standbyM, hs, hle]

end Isotp.PyAgree.Tx
